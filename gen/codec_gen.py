"""Generated layer for C05 (source/encoding.c, portable code): the integer expressions the hand-written model
`Model/Codec.lean` transcribes are re-cut from /repo's *current* source text on every run and translated through
gen/cfun.py (clang-14 AST -> Lean) into lean/AwsVerif/Gen/CodecFns.lean (namespace AwsVerif.Gen.CodecFns):

  * whole functions: aws_hex_compute_encoded_len, aws_hex_compute_decoded_len, aws_base64_compute_encoded_len,
    s_hex_decode_char_to_int
  * aws_base64_compute_decoded_len with `input[len - 1]` / `input[len - 2]` turned into parameters
  * aws_base64_encode (portable loop): the block assembly (with the two `i + k < len` tests as flags), the four table
    indices, block_count, remainder_count, the two padding store offsets
  * s_base64_get_decoded_value: the acceptance condition on the table value (BASE64_SENTINEL_VALUE as its literal)
  * aws_base64_decode (portable): the three output-byte expressions (must be textually the same in the body loop and in
    the final quantum), the two trailing-bits tests, the literal that marks a rejected table entry
  * aws_hex_encode / aws_hex_encode_append_dynamic: the two digit indices (same text in both); aws_hex_decode: the
    pair combination
  * aws_utf8_decoder_update: the lead-byte classification (remaining / codepoint / min per branch), the continuation test,
    the accumulation, the overlong and surrogate tests

The text around the cut pieces must have the known shape; anything else raises GenError (a broken correspondence).
`Proofs/C05/GenBridge.lean` proves Model.f = Gen.f for each piece.
"""
import os, re
from . import cfun, bytebuf_fns
from .cfun import GenError
from .bytebuf_fns import _strip_comments


def _norm(t):
    return "".join(t.split())


def _body(src, name):
    m = re.search(r"\b" + re.escape(name) + r"\s*\(([^;{]*)\)\s*\{", src)
    if not m:
        raise GenError(f"encoding.c: definition of {name} not found")
    i, depth = m.end(), 1
    while i < len(src) and depth:
        depth += {"{": 1, "}": -1}.get(src[i], 0)
        i += 1
    if depth:
        raise GenError(f"encoding.c: unbalanced braces in {name}")
    return m.group(1), src[m.end():i - 1]


def _only(names, text, what):
    ids = set(re.findall(r"\b[A-Za-z_]\w*\b", re.sub(r"'(?:\\.|[^'\\])'", "", text)))
    ids -= {"uint8_t", "uint32_t", "size_t", "int64_t", "x", "X"} if False else set()
    extra = {i for i in ids if not re.fullmatch(r"0[xX][0-9a-fA-F]+|\d+", i)} - set(names)
    if extra:
        raise GenError(f"encoding.c: {what}: `{' '.join(text.split())}` mentions {sorted(extra)}")
    return " ".join(text.split())


def stub_source(repo, sentinel):
    src = _strip_comments(open(os.path.join(repo, "source", "encoding.c")).read())
    out, doc = [], {}

    # ---- aws_base64_compute_decoded_len
    _, b = _body(src, "aws_base64_compute_decoded_len")
    b2 = re.sub(r"AWS_ASSERT\s*\([^;]*\)\s*;", "", b)
    pre = re.search(r"const\s+size_t\s+len\s*=\s*to_decode->len\s*;\s*const\s+uint8_t\s*\*\s*input\s*=\s*to_decode->ptr\s*;", b2)
    if not pre:
        raise GenError("aws_base64_compute_decoded_len: `len = to_decode->len; input = to_decode->ptr;` not found")
    rest = b2[pre.end():].replace("input[len - 1]", "last").replace("input[len - 2]", "last2")
    if "input" in rest or "to_decode" in rest:
        raise GenError("aws_base64_compute_decoded_len: reads the text other than at len - 1 / len - 2")
    out.append("static int verif_c05_declen(size_t len, uint8_t last, uint8_t last2, size_t *decoded_len) {" + rest + "}")
    doc["verif_c05_declen"] = "`aws_base64_compute_decoded_len` with `input[len - 1]`, `input[len - 2]` as parameters"

    # ---- aws_base64_encode, portable loop
    _, b = _body(src, "aws_base64_encode")
    m = re.search(r"size_t\s+block_count\s*=\s*([^;]*);\s*size_t\s+remainder_count\s*=\s*([^;]*);\s*size_t\s+str_index\s*=\s*output->len\s*;", b)
    if not m or "size_tbuffer_length=to_encode->len;" not in _norm(b):
        raise GenError("aws_base64_encode: block_count / remainder_count / str_index declarations not found")
    out.append(f"static size_t verif_c05_block_count(size_t buffer_length) {{ return {_only(['buffer_length'], m.group(1), 'block_count')}; }}")
    out.append(f"static size_t verif_c05_remainder(size_t buffer_length) {{ return {_only(['buffer_length'], m.group(2), 'remainder_count')}; }}")
    lm = re.search(r"for\s*\(\s*size_t\s+i\s*=\s*0\s*;\s*i\s*<\s*to_encode->len\s*;\s*i\s*\+=\s*3\s*\)\s*\{", b)
    if not lm:
        raise GenError("aws_base64_encode: `for (size_t i = 0; i < to_encode->len; i += 3)` not found")
    j, depth = lm.end(), 1
    while j < len(b) and depth:
        depth += {"{": 1, "}": -1}.get(b[j], 0)
        j += 1
    loop = b[lm.end():j - 1]
    idx = re.findall(r"output->buffer\s*\[\s*str_index\+\+\s*\]\s*=\s*BASE64_ENCODING_TABLE\s*\[([^\]]*)\]\s*;", loop)
    if len(idx) != 4:
        raise GenError("aws_base64_encode: expected four `output->buffer[str_index++] = BASE64_ENCODING_TABLE[…]` stores")
    head = loop[:loop.index("output->buffer")]
    want = ("uint32_tblock=to_encode->ptr[i];block<<=8;if(AWS_LIKELY(i+1<buffer_length)){block=block|to_encode->ptr[i+1];}"
            "block<<=8;if(AWS_LIKELY(i+2<to_encode->len)){block=block|to_encode->ptr[i+2];}")
    if _norm(head) != want:
        raise GenError("aws_base64_encode: the block assembly no longer has the known shape: " + _norm(head)[:300])
    tail = loop[loop.index("output->buffer"):]
    if _norm(re.sub(r"output->buffer\s*\[\s*str_index\+\+\s*\]\s*=\s*BASE64_ENCODING_TABLE\s*\[([^\]]*)\]\s*;", "", tail)) != "":
        raise GenError("aws_base64_encode: statements other than the four stores after the block assembly")
    out.append("static uint32_t verif_c05_enc_block(uint8_t b0, uint8_t b1, uint8_t b2, bool has1, bool has2) {\n"
               "    uint32_t block = b0;\n    block <<= 8;\n    if (has1) { block = block | b1; }\n    block <<= 8;\n"
               "    if (has2) { block = block | b2; }\n    return block;\n}")
    doc["verif_c05_enc_block"] = "block assembly of the portable encoder loop (`i + 1 < len`, `i + 2 < len` as flags)"
    for k, e in enumerate(idx):
        out.append(f"static uint32_t verif_c05_enc_idx{k}(uint32_t block) {{ return {_only(['block'], e, 'table index')}; }}")
        doc[f"verif_c05_enc_idx{k}"] = f"`BASE64_ENCODING_TABLE[{' '.join(e.split())}]`"
    after = b[j:]
    pm = re.search(r"if\s*\(\s*remainder_count\s*>\s*0\s*\)\s*\{\s*output->buffer\s*\[([^\]]*)\]\s*=\s*('(?:\\.|[^'\\])')\s*;\s*"
                   r"if\s*\(\s*remainder_count\s*==\s*1\s*\)\s*\{\s*output->buffer\s*\[([^\]]*)\]\s*=\s*('(?:\\.|[^'\\])')\s*;\s*\}\s*\}\s*"
                   r"output->len\s*\+=\s*encoded_length\s*;", after)
    if not pm:
        raise GenError("aws_base64_encode: the padding stores after the loop no longer have the known shape")
    for k, e in ((1, pm.group(1)), (2, pm.group(3))):
        e2 = e.replace("output->len", "out_len")
        out.append(f"static size_t verif_c05_pad_idx{k}(size_t out_len, size_t block_count) {{ return {_only(['out_len', 'block_count'], e2, 'padding offset')}; }}")
        doc[f"verif_c05_pad_idx{k}"] = f"`output->buffer[{' '.join(e.split())}] = {pm.group(2 * k)}`"
    out.append(f"static uint8_t verif_c05_pad_char1(void) {{ return {pm.group(2)}; }}")
    out.append(f"static uint8_t verif_c05_pad_char2(void) {{ return {pm.group(4)}; }}")

    # ---- s_base64_get_decoded_value
    _, b = _body(src, "s_base64_get_decoded_value")
    m = re.search(r"uint8_t\s+decode_value\s*=\s*BASE64_DECODING_TABLE\s*\[\s*\(size_t\)\s*to_decode\s*\]\s*;\s*if\s*\((.*?)\)\s*\{\s*\*value\s*=\s*decode_value\s*;"
                  r"\s*return\s+AWS_OP_SUCCESS\s*;\s*\}\s*return\s+AWS_OP_ERR\s*;", b, re.S)
    if not m:
        raise GenError("s_base64_get_decoded_value no longer has the known shape")
    cond = m.group(1).replace("BASE64_SENTINEL_VALUE", str(sentinel))
    out.append(f"static bool verif_c05_accept(uint8_t decode_value, int8_t allow_sentinel) {{ return ({_only(['decode_value', 'allow_sentinel'], cond, 'acceptance test')}); }}")
    doc["verif_c05_accept"] = f"`s_base64_get_decoded_value`: `{' '.join(m.group(1).split())}` (BASE64_SENTINEL_VALUE = {sentinel})"

    # ---- aws_base64_decode, portable
    _, b = _body(src, "aws_base64_decode")
    stores = re.findall(r"output->buffer\s*\[\s*buffer_index(?:\+\+)?\s*\]\s*=\s*\(uint8_t\)\s*\(((?:[^();]|\([^;]*?\))*)\)\s*;", b)
    stores = [" ".join(s.split()) for s in stores]
    if len(stores) != 6 or stores[:3] != stores[3:]:
        raise GenError("aws_base64_decode: expected the same three output-byte expressions in the body loop and in the final quantum, found: " + repr(stores))
    for k, (e, ps) in enumerate(zip(stores[:3], (("value1", "value2"), ("value2", "value3"), ("value3", "value4")))):
        out.append(f"static uint8_t verif_c05_dec{k}(uint8_t {ps[0]}, uint8_t {ps[1]}) {{ return (uint8_t)({_only(ps, e, 'output byte')}); }}")
        doc[f"verif_c05_dec{k}"] = f"`(uint8_t)({e})`"
    m = re.search(r"if\s*\(\s*value3\s*==\s*BASE64_SENTINEL_VALUE\s*\)\s*\{\s*if\s*\(\s*value4\s*!=\s*BASE64_SENTINEL_VALUE\s*\|\|\s*(\([^()]*\)\s*!=\s*0)\s*\)\s*\{"
                  r"\s*return\s+aws_raise_error\s*\(\s*AWS_ERROR_INVALID_BASE64_STR\s*\)\s*;\s*\}\s*\}\s*else\s+if\s*\(\s*value4\s*==\s*BASE64_SENTINEL_VALUE\s*&&\s*(\([^()]*\)\s*!=\s*0)\s*\)", b)
    if not m:
        raise GenError("aws_base64_decode: the padding / trailing-bits checks of the final quantum no longer have the known shape")
    out.append(f"static bool verif_c05_trail2(uint8_t value2) {{ return ({_only(['value2'], m.group(1), 'trailing bits test')}); }}")
    out.append(f"static bool verif_c05_trail3(uint8_t value3) {{ return ({_only(['value3'], m.group(2), 'trailing bits test')}); }}")
    inv = re.search(r"decode_value\s*!=\s*(0[xX][0-9a-fA-F]+|\d+)", cond)
    if not inv:
        raise GenError("s_base64_get_decoded_value: invalid-entry marker not found")

    # ---- hex
    hexidx = None
    for fn in ("aws_hex_encode", "aws_hex_encode_append_dynamic"):
        _, b = _body(src, fn)
        pair = re.findall(r"output->buffer\s*\[\s*written\+\+\s*\]\s*=\s*HEX_CHARS\s*\[([^\]]*\])?([^\]]*)\]\s*;", b)
        es = re.findall(r"output->buffer\s*\[\s*written\+\+\s*\]\s*=\s*HEX_CHARS\s*\[(.*?)\]\s*;", b)
        es = [" ".join(e.replace("to_encode->ptr[i]", "b").split()) for e in es]
        if len(es) != 2:
            raise GenError(f"{fn}: expected two `HEX_CHARS[…]` stores")
        if hexidx is not None and es != hexidx:
            raise GenError("aws_hex_encode and aws_hex_encode_append_dynamic no longer use the same digit expressions")
        hexidx = es
    for k, e in enumerate(hexidx):
        out.append(f"static uint32_t verif_c05_hex_idx{k}(uint8_t b) {{ return {_only(['b'], e, 'hex digit index')}; }}")
        doc[f"verif_c05_hex_idx{k}"] = f"`HEX_CHARS[{e}]` with b = to_encode->ptr[i]"
    _, b = _body(src, "aws_hex_decode")
    m = re.search(r"uint8_t\s+value\s*=\s*([^;]*);\s*value\s*\|=\s*low_value\s*;\s*output->buffer\s*\[\s*written\+\+\s*\]\s*=\s*value\s*;", b)
    if not m:
        raise GenError("aws_hex_decode: the pair combination no longer has the known shape")
    out.append(f"static uint8_t verif_c05_hex_pair(uint8_t high_value, uint8_t low_value) {{ uint8_t value = {_only(['high_value', 'uint8_t'], m.group(1), 'hex pair')}; value |= low_value; return value; }}")

    # ---- UTF-8
    _, b = _body(src, "aws_utf8_decoder_update")
    m = re.search(r"if\s*\(\s*decoder->remaining\s*==\s*0\s*\)\s*\{(.*?)\}\s*else\s*\{\s*return\s+aws_raise_error\s*\(\s*AWS_ERROR_INVALID_UTF8\s*\)\s*;\s*\}\s*\}\s*else\s*\{", b, re.S)
    if not m:
        raise GenError("aws_utf8_decoder_update: the lead-byte branch no longer has the known shape")
    lead_text = m.group(1) + "}"
    branches = re.findall(r"if\s*\(([^{]*?)\)\s*\{\s*decoder->remaining\s*=\s*([^;]*);\s*decoder->codepoint\s*=\s*([^;]*);\s*decoder->min\s*=\s*([^;]*);\s*\}", lead_text)
    left = re.sub(r"(?:else\s*)?if\s*\(([^{]*?)\)\s*\{\s*decoder->remaining\s*=\s*([^;]*);\s*decoder->codepoint\s*=\s*([^;]*);\s*decoder->min\s*=\s*([^;]*);\s*\}", "", lead_text)
    if len(branches) != 4 or _norm(left) != "":
        raise GenError("aws_utf8_decoder_update: expected four lead-byte branches setting remaining / codepoint / min")
    for field, pos, ty in (("remaining", 1, "uint8_t"), ("codepoint", 2, "uint32_t"), ("min", 3, "uint32_t")):
        chain = " else ".join(f"if ({_only(['byte'], br[0], 'lead test')}) {{ return {_only(['byte'], br[pos], field)}; }}" for br in branches)
        out.append(f"static uint32_t verif_c05_utf8_lead_{field}(uint8_t byte) {{ {chain} else {{ return 255; }} }}")
        doc[f"verif_c05_utf8_lead_{field}"] = f"lead byte: `decoder->{field}` per branch of the if-chain (255 = AWS_ERROR_INVALID_UTF8)"
    cont = b[m.end():]
    m1 = re.search(r"if\s*\(([^{]*?)\)\s*\{\s*return\s+aws_raise_error\s*\(\s*AWS_ERROR_INVALID_UTF8\s*\)\s*;\s*\}\s*decoder->codepoint\s*=\s*([^;]*);"
                   r"\s*if\s*\(\s*--decoder->remaining\s*==\s*0\s*\)\s*\{\s*if\s*\(([^{]*?)\)\s*\{\s*return\s+aws_raise_error\s*\(\s*AWS_ERROR_INVALID_UTF8\s*\)\s*;\s*\}"
                   r"\s*if\s*\(([^{]*?)\)\s*\{\s*return\s+aws_raise_error\s*\(\s*AWS_ERROR_INVALID_UTF8\s*\)\s*;\s*\}\s*\}\s*\}", cont)
    if not m1:
        raise GenError("aws_utf8_decoder_update: the continuation branch no longer has the known shape")
    sub = lambda t: t.replace("decoder->codepoint", "codepoint").replace("decoder->min", "min")
    out.append(f"static bool verif_c05_utf8_not_cont(uint8_t byte) {{ return ({_only(['byte'], m1.group(1), 'continuation test')}); }}")
    out.append(f"static uint32_t verif_c05_utf8_accum(uint32_t codepoint, uint8_t byte) {{ return {_only(['codepoint', 'byte'], sub(m1.group(2)), 'accumulation')}; }}")
    out.append(f"static bool verif_c05_utf8_overlong(uint32_t codepoint, uint32_t min) {{ return ({_only(['codepoint', 'min'], sub(m1.group(3)), 'overlong test')}); }}")
    out.append(f"static bool verif_c05_utf8_surrogate(uint32_t codepoint) {{ return ({_only(['codepoint'], sub(m1.group(4)), 'surrogate test')}); }}")
    _, fb = _body(src, "aws_utf8_decoder_finalize")
    if not re.search(r"bool\s+valid\s*=\s*decoder->remaining\s*==\s*0\s*;", fb):
        raise GenError("aws_utf8_decoder_finalize: `bool valid = decoder->remaining == 0;` not found")
    return "\n".join(out) + "\n", doc, int(inv.group(1), 0)


def _callee_name(n):
    x = n
    while isinstance(x, dict) and x.get("kind") in ("ImplicitCastExpr", "ParenExpr") and x.get("inner"):
        x = x["inner"][0]
    return (x.get("referencedDecl") or {}).get("name") if isinstance(x, dict) else None


def _drop_expect(n):
    """`__builtin_expect(e, c)` (AWS_LIKELY / AWS_UNLIKELY) has the value of `e`"""
    if n.get("kind") == "CallExpr" and n.get("inner") and _callee_name(n["inner"][0]) == "__builtin_expect":
        return n["inner"][1]
    return n


def _qt(n):
    t = n.get("type", {})
    return (t.get("desugaredQualType") or t.get("qualType") or "").strip()


def _unsigned_promotion_shift(n):
    """`u >> k` where `u` is an unsigned char / unsigned short promoted to int: the promoted value is non-negative, so the
    shift is the logical one; retype the promotion as unsigned int (the translator refuses `>>` on signed operands)"""
    if n.get("kind") == "BinaryOperator" and n.get("opcode") == ">>" and n.get("inner"):
        lhs = n["inner"][0]
        if lhs.get("kind") == "ImplicitCastExpr" and _qt(lhs) == "int" and lhs.get("inner"):
            src = lhs["inner"][0]
            while src.get("kind") in ("ImplicitCastExpr", "ParenExpr") and src.get("castKind", "LValueToRValue") == "LValueToRValue" and src.get("inner") and _qt(src) != "int":
                if _qt(src) in ("uint8_t", "unsigned char", "uint16_t", "unsigned short"):
                    break
                src = src["inner"][0]
            if _qt(src) in ("uint8_t", "unsigned char", "uint16_t", "unsigned short"):
                lhs["type"] = {"qualType": "unsigned int"}
                n["type"] = {"qualType": "unsigned int"}
    return n


def _translate(node, name, inc):
    node = bytebuf_fns._walk_replace(node, _drop_expect)
    node = bytebuf_fns._walk_replace(node, _unsigned_promotion_shift)
    names = set()
    cfun.collect_enum_names(node, names)
    enums = cfun.enum_probe(sorted(names), inc)
    tr = cfun.FnTranslator(bytebuf_fns.prepare(node), name, lambda c: None, enums, fuel=8)
    return tr.translate()


WHOLE = ["aws_hex_compute_encoded_len", "aws_hex_compute_decoded_len", "aws_base64_compute_encoded_len", "s_hex_decode_char_to_int"]


def generate(repo, cfg_inc, sentinel):
    inc = ["-I" + os.path.join(repo, "include"), "-I" + cfg_inc]
    path = os.path.join(repo, "source", "encoding.c")
    stubs, doc, invalid = stub_source(repo, sentinel)
    tu = f'#include <stdbool.h>\n#include "{path}"\n' + stubs
    out = ["import AwsVerif.Model.CSem",
           "/-! GENERATED by gen/codec_gen.py (through gen/cfun.py) from /repo/source/encoding.c on every check — do not edit.",
           "C integers are `Nat` (two's complement), every wrapping operation carries its `% 2^w`. -/",
           "set_option linter.unusedVariables false", "namespace AwsVerif.Gen.CodecFns", "open AwsVerif", ""]
    fns = {}
    for w in WHOLE:
        d = cfun.dump_functions(tu, w, inc)
        if w not in d:
            raise GenError(f"{w} not found in encoding.c")
        fns[w] = d[w]
    st = cfun.dump_functions(tu, "verif_c05_", inc)
    names = WHOLE + sorted(st)
    fns.update(st)
    for n in names:
        text, info = _translate(fns[n], n, inc)
        out += [f"/-- {doc.get(n, '`' + n + '` of encoding.c')} -/".replace("-/ -/", "-/"), text]
    out += ["/-- the table value `s_base64_get_decoded_value` treats as \"not in the alphabet\" -/", f"def invalidMarker : Nat := {invalid}", "",
            "end AwsVerif.Gen.CodecFns", ""]
    return "\n".join(out)
