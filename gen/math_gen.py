"""Generated layer for C16: every function of math.inl, math.fallback.inl, math.gcc_overflow.inl,
math.gcc_builtin.inl and clock.inl is re-translated from /repo's headers into Lean on every run.

Each variant file is parsed in its own namespace by re-including it with all of its function names
renamed by a prefix (the same device the C harness uses to link all variants side by side).
"""
import os, re, hashlib
from . import cfun, math_varargs, math_float, math_asm
from .cfun import GenError

VARIANTS = [
    # key, header, C prefix, Lean namespace
    ("fb", "math.fallback.inl", "fb_", "Fallback"),
    ("ov", "math.gcc_overflow.inl", "ov_", "Overflow"),
    ("bi", "math.gcc_builtin.inl", "bi_", "Builtin"),
    ("mi", "math.inl", "mi_", "MathInl"),
    ("ck", "clock.inl", "ck_", "Clock"),
]
ASM = ("ax", "math.gcc_x64_asm.inl", "ax_", None)   # compiled, hand-modelled (not translatable)
NOT_TRANSLATED = {"aws_min_float", "aws_max_float", "aws_min_double", "aws_max_double"}   # floating point: outside cfun's subset, translated by gen/math_float.py
DEFAULT_ORDER = ["ov", "bi", "mi", "ck"]   # what an un-prefixed call resolves to in this build configuration
FUEL = 70   # every loop in these files runs at most 64 times


def guard_of(header):
    return "AWS_COMMON_" + header.upper().replace(".", "_")


def tu_text(repo, which):
    """translation unit that defines every variant (prefixed) beside the default configuration"""
    inc = os.path.join(repo, "include", "aws", "common")
    out = ["#include <aws/common/common.h>", "#include <aws/common/math.h>", "#include <aws/common/clock.h>", ""]
    for key, hdr, pre, _ in which:
        fns = cfun.inl_functions(os.path.join(inc, hdr))
        if not fns:
            raise GenError(f"no functions recognised in {hdr}")
        for ret, name, params in fns:
            out.append(f"#define {name} {pre}{name}")
        for ret, name, params in fns:
            out.append(f"static inline {ret} {name}({params});")
        out.append(f"#undef {guard_of(hdr)}")
        out.append(f"#include <aws/common/{hdr}>")
        for ret, name, params in fns:
            out.append(f"#undef {name}")
        out.append("")
    return "\n".join(out) + "\n"


def includes(repo, cfg_inc):
    return ["-I" + os.path.join(repo, "include"), "-I" + cfg_inc]


def deps(node, acc):
    if node.get("kind") == "CallExpr":
        f = cfun.FnTranslator._strip(node["inner"][0])
        if f.get("kind") == "DeclRefExpr":
            acc.add(f["referencedDecl"]["name"])
    for c in node.get("inner", []):
        deps(c, acc)


_IMG = [("uint32_t", "uint64_t"), ("UINT32_MAX", "UINT64_MAX"), ("_u32", "_u64"), ("_i32", "_i64")]


def check_size_bits_branches(repo):
    """Only the SIZE_BITS == 64 branches of the size_t dispatchers are compiled (and therefore translated and proved)
    on this target.  The other branch is tied to the proved one textually: every `#if SIZE_BITS == ..` block that has
    both a 32-bit and a 64-bit branch must have, as its 32-bit branch, exactly the 64-bit branch with u64 -> u32
    (names and types); a block whose only branch is for another width than 64 is rejected.  GenError otherwise."""
    for hdr in ("math.inl", "math.fallback.inl", "math.gcc_builtin.inl", "math.gcc_overflow.inl", "math.gcc_x64_asm.inl", "clock.inl"):
        path = os.path.join(repo, "include", "aws", "common", hdr)
        lines = re.sub(r"/\*.*?\*/", "", open(path).read(), flags=re.S).splitlines()
        i = 0
        while i < len(lines):
            m = re.match(r"\s*#\s*if\s+SIZE_BITS\s*==\s*(\d+)\s*$", lines[i])
            if not m:
                if re.match(r"\s*#\s*(if|ifdef|ifndef|elif)\b.*\bSIZE_BITS\b", lines[i]):
                    raise GenError(f"{hdr}:{i + 1}: SIZE_BITS used in a preprocessor condition of an unknown form")
                i += 1
                continue
            branches, cur, key, start = {}, [], int(m.group(1)), i + 1
            i += 1
            while i < len(lines) and not re.match(r"\s*#\s*endif\b", lines[i]):
                l = lines[i]
                m2 = re.match(r"\s*#\s*elif\s+SIZE_BITS\s*==\s*(\d+)\s*$", l)
                if m2 or re.match(r"\s*#\s*else\b", l):
                    branches[key] = " ".join(" ".join(cur).split())
                    cur, key = [], (int(m2.group(1)) if m2 else "else")
                elif re.match(r"\s*#\s*(if|ifdef|ifndef|elif)\b", l):
                    raise GenError(f"{hdr}:{i + 1}: nested conditional inside a SIZE_BITS block")
                else:
                    cur.append(l)
                i += 1
            if i >= len(lines):
                raise GenError(f"{hdr}:{start}: unterminated SIZE_BITS block")
            branches[key] = " ".join(" ".join(cur).split())
            i += 1
            if "else" in branches and re.match(r"#\s*error\b", branches["else"]):
                del branches["else"]
            if 64 not in branches:
                raise GenError(f"{hdr}:{start}: SIZE_BITS block without a 64-bit branch: {branches}")
            other = branches.get(32, branches.get("else"))
            if set(branches) - {32, 64, "else"} or (32 in branches and "else" in branches):
                raise GenError(f"{hdr}:{start}: SIZE_BITS block with unexpected branches {sorted(map(str, branches))}")
            if other is not None:
                img = other
                for a, b in _IMG:
                    img = img.replace(a, b)
                if img != branches[64]:
                    raise GenError(f"{hdr}:{start}: the 32-bit branch `{other}` is not the u32 image of the proved 64-bit branch `{branches[64]}`")


def generate(repo, cfg_inc, varargs=True, errors=None):
    """returns (lean_math_text, lean_dispatch_text, meta) ; meta: list of dicts per function.
    varargs=False leaves source/math.c and the textual rules out.
    errors: None = strict (the first function outside the subset raises GenError).  A list = tolerant: every problem
    is appended to it as text and generation goes on; a function that cannot be translated (or calls one that cannot)
    gets no Lean definition but keeps its `meta` entry, with the info derived from its *signature* alone and
    info["untranslated"] = True, so that the C harness and the oracle still cover it.  The Lean texts returned in
    tolerant mode with errors are incomplete and must not be written."""
    tolerant = errors is not None

    def problem(msg):
        if not tolerant:
            raise GenError(msg)
        errors.append(msg)
    if varargs:
        try:
            check_size_bits_branches(repo)
        except GenError as e:
            problem(str(e))
    inc = includes(repo, cfg_inc)
    tu = tu_text(repo, VARIANTS)
    all_nodes = {}     # C prefixed name -> node
    float_nodes = []
    for key, hdr, pre, ns in VARIANTS:
        nodes = cfun.dump_functions(tu, pre, inc)
        expected = [n for _, n, _ in cfun.inl_functions(os.path.join(repo, "include", "aws", "common", hdr))]
        for n in expected:
            if pre + n not in nodes and n not in NOT_TRANSLATED:
                raise GenError(f"{hdr}: function {n} not found in the AST")
        for n in expected:
            if n in NOT_TRANSLATED:
                if pre + n not in nodes:
                    raise GenError(f"{hdr}: function {n} not found in the AST")
                float_nodes.append((key, ns, n, pre + n, nodes[pre + n]))
                continue
            all_nodes[pre + n] = (key, ns, n, nodes[pre + n])
    enum_names = set()
    for v in all_nodes.values():
        cfun.collect_enum_names(v[3], enum_names)
    enums = cfun.enum_probe(sorted(enum_names), inc)

    infos = {}     # prefixed name -> (lean qualified name, info)

    def resolve(cname):
        if cname in infos:
            return infos[cname]
        if cname in all_nodes:
            return None   # not yet translated (ordering handles this)
        for key in DEFAULT_ORDER:
            pre = [v for v in VARIANTS if v[0] == key][0][2]
            if pre + cname in infos:
                return infos[pre + cname]
        return None

    def canonical(cname):
        if cname in all_nodes:
            return cname
        for key in DEFAULT_ORDER:
            pre = [v for v in VARIANTS if v[0] == key][0][2]
            if pre + cname in all_nodes:
                return pre + cname
        return None

    # dependency order
    order, seen = [], set()

    def visit(cn, stack=()):
        if cn in seen:
            return
        if cn in stack:
            raise GenError("recursive functions are outside the subset: " + cn)
        d = set()
        deps(all_nodes[cn][3], d)
        for x in sorted(d):
            c = canonical(x)
            if c and c != cn:
                visit(c, stack + (cn,))
        seen.add(cn)
        order.append(cn)
    for cn in sorted(all_nodes, key=lambda c: ([v[0] for v in VARIANTS].index(all_nodes[c][0]), c)):
        visit(cn)

    chunks = []
    meta = []
    failed = set()
    for cn in order:
        key, ns, name, node = all_nodes[cn]
        lean_q = f"{ns}.{name}"
        tr, text, info, why = None, None, None, None
        try:
            tr = cfun.FnTranslator(node, name, resolve, enums, fuel=FUEL, strict_unwritten=True)
            d = set()
            deps(node, d)
            bad = sorted(x for x in d if canonical(x) in failed)
            if bad:
                raise GenError("calls " + ", ".join(bad) + ", which has no translation")
            text, info = tr.translate()
        except GenError as e:
            why = f"{name} ({key}): {e}"
            problem(why)
        if why is None:
            infos[cn] = (lean_q, info)
            chunks.append((ns, text))
            meta.append({"variant": key, "ns": ns, "name": name, "cname": cn, "info": info})
        else:
            failed.add(cn)
            if tr is not None:
                # signature-derived description: enough for the C dispatch, the case generator and the oracle
                info = {"kind": tr.kind, "params": tr.params, "ret": tr.ret, "outs": list(tr.null_tested),
                        "abort": tr.may_abort, "untranslated": True}
                infos[cn] = (lean_q, info)
                meta.append({"variant": key, "ns": ns, "name": name, "cname": cn, "info": info})

    # floating-point min/max: own translator (gen/math_float.py)
    for key, ns, name, cn, node in float_nodes:
        try:
            text, info = math_float.translate(node, name)
            chunks.append((ns, text))
        except GenError as e:
            problem(str(e))
            info = math_float.signature_info(node)
            if info is None:
                continue
            info["untranslated"] = True
        meta.append({"variant": key, "ns": ns, "name": name, "cname": cn, "info": info})

    # source/math.c (variadic checked sum): own translator, own namespace
    va_names = []
    if varargs:
        try:
            va_text, va_names = math_varargs.generate(repo, inc, resolve)
            chunks.append(("MathC", va_text))
        except GenError as e:
            problem(str(e))

    body = ["import AwsVerif.Model.CSem",
            "/-! GENERATED by gen/math_gen.py from /repo's include/aws/common/{math*.inl,clock.inl} and source/math.c — do not edit. -/",
            "set_option linter.unusedVariables false", "namespace AwsVerif.Gen.Math", ""]
    cur = None
    for ns, text in chunks:
        if ns != cur:
            if cur:
                body.append(f"end {cur}\n")
            body.append(f"namespace {ns}")
            cur = ns
        # references to other namespaces are qualified already (Ns.fn); inside own namespace the qualified name also resolves
        body.append(text)
    if cur:
        body.append(f"end {cur}\n")
    body.append("end AwsVerif.Gen.Math\n")
    lean_math = "\n".join(body)

    # dispatch for the driver
    d = ["import AwsVerif.Gen.Math",
         "/-! GENERATED by gen/math_gen.py — dispatch from (variant, function) to the generated definitions. -/",
         "namespace AwsVerif.Gen.MathDispatch", "open AwsVerif AwsVerif.Gen.Math", "",
         "def showRes : CSem.Res → String", "  | .ok v => s!\"ok {v}\"", "  | .err c => s!\"err {c}\"", "",
         "def dispatch (v f : String) (a : List Nat) : Option String :=", "  match v, f, a with"]
    for m in meta:
        info = m["info"]
        if info.get("untranslated"):
            continue
        nargs = [p for p in info["params"] if p[1][0] != "ptr"]
        pats = ", ".join(f"a{i}" for i in range(len(nargs)))
        args = " ".join(f"(a{i} % {1 << p[1][0]})" for i, p in enumerate(nargs))
        if info["kind"] == "value" and info["outs"]:
            args = " ".join([f"(a{i} % {1 << p[1][0]})" if p[1][0] != "ptr" else "true" for i, p in enumerate(info["params"])])
            # pointer params become `true` flags in parameter order
            aa, j = [], 0
            for p in info["params"]:
                if p[1][0] == "ptr":
                    aa.append("true")
                else:
                    aa.append(f"(a{j} % {1 << p[1][0]})"); j += 1
            args = " ".join(aa)
        call = f"{m['ns']}.{m['name']} {args}".strip()
        if info["kind"] == "status":
            rhs = f"some (showRes ({call}))"
        elif info["outs"]:
            if info["abort"]:
                rhs = f"some (match {call} with | some (r, o) => s!\"val {{r}} {{o}}\" | none => \"abort\")"
            else:
                rhs = f"some (let (r, o) := {call}; s!\"val {{r}} {{o}}\")"
        elif info["ret"] == (1, False):
            rhs = f"some (if {call} then \"val 1\" else \"val 0\")"
        else:
            rhs = f"some s!\"val {{{call}}}\""
        d.append(f"  | \"{m['variant']}\", \"{m['name']}\", [{pats}] => {rhs}")
        if info["kind"] == "value" and info["outs"]:
            # the same function called with NULL for its optional out-parameter
            call0 = call.replace(" true", " false")
            if info["abort"]:
                rhs0 = f"some (match {call0} with | some (r, o) => s!\"val {{r}}\" | none => \"abort\")"
            else:
                rhs0 = f"some (let (r, o) := {call0}; s!\"val {{r}}\")"
            d.append(f"  | \"{m['variant']}\", \"{m['name']}:null\", [{pats}] => {rhs0}")
    d.append("  | _, _, _ => none")
    d.append("")
    d.append("/-- variadic functions of source/math.c: `num`, then the arguments actually passed (possibly more than `num`) -/")
    d.append("def dispatchVarargs (f : String) (num : Nat) (a : List Nat) : Option String :=")
    d.append("  match f with")
    for n in va_names:
        d.append(f"  | \"{n}\" => some (showRes (MathC.{n} (num % {1 << 64}) (a.map (· % {1 << 64})) 0))")
    d.append("  | _ => none")
    d.append("")
    d.append("end AwsVerif.Gen.MathDispatch\n")
    return lean_math, "\n".join(d), meta


CT = {(64, False): "uint64_t", (32, False): "uint32_t", (16, False): "uint16_t", (8, False): "uint8_t",
      (64, True): "int64_t", (32, True): "int32_t", (16, True): "int16_t", (8, True): "int8_t", (1, False): "bool"}
UT = {64: "uint64_t", 32: "uint32_t", 16: "uint16_t", 8: "uint8_t", 1: "uint8_t"}


def c_dispatch(repo, meta):
    """C source fragment (included by harness/mathv.c): all variants side by side + a dispatch function"""
    inc = os.path.join(repo, "include", "aws", "common")
    tu = tu_text(repo, VARIANTS + [ASM])
    head = [tu, "#include <stdio.h>", "#include <string.h>", "#include <aws/common/error.h>",
            "static volatile unsigned long long ctx_sink;"]
    ctx_fns = []
    out = ["static int mathv_dispatch(const char *v, const char *f, int n, const unsigned long long *a) {"]
    entries = list(meta)
    # the assembly variant has the same signatures as the overflow variant
    asm_names = [nm for _, nm, _ in cfun.inl_functions(os.path.join(inc, ASM[1]))]
    by_name = {m["name"]: m for m in meta if m["variant"] == "ov"}
    for nm in asm_names:
        if nm in by_name:
            m = dict(by_name[nm]); m["variant"] = "ax"; m["cname"] = "ax_" + nm
            entries.append(m)
        else:
            raise GenError(f"assembly variant defines {nm} which the overflow variant does not")
    for m in entries:
        info = m["info"]
        ints = [p for p in info["params"] if p[1][0] != "ptr"]
        cond = f'if (!strcmp(v, "{m["variant"]}") && !strcmp(f, "{m["name"]}") && n == {len(ints)}) {{'
        args, j = [], 0
        for p in info["params"]:
            if p[1][0] == "ptr":
                args.append("&out")
            else:
                args.append(f"({CT[p[1]]})a[{j}]"); j += 1
        if info.get("float"):
            ft, ut = info["float"], UT[info["ret"][0]]
            body = (f"union {{ {ft} f; {ut} u; }} x, y, z; x.u = ({ut})a[0]; y.u = ({ut})a[1]; z.f = {m['cname']}(x.f, y.f); "
                    f'printf("P val %llu\\n", (unsigned long long)z.u); return 1;')
        elif info["kind"] == "status":
            ot = CT[[p for p in info["params"] if p[1][0] == "ptr"][0][1][1]]
            body = (f"{ot} out = ({ot})0xDEADBEEFDEADBEEFULL; aws_reset_error(); int rc = {m['cname']}({', '.join(args)}); "
                    f'if (rc == 0) printf("P ok %llu\\n", (unsigned long long)out); else printf("P err %d\\n", aws_last_error()); return 1;')
        elif info["outs"]:
            ot = CT[[p for p in info["params"] if p[1][0] == "ptr"][0][1][1]]
            body = (f"{ot} out = ({ot})0xDEADBEEFDEADBEEFULL; unsigned long long r = (unsigned long long)({UT[info['ret'][0]]}){m['cname']}({', '.join(args)}); "
                    f'printf("P val %llu %llu\\n", r, (unsigned long long)out); return 1;')
        else:
            body = (f"unsigned long long r = (unsigned long long)({UT[info['ret'][0]]}){m['cname']}({', '.join(args)}); "
                    f'printf("P val %llu\\n", r); return 1;')
        out.append("    " + cond + " " + body + " }")
        if m["variant"] == "ax":
            # the assembly is inlined into its caller, so what the register allocator does with the operands depends on
            # the calling context: besides the direct call, three more contexts compiled at -O2 (operands from memory and
            # the result stored through a volatile pointer in a loop; the sum of two calls; a loop accumulator beside
            # another live value)
            cn, nm = m["cname"], m["name"]
            if info["kind"] == "status":
                T = CT[[p for p in info["params"] if p[1][0] == "ptr"][0][1][1]]
                ctx_fns.append(
                    f"static __attribute__((noinline)) void ctxs_{cn}(const {T} *as, const {T} *bs, volatile {T} *out, volatile int *rcs, int n) {{ for (int i = 0; i < n; ++i) {{ {T} o = 0; rcs[i] = {cn}(as[i], bs[i], &o); out[i] = o; }} }}\n"
                    f"static __attribute__((noinline)) int ctxp_{cn}({T} a, {T} b, {T} c, {T} d, unsigned long long *s) {{ {T} x = 0, y = 0; int r1 = {cn}(a, b, &x); int r2 = {cn}(c, d, &y); *s = (unsigned long long)x + (unsigned long long)y; return r1 | r2; }}\n"
                    f"static __attribute__((noinline)) int ctxa_{cn}(const {T} *as, const {T} *bs, int n, unsigned long long k, unsigned long long *s) {{ unsigned long long acc = 0, live = k; int bad = 0; for (int i = 0; i < n; ++i) {{ {T} o = 0; bad |= {cn}(as[i], bs[i], &o); acc += o; live = (live << 1) ^ acc; }} ctx_sink = live; *s = acc; return bad; }}")
                pre = f"{T} as[3] = {{({T})a[0], ({T})a[1], ({T})a[0]}}, bs[3] = {{({T})a[1], ({T})a[0], ({T})a[1]}}; unsigned long long s = 0; int rc; aws_reset_error(); "
                fin = 'if (rc == 0) printf("P ok %llu\\n", s); else printf("P err %d\\n", aws_last_error()); return 1;'
                ctxs = [("store", f"volatile {T} o3[3]; volatile int r3[3]; ctxs_{cn}(as, bs, o3, r3, 3); rc = r3[0]; s = o3[0]; "),
                        ("sum", f"rc = ctxp_{cn}(as[0], bs[0], as[1], bs[1], &s); "),
                        ("acc", f"rc = ctxa_{cn}(as, bs, 3, a[0] ^ a[1], &s); ")]
            else:
                T = CT[info["ret"]]
                ctx_fns.append(
                    f"static __attribute__((noinline)) void ctxs_{cn}(const {T} *as, const {T} *bs, volatile {T} *out, int n) {{ for (int i = 0; i < n; ++i) {{ out[i] = {cn}(as[i], bs[i]); }} }}\n"
                    f"static __attribute__((noinline)) unsigned long long ctxp_{cn}({T} a, {T} b, {T} c, {T} d) {{ return (unsigned long long){cn}(a, b) + (unsigned long long){cn}(c, d); }}\n"
                    f"static __attribute__((noinline)) unsigned long long ctxa_{cn}(const {T} *as, const {T} *bs, int n, unsigned long long k) {{ unsigned long long acc = 0, live = k; for (int i = 0; i < n; ++i) {{ acc += {cn}(as[i], bs[i]); live = (live << 1) ^ acc; }} ctx_sink = live; return acc; }}")
                pre = f"{T} as[3] = {{({T})a[0], ({T})a[1], ({T})a[0]}}, bs[3] = {{({T})a[1], ({T})a[0], ({T})a[1]}}; unsigned long long s = 0; "
                fin = 'printf("P val %llu\\n", s); return 1;'
                ctxs = [("store", f"volatile {T} o3[3]; ctxs_{cn}(as, bs, o3, 3); s = o3[0]; "),
                        ("sum", f"s = ctxp_{cn}(as[0], bs[0], as[1], bs[1]); "),
                        ("acc", f"s = ctxa_{cn}(as, bs, 3, a[0] ^ a[1]); ")]
            for cx, code in ctxs:
                condx = cond.replace(f'"{nm}")', f'"{nm}@{cx}")')
                out.append("    " + condx + " " + pre + code + fin + " }")
        if info["kind"] == "value" and info["outs"]:
            cond0 = cond.replace(f'"{m["name"]}")', f'"{m["name"]}:null")')
            args0 = ["NULL" if a == "&out" else a for a in args]
            body0 = (f"unsigned long long r = (unsigned long long)({UT[info['ret'][0]]}){m['cname']}({', '.join(args0)}); "
                     f'printf("P val %llu\\n", r); return 1;')
            out.append("    " + cond0 + " " + body0 + " }")
    out.append("    return 0;\n}")
    return "\n".join(head + ctx_fns + out) + "\n", entries


def asm_shapes(repo):
    """Lean text of Gen/MathAsmShapes.lean (shape table of the inline-assembly statements)"""
    return math_asm.lean_text(math_asm.extract(repo))
