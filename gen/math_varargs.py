"""Generated layer for C16, part 2: source/math.c (the non-inline, variadic checked sum).

`aws_add_size_checked_varargs(size_t num, size_t *r, ...)` is outside the subset of gen/cfun.py (va_list, a loop
whose trip count is a parameter), so it has its own small translator.  It accepts exactly this statement grammar and
raises GenError for anything else (a broken correspondence); *within* the grammar every varying part — the start value
of each local (a literal or a `va_arg`), the loop's start index, which local is accumulated / stored to `*r`, the
callee — is read from the AST and reproduced in the emitted Lean, so the theorem is re-proved about what the code
says now:

    va_list AP; va_start(AP, <last named parameter>);
    { size_t V = <integer literal> | va_arg(AP, size_t); }*
    for (size_t I = <integer literal>; I < NUM; ++I | I++) {
        size_t X = va_arg(AP, size_t);
        if (F(ACC, X, &ACC) == AWS_OP_ERR) { va_end(AP); return AWS_OP_ERR; }
    }
    *R = V'; va_end(AP); return AWS_OP_SUCCESS;

Lean model of the variadic arguments: the list of arguments the caller actually passed (`argp : List Nat`, possibly more
than `num`); `va_arg` takes the head, and yields the parameter `junk` when the list is exhausted (indeterminate in C).
The loop is a recursion on fuel; the entry point supplies `num + 1` (the theorem shows that this suffices).
"""
import os, re
from . import cfun
from .cfun import GenError

SOURCE = os.path.join("source", "math.c")
HANDLED = ["aws_add_size_checked_varargs"]
M64 = 1 << 64
_strip = cfun.FnTranslator._strip


def defined_functions(path):
    txt = open(path).read()
    txt = re.sub(r"/\*.*?\*/", "", txt, flags=re.S)
    txt = re.sub(r"//[^\n]*", "", txt)
    txt = re.sub(r"^\s*#[^\n]*(\\\n[^\n]*)*", "", txt, flags=re.M)
    return [m.group(1) for m in re.finditer(r"\b(\w+)\s*\([^;{}()]*(?:\([^()]*\)[^;{}()]*)*\)\s*\{", txt)
            if m.group(1) not in ("if", "for", "while", "switch", "do", "sizeof", "return")]


def _kids(n):
    return n.get("inner", [])


def _full_strip(n):
    """also through integral casts"""
    while True:
        m = _strip(n)
        if m["kind"] in ("ImplicitCastExpr", "CStyleCastExpr") and m.get("castKind") in ("IntegralCast", "ArrayToPointerDecay"):
            m = m["inner"][0]
        if m is n:
            return n
        n = m


def _is_size_t(node):
    try:
        return cfun.ctype_of(node) == (64, False)
    except GenError:
        return False


def _ref(n):
    n = _full_strip(n)
    if n["kind"] == "DeclRefExpr":
        return n["referencedDecl"]["name"]
    return None


def _literal(n):
    n = _full_strip(n)
    if n["kind"] == "IntegerLiteral":
        return int(n["value"])
    return None


def _minus_one(n):
    n = _full_strip(n)
    return n["kind"] == "UnaryOperator" and n.get("opcode") == "-" and _literal(n["inner"][0]) == 1


def _builtin_call(n, builtin, ap):
    if n.get("kind") != "CallExpr":
        return False
    k = _kids(n)
    return _ref(k[0]) == builtin and len(k) >= 2 and _ref(k[1]) == ap


def _va_arg(n, ap):
    """n is an initialiser; True when it is va_arg(AP, size_t)"""
    n = _strip(n)
    return n["kind"] == "VAArgExpr" and _is_size_t(n) and _ref(n["inner"][0]) == ap


def _single_var(decl_stmt):
    if decl_stmt.get("kind") != "DeclStmt" or len(_kids(decl_stmt)) != 1 or _kids(decl_stmt)[0]["kind"] != "VarDecl":
        raise GenError("expected a single variable declaration")
    return _kids(decl_stmt)[0]


def translate(node, resolve):
    """returns Lean text of `<name>_loop1` and `<name>`"""
    name = node["name"]

    def bad(msg):
        raise GenError(f"{SOURCE}: {name}: outside the variadic-sum subset: {msg}")

    sig = node["type"]["qualType"].replace(" ", "")
    params = [c for c in _kids(node) if c["kind"] == "ParmVarDecl"]
    if sig != "int(size_t,size_t*,...)" or len(params) != 2:
        bad(f"signature {node['type']['qualType']!r}")
    NUM, R = params[0]["name"], params[1]["name"]
    body = [c for c in _kids(node) if c["kind"] == "CompoundStmt"]
    st = list(_kids(body[0])) if body else []
    if len(st) < 6:
        bad("too few statements")
    # va_list AP; va_start(AP, R)
    try:
        ap_decl = _single_var(st[0])
    except GenError as e:
        bad(str(e))
    if "va_list" not in ap_decl["type"]["qualType"]:
        bad("first statement is not the va_list declaration")
    AP = ap_decl["name"]
    if not (_builtin_call(st[1], "__builtin_va_start", AP) and len(_kids(st[1])) == 3 and _ref(_kids(st[1])[2]) == R):
        bad("va_start(AP, <last named parameter>) expected")
    # locals
    pos = 2
    fresh = [0]

    def new(base):
        fresh[0] += 1
        return f"{base}_{fresh[0]}"
    lines = []
    locs = []          # [(C name, lean name)]
    argp = "argp"
    while pos < len(st) and st[pos].get("kind") == "DeclStmt":
        v = _single_var(st[pos])
        if not _is_size_t(v) or not _kids(v):
            bad(f"local {v.get('name')} is not an initialised size_t")
        if v["name"] in [c for c, _ in locs] + [NUM, R, AP]:
            bad("shadowing")
        init = _kids(v)[0]
        ln = new(v["name"])
        if _literal(init) is not None:
            lines.append(f"  let {ln} := {_literal(init) % M64}")
        elif _va_arg(init, AP):
            nargp = new("argp")
            lines.append(f"  let {ln} := {argp}.headD junk")
            lines.append(f"  let {nargp} := {argp}.tail")
            argp = nargp
        else:
            bad(f"initialiser of {v['name']} is neither a literal nor va_arg")
        locs.append((v["name"], ln))
        pos += 1
    if not locs:
        bad("no accumulator")
    # the loop
    if pos >= len(st) or st[pos].get("kind") != "ForStmt":
        bad("for loop expected")
    f = _kids(st[pos])
    if len(f) != 5 or f[1].get("kind"):
        bad("for loop with a condition variable")
    iv = _single_var(f[0]) if f[0].get("kind") == "DeclStmt" else bad("loop index must be declared in the for-init")
    if not _is_size_t(iv) or not _kids(iv) or _literal(_kids(iv)[0]) is None:
        bad("loop index is not a size_t with literal start")
    I, start = iv["name"], _literal(_kids(iv)[0]) % M64
    c = f[2]
    if not (c.get("kind") == "BinaryOperator" and c.get("opcode") == "<" and _ref(_kids(c)[0]) == I and _ref(_kids(c)[1]) == NUM
            and _strip(_kids(c)[0])["kind"] == "DeclRefExpr" and _strip(_kids(c)[1])["kind"] == "DeclRefExpr"):
        bad("loop condition is not `i < num`")
    inc = f[3]
    if not (inc.get("kind") == "UnaryOperator" and inc.get("opcode") == "++" and _ref(_kids(inc)[0]) == I):
        bad("loop increment is not ++i / i++")
    lb = f[4]
    lst = _kids(lb) if lb.get("kind") == "CompoundStmt" else bad("loop body is not a block")
    if len(lst) != 2:
        bad("loop body must be: one va_arg declaration, one checked-add test")
    xv = _single_var(lst[0])
    if not _is_size_t(xv) or not _kids(xv) or not _va_arg(_kids(xv)[0], AP):
        bad("first loop statement is not `size_t x = va_arg(ap, size_t)`")
    X = xv["name"]
    iff = lst[1]
    if iff.get("kind") != "IfStmt" or len(_kids(iff)) != 2:
        bad("second loop statement is not an if without else")
    cond, then = _kids(iff)
    if not (cond.get("kind") == "BinaryOperator" and cond.get("opcode") == "==" and _minus_one(_kids(cond)[1])):
        bad("test is not `... == AWS_OP_ERR`")
    call = _strip(_kids(cond)[0])
    if call["kind"] != "CallExpr" or len(_kids(call)) != 4:
        bad("test does not call a three-argument function")
    F = _ref(_kids(call)[0])
    a0, a1, a2 = _kids(call)[1:]
    ACC = _ref(a0) if _strip(a0)["kind"] == "DeclRefExpr" else None
    a2s = _strip(a2)
    if ACC not in [c_ for c_, _ in locs] or _strip(a1)["kind"] != "DeclRefExpr" or _ref(a1) != X or not (
            a2s["kind"] == "UnaryOperator" and a2s.get("opcode") == "&" and _ref(_kids(a2s)[0]) == ACC):
        bad("call is not F(acc, x, &acc)")
    res = resolve(F) if F else None
    if not res or res[1]["kind"] != "status" or [p[1] for p in res[1]["params"]] != [(64, False), (64, False), ("ptr", (64, False))]:
        bad(f"callee {F} is not a translated checked size_t operation")
    Fq = res[0]
    tl = _kids(then) if then.get("kind") == "CompoundStmt" else [then]
    if not (len(tl) == 2 and _builtin_call(tl[0], "__builtin_va_end", AP) and tl[1].get("kind") == "ReturnStmt"
            and _kids(tl[1]) and _minus_one(_kids(tl[1])[0])):
        bad("error branch is not { va_end(ap); return AWS_OP_ERR; }")
    # *R = V; va_end; return 0
    rest = st[pos + 1:]
    if len(rest) != 3:
        bad("after the loop: `*r = acc; va_end(ap); return AWS_OP_SUCCESS;` expected")
    asg, ve, ret = rest
    ok = (asg.get("kind") == "BinaryOperator" and asg.get("opcode") == "=")
    if ok:
        lhs = _strip(_kids(asg)[0])
        ok = lhs["kind"] == "UnaryOperator" and lhs.get("opcode") == "*" and _ref(_kids(lhs)[0]) == R
    OUT = _ref(_kids(asg)[1]) if ok and _strip(_kids(asg)[1])["kind"] == "DeclRefExpr" else None
    if not ok or OUT not in [c_ for c_, _ in locs]:
        bad("store to *r of a local expected")
    if not (_builtin_call(ve, "__builtin_va_end", AP) and ret.get("kind") == "ReturnStmt" and _kids(ret) and _literal(_kids(ret)[0]) == 0):
        bad("va_end(ap); return AWS_OP_SUCCESS; expected")

    # ---- emit
    lp = f"{name}_loop1"
    lpar = " ".join(f"({c_}_l : Nat)" for c_, _ in locs)
    out = [f"def {lp} (fuel : Nat) ({NUM} : Nat) (junk : Nat) ({I}_l : Nat) {lpar} (argp_l : List Nat) : CSem.Res :=",
           "  match fuel with",
           f"  | 0 => CSem.Res.ok {OUT}_l",
           "  | fuel + 1 =>",
           f"    if ({I}_l < {NUM}) then",
           f"      let {X}_1 := argp_l.headD junk",
           "      let argp_2 := argp_l.tail",
           f"      match {Fq} {ACC}_l {X}_1 with",
           "      | CSem.Res.err code => CSem.Res.err code",
           f"      | CSem.Res.ok {ACC}_3 =>",
           f"        let {I}_4 := (({I}_l + 1) % {M64})",
           f"        {lp} fuel {NUM} junk {I}_4 " + " ".join(f"{ACC}_3" if c_ == ACC else f"{c_}_l" for c_, _ in locs) + " argp_2",
           "    else",
           f"      CSem.Res.ok {OUT}_l",
           "",
           f"def {name} ({NUM} : Nat) (argp : List Nat) (junk : Nat) : CSem.Res :="]
    out += lines
    il = new(I)
    out.append(f"  let {il} := {start}")
    out.append(f"  {lp} ({NUM} + 1) {NUM} junk {il} " + " ".join(ln for _, ln in locs) + f" {argp}")
    out.append("")
    return "\n".join(out)


def generate(repo, includes, resolve):
    """returns (lean text of the namespace body, [function names])"""
    path = os.path.join(repo, SOURCE)
    if not os.path.exists(path):
        raise GenError(f"{SOURCE} not found")
    defined = defined_functions(path)
    for n in defined:
        if n not in HANDLED:
            raise GenError(f"{SOURCE} defines {n}, which has no translation")
    for n in HANDLED:
        if n not in defined:
            raise GenError(f"{SOURCE}: function {n} not found")
    tu = f'#include "{path}"\n'
    chunks = []
    for n in HANDLED:
        nodes = cfun.dump_functions(tu, n, includes)
        if n not in nodes:
            raise GenError(f"{SOURCE}: function {n} not found in the AST")
        chunks.append(translate(nodes[n], resolve))
    return "\n".join(chunks), list(HANDLED)
