import Lean
open Lean

/-! Axiom audit: for every theorem declared in the given module, walk the full dependency
closure of its type and proof term in the kernel environment and print every axiom reached.
Does not use the `#print axioms` cache; it is a plain graph walk over `ConstantInfo`s. -/

structure St where
  seen : NameHashSet := {}
  axs  : NameHashSet := {}

partial def walk (env : Environment) (c : Name) : StateM St Unit := do
  if (← get).seen.contains c then return
  modify fun s => { s with seen := s.seen.insert c }
  let go (e : Expr) : StateM St Unit := e.getUsedConstants.forM (walk env)
  match env.find? c with
  | some (.axiomInfo v)  => modify (fun s => { s with axs := s.axs.insert c }); go v.type
  | some (.defnInfo v)   => go v.type; go v.value
  | some (.thmInfo v)    => go v.type; go v.value
  | some (.opaqueInfo v) => go v.type; go v.value
  | some (.quotInfo _)   => pure ()
  | some (.ctorInfo v)   => go v.type
  | some (.recInfo v)    => go v.type
  | some (.inductInfo v) => go v.type; v.ctors.forM (walk env)
  | none                 => pure ()

def main (args : List String) : IO UInt32 := do
  initSearchPath (← findSysroot)
  let modName := args.head!.toName
  let env ← importModules #[{module := modName}] {}
  let some idx := env.getModuleIdx? modName | do
    IO.eprintln s!"module {modName} not found"; return 2
  let mut n := 0
  let mut names : Array Name := #[]
  for (c, ci) in env.constants.map₁.toList do
    if env.getModuleIdxFor? c == some idx then
      match ci with
      | .thmInfo _ =>
        -- skip compiler-generated equation/unfold lemmas (`f.eq_1`, `f.eq_def`, …): they are not property theorems
        let last := match c with | .str _ s => s | _ => ""
        if !c.isInternal && !(last.startsWith "eq_") && last != "eq_def" then names := names.push c
      | _ => pure ()
  for c in names.qsort Name.lt do
    let (_, s) := (walk env c).run {}
    let axs := s.axs.toList.map toString |>.toArray.qsort (· < ·)
    IO.println s!"THEOREM {c} AXIOMS {" ".intercalate axs.toList}"
    n := n + 1
  IO.println s!"AUDIT-END {n}"
  return 0
