import AwsVerif.Gen.MemTraceInit
/-!
Model of `source/memtrace.c` (the tracing allocator) together with the three entry points of
`source/allocator.c` through which a client reaches it (`aws_mem_acquire/calloc/realloc/release`).

* `Tracer`  : `struct alloc_tracer` — `level`, `frames_per_stack`, the atomic `allocated`
  (a `size_t`: every update is reduced mod `2^64` exactly as `fetch_add`/`fetch_sub` do), the hash
  table `allocs` (address ↦ `alloc_info`, abstractly a finite map kept as an association list with
  `put` = replace-or-insert, `erase` = `remove_element`), the table of stack ids, and a logical
  clock standing for `aws_high_res_clock_get_ticks`.  The return value of that read is not modelled:
  memtrace.c ignores it, and a failed timestamp is no reason to lose the record (the harness makes the
  read fail on command — op `clock_fail k` — and the accounting must not notice).
* `Parent`  : the wrapped allocator.  Which address it returns is *not* decided here: every
  operation that obtains memory takes the address as an argument (the op file / the schedule is
  the oracle) and the operation is refused unless the address is fresh (non-NULL, not live) — that
  is the allocator contract.  Fresh bytes are `junk`, `calloc` gives zeros, `realloc` keeps the
  first `min old new` bytes and either keeps the address or moves.
* Sequential semantics: `Seq.step` (one client call, atomically).
* Interleaving semantics: `Sys`/`Act`/`step`: a pool of operations in flight (one per thread), each
  a program counter `PC` whose stages are exactly the atomic / lock / table actions of
  `s_alloc_tracer_track`, `s_alloc_tracer_untrack`, `s_trace_mem_*`, `aws_mem_tracer_count/dump`.
-/
namespace AwsVerif.MemTrace

abbrev Addr := Nat            -- 0 is NULL

def W : Nat := 2 ^ 64
def junk : UInt8 := 0xCD
/-- blocks larger than this have no modelled contents (the harness hands out unbacked addresses) -/
def bigLimit : Nat := 1048576
/-- capacity the harness parent gives every small block (so that `keep` can grow in place) -/
def smallCap : Nat := 1024

inductive Level where
  | none | bytes | stacks
deriving DecidableEq, Repr

/-- `struct alloc_info` -/
structure Info where
  size  : Nat
  time  : Nat
  stack : Nat
deriving DecidableEq, Repr

abbrev Table := List (Addr × Info)

namespace Table
/-- `aws_hash_table_find` -/
def find (t : Table) (a : Addr) : Option Info := t.lookup a
/-- `aws_hash_table_remove_element` of the element with key `a` -/
def erase (t : Table) (a : Addr) : Table := t.filter (fun e => e.1 != a)
/-- `aws_hash_table_put`: an existing value for the key is destroyed and replaced -/
def put (t : Table) (a : Addr) (i : Info) : Table := (a, i) :: erase t a
/-- Σ of the recorded sizes -/
def bytes (t : Table) : Nat := (t.map (fun e => e.2.size)).sum
end Table

/-- `struct alloc_tracer` -/
structure Tracer where
  level     : Level
  frames    : Nat
  allocated : Nat
  allocs    : Table
  stacks    : List Nat
  clock     : Nat
deriving Repr

open AwsVerif.Gen.MemTraceInit in
/-- numeric value of `enum aws_mem_trace_level` (generated from allocator.h) -/
def Level.code : Level → Nat
  | .none => MEMTRACE_NONE | .bytes => MEMTRACE_BYTES | .stacks => MEMTRACE_STACKS
open AwsVerif.Gen.MemTraceInit in
def Level.ofCode (n : Nat) : Level :=
  if n = MEMTRACE_NONE then .none else if n = MEMTRACE_BYTES then .bytes else .stacks

/-- the level the tracer runs at: `s_alloc_tracer_init` keeps the requested level when `aws_backtrace()`
works (`btAvail`) and otherwise passes it through the clamp *generated from memtrace.c* -/
def effLevel (lvl : Level) (btAvail : Bool) : Level :=
  if btAvail then lvl else Level.ofCode (AwsVerif.Gen.MemTraceInit.clampNoBacktrace lvl.code)

/-- `s_alloc_tracer_init` (`btAvail` = `aws_backtrace` works on this platform). -/
def Tracer.new (lvl : Level) (frames : Nat) (btAvail : Bool := true) : Tracer :=
  let lvl := effLevel lvl btAvail
  { level := lvl, frames := if lvl == .stacks then AwsVerif.Gen.MemTraceInit.framesClamp frames else 0,
    allocated := 0, allocs := [], stacks := [], clock := 0 }

/-- `aws_atomic_fetch_add(&allocated, n)` on a `size_t` -/
def fetchAdd (t : Tracer) (n : Nat) : Tracer := { t with allocated := (t.allocated + n) % W }
/-- `aws_atomic_fetch_sub(&allocated, n)` on a `size_t` (wraps) -/
def fetchSub (t : Tracer) (n : Nat) : Tracer := { t with allocated := (t.allocated + (W - n % W)) % W }
/-- `aws_hash_table_create(&stacks, id)`: insert if absent -/
def addStack (t : Tracer) (sid : Nat) : Tracer :=
  { t with stacks := if t.stacks.contains sid then t.stacks else sid :: t.stacks }
def mkInfo (t : Tracer) (sz sid tm : Nat) : Info :=
  { size := sz, time := tm, stack := if t.level == .stacks then sid else 0 }
def putAlloc (t : Tracer) (a : Addr) (i : Info) : Tracer := { t with allocs := t.allocs.put a i }
def removeAlloc (t : Tracer) (a : Addr) : Tracer := { t with allocs := t.allocs.erase a }
def tick (t : Tracer) : Tracer := { t with clock := t.clock + 1 }

/-- `s_alloc_tracer_track`, run without interruption. `sid` = hash of the captured stack. -/
def track (t : Tracer) (a : Addr) (sz sid : Nat) : Tracer :=
  if t.level = .none then t else
  let tm := t.clock
  let t := tick (fetchAdd t sz)
  let t := if t.level = .stacks then addStack t sid else t
  putAlloc t a (mkInfo t sz sid tm)

/-- `s_alloc_tracer_untrack`, run without interruption. -/
def untrack (t : Tracer) (a : Addr) : Tracer :=
  if t.level = .none then t else
  match t.allocs.find a with
  | none => t
  | some i => removeAlloc (fetchSub t i.size) a

/-- `aws_mem_tracer_bytes` -/
def Tracer.bytes (t : Tracer) : Nat := if t.level = .none then 0 else t.allocated
/-- `aws_mem_tracer_count` -/
def Tracer.count (t : Tracer) : Nat := if t.level = .none then 0 else t.allocs.length

def insertByTime (x : Info) : List Info → List Info
  | [] => [x]
  | y :: r => if x.time ≤ y.time then x :: y :: r else y :: insertByTime x r
def sortByTime (l : List Info) : List Info := l.foldr insertByTime []

/-- what `aws_mem_tracer_dump` logs: nothing at level none or when `allocated == 0`; otherwise the
header numbers and the live allocations' sizes in order of allocation time. -/
structure DumpOut where
  bytes : Nat
  count : Nat
  sizes : List Nat
deriving Repr, DecidableEq

/-- the part of the dump that runs while the mutex is held -/
def Tracer.dumpWork (t : Tracer) : DumpOut :=
  { bytes := t.allocated, count := t.allocs.length,
    sizes := (sortByTime (t.allocs.map (·.2))).map (·.size) }

def Tracer.dumpOut (t : Tracer) : Option DumpOut :=
  if t.level = .none ∨ t.allocated = 0 then none else some t.dumpWork

/-! ### The wrapped allocator -/

structure Block where
  size : Nat
  cap  : Nat
  /-- `none`: an unbacked (huge) block -/
  data : Option (List UInt8)
deriving Repr, DecidableEq

/-- the wrapped allocator as the client sees it through `aws_mem_*`: live blocks with their
*requested* sizes, and which optional vtable entries it implements (`mem_realloc`, `mem_calloc`;
without them `aws_mem_realloc` / `aws_mem_calloc` emulate the call with acquire/release) -/
structure Parent where
  blocks : List (Addr × Block)
  hasRealloc : Bool := true
  hasCalloc : Bool := true
deriving Repr

namespace Parent
def live (p : Parent) (a : Addr) : Bool := p.blocks.any (fun e => e.1 == a)
def get (p : Parent) (a : Addr) : Option Block := p.blocks.lookup a
/-- contents of a block of `sz` bytes starting with (a prefix of) `pre`, the rest `fillb` -/
def mkData (sz : Nat) (pre : List UInt8) (fillb : UInt8) : List UInt8 :=
  pre.take sz ++ List.replicate (sz - pre.length) fillb
def fresh (sz : Nat) (pre : List UInt8) (fillb : UInt8) : Block :=
  if sz > bigLimit then { size := sz, cap := sz, data := none }
  else { size := sz, cap := if sz > smallCap then sz else smallCap, data := some (mkData sz pre fillb) }
def release (p : Parent) (a : Addr) : Parent := { p with blocks := p.blocks.filter (fun e => e.1 != a) }
def acquire (p : Parent) (a : Addr) (sz : Nat) : Parent := { p with blocks := (a, fresh sz [] junk) :: p.blocks }
/-- `aws_mem_calloc(parent, n, s)`: native `mem_calloc`, or `mem_acquire` + `memset 0` — zeros either way -/
def calloc (p : Parent) (a : Addr) (n s : Nat) : Parent := { p with blocks := (a, fresh (n * s) [] 0) :: p.blocks }
def oldData (p : Parent) (a : Addr) : List UInt8 :=
  match p.get a with
  | some b => b.data.getD []
  | none => []
/-- `aws_mem_realloc(parent, &NULL, old, new)`: native realloc(NULL) acquires; the emulation acquires,
copies nothing and zero-fills the whole block -/
def reallocNull (p : Parent) (a : Addr) (new : Nat) : Parent :=
  { p with blocks := (a, fresh new [] (if p.hasRealloc then junk else 0)) :: p.blocks }
/-- is `dest` an answer `aws_mem_realloc(parent, &a, old, new)` can give?  A native `mem_realloc` may
keep or move; the emulation keeps exactly when `old ≥ new` (it then does nothing at all) and
otherwise acquires a new block -/
def reallocOK (p : Parent) (a : Addr) (old new : Nat) (dest : Addr) : Bool :=
  p.hasRealloc || (if old ≥ new then dest == a else dest != a)
/-- `aws_mem_realloc(parent, &a, old, new)` with `new ≠ 0`, result at `dest` (`dest = a`: in place).
Native: first `min` bytes kept, new bytes are junk.  Emulated, moving: `mem_acquire(new)`,
`memcpy(old bytes)`, `memset(rest, 0)`, `mem_release(a)`; emulated, `old ≥ new`: the block is not touched,
only the client's idea of its size changes. -/
def realloc (p : Parent) (a : Addr) (old new : Nat) (dest : Addr) : Parent :=
  if dest = a then
    match p.get a with
    | some b => { p with blocks := (a, { b with size := new, data := b.data.map (fun d => mkData new d junk) }) :: (p.release a).blocks }
    | none => p
  else if p.hasRealloc then { p with blocks := (dest, fresh new (p.oldData a) junk) :: (p.release a).blocks }
  else { p with blocks := (dest, fresh new ((p.oldData a).take old) 0) :: (p.release a).blocks }
/-- the client writes a position-dependent pattern over its whole block -/
def pattern (seed n : Nat) : List UInt8 := (List.range n).map (fun i => UInt8.ofNat (seed + 7 * i))
def fill (p : Parent) (a : Addr) (seed : Nat) : Parent :=
  { p with blocks := p.blocks.map (fun e =>
      if e.1 == a then (e.1, { e.2 with data := e.2.data.map (fun _ => pattern seed e.2.size) }) else e) }
end Parent

/-! ### Sequential semantics: one client call at a time -/

/-- a client call as it arrives at `aws_mem_*` with the tracing allocator.  `dest` is the address
the wrapped allocator will answer with (oracle); `sid` the stack id the capture will compute. -/
inductive Op where
  | acquire (dest : Addr) (sz sid : Nat)
  | calloc (dest : Addr) (n s sid : Nat)
  /-- `aws_mem_realloc(tracer, &p, old, new)`; `p = 0` is NULL; `dest = p` keeps the address -/
  | realloc (p : Addr) (old new : Nat) (dest : Addr) (sid : Nat)
  | release (p : Addr)
  | dump
  /-- client write into its own block (not a tracer call) -/
  | fill (p : Addr) (seed : Nat)
deriving Repr, DecidableEq

inductive Ret where
  | ptr (a : Addr)
  | unit
  | dumped (o : Option DumpOut)
  /-- the call violates an API precondition / the allocator contract and is not made -/
  | rejected
deriving Repr, DecidableEq

structure Seq where
  tr  : Tracer
  par : Parent
deriving Repr

def Seq.new (lvl : Level) (frames : Nat) (par : Parent := { blocks := [] }) (btAvail : Bool := true) : Seq :=
  { tr := Tracer.new lvl frames btAvail, par := par }

def freshAddr (par : Parent) (a : Addr) : Bool := a != 0 && !par.live a

/-- `s_trace_mem_release` below `aws_mem_release` -/
def Seq.release (s : Seq) (p : Addr) : Seq × Ret :=
  if p = 0 then (s, .unit)                                   -- aws_mem_release: NULL is ignored
  else if !s.par.live p then (s, .rejected)
  else ({ tr := untrack s.tr p, par := s.par.release p }, .unit)

def Seq.step (s : Seq) : Op → Seq × Ret
  | .acquire dest sz sid =>
    if sz = 0 ∨ !freshAddr s.par dest then (s, .rejected)
    else ({ tr := track s.tr dest sz sid, par := s.par.acquire dest sz }, .ptr dest)
  | .calloc dest n sz sid =>
    if n = 0 ∨ sz = 0 ∨ n * sz ≥ W ∨ !freshAddr s.par dest then (s, .rejected)
    else ({ tr := track s.tr dest (n * sz % W) sid, par := s.par.calloc dest n sz }, .ptr dest)
  | .release p => s.release p
  | .realloc p old new dest sid =>
    if new = 0 then                                           -- aws_mem_realloc: release, *ptr = NULL
      match s.release p with
      | (s', .unit) => (s', .ptr 0)
      | r => r
    else if p = 0 then
      -- s_trace_mem_realloc(NULL, old, new): untrack(NULL); parent realloc(NULL) = acquire; track
      if !freshAddr s.par dest then (s, .rejected)
      else ({ tr := track (untrack s.tr 0) dest new sid, par := s.par.reallocNull dest new }, .ptr dest)
    else if !s.par.live p then (s, .rejected)
    else if (dest ≠ p ∧ !freshAddr s.par dest) ∨ !s.par.reallocOK p old new dest then (s, .rejected)
    else
      -- untrack(old_ptr); aws_mem_realloc(parent, &new_ptr, old, new); track(new_ptr, new_size)
      -- (the inner call goes to the wrapped allocator's vtable, or to the acquire/release emulation
      --  on the wrapped allocator — never back through the tracer)
      ({ tr := track (untrack s.tr p) dest new sid, par := s.par.realloc p old new dest }, .ptr dest)
  | .dump => (s, .dumped s.tr.dumpOut)
  | .fill p seed => ({ s with par := s.par.fill p seed }, .unit)

def Seq.run (s : Seq) (ops : List Op) : Seq := ops.foldl (fun s o => (s.step o).1) s

/-- the same history applied to the wrapped allocator alone (no tracer in between) -/
def Parent.stepDirect (par : Parent) : Op → Parent × Ret
  | .acquire dest sz _ =>
    if sz = 0 ∨ !freshAddr par dest then (par, .rejected) else (par.acquire dest sz, .ptr dest)
  | .calloc dest n sz _ =>
    if n = 0 ∨ sz = 0 ∨ n * sz ≥ W ∨ !freshAddr par dest then (par, .rejected) else (par.calloc dest n sz, .ptr dest)
  | .release p =>
    if p = 0 then (par, .unit) else if !par.live p then (par, .rejected) else (par.release p, .unit)
  | .realloc p old new dest _ =>
    if new = 0 then
      if p = 0 then (par, .ptr 0) else if !par.live p then (par, .rejected) else (par.release p, .ptr 0)
    else if p = 0 then
      if !freshAddr par dest then (par, .rejected) else (par.reallocNull dest new, .ptr dest)
    else if !par.live p then (par, .rejected)
    else if (dest ≠ p ∧ !freshAddr par dest) ∨ !par.reallocOK p old new dest then (par, .rejected)
    else (par.realloc p old new dest, .ptr dest)
  | .dump => (par, .unit)
  | .fill p seed => (par.fill p seed, .unit)

/-! ### Interleaving semantics -/

/-- what an operation does once its `untrack` has finished -/
inductive After where
  | free                              -- s_trace_mem_release: aws_mem_release(parent, ptr)
  | realloc (old new sid : Nat)       -- s_trace_mem_realloc: inner realloc, then track
deriving Repr, DecidableEq

/-- stages of `s_alloc_tracer_track` (the action the thread performs *next*) -/
inductive TSt where
  | add         -- level check; fetch_add; read the clock
  | stkLock | stkCreate | stkUnlock   -- level stacks only: lock; create-if-absent; unlock
  | putLock | put | putUnlock         -- lock; hash_table_put; unlock (and return to the client)
deriving Repr, DecidableEq

/-- stages of `s_alloc_tracer_untrack` -/
inductive USt where
  | lock                -- level check; lock
  | find
  | sub (sz : Nat)      -- item found with size sz: fetch_sub
  | remove (sz : Nat)   -- remove_element
  | unlock
deriving Repr, DecidableEq

inductive RKind where
  | bytes | count | dump
deriving Repr, DecidableEq

/-- stages of the read-only calls `aws_mem_tracer_count` / `aws_mem_tracer_dump` -/
inductive RSt where
  | load | lock | read | unlock
deriving Repr, DecidableEq

inductive Req where
  | acq (sz : Nat)
  | cal (n s : Nat)
deriving Repr, DecidableEq

def Req.tracked : Req → Nat
  | .acq sz => sz
  | .cal n s => n * s % W

/-- program counter of one operation in flight.  `g` in `unt` is ghost: the size the client
requested for the block it is giving back (`none` for the NULL pointer). -/
inductive PC where
  | done
  | parAcq (r : Req) (sid : Nat)                       -- about to call the wrapped allocator
  | trk (st : TSt) (a : Addr) (sz sid tm : Nat)
  | unt (st : USt) (a : Addr) (g : Option Nat) (k : After)
  | parFree (a : Addr)
  | parRealloc (a : Addr) (old new sid : Nat)
  | ro (st : RSt) (k : RKind)
deriving Repr, DecidableEq

/-- shared state -/
structure Sh where
  tr    : Tracer
  par   : Parent
  /-- `tracer->mutex` is held by somebody -/
  lock  : Bool
  /-- ghost: blocks the client holds (returned to it and not yet handed back), with requested size -/
  owned : List (Addr × Nat)
deriving Repr

structure Sys where
  sh   : Sh
  pool : List PC
deriving Repr

inductive ClientOp where
  | acquire (sz sid : Nat)
  | calloc (n s sid : Nat)
  | release (a : Addr)
  | realloc (a : Addr) (old new sid : Nat)
  | bytes | count | dump
deriving Repr, DecidableEq

inductive Act where
  /-- a thread calls into the allocator -/
  | start (op : ClientOp)
  /-- the `i`-th operation in flight performs its next action; `o` is the address the wrapped
  allocator answers with, if that action is a call to it -/
  | step (i : Nat) (o : Addr)
deriving Repr, DecidableEq

def eraseOwned (l : List (Addr × Nat)) (a : Addr) : List (Addr × Nat) := l.filter (fun e => e.1 != a)

def startRelease (sh : Sh) (a : Addr) (k : After) : Option (Sh × PC) :=
  match sh.owned.lookup a with
  | none => none                        -- not the client's to give back
  | some g => some ({ sh with owned := eraseOwned sh.owned a }, .unt .lock a (some g) k)

/-- entry of a client call (`aws_mem_*` above the tracer). `none`: the call is not made
(API precondition / client contract). -/
def start (sh : Sh) : ClientOp → Option (Sh × PC)
  | .acquire sz sid => if sz = 0 then none else some (sh, .parAcq (.acq sz) sid)
  | .calloc n s sid => if n = 0 ∨ s = 0 ∨ n * s ≥ W then none else some (sh, .parAcq (.cal n s) sid)
  | .release a => if a = 0 then some (sh, .done) else startRelease sh a .free
  | .realloc a old new sid =>
    if new = 0 then (if a = 0 then some (sh, .done) else startRelease sh a .free)
    else if a = 0 then some (sh, .unt .lock 0 none (.realloc old new sid))
    else startRelease sh a (.realloc old new sid)
  | .bytes => if sh.tr.level = .none then some (sh, .done) else some (sh, .ro .load .bytes)
  | .count => if sh.tr.level = .none then some (sh, .done) else some (sh, .ro .lock .count)
  | .dump => some (sh, .ro .load .dump)

def takeLock (sh : Sh) (pc : PC) : Option (Sh × PC) :=
  if sh.lock then none else some ({ sh with lock := true }, pc)

def afterUntrack (a : Addr) : After → PC
  | .free => .parFree a
  | .realloc old new sid => .parRealloc a old new sid

/-- one action of an operation in flight; `none` = not enabled now (mutex taken, or the oracle
address is not a legal answer of the wrapped allocator) -/
def advance (sh : Sh) (o : Addr) : PC → Option (Sh × PC)
  | .done => none
  | .parAcq r sid =>
    if !freshAddr sh.par o then none
    else
      let par := match r with
        | .acq sz => sh.par.acquire o sz
        | .cal n s => sh.par.calloc o n s
      some ({ sh with par := par }, .trk .add o r.tracked sid 0)
  | .trk .add a sz sid _ =>
    if sh.tr.level = .none then some ({ sh with owned := (a, sz) :: sh.owned }, .done)
    else
      let tm := sh.tr.clock
      some ({ sh with tr := tick (fetchAdd sh.tr sz) },
            if sh.tr.level = .stacks then .trk .stkLock a sz sid tm else .trk .putLock a sz sid tm)
  | .trk .stkLock a sz sid tm => takeLock sh (.trk .stkCreate a sz sid tm)
  | .trk .stkCreate a sz sid tm => some ({ sh with tr := addStack sh.tr sid }, .trk .stkUnlock a sz sid tm)
  | .trk .stkUnlock a sz sid tm => some ({ sh with lock := false }, .trk .putLock a sz sid tm)
  | .trk .putLock a sz sid tm => takeLock sh (.trk .put a sz sid tm)
  | .trk .put a sz sid tm => some ({ sh with tr := putAlloc sh.tr a (mkInfo sh.tr sz sid tm) }, .trk .putUnlock a sz sid tm)
  | .trk .putUnlock a sz _ _ => some ({ sh with lock := false, owned := (a, sz) :: sh.owned }, .done)
  | .unt .lock a g k =>
    if sh.tr.level = .none then some (sh, afterUntrack a k) else takeLock sh (.unt .find a g k)
  | .unt .find a g k =>
    match sh.tr.allocs.find a with
    | none => some (sh, .unt .unlock a g k)
    | some i => some (sh, .unt (.sub i.size) a g k)
  | .unt (.sub sz) a g k => some ({ sh with tr := fetchSub sh.tr sz }, .unt (.remove sz) a g k)
  | .unt (.remove _) a g k => some ({ sh with tr := removeAlloc sh.tr a }, .unt .unlock a g k)
  | .unt .unlock a _ k => some ({ sh with lock := false }, afterUntrack a k)
  | .parFree a => some ({ sh with par := sh.par.release a }, .done)
  | .parRealloc a old new sid =>
    -- the inner aws_mem_realloc on the wrapped allocator (native, or emulated by acquire+release:
    -- both parent calls are taken as one action, no tracer state is touched between them)
    if a = 0 then
      if !freshAddr sh.par o then none
      else some ({ sh with par := sh.par.reallocNull o new }, .trk .add o new sid 0)
    else if !sh.par.reallocOK a old new o then none
    else if o = a then some ({ sh with par := sh.par.realloc a old new a }, .trk .add a new sid 0)
    else if !freshAddr sh.par o then none
    else some ({ sh with par := sh.par.realloc a old new o }, .trk .add o new sid 0)
  | .ro .load k =>
    -- aws_mem_tracer_bytes: the load is the whole call; dump: return early when nothing is allocated
    if k = .bytes ∨ sh.tr.level = .none ∨ sh.tr.allocated = 0 then some (sh, .done) else some (sh, .ro .lock k)
  | .ro .lock k => takeLock sh (.ro .read k)
  | .ro .read k => some (sh, .ro .unlock k)
  | .ro .unlock _ => some ({ sh with lock := false }, .done)

def step (s : Sys) : Act → Sys
  | .start op =>
    match start s.sh op with
    | none => s
    | some (sh, pc) => { sh := sh, pool := s.pool ++ [pc] }
  | .step i o =>
    match s.pool[i]? with
    | none => s
    | some pc =>
      match advance s.sh o pc with
      | none => s
      | some (sh, pc') => { sh := sh, pool := s.pool.set i pc' }

def run (s : Sys) (as : List Act) : Sys := as.foldl step s

/-- `hr` / `hc`: the wrapped allocator implements `mem_realloc` / `mem_calloc` -/
def Sys.init (lvl : Level) (frames : Nat) (hr hc : Bool := true) (btAvail : Bool := true) : Sys :=
  { sh := { tr := Tracer.new lvl frames btAvail, par := { blocks := [], hasRealloc := hr, hasCalloc := hc }, lock := false, owned := [] },
    pool := [] }

/-- the system in which nobody is inside the allocator, built from a sequential state -/
def Sys.ofSeq (s : Seq) (owned : List (Addr × Nat)) : Sys :=
  { sh := { tr := s.tr, par := s.par, lock := false, owned := owned }, pool := [] }

/-- the first operation in flight performs `n` actions in a row, alone (oracle address `o`) -/
def alone (o : Addr) : Nat → Sys → Sys
  | 0, s => s
  | n + 1, s => alone o n (step s (.step 0 o))

/-- a client call entering the allocator and running to completion without interruption -/
def runAlone (s : Seq) (owned : List (Addr × Nat)) (op : ClientOp) (o : Addr) : Sys :=
  alone o 16 (step (Sys.ofSeq s owned) (.start op))

/-- no operation is in flight -/
def Sys.quiescent (s : Sys) : Prop := ∀ pc ∈ s.pool, pc = .done

instance (s : Sys) : Decidable s.quiescent := by unfold Sys.quiescent; infer_instance

/-- bytes counted by `fetch_add` for a block whose `put` has not happened yet -/
def addedOf : PC → Nat
  | .trk .stkLock _ sz _ _ | .trk .stkCreate _ sz _ _ | .trk .stkUnlock _ sz _ _
  | .trk .putLock _ sz _ _ | .trk .put _ sz _ _ => sz
  | _ => 0

/-- bytes already removed by `fetch_sub` for an entry that is still in the table -/
def subbedOf : PC → Nat
  | .unt (.remove sz) _ _ _ => sz
  | _ => 0

end AwsVerif.MemTrace
