import AwsVerif.Gen.Lookup3
import AwsVerif.Gen.Lookup3Paths
/-!
Byte-wise model of `hashlittle2` (include/aws/common/private/lookup3.inl) and of the content hashes built
on it in source/hash_table.c: `aws_hash_string`, `aws_hash_c_string`, `aws_hash_byte_cursor_ptr`,
`aws_hash_ptr`, `aws_hash_combine`.

The C function has three code paths chosen by the alignment of the key pointer (32-bit loads, 16-bit loads,
byte loads); this model is the byte path: a function of `(bytes, len)` only.  That the two word paths agree
with it is checked by the correspondence run at all four alignments (a `W` stream), not proved.
Rotation amounts, the `0xdeadbeef` basis and the callers' initial values are generated from the source.
-/
namespace AwsVerif.Lookup3

def rot (x : UInt32) (k : Nat) : UInt32 := (x <<< k.toUInt32) ||| (x >>> (32 - k).toUInt32)

def mix (a b c : UInt32) : UInt32 × UInt32 × UInt32 :=
  let r := fun i => Gen.l3MixRots.getD i 0
  let a := a - c; let a := a ^^^ rot c (r 0); let c := c + b
  let b := b - a; let b := b ^^^ rot a (r 1); let a := a + c
  let c := c - b; let c := c ^^^ rot b (r 2); let b := b + a
  let a := a - c; let a := a ^^^ rot c (r 3); let c := c + b
  let b := b - a; let b := b ^^^ rot a (r 4); let a := a + c
  let c := c - b; let c := c ^^^ rot b (r 5); let b := b + a
  (a, b, c)

def final (a b c : UInt32) : UInt32 × UInt32 × UInt32 :=
  let r := fun i => Gen.l3FinalRots.getD i 0
  let c := c ^^^ b; let c := c - rot b (r 0)
  let a := a ^^^ c; let a := a - rot c (r 1)
  let b := b ^^^ a; let b := b - rot a (r 2)
  let c := c ^^^ b; let c := c - rot b (r 3)
  let a := a ^^^ c; let a := a - rot c (r 4)
  let b := b ^^^ a; let b := b - rot a (r 5)
  let c := c ^^^ b; let c := c - rot b (r 6)
  (a, b, c)

/-- `k[off] + (k[off+1]<<8) + (k[off+2]<<16) + (k[off+3]<<24)` over the bytes that exist (the last block adds
only the bytes it has) -/
def le32 (k : List UInt8) (off : Nat) : UInt32 :=
  let byte := fun i => ((k.getD (off + i) 0).toUInt32) <<< (8 * i).toUInt32
  byte 0 + byte 1 + byte 2 + byte 3

/-- `while (length > 12) { a += k[0..3]; b += k[4..7]; c += k[8..11]; mix(a,b,c); length -= 12; k += 12; }` -/
def blocks : Nat → List UInt8 → UInt32 → UInt32 → UInt32 → List UInt8 × UInt32 × UInt32 × UInt32
  | 0, k, a, b, c => (k, a, b, c)
  | fuel+1, k, a, b, c =>
    if k.length > 12 then
      let (a, b, c) := mix (a + le32 k 0) (b + le32 k 4) (c + le32 k 8)
      blocks fuel (k.drop 12) a b c
    else (k, a, b, c)

/-- `hashlittle2(key, length, &pc, &pb)`: the new `(*pc, *pb)` -/
def hashlittle2 (key : List UInt8) (pc pb : UInt32) : UInt32 × UInt32 :=
  let init := Gen.l3Basis.toUInt32 + key.length.toUInt32 + pc
  let (k, a, b, c) := blocks key.length key init init (init + pb)
  if k.length = 0 then (c, b)               -- zero length strings require no mixing
  else
    let (_, b, c) := final (a + le32 k 0) (b + le32 k 4) (c + le32 k 8)
    (c, b)

/-! ### the three code paths of the C function, as extracted from the source

`Gen.l3BlockN` / `Gen.l3TailN` list, for the path that loads N bits at a time, the adds of one
`while (length > 12)` iteration and of each `case` of `switch(length)`.  A term `(target, width, off, mask, shift)`
is `target += ((little-endian load of width bytes at byte offset off) & mask) << shift`.  `mem` is the memory
starting at the key pointer: the key's bytes followed by whatever lies behind them — the 32-bit path's tail loads
whole words and masks, so it does read up to three bytes behind the key. -/

abbrev Term := Nat × Nat × Nat × Nat × Nat

def byteAt (mem : List UInt8) (i : Nat) : UInt32 := (mem.getD i 0).toUInt32

/-- a `width`-byte little-endian load (width 1, 2 or 4): the number `Σ byte i * 256^i` -/
def load (mem : List UInt8) (width off : Nat) : UInt32 :=
  if width = 1 then byteAt mem off
  else if width = 2 then byteAt mem off + (byteAt mem (off + 1) <<< 8)
  else byteAt mem off + (byteAt mem (off + 1) <<< 8) + (byteAt mem (off + 2) <<< 16) + (byteAt mem (off + 3) <<< 24)

def evalTerm (mem : List UInt8) (t : Term) : UInt32 :=
  ((load mem t.2.1 t.2.2.1) &&& t.2.2.2.1.toUInt32) <<< t.2.2.2.2.toUInt32

def addTerms (mem : List UInt8) : List Term → UInt32 × UInt32 × UInt32 → UInt32 × UInt32 × UInt32
  | [], s => s
  | t :: ts, (a, b, c) =>
    let v := evalTerm mem t
    addTerms mem ts (if t.1 = 0 then (a + v, b, c) else if t.1 = 1 then (a, b + v, c) else (a, b, c + v))

/-- the block loop of one path: `mem` is the memory from the current `k` on, `len` the remaining length -/
def pathBlocks (blk : List Term) : Nat → List UInt8 → Nat → UInt32 → UInt32 → UInt32 →
    List UInt8 × Nat × UInt32 × UInt32 × UInt32
  | 0, mem, len, a, b, c => (mem, len, a, b, c)
  | fuel+1, mem, len, a, b, c =>
    if len > 12 then
      let (a, b, c) := addTerms mem blk (a, b, c)
      let (a, b, c) := mix a b c
      pathBlocks blk fuel (mem.drop 12) (len - 12) a b c
    else (mem, len, a, b, c)

def hashlittle2Path (blk : List Term) (tail : List (List Term)) (mem : List UInt8) (len : Nat) (pc pb : UInt32) :
    UInt32 × UInt32 :=
  let init := Gen.l3Basis.toUInt32 + len.toUInt32 + pc
  let (k, n, a, b, c) := pathBlocks blk len mem len init init (init + pb)
  if n = 0 then (c, b)
  else
    let (a, b, c) := addTerms k (tail.getD n []) (a, b, c)
    let (_, b, c) := final a b c
    (c, b)

/-- `hashlittle2` as compiled: the path is chosen by the alignment of the key's address -/
def hashlittle2C (addr : Nat) (mem : List UInt8) (len : Nat) (pc pb : UInt32) : UInt32 × UInt32 :=
  if addr % 4 = 0 then hashlittle2Path Gen.l3Block32 Gen.l3Tail32 mem len pc pb
  else if addr % 2 = 0 then hashlittle2Path Gen.l3Block16 Gen.l3Tail16 mem len pc pb
  else hashlittle2Path Gen.l3Block8 Gen.l3Tail8 mem len pc pb

/-- `hashlittle2` as compiled with `-DVALGRIND`: the 32-bit-load path uses its byte-exact tail switch
(`Gen.l3Tail32V`: whole words where they lie inside the key, single bytes through `k8[...]` otherwise) -/
def hashlittle2CV (addr : Nat) (mem : List UInt8) (len : Nat) (pc pb : UInt32) : UInt32 × UInt32 :=
  if addr % 4 = 0 then hashlittle2Path Gen.l3Block32 Gen.l3Tail32V mem len pc pb
  else if addr % 2 = 0 then hashlittle2Path Gen.l3Block16 Gen.l3Tail16 mem len pc pb
  else hashlittle2Path Gen.l3Block8 Gen.l3Tail8 mem len pc pb

def join64 (b c : UInt32) : Nat := b.toNat * 2 ^ 32 + c.toNat      -- ((uint64_t)b << 32) | c

/-- `aws_hash_byte_cursor_ptr` / `aws_hash_string`: the bytes of the cursor / string -/
def hashBytes (bs : List UInt8) : Nat :=
  let (c, b) := hashlittle2 bs Gen.l3StrInitC.toUInt32 Gen.l3StrInitB.toUInt32
  join64 b c

/-- `aws_hash_c_string`: the bytes up to the terminating NUL -/
def hashCStr (bs : List UInt8) : Nat := hashBytes (bs.takeWhile (· ≠ 0))

def le64bytes (x : Nat) : List UInt8 := (List.range 8).map fun i => (x / 2 ^ (8 * i) % 256).toUInt8

/-- `aws_hash_ptr`: the 8 bytes of the pointer value -/
def hashPtr (p : Nat) : Nat :=
  let (c, b) := hashlittle2 (le64bytes p) Gen.l3PtrInitC.toUInt32 Gen.l3PtrInitB.toUInt32
  join64 b c

/-- `aws_hash_combine(item1, item2)` -/
def hashCombine (item1 item2 : Nat) : Nat :=
  let (c, b) := hashlittle2 (le64bytes item1) (item2 / 2 ^ 32 % 2 ^ 32).toUInt32 (item2 % 2 ^ 32).toUInt32
  join64 b c

/-- `aws_hash_callback_string_eq` / `aws_byte_cursor_eq` on contents; `aws_hash_callback_c_str_eq` = `!strcmp` -/
def bytesEq (a b : List UInt8) : Bool := a == b
def cstrEq (a b : List UInt8) : Bool := a.takeWhile (· ≠ 0) == b.takeWhile (· ≠ 0)

end AwsVerif.Lookup3
