import AwsVerif.Gen.Lookup3
/-!
Byte-wise model of `hashlittle2` (include/aws/common/private/lookup3.inl) and of the content hashes built
on it in source/hash_table.c: `aws_hash_string`, `aws_hash_c_string`, `aws_hash_byte_cursor_ptr`,
`aws_hash_ptr`, `aws_hash_combine`.

The C function has three code paths chosen by the alignment of the key pointer (32-bit loads, 16-bit loads,
byte loads); this model is the byte path: a function of `(bytes, len)` only.  That the two word paths agree
with it is checked by the correspondence run at all four alignments (a `W` stream), not proved.
Rotation amounts, the `0xdeadbeef` basis and the callers' initial values are generated from the source.
-/
namespace AwsVerif.Lookup3

def rot (x : UInt32) (k : Nat) : UInt32 := (x <<< k.toUInt32) ||| (x >>> (32 - k).toUInt32)

def mix (a b c : UInt32) : UInt32 × UInt32 × UInt32 :=
  let r := fun i => Gen.l3MixRots.getD i 0
  let a := a - c; let a := a ^^^ rot c (r 0); let c := c + b
  let b := b - a; let b := b ^^^ rot a (r 1); let a := a + c
  let c := c - b; let c := c ^^^ rot b (r 2); let b := b + a
  let a := a - c; let a := a ^^^ rot c (r 3); let c := c + b
  let b := b - a; let b := b ^^^ rot a (r 4); let a := a + c
  let c := c - b; let c := c ^^^ rot b (r 5); let b := b + a
  (a, b, c)

def final (a b c : UInt32) : UInt32 × UInt32 × UInt32 :=
  let r := fun i => Gen.l3FinalRots.getD i 0
  let c := c ^^^ b; let c := c - rot b (r 0)
  let a := a ^^^ c; let a := a - rot c (r 1)
  let b := b ^^^ a; let b := b - rot a (r 2)
  let c := c ^^^ b; let c := c - rot b (r 3)
  let a := a ^^^ c; let a := a - rot c (r 4)
  let b := b ^^^ a; let b := b - rot a (r 5)
  let c := c ^^^ b; let c := c - rot b (r 6)
  (a, b, c)

/-- `k[off] + (k[off+1]<<8) + (k[off+2]<<16) + (k[off+3]<<24)` over the bytes that exist (the last block adds
only the bytes it has) -/
def le32 (k : List UInt8) (off : Nat) : UInt32 :=
  let byte := fun i => ((k.getD (off + i) 0).toUInt32) <<< (8 * i).toUInt32
  byte 0 + byte 1 + byte 2 + byte 3

/-- `while (length > 12) { a += k[0..3]; b += k[4..7]; c += k[8..11]; mix(a,b,c); length -= 12; k += 12; }` -/
def blocks : Nat → List UInt8 → UInt32 → UInt32 → UInt32 → List UInt8 × UInt32 × UInt32 × UInt32
  | 0, k, a, b, c => (k, a, b, c)
  | fuel+1, k, a, b, c =>
    if k.length > 12 then
      let (a, b, c) := mix (a + le32 k 0) (b + le32 k 4) (c + le32 k 8)
      blocks fuel (k.drop 12) a b c
    else (k, a, b, c)

/-- `hashlittle2(key, length, &pc, &pb)`: the new `(*pc, *pb)` -/
def hashlittle2 (key : List UInt8) (pc pb : UInt32) : UInt32 × UInt32 :=
  let init := Gen.l3Basis.toUInt32 + key.length.toUInt32 + pc
  let (k, a, b, c) := blocks key.length key init init (init + pb)
  if k.length = 0 then (c, b)               -- zero length strings require no mixing
  else
    let (_, b, c) := final (a + le32 k 0) (b + le32 k 4) (c + le32 k 8)
    (c, b)

def join64 (b c : UInt32) : Nat := b.toNat * 2 ^ 32 + c.toNat      -- ((uint64_t)b << 32) | c

/-- `aws_hash_byte_cursor_ptr` / `aws_hash_string`: the bytes of the cursor / string -/
def hashBytes (bs : List UInt8) : Nat :=
  let (c, b) := hashlittle2 bs Gen.l3StrInitC.toUInt32 Gen.l3StrInitB.toUInt32
  join64 b c

/-- `aws_hash_c_string`: the bytes up to the terminating NUL -/
def hashCStr (bs : List UInt8) : Nat := hashBytes (bs.takeWhile (· ≠ 0))

def le64bytes (x : Nat) : List UInt8 := (List.range 8).map fun i => (x / 2 ^ (8 * i) % 256).toUInt8

/-- `aws_hash_ptr`: the 8 bytes of the pointer value -/
def hashPtr (p : Nat) : Nat :=
  let (c, b) := hashlittle2 (le64bytes p) Gen.l3PtrInitC.toUInt32 Gen.l3PtrInitB.toUInt32
  join64 b c

/-- `aws_hash_combine(item1, item2)` -/
def hashCombine (item1 item2 : Nat) : Nat :=
  let (c, b) := hashlittle2 (le64bytes item1) (item2 / 2 ^ 32 % 2 ^ 32).toUInt32 (item2 % 2 ^ 32).toUInt32
  join64 b c

/-- `aws_hash_callback_string_eq` / `aws_byte_cursor_eq` on contents; `aws_hash_callback_c_str_eq` = `!strcmp` -/
def bytesEq (a b : List UInt8) : Bool := a == b
def cstrEq (a b : List UInt8) : Bool := a.takeWhile (· ≠ 0) == b.takeWhile (· ≠ 0)

end AwsVerif.Lookup3
