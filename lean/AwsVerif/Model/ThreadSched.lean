/-!
Model of `source/thread_scheduler.c` (with the parts of `task_scheduler.c`, `ref_count.c`,
`condition_variable.c` / `posix/condition_variable.c` it relies on) as a labelled transition
system whose interleavings are *all* sequentially-consistent schedules of the scheduler thread
and the client threads at the lock / condition-variable / atomic / clock operations.

Threads.  Thread id `0` is the scheduler thread (`s_thread_fn`); client `i` (index into
`Sys.clients`) has thread id `i+1`.  The client that takes the reference count to zero runs
`s_destroy_callback` on its own thread.

Program points.  The scheduler thread's `SPc` has one point per sync/atomic operation of
`s_thread_fn` plus points for the thread-local work in between (`swap`, `feed`, `cancels`,
`readClock`, `runAll`, `timeout`, `predClock`); the loops over the private copies of the two
queues advance one element per step (`feed`, `cancels`, and `dDrainQ`, `dDrainC` in the destroy
callback), which only refines the interleavings.  `blocked` is "inside
pthread_cond_timedwait, mutex released"; it is left by a time-out (always possible), by a
spurious wake-up (`Act.spurious`) or by a notification, and the mutex is re-acquired by
`reacq`.  A notification that finds the thread not `blocked` is lost.

Inner task scheduler (`Inner`): run-now list, timed list (kept in time order by a stable
insertion), and the per-task `abi_extension.scheduled` flag.  Task functions do not re-enter
the scheduler.  `aws_task_scheduler_cancel_task` unlinks the task from wherever it is and then
invokes it *unconditionally* — which is why `s_process_cancellation` must look at the flag.

`Cfg` selects the pre-fix behaviours for the regression witnesses: `drain := false` is the code
before 04fad6b (no hand-over-queue drain after the join), `guardCancel := false` the code before
797252a (queued cancellation always turned into a cancel).  `Cfg.fixed` is the code as it is.

Ghost state (never read by a transition's guard or data path): `scheduled`, `destroyer`,
`Client.held`, the ids in `CRec` / `nextRec` / `freed`, `released`.
-/
namespace AwsVerif.ThreadSched

abbrev Task := Nat

inductive Status where
  | run
  | canceled
deriving DecidableEq, Repr

/-- one invocation of a task function: task, status, executing thread, virtual time -/
structure Entry where
  task : Task
  status : Status
  thread : Nat
  time : Nat
deriving DecidableEq, Repr

/-- `struct cancellation_node` (the `id` is ghost: allocation ordinal) -/
structure CRec where
  id : Nat
  task : Task
  removed : Bool
deriving DecidableEq, Repr

inductive Op where
  | scheduleNow (t : Task)
  | scheduleFuture (t : Task) (τ : Nat)
  | cancel (t : Task)
  | acquire
  | release
deriving DecidableEq, Repr

structure Cfg where
  /-- 04fad6b: destroy callback drains both hand-over queues after the join -/
  drain : Bool
  /-- 797252a: a queued cancellation is applied only if `removed ∨ task.scheduled` -/
  guardCancel : Bool
deriving DecidableEq, Repr

def Cfg.fixed : Cfg := { drain := true, guardCancel := true }

/-! ### Inner task scheduler (what `thread_scheduler.c` uses of `task_scheduler.c`) -/

structure Inner where
  asap : List Task
  timed : List Task
  flag : Task → Bool

def Inner.empty : Inner := { asap := [], timed := [], flag := fun _ => false }

def setF (f : Task → Bool) (t : Task) (b : Bool) : Task → Bool := fun u => if u = t then b else f u

/-- stable insertion by time stamp (after all entries that are not later) -/
def insertTs (ts : Task → Nat) (t : Task) : List Task → List Task
  | [] => [t]
  | u :: r => if ts t < ts u then t :: u :: r else u :: insertTs ts t r

/-- `if (task->timestamp) schedule_future(task, task->timestamp) else schedule_now(task)` -/
def Inner.schedule (I : Inner) (ts : Task → Nat) (t : Task) : Inner :=
  if ts t = 0 then { I with asap := I.asap ++ [t], flag := setF I.flag t true }
  else { I with timed := insertTs ts t I.timed, flag := setF I.flag t true }

/-- the removal part of `aws_task_scheduler_cancel_task` (the invocation is logged by the caller) -/
def Inner.cancel (I : Inner) (t : Task) : Inner :=
  { asap := I.asap.erase t, timed := I.timed.erase t, flag := setF I.flag t false }

/-- `aws_task_scheduler_run_all(now)`: new scheduler state and the tasks invoked, in order -/
def Inner.runAll (I : Inner) (ts : Task → Nat) (now : Nat) : Inner × List Task :=
  let running := I.asap ++ I.timed.filter (fun t => decide (ts t ≤ now))
  ({ asap := [], timed := I.timed.filter (fun t => !decide (ts t ≤ now)),
     flag := fun u => if u ∈ running then false else I.flag u }, running)

/-- `aws_task_scheduler_clean_up`: everything pending is invoked as canceled -/
def Inner.cleanUp (I : Inner) : Inner × List Task :=
  let running := I.asap ++ I.timed
  ({ asap := [], timed := [], flag := fun u => if u ∈ running then false else I.flag u }, running)

def U64 : Nat := 2^64
def U64MAX : Nat := 2^64 - 1

/-- `aws_task_scheduler_has_tasks(&next)`: the reported next time -/
def Inner.next (I : Inner) (ts : Task → Nat) : Nat :=
  if I.asap.isEmpty then I.timed.foldl (fun m t => min m (ts t)) U64MAX else 0

/-- `timeout > 0` for `timeout = next == UINT64_MAX ? 30 s : (int64_t)(next - now)` -/
def timeoutPos (next now : Nat) : Bool :=
  if next = U64MAX then true
  else
    let d := (next + U64 - now % U64) % U64
    decide (0 < d ∧ d < 2^63)

/-! ### Threads -/

inductive SPc where
  | loadExit    -- `while (!aws_atomic_load_int(&should_exit))`
  | lock1       -- aws_mutex_lock
  | swap        -- swap both hand-over queues into the private copies
  | unlock1     -- aws_mutex_unlock
  | feed        -- while (!empty(list_cpy)) schedule_future / schedule_now
  | cancels     -- while (!empty(cancel_list_cpy)) s_process_cancellation
  | readClock   -- aws_high_res_clock_get_ticks
  | runAll      -- aws_task_scheduler_run_all
  | timeout     -- has_tasks → timeout; `if (timeout > 0)`
  | lock2       -- aws_mutex_lock
  | predClock   -- s_thread_should_wake: clock read
  | predLoad    -- s_thread_should_wake: atomic load of should_exit and the rest of the predicate
  | wait        -- pthread_cond_timedwait, part 1: release the mutex, become a waiter
  | blocked     -- waiting on the condition variable
  | reacq (timedOut : Bool) -- part 2: re-acquire the mutex, return ETIMEDOUT or 0
  | unlock2     -- aws_mutex_unlock
  | exited      -- s_thread_fn returned
deriving DecidableEq, Repr

structure SThread where
  pc : SPc
  listCpy : List Task
  cancelCpy : List CRec
  /-- `current_time` of the loop body -/
  now : Nat
  /-- `current_time` of the predicate -/
  pnow : Nat
deriving Repr

inductive CPc where
  | idle                          -- between two operations
  | sBody (t : Task) (τ : Nat)    -- schedule_future: holding the mutex, before push_back
  | cBody (t : Task)              -- cancel_task: holding the mutex, before the search
  | unlock                        -- aws_mutex_unlock
  | notify                        -- aws_condition_variable_notify_one
  | dStore                        -- s_destroy_callback: aws_atomic_store_int(&should_exit, 1)
  | dNotify                       -- notify_all
  | dJoin                         -- aws_thread_join
  | dDrainQ                       -- while (!empty(scheduling_queue)) …
  | dDrainC                       -- while (!empty(cancel_queue)) s_process_cancellation
  | dCleanUp                      -- aws_task_scheduler_clean_up
  | dFree                         -- clean-ups, aws_mem_release(scheduler); release returns
deriving DecidableEq, Repr

structure Client where
  prog : List Op
  pc : CPc
  /-- ghost: references this thread owns -/
  held : Nat
deriving Repr

structure Sys where
  schedQ : List Task
  cancelQ : List CRec
  mutex : Option Nat
  shouldExit : Bool
  refCount : Nat
  inner : Inner
  /-- `task->timestamp` -/
  tsOf : Task → Nat
  clock : Nat
  log : List Entry
  st : SThread
  clients : List Client
  /-- ghost: tasks whose `push_back` into the scheduling queue has happened, in order -/
  scheduled : List Task
  /-- ghost: cancellation records allocated so far -/
  nextRec : Nat
  /-- ghost: ids of cancellation records passed to `aws_mem_release`, in order -/
  freed : List Nat
  /-- ghost: thread id of the thread that took the reference count to zero -/
  destroyer : Option Nat
  /-- the scheduler object has been freed and the final `release` has returned -/
  released : Bool

inductive Act where
  | tick (d : Nat)     -- environment: the virtual clock advances by `d`
  | sched              -- scheduler thread takes its next step (at `blocked`: the wait times out)
  | spurious           -- scheduler thread, only at `blocked`: spurious wake-up
  | client (i : Nat)   -- client `i` takes its next step
deriving DecidableEq, Repr

def SThread.init : SThread := { pc := .loadExit, listCpy := [], cancelCpy := [], now := 0, pnow := 0 }

/-- every client thread starts owning one reference (the creating thread calls `new` and then
`acquire` for each further client before it starts them) -/
def init (progs : List (List Op)) : Sys :=
  { schedQ := [], cancelQ := [], mutex := none, shouldExit := false, refCount := progs.length,
    inner := Inner.empty, tsOf := fun _ => 0, clock := 0, log := [], st := SThread.init,
    clients := progs.map (fun p => { prog := p, pc := .idle, held := 1 }),
    scheduled := [], nextRec := 0, freed := [], destroyer := none, released := false }

/-- condition-variable waiters (only the scheduler thread ever waits) -/
def cvWaiters (s : Sys) : List Nat := if s.st.pc = .blocked then [0] else []

/-- notify_one / notify_all: wakes the scheduler thread iff it is currently waiting -/
def wake (s : Sys) : Sys :=
  if s.st.pc = .blocked then { s with st := { s.st with pc := .reacq false } } else s

/-- `s_process_cancellation` executed by thread `thr` -/
def procRec (cfg : Cfg) (thr : Nat) (s : Sys) (r : CRec) : Sys :=
  if r.removed || s.inner.flag r.task || !cfg.guardCancel then
    { s with inner := s.inner.cancel r.task,
             log := s.log ++ [{ task := r.task, status := .canceled, thread := thr, time := s.clock }],
             freed := s.freed ++ [r.id] }
  else { s with freed := s.freed ++ [r.id] }

def stepSched (cfg : Cfg) (s : Sys) : Option Sys :=
  let st := s.st
  match st.pc with
  | .loadExit => some { s with st := { st with pc := if s.shouldExit then .exited else .lock1 } }
  | .lock1 => if s.mutex = none then some { s with mutex := some 0, st := { st with pc := .swap } } else none
  | .swap => some { s with schedQ := [], cancelQ := [],
                           st := { st with listCpy := s.schedQ, cancelCpy := s.cancelQ, pc := .unlock1 } }
  | .unlock1 => some { s with mutex := none, st := { st with pc := .feed } }
  | .feed =>
    match st.listCpy with
    | [] => some { s with st := { st with pc := .cancels } }
    | t :: r => some { s with inner := s.inner.schedule s.tsOf t, st := { st with listCpy := r } }
  | .cancels =>
    match st.cancelCpy with
    | [] => some { s with st := { st with pc := .readClock } }
    | r :: rest => some (procRec cfg 0 { s with st := { st with cancelCpy := rest } } r)
  | .readClock => some { s with st := { st with now := s.clock, pc := .runAll } }
  | .runAll =>
    let res := s.inner.runAll s.tsOf st.now
    some { s with inner := res.1,
                  log := s.log ++ res.2.map (fun t => { task := t, status := .run, thread := 0, time := s.clock }),
                  st := { st with pc := .timeout } }
  | .timeout =>
    some { s with st := { st with pc := if timeoutPos (s.inner.next s.tsOf) st.now then .lock2 else .loadExit } }
  | .lock2 => if s.mutex = none then some { s with mutex := some 0, st := { st with pc := .predClock } } else none
  | .predClock => some { s with st := { st with pnow := s.clock, pc := .predLoad } }
  | .predLoad =>
    let r := s.shouldExit || !s.schedQ.isEmpty || !s.cancelQ.isEmpty || decide (s.inner.next s.tsOf ≤ st.pnow)
    some { s with st := { st with pc := if r then .unlock2 else .wait } }
  | .wait => some { s with mutex := none, st := { st with pc := .blocked } }
  | .blocked => some { s with st := { st with pc := .reacq true } }
  | .reacq timedOut =>
    if s.mutex = none then
      some { s with mutex := some 0, st := { st with pc := if timedOut then .unlock2 else .predClock } }
    else none
  | .unlock2 => some { s with mutex := none, st := { st with pc := .loadExit } }
  | .exited => none

def stepSpurious (s : Sys) : Option Sys :=
  if s.st.pc = .blocked then some { s with st := { s.st with pc := .reacq false } } else none

def stepClient (cfg : Cfg) (s : Sys) (i : Nat) : Option Sys :=
  match s.clients[i]? with
  | none => none
  | some c =>
    let me := i + 1
    match c.pc with
    | .idle =>
      match c.prog with
      | [] => none
      | .scheduleNow t :: rest =>
        if s.mutex = none then
          some { s with mutex := some me, clients := s.clients.set i { c with prog := rest, pc := .sBody t 0 } }
        else none
      | .scheduleFuture t τ :: rest =>
        if s.mutex = none then
          some { s with mutex := some me, clients := s.clients.set i { c with prog := rest, pc := .sBody t τ } }
        else none
      | .cancel t :: rest =>
        if s.mutex = none then
          some { s with mutex := some me, clients := s.clients.set i { c with prog := rest, pc := .cBody t } }
        else none
      | .acquire :: rest =>
        some { s with refCount := s.refCount + 1,
                      clients := s.clients.set i { c with prog := rest, held := c.held + 1 } }
      | .release :: rest =>
        some { s with refCount := s.refCount - 1,
                      destroyer := if s.refCount = 1 then some me else s.destroyer,
                      clients := s.clients.set i
                        { prog := rest, held := c.held - 1, pc := if s.refCount = 1 then .dStore else .idle } }
    | .sBody t τ =>
      some { s with schedQ := s.schedQ ++ [t], tsOf := fun u => if u = t then τ else s.tsOf u,
                    scheduled := s.scheduled ++ [t],
                    clients := s.clients.set i { c with pc := .unlock } }
    | .cBody t =>
      let found := decide (t ∈ s.schedQ)
      some { s with schedQ := if found then s.schedQ.erase t else s.schedQ,
                    cancelQ := s.cancelQ ++ [{ id := s.nextRec, task := t, removed := found }],
                    nextRec := s.nextRec + 1,
                    clients := s.clients.set i { c with pc := .unlock } }
    | .unlock => some { s with mutex := none, clients := s.clients.set i { c with pc := .notify } }
    | .notify => some { wake s with clients := s.clients.set i { c with pc := .idle } }
    | .dStore => some { s with shouldExit := true, clients := s.clients.set i { c with pc := .dNotify } }
    | .dNotify => some { wake s with clients := s.clients.set i { c with pc := .dJoin } }
    | .dJoin =>
      if s.st.pc = .exited then
        some { s with clients := s.clients.set i { c with pc := if cfg.drain then .dDrainQ else .dCleanUp } }
      else none
    | .dDrainQ =>
      match s.schedQ with
      | [] => some { s with clients := s.clients.set i { c with pc := .dDrainC } }
      | t :: r => some { s with schedQ := r, inner := s.inner.schedule s.tsOf t }
    | .dDrainC =>
      match s.cancelQ with
      | [] => some { s with clients := s.clients.set i { c with pc := .dCleanUp } }
      | r :: rest => some (procRec cfg me { s with cancelQ := rest } r)
    | .dCleanUp =>
      let res := s.inner.cleanUp
      some { s with inner := res.1,
                    log := s.log ++ res.2.map (fun t => { task := t, status := .canceled, thread := me, time := s.clock }),
                    clients := s.clients.set i { c with pc := .dFree } }
    | .dFree => some { s with released := true, clients := s.clients.set i { c with pc := .idle } }

/-- one labelled step; `none` = the action is not enabled in `s` -/
def step (cfg : Cfg) (s : Sys) : Act → Option Sys
  | .tick d => some { s with clock := s.clock + d }
  | .sched => stepSched cfg s
  | .spurious => stepSpurious s
  | .client i => stepClient cfg s i

/-- a schedule is any list of actions; actions that are not enabled are skipped -/
def run (cfg : Cfg) (s : Sys) (acts : List Act) : Sys :=
  acts.foldl (fun s a => (step cfg s a).getD s) s

/-! ### Observables -/

def logTasks (s : Sys) : List Task := s.log.map (·.task)

/-- tasks in a hand-over queue: the shared scheduling queue or the thread's private copy of it -/
def handOver (s : Sys) : List Task := s.schedQ ++ s.st.listCpy

/-- cancellation records not yet processed: the shared cancel queue or the thread's private copy -/
def recs (s : Sys) : List CRec := s.cancelQ ++ s.st.cancelCpy

/-- tasks that live only in a cancellation record (the cancel call took them out of the queue) -/
def remTasks (l : List CRec) : List Task := (l.filter (·.removed)).map (·.task)

def innerTasks (s : Sys) : List Task := s.inner.asap ++ s.inner.timed

/-- the four places a scheduled task can be -/
def places (s : Sys) : List Task := handOver s ++ remTasks (recs s) ++ innerTasks s ++ logTasks s

def Client.done (c : Client) : Bool := c.pc == .idle && c.prog.isEmpty

/-- all client programs finished and the final release returned -/
def terminated (s : Sys) : Bool := s.released && s.clients.all Client.done

/-- thread actions (everything except the environment's clock tick) -/
def Act.isThread : Act → Bool
  | .tick _ => false
  | _ => true

/-! ### Client-program well-formedness (decidable) -/

/-- reference discipline of one client thread that currently owns `h` references: it owns at
least one whenever it uses the scheduler, every acquire is matched, and it ends owning none
(so the release that takes the count to zero is the last action of the whole program set) -/
def wfProg : Nat → List Op → Bool
  | h, [] => h == 0
  | h, .acquire :: rest => decide (1 ≤ h) && wfProg (h + 1) rest
  | h, .release :: rest => decide (1 ≤ h) && wfProg (h - 1) rest
  | h, _ :: rest => decide (1 ≤ h) && wfProg h rest

def schedTasks : List Op → List Task
  | [] => []
  | .scheduleNow t :: rest => t :: schedTasks rest
  | .scheduleFuture t _ :: rest => t :: schedTasks rest
  | _ :: rest => schedTasks rest

/-- every `cancel t` comes after a schedule of `t` in the same program -/
def wfCancel : List Task → List Op → Bool
  | _, [] => true
  | seen, .scheduleNow t :: rest => wfCancel (t :: seen) rest
  | seen, .scheduleFuture t _ :: rest => wfCancel (t :: seen) rest
  | seen, .cancel t :: rest => decide (t ∈ seen) && wfCancel seen rest
  | seen, _ :: rest => wfCancel seen rest

/-- what the theorems need: the reference discipline, and no task scheduled twice -/
def WF (progs : List (List Op)) : Prop :=
  (∀ p ∈ progs, wfProg 1 p = true) ∧ (progs.flatMap schedTasks).Nodup

/-- the API contract in full: additionally a cancel targets a task its thread has scheduled -/
def WFStrict (progs : List (List Op)) : Prop :=
  WF progs ∧ ∀ p ∈ progs, wfCancel [] p = true

instance (progs : List (List Op)) : Decidable (WF progs) := by unfold WF; infer_instance
instance (progs : List (List Op)) : Decidable (WFStrict progs) := by unfold WFStrict; infer_instance

end AwsVerif.ThreadSched
