/-!
Model of `source/thread_scheduler.c` (with the parts of `task_scheduler.c`, `ref_count.c`,
`condition_variable.c` / `posix/condition_variable.c` it relies on) as a labelled transition
system whose interleavings are *all* sequentially-consistent schedules of the scheduler thread
and the client threads at the lock / condition-variable / atomic / clock operations.

Threads.  Thread id `0` is the scheduler thread (`s_thread_fn`); client `i` (index into
`Sys.clients`) has thread id `i+1`.  The client that takes the reference count to zero runs
`s_destroy_callback` on its own thread.

Program points.  The scheduler thread's `SPc` has one point per sync/atomic operation of
`s_thread_fn` plus points for the thread-local work in between (`swap`, `feed`, `cancels`,
`readClock`, `runAll`, `timeout`, `predClock`); the loops over the private copies of the two
queues advance one element per step (`feed`, `cancels`, and `dDrainQ`, `dDrainC` in the destroy
callback), which only refines the interleavings.  `blocked` is "inside
pthread_cond_timedwait, mutex released"; it is left by a time-out (always possible), by a
spurious wake-up (`Act.spurious`) or by a notification, and the mutex is re-acquired by
`reacq`.  A notification that finds the thread not `blocked` is lost.

Inner task scheduler (`Inner`): run-now list, timed list (kept in time order by a stable
insertion), the `running_list` of `s_run_all`, and the per-task `abi_extension.scheduled` flag.
`aws_task_scheduler_cancel_task` unlinks the task from wherever it is and then invokes it
*unconditionally* — which is why `s_process_cancellation` must look at the flag.

Task functions re-enter the scheduler.  `Sys.cbs` says what a task's function does when it is
invoked with RUN / with CANCELED: nothing, or one call of `aws_thread_scheduler_schedule_now /
schedule_future / cancel_task` on the same scheduler.  The call is made by the invoking thread —
the scheduler thread inside `run_all` (`running`) or `s_process_cancellation` (`cancels`), the
releasing thread inside the destroy callback's cancel drain or clean-up — through its own program
points `cbLock / cbBody / cbUnlock / cbNotify` (resp. `dcb…`): it takes the hand-over mutex, so
no task function may be invoked while that mutex is held (`c08_callbacks_run_unlocked`).

`Cfg` selects the pre-fix behaviours for the regression witnesses: `drain := false` is the code
before 04fad6b (no hand-over-queue drain after the join), `guardCancel := false` the code before
797252a (queued cancellation always turned into a cancel).  `Cfg.fixed` is the code as it is.

Use after the last release.  A task function that the *destroy callback* invokes (cancel drain,
clean-up: the reference count is already zero) and that calls schedule / cancel uses the
scheduler without holding a reference.  The model does what the code does — the call goes
through, the task / record lands in a hand-over queue that is never looked at again — and sets
the ghost flag `misuse`; exactly-once and no-leak are claimed for runs without it
(`Props/C08.lean`, `c08_reentry_after_last_release_*` show what happens otherwise).

Ghost state (never read by a transition's guard or data path): `scheduled`, `destroyer`,
`Client.held`, the ids in `CRec` / `nextRec` / `freed`, `released`, `sweeping`, `misuse`.
-/
namespace AwsVerif.ThreadSched

abbrev Task := Nat

inductive Status where
  | run
  | canceled
deriving DecidableEq, Repr

/-- one invocation of a task function: task, status, executing thread, virtual time -/
structure Entry where
  task : Task
  status : Status
  thread : Nat
  time : Nat
deriving DecidableEq, Repr

/-- `struct cancellation_node` (the `id` is ghost: allocation ordinal) -/
structure CRec where
  id : Nat
  task : Task
  removed : Bool
deriving DecidableEq, Repr

inductive Op where
  | scheduleNow (t : Task)
  | scheduleFuture (t : Task) (τ : Nat)
  | cancel (t : Task)
  | acquire
  | release
deriving DecidableEq, Repr

/-- what a task function does when invoked: at most one re-entrant API call -/
inductive CbOp where
  | none
  | scheduleNow (t : Task)
  | scheduleFuture (t : Task) (τ : Nat)
  | cancel (t : Task)
deriving DecidableEq, Repr

structure CbEntry where
  task : Task
  status : Status
  op : CbOp
deriving DecidableEq, Repr

abbrev Cbs := List CbEntry

/-- the first entry for `(t, st)`; no entry = the function does nothing -/
def Cbs.get : Cbs → Task → Status → CbOp
  | [], _, _ => .none
  | e :: r, t, st => if e.task = t ∧ e.status = st then e.op else Cbs.get r t st

/-- the task a callback operation is going to push into the scheduling queue -/
def CbOp.target : CbOp → List Task
  | .scheduleNow t => [t]
  | .scheduleFuture t _ => [t]
  | _ => []

structure Cfg where
  /-- 04fad6b: destroy callback drains both hand-over queues after the join -/
  drain : Bool
  /-- 797252a: a queued cancellation is applied only if `removed ∨ task.scheduled` -/
  guardCancel : Bool
deriving DecidableEq, Repr

def Cfg.fixed : Cfg := { drain := true, guardCancel := true }

/-! ### Inner task scheduler (what `thread_scheduler.c` uses of `task_scheduler.c`) -/

structure Inner where
  asap : List Task
  timed : List Task
  /-- `running_list` of `s_run_all`: swept out of the two lists, not yet invoked -/
  running : List Task
  flag : Task → Bool

def Inner.empty : Inner := { asap := [], timed := [], running := [], flag := fun _ => false }

def setF (f : Task → Bool) (t : Task) (b : Bool) : Task → Bool := fun u => if u = t then b else f u

/-- stable insertion by time stamp (after all entries that are not later) -/
def insertTs (ts : Task → Nat) (t : Task) : List Task → List Task
  | [] => [t]
  | u :: r => if ts t < ts u then t :: u :: r else u :: insertTs ts t r

/-- `if (task->timestamp) schedule_future(task, task->timestamp) else schedule_now(task)` -/
def Inner.schedule (I : Inner) (ts : Task → Nat) (t : Task) : Inner :=
  if ts t = 0 then { I with asap := I.asap ++ [t], flag := setF I.flag t true }
  else { I with timed := insertTs ts t I.timed, flag := setF I.flag t true }

/-- the removal part of `aws_task_scheduler_cancel_task` (the invocation is logged by the caller) -/
def Inner.cancel (I : Inner) (t : Task) : Inner :=
  { asap := I.asap.erase t, timed := I.timed.erase t, running := I.running.erase t, flag := setF I.flag t false }

/-- first half of `s_run_all(now, …)`: everything due moves to the running list (run-now tasks
first, then timed tasks in time order).  `running_list` is a fresh local list in C; it is empty
here in every reachable state (`InvR.runInv`), the append keeps the definition total. -/
def Inner.sweepDue (I : Inner) (ts : Task → Nat) (now : Nat) : Inner :=
  { I with asap := [], timed := I.timed.filter (fun t => !decide (ts t ≤ now)),
           running := I.running ++ I.asap ++ I.timed.filter (fun t => decide (ts t ≤ now)) }

/-- `s_run_all(UINT64_MAX, CANCELED)` of the clean-up: no 64-bit time stamp is later -/
def Inner.sweepAll (I : Inner) : Inner :=
  { I with asap := [], timed := [], running := I.running ++ I.asap ++ I.timed }

/-- second half of `s_run_all`: pop the next task; `aws_task_run` clears its scheduled flag -/
def Inner.popRunning (I : Inner) : Option (Task × Inner) :=
  match I.running with
  | [] => none
  | t :: r => some (t, { I with running := r, flag := setF I.flag t false })

/-- the return value of `aws_task_scheduler_has_tasks`: something is pending -/
def Inner.hasTasks (I : Inner) : Bool := !(I.asap.isEmpty && I.timed.isEmpty)

def U64 : Nat := 2^64
def U64MAX : Nat := 2^64 - 1

/-- `aws_task_scheduler_has_tasks(&next)`: the reported next time -/
def Inner.next (I : Inner) (ts : Task → Nat) : Nat :=
  if I.asap.isEmpty then I.timed.foldl (fun m t => min m (ts t)) U64MAX else 0

/-- `timeout > 0` for `timeout = next == UINT64_MAX ? 30 s : (int64_t)(next - now)` -/
def timeoutPos (next now : Nat) : Bool :=
  if next = U64MAX then true
  else
    let d := (next + U64 - now % U64) % U64
    decide (0 < d ∧ d < 2^63)

/-! ### Threads -/

/-- where the scheduler thread continues after a task function's API call -/
inductive SRet where
  | cancels
  | running
deriving DecidableEq, Repr

inductive SPc where
  | loadExit    -- `while (!aws_atomic_load_int(&should_exit))`
  | lock1       -- aws_mutex_lock
  | swap        -- swap both hand-over queues into the private copies
  | unlock1     -- aws_mutex_unlock
  | feed        -- while (!empty(list_cpy)) schedule_future / schedule_now
  | cancels     -- while (!empty(cancel_list_cpy)) s_process_cancellation
  | readClock   -- aws_high_res_clock_get_ticks
  | runAll      -- aws_task_scheduler_run_all: sweep the due tasks into the running list
  | running     -- … while (!empty(running_list)) aws_task_run(pop_front, RUN_READY)
  | cbLock (op : CbOp) (ret : SRet)   -- task function calls the API: aws_mutex_lock
  | cbBody (op : CbOp) (ret : SRet)   -- … holding the mutex: push_back / search + record
  | cbUnlock (ret : SRet)             -- … aws_mutex_unlock
  | cbNotify (ret : SRet)             -- … notify_one (nobody waits: the thread itself is the only waiter)
  | timeout     -- has_tasks → timeout; `if (timeout > 0)`
  | lock2       -- aws_mutex_lock
  | predClock   -- s_thread_should_wake: clock read
  | predLoad    -- s_thread_should_wake: atomic load of should_exit and the rest of the predicate
  | wait        -- pthread_cond_timedwait, part 1: release the mutex, become a waiter
  | blocked     -- waiting on the condition variable
  | reacq (timedOut : Bool) -- part 2: re-acquire the mutex, return ETIMEDOUT or 0
  | unlock2     -- aws_mutex_unlock
  | exited      -- s_thread_fn returned
deriving DecidableEq, Repr

structure SThread where
  pc : SPc
  listCpy : List Task
  cancelCpy : List CRec
  /-- `current_time` of the loop body -/
  now : Nat
  /-- `current_time` of the predicate -/
  pnow : Nat
deriving Repr

/-- where the destroy callback continues after a task function's API call -/
inductive DRet where
  | drainC
  | sweep
deriving DecidableEq, Repr

inductive CPc where
  | idle                          -- between two operations
  | sBody (t : Task) (τ : Nat)    -- schedule_future: holding the mutex, before push_back
  | cBody (t : Task)              -- cancel_task: holding the mutex, before the search
  | unlock                        -- aws_mutex_unlock
  | notify                        -- aws_condition_variable_notify_one
  | dStore                        -- s_destroy_callback: aws_atomic_store_int(&should_exit, 1)
  | dNotify                       -- notify_all
  | dJoin                         -- aws_thread_join
  | dDrainQ                       -- while (!empty(scheduling_queue)) …
  | dDrainC                       -- while (!empty(cancel_queue)) s_process_cancellation
  | dCleanUp                      -- aws_task_scheduler_clean_up: while (has_tasks) sweep everything …
  | dSweep                        -- … and run it as canceled
  | dcbLock (op : CbOp) (ret : DRet)  -- task function invoked by the destroy callback calls the API: lock
  | dcbBody (op : CbOp) (ret : DRet)
  | dcbUnlock (ret : DRet)
  | dcbNotify (ret : DRet)
  | dFree                         -- clean-ups, aws_mem_release(scheduler); release returns
deriving DecidableEq, Repr

structure Client where
  prog : List Op
  pc : CPc
  /-- ghost: references this thread owns -/
  held : Nat
deriving Repr

structure Sys where
  schedQ : List Task
  cancelQ : List CRec
  mutex : Option Nat
  shouldExit : Bool
  refCount : Nat
  inner : Inner
  /-- `task->timestamp` -/
  tsOf : Task → Nat
  clock : Nat
  log : List Entry
  st : SThread
  clients : List Client
  /-- ghost: tasks whose `push_back` into the scheduling queue has happened, in order -/
  scheduled : List Task
  /-- ghost: cancellation records allocated so far -/
  nextRec : Nat
  /-- ghost: ids of cancellation records passed to `aws_mem_release`, in order -/
  freed : List Nat
  /-- ghost: thread id of the thread that took the reference count to zero -/
  destroyer : Option Nat
  /-- the scheduler object has been freed and the final `release` has returned -/
  released : Bool
  /-- what the task functions do (constant) -/
  cbs : Cbs
  /-- ghost: the destroy callback is inside `s_run_all(UINT64_MAX, CANCELED)` -/
  sweeping : Bool
  /-- ghost: a task function invoked by the destroy callback (reference count zero) called the API -/
  misuse : Bool

inductive Act where
  | tick (d : Nat)     -- environment: the virtual clock advances by `d`
  | sched              -- scheduler thread takes its next step (at `blocked`: the wait times out)
  | spurious           -- scheduler thread, only at `blocked`: spurious wake-up
  | client (i : Nat)   -- client `i` takes its next step
deriving DecidableEq, Repr

def SThread.init : SThread := { pc := .loadExit, listCpy := [], cancelCpy := [], now := 0, pnow := 0 }

/-- every client thread starts owning one reference (the creating thread calls `new` and then
`acquire` for each further client before it starts them) -/
def init (progs : List (List Op)) (cbs : Cbs := []) : Sys :=
  { schedQ := [], cancelQ := [], mutex := none, shouldExit := false, refCount := progs.length,
    inner := Inner.empty, tsOf := fun _ => 0, clock := 0, log := [], st := SThread.init,
    clients := progs.map (fun p => { prog := p, pc := .idle, held := 1 }),
    scheduled := [], nextRec := 0, freed := [], destroyer := none, released := false, cbs := cbs,
    sweeping := false, misuse := false }

/-- condition-variable waiters (only the scheduler thread ever waits) -/
def cvWaiters (s : Sys) : List Nat := if s.st.pc = .blocked then [0] else []

/-- notify_one / notify_all: wakes the scheduler thread iff it is currently waiting -/
def wake (s : Sys) : Sys :=
  if s.st.pc = .blocked then { s with st := { s.st with pc := .reacq false } } else s

/-- the critical section of `aws_thread_scheduler_schedule_future(task, τ)` -/
def pushTask (s : Sys) (t : Task) (τ : Nat) : Sys :=
  { s with schedQ := s.schedQ ++ [t], tsOf := fun u => if u = t then τ else s.tsOf u,
           scheduled := s.scheduled ++ [t] }

/-- the critical section of `aws_thread_scheduler_cancel_task(task)` -/
def pushCancel (s : Sys) (t : Task) : Sys :=
  let found := decide (t ∈ s.schedQ)
  { s with schedQ := if found then s.schedQ.erase t else s.schedQ,
           cancelQ := s.cancelQ ++ [{ id := s.nextRec, task := t, removed := found }],
           nextRec := s.nextRec + 1 }

/-- the critical section of a task function's API call -/
def apiBody (s : Sys) : CbOp → Sys
  | .none => s
  | .scheduleNow t => pushTask s t 0
  | .scheduleFuture t τ => pushTask s t τ
  | .cancel t => pushCancel s t

/-- `removed_from_scheduling_queue || task->abi_extension.scheduled` -/
def procGuard (cfg : Cfg) (s : Sys) (r : CRec) : Bool :=
  r.removed || s.inner.flag r.task || !cfg.guardCancel

/-- program point after a task function was invoked: its API call, or straight on -/
def SRet.pc : SRet → SPc
  | .cancels => .cancels
  | .running => .running

def afterInvokeS (op : CbOp) (ret : SRet) : SPc :=
  match op with
  | .none => ret.pc
  | op => .cbLock op ret

def DRet.pc : DRet → CPc
  | .drainC => .dDrainC
  | .sweep => .dSweep

def afterInvokeD (op : CbOp) (ret : DRet) : CPc :=
  match op with
  | .none => ret.pc
  | op => .dcbLock op ret

/-- `s_process_cancellation` executed by thread `thr` (the record is released after the task
function returned; the model releases it in the same step, which no other thread can tell) -/
def procRec (cfg : Cfg) (thr : Nat) (s : Sys) (r : CRec) : Sys :=
  if procGuard cfg s r then
    { s with inner := s.inner.cancel r.task,
             log := s.log ++ [{ task := r.task, status := .canceled, thread := thr, time := s.clock }],
             freed := s.freed ++ [r.id] }
  else { s with freed := s.freed ++ [r.id] }

def stepSched (cfg : Cfg) (s : Sys) : Option Sys :=
  let st := s.st
  match st.pc with
  | .loadExit => some { s with st := { st with pc := if s.shouldExit then .exited else .lock1 } }
  | .lock1 => if s.mutex = none then some { s with mutex := some 0, st := { st with pc := .swap } } else none
  | .swap => some { s with schedQ := [], cancelQ := [],
                           st := { st with listCpy := s.schedQ, cancelCpy := s.cancelQ, pc := .unlock1 } }
  | .unlock1 => some { s with mutex := none, st := { st with pc := .feed } }
  | .feed =>
    match st.listCpy with
    | [] => some { s with st := { st with pc := .cancels } }
    | t :: r => some { s with inner := s.inner.schedule s.tsOf t, st := { st with listCpy := r } }
  | .cancels =>
    match st.cancelCpy with
    | [] => some { s with st := { st with pc := .readClock } }
    | r :: rest =>
      let op := if procGuard cfg s r then s.cbs.get r.task .canceled else .none
      let s1 := procRec cfg 0 { s with st := { st with cancelCpy := rest } } r
      some { s1 with st := { s1.st with pc := afterInvokeS op .cancels } }
  | .readClock => some { s with st := { st with now := s.clock, pc := .runAll } }
  | .runAll => some { s with inner := s.inner.sweepDue s.tsOf st.now, st := { st with pc := .running } }
  | .running =>
    match s.inner.popRunning with
    | none => some { s with st := { st with pc := .timeout } }
    | some (t, I) =>
      some { s with inner := I,
                    log := s.log ++ [{ task := t, status := .run, thread := 0, time := s.clock }],
                    st := { st with pc := afterInvokeS (s.cbs.get t .run) .running } }
  | .cbLock op ret =>
    if s.mutex = none then some { s with mutex := some 0, st := { st with pc := .cbBody op ret } } else none
  | .cbBody op ret => let s1 := apiBody s op; some { s1 with st := { s1.st with pc := .cbUnlock ret } }
  | .cbUnlock ret => some { s with mutex := none, st := { st with pc := .cbNotify ret } }
  | .cbNotify ret => some { s with st := { st with pc := ret.pc } }
  | .timeout =>
    some { s with st := { st with pc := if timeoutPos (s.inner.next s.tsOf) st.now then .lock2 else .loadExit } }
  | .lock2 => if s.mutex = none then some { s with mutex := some 0, st := { st with pc := .predClock } } else none
  | .predClock => some { s with st := { st with pnow := s.clock, pc := .predLoad } }
  | .predLoad =>
    let r := s.shouldExit || !s.schedQ.isEmpty || !s.cancelQ.isEmpty || decide (s.inner.next s.tsOf ≤ st.pnow)
    some { s with st := { st with pc := if r then .unlock2 else .wait } }
  | .wait => some { s with mutex := none, st := { st with pc := .blocked } }
  | .blocked => some { s with st := { st with pc := .reacq true } }
  | .reacq timedOut =>
    if s.mutex = none then
      some { s with mutex := some 0, st := { st with pc := if timedOut then .unlock2 else .predClock } }
    else none
  | .unlock2 => some { s with mutex := none, st := { st with pc := .loadExit } }
  | .exited => none

def stepSpurious (s : Sys) : Option Sys :=
  if s.st.pc = .blocked then some { s with st := { s.st with pc := .reacq false } } else none

def stepClient (cfg : Cfg) (s : Sys) (i : Nat) : Option Sys :=
  match s.clients[i]? with
  | none => none
  | some c =>
    let me := i + 1
    match c.pc with
    | .idle =>
      match c.prog with
      | [] => none
      | .scheduleNow t :: rest =>
        if s.mutex = none then
          some { s with mutex := some me, clients := s.clients.set i { c with prog := rest, pc := .sBody t 0 } }
        else none
      | .scheduleFuture t τ :: rest =>
        if s.mutex = none then
          some { s with mutex := some me, clients := s.clients.set i { c with prog := rest, pc := .sBody t τ } }
        else none
      | .cancel t :: rest =>
        if s.mutex = none then
          some { s with mutex := some me, clients := s.clients.set i { c with prog := rest, pc := .cBody t } }
        else none
      | .acquire :: rest =>
        some { s with refCount := s.refCount + 1,
                      clients := s.clients.set i { c with prog := rest, held := c.held + 1 } }
      | .release :: rest =>
        some { s with refCount := s.refCount - 1,
                      destroyer := if s.refCount = 1 then some me else s.destroyer,
                      clients := s.clients.set i
                        { prog := rest, held := c.held - 1, pc := if s.refCount = 1 then .dStore else .idle } }
    | .sBody t τ =>
      some { s with schedQ := s.schedQ ++ [t], tsOf := fun u => if u = t then τ else s.tsOf u,
                    scheduled := s.scheduled ++ [t],
                    clients := s.clients.set i { c with pc := .unlock } }
    | .cBody t =>
      let found := decide (t ∈ s.schedQ)
      some { s with schedQ := if found then s.schedQ.erase t else s.schedQ,
                    cancelQ := s.cancelQ ++ [{ id := s.nextRec, task := t, removed := found }],
                    nextRec := s.nextRec + 1,
                    clients := s.clients.set i { c with pc := .unlock } }
    | .unlock => some { s with mutex := none, clients := s.clients.set i { c with pc := .notify } }
    | .notify => some { wake s with clients := s.clients.set i { c with pc := .idle } }
    | .dStore => some { s with shouldExit := true, clients := s.clients.set i { c with pc := .dNotify } }
    | .dNotify => some { wake s with clients := s.clients.set i { c with pc := .dJoin } }
    | .dJoin =>
      if s.st.pc = .exited then
        some { s with clients := s.clients.set i { c with pc := if cfg.drain then .dDrainQ else .dCleanUp } }
      else none
    | .dDrainQ =>
      match s.schedQ with
      | [] => some { s with clients := s.clients.set i { c with pc := .dDrainC } }
      | t :: r => some { s with schedQ := r, inner := s.inner.schedule s.tsOf t }
    | .dDrainC =>
      match s.cancelQ with
      | [] => some { s with clients := s.clients.set i { c with pc := .dCleanUp } }
      | r :: rest =>
        let op := if procGuard cfg s r then s.cbs.get r.task .canceled else .none
        let s1 := procRec cfg me { s with cancelQ := rest } r
        some { s1 with misuse := s1.misuse || decide (op ≠ .none),
                       clients := s1.clients.set i { c with pc := afterInvokeD op .drainC } }
    | .dCleanUp =>
      if s.inner.hasTasks then
        some { s with inner := s.inner.sweepAll, sweeping := true, clients := s.clients.set i { c with pc := .dSweep } }
      else some { s with clients := s.clients.set i { c with pc := .dFree } }
    | .dSweep =>
      match s.inner.popRunning with
      | none => some { s with sweeping := false, clients := s.clients.set i { c with pc := .dCleanUp } }
      | some (t, I) =>
        let op := s.cbs.get t .canceled
        some { s with inner := I,
                      log := s.log ++ [{ task := t, status := .canceled, thread := me, time := s.clock }],
                      misuse := s.misuse || decide (op ≠ .none),
                      clients := s.clients.set i { c with pc := afterInvokeD op .sweep } }
    | .dcbLock op ret =>
      if s.mutex = none then
        some { s with mutex := some me, clients := s.clients.set i { c with pc := .dcbBody op ret } }
      else none
    | .dcbBody op ret =>
      let s1 := apiBody s op
      some { s1 with clients := s1.clients.set i { c with pc := .dcbUnlock ret } }
    | .dcbUnlock ret => some { s with mutex := none, clients := s.clients.set i { c with pc := .dcbNotify ret } }
    | .dcbNotify ret => some { wake s with clients := s.clients.set i { c with pc := ret.pc } }
    | .dFree => some { s with released := true, clients := s.clients.set i { c with pc := .idle } }

/-- one labelled step; `none` = the action is not enabled in `s` -/
def step (cfg : Cfg) (s : Sys) : Act → Option Sys
  | .tick d => some { s with clock := s.clock + d }
  | .sched => stepSched cfg s
  | .spurious => stepSpurious s
  | .client i => stepClient cfg s i

/-- a schedule is any list of actions; actions that are not enabled are skipped -/
def run (cfg : Cfg) (s : Sys) (acts : List Act) : Sys :=
  acts.foldl (fun s a => (step cfg s a).getD s) s

/-! ### Observables -/

def logTasks (s : Sys) : List Task := s.log.map (·.task)

/-- tasks in a hand-over queue: the shared scheduling queue or the thread's private copy of it -/
def handOver (s : Sys) : List Task := s.schedQ ++ s.st.listCpy

/-- cancellation records not yet processed: the shared cancel queue or the thread's private copy -/
def recs (s : Sys) : List CRec := s.cancelQ ++ s.st.cancelCpy

/-- tasks that live only in a cancellation record (the cancel call took them out of the queue) -/
def remTasks (l : List CRec) : List Task := (l.filter (·.removed)).map (·.task)

def innerTasks (s : Sys) : List Task := s.inner.asap ++ s.inner.timed ++ s.inner.running

/-- the four places a scheduled task can be -/
def places (s : Sys) : List Task := handOver s ++ remTasks (recs s) ++ innerTasks s ++ logTasks s

def Client.done (c : Client) : Bool := c.pc == .idle && c.prog.isEmpty

/-- all client programs finished and the final release returned -/
def terminated (s : Sys) : Bool := s.released && s.clients.all Client.done

/-- the thread that performs an action -/
def Act.thread : Act → Option Nat
  | .tick _ => none
  | .sched => some 0
  | .spurious => some 0
  | .client i => some (i + 1)

/-- thread actions (everything except the environment's clock tick) -/
def Act.isThread : Act → Bool
  | .tick _ => false
  | _ => true

/-! ### Client-program well-formedness (decidable) -/

/-- reference discipline of one client thread that currently owns `h` references: it owns at
least one whenever it uses the scheduler, every acquire is matched, and it ends owning none
(so the release that takes the count to zero is the last action of the whole program set) -/
def wfProg : Nat → List Op → Bool
  | h, [] => h == 0
  | h, .acquire :: rest => decide (1 ≤ h) && wfProg (h + 1) rest
  | h, .release :: rest => decide (1 ≤ h) && wfProg (h - 1) rest
  | h, _ :: rest => decide (1 ≤ h) && wfProg h rest

def schedTasks : List Op → List Task
  | [] => []
  | .scheduleNow t :: rest => t :: schedTasks rest
  | .scheduleFuture t _ :: rest => t :: schedTasks rest
  | _ :: rest => schedTasks rest

/-- every `cancel t` comes after a schedule of `t` in the same program -/
def wfCancel : List Task → List Op → Bool
  | _, [] => true
  | seen, .scheduleNow t :: rest => wfCancel (t :: seen) rest
  | seen, .scheduleFuture t _ :: rest => wfCancel (t :: seen) rest
  | seen, .cancel t :: rest => decide (t ∈ seen) && wfCancel seen rest
  | seen, _ :: rest => wfCancel seen rest

/-- the tasks the task functions are going to schedule -/
def cbTargets (cbs : Cbs) : List Task := cbs.flatMap (·.op.target)

/-- what the theorems need: the reference discipline, and no task scheduled twice — neither by two
client operations, nor by two task functions, nor by one of each -/
def WF (progs : List (List Op)) (cbs : Cbs := []) : Prop :=
  (∀ p ∈ progs, wfProg 1 p = true) ∧ (progs.flatMap schedTasks ++ cbTargets cbs).Nodup

/-- the API contract in full: additionally a cancel targets a task its thread has scheduled -/
def WFStrict (progs : List (List Op)) (cbs : Cbs := []) : Prop :=
  WF progs cbs ∧ ∀ p ∈ progs, wfCancel [] p = true

instance (progs : List (List Op)) (cbs : Cbs) : Decidable (WF progs cbs) := by unfold WF; infer_instance
instance (progs : List (List Op)) (cbs : Cbs) : Decidable (WFStrict progs cbs) := by unfold WFStrict; infer_instance

/-- the remaining clause of well-formedness for re-entrant task functions, a decidable property of
the run: no task function invoked by the destroy callback — i.e. after the last reference was
released — has called schedule / cancel on the scheduler.  (Task functions invoked by the
scheduler thread, with RUN or through an explicit cancel, may re-enter freely.) -/
def NoReentryAfterLastRelease (s : Sys) : Prop := s.misuse = false

instance (s : Sys) : Decidable (NoReentryAfterLastRelease s) := by unfold NoReentryAfterLastRelease; infer_instance

/-- a static sufficient condition: no task function re-enters when invoked with CANCELED -/
def NoCanceledReentry (cbs : Cbs) : Prop := ∀ e ∈ cbs, e.status = .canceled → e.op = .none

instance (cbs : Cbs) : Decidable (NoCanceledReentry cbs) := by unfold NoCanceledReentry; infer_instance

end AwsVerif.ThreadSched
