import AwsVerif.Model.Heap
import AwsVerif.Gen.HeapIdx
/-!
Model of `source/task_scheduler.c` on top of the priority-queue model.

* `asap`, `timedList`, `running` — the intrusive lists `asap_list`, `timed_list` and the local
  `running_list` of `s_run_all` as lists of task ids.  `task->node.next != NULL` ("linked into some
  list") is membership in one of the three.
* `timed` — `timed_queue`: the C06 heap (`Model/Heap.lean`) of `(key := timestamp, uid := task id)` with the
  comparator `tsCmp` = `s_compare_timestamps` as *generated* from task_scheduler.c on every run
  (`Gen/HeapIdx.lean`); the handle of task `t` (`task->priority_queue_node`) is handle `t` of that heap.
* `ts t`, `scheduled t` — `task->timestamp`, `task->abi_extension.scheduled`.
* `failPush` — forced-failure switch: while set, `aws_priority_queue_push_ref` in
  `schedule_future` fails and the sorted insertion into `timed_list` is taken (in the harness the
  timed queue is exchanged for a static queue for the duration of the call: handle on a static
  queue = `UNSUPPORTED_OPERATION`).
* Task functions are *scripts*: `P t g status` is the list of actions generation `g` of task `t`
  performs when invoked with `status`; they are executed re-entrantly at the point where
  `aws_task_run` calls the function (after `scheduled := false`).  The client wrapper guards every
  action by the API contract (schedule only a task that is not pending, cancel only a pending
  one, task id known); a refused action is counted in `skipped`.
* `gen`, `tsAt`, `log`, `cause` are ghost/observable: `gen t` counts how often `t` was scheduled,
  `tsAt t g` is the time generation `g` of `t` was scheduled for (0 for run-now), every invocation
  appends `(t, gen t, status, now, cause)`.
* Recursion (task → cancel → task …, the run loop, the clean-up loop) is bounded by `fuel`; running
  out of it sets `diverged` — all theorems are about executions that did not.
-/
namespace AwsVerif.Sched
open AwsVerif.Heap

def UINT64_MAX : Nat := 2^64 - 1

/-- `queue->pred(a, b) > 0` of the timed queue: the generated `s_compare_timestamps` applied to the two tasks'
`uint64_t` timestamps; its `int` result (32-bit two's complement) is positive iff it lies in `(0, 2^31)` -/
def tsCmp : Cmp :=
  ⟨fun a b => decide (0 < Gen.HeapIdx.s_compare_timestamps (a % 2^64) (b % 2^64) ∧
                      Gen.HeapIdx.s_compare_timestamps (a % 2^64) (b % 2^64) < 2^31)⟩

inductive Status where
  | run       -- AWS_TASK_STATUS_RUN_READY
  | canceled  -- AWS_TASK_STATUS_CANCELED
deriving DecidableEq, Repr

inductive Action where
  | scheduleNow (t : Nat)
  | scheduleFuture (t : Nat) (time : Nat)
  | cancel (t : Nat)
deriving DecidableEq, Repr

/-- task id → generation → status → actions -/
abbrev Script := Nat → Nat → Status → List Action

/-- who called `aws_task_run` (ghost) -/
inductive Cause where
  | runAll | cancel | cleanUp
deriving DecidableEq, Repr

structure Entry where
  task   : Nat
  gen    : Nat
  status : Status
  now    : Nat
  cause  : Cause
deriving DecidableEq, Repr

structure St where
  ntasks    : Nat
  asap      : List Nat
  timed     : PQ
  timedList : List Nat
  running   : List Nat
  ts        : Nat → Nat
  scheduled : Nat → Bool
  failPush  : Bool
  now       : Nat
  gen       : Nat → Nat
  tsAt      : Nat → Nat → Nat
  log       : List Entry
  skipped   : Nat
  diverged  : Bool

def St.init (n : Nat) : St :=
  { ntasks := n, asap := [], timed := initDynamic, timedList := [], running := [], ts := fun _ => 0,
    scheduled := fun _ => false, failPush := false, now := 0, gen := fun _ => 0, tsAt := fun _ _ => 0, log := [],
    skipped := 0,
    diverged := false }

def updF {α} (f : Nat → α) (t : Nat) (v : α) : Nat → α := fun x => if x = t then v else f x
def updF2 (f : Nat → Nat → Nat) (t g : Nat) (v : Nat) : Nat → Nat → Nat :=
  fun x y => if x = t ∧ y = g then v else f x y

/-- `aws_priority_queue_node_init(&task->priority_queue_node)`: `current_index = SIZE_MAX` -/
def nodeInit (q : PQ) (t : Nat) : PQ := { q with handles := upd q.handles t none }

/-- `aws_task_scheduler_schedule_now` -/
def scheduleNow (s : St) (t : Nat) : St :=
  { s with timed := nodeInit s.timed t, ts := updF s.ts t 0, asap := s.asap ++ [t],
           scheduled := updF s.scheduled t true, gen := updF s.gen t (s.gen t + 1),
           tsAt := updF2 s.tsAt t (s.gen t + 1) 0 }

/-- the sorted insertion of `schedule_future`'s fall-back: before the first task whose timestamp is
greater than `time` -/
def insertSorted (ts : Nat → Nat) (time : Nat) (t : Nat) : List Nat → List Nat
  | [] => [t]
  | x :: xs => if ts x > time then t :: x :: xs else x :: insertSorted ts time t xs

/-- `aws_task_scheduler_schedule_future` for a time that is a `uint64_t` value -/
def scheduleFutureU (s : St) (t : Nat) (time : Nat) : St :=
  let q0 := nodeInit s.timed t
  let ts := updF s.ts t time
  let r := if s.failPush then (q0, some Err.unsupported) else pushRef tsCmp q0 ⟨time, t⟩ (some t)
  match r.2 with
  | none =>
    { s with timed := r.1, ts := ts, scheduled := updF s.scheduled t true, gen := updF s.gen t (s.gen t + 1),
             tsAt := updF2 s.tsAt t (s.gen t + 1) time }
  | some _ =>
    { s with timed := r.1, ts := ts, timedList := insertSorted ts time t s.timedList,
             scheduled := updF s.scheduled t true, gen := updF s.gen t (s.gen t + 1),
             tsAt := updF2 s.tsAt t (s.gen t + 1) time }

/-- `aws_task_scheduler_schedule_future(scheduler, task, uint64_t time_to_run)` -/
def scheduleFuture (s : St) (t : Nat) (time : Nat) : St := scheduleFutureU s t (time % 2^64)

/-- `aws_task_scheduler_has_tasks`: (has_tasks, *next_task_time) -/
def hasTasks (s : St) : Bool × Nat :=
  if s.asap ≠ [] then (true, 0)
  else
    let r : Bool × Nat := match s.timedList with
      | [] => (false, UINT64_MAX)
      | t :: _ => (true, s.ts t)
    match top s.timed with
    | .ok e => (true, if e.key < r.2 then e.key else r.2)
    | .error _ => r

/-- `aws_priority_queue_pop` + `push_back(&running_list, …)` -/
def takeHeap (s : St) : St :=
  match pop tsCmp s.timed with
  | (q', .ok e) => { s with timed := q', running := s.running ++ [e.uid] }
  | (q', .error _) => { s with timed := q' }

/-- `aws_linked_list_pop_front(&timed_list)` + `push_back(&running_list, …)` -/
def takeList (s : St) : St :=
  match s.timedList with
  | [] => s
  | t :: r => { s with timedList := r, running := s.running ++ [t] }

/-- first loop of `s_run_all` (while `timed_list` is not empty) -/
def detachLoop1 : Nat → St → Nat → St
  | 0, s, _ => s
  | n + 1, s, now =>
    match s.timedList with
    | [] => s
    | tl :: _ =>
      if s.ts tl > now then s
      else
        match top s.timed with
        | .ok e =>
          if e.key ≤ now ∧ e.key < s.ts tl then detachLoop1 n (takeHeap s) now
          else detachLoop1 n (takeList s) now
        | .error _ => detachLoop1 n (takeList s) now

/-- second loop of `s_run_all` (remaining due tasks of `timed_queue`) -/
def detachLoop2 : Nat → St → Nat → St
  | 0, s, _ => s
  | n + 1, s, now =>
    match top s.timed with
    | .ok e => if e.key > now then s else detachLoop2 n (takeHeap s) now
    | .error _ => s

/-- `s_run_all` up to "Run tasks": everything due is moved to `running_list` -/
def detach (s : St) (now : Nat) : St :=
  let s0 := { s with running := s.asap, asap := [], now := now }
  let s1 := detachLoop1 (s0.timedList.length + s0.timed.items.size + 1) s0 now
  detachLoop2 (s1.timed.items.size + 1) s1 now

/-- `aws_task_run` before the call of the function: `scheduled = false` (and the log entry the
function will write) -/
def mark (s : St) (t : Nat) (st : Status) (c : Cause) : St :=
  { s with scheduled := updF s.scheduled t false, log := s.log ++ [⟨t, s.gen t, st, s.now, c⟩] }

/-- `aws_task_scheduler_cancel_task` before `aws_task_run`: unlink from whichever list, else remove
from the heap by handle (the return value of `aws_priority_queue_remove` is ignored, as in the C) -/
def unlink (s : St) (t : Nat) : St :=
  if t ∈ s.asap ∨ t ∈ s.timedList ∨ t ∈ s.running then
    { s with asap := s.asap.erase t, timedList := s.timedList.erase t, running := s.running.erase t }
  else if s.scheduled t then { s with timed := (remove tsCmp s.timed t).1 }
  else s

def skip (s : St) : St := { s with skipped := s.skipped + 1 }

/-- one action of a script (or a top-level API call), guarded by the API contract; `runner` is
`aws_task_run`'s continuation (the task function) -/
def execAction (runner : St → Nat → Status → Cause → St) (s : St) : Action → St
  | .scheduleNow t => if t < s.ntasks ∧ s.scheduled t = false then scheduleNow s t else skip s
  | .scheduleFuture t time => if t < s.ntasks ∧ s.scheduled t = false then scheduleFuture s t time else skip s
  | .cancel t => if t < s.ntasks ∧ s.scheduled t = true then runner (unlink s t) t .canceled .cancel else skip s

/-- `aws_task_run(task, status)`: clear the flag, then the function = its script, re-entrantly -/
def runTask : Nat → Script → St → Nat → Status → Cause → St
  | 0, _, s, t, st, c => { mark s t st c with diverged := true }
  | fuel + 1, P, s, t, st, c =>
    (P t (s.gen t) st).foldl (execAction (runTask fuel P)) (mark s t st c)

/-- "Run tasks" loop of `s_run_all` -/
def runLoop : Nat → Script → Status → Cause → St → St
  | 0, _, _, _, s => if s.running = [] then s else { s with diverged := true }
  | fuel + 1, P, st, c, s =>
    match s.running with
    | [] => s
    | t :: r => runLoop fuel P st c (runTask fuel P { s with running := r } t st c)

def sRunAll (fuel : Nat) (P : Script) (s : St) (now : Nat) (st : Status) (c : Cause) : St :=
  runLoop fuel P st c (detach s now)

/-- the loop of `aws_task_scheduler_clean_up` -/
def cleanLoop : Nat → Script → St → St
  | 0, _, s => if (hasTasks s).1 then { s with diverged := true } else s
  | fuel + 1, P, s =>
    if (hasTasks s).1 then cleanLoop fuel P (sRunAll fuel P s UINT64_MAX .canceled .cleanUp) else s

/-- `aws_task_scheduler_clean_up` followed by a fresh `aws_task_scheduler_init` (a loop that ran out
of fuel never reaches `aws_priority_queue_clean_up`) -/
def cleanUp (fuel : Nat) (P : Script) (s : St) : St :=
  let s' := cleanLoop fuel P s
  if s'.diverged then s' else { s' with timed := initDynamic }

inductive Op where
  | schedNow (t : Nat)
  | schedFuture (t : Nat) (time : Nat)
  | cancel (t : Nat)
  | runAll (now : Nat)
  | hasTasks
  | cleanUp
  | failMode (b : Bool)
deriving DecidableEq, Repr

def opStep (fuel : Nat) (P : Script) (s : St) : Op → St
  | .schedNow t => execAction (runTask fuel P) s (.scheduleNow t)
  | .schedFuture t time => execAction (runTask fuel P) s (.scheduleFuture t time)
  | .cancel t => execAction (runTask fuel P) s (.cancel t)
  | .runAll now => sRunAll fuel P s now .run .runAll
  | .hasTasks => s
  | .cleanUp => cleanUp fuel P s
  | .failMode b => { s with failPush := b }

def runOps (fuel : Nat) (P : Script) (s : St) : List Op → St
  | [] => s
  | op :: ops => runOps fuel P (opStep fuel P s op) ops

end AwsVerif.Sched
