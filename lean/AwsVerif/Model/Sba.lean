import AwsVerif.Gen.SbaConsts
import AwsVerif.Gen.Math
/-!
Model of `source/allocator_sba.c` (small-block allocator) and the parts of `source/allocator.c`
it is reached through (`aws_mem_acquire/calloc/realloc/release`).

* Addresses are `(page, off)`.  Page ids stand for page-aligned addresses divided by
  `AWS_SBA_PAGE_SIZE`; `Addr.lin` is the numeric pointer value (used where the C compares
  pointers: the purge loop).  `s_page_base(addr)` is `addr.page` (masking a pointer whose offset is
  below the page size).
* The OS page source (`posix_memalign(PAGE_SIZE, PAGE_SIZE)`) is a *parameter* of every allocation
  (`os`): the page id it would return.  The environment assumption "the page returned is not one
  currently held" is the guard `s.pages os = none` in `act`; a page id that was returned to the OS
  earlier may be offered again.  The parent allocator is a source of block ids (`big`), assumed
  fresh in the same way.
* `pages` is the memory of the page headers of the pages currently held; `bins i` the `sba_bin`s.
  Reading the header of a page that is not held yields "untagged".  For parent blocks this is an
  ASSUMPTION of the model (the words at the page base of a parent block are not the tag): the
  unlocked tag test of `s_sba_free` on memory the allocator does not own is NOT in the Lean model.
  It is covered by a run instead: the check's plain (-O2) stage drives long random histories with
  `malloc` as the parent, which recycles the memory of pages the allocator returned, so parent
  blocks do land on such memory (`props/c03.py: history_runs`).  That run exposed the defect repaired
  by /repo bdb9b25 (the tag erase before `s_aligned_free` was a dead store: freed pages kept valid
  tags and a parent block placed there was released as a chunk).  User data that happens to carry
  the tag value at a page base remains outside model and run.
* Ghost state: `live` (blocks handed to the caller and not yet given back, with the requested
  size, in allocation order) and `mem` (byte contents, addressed by page/offset or parent block/offset).
* Bin operations are atomic actions (`Act`): they run under the bin's mutex in the C code.  In
  particular the free action contains the working-page test (`page != s_page_base(bin->page_cursor)`)
  — in the source it is evaluated inside `s_sba_free_to_bin`, i.e. between `sba->lock` and
  `sba->unlock`, and no bin state (`page_cursor`, `free_chunks`, `active_pages`, `alloc_count`) is
  read outside the lock.  That is an ASSUMPTION of the model about the source; it is checked on the
  source text at every regeneration (`props/c03.py: check_critical_sections`, a failure stops the
  Lean stage) and tied by the scheduled run (`sched_stage`: the real multi-threaded allocator under
  `harness/detsched.c`, every single preemption at the library's lock/unlock points per size class).
  A version of the code that reads the cursor before taking the lock would need a split step
  (unlocked read | locked part) in this transition system; the current code does not do that.
  The sequential API functions (`acquire`, `calloc`, `realloc`, `release`) are compositions of
  actions; a multi-threaded history is a merge of per-thread action sequences.
-/
namespace AwsVerif.Sba
open AwsVerif.Gen.SbaConsts
open AwsVerif.Gen.Math
open AwsVerif

structure Addr where
  page : Nat
  off : Nat
deriving DecidableEq, Repr, Inhabited

/-- numeric value of the pointer -/
def Addr.lin (a : Addr) : Nat := a.page * pageSize + a.off

/-- `struct page_header` -/
structure Page where
  tag : Nat
  tag2 : Nat
  bin : Nat
  allocCount : Nat
deriving DecidableEq, Repr, Inhabited

/-- `struct sba_bin` (the mutex is the atomicity of `Act`) -/
structure Bin where
  size : Nat
  cursor : Option Addr          -- page_cursor (NULL = none)
  activePages : List Nat        -- array list, push_back at the end
  freeChunks : List Addr        -- array list, used LIFO at the back
deriving DecidableEq, Repr, Inhabited

/-- what the caller holds: a chunk of a page, or a block of the parent allocator -/
inductive Ptr where
  | chunk (a : Addr)
  | big (id : Nat)
deriving DecidableEq, Repr, Inhabited

/-- byte locations -/
inductive Loc where
  | pg (page off : Nat)
  | big (id off : Nat)
deriving DecidableEq, Repr

/-- location of byte `i` of a block -/
def Ptr.at : Ptr → Nat → Loc
  | .chunk a, i => .pg a.page (a.off + i)
  | .big id, i => .big id i

structure State where
  mt : Bool
  bins : Nat → Bin
  pages : Nat → Option Page
  parent : Nat → Option Nat
  live : List (Ptr × Nat)
  mem : Loc → UInt8

def binSize (i : Nat) : Nat := binSizes.getD i 0

/-- counter width of `page_header.alloc_count` -/
def countMod : Nat := 2 ^ countBits

def SIZE_MOD : Nat := 2 ^ 64

/-- `aws_small_block_allocator_new` / `s_sba_init` -/
def init (mt : Bool) : State :=
  { mt := mt
    bins := fun i => { size := binSize i, cursor := none, activePages := [], freeChunks := [] }
    pages := fun _ => none
    parent := fun _ => none
    live := []
    mem := fun _ => 0 }

def setBin (s : State) (i : Nat) (b : Bin) : State :=
  { s with bins := fun j => if j = i then b else s.bins j }

def setPage (s : State) (p : Nat) (pg : Option Page) : State :=
  { s with pages := fun q => if q = p then pg else s.pages q }

def setParent (s : State) (id : Nat) (v : Option Nat) : State :=
  { s with parent := fun j => if j = id then v else s.parent j }

/-! ### array-list primitives as used by the allocator -/

/-- `aws_array_list_swap(list, i, j)` (both indices in range; otherwise a fatal precondition in C) -/
def swapAt {α} (l : List α) (i j : Nat) : List α :=
  match l[i]?, l[j]? with
  | some a, some b => (l.set i b).set j a
  | _, _ => l

/-- `aws_array_list_pop_back` -/
def popBack {α} (l : List α) : List α := l.dropLast

/-! ### s_sba_find_bin -/

/-- index computed by `s_sba_find_bin`, as written: round up to a power of two, count leading
zeros of the value cast to `int32_t`, `aws_sub_size_saturating(31 - lz, 5)` -/
def findBin (size : Nat) : Nat :=
  let nextPow2 := match MathInl.aws_round_up_to_power_of_two size with
    | .ok v => v
    | .err _ => 0          -- `next_pow2` keeps its initial value 0
  let lz := Builtin.aws_clz_i32 (nextPow2 % 2 ^ 32)
  -- the literals 31 and 5 are generated from the source text (findBinTop, findBinLow)
  MathInl.aws_sub_size_saturating ((findBinTop + SIZE_MOD - lz) % SIZE_MOD) findBinLow

/-! ### s_sba_alloc_from_bin -/

/-- apply `f` to `alloc_count` of the header of `page` (a page not held: not modelled, no change) -/
def bumpCount (s : State) (page : Nat) (f : Nat → Nat) : State :=
  match s.pages page with
  | some pg => setPage s page (some { pg with allocCount := f pg.allocCount })
  | none => s

/-- `s_sba_alloc_from_bin(bin)`; `os` is the page the OS would hand out.  The C function is
recursive ("allocate a page and restart"); `fuel` bounds the recursion (2 suffices, see
`Proofs.C03`). -/
def allocFromBin (os : Nat) : Nat → State → Nat → State × Option Addr
  | 0, s, _ => (s, none)
  | fuel + 1, s, i =>
    let bin := s.bins i
    if bin.freeChunks.length > 0 then
      -- check the free list, hand chunks out from the back
      match bin.freeChunks.getLast? with
      | none => (s, none)
      | some chunk =>
        let s := setBin s i { bin with freeChunks := popBack bin.freeChunks }
        (bumpCount s chunk.page (fun c => (c + 1) % countMod), some chunk)
    else
      -- working page
      let carved : Option (State × Addr) :=
        match bin.cursor with
        | none => none
        | some cur =>
          let spaceLeft := pageSize - cur.off
          if spaceLeft ≥ bin.size then
            let s := bumpCount s cur.page (fun c => (c + 1) % countMod)
            let spaceLeft := spaceLeft - bin.size
            if spaceLeft < bin.size then
              some (setBin s i { bin with activePages := bin.activePages ++ [cur.page], cursor := none }, cur)
            else
              some (setBin s i { bin with cursor := some { cur with off := cur.off + bin.size } }, cur)
          else none
      match carved with
      | some (s, a) => (s, some a)
      | none =>
        -- nothing free to use, allocate a page (s_aligned_alloc + s_page_bind) and restart
        let s := setPage s os (some { tag := tagValue, tag2 := tagValue, bin := i, allocCount := 0 })
        let s := setBin s i { bin with cursor := some { page := os, off := hdrSize } }
        allocFromBin os fuel s i

/-! ### s_sba_free_to_bin -/

/-- body of the purge loop for one `chunk_idx`: `aws_array_list_get_at` fails for
`chunk_idx = length` and leaves `chunk = NULL`; `purgeHit` is the range test generated from the source -/
def purgeStep (pageStart pageEnd : Nat) (l : List Addr) (idx : Nat) : List Addr :=
  let chunk := match l[idx]? with
    | some c => c.lin
    | none => 0
  if purgeHit chunk pageStart pageEnd then popBack (swapAt l idx (l.length - 1)) else l

/-- `for (chunk_idx = length; chunk_idx >= 0; --chunk_idx)` : `purgeLoop .. length l` -/
def purgeLoop (pageStart pageEnd : Nat) : Nat → List Addr → List Addr
  | 0, l => purgeStep pageStart pageEnd l 0
  | idx + 1, l => purgeLoop pageStart pageEnd idx (purgeStep pageStart pageEnd l (idx + 1))

/-- "find page in pages list and remove it": first match, swap with last, pop, break -/
def removePage (l : List Nat) (page : Nat) : List Nat :=
  match l.findIdx? (fun q => q == page) with
  | some idx => popBack (swapAt l idx (l.length - 1))
  | none => l

/-- `s_sba_free_to_bin(bin, addr)` -/
def freeToBin (s : State) (i : Nat) (addr : Addr) : State :=
  let bin := s.bins i
  let page := addr.page                                    -- s_page_base(addr)
  match s.pages page with
  | none => s                                              -- header of a page not held: not modelled
  | some pg =>
    let cnt := (pg.allocCount + countMod - 1) % countMod   -- page->alloc_count--
    let s1 := setPage s page (some { pg with allocCount := cnt })
    if cnt = 0 ∧ some page ≠ bin.cursor.map (·.page) then
      -- page_start / page_end / the range test are GENERATED from the source text (Gen/SbaConsts.lean)
      let pageStart := purgeStart (page * pageSize) bin.size
      let pageEnd := purgeEnd (page * pageSize) bin.size
      let fc := purgeLoop pageStart pageEnd bin.freeChunks.length bin.freeChunks
      let ap := removePage bin.activePages page
      let s2 := setBin s1 i { bin with freeChunks := fc, activePages := ap }
      setPage s2 page none                                 -- tag erased, s_aligned_free(page)
    else
      setBin s1 i { bin with freeChunks := bin.freeChunks ++ [addr] }

/-! ### s_sba_alloc / s_sba_free -/

/-- `s_sba_alloc`: a bin serves sizes up to `s_max_bin_size`, the parent everything larger -/
def sbaAlloc (s : State) (size os big : Nat) : State × Option Ptr :=
  if servedByBin size then      -- GENERATED from the test in s_sba_alloc (`size <= s_max_bin_size`)
    let r := allocFromBin os 2 s (findBin size)
    (r.1, r.2.map Ptr.chunk)
  else
    (setParent s big (some size), some (.big big))

/-- `s_sba_free`: the tag words at the page base decide between bin and parent -/
def sbaFree (s : State) : Ptr → State
  | .chunk a =>
    match s.pages a.page with
    | some pg =>
      if pg.tag = tagValue ∧ pg.tag2 = tagValue then freeToBin s pg.bin a
      else s            -- would be handed to the parent: not a block of the parent, not modelled
    | none => s
  | .big id => setParent s id none   -- ASSUMPTION: untagged page base ⇒ `aws_mem_release(parent)`

/-! ### ghost memory -/

/-- store `arr` at the start of block `p` (array form: the compiled driver indexes in constant time) -/
def writeBytesA (m : Loc → UInt8) (p : Ptr) (arr : Array UInt8) : Loc → UInt8 :=
  fun l =>
    match p, l with
    | .chunk a, .pg page o =>
      if page = a.page ∧ a.off ≤ o ∧ o < a.off + arr.size then arr.getD (o - a.off) 0 else m l
    | .big id, .big id' o =>
      if id' = id ∧ o < arr.size then arr.getD o 0 else m l
    | _, _ => m l

def writeBytes (m : Loc → UInt8) (p : Ptr) (bs : List UInt8) : Loc → UInt8 := writeBytesA m p bs.toArray

def readBytes (m : Loc → UInt8) (p : Ptr) (n : Nat) : List UInt8 :=
  (List.range n).map (fun i => m (p.at i))

/-! ### atomic actions -/

def keys (l : List (Ptr × Nat)) : List Ptr := l.map (·.1)

def sizeOf? (l : List (Ptr × Nat)) (p : Ptr) : Option Nat :=
  (l.find? (fun e => e.1 == p)).map (·.2)

inductive Act where
  /-- `s_sba_alloc(size)`; the result becomes live with requested size `size` -/
  | alloc (size os big : Nat)
  /-- `s_sba_free(p)` of a live block -/
  | free (p : Ptr)
  /-- the owner of `p` stores `bs` at the start of its block (`bs.length ≤` requested size) -/
  | write (p : Ptr) (bs : List UInt8)
  /-- `memcpy(dst, src, n)` between two live blocks of the caller -/
  | copy (dst src : Ptr) (n : Nat)
  /-- realloc's `old_size > new_size` path: same pointer, the caller now regards it as `n` bytes -/
  | resize (p : Ptr) (n : Nat)
deriving Repr

/-- One atomic action.  Actions outside the API contract (size 0, a page or parent id the
environment could not return, a pointer that is not live, a store beyond the requested size) leave
the state unchanged: such uses are not modelled. -/
def act (s : State) : Act → State × Option Ptr
  | .alloc size os big =>
    if size = 0 ∨ size ≥ SIZE_MOD ∨ (s.pages os).isSome ∨ (s.parent big).isSome then (s, none)
    else
      let r := sbaAlloc s size os big
      match r.2 with
      | some p => ({ r.1 with live := r.1.live ++ [(p, size)] }, some p)
      | none => (r.1, none)
  | .free p =>
    if p ∈ keys s.live then
      let s1 := sbaFree s p
      ({ s1 with live := s1.live.filter (fun e => e.1 ≠ p) }, none)
    else (s, none)
  | .write p bs =>
    match sizeOf? s.live p with
    | some n =>
      if bs.length ≤ n then
        let arr := bs.toArray      -- evaluated once, captured by the closure (= writeBytes s.mem p bs)
        ({ s with mem := writeBytesA s.mem p arr }, none)
      else (s, none)
    | none => (s, none)
  | .copy dst src n =>
    match sizeOf? s.live dst, sizeOf? s.live src with
    | some nd, some ns =>
      if n ≤ nd ∧ n ≤ ns then
        let arr := (readBytes s.mem src n).toArray
        ({ s with mem := writeBytesA s.mem dst arr }, none)
      else (s, none)
    | _, _ => (s, none)
  | .resize p n =>
    match sizeOf? s.live p with
    | some m =>
      if 1 ≤ n ∧ n ≤ m then ({ s with live := s.live.map (fun e => if e.1 = p then (p, n) else e) }, none) else (s, none)
    | none => (s, none)

def run (s : State) (as : List Act) : State := as.foldl (fun s a => (act s a).1) s

/-! ### the allocator API (`aws_mem_*` on the small-block allocator), sequential composition -/

/-- `aws_mem_acquire(sba, size)` -/
def acquire (s : State) (size os big : Nat) : State × Option Ptr := act s (.alloc size os big)

/-- `aws_mem_release(sba, p)` -/
def release (s : State) (p : Ptr) : State := (act s (.free p)).1

/-- `aws_mem_calloc(sba, num, size)` → `s_sba_mem_calloc`: allocate `num*size`, `memset` 0 -/
def calloc (s : State) (num size os big : Nat) : State × Option Ptr :=
  if num = 0 ∨ size = 0 then (s, none)                 -- AWS_FATAL_PRECONDITION(num != 0 && size != 0)
  else
    -- `aws_mem_calloc` computes the total with the GENERATED `aws_mul_size_checked` BEFORE it dispatches to the
    -- allocator's `mem_calloc`; an overflowing product is a fatal assert: no block is returned
    match MathInl.aws_mul_size_checked num size with
    | .err _ => (s, none)
    | .ok total =>
      let r := act s (.alloc total os big)
      match r.2 with
      | some p => ((act r.1 (.write p (List.replicate total 0))).1, some p)
      | none => (r.1, none)

/-- new block of `new` bytes, `memcpy` of `n` bytes, old block freed -/
def reallocMove (s : State) (p : Ptr) (n new os big : Nat) : State × Option Ptr :=
  let r := act s (.alloc new os big)
  match r.2 with
  | some q =>
    let s2 := (act r.1 (.copy q p n)).1
    ((act s2 (.free p)).1, some q)
  | none => (r.1, none)

/-- `aws_mem_realloc(sba, &p, old, new)` → `s_sba_mem_realloc`.  Cases as written:
`new = 0` releases; both sizes above the largest bin: the parent reallocates (modelled as the
parent moving the block: acquire, copy `min old new`, release); `old > new`: same pointer;
otherwise allocate, copy `old` bytes, free. -/
def realloc (s : State) (p : Ptr) (old new os big : Nat) : State × Option Ptr :=
  if new = 0 then (release s p, none)
  else if old > maxBinSize ∧ new > maxBinSize then reallocMove s p (min old new) new os big
  else if old > new then ((act s (.resize p new)).1, some p)
  else reallocMove s p old new os big

/-! ### metrics and destroy -/

def pageCount (s : State) (p : Nat) : Nat :=
  match s.pages p with
  | some pg => pg.allocCount
  | none => 0

/-- contribution of one bin to `aws_small_block_allocator_bytes_active` -/
def binActive (s : State) (used : Nat) (i : Nat) : Nat :=
  let bin := s.bins i
  let used := bin.activePages.foldl (fun u p => (u + pageCount s p * bin.size) % SIZE_MOD) used
  match bin.cursor with
  | some c => (used + pageCount s c.page * bin.size) % SIZE_MOD
  | none => used

/-- `aws_small_block_allocator_bytes_active` -/
def bytesActive (s : State) : Nat := (List.range binCount).foldl (binActive s) 0

/-- `aws_small_block_allocator_bytes_reserved` -/
def bytesReserved (s : State) : Nat :=
  (List.range binCount).foldl (fun used i =>
    let bin := s.bins i
    (used + (bin.activePages.length + (if bin.cursor.isSome then 1 else 0)) * pageSize) % SIZE_MOD) 0

/-- `aws_small_block_allocator_page_size` -/
def pageSizeReported : Nat := pageSize

/-- pages of one bin handed to `s_aligned_free` by `s_sba_clean_up`, in order -/
def binPages (b : Bin) : List Nat :=
  b.activePages ++ (match b.cursor with | some c => [c.page] | none => [])

/-- the pages `s_sba_clean_up` hands to `s_aligned_free`, in order -/
def destroyPages (s : State) : List Nat :=
  (List.range binCount).flatMap (fun i => binPages (s.bins i))

/-- `aws_small_block_allocator_destroy` -/
def destroy (s : State) : State :=
  let freed := destroyPages s
  { s with
    pages := fun p => if p ∈ freed then none else s.pages p
    bins := fun i => { size := (s.bins i).size, cursor := none, activePages := [], freeChunks := [] } }

/-- number of pages of bin `i` still held -/
def binHeld (s : State) (i : Nat) : Nat := (binPages (s.bins i)).length

end AwsVerif.Sba
