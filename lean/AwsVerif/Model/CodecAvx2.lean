import AwsVerif.Gen.CodecAvx2Consts
import AwsVerif.Model.Codec
/-!
# Hand model of `source/arch/intel/encoding_avx2.c` — the vector path of the base64 codec (C05)

A 256-bit vector is a `List Nat` of 32 bytes, index 0 = lowest address = least significant byte
(x86 is little-endian; `_mm256_loadu_si256` / `_mm256_storeu_si256` keep memory order).
Vertical operations (`sub/add/min/cmpeq/and/or` on `epi8`, shifts and masks on `epi32`) act on
every lane independently, so they are modelled as one pure function per 8-bit lane
(`translateRange`, `translateExact`, `decodeLane`, `encodeLane`) or per 32-bit lane (`packDword`,
`strideDword`) and mapped over the vector; the two cross-lane operations are index permutations
(`shuffleEpi8`, `permutevar8x32`).  The byte constants of the range translations, both shuffle
tables, the loop bounds, the fill / padding characters come from the generated layer
`Gen/CodecAvx2Consts.lean` (re-extracted from the source on every run), as do the masks and shift
counts of `pack_vec` / `encode_stride`.

**Trusted: the meaning given to the intrinsics** (Intel Intrinsics Guide):
* `_mm256_set1_epi8(c)` / `_mm256_set1_epi32(c)`: every 8-bit / 32-bit lane = `c`.
* `_mm256_sub_epi8`, `_mm256_add_epi8`: lane-wise, wrapping modulo 256 (no saturation).
* `_mm256_min_epu8`: lane-wise **unsigned** minimum.  (No signed byte comparison is used anywhere
  in the file: "`in` between `lo` and `hi`" is computed as `min_epu8(in - lo, hi - lo) == in - lo`,
  which is right for bytes ≥ 0x80 as well — `decodeLane_table` checks all 256 bytes.)
* `_mm256_cmpeq_epi8(a, b)`: lane = 0xFF if equal, else 0x00.
* `_mm256_and_si256`, `_mm256_or_si256`: bitwise on all 256 bits.
* `_mm256_testz_si256(m, m)`: 1 iff `m` is all zero.
* `_mm256_slli_epi32(a, n)`, `_mm256_srli_epi32(a, n)`: each 32-bit lane shifted (logical), bits
  leaving the lane are lost.
* `_mm256_shuffle_epi8(a, b)`: **within each 128-bit half**: result byte `i` = 0 if bit 7 of `b[i]`
  is set, else `a[(i & 16) + (b[i] & 15)]`.
* `_mm256_permutevar8x32_epi32(a, idx)`: result dword `i` = `a` dword `idx[i] & 7` (crosses halves).
* `_mm256_set_epi32(e7, …, e0)`: dword `i` = `e_i` (the *last* argument is dword 0).
* `_mm256_extracti128_si256(v, 0)` = bytes 0..15; 64-bit element 2 of `v` = bytes 16..23.
-/
namespace AwsVerif.CodecAvx2
open AwsVerif.Gen.CodecAvx2Consts AwsVerif.Codec

/-! ## lanes -/

/-- `translate_range(in, lo, hi, offset)`, one 8-bit lane -/
def translateRange (x lo hi offset : Nat) : Nat :=
  let hivec := (hi + 256 - lo) % 256                    -- `(char)(hi - lo)`
  let tmp := (x + 256 - lo) % 256                       -- `_mm256_sub_epi8(in, lovec)`
  let mask := Nat.min tmp hivec                         -- `_mm256_min_epu8(tmp, hivec)`
  let mask := if mask == tmp then 0xFF else 0x00        -- `_mm256_cmpeq_epi8(mask, tmp)`
  let tmp := (tmp + offset) % 256                       -- `_mm256_add_epi8(tmp, offsetvec)`
  tmp &&& mask                                          -- `_mm256_and_si256(tmp, mask)`

/-- `translate_exact(in, match, decode)`, one 8-bit lane -/
def translateExact (x m d : Nat) : Nat :=
  (if x == m then 0xFF else 0x00) &&& d

def orAll (l : List Nat) : Nat := l.foldl (· ||| ·) 0

/-- `tmp3` of `decode_vec` for one lane: the OR of the three range and two exact translations
(the C ORs them in a fan-in order; OR is associative and commutative) -/
def decodeLane (x : Nat) : Nat :=
  orAll (decRanges.map fun r => translateRange x r.1 r.2.1 r.2.2) |||
  orAll (decExact.map fun e => translateExact x e.1 e.2)

/-- `decode_vec`: `none` when some lane failed (`tmp3 == 0` there), else the 6-bit values -/
def decodeVec (v : List Nat) : Option (List Nat) :=
  let tmp3 := v.map decodeLane
  if tmp3.any (· == decFail) then none
  else some (tmp3.map fun t => (t + 256 - decBias) % 256)          -- `_mm256_sub_epi8(tmp3, set1(1))`

/-- `encode_chars`, one lane -/
def encodeLane (x : Nat) : Nat :=
  orAll (encRanges.map fun r => translateRange x r.1 r.2.1 r.2.2) |||
  orAll (encExact.map fun e => translateExact x e.1 e.2)

/-! ## 32-bit lanes -/

/-- a dword from its bytes in memory order -/
def dwordOf (b0 b1 b2 b3 : Nat) : Nat := b0 + b1 * 2^8 + b2 * 2^16 + b3 * 2^24
/-- bytes of a dword in memory order -/
def bytesOf (d : Nat) : List Nat := [d % 256, d / 2^8 % 256, d / 2^16 % 256, d / 2^24 % 256]

/-- apply a 32-bit-lane function to every dword of a vector -/
def mapDwords (f : Nat → Nat) : List Nat → List Nat
  | b0 :: b1 :: b2 :: b3 :: rest => bytesOf (f (dwordOf b0 b1 b2 b3)) ++ mapDwords f rest
  | _ => []

/-- one masked and shifted part: `_mm256_s[lr]li_epi32(_mm256_and_si256(x, mask), count)` on one 32-bit lane;
`(mask, 1 = slli / 0 = srli, count)` comes from the generated layer -/
def laneOp (x : Nat) (op : Nat × Nat × Nat) : Nat :=
  if op.2.1 == 1 then ((x &&& op.1) <<< op.2.2) % 2^32 else (x &&& op.1) >>> op.2.2

/-- the mask / shift / or part of `pack_vec` on one dword `00DDDDDD 00CCCCCC 00BBBBBB 00AAAAAA`:
`(bitsA | bitsB) | (bitsC | bitsD)` -/
def packDword (d : Nat) : Nat :=
  match packOps with
  | [a, b, c, e] => (laneOp d a ||| laneOp d b) ||| (laneOp d c ||| laneOp d e)
  | _ => 0

/-- the mask / shift / or part of `encode_stride` on one dword holding a 24-bit group:
`(digit0 | digit1) | (digit2 | digit3)` -/
def strideDword (vec : Nat) : Nat :=
  match strideOps with
  | [a, b, c, e] => (laneOp vec a ||| laneOp vec b) ||| (laneOp vec c ||| laneOp vec e)
  | _ => 0

/-! ## cross-lane permutations -/

def shuffleLane (a idx : List Nat) : List Nat :=
  idx.map fun b => if b &&& 0x80 != 0 then 0 else a.getD (b &&& 0x0F) 0

/-- `_mm256_shuffle_epi8(a, idx)`: independently in each 128-bit half -/
def shuffleEpi8 (a idx : List Nat) : List Nat :=
  shuffleLane (a.take 16) (idx.take 16) ++ shuffleLane (a.drop 16) (idx.drop 16)

/-- `_mm256_permutevar8x32_epi32(a, idx)`; `idx` with element 0 first -/
def permutevar8x32 (a idx : List Nat) : List Nat :=
  idx.flatMap fun i =>
    let k := i &&& 7
    [a.getD (4 * k) 0, a.getD (4 * k + 1) 0, a.getD (4 * k + 2) 0, a.getD (4 * k + 3) 0]

/-! ## decode -/

/-- `pack_vec` -/
def packVec (v : List Nat) : List Nat :=
  let dwords := mapDwords packDword v
  let dwords := shuffleEpi8 dwords decShufvec
  permutevar8x32 dwords decShuf32

/-- `decode(in, out)`: 32 characters → the 24 bytes stored (`_mm_storeu_si128` of the low half,
then `memcpy` of 64-bit element 2), or `none` -/
def decode32 (inp : List Nat) : Option (List Nat) :=
  match decodeVec inp with
  | none => none
  | some vec =>
    let vec := packVec vec
    -- `_mm_storeu_si128(out, lo)`: bytes 0..15; `memcpy(out + decHiOff, p_hi, 8)`: 64-bit element `decHiElem`
    some ((vec.take 16).take decHiOff ++ (vec.drop (8 * decHiElem)).take 8)

/-- the `for (int i = 0; i < 2; i++) if (tmp_in[len - 1] == '=') { tmp_in[len - 1] = 'A'; len--; final_out--; }` loop -/
def stripPad : Nat → List Nat × Nat × Nat → List Nat × Nat × Nat
  | 0, s => s
  | k + 1, (tmpIn, len, finalOut) =>
    if tmpIn.getD (len - 1) 0 == decPad then stripPad k (tmpIn.set (len - 1) decPadRepl, len - 1, finalOut - 1)
    else stripPad k (tmpIn, len, finalOut)

/-- the bounce-buffer tail, `0 < len ≤ 32`: the bytes copied out, or `none` (= `SIZE_MAX`) -/
def decodeTail (t : List Nat) : Option (List Nat) :=
  let len := t.length
  let tmpIn := t ++ List.replicate (32 - len) decFill          -- `memset(tmp_in, 'A', 32); memcpy(tmp_in, in, len)`
  let finalOut := 3 * len / 4
  let (tmpIn, _, finalOut) := stripPad decStripMax (tmpIn, len, finalOut)
  match decode32 tmpIn with
  | none => none
  | some tmpOut =>
    if (tmpOut.drop finalOut).all (· == 0) then some (tmpOut.take finalOut)   -- trailing-bits check, `memcpy(out, tmp_out, final_out)`
    else none

/-- main loop + tail; the first argument bounds the number of iterations.
Result: bytes stored so far (the loop stores 24 per vector before looking at the next one), and success. -/
def decodeLoop : Nat → List Nat → List Nat × Bool
  | 0, _ => ([], false)
  | fuel + 1, t =>
    if t.length ≥ decLoopMin then                      -- `while (len > 32)`
      match decode32 (t.take 32) with
      | none => ([], false)
      | some bs => let r := decodeLoop fuel (t.drop 32); (bs ++ r.1, r.2)
    else if t.length > 0 then
      match decodeTail t with
      | none => ([], false)
      | some bs => (bs, true)
    else ([], true)

/-- `aws_common_private_base64_decode_sse41`: `(stored bytes, false)` = `SIZE_MAX`; on success the
returned `outlen` is the number of bytes stored -/
def decodeSse41 (t : List Nat) : List Nat × Bool :=
  if t.length % 4 != 0 then ([], false) else decodeLoop (t.length + 1) t

/-- `aws_base64_decode` when `aws_common_private_has_avx2()`: same length / capacity checks first,
then `output->len = result` -/
def base64DecodeAvx2 (t : List UInt8) (outLen cap : Nat) : Out :=
  match computeDecodedLen t with
  | .error e => Out.fail e outLen
  | .ok dl =>
    if cap < dl then Out.fail .shortBuffer outLen else
    let r := decodeSse41 (t.map (·.toNat))
    if r.2 then { err := none, len := r.1.length, off := 0, wr := r.1.map UInt8.ofNat }
    else Out.fail .invalidBase64 outLen (r.1.map UInt8.ofNat)

/-! ## encode -/

/-- `encode_stride`: 32 loaded bytes (24 of them data) → 32 characters -/
def encodeStride (v : List Nat) : List Nat :=
  let v := permutevar8x32 v encShuf32
  let v := shuffleEpi8 v encShufvec
  let v := mapDwords strideDword v
  v.map encodeLane

/-- the second loop (bounce buffers); fuel bounds the iterations -/
def encodeTail : Nat → List Nat → List Nat
  | 0, _ => []
  | fuel + 1, inp =>
    let inlen := inp.length
    if inlen == 0 then [] else
    let stridelen := if inlen > encStride then encStride else inlen
    let outlen := (stridelen + 2) / 3 * 4
    let instride := inp.take stridelen ++ List.replicate (32 - stridelen) 0      -- `memset(&instride, 0, 32); memcpy(&instride, input, stridelen)`
    let out := (encodeStride instride).take outlen
    if inlen < encStride then
      let out := if inlen % 3 ≥ 1 then out.set (outlen - 1) encPad else out
      let out := if inlen % 3 == 1 then out.set (outlen - 2) encPad else out
      out
    else out ++ encodeTail fuel (inp.drop stridelen)

/-- the first loop: a full vector is loaded (24 data bytes and 8 bytes of over-read) while `inlen >= 32` -/
def encodeLoop : Nat → List Nat → List Nat
  | 0, _ => []
  | fuel + 1, inp =>
    if inp.length ≥ encLoopMin then encodeStride (inp.take 32) ++ encodeLoop fuel (inp.drop encStride)
    else encodeTail (inp.length + 1) inp

/-- `aws_common_private_base64_encode_sse41` -/
def encodeSse41 (inp : List Nat) : List Nat := encodeLoop (inp.length + 1) inp

/-- `aws_base64_encode` when `aws_common_private_has_avx2()` -/
def base64EncodeAvx2 (input : List UInt8) (outLen cap : Nat) : Out :=
  match base64EncodeChecks input.length outLen cap with
  | .error e => Out.fail e outLen
  | .ok encLen =>
    { err := none, len := outLen + encLen, off := outLen, wr := (encodeSse41 (input.map (·.toNat))).map UInt8.ofNat }

end AwsVerif.CodecAvx2
