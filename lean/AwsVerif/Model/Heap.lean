/-!
Model of `source/priority_queue.c` (binary heap on an `aws_array_list`, optional back-pointer
array, `aws_priority_queue_node` handles).

* `items`   — `queue->container` (elements are `(key, uid)`; the comparator looks at `key` only and is
              a parameter `c : Cmp` of every operation that sifts: `c.gt a b` is `pred(a, b) > 0`.
              The theorems assume `CmpOK c`: `¬ pred(a, b) > 0` is a total preorder on keys).
* `bp`      — `queue->backpointers`: `none` while the struct is zeroed (no handle seen yet),
              `some B` afterwards; `B[i] = some h` is a pointer to handle `h`, `none` is `NULL`.
* `handles` — `node->current_index` of every handle; `none` stands for `SIZE_MAX` ("not in queue").
              (`SIZE_MAX < length` is never true for an array list, so the stale test
              `current_index < length` is written as a match on this option.)
* `cap`     — `some c` for static storage (`aws_priority_queue_init_static`, no allocator), `none`
              for dynamic storage.

Allocation failure is not modelled (`aws_mem_acquire` aborts); the only push failures are the two the
code can actually take: static list full, and a handle on a static queue.
-/
namespace AwsVerif.Heap

structure Elem where
  key : Nat
  uid : Nat
deriving Repr, DecidableEq, Inhabited

inductive Err where
  | empty        -- AWS_ERROR_PRIORITY_QUEUE_EMPTY
  | badNode      -- AWS_ERROR_PRIORITY_QUEUE_BAD_NODE
  | exceedsMax   -- AWS_ERROR_LIST_EXCEEDS_MAX_SIZE (static list full)
  | unsupported  -- AWS_ERROR_UNSUPPORTED_OPERATION (handle on a static queue)
  | invalidIndex -- AWS_ERROR_INVALID_INDEX (s_remove_node's get_at; unreachable)
deriving Repr, DecidableEq

/-! Index arithmetic exactly as the macros are written, on `size_t` (shifts and `+` wrap at 2^64). -/

/-- `#define PARENT_OF(index) (((index) & 1) ? (index) >> 1 : (index) > 1 ? ((index) - 2) >> 1 : 0)` -/
def parentOf (i : Nat) : Nat :=
  if i &&& 1 ≠ 0 then i >>> 1 else if i > 1 then (i - 2) >>> 1 else 0
/-- `#define LEFT_OF(index) (((index) << 1) + 1)` -/
def leftOf (i : Nat) : Nat := ((i <<< 1) % 2^64 + 1) % 2^64
/-- `#define RIGHT_OF(index) (((index) << 1) + 2)` -/
def rightOf (i : Nat) : Nat := ((i <<< 1) % 2^64 + 2) % 2^64

/-- the comparator `queue->pred` as the queue uses it: `gt a b` is the test `pred(a, b) > 0` on keys -/
structure Cmp where
  gt : Nat → Nat → Bool

/-- `¬ (pred(a, b) > 0)`: the order the heap maintains (`a` may stay above `b`) -/
def Cmp.le (c : Cmp) (a b : Nat) : Prop := c.gt a b = false

/-- comparator hypothesis: `Cmp.le` is a total preorder -/
structure CmpOK (c : Cmp) : Prop where
  total : ∀ a b, c.le a b ∨ c.le b a
  trans : ∀ a b d, c.le a b → c.le b d → c.le a d

/-- min-heap on `Nat` keys: `pred(a, b) = (a > b) - (a < b)` -/
def natCmp : Cmp := ⟨fun a b => decide (a > b)⟩

structure PQ where
  items   : Array Elem
  bp      : Option (Array (Option Nat))
  handles : Nat → Option Nat
  cap     : Option Nat

def initDynamic : PQ := { items := #[], bp := none, handles := fun _ => none, cap := none }
def initStatic (c : Nat) : PQ := { items := #[], bp := none, handles := fun _ => none, cap := some c }

def upd (f : Nat → Option α) (h : Nat) (v : Option α) : Nat → Option α := fun x => if x = h then v else f x

/-- the pointer stored at `B[i]` (`NULL` = `none`) -/
def ptrAt (B : Array (Option Nat)) (i : Nat) : Option Nat := (B[i]?).getD none

/-- key of the `i`-th array element (`pred` only ever looks at keys) -/
def kAt (a : Array Elem) (i : Nat) : Nat := ((a[i]?).getD default).key

def keyAt (q : PQ) (i : Nat) : Nat := kAt q.items i

/-- `s_swap`: exchange two items; if the back-pointer array exists exchange both pointers and rewrite
the `current_index` of whichever handles they point to. -/
def sSwap (q : PQ) (a b : Nat) : PQ :=
  let items := q.items.swapIfInBounds a b
  match q.bp with
  | none => { q with items := items }
  | some B =>
    let B' := B.swapIfInBounds a b
    let hs1 := match ptrAt B' a with
      | some h => upd q.handles h (some a)
      | none => q.handles
    let hs2 := match ptrAt B' b with
      | some h => upd hs1 h (some b)
      | none => hs1
    { q with items := items, bp := some B', handles := hs2 }

/-- body of the `s_sift_down` loop up to the choice of `first`: the root, or its left child if
`pred(root, left) > 0`, then the right child if it exists and `pred(first, right) > 0`. -/
def pickFirst (c : Cmp) (q : PQ) (root : Nat) : Nat :=
  let first := if c.gt (keyAt q root) (keyAt q (leftOf root)) then leftOf root else root
  if rightOf root < q.items.size then
    (if c.gt (keyAt q first) (keyAt q (rightOf root)) then rightOf root else first)
  else first

/-- `s_sift_down` (the loop runs at most `fuel` times; `items.size - root` always suffices, see
`Proofs.C06.siftDown_heap`). -/
def siftDown (c : Cmp) : Nat → PQ → Nat → PQ
  | 0, q, _ => q
  | fuel + 1, q, root =>
    if leftOf root < q.items.size then
      if pickFirst c q root ≠ root then siftDown c fuel (sSwap q (pickFirst c q root) root) (pickFirst c q root) else q
    else q

/-- `s_sift_up`; returns `did_move`. -/
def siftUp (c : Cmp) : Nat → PQ → Nat → PQ × Bool
  | 0, q, _ => (q, false)
  | fuel + 1, q, index =>
    if index ≠ 0 then
      let parent := parentOf index
      if c.gt (keyAt q parent) (keyAt q index) then
        ((siftUp c fuel (sSwap q index parent) parent).1, true)
      else (q, false)
    else (q, false)

/-- `s_sift_either`: `if (!index || !s_sift_up(queue, index)) s_sift_down(queue, index);` -/
def siftEither (c : Cmp) (q : PQ) (index : Nat) : PQ :=
  if index = 0 then siftDown c q.items.size q index
  else
    let (q', moved) := siftUp c (index + 1) q index
    if !moved then siftDown c q'.items.size q' index else q'

/-- `aws_array_list_set_at` on the back-pointer list: write at `index`, extend the length to
`index + 1` when beyond it (the bytes in between are zero: memset at creation, pop_back zeroes). -/
def bpSetAt (B : Array (Option Nat)) (index : Nat) (v : Option Nat) : Array (Option Nat) :=
  if index < B.size then B.setIfInBounds index v
  else (B ++ Array.replicate (index - B.size) none).push v

/-- static list already holds `item_count` elements: `aws_array_list_push_back` raises
`LIST_EXCEEDS_MAX_SIZE` -/
def isFull (q : PQ) : Bool :=
  match q.cap with
  | some c => decide (c ≤ q.items.size)
  | none => false

/-- `aws_priority_queue_push_ref` between the successful `push_back` and the `s_sift_up`: lazy
creation of the back-pointer list (`init_dynamic(index + 1)` + `memset 0`, length still 0), `set_at(index)`
on it when it exists, `backpointer->current_index = index`. -/
def pushCore (q : PQ) (e : Elem) (h : Option Nat) : PQ :=
  let items := q.items.push e
  let index := items.size - 1
  let bp := if h.isSome ∧ q.bp.isNone then some (#[] : Array (Option Nat)) else q.bp
  let bp := bp.map (fun B => bpSetAt B index h)
  let handles := match h with
    | some h => upd q.handles h (some index)
    | none => q.handles
  { q with items := items, bp := bp, handles := handles }

/-- `aws_priority_queue_push_ref` (`aws_priority_queue_push` passes `h = none`). -/
def pushRef (c : Cmp) (q : PQ) (e : Elem) (h : Option Nat) : PQ × Option Err :=
  -- aws_array_list_push_back(&queue->container, item)
  if isFull q then (q, some .exceedsMax)
  -- if (backpointer && !queue->backpointers.alloc) { if (!queue->container.alloc) { raise UNSUPPORTED; pop_back } }
  else if h.isSome ∧ q.bp.isNone ∧ q.cap.isSome then (q, some .unsupported)
  else
    let q1 := pushCore q e h
    ((siftUp c q1.items.size q1 (q1.items.size - 1)).1, none)

/-- `s_remove_node` after the swap: `pop_back` the container; if the back-pointer list exists set the
`current_index` of the node at `swap_with` to `SIZE_MAX` and `pop_back` that list too. -/
def dropLast (q : PQ) (swapWith : Nat) : PQ :=
  match q.bp with
  | none => { q with items := q.items.pop }
  | some B =>
    let hs := match ptrAt B swapWith with
      | some h => upd q.handles h none
      | none => q.handles
    { q with items := q.items.pop, bp := some B.pop, handles := hs }

/-- `s_remove_node` -/
def removeNode (c : Cmp) (q : PQ) (idx : Nat) : PQ × Except Err Elem :=
  match q.items[idx]? with
  | none => (q, .error .invalidIndex)
  | some item =>
    let swapWith := q.items.size - 1
    let q1 := if idx ≠ swapWith then sSwap q idx swapWith else q
    let q3 := dropLast q1 swapWith
    let q4 := if idx ≠ swapWith then siftEither c q3 idx else q3
    (q4, .ok item)

/-- `aws_priority_queue_remove`: the two `AWS_ERROR_PRECONDITION`s as written
(`node->current_index < length`, `queue->backpointers.data`). -/
def remove (c : Cmp) (q : PQ) (h : Nat) : PQ × Except Err Elem :=
  match q.handles h with
  | none => (q, .error .badNode)        -- SIZE_MAX < length is false
  | some i =>
    if i < q.items.size then
      if q.bp.isSome then removeNode c q i else (q, .error .badNode)
    else (q, .error .badNode)

def pop (c : Cmp) (q : PQ) : PQ × Except Err Elem :=
  if q.items.size ≠ 0 then removeNode c q 0 else (q, .error .empty)

def top (q : PQ) : Except Err Elem :=
  if q.items.size ≠ 0 then
    match q.items[0]? with
    | some e => .ok e
    | none => .error .invalidIndex
  else .error .empty

/-- one iteration of the loop in `aws_priority_queue_clear`: `if (node != NULL) node->current_index = SIZE_MAX` -/
def clearStep (hs : Nat → Option Nat) (o : Option Nat) : Nat → Option Nat :=
  match o with
  | some h => upd hs h none
  | none => hs

/-- `aws_priority_queue_clear`: every node in the back-pointer list gets `SIZE_MAX`, both lists get
length 0 (the back-pointer list keeps its allocation). -/
def clear (q : PQ) : PQ :=
  let B := q.bp.getD #[]
  let hs := B.toList.foldl clearStep q.handles
  { q with items := #[], bp := q.bp.map (fun _ => #[]), handles := hs }

/-! ### Predicates the theorems are stated with -/

/-- heap order: no element is smaller than its parent (`PARENT_OF i = (i-1)/2`, see `Proofs.C06.parentOf_eq`) -/
def HeapOrd (c : Cmp) (a : Array Elem) : Prop := ∀ i, 0 < i → i < a.size → c.le (kAt a ((i - 1) / 2)) (kAt a i)

/-- back-pointer array and handles are inverse to each other: without the array no handle is in the
queue; with it, it is as long as the container and `B[i]` points to `h` iff `h.current_index = i`. -/
def BpOK (q : PQ) : Prop :=
  match q.bp with
  | none => ∀ h, q.handles h = none
  | some B => B.size = q.items.size ∧ ∀ h i, q.handles h = some i ↔ B[i]? = some (some h)

/-! ### The op-level system with reference (ghost) state

`push` ops carry a key; the uid is the running count of push attempts, so every element ever pushed
is distinct.  `ref` is the reference multiset (a list, compared up to permutation) and `owner h` the
element most recently pushed successfully with handle `h`; both are updated from the op and the
*result the queue returned*, never from the queue's internals. -/

inductive Op where
  | push (key : Nat) (h : Option Nat)
  | pop
  | top
  | remove (h : Nat)
  | clear
deriving Repr, DecidableEq

inductive Res where
  | ok
  | elem (e : Elem)
  | err (e : Err)
deriving Repr, DecidableEq

structure G where
  q     : PQ
  next  : Nat
  ref   : List Elem
  owner : Nat → Option Elem

def G.init (q : PQ) : G := { q := q, next := 0, ref := [], owner := fun _ => none }

def gstep (c : Cmp) (g : G) : Op → G × Res
  | .push k h =>
    let e : Elem := ⟨k, g.next⟩
    match pushRef c g.q e h with
    | (q', none) =>
      ({ q := q', next := g.next + 1, ref := e :: g.ref,
         owner := match h with | some h => upd g.owner h (some e) | none => g.owner }, .ok)
    | (q', some er) => ({ g with q := q', next := g.next + 1 }, .err er)
  | .pop =>
    match pop c g.q with
    | (q', .ok e) => ({ g with q := q', ref := g.ref.erase e }, .elem e)
    | (q', .error er) => ({ g with q := q' }, .err er)
  | .top =>
    match top g.q with
    | .ok e => (g, .elem e)
    | .error er => (g, .err er)
  | .remove h =>
    match remove c g.q h with
    | (q', .ok e) => ({ g with q := q', ref := g.ref.erase e }, .elem e)
    | (q', .error er) => ({ g with q := q' }, .err er)
  | .clear => ({ g with q := clear g.q, ref := [] }, .ok)

/-- the same queue with another storage kind / capacity (used to compare static with dynamic storage) -/
def setCap (q : PQ) (c : Option Nat) : PQ := { q with cap := c }
def G.withCap (g : G) (c : Option Nat) : G := { g with q := setCap g.q c }

/-- API contract: a handle passed to `push_ref` is not currently in the queue. -/
def legalOp (g : G) : Op → Bool
  | .push _ (some h) => (g.q.handles h).isNone
  | _ => true

def run (c : Cmp) (g : G) : List Op → G
  | [] => g
  | op :: ops => run c (gstep c g op).1 ops

def legal (c : Cmp) (g : G) : List Op → Bool
  | [] => true
  | op :: ops => legalOp g op && legal c (gstep c g op).1 ops

/-- states reachable from a freshly initialised (dynamic or static) queue by a legal op sequence;
the length bound keeps every index below 2^63, where `LEFT_OF`/`RIGHT_OF` do not wrap -/
def Reach (c : Cmp) (g : G) : Prop :=
  ∃ (q0 : PQ) (ops : List Op), (q0 = initDynamic ∨ ∃ c, q0 = initStatic c) ∧ ops.length + 2 < 2^63 ∧
    legal c (G.init q0) ops = true ∧ g = run c (G.init q0) ops

end AwsVerif.Heap
