import AwsVerif.Model.CSem
/-!
Hand model of `include/aws/common/math.gcc_x64_asm.inl` (inline assembly cannot be translated).
`mulq`/`mull`: RDX:RAX := RAX * operand, CF = OF = (high half ≠ 0).  `addq`/`addl`: CF = carry out.
`cmovc`/`jnc`: select the saturation value when CF is set; `seto`/`setc` copy the flag.
-/
namespace AwsVerif.MathAsm
open AwsVerif.CSem

/-- `mul` of width `w`: (low half, carry/overflow flag) -/
def mulw (w a b : Nat) : Nat × Bool := ((a * b) % 2^w, decide ((a * b) / 2^w ≠ 0))
/-- `add` of width `w`: (sum, carry flag) -/
def addw (w a b : Nat) : Nat × Bool := ((a + b) % 2^w, decide (a + b ≥ 2^w))

def aws_mul_u64_saturating (a b : Nat) : Nat := let (lo, cf) := mulw 64 a b; if cf then 2^64 - 1 else lo
def aws_mul_u64_checked (a b : Nat) : Res := let (lo, ofl) := mulw 64 a b; if ofl then .err 5 else .ok lo
def aws_mul_u32_saturating (a b : Nat) : Nat := let (lo, cf) := mulw 32 a b; if cf then 0xFFFFFFFF else lo
def aws_mul_u32_checked (a b : Nat) : Res := let (lo, ofl) := mulw 32 a b; if ofl then .err 5 else .ok lo
def aws_add_u64_checked (a b : Nat) : Res := let (s, cf) := addw 64 a b; if cf then .err 5 else .ok s
def aws_add_u64_saturating (a b : Nat) : Nat := let (s, cf) := addw 64 a b; if cf then 2^64 - 1 else s
def aws_add_u32_checked (a b : Nat) : Res := let (s, cf) := addw 32 a b; if cf then .err 5 else .ok s
def aws_add_u32_saturating (a b : Nat) : Nat := let (s, cf) := addw 32 a b; if cf then 0xFFFFFFFF else s

end AwsVerif.MathAsm
