import AwsVerif.Model.CSem
/-!
Hand model of `include/aws/common/math.gcc_x64_asm.inl` (inline assembly cannot be translated).
`mulq`/`mull`: RDX:RAX := RAX * operand, CF = OF = (high half ≠ 0).  `addq`/`addl`: CF = carry out.
`cmovc`/`jnc`: select the saturation value when CF is set; `seto`/`setc` copy the flag.
-/
namespace AwsVerif.MathAsm
open AwsVerif.CSem

/-- `mul` of width `w`: (low half, carry/overflow flag) -/
def mulw (w a b : Nat) : Nat × Bool := ((a * b) % 2^w, decide ((a * b) / 2^w ≠ 0))
/-- `add` of width `w`: (sum, carry flag) -/
def addw (w a b : Nat) : Nat × Bool := ((a + b) % 2^w, decide (a + b ≥ 2^w))

def aws_mul_u64_saturating (a b : Nat) : Nat := let (lo, cf) := mulw 64 a b; if cf then 2^64 - 1 else lo
def aws_mul_u64_checked (a b : Nat) : Res := let (lo, ofl) := mulw 64 a b; if ofl then .err 5 else .ok lo
def aws_mul_u32_saturating (a b : Nat) : Nat := let (lo, cf) := mulw 32 a b; if cf then 0xFFFFFFFF else lo
def aws_mul_u32_checked (a b : Nat) : Res := let (lo, ofl) := mulw 32 a b; if ofl then .err 5 else .ok lo
def aws_add_u64_checked (a b : Nat) : Res := let (s, cf) := addw 64 a b; if cf then .err 5 else .ok s
def aws_add_u64_saturating (a b : Nat) : Nat := let (s, cf) := addw 64 a b; if cf then 2^64 - 1 else s
def aws_add_u32_checked (a b : Nat) : Res := let (s, cf) := addw 32 a b; if cf then .err 5 else .ok s
def aws_add_u32_saturating (a b : Nat) : Nat := let (s, cf) := addw 32 a b; if cf then 0xFFFFFFFF else s

/-! ## what the hand model was written against

The shape of every asm statement of `math.gcc_x64_asm.inl` — assembler template, operands (symbolic name, constraint,
C expression), clobbers, the registers the template names literally (`%%reg`), the registers its instructions use
implicitly (one-operand `mul` writes `rdx:rax`), and the C statements around it (`ASM` marks the statement) — as it
was when the definitions above were written.  `gen/math_asm.py` re-extracts the same table from the header on every
run (`Gen/MathAsmShapes.lean`) and `Props/C16.lean` proves the two literally equal; so any textual change of an asm
statement makes the check fail until this model has been re-read against it.

Reading of the templates (AT&T order `op src, dst`):
* `mulq/mull X`: `rdx:rax := rax * X`, `CF = OF = (high half ≠ 0)` — operands pinned by `"+&a"`, `"=&d"`;
* `addq/addl X, Y`: `Y := Y + X`, `CF` = carry out;
* `cmovc S, R`: `R := S` if `CF`;  `jnc L; mov $0xFFFFFFFF, %%eax; L:` : `eax := 0xFFFFFFFF` if `CF` — correct only if
  the operand holding the result *is* `eax`, i.e. its constraint is exactly `a` (`regsPinned` below);
* `seto/setc F`: `F := OF / CF`. -/

structure AsmOperand where
  name : String
  constraint : String
  expr : String
deriving Repr, DecidableEq

structure AsmShape where
  template : String
  outputs : List AsmOperand
  inputs : List AsmOperand
  clobbers : List String
  hardRegs : List String
  implicitRegs : List String
  context : String
deriving Repr, DecidableEq

def expectedShapes : List (String × AsmShape) := [
  ("aws_mul_u64_saturating",
   { template := "mulq %q[arg2]\ncmovc %q[saturate], %%rax\n",
     outputs := [⟨"", "+&a", "a"⟩, ⟨"", "=&d", "rdx"⟩],
     inputs := [⟨"arg2", "r", "b"⟩, ⟨"saturate", "rm", "~0LL"⟩],
     clobbers := ["cc"],
     hardRegs := ["rax"],
     implicitRegs := ["rax", "rdx"],
     context := "uint64_t aws_mul_u64_saturating(uint64_t a, uint64_t b) { uint64_t rdx; ASM; (void)rdx; return a; }" }),
  ("aws_mul_u64_checked",
   { template := "mulq %q[arg2]\nseto %[flag]\n",
     outputs := [⟨"", "+&a", "result"⟩, ⟨"flag", "=&d", "flag"⟩],
     inputs := [⟨"arg2", "r", "b"⟩],
     clobbers := ["cc"],
     hardRegs := [],
     implicitRegs := ["rax", "rdx"],
     context := "int aws_mul_u64_checked(uint64_t a, uint64_t b, uint64_t *r) { char flag; uint64_t result = a; ASM; *r = result; if (flag) { return aws_raise_error(AWS_ERROR_OVERFLOW_DETECTED); } return AWS_OP_SUCCESS; }" }),
  ("aws_mul_u32_saturating",
   { template := "mull %k[arg2]\njnc .1f%=\nmov $0xFFFFFFFF, %%eax\n.1f%=:",
     outputs := [⟨"", "+&a", "a"⟩, ⟨"", "=&d", "edx"⟩],
     inputs := [⟨"arg2", "r", "b"⟩],
     clobbers := ["cc"],
     hardRegs := ["eax"],
     implicitRegs := ["eax", "edx"],
     context := "uint32_t aws_mul_u32_saturating(uint32_t a, uint32_t b) { uint32_t edx; ASM; (void)edx; return a; }" }),
  ("aws_mul_u32_checked",
   { template := "mull %k[arg2]\nseto %[flag]\n",
     outputs := [⟨"", "+&a", "result"⟩, ⟨"flag", "=&d", "flag"⟩],
     inputs := [⟨"arg2", "r", "b"⟩],
     clobbers := ["cc"],
     hardRegs := [],
     implicitRegs := ["eax", "edx"],
     context := "int aws_mul_u32_checked(uint32_t a, uint32_t b, uint32_t *r) { uint32_t result = a; char flag; ASM; *r = result; if (flag) { return aws_raise_error(AWS_ERROR_OVERFLOW_DETECTED); } return AWS_OP_SUCCESS; }" }),
  ("aws_add_u64_checked",
   { template := "addq %[argb], %[arga]\nsetc %[flag]\n",
     outputs := [⟨"arga", "+r", "a"⟩, ⟨"flag", "=&r", "flag"⟩],
     inputs := [⟨"argb", "r", "b"⟩],
     clobbers := ["cc"],
     hardRegs := [],
     implicitRegs := [],
     context := "int aws_add_u64_checked(uint64_t a, uint64_t b, uint64_t *r) { char flag; ASM; *r = a; if (flag) { return aws_raise_error(AWS_ERROR_OVERFLOW_DETECTED); } return AWS_OP_SUCCESS; }" }),
  ("aws_add_u64_saturating",
   { template := "addq %[arg1], %[arg2]\ncmovc %q[saturate], %[arg2]\n",
     outputs := [⟨"arg2", "+r", "b"⟩],
     inputs := [⟨"arg1", "r", "a"⟩, ⟨"saturate", "rm", "~0LL"⟩],
     clobbers := ["cc"],
     hardRegs := [],
     implicitRegs := [],
     context := "uint64_t aws_add_u64_saturating(uint64_t a, uint64_t b) { ASM; return b; }" }),
  ("aws_add_u32_checked",
   { template := "addl %[argb], %[arga]\nsetc %[flag]\n",
     outputs := [⟨"arga", "+r", "a"⟩, ⟨"flag", "=&r", "flag"⟩],
     inputs := [⟨"argb", "r", "b"⟩],
     clobbers := ["cc"],
     hardRegs := [],
     implicitRegs := [],
     context := "int aws_add_u32_checked(uint32_t a, uint32_t b, uint32_t *r) { char flag; ASM; *r = a; if (flag) { return aws_raise_error(AWS_ERROR_OVERFLOW_DETECTED); } return AWS_OP_SUCCESS; }" }),
  ("aws_add_u32_saturating",
   { template := "addl %[arg1], %[arg2]\njnc .1f%=\nmov $0xFFFFFFFF, %%eax\n.1f%=:",
     outputs := [⟨"arg2", "+a", "b"⟩],
     inputs := [⟨"arg1", "r", "a"⟩],
     clobbers := ["cc"],
     hardRegs := ["eax"],
     implicitRegs := [],
     context := "uint32_t aws_add_u32_saturating(uint32_t a, uint32_t b) { ASM; return b; }" })]

/-- x86-64 register name → its GCC machine-constraint letter (all widths of the same register) -/
def regLetter (r : String) : Option Char :=
  if r ∈ ["rax", "eax", "ax", "al"] then some 'a'
  else if r ∈ ["rdx", "edx", "dx", "dl"] then some 'd'
  else if r ∈ ["rcx", "ecx", "cx", "cl"] then some 'c'
  else if r ∈ ["rbx", "ebx", "bx", "bl"] then some 'b'
  else if r ∈ ["rsi", "esi", "si", "sil"] then some 'S'
  else if r ∈ ["rdi", "edi", "di", "dil"] then some 'D'
  else none

/-- the constraint without its modifiers (`+ = & %`) -/
def constraintCore (c : String) : List Char := c.toList.filter (fun ch => !(ch == '+' || ch == '=' || ch == '&' || ch == '%'))

/-- a register written by the template (named literally or used implicitly) is *pinned*: some output operand's
constraint is exactly that register's letter (so the compiler must place the operand there and knows it is
written), or the register is declared clobbered -/
def regPinned (s : AsmShape) (r : String) : Bool :=
  match regLetter r with
  | none => s.clobbers.contains r
  | some l => s.outputs.any (fun o => constraintCore o.constraint == [l]) ||
      s.clobbers.any (fun c => regLetter c == some l)

def regsPinned (s : AsmShape) : Bool := (s.hardRegs ++ s.implicitRegs).all (regPinned s)

end AwsVerif.MathAsm
