/-!
Pointer-level model of `include/aws/common/linked_list.inl`.

A heap maps node identities to `{next, prev : Option NodeId}` (`none` = NULL).  A list is two
sentinel node ids (`head`, `tail`), as `struct aws_linked_list` embeds two sentinel nodes.  Every
function is the same sequence of pointer loads and stores as the C; a load through a NULL pointer
(`x->next->prev` with `x->next == NULL`) makes the operation return `none` (the C would crash).
The abstraction is the walk along `next` from `head.next` to `tail` (with fuel).
-/
namespace AwsVerif.LinkedList

abbrev NodeId := Nat

structure Node where
  next : Option NodeId
  prev : Option NodeId
deriving Repr, DecidableEq

abbrev Heap := NodeId → Node

structure LL where
  head : NodeId
  tail : NodeId
deriving Repr, DecidableEq

def setNext (h : Heap) (n : NodeId) (v : Option NodeId) : Heap :=
  fun m => if m = n then { h m with next := v } else h m

def setPrev (h : Heap) (n : NodeId) (v : Option NodeId) : Heap :=
  fun m => if m = n then { h m with prev := v } else h m

def setNode (h : Heap) (n : NodeId) (x : Node) : Heap :=
  fun m => if m = n then x else h m

/-- all nodes zeroed -/
def emptyHeap : Heap := fun _ => ⟨none, none⟩

/-- `aws_linked_list_node_reset` -/
def nodeReset (h : Heap) (n : NodeId) : Heap := setNode h n ⟨none, none⟩

/-- `aws_linked_list_init` -/
def init (h : Heap) (l : LL) : Heap :=
  let h := setNext h l.head (some l.tail)
  let h := setPrev h l.head none
  let h := setPrev h l.tail (some l.head)
  setNext h l.tail none

/-- `aws_linked_list_empty` -/
def empty (h : Heap) (l : LL) : Bool := (h l.head).next == some l.tail

def begin_ (h : Heap) (l : LL) : Option NodeId := (h l.head).next      -- also `front`
def rbegin (h : Heap) (l : LL) : Option NodeId := (h l.tail).prev      -- also `back`
def next (h : Heap) (n : NodeId) : Option NodeId := (h n).next
def prev (h : Heap) (n : NodeId) : Option NodeId := (h n).prev

/-- `aws_linked_list_insert_after(after, to_add)` -/
def insertAfter (h : Heap) (after toAdd : NodeId) : Option Heap :=
  let h := setPrev h toAdd (some after)
  let h := setNext h toAdd (h after).next
  match (h after).next with
  | none => none
  | some an =>
    let h := setPrev h an (some toAdd)
    some (setNext h after (some toAdd))

/-- `aws_linked_list_insert_before(before, to_add)` -/
def insertBefore (h : Heap) (before toAdd : NodeId) : Option Heap :=
  let h := setNext h toAdd (some before)
  let h := setPrev h toAdd (h before).prev
  match (h before).prev with
  | none => none
  | some bp =>
    let h := setNext h bp (some toAdd)
    some (setPrev h before (some toAdd))

/-- `aws_linked_list_remove(node)` -/
def remove (h : Heap) (node : NodeId) : Option Heap :=
  match (h node).prev with
  | none => none
  | some p =>
    let h := setNext h p (h node).next
    match (h node).next with
    | none => none
    | some n =>
      let h := setPrev h n (h node).prev
      some (nodeReset h node)

/-- `aws_linked_list_swap_nodes(a, b)` with its snapshot of `*b` -/
def swapNodes (h : Heap) (a b : NodeId) : Option Heap :=
  if a = b then some h else
  let tmp := h b
  match (h a).prev with
  | none => none
  | some ap =>
    let h := setNext h ap (some b)
    match (h a).next with
    | none => none
    | some an =>
      let h := setPrev h an (some b)
      match tmp.prev with
      | none => none
      | some tp =>
        let h := setNext h tp (some a)
        match tmp.next with
        | none => none
        | some tn =>
          let h := setPrev h tn (some a)
          let tmp2 := h a
          let h := setNode h a (h b)
          some (setNode h b tmp2)

def pushBack (h : Heap) (l : LL) (n : NodeId) : Option Heap := insertBefore h l.tail n

def pushFront (h : Heap) (l : LL) (n : NodeId) : Option Heap :=
  match (h l.head).next with
  | none => none
  | some f => insertBefore h f n

def popBack (h : Heap) (l : LL) : Option (Heap × NodeId) :=
  match (h l.tail).prev with
  | none => none
  | some b => (remove h b).map (·, b)

def popFront (h : Heap) (l : LL) : Option (Heap × NodeId) :=
  match (h l.head).next with
  | none => none
  | some f => (remove h f).map (·, f)

/-- `aws_linked_list_swap_contents(a, b)` -/
def swapContents (h : Heap) (a b : LL) : Option Heap :=
  let aFirst := (h a.head).next
  let aLast := (h a.tail).prev
  -- move B's contents into A
  let r : Option Heap :=
    if empty h b then some (init h a)
    else
      let h := setNext h a.head (h b.head).next
      match (h a.head).next with
      | none => none
      | some x =>
        let h := setPrev h x (some a.head)
        let h := setPrev h a.tail (h b.tail).prev
        match (h a.tail).prev with
        | none => none
        | some y => some (setNext h y (some a.tail))
  match r with
  | none => none
  | some h =>
    -- move A's old contents into B
    if aFirst = some a.tail then some (init h b)
    else
      let h := setNext h b.head aFirst
      match (h b.head).next with
      | none => none
      | some x =>
        let h := setPrev h x (some b.head)
        let h := setPrev h b.tail aLast
        match (h b.tail).prev with
        | none => none
        | some y => some (setNext h y (some b.tail))

/-- `aws_linked_list_move_all_back(dst, src)` -/
def moveAllBack (h : Heap) (dst src : LL) : Option Heap :=
  if empty h src then some h else
  match (h dst.tail).prev, (h src.head).next, (h src.tail).prev with
  | some dstBack, some srcFront, some srcBack =>
    let h := setNext h dstBack (some srcFront)
    let h := setPrev h srcFront (some dstBack)
    let h := setPrev h dst.tail (some srcBack)
    let h := setNext h srcBack (some dst.tail)
    let h := setNext h src.head (some src.tail)
    some (setPrev h src.tail (some src.head))
  | _, _, _ => none

/-- `aws_linked_list_move_all_front(dst, src)` -/
def moveAllFront (h : Heap) (dst src : LL) : Option Heap :=
  if empty h src then some h else
  match (h dst.head).next, (h src.head).next, (h src.tail).prev with
  | some dstFront, some srcFront, some srcBack =>
    let h := setNext h dst.head (some srcFront)
    let h := setPrev h srcFront (some dst.head)
    let h := setNext h srcBack (some dstFront)
    let h := setPrev h dstFront (some srcBack)
    let h := setNext h src.head (some src.tail)
    some (setPrev h src.tail (some src.head))
  | _, _, _ => none

/-! ### validity predicates of the header -/

/-- `aws_linked_list_node_next_is_valid`: `node->next && node->next->prev == node` -/
def nodeNextIsValid (h : Heap) (n : NodeId) : Bool :=
  match (h n).next with
  | none => false
  | some x => (h x).prev == some n

/-- `aws_linked_list_node_prev_is_valid` -/
def nodePrevIsValid (h : Heap) (n : NodeId) : Bool :=
  match (h n).prev with
  | none => false
  | some x => (h x).next == some n

/-- `aws_linked_list_node_is_in_list` -/
def nodeIsInList (h : Heap) (n : NodeId) : Bool := nodePrevIsValid h n && nodeNextIsValid h n

/-- `aws_linked_list_is_valid` (shallow: AWS_DEEP_CHECKS is off) -/
def isValid (h : Heap) (l : LL) : Bool :=
  (h l.head).next.isSome && (h l.head).prev.isNone && (h l.tail).prev.isSome && (h l.tail).next.isNone

/-- `aws_linked_list_is_valid_deep`: the `while (temp)` loop from `cur` (fuel bounds the walk) -/
def isValidDeepFrom (h : Heap) (l : LL) : Nat → NodeId → Bool
  | 0, _ => false
  | fuel + 1, cur =>
    if cur = l.tail then true
    else if !nodeNextIsValid h cur then false
    else match (h cur).next with
      | none => false
      | some nx => isValidDeepFrom h l fuel nx

def isValidDeep (h : Heap) (l : LL) (fuel : Nat) : Bool := isValidDeepFrom h l fuel l.head

/-! ### Abstraction: the node sequence -/

/-- follow `next` from `cur` until `tail`; `none` = NULL met or fuel exhausted -/
def walkFwd (h : Heap) (tail : NodeId) : Nat → NodeId → Option (List NodeId)
  | 0, _ => none
  | fuel + 1, cur =>
    if cur = tail then some []
    else match (h cur).next with
      | none => none
      | some nx => (walkFwd h tail fuel nx).map (cur :: ·)

/-- follow `prev` from `cur` until `head` -/
def walkBwd (h : Heap) (head : NodeId) : Nat → NodeId → Option (List NodeId)
  | 0, _ => none
  | fuel + 1, cur =>
    if cur = head then some []
    else match (h cur).prev with
      | none => none
      | some pv => (walkBwd h head fuel pv).map (cur :: ·)

def toList (h : Heap) (l : LL) (fuel : Nat) : Option (List NodeId) :=
  match (h l.head).next with
  | none => none
  | some f => walkFwd h l.tail fuel f

def toListRev (h : Heap) (l : LL) (fuel : Nat) : Option (List NodeId) :=
  match (h l.tail).prev with
  | none => none
  | some b => walkBwd h l.head fuel b

end AwsVerif.LinkedList
