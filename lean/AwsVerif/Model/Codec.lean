import AwsVerif.Gen.CodecTables
/-!
# Model of `source/encoding.c` (portable code paths) — C05

Transcription of what the C does *now* (after the `fix:` commit that made the portable base64
decoder strict).  Tables come from the generated layer `AwsVerif.Gen.CodecTables`, so an edited
table entry changes the definitions below and with them the statements in `Props/C05.lean`.

Conventions.
* Bytes are `UInt8`; the arithmetic of the C expressions is done on `Nat` with the C operators
  (`<<<`, `>>>`, `|||`, `&&&`) and an explicit `% 256` / `% 2^32` / `% 2^64` wherever the C type
  truncates (`(uint8_t)(…)`, `uint32_t block`, `size_t`).
* All stores these functions make into `output->buffer` are to consecutive addresses, so a call
  is described by `Out`: return code, `output->len` afterwards, offset of the first store and the
  list of bytes stored (in address order, after the padding fix-up of the encoder).  That list is
  what the harness measures with canary-filled buffers.
* The AVX2 code (`source/arch/intel/encoding_avx2.c`) is **not** modelled.
-/
namespace AwsVerif.Codec
open AwsVerif.Gen.CodecTables

inductive Err
  | overflow        -- AWS_ERROR_OVERFLOW_DETECTED
  | shortBuffer     -- AWS_ERROR_SHORT_BUFFER
  | invalidBase64   -- AWS_ERROR_INVALID_BASE64_STR
  | invalidHex      -- AWS_ERROR_INVALID_HEX_STR
  | invalidUtf8     -- AWS_ERROR_INVALID_UTF8
  deriving DecidableEq, Repr

def Err.name : Err → String
  | .overflow => "AWS_ERROR_OVERFLOW_DETECTED"
  | .shortBuffer => "AWS_ERROR_SHORT_BUFFER"
  | .invalidBase64 => "AWS_ERROR_INVALID_BASE64_STR"
  | .invalidHex => "AWS_ERROR_INVALID_HEX_STR"
  | .invalidUtf8 => "AWS_ERROR_INVALID_UTF8"

def SIZE_MAX : Nat := 2^64 - 1
/-- truncation to `size_t` -/
def wrap (n : Nat) : Nat := n % 2^64

/-- `t[i]` of a C array of `uint8_t` (indices used by the code are always inside the array) -/
def tbl (t : List UInt8) (i : Nat) : Nat := (t.getD i 0).toNat

/-- `aws_add_size_checked` -/
def addSizeChecked (a b : Nat) : Except Err Nat :=
  if a + b > SIZE_MAX then .error .overflow else .ok (a + b)

/-- effect of one call on the output buffer -/
structure Out where
  err : Option Err          -- `none` = AWS_OP_SUCCESS
  len : Nat                 -- `output->len` after the call
  off : Nat                 -- address (offset in `output->buffer`) of the first store
  wr  : List UInt8          -- bytes stored, in address order
  deriving DecidableEq, Repr

def Out.fail (e : Err) (len : Nat) (wr : List UInt8 := []) : Out := { err := some e, len := len, off := 0, wr := wr }

/-! ## base64 -/

/-- `aws_base64_compute_encoded_len` -/
def computeEncodedLen (n : Nat) : Except Err Nat :=
  let tmp := wrap (n + 2)
  if tmp < n then .error .overflow else
  let tmp := tmp / 3
  let overflowCheck := tmp
  let tmp := wrap (4 * tmp)
  if tmp < overflowCheck then .error .overflow else .ok tmp

def encChar (i : Nat) : UInt8 := base64EncodingTable.getD i 0

/-- the four characters emitted for one loop iteration; `b1`/`b2` are 0 when `i+1`/`i+2` is past
the end (`uint32_t block`) -/
def encQuad (b0 b1 b2 : Nat) : List UInt8 :=
  let block := b0
  let block := (block <<< 8) % 2^32
  let block := block ||| b1
  let block := (block <<< 8) % 2^32
  let block := block ||| b2
  [encChar ((block >>> 18) &&& 0x3F), encChar ((block >>> 12) &&& 0x3F),
   encChar ((block >>> 6) &&& 0x3F), encChar (block &&& 0x3F)]

/-- the `for (i = 0; i < len; i += 3)` loop: the shape of the remaining input stands for the
tests `i + 1 < len`, `i + 2 < len` -/
def encBlocks : List UInt8 → List UInt8
  | [] => []
  | [a] => encQuad a.toNat 0 0
  | [a, b] => encQuad a.toNat b.toNat 0
  | a :: b :: c :: rest => encQuad a.toNat b.toNat c.toNat ++ encBlocks rest

/-- the padding stores after the loop: `buffer[len + block_count*4 - 1] = '='` and, for one
remaining byte, `buffer[len + block_count*4 - 2] = '='` (indices relative to `output->len`) -/
def encPad (n : Nat) (body : List UInt8) : List UInt8 :=
  let blockCount := (n + 2) / 3
  let remainder := n % 3
  if remainder > 0 then
    let body := body.set (blockCount * 4 - 1) 61
    if remainder == 1 then body.set (blockCount * 4 - 2) 61 else body
  else body

/-- the checks of `aws_base64_encode` that precede any access to the input or output bytes:
`ok (encoded_length)` or the error raised -/
def base64EncodeChecks (n outLen cap : Nat) : Except Err Nat :=
  match computeEncodedLen n with
  | .error e => .error e
  | .ok encLen =>
    match addSizeChecked outLen encLen with
    | .error e => .error e
    | .ok need => if cap < need then .error .shortBuffer else .ok encLen

/-- `aws_base64_encode`, portable path: appends at `output->len` -/
def base64Encode (input : List UInt8) (outLen cap : Nat) : Out :=
  match base64EncodeChecks input.length outLen cap with
  | .error e => Out.fail e outLen
  | .ok encLen =>
    { err := none, len := outLen + encLen, off := outLen, wr := encPad input.length (encBlocks input) }

/-- `aws_base64_compute_decoded_len` -/
def computeDecodedLen (t : List UInt8) : Except Err Nat :=
  let len := t.length
  if len == 0 then .ok 0 else
  if len &&& 0x03 != 0 then .error .invalidBase64 else
  let tmp := len / 4 * 3
  let last := t.getD (len - 1) 0
  let last2 := t.getD (len - 2) 0
  let padding := if last == 61 && last2 == 61 then 2 else if last == 61 then 1 else 0
  .ok (tmp - padding)

def sentinel : Nat := base64Sentinel.toNat

/-- `s_base64_get_decoded_value` -/
def decVal (c : UInt8) (allowSentinel : Bool) : Option Nat :=
  let v := tbl base64DecodingTable c.toNat
  if v != 0xDD && (v != sentinel || allowSentinel) then some v else none

def dec0 (v1 v2 : Nat) : UInt8 := UInt8.ofNat (((v1 <<< 2) ||| ((v2 >>> 4) &&& 0x03)) % 256)
def dec1 (v2 v3 : Nat) : UInt8 := UInt8.ofNat ((((v2 <<< 4) &&& 0xF0) ||| ((v3 >>> 2) &&& 0x0F)) % 256)
def dec2 (v3 v4 : Nat) : UInt8 := UInt8.ofNat ((((v3 &&& 0x03) <<< 6) ||| v4) % 256)

/-- bytes stored so far, and whether the text was accepted -/
structure DecRes where
  wr : List UInt8
  ok : Bool
  deriving DecidableEq, Repr

/-- the final quantum (`buffer_index >= 0` branch) -/
def decFinal (c1 c2 c3 c4 : UInt8) : DecRes :=
  match decVal c1 false, decVal c2 false, decVal c3 true, decVal c4 true with
  | some v1, some v2, some v3, some v4 =>
    if v3 == sentinel then
      if v4 != sentinel || (v2 &&& 0x0F) != 0 then ⟨[], false⟩
      else ⟨[dec0 v1 v2], true⟩
    else if v4 == sentinel && (v3 &&& 0x03) != 0 then ⟨[], false⟩
    else if v4 != sentinel then ⟨[dec0 v1 v2, dec1 v2 v3, dec2 v3 v4], true⟩
    else ⟨[dec0 v1 v2, dec1 v2 v3], true⟩
  | _, _, _, _ => ⟨[], false⟩

/-- body loop (`i < block_count - 1`) followed by the final quantum; the input length is a
positive multiple of 4 here -/
def decBlocks : List UInt8 → DecRes
  | c1 :: c2 :: c3 :: c4 :: rest =>
    if rest.isEmpty then decFinal c1 c2 c3 c4 else
    match decVal c1 false, decVal c2 false, decVal c3 false, decVal c4 false with
    | some v1, some v2, some v3, some v4 =>
      let r := decBlocks rest
      ⟨dec0 v1 v2 :: dec1 v2 v3 :: dec2 v3 v4 :: r.wr, r.ok⟩
    | _, _, _, _ => ⟨[], false⟩
  | _ => ⟨[], false⟩

/-- `aws_base64_decode`, portable path: stores from offset 0, then `output->len = decoded_length` -/
def base64Decode (t : List UInt8) (outLen cap : Nat) : Out :=
  match computeDecodedLen t with
  | .error e => Out.fail e outLen
  | .ok dl =>
    if cap < dl then Out.fail .shortBuffer outLen else
    if t.length == 0 then { err := none, len := dl, off := 0, wr := [] } else
    let r := decBlocks t
    if r.ok then { err := none, len := dl, off := 0, wr := r.wr }
    else Out.fail .invalidBase64 outLen r.wr

/-! ## hex -/

/-- `aws_hex_compute_encoded_len` -/
def hexComputeEncodedLen (n : Nat) : Except Err Nat :=
  let temp := wrap (n <<< 1)
  if temp < n then .error .overflow else .ok temp

/-- `aws_hex_compute_decoded_len` -/
def hexComputeDecodedLen (n : Nat) : Except Err Nat :=
  let temp := wrap (n + 1)
  if temp < n then .error .overflow else .ok (temp >>> 1)

def hexChar (i : Nat) : UInt8 := hexChars.getD i 0

def hexEncBytes : List UInt8 → List UInt8
  | [] => []
  | b :: rest => hexChar ((b.toNat >>> 4) &&& 0x0f) :: hexChar (b.toNat &&& 0x0f) :: hexEncBytes rest

/-- checks of `aws_hex_encode` preceding any byte access -/
def hexEncodeChecks (n cap : Nat) : Except Err Nat :=
  match hexComputeEncodedLen n with
  | .error e => .error e
  | .ok encLen => if cap < encLen then .error .shortBuffer else .ok encLen

/-- `aws_hex_encode`: stores from offset 0 and *sets* `output->len` -/
def hexEncode (input : List UInt8) (outLen cap : Nat) : Out :=
  match hexEncodeChecks input.length cap with
  | .error e => Out.fail e outLen
  | .ok encLen => { err := none, len := encLen, off := 0, wr := hexEncBytes input }

/-- checks of `aws_hex_encode_append_dynamic`: `ok (encoded_len, capacity afterwards)`.
`aws_byte_buf_reserve_relative` grows the buffer to exactly `len + encoded_len` when needed. -/
def hexEncodeAppendDynamicChecks (n outLen cap : Nat) : Except Err (Nat × Nat) :=
  match addSizeChecked n n with
  | .error e => .error e
  | .ok encLen =>
    match addSizeChecked outLen encLen with
    | .error e => .error e
    | .ok requested => .ok (encLen, if requested ≤ cap then cap else requested)

/-- `aws_hex_encode_append_dynamic`: `(effect, capacity afterwards)` -/
def hexEncodeAppendDynamic (input : List UInt8) (outLen cap : Nat) : Out × Nat :=
  match hexEncodeAppendDynamicChecks input.length outLen cap with
  | .error e => (Out.fail e outLen, cap)
  | .ok (encLen, cap') => ({ err := none, len := outLen + encLen, off := outLen, wr := hexEncBytes input }, cap')

/-- `s_hex_decode_char_to_int` (tabulated by the generated layer; 255 = AWS_OP_ERR) -/
def hexVal (c : UInt8) : Option Nat :=
  let v := tbl hexToNum c.toNat
  if v == 255 then none else some v

/-- the `for (; i < len; i += 2)` loop -/
def hexPairs : List UInt8 → DecRes
  | [] => ⟨[], true⟩
  | hi :: lo :: rest =>
    match hexVal hi, hexVal lo with
    | some h, some l =>
      let r := hexPairs rest
      ⟨UInt8.ofNat ((((h <<< 4) % 256) ||| l) % 256) :: r.wr, r.ok⟩
    | _, _ => ⟨[], false⟩
  | [_] => ⟨[], false⟩   -- not reached: an even number of characters remains

def hexDecBytes (t : List UInt8) : DecRes :=
  if t.length &&& 0x01 != 0 then
    match t with
    | c :: rest =>
      match hexVal c with
      | some low => let r := hexPairs rest; ⟨UInt8.ofNat (low % 256) :: r.wr, r.ok⟩
      | none => ⟨[], false⟩
    | [] => ⟨[], false⟩
  else hexPairs t

/-- checks of `aws_hex_decode` preceding any byte access -/
def hexDecodeChecks (n cap : Nat) : Except Err Nat :=
  match hexComputeDecodedLen n with
  | .error _ => .error .overflow
  | .ok dl => if cap < dl then .error .shortBuffer else .ok dl

/-- `aws_hex_decode`: stores from offset 0 and sets `output->len` -/
def hexDecode (t : List UInt8) (outLen cap : Nat) : Out :=
  match hexDecodeChecks t.length cap with
  | .error e => Out.fail e outLen
  | .ok dl =>
    let r := hexDecBytes t
    if r.ok then { err := none, len := dl, off := 0, wr := r.wr }
    else Out.fail .invalidHex outLen r.wr

/-! ## UTF-8 decoder -/

structure Utf8 where
  codepoint : Nat := 0
  min : Nat := 0
  remaining : Nat := 0
  deriving DecidableEq, Repr

def Utf8.init : Utf8 := {}

/-- one iteration of the loop of `aws_utf8_decoder_update`: the state afterwards (the C updates
the decoder in place, also on the failing iteration), the error raised if any, and the code point
handed to `on_codepoint` if any -/
def updateByte (d : Utf8) (byte : UInt8) : Utf8 × Option Err × Option Nat :=
  let b := byte.toNat
  if d.remaining == 0 then
    if b &&& 0x80 == 0x00 then
      let d' : Utf8 := { remaining := 0, codepoint := b, min := 0 }
      (d', none, some d'.codepoint)
    else if b &&& 0xE0 == 0xC0 then
      ({ remaining := 1, codepoint := b &&& 0x1F, min := 0x80 }, none, none)
    else if b &&& 0xF0 == 0xE0 then
      ({ remaining := 2, codepoint := b &&& 0x0F, min := 0x800 }, none, none)
    else if b &&& 0xF8 == 0xF0 then
      ({ remaining := 3, codepoint := b &&& 0x07, min := 0x10000 }, none, none)
    else (d, some .invalidUtf8, none)
  else
    if b &&& 0xC0 != 0x80 then (d, some .invalidUtf8, none) else
    let cp := ((d.codepoint <<< 6) % 2^32) ||| (b &&& 0x3F)
    let rem := d.remaining - 1
    let d' : Utf8 := { d with codepoint := cp, remaining := rem }
    if rem == 0 then
      if cp < d.min then (d', some .invalidUtf8, none)
      else if cp ≥ 0xD800 && cp ≤ 0xDFFF then (d', some .invalidUtf8, none)
      else (d', none, some cp)
    else (d', none, none)

/-- `aws_utf8_decoder_update` with an `on_codepoint` that records its argument and succeeds:
stops at the first error -/
def update (d : Utf8) : List UInt8 → Utf8 × Option Err × List Nat
  | [] => (d, none, [])
  | b :: rest =>
    match updateByte d b with
    | (d', some e, _) => (d', some e, [])
    | (d', none, cp) =>
      let (d'', e, cps) := update d' rest
      (d'', e, cp.toList ++ cps)

/-- `aws_utf8_decoder_finalize`: verdict, and the decoder is reset -/
def finalize (d : Utf8) : Utf8 × Option Err :=
  (Utf8.init, if d.remaining == 0 then none else some .invalidUtf8)

/-- a caller feeding chunks and stopping at the first error, then finalizing:
(verdict, code points reported) -/
def runChunks (d : Utf8) : List (List UInt8) → Option Err × List Nat
  | [] => ((finalize d).2, [])
  | c :: cs =>
    match update d c with
    | (_, some e, cps) => (some e, cps)
    | (d', none, cps) => let (e, cps') := runChunks d' cs; (e, cps ++ cps')

/-- `aws_decode_utf8` -/
def decodeUtf8 (bs : List UInt8) : Option Err × List Nat :=
  match update Utf8.init bs with
  | (_, some e, cps) => (some e, cps)
  | (d, none, cps) => ((finalize d).2, cps)

/-! ### decoder created without `on_codepoint` (options NULL or callback NULL)

`if (decoder->on_codepoint && decoder->remaining == 0)` is the only place the callback matters:
the state machine is the same, nothing is reported. -/

/-- `aws_utf8_decoder_update` on a decoder without callback: stops at the first error -/
def updateNoCb (d : Utf8) : List UInt8 → Utf8 × Option Err
  | [] => (d, none)
  | b :: rest =>
    match updateByte d b with
    | (d', some e, _) => (d', some e)
    | (d', none, _) => updateNoCb d' rest

/-- chunks, stop at the first error, then finalize — decoder without callback: the verdict -/
def runChunksNoCb (d : Utf8) : List (List UInt8) → Option Err
  | [] => (finalize d).2
  | c :: cs =>
    match updateNoCb d c with
    | (_, some e) => some e
    | (d', none) => runChunksNoCb d' cs

/-- `aws_decode_utf8(bytes, NULL)` -/
def decodeUtf8NoCb (bs : List UInt8) : Option Err :=
  match updateNoCb Utf8.init bs with
  | (_, some e) => some e
  | (d, none) => (finalize d).2

/-! ### `on_codepoint` returning an error

`if (decoder->on_codepoint(decoder->codepoint, decoder->user_data)) return AWS_OP_ERR;` — the update stops
right after the call that failed (the code point has been handed over, the byte has been consumed). -/

/-- why an update stopped early -/
inductive Stop
  | err (e : Err)      -- the decoder rejected a byte
  | callback           -- `on_codepoint` returned non-zero
  deriving DecidableEq, Repr

/-- `aws_utf8_decoder_update` with a callback that records its argument and fails on its `k`-th call from now
(0 = the next one): state, why it stopped, code points handed over, calls left before the failing one -/
def updateFail (k : Nat) (d : Utf8) : List UInt8 → Utf8 × Option Stop × List Nat × Nat
  | [] => (d, none, [], k)
  | b :: rest =>
    match updateByte d b with
    | (d', some e, _) => (d', some (.err e), [], k)
    | (d', none, none) => updateFail k d' rest
    | (d', none, some cp) =>
      match k with
      | 0 => (d', some .callback, [cp], 0)
      | k' + 1 =>
        let r := updateFail k' d' rest
        (r.1, r.2.1, cp :: r.2.2.1, r.2.2.2)

/-- chunks, stop at the first error (decoder's or callback's), then finalize -/
def runChunksFail (k : Nat) (d : Utf8) : List (List UInt8) → Option Stop × List Nat
  | [] => (((finalize d).2).map Stop.err, [])
  | c :: cs =>
    match updateFail k d c with
    | (_, some s, cps, _) => (some s, cps)
    | (d', none, cps, k') => let r := runChunksFail k' d' cs; (r.1, cps ++ r.2)

/-- `aws_decode_utf8` with such a callback -/
def decodeUtf8Fail (k : Nat) (bs : List UInt8) : Option Stop × List Nat :=
  match updateFail k Utf8.init bs with
  | (_, some s, cps, _) => (some s, cps)
  | (d, none, cps, _) => (((finalize d).2).map Stop.err, cps)

end AwsVerif.Codec
