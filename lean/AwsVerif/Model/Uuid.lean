import AwsVerif.Model.Scanf
/-!
Checked-memory model of source/uuid.c: `aws_uuid_init_from_str` and `aws_uuid_to_str`.

`aws_uuid_init_from_str(uuid, uuid_str)`: the only access to the caller's text is
`memcpy(cpy, uuid_str->ptr, AWS_UUID_STR_LEN - 1)` behind the precondition `uuid_str->len >= AWS_UUID_STR_LEN - 1`;
`rdN` performs those 36 reads through `rd`, which faults outside the input block, and records their offsets.  The
local `char cpy[37] = {0}` is then scanned by `sscanf(cpy, UUID_FORMAT, …)` (AwsVerif.Scanf: 16 `%02hhx` conversions in
groups 4-2-2-2-6 separated by literal `-`); `16 != sscanf(...)` is `AWS_ERROR_MALFORMED_INPUT_STRING`.

`aws_uuid_to_str(uuid, output)`: `output = (cells, len)` with `cells.length = capacity`; precondition
`capacity - len >= AWS_UUID_STR_LEN`, then `snprintf` writes 36 characters and the terminating NUL at
`buffer + len …`, each store through `wr` (faults outside the capacity), and `len += 36`.
-/
namespace AwsVerif.Uuid
open AwsVerif.Scanf

inductive Fault where
  | oobRead (off : Nat)
  | oobWrite (idx : Nat)
deriving Repr, DecidableEq

abbrev M := Except Fault

inductive Err where
  | invalidBufferSize | malformed | shortBuffer
deriving Repr, DecidableEq

def Err.name : Err → String
  | .invalidBufferSize => "AWS_ERROR_INVALID_BUFFER_SIZE"
  | .malformed => "AWS_ERROR_MALFORMED_INPUT_STRING"
  | .shortBuffer => "AWS_ERROR_SHORT_BUFFER"

/-- AWS_UUID_STR_LEN -/
def STR_LEN : Nat := 37
/-- the groups of UUID_FORMAT -/
def groups : List Nat := [4, 2, 2, 2, 6]

def rd (inp : List UInt8) (i : Nat) : M UInt8 :=
  match inp[i]? with
  | some b => .ok b
  | none => .error (.oobRead i)

/-- `memcpy(dst, ptr + off, n)` on the source side: the bytes, reading offsets `off … off+n-1` in order -/
def rdN (inp : List UInt8) : (off n : Nat) → M (List UInt8)
  | _, 0 => .ok []
  | off, n + 1 => rd inp off >>= fun b => rdN inp (off + 1) n >>= fun t => .ok (b :: t)

/-- `n` consecutive `%02hhx` conversions -/
def scanN : Nat → List UInt8 → Option (List UInt8 × List UInt8)
  | 0, s => some ([], s)
  | n + 1, s =>
    match scanHex2 s with
    | none => none
    | some (v, r) =>
      match scanN n r with
      | none => none
      | some (vs, r') => some (v :: vs, r')

/-- the whole format: groups of conversions separated by a literal `-` -/
def scanGroups : List Nat → List UInt8 → Option (List UInt8)
  | [], _ => some []
  | [g], s => (scanN g s).map (·.1)
  | g :: g' :: gs, s =>
    match scanN g s with
    | none => none
    | some (vs, r) =>
      match r with
      | c :: r' => if c = minus then (scanGroups (g' :: gs) r').map (vs ++ ·) else none
      | [] => none

/-- result of `aws_uuid_init_from_str` with the ghost list of input offsets read -/
structure FromRes where
  res : Except Err (List UInt8)
  reads : List Nat
deriving Repr

def fromStr (inp : List UInt8) : M FromRes :=
  if inp.length < STR_LEN - 1 then .ok ⟨.error .invalidBufferSize, []⟩ else
  rdN inp 0 (STR_LEN - 1) >>= fun cpy =>                      -- cpy[36] stays 0
  .ok ⟨match scanGroups groups (cstr cpy) with
       | some bytes => .ok bytes
       | none => .error .malformed,
       List.range' 0 (STR_LEN - 1)⟩

/-! ### aws_uuid_to_str -/

def hexDigit (n : Nat) : UInt8 := UInt8.ofNat (if n < 10 then 48 + n else 87 + n)

/-- `"%02" PRIx8` -/
def fmtByte (b : UInt8) : List UInt8 := [hexDigit (b.toNat / 16), hexDigit (b.toNat % 16)]

def fmtBytes (bs : List UInt8) : List UInt8 := bs.flatMap fmtByte

/-- the 36 characters `snprintf(…, UUID_FORMAT, data[0], …, data[15])` produces -/
def text (u : List UInt8) : List UInt8 :=
  fmtBytes (u.take 4) ++ [minus] ++ fmtBytes ((u.drop 4).take 2) ++ [minus] ++ fmtBytes ((u.drop 6).take 2) ++ [minus] ++
  fmtBytes ((u.drop 8).take 2) ++ [minus] ++ fmtBytes ((u.drop 10).take 6)

def wr (cells : List UInt8) (i : Nat) (v : UInt8) : M (List UInt8) :=
  if i < cells.length then .ok (cells.set i v) else .error (.oobWrite i)

def wrAll (cells : List UInt8) : (i : Nat) → List UInt8 → M (List UInt8)
  | _, [] => .ok cells
  | i, v :: vs => wr cells i v >>= fun c' => wrAll c' (i + 1) vs

/-- `aws_uuid_to_str`: `(cells', len')` on success -/
def toStr (u : List UInt8) (cells : List UInt8) (len : Nat) : M (Except Err (List UInt8 × Nat)) :=
  if cells.length - len < STR_LEN then .ok (.error .shortBuffer) else
  wrAll cells len (text u ++ [0]) >>= fun cells' => .ok (.ok (cells', len + (STR_LEN - 1)))

end AwsVerif.Uuid
