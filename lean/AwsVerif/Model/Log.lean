import AwsVerif.Gen.LogClamp
/-!
Model of the logging pipeline of aws-c-common:
`source/log_formatter.c` (aws_format_standard_log_line, default formatter), `source/logging.c`
(level gate, pipeline logger, no-alloc logger), `source/log_channel.c` (foreground and background
channels).

Generated from /repo on every run (`AwsVerif/Gen/LogClamp.lean`, gen/log_gen.py):
`s_advance_and_clamp_index`, the size constants, the level-name table and the five literal
format strings of the formatter.  Everything else here is transcribed by hand.

Parameters of the model (text produced by libc / pthreads, DESIGN.md 5.14 "Partial"):
`msg` = expansion of the caller's format string by `vsnprintf`, `ts` = text `strftime` produces for
the configured date format, `tid` = `tl_logging_thread_id.repr`.
-/
namespace AwsVerif.Log
open AwsVerif.Gen.Log

abbrev Bytes := List UInt8

inductive Err where
  | invalidArgument            -- aws_raise_error(AWS_ERROR_INVALID_ARGUMENT)
  | unknown                    -- aws_raise_error(AWS_ERROR_UNKNOWN)
  | opErr                      -- AWS_OP_ERR returned without raising
  | oob (off len cap : Nat)    -- model fault: a write outside the buffer (never an outcome of the C code)
deriving Repr, DecidableEq

/-! ### Memory and libc semantics, stated once -/

/-- store `s` at `buf[off ..]`; faults when it does not lie inside the buffer -/
def wr (buf : Bytes) (off : Nat) (s : Bytes) : Except Err Bytes :=
  if off + s.length ≤ buf.length then .ok (buf.take off ++ s ++ buf.drop (off + s.length))
  else .error (.oob off s.length buf.length)

/-- `snprintf(buf + off, n, …)` whose expansion is `s`: `n = 0` writes nothing, otherwise
`min(|s|, n-1)` bytes of `s` followed by a NUL. -/
def snprintf (buf : Bytes) (off n : Nat) (s : Bytes) : Except Err Bytes :=
  if n = 0 then .ok buf else wr buf off (s.take (n - 1) ++ [0])

/-- the `int` returned by (v)snprintf for an expansion of `len` bytes: `len`, negative (here: the
given error) when it does not fit an `int` -/
def cint (len : Nat) (e : Err) : Except Err Nat :=
  if len < 2147483648 then .ok len else .error e

/-- `printf`-expansion of a format with exactly one `%s` -/
def subst : Bytes → Bytes → Bytes
  | 37 :: 115 :: rest, a => a ++ rest
  | c :: rest, a => c :: subst rest a
  | [], _ => []

/-! ### aws_format_standard_log_line -/

structure FmtData where
  total : Nat               -- formatting_data->total_length
  level : Nat               -- formatting_data->level
  subject : Option Bytes    -- formatting_data->subject_name (NULL = none)
  msg : Bytes               -- what vsnprintf(format, args) expands to
  ts : Bytes                -- what strftime produces for formatting_data->date_format
  tid : Bytes               -- tl_logging_thread_id.repr: the id text of the CALLING thread. The cache is thread-local
                            -- (AWS_THREAD_LOCAL): filled on a thread's first line from aws_thread_current_thread_id, never
                            -- seen by another thread; so this is a per-thread parameter of the model
deriving Repr

/-- one `if (current_index < fake_total_length) { n = snprintf(buf + idx, fake - idx, …); idx = clamp }` block -/
def segment (buf : Bytes) (idx fake : Nat) (s : Bytes) (e : Err) : Except Err (Bytes × Nat) :=
  if idx < fake then do
    let buf ← snprintf buf idx (fake - idx) s
    let n ← cint s.length e
    pure (buf, s_advance_and_clamp_index idx n fake)
  else pure (buf, idx)

/-- the timestamp block: a byte-buf of capacity `fake - idx` over the line buffer, filled by
`aws_date_time_to_utc_time_str` (strftime: writes `ts` and a NUL when `|ts| + 1 ≤ capacity`, otherwise
returns 0 = AWS_ERROR_SHORT_BUFFER, which the formatter turns into AWS_ERROR_INVALID_ARGUMENT) -/
def timestamp (buf : Bytes) (idx fake : Nat) (ts : Bytes) : Except Err (Bytes × Nat) :=
  if idx < fake then
    if ts.length = 0 ∨ fake - idx < ts.length + 1 then .error .invalidArgument
    else do
      let buf ← wr buf idx (ts ++ [0])
      pure (buf, s_advance_and_clamp_index idx (ts.length % 4294967296) fake)   -- (int)timestamp_buffer.len
  else pure (buf, idx)

/-- the first block, "[LEVEL] [": not guarded (current_index is 0) and a negative snprintf result is a plain AWS_OP_ERR -/
def levelSegment (buf : Bytes) (fake : Nat) (s1 : Bytes) : Except Err (Bytes × Nat) := do
  let buf ← snprintf buf 0 fake s1
  let n1 ← cint s1.length .opErr
  pure (buf, s_advance_and_clamp_index 0 n1 fake)

/-- `if (formatting_data->subject_name) { "[%s]" }` inside its `current_index < fake_total_length` guard -/
def subjectSegment (buf : Bytes) (idx fake : Nat) : Option Bytes → Except Err (Bytes × Nat)
  | some sj => segment buf idx fake (subst fmtSubject sj) .invalidArgument
  | none => pure (buf, idx)

/-- `aws_format_standard_log_line`: returns the buffer and `amount_written` -/
def formatLine (buf : Bytes) (d : FmtData) : Except Err (Bytes × Nat) :=
  match levelStrings[d.level]? with
  | none => .error .invalidArgument                      -- aws_log_level_to_string precondition
  | some lvl =>
    if d.total < 2 then .error .invalidArgument else
    let fake := d.total - 1
    let s1 := subst fmtLevel lvl
    do
      let (buf, idx) ← levelSegment buf fake s1
      let (buf, idx) ← timestamp buf idx fake d.ts
      let (buf, idx) ← segment buf idx fake (subst fmtThread d.tid) .invalidArgument
      let (buf, idx) ← subjectSegment buf idx fake d.subject
      let (buf, idx) ← segment buf idx fake fmtSeparator .invalidArgument
      let (buf, idx) ← segment buf idx fake d.msg .invalidArgument
      let buf ← snprintf buf idx (d.total - idx) fmtNewline
      let nl ← cint fmtNewline.length .unknown
      pure (buf, idx + nl)

/-- the bytes a consumer of the buffer sees: `amount_written` bytes from its start -/
def lineOf (r : Bytes × Nat) : Bytes := r.1.take r.2

/-! what the line is meant to be -/
def levelSeg (level : Nat) : Bytes := subst fmtLevel (levelStrings[level]?.getD [])
def subjectSeg : Option Bytes → Bytes
  | some sj => subst fmtSubject sj
  | none => []
/-- everything before the final newline -/
def body (d : FmtData) : Bytes :=
  levelSeg d.level ++ d.ts ++ subst fmtThread d.tid ++ subjectSeg d.subject ++ fmtSeparator ++ d.msg
def linePrefix (d : FmtData) : Bytes :=
  levelSeg d.level ++ d.ts ++ subst fmtThread d.tid ++ subjectSeg d.subject ++ fmtSeparator
def fullLine (d : FmtData) : Bytes := body d ++ fmtNewline

/-! ### default formatter (s_default_aws_log_formatter_format) and no-alloc logger -/

/-- `total_length = required_length + MAX_LOG_LINE_PREFIX_SIZE + subject_name_len` with
`required_length = vsnprintf(NULL, 0, …) + 1` -/
def defaultTotal (msg subject : Bytes) : Nat := (msg.length + 1) + MAX_LOG_LINE_PREFIX_SIZE + subject.length

/-- the aws_string handed to the channel: `amount_written` bytes of a zeroed block of `total_length` -/
def defaultFormat (level : Nat) (subject msg ts tid : Bytes) : Except Err Bytes := do
  let total := defaultTotal msg subject
  let r ← formatLine (List.replicate total 0)
    { total := total, level := level, subject := some subject, msg := msg, ts := ts, tid := tid }
  pure (lineOf r)

/-- the same for a subject whose name is NULL: `subject_name_len` stays 0 (the strlen is guarded) and the formatter gets a
NULL subject_name, so the line has no `[subject]` field -/
def defaultFormatNull (level : Nat) (msg ts tid : Bytes) : Except Err Bytes := do
  let total := defaultTotal msg []
  let r ← formatLine (List.replicate total 0)
    { total := total, level := level, subject := none, msg := msg, ts := ts, tid := tid }
  pure (lineOf r)

/-- `s_noalloc_stderr_logger_log`: formats into a stack buffer of MAXIMUM_NO_ALLOC_LOG_LINE_SIZE bytes
(contents arbitrary: `stack`) and fwrite()s `amount_written` bytes -/
def noallocFormat (stack : Bytes) (level : Nat) (subject msg ts tid : Bytes) : Except Err Bytes := do
  let r ← formatLine stack
    { total := MAXIMUM_NO_ALLOC_LOG_LINE_SIZE, level := level, subject := some subject, msg := msg, ts := ts, tid := tid }
  pure (lineOf r)

/-! ### level names (`aws_log_level_to_string`, `aws_string_to_log_level`) -/

/-- `s_tolower_table`: ASCII upper-case letters to lower case, every other byte unchanged -/
def asciiLower (b : UInt8) : UInt8 := if 65 ≤ b ∧ b ≤ 90 then b + 32 else b

/-- `aws_array_eq_c_str_ignore_case(array, len, c_str)` -/
def eqIgnoreCase (a b : Bytes) : Bool := a.map asciiLower == b.map asciiLower

/-- `aws_log_level_to_string`: precondition `log_level < AWS_LL_COUNT`, else AWS_ERROR_INVALID_ARGUMENT -/
def levelToString (level : Nat) : Option Bytes := levelStrings[level]?

/-- `aws_string_to_log_level`: the first level whose name equals the text ignoring ASCII case; none = AWS_ERROR_INVALID_ARGUMENT -/
def stringToLevel (s : Bytes) : Option Nat :=
  let i := levelStrings.findIdx (eqIgnoreCase s)
  if i < levelStrings.length then some i else none

/-! ### log subject names (`aws_log_subject_name`, `s_get_log_subject_info_by_id`, registration)

`s_log_subject_slots[AWS_PACKAGE_SLOTS]` holds one registered list per package slot; a list is its names (its count is
their number).  The range guard, the slot, the index inside the slot and the bound test are the GENERATED
`s_subject_too_big`, `s_subject_slot`, `s_subject_index`, `s_subject_index_rejected`; the pointer part is by hand:
reading `subject_list[index]` with `index ≥ count` is a fault (`oob`), never an outcome of the C code as it stands. -/

/-- per package slot the registered list: one entry per id, its `subject_name` (`none` = a NULL name pointer) -/
abbrev Slots := Nat → Option (List (Option Bytes))

inductive SubjectRes where
  | entry (name : Option Bytes)  -- the registered entry's subject_name, possibly NULL
  | unknown                      -- NULL: aws_log_subject_name answers "Unknown"
  | oob (index count : Nat)      -- model fault: read behind the registered list
deriving Repr, DecidableEq

def subjectLookup (slots : Slots) (subject : Nat) : SubjectRes :=
  if s_subject_too_big subject then .unknown else
  match slots (s_subject_slot subject) with
  | none => .unknown
  | some names =>
    if s_subject_index_rejected (s_subject_index subject) names.length then .unknown
    else match names[s_subject_index subject]? with
      | some n => .entry n
      | none => .oob (s_subject_index subject) names.length

def unknownSubject : Bytes := [85, 110, 107, 110, 111, 119, 110]   -- "Unknown"

/-- `aws_log_subject_name`: outer `none` only for the model fault; inner `none` = NULL, which is what a registered
entry with a NULL name yields (only unresolvable ids fall back to "Unknown") -/
def subjectName (slots : Slots) (subject : Nat) : Option (Option Bytes) :=
  match subjectLookup slots subject with
  | .entry n => some n
  | .unknown => some (some unknownSubject)
  | .oob _ _ => none

/-- `aws_register_log_subject_info_list`: the slot is that of the first entry's id (the process is killed for a slot
≥ AWS_PACKAGE_SLOTS; callers here stay below) -/
def registerSubjects (slots : Slots) (firstId : Nat) (names : List (Option Bytes)) : Slots :=
  fun i => if i = s_subject_slot firstId then some names else slots i

/-- the no-alloc logger for a subject whose name is NULL -/
def noallocFormatNull (stack : Bytes) (level : Nat) (msg ts tid : Bytes) : Except Err Bytes := do
  let r ← formatLine stack
    { total := MAXIMUM_NO_ALLOC_LOG_LINE_SIZE, level := level, subject := none, msg := msg, ts := ts, tid := tid }
  pure (lineOf r)

/-! ### level gate and pipeline logger -/

/-- `AWS_LOGF`: `logger->vtable->get_log_level(logger, subject) >= log_level` -/
def gate (current level : Nat) : Bool := decide (current ≥ level)

inductive ChanKind where
  | foreground     -- s_foreground_channel_send: lock; write; unlock; destroy; success
  | failing        -- a channel whose send fails (ownership stays with the caller)
deriving Repr, DecidableEq

structure Pipe where
  level : Nat                 -- impl->level (atomic)
  chan : ChanKind
  written : List Bytes        -- lines the writer received, in order
  destroyed : List Bytes      -- lines released (ghost)
  writeErrors : Nat := 0      -- writer calls that reported a failure (ghost)
deriving Repr

/-- the parameters of one call: its text, and what the environment does with it -/
structure Call where
  level : Nat
  subject : Bytes
  msg : Bytes
  ts : Bytes
  tid : Bytes
  writeOk : Bool := true      -- does the writer's `write` succeed for this line (disk full, closed pipe, …)
  subjectNull : Bool := false -- the subject resolves to a registered entry whose name is NULL (`subject` is then unused)
deriving Repr

/-- `s_aws_logger_pipeline_log`: format, send; a failed send destroys the line. Returns success.
`s_foreground_channel_send` ignores the result of the writer's `write`: it destroys the line itself and
reports success whatever the writer said (so the pipeline must not, and does not, destroy it again). -/
def callFormat (c : Call) : Except Err Bytes :=
  if c.subjectNull then defaultFormatNull c.level c.msg c.ts c.tid else defaultFormat c.level c.subject c.msg c.ts c.tid

def pipelineLog (p : Pipe) (c : Call) : Pipe × Bool :=
  match callFormat c with
  | .error _ => (p, false)
  | .ok line =>
    match p.chan with
    | .foreground =>
      ({ p with written := p.written ++ [line], destroyed := p.destroyed ++ [line],
                writeErrors := p.writeErrors + (if c.writeOk then 0 else 1) }, true)
    | .failing => ({ p with destroyed := p.destroyed ++ [line] }, false)

/-- `AWS_LOGF(level, subject, …)` against this logger -/
def logf (p : Pipe) (c : Call) : Pipe :=
  if gate p.level c.level then (pipelineLog p c).1 else p

/-- `aws_logger_set_log_level` (atomic store) -/
def setLevel (p : Pipe) (l : Nat) : Pipe := { p with level := l }

inductive Op where
  | log (c : Call)
  | set (l : Nat)
deriving Repr

def apply (p : Pipe) : Op → Pipe
  | .log c => logf p c
  | .set l => setLevel p l

def run (p : Pipe) (ops : List Op) : Pipe := ops.foldl apply p

/-! ### Foreground channel: any number of threads, each `lock; write…; unlock; destroy`

The writer call is split into a begin and an end step so that "no two writes overlap" is a
statement about the system and not an artefact of step granularity. -/
namespace Fg

abbrev Line := Nat × Nat     -- (sender, sequence number)

inductive Pc where
  | idle
  | lock (l : Line)
  | writeBegin (l : Line)
  | writeEnd (l : Line)
  | unlock (l : Line)
  | destroy (l : Line)
deriving Repr, DecidableEq

structure Sys where
  mutex : Option Nat
  pcs : Nat → Pc
  count : Nat → Nat
  inWriter : List Line      -- writer calls in progress (ghost)
  written : List Line
  destroyed : List Line

def Sys.init : Sys := { mutex := none, pcs := fun _ => .idle, count := fun _ => 0, inWriter := [], written := [], destroyed := [] }

def setPc (s : Sys) (t : Nat) (pc : Pc) : Sys := { s with pcs := fun i => if i = t then pc else s.pcs i }

inductive Act where
  | startSend (t : Nat)
  | thread (t : Nat)
deriving Repr, DecidableEq

def step (s : Sys) : Act → Option Sys
  | .startSend t =>
    match s.pcs t with
    | .idle => some { (setPc s t (.lock (t, s.count t))) with count := fun i => if i = t then s.count t + 1 else s.count i }
    | _ => none
  | .thread t =>
    match s.pcs t with
    | .idle => none
    | .lock l => if s.mutex = none then some { (setPc s t (.writeBegin l)) with mutex := some t } else none
    | .writeBegin l => some { (setPc s t (.writeEnd l)) with inWriter := l :: s.inWriter }
    | .writeEnd l => some { (setPc s t (.unlock l)) with inWriter := s.inWriter.erase l, written := s.written ++ [l] }
    | .unlock l => some { (setPc s t (.destroy l)) with mutex := none }
    | .destroy l => some { (setPc s t .idle) with destroyed := s.destroyed ++ [l] }

inductive Reachable : Sys → Prop where
  | init : Reachable Sys.init
  | step {s s' : Sys} {a : Act} : Reachable s → step s a = some s' → Reachable s'

end Fg

/-! ### No-alloc logger used by several threads (`s_noalloc_stderr_logger_log`)

Each call formats into ITS OWN buffer — `char format_buffer[MAXIMUM_NO_ALLOC_LOG_LINE_SIZE]` is an automatic
(stack) variable of the call — and only then takes `impl->lock` around `fwrite`.  Formatting is therefore
outside the lock; what keeps lines whole is that no other thread can touch the buffer of this call.
`bufs t` is that buffer; the write step hands `bufs t` (not the line the call believes it formatted) to the
file, so the theorem "the file holds exactly the formatted lines" is a statement about buffer ownership. -/
namespace Na

/-- (thread, sequence number of the call in that thread).  The first component also stands for the thread-id text in
the line's prefix: the formatter takes it from a thread-local cache, so a line formatted by thread `t` carries `t`'s
own id and nobody else's. -/
abbrev Line := Nat × Nat

inductive Pc where
  | idle
  | lock (l : Line)        -- formatted; aws_mutex_lock
  | write (l : Line)       -- fwrite(format_buffer, amount_written)
  | unlock (l : Line)      -- aws_mutex_unlock; return
deriving Repr, DecidableEq

structure Sys where
  mutex : Option Nat
  pcs : Nat → Pc
  count : Nat → Nat
  bufs : Nat → Option Line     -- contents of each thread's own format_buffer
  file : List (Option Line)    -- what reached the FILE, in order
  -- ghost
  logged : List Line           -- the line each completed fwrite was meant to write
  writers : List Nat           -- the thread that performed each fwrite
  failed : List Line           -- calls whose fwrite failed (nothing reached the file; the call returns AWS_OP_ERR)
  returned : List Line         -- calls that have returned

def Sys.init : Sys :=
  { mutex := none, pcs := fun _ => .idle, count := fun _ => 0, bufs := fun _ => none, file := [], logged := [], writers := [], failed := [], returned := [] }

def setPc (s : Sys) (t : Nat) (pc : Pc) : Sys := { s with pcs := fun i => if i = t then pc else s.pcs i }

inductive Act where
  | startLog (t : Nat)     -- an accepted call: aws_format_standard_log_line into the call's buffer
  | thread (t : Nat)
  | writeFails (t : Nat)   -- the fwrite of thread t fails (disk full, closed pipe): error raised, then the SAME unlock
deriving Repr, DecidableEq

def step (s : Sys) : Act → Option Sys
  | .startLog t =>
    match s.pcs t with
    | .idle =>
      some { (setPc s t (.lock (t, s.count t))) with
             count := fun i => if i = t then s.count t + 1 else s.count i,
             bufs := fun i => if i = t then some (t, s.count t) else s.bufs i }
    | _ => none
  | .thread t =>
    match s.pcs t with
    | .idle => none
    | .lock l => if s.mutex = none then some { (setPc s t (.write l)) with mutex := some t } else none
    | .write l => some { (setPc s t (.unlock l)) with file := s.file ++ [s.bufs t], logged := s.logged ++ [l], writers := s.writers ++ [t] }
    | .unlock l => some { (setPc s t .idle) with mutex := none, returned := s.returned ++ [l] }
  | .writeFails t =>
    -- `write_result = AWS_OP_ERR` and control continues to aws_mutex_unlock: a failed write does not keep the lock
    match s.pcs t with
    | .write l => some { (setPc s t (.unlock l)) with failed := s.failed ++ [l] }
    | _ => none

inductive Reachable : Sys → Prop where
  | init : Reachable Sys.init
  | step {s s' : Sys} {a : Act} : Reachable s → step s a = some s' → Reachable s'

end Na

/-! ### Background channel as a transition system

Threads: any number of senders (`s_background_channel_send`), the consumer
(`aws_background_logger_thread`), one cleaner (`s_background_channel_clean_up`).  One step = one
synchronisation operation or one access to the shared/observable state.  Ghost fields record what
the property speaks about. -/
namespace Bg

/-- (sender, sequence number within that sender).  A line is formatted on the sender's thread before `send`, with the
thread-id text of that thread (thread-local cache): the first component is also "whose id the line carries". -/
abbrev Line := Nat × Nat

inductive Owner where
  | sender (t : Nat)
  | consumer
  | cleaner
deriving Repr, DecidableEq

/-- `s_background_channel_send` -/
inductive SPc where
  | idle
  | lock (l : Line)      -- aws_mutex_lock
  | push (l : Line)      -- aws_array_list_push_back
  | notify (l : Line)    -- aws_condition_variable_notify_one
  | unlock (l : Line)    -- aws_mutex_unlock; return
deriving Repr, DecidableEq

/-- `aws_background_logger_thread` -/
inductive CPc where
  | lock                        -- top of the loop: aws_mutex_lock
  | pred                        -- wait_pred: evaluate `finished || length > 0` under the mutex
  | waiting                     -- in pthread_cond_wait: mutex released, not signalled
  | woken                       -- signalled or spuriously woken: re-acquire the mutex
  | read                        -- read line_count and finished; swap the batch out if there are lines
  | unlockEmpty (fin : Bool)    -- line_count == 0: unlock, then break (fin) or continue
  | unlockBatch                 -- unlock after the swap
  | write                       -- writer->vtable->write(next line of the batch)
  | destroy (l : Line)          -- aws_string_destroy of the line just written
  | exiting                     -- left the loop; the thread function returns
  | done                        -- thread has exited (joinable)
deriving Repr, DecidableEq

/-- `s_background_channel_clean_up` -/
inductive KPc where
  | idle
  | lock
  | setFin
  | notify
  | unlock
  | join
  | returned
deriving Repr, DecidableEq

structure Sys where
  mutex : Option Owner
  pending : List Line          -- impl->pending_log_lines
  finished : Bool              -- impl->finished
  batch : List Line            -- consumer's log_lines still to be written
  senders : Nat → SPc
  count : Nat → Nat            -- lines created so far by each sender
  cons : CPc
  clean : KPc
  -- ghost
  pushed : List Line           -- every line that entered the channel, in push order
  written : List Line          -- writer calls, in order
  destroyed : List Line        -- aws_string_destroy calls, in order
  completed : List Line        -- lines whose send has returned
  completedAtClean : List Line -- value of `completed` when clean-up was called

def Sys.init : Sys :=
  { mutex := none, pending := [], finished := false, batch := [], senders := fun _ => .idle, count := fun _ => 0,
    cons := .lock, clean := .idle, pushed := [], written := [], destroyed := [], completed := [], completedAtClean := [] }

inductive Act where
  | startSend (t : Nat)     -- sender t calls send with a fresh line
  | sender (t : Nat)        -- next step of sender t
  | consumer                -- next step of the background thread
  | spurious                -- spurious wake-up of the waiting consumer
  | startClean              -- clean-up is called
  | cleaner                 -- next step of clean-up
deriving Repr, DecidableEq

def setS (s : Sys) (t : Nat) (pc : SPc) : Sys := { s with senders := fun i => if i = t then pc else s.senders i }

/-- `notify_one` wakes a thread that is waiting now; otherwise it is lost -/
def wake : CPc → CPc
  | .waiting => .woken
  | c => c

def step (s : Sys) : Act → Option Sys
  | .startSend t =>
    match s.senders t with
    | .idle => some { (setS s t (.lock (t, s.count t))) with count := fun i => if i = t then s.count t + 1 else s.count i }
    | _ => none
  | .sender t =>
    match s.senders t with
    | .idle => none
    | .lock l => if s.mutex = none then some { (setS s t (.push l)) with mutex := some (.sender t) } else none
    | .push l => some { (setS s t (.notify l)) with pending := s.pending ++ [l], pushed := s.pushed ++ [l] }
    | .notify l => some { (setS s t (.unlock l)) with cons := wake s.cons }
    | .unlock l => some { (setS s t .idle) with mutex := none, completed := s.completed ++ [l] }
  | .consumer =>
    match s.cons with
    | .lock => if s.mutex = none then some { s with mutex := some .consumer, cons := .pred } else none
    | .pred =>
      if s.finished ∨ s.pending ≠ [] then some { s with cons := .read }
      else some { s with mutex := none, cons := .waiting }
    | .waiting => none
    | .woken => if s.mutex = none then some { s with mutex := some .consumer, cons := .pred } else none
    | .read =>
      match s.pending with
      | [] => some { s with cons := .unlockEmpty s.finished }
      | l :: ls => some { s with batch := l :: ls, pending := s.batch, cons := .unlockBatch }
    | .unlockEmpty fin => some { s with mutex := none, cons := if fin then .exiting else .lock }
    | .unlockBatch => some { s with mutex := none, cons := .write }
    | .write =>
      match s.batch with
      | [] => some { s with cons := .lock }          -- loop over an empty batch (not reachable)
      | l :: ls => some { s with batch := ls, written := s.written ++ [l], cons := .destroy l }
    | .destroy l =>
      some { s with destroyed := s.destroyed ++ [l], cons := if s.batch = [] then .lock else .write }
    | .exiting => some { s with cons := .done }
    | .done => none
  | .spurious =>
    match s.cons with
    | .waiting => some { s with cons := .woken }
    | _ => none
  | .startClean =>
    match s.clean with
    | .idle => some { s with clean := .lock, completedAtClean := s.completed }
    | _ => none
  | .cleaner =>
    match s.clean with
    | .idle => none
    | .lock => if s.mutex = none then some { s with mutex := some .cleaner, clean := .setFin } else none
    | .setFin => some { s with finished := true, clean := .notify }
    | .notify => some { s with cons := wake s.cons, clean := .unlock }
    | .unlock => some { s with mutex := none, clean := .join }
    | .join => if s.cons = .done then some { s with clean := .returned } else none
    | .returned => none

inductive Reachable : Sys → Prop where
  | init : Reachable Sys.init
  | step {s s' : Sys} {a : Act} : Reachable s → step s a = some s' → Reachable s'

/-- a step of one of the threads (not a new call, not a spurious wake-up) -/
def Act.isThreadStep : Act → Bool
  | .sender _ => true
  | .consumer => true
  | .cleaner => true
  | _ => false

def runActs (s : Sys) : List Act → Option Sys
  | [] => some s
  | a :: as => (step s a).bind (fun s' => runActs s' as)

end Bg

end AwsVerif.Log
