import AwsVerif.Model.Scanf
/-!
Model of `source/host_utils.c` : `aws_host_utils_is_ipv6` (hand-written character logic), over the
checked memory of DESIGN.md 4.3.

The input is one memory object (`inp : List UInt8`, the exact-size block the harness allocates).  Every
dereference the C code performs is a call of `rd`, which faults (`Fault.oob off`) on any offset outside
that object; `memchr`, `aws_byte_cursor_left_trim_pred` (inside `aws_byte_cursor_satisfies_pred`), the
two-byte `memcmp` of `aws_byte_cursor_starts_with` and the `substr.ptr[i]`, `substr.ptr[i-1]`,
`substr.ptr[len-1]`, `substr.ptr[len-2]` accesses are transcribed with the offsets and the short-circuit
order of the C source.  Loops are structural recursion on the number of bytes left, so there is no fuel
that could run out: a run either returns a verdict or faults.

`aws_byte_cursor_next_split(&host, '%', &substr)`:
  first call : substr = host, then `memchr(substr.ptr, '%', substr.len)` shortens it;
  second call: `substr.ptr += substr.len + 1`; if that is beyond `host.ptr + host.len` there is no further
               split, otherwise `substr.len = host.len - offset` and `memchr` again.

`aws_host_utils_is_ipv4` (end of this file): its only access to the input is `memcpy(copy, host.ptr, host.len)` behind
the guard `host.len <= 15`; the 16-byte zero-initialised local copy is then scanned by
`sscanf(copy, "%03hu.%03hu.%03hu.%03hu%1s", …)` (AwsVerif.Scanf, glibc semantics).

`uint8_t group_count / digit_count` cannot wrap: the loop leaves as soon as one exceeds 8 / 4.
-/
namespace AwsVerif.HostUtils

inductive Fault where
  | oob (off : Nat)
deriving Repr, DecidableEq

abbrev M := Except Fault

def pct : UInt8 := 37     -- '%'
def colon : UInt8 := 58   -- ':'
def ch2 : UInt8 := 50     -- '2'
def ch5 : UInt8 := 53     -- '5'

/-- `aws_isxdigit(c) || c == ':'` -/
def isIpv6Char (c : UInt8) : Bool :=
  (48 ≤ c && c ≤ 57) || (97 ≤ c && c ≤ 102) || (65 ≤ c && c ≤ 70) || c == colon

/-- `aws_isalnum` -/
def isAlnum (c : UInt8) : Bool :=
  (97 ≤ c && c ≤ 122) || (65 ≤ c && c ≤ 90) || (48 ≤ c && c ≤ 57)

/-- one dereference of the input block at byte offset `i` -/
def rd (inp : List UInt8) (i : Nat) : M UInt8 :=
  match inp[i]? with
  | some b => .ok b
  | none => .error (.oob i)

/-- `memchr(ptr + off, c, n)`: index relative to `off` of the first `c` among the next `n` bytes -/
def memchr (inp : List UInt8) (c : UInt8) : (off n : Nat) → M (Option Nat)
  | _, 0 => .ok none
  | off, n + 1 =>
    rd inp off >>= fun b =>
    if b = c then .ok (some 0)
    else memchr inp c (off + 1) n >>= fun r => .ok (r.map (· + 1))

/-- the loop of `aws_byte_cursor_left_trim_pred` on the cursor `(off, n)`: remaining length -/
def trimLeft (inp : List UInt8) (pred : UInt8 → Bool) : (off n : Nat) → M Nat
  | _, 0 => .ok 0
  | off, n + 1 =>
    rd inp off >>= fun b =>
    if pred b then trimLeft inp pred (off + 1) n else .ok (n + 1)

/-- `aws_byte_cursor_satisfies_pred` -/
def satisfiesPred (inp : List UInt8) (pred : UInt8 → Bool) (off n : Nat) : M Bool :=
  trimLeft inp pred off n >>= fun r => .ok (r == 0)

/-- locals of the group-counting loop -/
structure Scan where
  groups : Nat := 1
  digits : Nat := 0
  dbl : Bool := false
deriving Repr, DecidableEq

/-- the `if (digit_count > 4 || group_count > 8) return false;` at the end of the loop body -/
def Scan.check (s : Scan) : Option Scan :=
  if 4 < s.digits ∨ 8 < s.groups then none else some s

/-- effect of one character given whether the previous one (if any) was a colon; `none` = `return false` -/
def scanChar (c : UInt8) (prevColon : Bool) (s : Scan) : Option Scan :=
  if c = colon then
    if prevColon then
      if s.dbl then none
      else Scan.check { groups := s.groups, digits := 0, dbl := true }    -- ++group_count; --group_count
    else Scan.check { groups := s.groups + 1, digits := 0, dbl := s.dbl }
  else Scan.check { s with digits := s.digits + 1 }

/-- the `for (i = 0; i < substr.len; ++i)` loop from index `i` with `k` iterations left
(the first split always starts at offset 0 of the input) -/
def scanFrom (inp : List UInt8) : (i k : Nat) → Scan → M (Option Scan)
  | _, 0, s => .ok (some s)
  | i, k + 1, s =>
    rd inp i >>= fun c =>
    (if c = colon ∧ 0 < i then rd inp (i - 1) >>= fun p => .ok (p == colon) else .ok false) >>= fun prevColon =>
    match scanChar c prevColon s with
    | none => .ok none
    | some s' => scanFrom inp (i + 1) k s'

/-- the optional zone part: cursor `(off2, l2)` -/
def zoneCheck (inp : List UInt8) (enc : Bool) (off2 l2 : Nat) : M Bool :=
  (if enc then
      if l2 < 3 then .ok true
      else rd inp off2 >>= fun a => rd inp (off2 + 1) >>= fun b => .ok (!(a == ch2 && b == ch5))   -- memcmp(ptr, "25", 2)
    else .ok (l2 == 0)) >>= fun bad =>
  if bad then .ok false else satisfiesPred inp isAlnum off2 l2

/-- the checks on the first split `(0, l1)`: length, alphabet, single colon at either end, group loop.
`none` = `return false`, `some s` = the loop's locals at its end -/
def addrCheck (inp : List UInt8) (l1 : Nat) : M (Option Scan) :=
  if l1 < 2 ∨ 39 < l1 then .ok none else
  satisfiesPred inp isIpv6Char 0 l1 >>= fun ok1 =>
  if !ok1 then .ok none else
  rd inp 0 >>= fun c0 =>
  (if c0 = colon then rd inp 1 >>= fun c1 => .ok (c1 != colon) else .ok false) >>= fun badStart =>
  if badStart then .ok none else
  rd inp (l1 - 1) >>= fun cl =>
  (if cl = colon then rd inp (l1 - 2) >>= fun c => .ok (c != colon) else .ok false) >>= fun badEnd =>
  if badEnd then .ok none else
  scanFrom inp 0 l1 {}

/-- `return has_double_colon ? group_count <= 8 : group_count == 8;` -/
def verdict (s : Scan) : Bool := if s.dbl then decide (s.groups ≤ 8) else decide (s.groups = 8)

/-- `aws_host_utils_is_ipv6(host, is_uri_encoded)` with `host = (inp, inp.length)` -/
def isIpv6 (inp : List UInt8) (enc : Bool) : M Bool :=
  let len := inp.length
  if len = 0 then .ok false else
  memchr inp pct 0 len >>= fun f =>                   -- first aws_byte_cursor_next_split
  let l1 := f.getD len
  addrCheck inp l1 >>= fun r =>
  match r with
  | none => .ok false
  | some s =>
    let off2 := l1 + 1                                -- second aws_byte_cursor_next_split
    if off2 ≤ len then
      memchr inp pct off2 (len - off2) >>= fun g =>
      zoneCheck inp enc off2 (g.getD (len - off2)) >>= fun zok =>
      if zok then .ok (verdict s) else .ok false
    else .ok (verdict s)

/-! ### cursor-free specification (plain list functions, no offsets, no faults) -/

def idxOf? (c : UInt8) : List UInt8 → Option Nat
  | [] => none
  | b :: t => if b = c then some 0 else (idxOf? c t).map (· + 1)

/-- text before the first `%` (everything when there is none) -/
def addrPart (inp : List UInt8) : List UInt8 :=
  match idxOf? pct inp with
  | some i => inp.take i
  | none => inp

/-- text between the first and the second `%` (or the end); `none` when there is no `%` -/
def zonePart (inp : List UInt8) : Option (List UInt8) :=
  match idxOf? pct inp with
  | some i =>
    let r := inp.drop (i + 1)
    some (match idxOf? pct r with | some j => r.take j | none => r)
  | none => none

/-- the group loop as a fold over the address text -/
def scanList : (prevColon : Bool) → List UInt8 → Scan → Option Scan
  | _, [], s => some s
  | pc, c :: t, s =>
    match scanChar c (c == colon && pc) s with
    | none => none
    | some s' => scanList (c == colon) t s'

/-- the address text passes the length / alphabet / single-colon checks and the group loop ends in `s` -/
def addrScan (a : List UInt8) : Option Scan :=
  if a.length < 2 ∨ 39 < a.length then none
  else if !a.all isIpv6Char then none
  else if a[0]? == some colon && a[1]? != some colon then none
  else if a[a.length - 1]? == some colon && a[a.length - 2]? != some colon then none
  else scanList false a {}

def addrOk (a : List UInt8) : Bool :=
  match addrScan a with
  | none => false
  | some s => verdict s

def zoneOk (enc : Bool) (z : List UInt8) : Bool :=
  (if enc then decide (3 ≤ z.length) && (z[0]? == some ch2 && z[1]? == some ch5) else decide (1 ≤ z.length)) &&
  z.all isAlnum

/-- what `aws_host_utils_is_ipv6` accepts -/
def spec (inp : List UInt8) (enc : Bool) : Bool :=
  !inp.isEmpty && addrOk (addrPart inp) &&
  (match zonePart inp with | none => true | some z => zoneOk enc z)

/-! ### aws_host_utils_is_ipv4 -/

/-- AWS_IPV4_STR_LEN -/
def IPV4_STR_LEN : Nat := 16

/-- `memcpy(copy, host.ptr + off, n)` on the source side: reads offsets `off … off+n-1` in order -/
def rdN (inp : List UInt8) : (off n : Nat) → M (List UInt8)
  | _, 0 => .ok []
  | off, n + 1 => rd inp off >>= fun b => rdN inp (off + 1) n >>= fun t => .ok (b :: t)

def dot : UInt8 := 46

/-- `%03hu` followed by `n` times `.%03hu` -/
def scanDotted : Nat → List UInt8 → Option (List Nat × List UInt8)
  | n, s =>
    match AwsVerif.Scanf.scanDec3 s with
    | none => none
    | some (v, r) =>
      match n with
      | 0 => some ([v], r)
      | n' + 1 =>
        match r with
        | c :: r' => if c = dot then (scanDotted n' r').map (fun p => (v :: p.1, p.2)) else none
        | [] => none

/-- `4 == sscanf(copy, "%03hu.%03hu.%03hu.%03hu%1s", …)` and every octet `<= 255`: four numbers, and nothing but white
space behind them (otherwise `%1s` is a fifth conversion) -/
def ipv4Text (s : List UInt8) : Bool :=
  match scanDotted 3 s with
  | none => false
  | some (octets, rest) => (AwsVerif.Scanf.skipWs rest).isEmpty && octets.all (· ≤ 255)

structure V4Res where
  verdict : Bool
  reads : List Nat        -- ghost: offsets of the input read
deriving Repr, DecidableEq

/-- `aws_host_utils_is_ipv4(host)` with `host = (inp, inp.length)` -/
def isIpv4 (inp : List UInt8) : M V4Res :=
  if IPV4_STR_LEN - 1 < inp.length then .ok ⟨false, []⟩ else
  rdN inp 0 inp.length >>= fun copy =>                       -- copy[len..15] stay 0
  .ok ⟨ipv4Text (AwsVerif.Scanf.cstr copy), List.range' 0 inp.length⟩

end AwsVerif.HostUtils
