/-!
# C20 — model of aws-c-common's thread launch / at-exit / managed-join protocol

Transcribes `source/posix/thread.c` (thread_fn, aws_thread_launch, aws_thread_join,
aws_thread_clean_up, aws_thread_current_at_exit, aws_thread_join_and_free_wrapper_list) and
`source/thread_shared.c` (increment/decrement_unjoined_count, get_managed_thread_count,
set_managed_join_timeout_ns, join_all_managed, pending_join_add) together with
`aws_condition_variable_wait_pred / wait_for_pred`.

A *program* gives, for every slot `k` (slot 0 = the process main thread, which is not an aws
thread), whether it is launched as a managed thread and the list of `Action`s its function performs.
Every thread carries a continuation `code : List Instr` of micro-instructions.  Instructions are
either *sync* (exactly the calls `harness/detsched.c` interposes: lock, unlock, signal, create, join,
detach, cond wait (two steps: `cwait`, `cwake`), sleep, yield, plus thread start and exit) or *local*
(everything the C code does between two such calls).  `step` executes one micro-instruction of one
thread; the theorems quantify over all interleavings of micro-steps (a superset of what the
scheduler can produce, which always runs the local tail of a sync step to completion).

Restrictions of the model (also listed in props/c20.py): one thread per slot (a second launch of a
slot is answered like a failed create); sequentially consistent interleavings at the sync calls;
thread-local storage is the `chain` field; real stacks and the wrapper copy are not modelled beyond
the (func, arg) pair; `pthread_cond_signal` wakes the longest waiting thread.
-/
namespace AwsVerif.Threads

inductive Action where
  /-- `aws_thread_launch` of slot `k`; `pin`: options->cpu_id >= 0; `nfail`: how many of this launch's
      `pthread_create` calls fail with EINVAL (a cpu that cannot be honoured) -/
  | launch (k : Nat) (pin : Bool) (nfail : Nat) (named : Bool)   -- `named`: options->name is non-empty
  | join (k : Nat)
  | cleanup (k : Nat)
  | atexit (cb : Nat)
  | getCount
  | joinAll
  | setTimeout (ns : Nat)
  | yield
  | sleep (ns : Nat)
  /-- `aws_thread_call_once(&flag[id], cb)`; the callback of flag `id` registers the at-exit callbacks `P.onceRegs id`
      (at most two are modelled) on the calling thread -/
  | once (id : Nat)
  /-- `aws_common_library_init` on the already initialised library (every dependent library issues one) -/
  | libInit
  /-- `aws_thread_current_name`: reads the calling thread's name -/
  | getName
  /-- `aws_thread_launch` of slot `k` in which one of the attribute steps in front of the wrapper allocation
      (`pthread_attr_init` / `setstacksize` / `getstacksize`, errno `err`) fails and no retry applies: the launch
      returns the error; nothing was counted or allocated yet, only the handle of a managed launch is already marked -/
  | launchAttr (k err : Nat)
  /-- `aws_common_library_init` on the library that `aws_common_library_clean_up` has just shut down (the harness op
      `X` is clean-up = `joinAll` with its result ignored, then this, then `getCount`): the pending-join list head
      is re-initialised, the unjoined count is left alone -/
  | libReinit
  deriving DecidableEq, Repr, Inhabited

inductive Status where
  | notCreated | created | running | funcDone | atexitDone | handedOver | exited | joined
  deriving DecidableEq, Repr, Inhabited

def Status.rank : Status → Nat
  | .notCreated => 0 | .created => 1 | .running => 2 | .funcDone => 3
  | .atexitDone => 4 | .handedOver => 5 | .exited => 6 | .joined => 7

/-- `aws_thread.detach_state` of the launcher's handle -/
inductive HState where
  | notCreated | joinable | managed | joinCompleted
  deriving DecidableEq, Repr, Inhabited

/-- observable log (the `P` lines of the harness), newest first -/
inductive Ev where
  | launchRet (k by_ err : Nat)
  | run (k arg : Nat)
  | reg (k cb : Nat) (ok : Bool)
  | done (k : Nat)
  | cb (owner cb on : Nat)
  | joinRet (k by_ : Nat)     -- pthread_join on k returned to by_
  | joinSkip (k by_ : Nat) (h : HState) (started : Bool)  -- aws_thread_join on a handle that is not JOINABLE (state h)
  | joinFail (k by_ err : Nat) (started : Bool) -- pthread_join refused (EDEADLK 35: own thread; EINVAL 22: detached)
  | name (t : Nat) (named : Bool)   -- aws_thread_current_name: the name given at launch, or the inherited default
  | count (by_ n : Nat)
  | joinAllBegin (by_ : Nat)
  | joinAllRet (by_ : Nat) (ok : Bool) (snap : List Nat)
  deriving DecidableEq, Repr, Inhabited

/-- white-box sync event (the `W ev` lines): thread ordinal, kind, object, aux -/
structure WEv where
  t : Nat
  kind : String
  obj : String
  aux : Int
  deriving DecidableEq, Repr, Inhabited

inductive Instr where
  -- compound / expanding (local)
  | act (a : Action)
  | joinAndFree (l : List Nat)
  | jaLoop
  | waitPred
  | waitForPred
  -- sync
  | lock | unlock | signal
  | create (k : Nat) (pin : Bool) (nfail : Nat) (named : Bool)
  | createRet (k : Nat)      -- pthread_create has returned to its caller (the new thread may already have run)
  | joinM (k : Nat)          -- pthread_join from join_and_free_wrapper_list
  | joinU (k : Nat)          -- pthread_join from aws_thread_join on the user's handle
  | detach (k : Nat)
  | cwait (timed : Bool)
  | cwake
  | sleepUntil (u : Nat)
  | yield
  | onceCall (id : Nat)      -- pthread_once
  -- local
  | allocW (k : Nat) (named : Bool)   -- wrapper block (+ the aws_string copy of the name)
  | freeW (k : Nat) (named : Bool)    -- s_thread_wrapper_destroy: wrapper (+ the name if still attached)
  | incCount | decCount
  | logLaunch (k err : Nat)
  | logJoin (k : Nat)
  | readCount | logCount
  | setTo (ns : Nat)
  | jaBegin | readTo | jaInit | waitForPredInit | jaCheck
  | jaRet (ok : Bool) (snap : List Nat)
  | pjaSwapPush
  | libInit
  | logName
  | markM (k : Nat)          -- top of aws_thread_launch: `thread->detach_state = AWS_THREAD_MANAGED` for a managed launch
  | libReinit                -- aws_thread_initialize_thread_management on the re-initialised library
  deriving DecidableEq, Repr, Inhabited

structure Th where
  status : Status := .notCreated
  code : List Instr := []
  chain : List Nat := []
  ord : Nat := 0
  waiting : Bool := false
  woken : Bool := false
  deadline : Option Nat := none
  waitSeq : Nat := 0
  wFunc : Nat := 0
  wArg : Nat := 0
  named : Bool := false        -- wrapper->name still attached (freed at the top of thread_fn)
  hasName : Bool := false      -- the thread carries the launch name (applied at the top of thread_fn, or inherited from its creator)
  hoSeq : Nat := 0             -- ghost: position in the order in which managed threads handed themselves over
  copyId : Option Nat := none  -- wrapper->thread_copy.thread_id, written by the thread itself at the top of thread_fn
  rErr : Nat := 0
  rVal : Nat := 0
  rTo : Nat := 0
  rTs : Nat := 0
  rNow : Nat := 0
  rWait : Nat := 0
  rOk : Bool := true
  rSnap : List Nat := []
  deriving Inhabited

structure Prog where
  n : Nat
  managed : Nat → Bool
  body : Nat → List Action
  onceRegs : Nat → List Nat := fun _ => []
  failAt : Option Nat := none
  failErr : Nat := 11
  tick : Nat := 0
  start : Nat := 0      -- virtual clock at the start of the run (0 = 1 s)

structure State where
  th : Nat → Th
  count : Nat := 0
  pending : List Nat := []
  lockOwner : Option Nat := none
  timeoutNs : Nat := 0
  now : Nat := 1000000000
  nextOrd : Nat := 1
  creates : Nat := 0
  waitCtr : Nat := 0
  hstate : Nat → HState := fun _ => .notCreated
  detachedS : Nat → Bool := fun _ => false   -- pthread_detach has been called on the slot's thread
  wLive : Nat := 0      -- heap blocks: `struct thread_wrapper`s and the name strings attached to them
  hoCtr : Nat := 0      -- ghost: number of hand-overs so far
  misuse : Nat := 0     -- pthread_join calls on an id that is not the thread's (ESRCH)
  cbLive : Nat := 0
  onceDone : Nat → Bool := fun _ => false    -- pthread_once flags whose init routine has run
  jlog : List Nat := []   -- virtual time at every join-all begin / return event (newest first; printed with the P lines)
  dropped : Nat := 0      -- wrappers that were parked in the pending-join list when the library was re-initialised
  log : List Ev := []
  wlog : List WEv := []

def upd {α : Type} (f : Nat → α) (k : Nat) (v : α) : Nat → α := fun j => if j = k then v else f j

@[simp] theorem upd_same {α : Type} (f : Nat → α) (k : Nat) (v : α) : upd f k v k = v := by simp [upd]
@[simp] theorem upd_other {α : Type} (f : Nat → α) (k j : Nat) (v : α) (h : j ≠ k) : upd f k v j = f j := by
  simp [upd, h]

def init (P : Prog) : State :=
  { th := fun j => if j = 0 then { status := .created, ord := 0 } else {},
    now := if P.start = 0 then 1000000000 else P.start }

/-- `uint64_t` arithmetic of the managed-join deadline (bridged to the C expressions in `Props/C20.lean`) -/
def U64 : Nat := 18446744073709551616

def ETIMEDOUT : Nat := 110

/-- threads eligible for a `pthread_cond_signal`: waiting, not yet woken, deadline not reached -/
def eligible (s : State) (j : Nat) : Bool :=
  (s.th j).waiting && !(s.th j).woken &&
    (match (s.th j).deadline with | none => true | some d => decide (s.now < d))

/-- longest-waiting eligible waiter among slots `< n` -/
def pickWaiter (s : State) : Nat → Option Nat
  | 0 => none
  | n + 1 =>
    match pickWaiter s n with
    | none => if eligible s n then some n else none
    | some j => if eligible s n && decide ((s.th n).waitSeq < (s.th j).waitSeq) then some n else some j

def wev (s : State) (t : Nat) (kind obj : String) (aux : Int) : WEv :=
  { t := (s.th t).ord, kind := kind, obj := obj, aux := aux }

def tname (s : State) (k : Nat) : String := s!"t{(s.th k).ord}"

/-- managed slots that have been created (the threads "launched before" a join-all call) -/
def launchedManaged (P : Prog) (s : State) : Nat → List Nat
  | 0 => []
  | n + 1 => (if P.managed n && decide ((s.th n).status ≠ .notCreated) then [n] else []) ++ launchedManaged P s n

/-- expansion of one user action into micro-instructions (evaluated when the action is reached) -/
def expand (P : Prog) (s : State) (_t : Nat) : Action → List Instr
  | .launch k pin nf nm =>
    [.allocW k nm] ++ (if P.managed k then [.lock, .incCount, .unlock] else []) ++ [.create k pin nf nm]
  | .join k => if s.hstate k = .joinable then [.joinU k] else [.logJoin k]
  | .cleanup k => if s.hstate k = .joinable then [.detach k] else []
  | .atexit _ => []            -- handled directly (purely local)
  | .getCount => [.lock, .readCount, .unlock, .logCount]
  | .joinAll => [.jaBegin, .lock, .readTo, .unlock, .jaInit, .jaLoop]
  | .setTimeout ns => [.lock, .setTo ns, .unlock]
  | .yield => [.yield]
  | .sleep ns => [.sleepUntil (s.now + ns)]
  | .once id => [.onceCall id]
  | .libInit => [.libInit]
  | .getName => [.logName]
  | .launchAttr k e => [.markM k, .logLaunch k e]
  | .libReinit => [.libReinit]

/-- code a managed thread runs after its at-exit chain: `aws_thread_pending_join_add` -/
def handOverCode : List Instr := [.lock, .pjaSwapPush]

def Instr.isSync : Instr → Bool
  | .lock | .unlock | .signal | .create _ _ _ _ | .createRet _ | .joinM _ | .joinU _ | .detach _ | .cwait _ | .cwake
  | .sleepUntil _ | .yield | .onceCall _ => true
  | _ => false

/-- thread `t` continues with `code` after its own fields were changed to `me` -/
def cont (s : State) (t : Nat) (me : Th) (code : List Instr) : State :=
  { s with th := upd s.th t { me with code := code } }

def pushW (s : State) (e : WEv) : State := { s with wlog := e :: s.wlog }
def pushLog (s : State) (e : Ev) : State := { s with log := e :: s.log }

/-- `s_thread_wrapper_destroy`; the invariant shows wLive ≥ 1 here (never a free without a live wrapper) -/
def freeWrapper (s : State) (n : Nat) : State :=
  { s with wLive := s.wLive - n }

/-- one micro-instruction `i` of thread `t` (its continuation is `rest`); `none` = not enabled -/
def exec (P : Prog) (s : State) (t : Nat) (i : Instr) (rest : List Instr) : Option State :=
  let me := s.th t
  match i with
  | .act (.atexit c) =>
    if t ≠ 0 ∧ me.status = .running then   -- tl_wrapper is non-NULL exactly while the function runs
      some (pushLog { cont s t { me with chain := c :: me.chain } rest with cbLive := s.cbLive + 1 } (.reg t c true))
    else some (pushLog (cont s t me rest) (.reg t c false))
  | .act a => some (cont s t me (expand P s t a ++ rest))
  | .joinAndFree [] => some (cont s t me rest)
  | .joinAndFree (k :: l) =>
    some (cont s t me ([.joinM k, .freeW k false, .lock, .decCount, .signal, .unlock, .joinAndFree l] ++ rest))
  | .jaLoop =>
    some (cont s t me ([.lock, (if me.rTs > 0 then Instr.waitForPredInit else Instr.waitPred), .jaCheck] ++ rest))
  | .waitPred =>
    if s.count ≤ 1 then some (cont s t me rest) else some (cont s t me ([.cwait false, .cwake, .waitPred] ++ rest))
  | .waitForPredInit =>
    some (cont s t { me with rWait := (if me.rNow ≤ me.rTs then me.rTs - me.rNow else 0), rErr := 0 } (.waitForPred :: rest))
  | .waitForPred =>
    if me.rErr ≠ 0 ∨ s.count ≤ 1 then some (cont s t me rest)
    else
      let now' := s.now + P.tick
      -- aws_condition_variable_wait_for: `(uint64_t)(time_to_wait + current_sys_time)` after a fresh clock read
      some (cont { s with now := now' } t { me with deadline := some ((me.rWait + now') % U64) } ([.cwait true, .cwake, .waitForPred] ++ rest))
  | .lock =>
    if s.lockOwner = none then some (pushW (cont { s with lockOwner := some t } t me rest) (wev s t "lock" "m0" 0)) else none
  | .unlock =>
    if s.lockOwner = some t then some (pushW (cont { s with lockOwner := none } t me rest) (wev s t "unlock" "m0" 0))
    else some (pushW (cont s t me rest) (wev s t "unlock" "m0" 1))
  | .signal =>
    match pickWaiter s P.n with
    | some j =>
      let s1 := { s with th := upd s.th j { s.th j with woken := true } }
      some (pushW (cont s1 t (s1.th t) rest) (wev s t "signal" "c0" (Int.ofNat (s.th j).ord)))
    | none => some (pushW (cont s t me rest) (wev s t "signal" "c0" (-1)))
  | .incCount => some (cont { s with count := s.count + 1 } t me rest)
  -- `--s_unjoined_thread_count` (uint32_t): the invariant shows count ≥ 1 here, so no wrap-around is modelled
  | .decCount => some (cont { s with count := s.count - 1 } t me rest)
  | .allocW k nm =>
    -- top of aws_thread_launch: a managed launch marks the handle MANAGED before anything can fail
    some (cont { s with wLive := s.wLive + 1 + nm.toNat,
                        hstate := if P.managed k then upd s.hstate k .managed else s.hstate } t me rest)
  | .freeW _ nm => some (cont (freeWrapper s (1 + nm.toNat)) t me rest)
  | .create k pin nf nm =>
    -- pthread_create and the local tail of aws_thread_launch that depends on its result: on failure the count
    -- is rolled back and the wrapper destroyed; if a cpu was requested (`pin`) the launch is then attempted
    -- once more without pinning (the recursive aws_thread_launch with cpu_id = -1), otherwise the error is returned
    let s0 := { s with creates := s.creates + 1 }
    let after (e : Nat) : List Instr :=
      (if P.managed k then [Instr.lock, .decCount, .signal, .unlock] else []) ++ [.freeW k nm] ++
      (if pin then [Instr.allocW k nm] ++ (if P.managed k then [Instr.lock, .incCount, .unlock] else []) ++
          [.create k false (nf - 1) nm]
       else [.logLaunch k e])
    let hfail := if P.managed k then upd s.hstate k .managed else s.hstate
    if 0 < nf ∨ P.failAt = some s.creates then
      let e := if 0 < nf then 22 else P.failErr
      some (pushW (cont { s0 with hstate := hfail } t { me with rErr := e } (after e ++ rest))
        (wev s t "create" "t-1" (Int.ofNat e)))
    else if (s.th k).status ≠ .notCreated ∨ k = 0 ∨ P.n ≤ k ∨ t = k then
      some (cont { s0 with hstate := hfail } t { me with rErr := 22 } (after 22 ++ rest))
    else
      -- a new pthread inherits the name of its creator until it sets its own
      let child : Th := { status := .created, ord := s.nextOrd, wFunc := k, wArg := k, named := nm, hasName := me.hasName }
      let s1 := { s0 with th := upd s0.th k child, nextOrd := s.nextOrd + 1 }
      some (pushW (cont s1 t { me with rErr := 0 } (.createRet k :: .logLaunch k 0 :: rest))
        (wev s t "create" s!"t{s.nextOrd}" 0))
  | .createRet k =>
    -- back in aws_thread_launch: managed threads stay unjoinable from outside, others become JOINABLE
    some (pushW (cont { s with hstate := upd s.hstate k (if P.managed k then .managed else .joinable) } t me rest)
      (wev s t "created" (tname s k) 0))
  | .logLaunch k e => some (pushLog (cont s t me rest) (.launchRet k t e))
  | .joinM k =>
    -- aws_thread_join(&wrapper->thread_copy): the id joined is the one stored in k's wrapper
    if (s.th k).copyId = some k then
      if (s.th k).status = .exited ∧ t ≠ k then
        let s1 := { s with th := upd s.th k { s.th k with status := .joined } }
        some (pushW (cont s1 t (s1.th t) rest) (wev s t "join" (tname s k) 0))
      else none
    else
      -- an id that is not k's thread (e.g. still 0): pthread_join fails with ESRCH, nothing is joined
      some (pushW (cont { s with misuse := s.misuse + 1 } t me rest) (wev s t "join" "t-1" 3))
  | .joinU k =>
    -- pthread_join from aws_thread_join.  A refused join (own thread: EDEADLK; detached thread: EINVAL) returns the
    -- error and leaves the handle's detach_state and everything else as it was
    if t = k then
      some (pushW (pushLog (cont s t me rest) (.joinFail k t 35 true)) (wev s t "join" (tname s k) 35))
    else if s.detachedS k = true then
      some (pushW (pushLog (cont s t me rest) (.joinFail k t 22 (decide (2 ≤ (s.th k).status.rank)))) (wev s t "join" (tname s k) 22))
    else if (s.th k).status = .exited then
      let s1 := { s with th := upd s.th k { s.th k with status := .joined }, hstate := upd s.hstate k .joinCompleted }
      some (pushW (pushLog (cont s1 t (s1.th t) rest) (.joinRet k t)) (wev s t "join" (tname s k) 0))
    else none
  | .detach k =>
    if s.detachedS k = true then some (pushW (cont s t me rest) (wev s t "detach" (tname s k) 22))
    else some (pushW (cont { s with detachedS := upd s.detachedS k true } t me rest) (wev s t "detach" (tname s k) 0))
  | .cwait timed =>
    let me' := { me with waiting := true, woken := false, waitSeq := s.waitCtr + 1,
                         deadline := if timed then me.deadline else none }
    some (pushW (cont { s with lockOwner := none, waitCtr := s.waitCtr + 1 } t me' rest) (wev s t "wait" "c0" 0))
  | .cwake =>
    let expired := match me.deadline with | none => false | some d => decide (d ≤ s.now)
    if s.lockOwner = none ∧ me.waiting = true ∧ (me.woken = true ∨ expired = true) then
      let r := if me.woken then 0 else ETIMEDOUT
      some (pushW (cont { s with lockOwner := some t } t
          { me with waiting := false, woken := false, deadline := none, rErr := r } rest)
        (wev s t "wake" "c0" (Int.ofNat r)))
    else none
  | .sleepUntil u => if u ≤ s.now then some (pushW (cont s t me rest) (wev s t "sleep" "-" 0)) else none
  | .yield => some (pushW (cont s t me rest) (wev s t "yield" "-" 0))
  | .onceCall id =>
    -- pthread_once: the first caller runs the init routine (here: its at-exit registrations, which have no
    -- schedule point, so "in progress" is never visible to another thread); later callers return at once
    if s.onceDone id then
      some (pushW (cont s t me rest) (wev s t "once" s!"f{id}" 0))
    else
      let regs : List Instr := match P.onceRegs id with
        | [] => []
        | [a] => [.act (.atexit a)]
        | a :: b :: _ => [.act (.atexit a), .act (.atexit b)]
      some (pushW (cont { s with onceDone := upd s.onceDone id true } t me (regs ++ rest)) (wev s t "once" s!"f{id}" 1))
  -- aws_common_library_init when s_common_library_initialized is already set: nothing happens; in particular the
  -- managed-thread count and the pending-join list are left alone
  | .libInit => some (cont s t me rest)
  | .logName => some (pushLog (cont s t me rest) (.name t me.hasName))
  | .logJoin k => some (pushLog (cont s t me rest) (.joinSkip k t (s.hstate k) (decide (2 ≤ (s.th k).status.rank))))
  | .readCount => some (cont s t { me with rVal := s.count } rest)
  | .logCount => some (pushLog (cont s t me rest) (.count t me.rVal))
  | .setTo ns => some (cont { s with timeoutNs := ns } t me rest)
  | .jaBegin => some (pushLog (cont { s with jlog := s.now :: s.jlog } t { me with rSnap := launchedManaged P s P.n } rest) (.joinAllBegin t))
  | .readTo => some (cont s t { me with rTo := s.timeoutNs } rest)
  | .jaInit =>
    if me.rTo > 0 then
      let now' := s.now + P.tick
      some (cont { s with now := now' } t { me with rNow := now', rTs := (now' + me.rTo) % U64, rOk := true } rest)
    else some (cont s t { me with rNow := 0, rTs := 0, rOk := true } rest)
  | .jaCheck =>
    let now' := s.now + P.tick
    let timedOut := decide (me.rTs ≠ 0) && decide (me.rTs ≤ now')
    let done := decide (s.count = 0) || timedOut
    let ok := me.rOk && !timedOut
    some (cont { s with now := now', pending := [] } t { me with rNow := now', rOk := ok }
      ([.unlock, .joinAndFree s.pending] ++ (if done then [Instr.jaRet ok me.rSnap] else [Instr.jaLoop]) ++ rest))
  | .jaRet ok snap => some (pushLog (cont { s with jlog := s.now :: s.jlog } t me rest) (.joinAllRet t ok snap))
  | .markM k => some (cont { s with hstate := if P.managed k then upd s.hstate k .managed else s.hstate } t me rest)
  -- /repo: `aws_linked_list_init(&s_pending_join_managed_threads)`, the count is left alone.  With an empty list
  -- (always, unless a managed thread handed itself over between the final swap of a TIMED-OUT join-all and this
  -- point) that changes nothing.  Wrappers parked in the list at this moment are dropped by /repo (never joined,
  -- leaked, the count never comes down: recorded as an observation); the model counts them in `dropped`, which
  -- the driver reports, and does not follow /repo any further on such an execution
  | .libReinit => some (cont { s with dropped := s.dropped + s.pending.length } t me rest)
  | .pjaSwapPush =>
    some (cont { s with pending := [t], hoCtr := s.hoCtr + 1 } t
      { me with status := if me.status = .atexitDone then .handedOver else me.status, hoSeq := s.hoCtr + 1 }
      ([.unlock, .joinAndFree s.pending] ++ rest))

def exitStep (s : State) (t : Nat) : State :=
  pushW { s with th := upd s.th t { s.th t with status := .exited } } (wev s t "exit" "-" 0)

/-- first step of a created thread (top of `thread_fn`): copy the wrapper, call the function -/
def startStep (P : Prog) (s : State) (t : Nat) : State :=
  let me := s.th t
  -- top of thread_fn: store the own id into the wrapper's thread copy, apply and release the name
  pushW (pushLog { s with th := upd s.th t { me with status := .running, code := (P.body me.wFunc).map Instr.act,
                                                      copyId := some t, named := false, hasName := me.named || me.hasName },
                          wLive := s.wLive - me.named.toNat }
    (.run t me.wArg)) (wev s t "start" "-" 0)

/-- the thread function returned: unmanaged threads free their wrapper here -/
def funcEndStep (P : Prog) (s : State) (t : Nat) : State :=
  let s1 := pushLog { s with th := upd s.th t { s.th t with status := .funcDone } } (.done t)
  if P.managed t then s1 else freeWrapper s1 1

/-- one iteration of the at-exit loop of `thread_fn` (LIFO), or leaving it -/
def atexitStep (P : Prog) (s : State) (t : Nat) : State :=
  let me := s.th t
  match me.chain with
  | [] => { s with th := upd s.th t { me with status := .atexitDone, code := if P.managed t then handOverCode else [] } }
  | c :: cs => pushLog { s with th := upd s.th t { me with chain := cs }, cbLive := s.cbLive - 1 } (.cb t c t)

/-- one micro-step of thread `t` -/
def step (P : Prog) (s : State) (t : Nat) : Option State :=
  match (s.th t).status with
  | .created => some (startStep P s t)
  | .running =>
    match (s.th t).code with
    | [] => if t = 0 then some (exitStep s t) else some (funcEndStep P s t)
    | i :: rest => exec P s t i rest
  | .funcDone => some (atexitStep P s t)
  | .atexitDone | .handedOver =>
    match (s.th t).code with
    | [] => some (exitStep s t)
    | i :: rest => exec P s t i rest
  | _ => none

/-- is the next micro-step of `t` one of the scheduler's sync steps? -/
def nextIsSync (s : State) (t : Nat) : Bool :=
  let me := s.th t
  match me.status with
  | .created => true
  | .running => match me.code with | [] => decide (t = 0) | i :: _ => i.isSync
  | .funcDone => false
  | .atexitDone | .handedOver => match me.code with | [] => true | i :: _ => i.isSync
  | _ => false

/-- transition labels: a thread micro-step, virtual time moving forward, a spurious condvar wake-up -/
inductive Label where
  | thr (t : Nat)
  | tick (d : Nat)
  | spur (t : Nat)
  deriving Repr

def stepL (P : Prog) (s : State) : Label → Option State
  | .thr t => step P s t
  | .tick d => some { s with now := s.now + d }
  | .spur t => if eligible s t then some { s with th := upd s.th t { s.th t with woken := true } } else none

inductive Reachable (P : Prog) : State → Prop where
  | init : Reachable P (init P)
  | step {s s' : State} (l : Label) : Reachable P s → stepL P s l = some s' → Reachable P s'

/-- programs considered: slot 0 (the process main thread) exists and is not a managed thread -/
structure WF (P : Prog) : Prop where
  n_pos : 0 < P.n
  main : P.managed 0 = false

/-- every thread slot has finished or was never created -/
def AllFinished (P : Prog) (s : State) : Prop :=
  ∀ k, k < P.n → (s.th k).status = .notCreated ∨ (s.th k).status = .exited ∨ (s.th k).status = .joined

/-- `launch k …` occurs in the body of slot `j` -/
def LaunchIn (P : Prog) (j k : Nat) : Prop := ∃ pin nf nm, Action.launch k pin nf nm ∈ P.body j

/-- programs for the progress property: only the main thread calls join-all / sets the timeout (as
`aws_common_library_clean_up` does), and a manual thread is joined at most once, by the thread that launched it -/
structure WFProgress (P : Prog) : Prop extends WF P where
  joinAllMain : ∀ k, k ≠ 0 → Action.joinAll ∉ P.body k
  joinOnce : ∀ k, ((List.range P.n).flatMap (fun j => (P.body j).filter (· == Action.join k))).length ≤ 1
  launchOnce : ∀ k, ((List.range P.n).flatMap (fun j => (P.body j).filter (fun a => match a with | .launch k' _ _ _ => k' == k | _ => false))).length ≤ 1
  /-- a manual thread is joined only by the thread that launches it (no `pthread_join` cycles among user threads:
      two threads joining each other deadlock in plain pthreads as well) -/
  joinByLauncher : ∀ j k, j < P.n → Action.join k ∈ P.body j → LaunchIn P j k

end AwsVerif.Threads
