/-!
# Reference codecs for C05 — written from the RFCs, independent of `/repo`'s tables

* RFC 4648 §4 base64 directly over 6-bit groups, alphabet as a literal, `=` padding.
* RFC 4648 §8 base16 with the lower-case digits the library documents.
* RFC 3629 UTF-8 (the ABNF of §4), with the upper bound of the 4-byte rows as a parameter so
  that the deviation of the implementation (no U+10FFFF limit) can be stated exactly.
This file imports nothing from the generated layer or the model.
-/
namespace AwsVerif.CodecSpec

/-- the base64 alphabet of RFC 4648 Table 1 -/
def alphabet : List UInt8 :=
  "ABCDEFGHIJKLMNOPQRSTUVWXYZabcdefghijklmnopqrstuvwxyz0123456789+/".toList.map (fun c => UInt8.ofNat c.toNat)

/-- character for a 6-bit group -/
def ch (i : Nat) : UInt8 := alphabet.getD i 0

/-- '=' -/
def pad : UInt8 := 61

/-- RFC 4648 §4: 24-bit groups → four 6-bit groups; a final group of 8 bits → two characters and
"==", of 16 bits → three characters and "=" (missing bits are zero). -/
def specEncode : List UInt8 → List UInt8
  | [] => []
  | [a] => [ch (a.toNat / 4), ch (a.toNat % 4 * 16), pad, pad]
  | [a, b] => [ch (a.toNat / 4), ch (a.toNat % 4 * 16 + b.toNat / 16), ch (b.toNat % 16 * 4), pad]
  | a :: b :: c :: rest =>
    ch (a.toNat / 4) :: ch (a.toNat % 4 * 16 + b.toNat / 16) :: ch (b.toNat % 16 * 4 + c.toNat / 64) ::
      ch (c.toNat % 64) :: specEncode rest

/-- lower-case base16 digits -/
def hexDigits : List UInt8 := "0123456789abcdef".toList.map (fun c => UInt8.ofNat c.toNat)
def hexDigit (i : Nat) : UInt8 := hexDigits.getD i 0

def specHexEncode : List UInt8 → List UInt8
  | [] => []
  | b :: rest => hexDigit (b.toNat / 16) :: hexDigit (b.toNat % 16) :: specHexEncode rest

/-- value of a base16 digit, either case -/
def specHexVal (c : UInt8) : Option Nat :=
  let n := c.toNat
  if 48 ≤ n ∧ n ≤ 57 then some (n - 48)          -- '0'..'9'
  else if 97 ≤ n ∧ n ≤ 102 then some (n - 87)    -- 'a'..'f'
  else if 65 ≤ n ∧ n ≤ 70 then some (n - 55)     -- 'A'..'F'
  else none

/-- big-endian pairs of digits -/
def specHexPairs : List UInt8 → Option (List UInt8)
  | [] => some []
  | [_] => none
  | hi :: lo :: rest =>
    match specHexVal hi, specHexVal lo, specHexPairs rest with
    | some h, some l, some r => some (UInt8.ofNat (h * 16 + l) :: r)
    | _, _, _ => none

/-- the library's documented rule: text of odd length is read as if a '0' were prepended -/
def specHexDecode (t : List UInt8) : Option (List UInt8) :=
  if t.length % 2 = 1 then specHexPairs (48 :: t) else specHexPairs t

/-! ### UTF-8 (RFC 3629 §4)

```
UTF8-1 = %x00-7F
UTF8-2 = %xC2-DF UTF8-tail
UTF8-3 = %xE0 %xA0-BF UTF8-tail / %xE1-EC 2( UTF8-tail ) / %xED %x80-9F UTF8-tail / %xEE-EF 2( UTF8-tail )
UTF8-4 = %xF0 %x90-BF 2( UTF8-tail ) / %xF1-F3 3( UTF8-tail ) / %xF4 %x80-8F 2( UTF8-tail )
UTF8-tail = %x80-BF
```
`relaxed = true` replaces the last two alternatives of UTF8-4 by `%xF1-F7 3( UTF8-tail )`, i.e.
drops the U+10FFFF limit and nothing else. -/

def isTail (b : Nat) : Bool := 0x80 ≤ b && b ≤ 0xBF

/-- one UTF-8 sequence at the head of the text: its scalar value and the text after it -/
def specSeq (relaxed : Bool) : List UInt8 → Option (Nat × List UInt8)
  | [] => none
  | b0 :: rest =>
    let a := b0.toNat
    if a ≤ 0x7F then some (a, rest)
    else if 0xC2 ≤ a ∧ a ≤ 0xDF then
      match rest with
      | b1 :: rest' =>
        if isTail b1.toNat then some ((a - 0xC0) * 64 + (b1.toNat - 0x80), rest') else none
      | _ => none
    else if 0xE0 ≤ a ∧ a ≤ 0xEF then
      match rest with
      | b1 :: b2 :: rest' =>
        let x := b1.toNat
        let second := if a = 0xE0 then (0xA0 ≤ x ∧ x ≤ 0xBF) else if a = 0xED then (0x80 ≤ x ∧ x ≤ 0x9F) else isTail x
        if second ∧ isTail b2.toNat then
          some ((a - 0xE0) * 4096 + (x - 0x80) * 64 + (b2.toNat - 0x80), rest')
        else none
      | _ => none
    else if 0xF0 ≤ a ∧ a ≤ (if relaxed then 0xF7 else 0xF4) then
      match rest with
      | b1 :: b2 :: b3 :: rest' =>
        let x := b1.toNat
        let second := if a = 0xF0 then (0x90 ≤ x ∧ x ≤ 0xBF) else if a = 0xF4 ∧ !relaxed then (0x80 ≤ x ∧ x ≤ 0x8F) else isTail x
        if second ∧ isTail b2.toNat ∧ isTail b3.toNat then
          some ((a - 0xF0) * 262144 + (x - 0x80) * 4096 + (b2.toNat - 0x80) * 64 + (b3.toNat - 0x80), rest')
        else none
      | _ => none
    else none

/-- `UTF8-octets = *( UTF8-char )`; the first argument bounds the number of sequences (every
sequence has at least one byte, so the length of the text is enough) -/
def specUtf8Aux (relaxed : Bool) : Nat → List UInt8 → Option (List Nat)
  | _, [] => some []
  | 0, _ :: _ => none
  | fuel + 1, b :: bs =>
    match specSeq relaxed (b :: bs) with
    | some (cp, rest) => (specUtf8Aux relaxed fuel rest).map (cp :: ·)
    | none => none

/-- scalar values of a text, or `none` if it is not UTF-8 -/
def specUtf8 (relaxed : Bool) (bs : List UInt8) : Option (List Nat) := specUtf8Aux relaxed bs.length bs

end AwsVerif.CodecSpec
