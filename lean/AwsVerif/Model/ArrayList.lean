/-!
Byte-level model of `include/aws/common/array_list.inl` and `source/array_list.c`.

* `data : Region` is the backing store; `current_size = data.length`.  A byte is `Option UInt8`,
  `none` = never written since the block was obtained (fresh allocation / caller's raw array).
  Growth by `ensure_capacity` appends `none`s (memcpy of the old block into a fresh one), so gap
  elements created by `set_at` past the end and stale bytes left by `pop_front_n`/`clear`/`erase`
  are reproduced exactly, not guessed.
* `list->data == NULL` is identified with `data.length = 0` (holds in every state the API
  produces: dynamic lists with `current_size = 0` have `data = NULL`, static lists have
  `item_count > 0 ∧ item_size > 0`).
* Every `memcpy/memmove/memset` of the C goes through `Region.read/write/move`, which return `none`
  when the access leaves `[0, current_size)`; the operation then reports `Err.fault`.  Fatal
  preconditions (`AWS_FATAL_PRECONDITION`, an abort in every build) also report `Err.fault`.
* Sizes are `Nat`; where the C wraps (`current_size << 1`) or checks overflow (`aws_add_size_checked`,
  `aws_mul_size_checked`) this is written out against `SIZE_MAX = 2^64-1`.  Offsets
  `item_size * index` are computed only after a bound check against `length`, they are not wrapped
  (products are written `index * item_size` throughout).
* Allocation always succeeds (`aws_mem_acquire` aborts otherwise).
-/
namespace AwsVerif.ArrayList

abbrev Byte := Option UInt8
abbrev Region := List Byte

def SIZE_MAX : Nat := 2^64 - 1

namespace Region

/-- the `n` bytes at `off`; `none` = access outside the block -/
def read (d : Region) (off n : Nat) : Option (List Byte) :=
  if off + n ≤ d.length then some ((d.drop off).take n) else none

/-- store `bs` at `off`; `none` = access outside the block -/
def write (d : Region) (off : Nat) (bs : List Byte) : Option Region :=
  if off + bs.length ≤ d.length then some (d.take off ++ bs ++ d.drop (off + bs.length)) else none

/-- `memmove(d+dst, d+src, n)` -/
def move (d : Region) (dst src n : Nat) : Option Region :=
  match d.read src n with
  | none => none
  | some bs => d.write dst bs

end Region

inductive Err where
  | listEmpty | invalidIndex | overflow | exceedsMax | staticCantShrink | destTooSmall
  | fault   -- out-of-block access or fatal precondition: the C would crash / abort
deriving DecidableEq, Repr

inductive Rc where
  | ok
  | err (e : Err)
deriving DecidableEq, Repr

structure AL where
  data     : Region
  length   : Nat
  itemSize : Nat
  dyn      : Bool      -- `alloc != NULL`
deriving Repr

def AL.currentSize (l : AL) : Nat := l.data.length
def AL.capacity (l : AL) : Nat := l.data.length / l.itemSize

/-- `aws_array_list_init_dynamic` (item_size > 0 is a fatal precondition). -/
def initDynamic (n isz : Nat) : Except Err AL :=
  if isz = 0 then .error .fault
  else if n * isz > SIZE_MAX then .error .overflow
  else .ok { data := List.replicate (n * isz) none, length := 0, itemSize := isz, dyn := true }

/-- `aws_array_list_init_static` over a raw array of `count * isz` bytes (content not written). -/
def initStatic (count isz : Nat) : Except Err AL :=
  if isz = 0 ∨ count = 0 ∨ count * isz > SIZE_MAX then .error .fault
  else .ok { data := List.replicate (count * isz) none, length := 0, itemSize := isz, dyn := false }

/-- `aws_array_list_init_static_from_initialized`: like `init_static`, over a raw array that already holds
`count` elements (`raw` is its content) -/
def initStaticFromInitialized (raw : Region) (count isz : Nat) : Except Err AL :=
  if isz = 0 ∨ count = 0 ∨ count * isz > SIZE_MAX ∨ raw.length ≠ count * isz then .error .fault
  else .ok { data := raw, length := count, itemSize := isz, dyn := false }

/-- `aws_array_list_is_valid` on the raw fields (`dataNull`: `data == NULL`) -/
def isValidRaw (length currentSize itemSize : Nat) (dataNull : Bool) : Bool :=
  let requiredSizeIsValid := decide (length * itemSize ≤ SIZE_MAX)
  let currentSizeIsValid := decide (currentSize ≥ (length * itemSize) % 2^64)
  let dataIsValid := (if currentSize = 0 then dataNull else true) && (if currentSize ≠ 0 then !dataNull else true)
  let itemSizeIsValid := decide (itemSize ≠ 0)
  requiredSizeIsValid && currentSizeIsValid && dataIsValid && itemSizeIsValid

def isValid (l : AL) : Bool := isValidRaw l.length l.data.length l.itemSize (l.data.length == 0)

/-- `aws_array_list_get_at_ptr`: the byte offset of the element -/
def getAtPtr (l : AL) (index : Nat) : Except Err Nat :=
  if l.length > index then .ok (index * l.itemSize) else .error .invalidIndex

/-- `aws_array_list_calc_necessary_size` -/
def calcNecessarySize (isz index : Nat) : Except Err Nat :=
  if index + 1 > SIZE_MAX then .error .overflow
  else if (index + 1) * isz > SIZE_MAX then .error .overflow
  else .ok ((index + 1) * isz)

/-- the growth rule of `aws_array_list_ensure_capacity`:
`next_allocation_size = current_size << 1` (wrapping), `new_size = max(next_allocation_size, necessary_size)`
(tied to the source text by `c09_gen_growth`) -/
def growthNewSize (currentSize necessarySize : Nat) : Nat :=
  let next := (currentSize * 2) % 2^64          -- current_size << 1
  if next > necessarySize then next else necessarySize

/-- `aws_array_list_ensure_capacity` -/
def ensureCapacity (l : AL) (index : Nat) : Except Err AL :=
  match calcNecessarySize l.itemSize index with
  | .error e => .error e
  | .ok nec =>
    if l.data.length < nec then
      if !l.dyn then .error .invalidIndex
      else
        let newSize := growthNewSize l.data.length nec
        if newSize < l.data.length then .error .exceedsMax
        else .ok { l with data := l.data ++ List.replicate (newSize - l.data.length) none }
    else .ok l

/-- `aws_array_list_set_at`; `v` is the `item_size` bytes at `val`. -/
def setAt (l : AL) (v : List UInt8) (index : Nat) : AL × Rc :=
  match ensureCapacity l index with
  | .error e => (l, .err e)
  | .ok l1 =>
    if l1.data.length = 0 then (l1, .err .fault) else
    match l1.data.write (index * l1.itemSize) (v.map some) with
    | none => (l1, .err .fault)
    | some d =>
      let l2 := { l1 with data := d }
      if index ≥ l2.length then
        if index + 1 > SIZE_MAX then (l2, .err .overflow)
        else ({ l2 with length := index + 1 }, .ok)
      else (l2, .ok)

/-- `aws_array_list_push_back` (with the error-code rewrite for static storage). -/
def pushBack (l : AL) (v : List UInt8) : AL × Rc :=
  match setAt l v l.length with
  | (l', .err .invalidIndex) => if !l'.dyn then (l', .err .exceedsMax) else (l', .err .invalidIndex)
  | r => r

/-- `aws_array_list_push_front` -/
def pushFront (l : AL) (v : List UInt8) : AL × Rc :=
  let orig := l.length
  match ensureCapacity l orig with
  | .error e => if e = .invalidIndex ∧ !l.dyn then (l, .err .exceedsMax) else (l, .err e)
  | .ok l1 =>
    let moved := if orig ≠ 0 then l1.data.move l1.itemSize 0 (orig * l1.itemSize) else some l1.data
    match moved with
    | none => (l1, .err .fault)
    | some d1 =>
      match d1.write 0 (v.map some) with
      | none => (l1, .err .fault)
      | some d2 => ({ l1 with data := d2, length := l1.length + 1 }, .ok)

/-- `aws_array_list_clear` -/
def clear (l : AL) : AL := if l.data.length ≠ 0 then { l with length := 0 } else l

/-- `aws_array_list_pop_front_n` -/
def popFrontN (l : AL) (n : Nat) : AL × Rc :=
  if n ≥ l.length then (clear l, .ok)
  else if n > 0 then
    let popping := n * l.itemSize
    let remItems := l.length - n
    let remBytes := remItems * l.itemSize
    match l.data.move 0 popping remBytes with
    | none => (l, .err .fault)
    | some d => ({ l with data := d, length := remItems }, .ok)
  else (l, .ok)

/-- `aws_array_list_pop_front` -/
def popFront (l : AL) : AL × Rc :=
  if l.length > 0 then ((popFrontN l 1).1, (popFrontN l 1).2) else (l, .err .listEmpty)

/-- `aws_array_list_pop_back` (zeroes the vacated slot) -/
def popBack (l : AL) : AL × Rc :=
  if l.length > 0 then
    if l.data.length = 0 then (l, .err .fault) else
    match l.data.write ((l.length - 1) * l.itemSize) (List.replicate l.itemSize (some 0)) with
    | none => (l, .err .fault)
    | some d => ({ l with data := d, length := l.length - 1 }, .ok)
  else (l, .err .listEmpty)

/-- the callers below ignore the return code of the inner pop (only a crash propagates) -/
def okUnlessFault : Rc → Rc
  | .err .fault => .err .fault
  | _ => .ok

/-- `aws_array_list_erase`: front / back / middle -/
def erase (l : AL) (index : Nat) : AL × Rc :=
  let length := l.length
  if index ≥ length then (l, .err .invalidIndex)
  else if index = 0 then ((popFront l).1, okUnlessFault (popFront l).2)
  else if index = length - 1 then ((popBack l).1, okUnlessFault (popBack l).2)
  else
    let item := index * l.itemSize
    let trailing := ((length - index) - 1) * l.itemSize
    match l.data.move item (item + l.itemSize) trailing with
    | none => (l, .err .fault)
    | some d => ((popBack { l with data := d }).1, okUnlessFault (popBack { l with data := d }).2)

def front (l : AL) : Except Err (List Byte) :=
  if l.length > 0 then
    match l.data.read 0 l.itemSize with | none => .error .fault | some v => .ok v
  else .error .listEmpty

def back (l : AL) : Except Err (List Byte) :=
  if l.length > 0 then
    match l.data.read ((l.length - 1) * l.itemSize) l.itemSize with | none => .error .fault | some v => .ok v
  else .error .listEmpty

def getAt (l : AL) (index : Nat) : Except Err (List Byte) :=
  if l.length > index then
    match l.data.read (index * l.itemSize) l.itemSize with | none => .error .fault | some v => .ok v
  else .error .invalidIndex

/-! ### `aws_array_list_mem_swap`: 128-byte slices, then the remainder -/

def SLICE : Nat := 128

/-- temp := item1[0..n); item1[0..n) := item2[0..n); item2[0..n) := temp -/
def swapSlice (d : Region) (o1 o2 n : Nat) : Option Region :=
  match d.read o1 n with
  | none => none
  | some tmp =>
    match d.read o2 n with
    | none => none
    | some s =>
      match d.write o1 s with
      | none => none
      | some d1 => d1.write o2 tmp

/-- the `for` loop: `k` slices, both pointers advance by `SLICE` -/
def swapLoop (d : Region) (o1 o2 : Nat) : Nat → Option (Region × Nat × Nat)
  | 0 => some (d, o1, o2)
  | k + 1 =>
    match swapSlice d o1 o2 SLICE with
    | none => none
    | some d' => swapLoop d' (o1 + SLICE) (o2 + SLICE) k

def memSwap (d : Region) (o1 o2 itemSize : Nat) : Option Region :=
  match swapLoop d o1 o2 (itemSize / SLICE) with
  | none => none
  | some (d', p1, p2) =>
    let remainder := itemSize &&& (SLICE - 1)
    if remainder ≠ 0 then swapSlice d' p1 p2 remainder else some d'

/-- `aws_array_list_swap` -/
def swap (l : AL) (a b : Nat) : AL × Rc :=
  if ¬ (a < l.length ∧ b < l.length) then (l, .err .fault)
  else if a = b then (l, .ok)
  else
    match memSwap l.data (a * l.itemSize) (b * l.itemSize) l.itemSize with
    | none => (l, .err .fault)
    | some d => ({ l with data := d }, .ok)

/-- `aws_array_list_shrink_to_fit` -/
def shrinkToFit (l : AL) : AL × Rc :=
  if l.dyn then
    let ideal := l.length * l.itemSize
    if ideal > SIZE_MAX then (l, .err .overflow)
    else if ideal < l.data.length then
      if ideal > 0 then
        match l.data.read 0 ideal with
        | none => (l, .err .fault)
        | some d => ({ l with data := d }, .ok)
      else ({ l with data := [] }, .ok)
    else (l, .ok)
  else (l, .err .staticCantShrink)

/-- allocator balance of `aws_array_list_shrink_to_fit` as written: when `ideal_size = 0 < current_size` the
branch that acquires the new block and releases the old one is skipped, `data` is set to NULL and the old
block is never released (one block leaked).  `true` = this call leaks the list's block. -/
def shrinkLeaks (l : AL) : Bool :=
  l.dyn && decide (l.length * l.itemSize ≤ SIZE_MAX) && decide (l.length * l.itemSize < l.data.length) &&
    decide (l.length * l.itemSize = 0)

/-- `aws_array_list_copy from to`: returns the new `to` -/
def copy (frm to : AL) : AL × Rc :=
  if frm.itemSize ≠ to.itemSize ∨ frm.data.length = 0 then (to, .err .fault) else
  let copySize := frm.length * frm.itemSize
  if copySize > SIZE_MAX then (to, .err .overflow)
  else if to.data.length ≥ copySize then
    if copySize > 0 then
      match frm.data.read 0 copySize with
      | none => (to, .err .fault)
      | some bs =>
        match to.data.write 0 bs with
        | none => (to, .err .fault)
        | some d => ({ to with data := d, length := frm.length }, .ok)
    else ({ to with length := frm.length }, .ok)
  else if to.dyn then
    match frm.data.read 0 copySize with
    | none => (to, .err .fault)
    | some bs => ({ to with data := bs, length := frm.length }, .ok)
  else (to, .err .destTooSmall)

/-- `aws_array_list_swap_contents`: returns (new a, new b) -/
def swapContents (a b : AL) : (AL × AL) × Rc :=
  if ¬ (a.dyn ∧ b.dyn ∧ a.itemSize = b.itemSize) then ((a, b), .err .fault)
  else ((b, a), .ok)

/-! ### sort

`qsort(data, length, item_size, cmp)` is libc; it is specified as producing the sorted permutation
of the `length` elements.  The comparator of the harness is `memcmp` on whole elements (a total
order on elements, so the result is unique); here it is the lexicographic order on the byte
values, an unwritten byte being read as `uninitByte` (the fill pattern of the harness allocator —
the property says nothing about sorting lists that contain unwritten elements). -/

def uninitByte : UInt8 := 0xCD

def byteVal : Byte → Nat
  | none => uninitByte.toNat
  | some b => b.toNat

def elemLe : List Byte → List Byte → Bool
  | [], _ => true
  | _ :: _, [] => false
  | a :: as, b :: bs => if byteVal a < byteVal b then true else if byteVal b < byteVal a then false else elemLe as bs

/-- split the first `k * isz` bytes into `k` elements -/
def chunks (isz : Nat) : Nat → Region → List (List Byte)
  | 0, _ => []
  | k + 1, d => d.take isz :: chunks isz k (d.drop isz)

def sort (l : AL) : AL :=
  if l.data.length ≠ 0 then
    let n := l.length * l.itemSize
    { l with data := ((chunks l.itemSize l.length l.data).mergeSort (fun a b => elemLe a b)).flatten ++ l.data.drop n }
  else l

end AwsVerif.ArrayList
