import AwsVerif.Gen.HashConst
import AwsVerif.Gen.Tolower
/-!
Model of `source/hash_table.c` (Robin Hood open addressing, backward-shift deletion, iterators)
and of the case-insensitive hash / equality pair of `source/byte_buf.c`.

* A slot is `Option Entry`; `none` is the C slot with `hash_code == 0`.
* Keys are `null` or `(ident, ptr)`: the user's `equals_fn` compares `ident`, the user's
  `hash_fn` is an arbitrary function `h : Nat → Nat` of `ident` (taken mod 2^64), `ptr` tells two
  equal keys apart (the destructor / overwrite rules speak about pointers).
* Values are `Option Nat` (`none` = NULL).
* 64-bit wrap-around is written out: `% 2^64` then `&&& mask`, exactly where the C relies on it.
* Loops take a fuel argument (callers pass `size`, `foreach` passes `2*size+1`); running out of
  fuel is a distinguished result (`none` / `.outOfFuel`) which the theorems show unreachable.
-/
namespace AwsVerif.HashTable

def SIZE_MAX : Nat := 2^64 - 1
def W64 : Nat := 2^64

inductive Key where
  | null
  | mk (ident ptr : Nat)
deriving DecidableEq, Repr

/-- what the user's equality sees of a key (`none` for the NULL key) -/
def Key.id : Key → Option Nat
  | .null => none
  | .mk i _ => some i

abbrev Val := Option Nat

structure Entry where
  hash : Nat
  key : Key
  val : Val
deriving DecidableEq, Repr

abbrev Slots := Array (Option Entry)

/-- read slot `i` (`none` = empty, also outside the array: never happens under the invariant) -/
def rd (s : Slots) (i : Nat) : Option Entry := s.getD i none
def wr (s : Slots) (i : Nat) (v : Option Entry) : Slots := s.setIfInBounds i v

structure Table where
  slots : Slots
  size : Nat
  entryCount : Nat
  maxLoad : Nat
  mask : Nat
  dk : Bool      -- destroy_key_fn != NULL
  dv : Bool      -- destroy_value_fn != NULL
deriving DecidableEq, Repr

/-- destructor callback invocations -/
inductive Ev where
  | k (key : Key)
  | v (val : Val)
deriving DecidableEq, Repr

inductive Err where
  | overflow      -- AWS_ERROR_OVERFLOW_DETECTED
  | unknown       -- AWS_ERROR_UNKNOWN
  | fuel          -- never (theorem)
deriving DecidableEq, Repr

/-! ### s_hash_for, s_safe_eq_check -/

def hashFor (h : Nat → Nat) : Key → Nat
  | .null => 42
  | .mk i _ => let c := h i % W64; if c = 0 then 1 else c

/-- `s_safe_eq_check(equals_fn, a, b)` with `equals_fn` = equality of `ident` -/
def keysEq (a b : Key) : Bool :=
  if a = b then true
  else match a, b with
    | .mk i _, .mk j _ => i == j
    | _, _ => false

/-! ### index arithmetic as the C writes it -/

/-- `(hash_code + probe_idx) & mask` in uint64_t -/
def idxOf (mask hash probe : Nat) : Nat := ((hash + probe) % W64) &&& mask
/-- `(index - hash_code) & mask` in uint64_t -/
def probeOf (mask index hash : Nat) : Nat := ((index + W64 - hash % W64) % W64) &&& mask

/-! ### sizes: aws_round_up_to_power_of_two, s_update_template_size, hash_table_state_required_bytes -/

def SIZE_MAX_POWER_OF_TWO : Nat := 2^63

/-- smallest power of two ≥ n, searched upwards from `p` (fuel 64 suffices from p = 1) -/
def pow2From : Nat → Nat → Nat → Nat
  | 0, p, _ => p
  | f+1, p, n => if n ≤ p then p else pow2From f (2*p) n

/-- `aws_round_up_to_power_of_two` (n = 0 gives 1) -/
def roundUpPow2 (n : Nat) : Except Err Nat :=
  if n = 0 then .ok 1
  else if n > SIZE_MAX_POWER_OF_TWO then .error .overflow
  else .ok (pow2From 64 1 n)

/-- `(size_t)(max_load_factor * (double)size)` for `size` a power of two: the double literal is
`loadFactorNum / loadFactorDen` exactly (generated from the source literal), multiplying it by a
power of two is exact, the cast truncates. -/
def maxLoadOf (size : Nat) : Nat :=
  let m := Gen.loadFactorNum * size / Gen.loadFactorDen
  if m ≥ size then size - 1 else m

structure Template where
  size : Nat
  maxLoad : Nat
  mask : Nat
deriving DecidableEq, Repr

/-- `s_update_template_size` -/
def updateTemplateSize (expected : Nat) : Except Err Template :=
  let minSize := if expected < 2 then 2 else expected
  match roundUpPow2 minSize with
  | .error e => .error e
  | .ok size => .ok { size := size, maxLoad := maxLoadOf size, mask := size - 1 }

def ENTRY_BYTES : Nat := 24   -- sizeof(struct hash_table_entry)
def STATE_BYTES : Nat := 80   -- sizeof(struct hash_table_state)

/-- `hash_table_state_required_bytes` -/
def requiredBytes (size : Nat) : Except Err Nat :=
  if size * ENTRY_BYTES > SIZE_MAX then .error .overflow
  else if size * ENTRY_BYTES + STATE_BYTES > SIZE_MAX then .error .overflow
  else .ok (size * ENTRY_BYTES + STATE_BYTES)

/-- `s_alloc_state` on a template (calloc: all slots empty) -/
def allocState (tp : Template) (count : Nat) (dk dv : Bool) : Except Err Table :=
  match requiredBytes tp.size with
  | .error e => .error e
  | .ok _ => .ok { slots := Array.replicate tp.size none, size := tp.size, entryCount := count,
                   maxLoad := tp.maxLoad, mask := tp.mask, dk := dk, dv := dv }

/-- `aws_hash_table_init` -/
def init (size : Nat) (dk dv : Bool) : Except Err Table :=
  match updateTemplateSize size with
  | .error e => .error e
  | .ok tp => allocState tp 0 dk dv

/-! ### s_find_entry / s_find_entry1 -/

inductive FindRes where
  | found (idx probe : Nat)
  | notFound (idx probe : Nat)
  | outOfFuel
deriving DecidableEq, Repr

/-- the `while (1)` of `s_find_entry1`, from `probe` -/
def findLoop (s : Slots) (mask hc : Nat) (key : Key) : Nat → Nat → FindRes
  | 0, _ => .outOfFuel
  | fuel+1, probe =>
    let index := idxOf mask hc probe
    match rd s index with
    | none => .notFound index probe
    | some e =>
      if e.hash = hc ∧ keysEq key e.key then .found index probe
      else if probeOf mask index e.hash < probe then .notFound index probe
      else findLoop s mask hc key fuel (probe + 1)

/-- `s_find_entry`: inlined fast path on the home slot, then `s_find_entry1` from probe 1 -/
def findEntry (t : Table) (hc : Nat) (key : Key) : FindRes :=
  let index := hc &&& t.mask
  match rd t.slots index with
  | none => .notFound index 0
  | some e =>
    if e.hash = hc ∧ keysEq key e.key then .found index 0
    else findLoop t.slots t.mask hc key t.size 1

/-! ### s_emplace_item -/

/-- the `while (entry.hash_code != 0)` loop; result: new slots and the slot of the first store
(`rval`).  `none` = out of fuel. -/
def emplaceLoop (mask : Nat) : Nat → Slots → Entry → Nat → Option Nat → Option (Slots × Option Nat)
  | 0, _, _, _, _ => none
  | fuel+1, s, e, probe, rval =>
    let index := idxOf mask e.hash probe
    match rd s index with
    | none => some (wr s index (some e), rval.orElse fun _ => some index)
    | some v =>
      let vp := probeOf mask index v.hash
      if vp < probe then
        emplaceLoop mask fuel (wr s index (some e)) v (vp + 1) (rval.orElse fun _ => some index)
      else
        emplaceLoop mask fuel s e (probe + 1) rval

def emplace (mask size : Nat) (s : Slots) (e : Entry) (probe : Nat) : Option (Slots × Option Nat) :=
  emplaceLoop mask size s e probe none

/-! ### s_expand_table -/

/-- re-emplace the old slots, in slot order, into the new array -/
def reinsert (mask size : Nat) : List (Option Entry) → Slots → Option Slots
  | [], s => some s
  | none :: rest, s => reinsert mask size rest s
  | some e :: rest, s =>
    match emplace mask size s e 0 with
    | none => none
    | some (s', _) => reinsert mask size rest s'

def expand (t : Table) : Except Err Table :=
  if t.size * 2 > SIZE_MAX then .error .overflow       -- aws_mul_size_checked
  else match updateTemplateSize (t.size * 2) with
    | .error e => .error e
    | .ok tp =>
      match allocState tp t.entryCount t.dk t.dv with
      | .error e => .error e
      | .ok nt =>
        match reinsert nt.mask nt.size t.slots.toList nt.slots with
        | none => .error .fuel
        | some s => .ok { nt with slots := s }

/-! ### aws_hash_table_create / put / find -/

structure CreateRes where
  table : Table
  idx : Nat            -- slot of the element returned through p_elem
  created : Bool
deriving DecidableEq, Repr

/-- `state->entry_count++`, build the new entry (value NULL), `s_emplace_item(state, new_entry, probe_idx)` -/
def createAt (hc : Nat) (key : Key) (t : Table) (probe : Nat) : Except Err CreateRes :=
  match emplace t.mask t.size t.slots { hash := hc, key := key, val := none } probe with
  | none => .error .fuel
  | some (s, rval) =>
    .ok { table := { t with slots := s, entryCount := t.entryCount + 1 }, idx := rval.getD 0, created := true }

def create (h : Nat → Nat) (t : Table) (key : Key) : Except Err CreateRes :=
  let hc := hashFor h key
  match findEntry t hc key with
  | .outOfFuel => .error .fuel
  | .found idx _ => .ok { table := t, idx := idx, created := false }
  | .notFound _ probe =>
    if t.entryCount + 1 > SIZE_MAX then .error .overflow     -- aws_add_size_checked
    else if t.entryCount + 1 > t.maxLoad then
      match expand t with                                     -- probe_idx = 0 after a resize
      | .error e => .error e
      | .ok t' => createAt hc key t' 0
    else createAt hc key t probe

structure PutRes where
  table : Table
  created : Bool
  log : List Ev
deriving DecidableEq, Repr

def put (h : Nat → Nat) (t : Table) (key : Key) (val : Val) : Except Err PutRes :=
  match create h t key with
  | .error e => .error e
  | .ok r =>
    let t' := r.table
    match rd t'.slots r.idx with
    | none => .error .fuel    -- unreachable: create returns an occupied slot
    | some e =>
      let log := if r.created then [] else
        (if e.key ≠ key ∧ t'.dk then [Ev.k e.key] else []) ++ (if t'.dv then [Ev.v e.val] else [])
      .ok { table := { t' with slots := wr t'.slots r.idx (some { e with key := key, val := val }) },
            created := r.created, log := log }

/-- `aws_hash_table_find`: the element found (key pointer and value) -/
def find (h : Nat → Nat) (t : Table) (key : Key) : Option (Key × Val) :=
  match findEntry t (hashFor h key) key with
  | .found idx _ => (rd t.slots idx).map fun e => (e.key, e.val)
  | _ => none

/-- slot index of the element `aws_hash_table_find` returns (for remove_element) -/
def findIdx (h : Nat → Nat) (t : Table) (key : Key) : Option Nat :=
  match findEntry t (hashFor h key) key with
  | .found idx _ => some idx
  | _ => none

/-! ### s_remove_entry (backward shift) -/

def removeLoop (mask : Nat) : Nat → Slots → Nat → Option (Slots × Nat)
  | 0, _, _ => none
  | fuel+1, s, index =>
    let next := (index + 1) &&& mask
    match rd s next with
    | none => some (wr s index none, index)
    | some e =>
      if e.hash &&& mask = next then some (wr s index none, index)
      else removeLoop mask fuel (wr s index (some e)) next

/-- returns the table and the last slot touched -/
def removeEntry (t : Table) (index : Nat) : Option (Table × Nat) :=
  match removeLoop t.mask t.size t.slots index with
  | none => none
  | some (s, last) => some ({ t with slots := s, entryCount := t.entryCount - 1 }, last)

structure RemoveRes where
  table : Table
  present : Bool
  out : Option (Key × Val)     -- *p_value when requested and present
  log : List Ev
deriving DecidableEq, Repr

def destroyLog (t : Table) (key : Key) (val : Val) : List Ev :=
  (if t.dk then [Ev.k key] else []) ++ (if t.dv then [Ev.v val] else [])

/-- `aws_hash_table_remove`; `wantOut` = p_value != NULL -/
def remove (h : Nat → Nat) (t : Table) (key : Key) (wantOut : Bool) : Except Err RemoveRes :=
  match findEntry t (hashFor h key) key with
  | .outOfFuel => .error .fuel
  | .notFound _ _ => .ok { table := t, present := false, out := none, log := [] }
  | .found idx _ =>
    match rd t.slots idx with
    | none => .error .fuel
    | some e =>
      match removeEntry t idx with
      | none => .error .fuel
      | some (t', _) =>
        .ok { table := t', present := true,
              out := if wantOut then some (e.key, e.val) else none,
              log := if wantOut then [] else destroyLog t e.key e.val }

/-- `aws_hash_table_remove_element` on the element at slot `idx` -/
def removeElement (t : Table) (idx : Nat) : Except Err Table :=
  match removeEntry t idx with
  | none => .error .fuel
  | some (t', _) => .ok t'

/-! ### aws_hash_table_clear -/

def clearLog (t : Table) : List Ev :=
  if t.dk ∨ t.dv then
    t.slots.toList.flatMap fun o => match o with
      | none => []
      | some e => destroyLog t e.key e.val
  else []

def clear (t : Table) : Table × List Ev :=
  ({ t with slots := Array.replicate t.size none, entryCount := 0 }, clearLog t)

/-! ### iterators -/

inductive IterStatus where
  | done | deleteCalled | ready
deriving DecidableEq, Repr

structure Iter where
  slot : Nat
  limit : Nat
  status : IterStatus
  elem : Option (Key × Val)      -- iter.element (none: key = value = NULL)
deriving DecidableEq, Repr

/-- `s_get_next_element`: scan `[start, limit)`; fuel = number of slots still to look at -/
def getNextLoop (s : Slots) (it : Iter) : Nat → Nat → Iter
  | 0, _ => { it with elem := none, slot := it.limit, status := .done }
  | fuel+1, i =>
    if i < it.limit then
      match rd s i with
      | some e => { it with elem := some (e.key, e.val), slot := i, status := .ready }
      | none => getNextLoop s it fuel (i + 1)
    else { it with elem := none, slot := it.limit, status := .done }

def getNext (t : Table) (it : Iter) (start : Nat) : Iter :=
  getNextLoop t.slots it (it.limit - start + 1) start

def iterBegin (t : Table) : Iter :=
  getNext t { slot := 0, limit := t.size, status := .done, elem := none } 0

def iterDone (it : Iter) : Bool := it.slot == it.limit

/-- `aws_hash_iter_next`: `s_get_next_element(iter, iter->slot + 1)` with size_t wrap -/
def iterNext (t : Table) (it : Iter) : Iter := getNext t it ((it.slot + 1) % W64)

/-- `aws_hash_iter_delete` -/
def iterDelete (t : Table) (it : Iter) (destroy : Bool) : Option (Table × Iter × List Ev) :=
  let log := match destroy, it.elem with
    | true, some (k, v) => destroyLog t k v
    | true, none => destroyLog t .null none
    | false, _ => []
  match removeEntry t it.slot with
  | none => none
  | some (t', last) =>
    let limit := if last < it.slot ∨ last ≥ it.limit then it.limit - 1 else it.limit
    some (t', { it with limit := limit, slot := (it.slot + W64 - 1) % W64, status := .deleteCalled }, log)

/-! ### aws_hash_table_foreach -/

def ITER_CONTINUE : Nat := 1
def ITER_DELETE : Nat := 2
def ITER_ERROR : Nat := 4

structure ForeachRes where
  table : Table
  visits : List (Key × Val)
  rc : Option Err          -- none = AWS_OP_SUCCESS
deriving DecidableEq, Repr

/-- the `for` loop; `flags` is the callback's return value as a function of the element -/
def foreachLoop (flags : Key → Nat) : Nat → Table → Iter → List (Key × Val) → ForeachRes
  | 0, t, _, vis => { table := t, visits := vis, rc := some .fuel }
  | fuel+1, t, it, vis =>
    if iterDone it then { table := t, visits := vis, rc := none }
    else
      match it.elem with
      | none => { table := t, visits := vis, rc := some .fuel }   -- unreachable: ready iterators carry an element
      | some (k, v) =>
        let rv := flags k
        let vis := vis ++ [(k, v)]
        if rv &&& ITER_ERROR ≠ 0 then { table := t, visits := vis, rc := some .unknown }
        else
          let del := if rv &&& ITER_DELETE ≠ 0 then iterDelete t it false else some (t, it, [])
          match del with
          | none => { table := t, visits := vis, rc := some .fuel }
          | some (t', it', _) =>
            if rv &&& ITER_CONTINUE = 0 then { table := t', visits := vis, rc := none }
            else foreachLoop flags fuel t' (iterNext t' it') vis

def foreach (t : Table) (flags : Key → Nat) : ForeachRes :=
  foreachLoop flags (2 * t.size + 1) t (iterBegin t) []

/-! ### explicit iterator programs: `begin; (visit; [delete(destroy?)]; next)* until done or stop` -/

/-- what the caller decides at the element the iterator shows: delete it (`some destroy_contents`) or not,
and go on to the next element or stop -/
structure Decision where
  delete : Option Bool
  goOn : Bool
deriving DecidableEq, Repr

structure PassRes where
  table : Table
  visits : List (Key × Val)
  dels : List ((Key × Val) × Bool)     -- elements deleted through the iterator, with their destroy flag
  log : List Ev
  ok : Bool                            -- false: out of fuel / iterator without element (never: theorem)
deriving DecidableEq, Repr

/-- the caller's loop `for (it = begin; !done(it); next(it)) { decide; maybe delete; maybe break; }`; the
decision may depend on everything seen so far -/
def iterPassLoop (policy : List (Key × Val) → Key × Val → Decision) :
    Nat → Table → Iter → List (Key × Val) → List ((Key × Val) × Bool) → List Ev → PassRes
  | 0, t, _, vis, dels, log => ⟨t, vis, dels, log, false⟩
  | fuel+1, t, it, vis, dels, log =>
    if iterDone it then ⟨t, vis, dels, log, true⟩
    else match it.elem with
      | none => ⟨t, vis, dels, log, false⟩
      | some kv =>
        match (policy vis kv).delete with
        | none =>
          if (policy vis kv).goOn then iterPassLoop policy fuel t (iterNext t it) (vis ++ [kv]) dels log
          else ⟨t, vis ++ [kv], dels, log, true⟩
        | some destroy =>
          match iterDelete t it destroy with
          | none => ⟨t, vis ++ [kv], dels, log, false⟩
          | some (t', it', l) =>
            if (policy vis kv).goOn then
              iterPassLoop policy fuel t' (iterNext t' it') (vis ++ [kv]) (dels ++ [(kv, destroy)]) (log ++ l)
            else ⟨t', vis ++ [kv], dels ++ [(kv, destroy)], log ++ l, true⟩

def iterPass (t : Table) (policy : List (Key × Val) → Key × Val → Decision) : PassRes :=
  iterPassLoop policy (2 * t.size + 1) t (iterBegin t) [] [] []

/-! ### aws_hash_table_swap / aws_hash_table_move: a table handle is `Option Table` (`p_impl`, `none` = NULL) -/

/-- `tmp = *a; *a = *b; *b = tmp` : the new `(a, b)` -/
def swapTables (a b : Option Table) : Option Table × Option Table := (b, a)

/-- `*to = *from; AWS_ZERO_STRUCT(*from)` : the new `(to, from)` -/
def moveTable (src : Option Table) : Option Table × Option Table := (src, none)

/-! ### aws_hash_table_eq -/

/-- `s_safe_eq_check(value_eq, a, b)` on values: same pointer → equal; exactly one NULL → different;
otherwise ask the callback (`veq` on the two non-NULL values) -/
def safeEq (veq : Nat → Nat → Bool) (a b : Val) : Bool :=
  if a = b then true
  else match a, b with
    | some x, some y => veq x y
    | _, _ => false

/-- `aws_hash_table_eq(a, b, value_eq)` as written: compare the counts, then look every entry of `a` up in `b` -/
def tableEq (h : Nat → Nat) (veq : Nat → Nat → Bool) (a b : Table) : Bool :=
  if a.entryCount ≠ b.entryCount then false
  else a.slots.toList.all fun o => match o with
    | none => true
    | some e => match find h b e.key with
      | none => false
      | some (_, bv) => safeEq veq e.val bv

/-! ### abstraction: the entries of a table, in slot order -/

def entries (s : Slots) : List Entry := s.toList.filterMap id

def contents (t : Table) : List (Key × Val) := (entries t.slots).map fun e => (e.key, e.val)

/-! ### case-insensitive hash / equality of byte_buf.c -/

def tolower (b : UInt8) : UInt8 := Gen.tolowerTable.getD b.toNat 0

def FNV_OFFSET : Nat := Gen.fnvOffsetBasis
def FNV_PRIME : Nat := Gen.fnvPrime

/-- `aws_hash_array_ignore_case` (FNV-1a over the lower-cased bytes, uint64_t arithmetic) -/
def hashIgnoreCaseFrom (acc : Nat) : List UInt8 → Nat
  | [] => acc
  | b :: rest => hashIgnoreCaseFrom (((acc ^^^ (tolower b).toNat) * FNV_PRIME) % W64) rest

def hashIgnoreCase (bs : List UInt8) : Nat := hashIgnoreCaseFrom FNV_OFFSET bs

/-- `aws_array_eq_ignore_case` -/
def eqIgnoreCaseLoop : List UInt8 → List UInt8 → Bool
  | [], [] => true
  | a :: as, b :: bs => if tolower a ≠ tolower b then false else eqIgnoreCaseLoop as bs
  | _, _ => false

def eqIgnoreCase (a b : List UInt8) : Bool :=
  if a.length ≠ b.length then false else eqIgnoreCaseLoop a b

end AwsVerif.HashTable
