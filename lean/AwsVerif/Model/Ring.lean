/-!
Model of `source/ring_buffer.c` (aws_ring_buffer_acquire / acquire_up_to / release).

Positions are offsets from `allocation`; `N` is the ring size, `head`/`tail` are the two atomic
pointers.  `out` is ghost state: the buffers handed out and not yet released, oldest first
(the releaser releases in acquisition order, as the API requires).

An acquire is two atomic steps: load `tail` into a local (`tailCpy`), then load `head`, decide,
store `head` (and `tail` in the nothing-vended branch).  `acquireWith`/`acquireUpToWith` take
the tail snapshot as an argument so a release can be interleaved between the two loads.
-/
namespace AwsVerif.Ring

structure Ring where
  N    : Nat
  head : Nat
  tail : Nat
  out  : List (Nat × Nat)   -- (offset, length), oldest first
deriving Repr, DecidableEq

inductive Res where
  | ok (off len : Nat)
  | oom
  | invalid
deriving Repr, DecidableEq

def init (n : Nat) : Ring := { N := n, head := 0, tail := 0, out := [] }

/-- hand out `(off,len)`: store head := off+len -/
def vend (r : Ring) (off len : Nat) (resetTail : Bool := false) : Ring × Res :=
  ({ r with head := off + len, tail := if resetTail then 0 else r.tail, out := r.out ++ [(off, len)] }, .ok off len)

/-- `aws_ring_buffer_acquire` after the tail load returned `t`. -/
def acquireWith (r : Ring) (t : Nat) (req : Nat) : Ring × Res :=
  if req = 0 then (r, .invalid)
  else if r.head = t then
    if req > r.N then (r, .oom) else vend r 0 req true
  else if t > r.head then
    let space := t - r.head - 1
    if space ≥ req then vend r r.head req else (r, .oom)
  else
    if r.N - r.head ≥ req then vend r r.head req
    else if t > req then vend r 0 req
    else (r, .oom)

/-- `aws_ring_buffer_acquire_up_to` after the tail load returned `t`. -/
def acquireUpToWith (r : Ring) (t : Nat) (minimum req : Nat) : Ring × Res :=
  if req = 0 ∨ minimum = 0 then (r, .invalid)
  else if r.head = t then
    let alloc := if r.N > req then req else r.N
    if alloc < minimum then (r, .oom) else vend r 0 alloc true
  else if t > r.head then
    let space := t - r.head - 1
    let ret := if space > req then req else space
    if ret ≥ minimum then vend r r.head ret else (r, .oom)
  else
    let headSpace := r.N - r.head
    let tailSpace := t
    if headSpace ≥ req then vend r r.head req
    else if tailSpace > req then vend r 0 req
    else if headSpace ≥ minimum ∧ headSpace ≥ tailSpace then vend r r.head headSpace
    else if tailSpace > minimum then vend r 0 (tailSpace - 1)
    else (r, .oom)

/-- `aws_ring_buffer_release` of the oldest outstanding buffer: tail := its end. -/
def release (r : Ring) : Ring :=
  match r.out with
  | [] => r
  | (off, len) :: rest => { r with tail := off + len, out := rest }

/-- `*dest` as `(offset, capacity)`; the C writes it (`*dest = aws_byte_buf_from_empty_array(ptr, size)`) on the
granting paths only, immediately before `return AWS_OP_SUCCESS` -/
abbrev Dest := Nat × Nat

def writeDest (d : Dest) : Res → Dest
  | .ok off len => (off, len)
  | _ => d

/-- `aws_ring_buffer_acquire` with its out-parameter: new ring, result, `*dest` afterwards -/
def acquireD (r : Ring) (t : Nat) (req : Nat) (d : Dest) : Ring × Res × Dest :=
  let x := acquireWith r t req
  (x.1, x.2, writeDest d x.2)

/-- `aws_ring_buffer_acquire_up_to` with its out-parameter -/
def acquireUpToD (r : Ring) (t : Nat) (minimum req : Nat) (d : Dest) : Ring × Res × Dest :=
  let x := acquireUpToWith r t minimum req
  (x.1, x.2, writeDest d x.2)

def acquire (r : Ring) (req : Nat) : Ring × Res := acquireWith r r.tail req
def acquireUpTo (r : Ring) (minimum req : Nat) : Ring × Res := acquireUpToWith r r.tail minimum req

/-! ### The two-thread system: every interleaving of the acquirer's two steps with releases -/

inductive Req where
  | exact (req : Nat)
  | upTo (minimum req : Nat)
deriving Repr, DecidableEq

structure Sys where
  ring : Ring
  /-- acquirer is between its tail load and its head load: the stale tail and the request -/
  pending : Option (Nat × Req)
  /-- result of the last completed acquire (observable) -/
  last : Option (Req × Res)
deriving Repr

inductive Act where
  | loadTail (q : Req)     -- acquirer step A1
  | complete               -- acquirer step A2 (head load, decision, stores, return)
  | release                -- releaser step R
deriving Repr, DecidableEq

def Sys.init (n : Nat) : Sys := { ring := Ring.init n, pending := none, last := none }

def complete (r : Ring) (t : Nat) : Req → Ring × Res
  | .exact q => acquireWith r t q
  | .upTo m q => acquireUpToWith r t m q

def step (s : Sys) : Act → Sys
  | .loadTail q =>
    match s.pending with
    | none => { s with pending := some (s.ring.tail, q) }
    | some _ => s
  | .complete =>
    match s.pending with
    | none => s
    | some (t, q) =>
      let (r', res) := complete s.ring t q
      { ring := r', pending := none, last := some (q, res) }
  | .release => { s with ring := release s.ring }

def run (s : Sys) (as : List Act) : Sys := as.foldl step s

end AwsVerif.Ring
