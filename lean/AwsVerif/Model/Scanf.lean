/-!
The two `sscanf` conversions the library uses on *local, NUL-terminated copies* of its input
(`"%02hhx"` in source/uuid.c, `"%03hu"` and `"%1s"` in source/host_utils.c), as implemented by glibc 2.36 (the libc
the harness links; behaviour confirmed by the C04 model-stage correspondence run):

* a conversion first skips white space (space, \t \n \v \f \r), which does not count against the field width;
* an optional `+` / `-` counts against the width; `-` negates the value modulo the destination width;
* `%x` additionally accepts a `0x` / `0X` prefix that counts against the width — with width 2 the prefix uses the
  whole field and the conversion succeeds with value 0 (glibc ≤ 2.37; ISO C would make it a matching failure);
* at least one digit is required, otherwise matching failure; end of string before any character is an input failure;
* an ordinary character of the format (`-`, `.`) must match the next input character exactly (no white-space skipping).

These functions work on plain lists: `sscanf` never sees the caller's memory, only the local copy.
-/
namespace AwsVerif.Scanf

def isSpace (c : UInt8) : Bool := c == 32 || (9 ≤ c && c ≤ 13)

def skipWs : List UInt8 → List UInt8
  | [] => []
  | c :: t => if isSpace c then skipWs t else c :: t

def hexVal (c : UInt8) : Option Nat :=
  if 48 ≤ c ∧ c ≤ 57 then some (c.toNat - 48)
  else if 97 ≤ c ∧ c ≤ 102 then some (c.toNat - 87)
  else if 65 ≤ c ∧ c ≤ 70 then some (c.toNat - 55)
  else none

def decVal (c : UInt8) : Option Nat :=
  if 48 ≤ c ∧ c ≤ 57 then some (c.toNat - 48) else none

def plus : UInt8 := 43
def minus : UInt8 := 45

/-- `"%02hhx"`: the stored byte and the rest of the string; `none` = matching or input failure -/
def scanHex2 (s : List UInt8) : Option (UInt8 × List UInt8) :=
  match skipWs s with
  | [] => none
  | c :: t =>
    if c = plus ∨ c = minus then
      match t with
      | [] => none
      | d :: t' =>
        match hexVal d with
        | none => none
        | some v => some (UInt8.ofNat (if c = minus then (256 - v) % 256 else v), t')
    else
      match hexVal c with
      | none => none
      | some v1 =>
        match t with
        | [] => some (UInt8.ofNat v1, [])
        | d :: t' =>
          if v1 = 0 ∧ (d = 120 ∨ d = 88) then some (0, t')         -- "0x" / "0X" fills the field: value 0
          else match hexVal d with
            | some v2 => some (UInt8.ofNat (v1 * 16 + v2), t')
            | none => some (UInt8.ofNat v1, d :: t')

/-- up to `w` decimal digits: (digits read, value, rest) -/
def takeDigits : Nat → List UInt8 → Nat → Nat → Nat × Nat × List UInt8
  | 0, s, n, acc => (n, acc, s)
  | _ + 1, [], n, acc => (n, acc, [])
  | w + 1, c :: t, n, acc =>
    match decVal c with
    | some v => takeDigits w t (n + 1) (acc * 10 + v)
    | none => (n, acc, c :: t)

/-- `"%03hu"` (uint16_t destination) -/
def scanDec3 (s : List UInt8) : Option (Nat × List UInt8) :=
  match skipWs s with
  | [] => none
  | c :: t =>
    if c = plus ∨ c = minus then
      let r := takeDigits 2 t 0 0
      if r.1 = 0 then none else some (if c = minus then (65536 - r.2.1) % 65536 else r.2.1, r.2.2)
    else
      let r := takeDigits 3 (c :: t) 0 0
      if r.1 = 0 then none else some (r.2.1, r.2.2)

/-- a C string ends at its first NUL -/
def cstr (bytes : List UInt8) : List UInt8 := bytes.takeWhile (· ≠ 0)

end AwsVerif.Scanf
