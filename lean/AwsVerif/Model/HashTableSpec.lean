import AwsVerif.Model.HashTable
/-!
Operation language over one table, its interpretation on the model (`apply`), and the reference
map (`Spec` = association list with unique key identities, `specApply`) the property compares with.
-/
namespace AwsVerif.HashTable

inductive Op where
  | put (k : Key) (v : Val)
  | create (k : Key)
  | find (k : Key)
  | remove (k : Key) (wantOut : Bool)
  | removeElement (k : Key)        -- aws_hash_table_find, then aws_hash_table_remove_element on the element found
  | clear

/-- what the caller observes of one operation -/
inductive Res where
  | put (created : Bool) (log : List Ev)
  | create (created : Bool) (elem : Option (Key × Val))
  | find (r : Option (Key × Val))
  | remove (present : Bool) (out : Option (Key × Val)) (log : List Ev)
  | removeElement (found : Bool)
  | clear (log : List Ev)
  | error (e : Err)
deriving DecidableEq, Repr

def apply (h : Nat → Nat) (t : Table) : Op → Table × Res
  | .put k v => match put h t k v with
    | .ok r => (r.table, .put r.created r.log)
    | .error e => (t, .error e)
  | .create k => match create h t k with
    | .ok r => (r.table, .create r.created ((rd r.table.slots r.idx).map fun e => (e.key, e.val)))
    | .error e => (t, .error e)
  | .find k => (t, .find (find h t k))
  | .remove k o => match remove h t k o with
    | .ok r => (r.table, .remove r.present r.out r.log)
    | .error e => (t, .error e)
  | .removeElement k => match findIdx h t k with
    | none => (t, .removeElement false)
    | some idx => match removeElement t idx with
      | .ok t' => (t', .removeElement true)
      | .error e => (t, .error e)
  | .clear => ((clear t).1, .clear (clear t).2)

/-! ### reference map -/

abbrev Spec := List (Key × Val)

def Spec.find (m : Spec) (k : Key) : Option (Key × Val) := List.find? (fun kv => kv.1.id == k.id) m
def Spec.erase (m : Spec) (k : Key) : Spec := List.filter (fun kv => !(kv.1.id == k.id)) m

/-- destructor calls for one pair leaving the map by a destroying route -/
def specDestroy (dk dv : Bool) (kv : Key × Val) : List Ev :=
  (if dk then [Ev.k kv.1] else []) ++ (if dv then [Ev.v kv.2] else [])

def specApply (dk dv : Bool) (m : Spec) : Op → Spec × Res
  | .put k v => match m.find k with
    | none => ((k, v) :: m, .put true [])
    | some (k0, v0) =>
      ((k, v) :: m.erase k,
       .put false ((if k0 ≠ k ∧ dk = true then [Ev.k k0] else []) ++ (if dv = true then [Ev.v v0] else [])))
  | .create k => match m.find k with
    | none => ((k, none) :: m, .create true (some (k, none)))
    | some kv => (m, .create false (some kv))
  | .find k => (m, .find (m.find k))
  | .remove k o => match m.find k with
    | none => (m, .remove false none [])
    | some kv => (m.erase k, .remove true (if o then some kv else none) (if o then [] else specDestroy dk dv kv))
  | .removeElement k => match m.find k with
    | none => (m, .removeElement false)
    | some _ => (m.erase k, .removeElement true)
  | .clear => ([], .clear (List.flatMap (specDestroy dk dv) m))

/-- destructor callbacks of one result -/
def Res.log : Res → List Ev
  | .put _ l => l
  | .remove _ _ l => l
  | .clear l => l
  | _ => []

/-- results agree; the destructor log of `clear` is compared as a multiset (its order is slot order) -/
def Res.sim : Res → Res → Prop
  | .clear l, .clear l' => l.Perm l'
  | a, b => a = b

/-- result lists agree element by element -/
def simList : List Res → List Res → Prop
  | [], [] => True
  | a :: as, b :: bs => a.sim b ∧ simList as bs
  | _, _ => False

def isError : Res → Bool
  | .error _ => true
  | _ => false

/-- run a program on the model / on the reference map, collecting the results -/
def runModel (h : Nat → Nat) : Table → List Op → Table × List Res
  | t, [] => (t, [])
  | t, op :: ops =>
    let (t', r) := apply h t op
    let (t'', rs) := runModel h t' ops
    (t'', r :: rs)

def runSpec (dk dv : Bool) : Spec → List Op → Spec × List Res
  | m, [] => (m, [])
  | m, op :: ops =>
    let (m', r) := specApply dk dv m op
    let (m'', rs) := runSpec dk dv m' ops
    (m'', r :: rs)

end AwsVerif.HashTable
