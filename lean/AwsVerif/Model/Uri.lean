/-!
# Model of `/repo/source/uri.c` (C13)

Byte-level (`List UInt8`) transcription of

* the parser state machine `s_parse_scheme` / `s_parse_authority` / `s_parse_path` /
  `s_parse_query_string` driven by `s_init_from_uri_str` (uri.c:50-70, 277-457),
* `aws_uri_init_from_builder_options` (uri.c:84-180): size estimate, bounded appends whose
  failures are ignored, re-parse,
* `aws_query_string_next_param` / `aws_query_string_params` (uri.c:217-267) on top of
  `aws_byte_cursor_next_split` (byte_buf.c:196-254),
* `aws_byte_buf_append_encoding_uri_path` / `_param` (uri.c:459-585) and
  `aws_byte_buf_append_decoding_uri` (uri.c:587-609, with `aws_byte_cursor_read_hex_u8`).

A cursor into the URI's own copy of the text is an `(off, len)` pair (`View`); a zeroed cursor
(`ptr == NULL`) is `none`.  `memchr(p, c, n)` is `memchr c bytes`.  Core Lean only.
-/
namespace AwsVerif.Uri

abbrev Bytes := List UInt8

def SIZE_MAX : Nat := 2 ^ 64 - 1
def UINT64_MAX : Nat := 2 ^ 64 - 1
def UINT32_MAX : Nat := 2 ^ 32 - 1

/-- `memchr(ptr, c, len)`: index of the first occurrence -/
def memchr (c : UInt8) : Bytes → Option Nat
  | [] => none
  | x :: xs => if x = c then some 0 else (memchr c xs).map (· + 1)

/-- a non-NULL cursor: offset into `uri_str` and length -/
structure View where
  off : Nat
  len : Nat
deriving DecidableEq, Repr

inductive Err
  | malformed          -- AWS_ERROR_MALFORMED_INPUT_STRING
  | invalidArgument    -- AWS_ERROR_INVALID_ARGUMENT
  | overflow           -- AWS_ERROR_OVERFLOW_DETECTED
deriving DecidableEq, Repr

def Err.name : Err → String
  | .malformed => "AWS_ERROR_MALFORMED_INPUT_STRING"
  | .invalidArgument => "AWS_ERROR_INVALID_ARGUMENT"
  | .overflow => "AWS_ERROR_OVERFLOW_DETECTED"

/-- the cursors of `struct aws_uri` (`none` = zeroed cursor) and the port -/
structure Uri where
  scheme : Option View := none
  authority : Option View := none
  userinfo : Option View := none
  user : Option View := none
  password : Option View := none
  host : Option View := none
  port : Nat := 0
  path : Option View := none
  query : Option View := none
  pathAndQuery : Option View := none
deriving DecidableEq, Repr

/-! ## character tables -/

/-- `s_hex_to_num_table` (byte_buf.c): '0'-'9', 'A'-'F', 'a'-'f' to their value, everything else 255 -/
def hexToNum (b : UInt8) : UInt8 :=
  if 48 ≤ b ∧ b ≤ 57 then b - 48
  else if 65 ≤ b ∧ b ≤ 70 then b - 55
  else if 97 ≤ b ∧ b ≤ 102 then b - 87
  else 255

/-- `aws_isalnum` -/
def isAlnum (ch : UInt8) : Bool :=
  (97 ≤ ch && ch ≤ 122) || (65 ≤ ch && ch ≤ 90) || (48 ≤ ch && ch ≤ 57)

/-- `s_to_uppercase_hex` (argument < 16) -/
def upHex (v : UInt8) : UInt8 := if v < 10 then 48 + v else 65 + v - 10

/-- characters `s_unchecked_append_canonicalized_path_character` copies unchanged -/
def pathSafe (v : UInt8) : Bool :=
  isAlnum v || v == 45 || v == 95 || v == 46 || v == 126 || v == 47

/-- characters `s_raw_append_canonicalized_param_character` copies unchanged -/
def paramSafe (v : UInt8) : Bool :=
  isAlnum v || v == 45 || v == 95 || v == 46 || v == 126

/-! ## `aws_byte_cursor_utf8_parse_u64` (`s_read_unsigned`, base 10) -/

def readUnsignedGo : Bytes → Nat → Except Err Nat
  | [], v => .ok v
  | c :: r, v =>
    let cval := (hexToNum c).toNat
    if cval ≥ 10 then .error .invalidArgument
    else if v * 10 > UINT64_MAX then .error .overflow            -- aws_mul_u64_checked
    else if v * 10 + cval > UINT64_MAX then .error .overflow     -- aws_add_u64_checked
    else readUnsignedGo r (v * 10 + cval)

def parseU64 (l : Bytes) : Except Err Nat :=
  if l.isEmpty then .error .invalidArgument else readUnsignedGo l 0

/-! ## parser state machine -/

inductive PState
  | onScheme | onAuthority | onPath | onQuery | finished | error
deriving DecidableEq, Repr

/-- `struct uri_parser` plus the advancing cursor `str` = `(off, rest)`; `rest` is always the
suffix of `uri_str` starting at `off` -/
structure Parser where
  uri : Uri := {}
  state : PState := .onScheme
  off : Nat := 0
  rest : Bytes

/-- `aws_byte_cursor_advance(str, n)` for `n ≤ str->len` -/
def Parser.advance (p : Parser) (n : Nat) : Parser :=
  { p with off := p.off + n, rest := p.rest.drop n }

/-- the bytes that cannot occur in a scheme (uri.c:296-302): '/', '?', '#', '@', '[', ']' -/
def isSchemeDelim (c : UInt8) : Bool :=
  c == 47 || c == 63 || c == 35 || c == 64 || c == 91 || c == 93

/-- `s_parse_scheme` -/
def parseScheme (p : Parser) : Parser :=
  match memchr 58 p.rest with
  | none => { p with state := .onAuthority }
  | some i =>
    -- colon is the last character, or the next one is not '/': this is not a scheme
    if (p.rest.drop (i + 1)).head? = some 47 then
      -- a URI delimiter before the colon: the text has no scheme, nothing is consumed
      if (p.rest.take i).any isSchemeDelim then { p with state := .onAuthority }
      else
        let p1 := { p with uri := { p.uri with scheme := some ⟨p.off, i⟩ } }.advance i
        -- str->len < 3 || str[0] != ':' || str[1] != '/' || str[2] != '/'
        if p1.rest.take 3 = ([58, 47, 47] : Bytes) then { p1.advance 3 with state := .onAuthority }
        else { p1 with state := .error }
    else { p with state := .onAuthority }

/-- the `userinfo "@"` part of `s_parse_authority`: returns userinfo, user, password and the
remaining `authority_parse_csr` as (offset, bytes) -/
def splitUserinfo (aoff : Nat) (a : Bytes) :
    Option View × Option View × Option View × Nat × Bytes :=
  match memchr 64 a with
  | none => (none, none, none, aoff, a)
  | some i =>
    let ui := a.take i
    match memchr 58 ui with
    | some j => (some ⟨aoff, i⟩, some ⟨aoff, j⟩, some ⟨aoff + j + 1, i - j - 1⟩, aoff + i + 1, a.drop (i + 1))
    | none => (some ⟨aoff, i⟩, some ⟨aoff, i⟩, none, aoff + i + 1, a.drop (i + 1))

/-- uri.c:396-416: `port_delim` found at index `d` of `authority_parse_csr = h`; `hostOff` is
`host_name.ptr` -/
def parsePortAt (hostOff : Nat) (h : Bytes) (ipv6 : Bool) (d : Nat) : Except Err (View × Nat) :=
  let corr := if ipv6 then 2 else 0      -- host_name_length_correction
  let hostLen := d - corr
  let portLen := h.length - hostLen - 1 - corr
  if portLen > 0 then
    match parseU64 ((h.drop (d + 1)).take portLen) with
    | .error _ => .error .malformed
    | .ok v => if v > UINT32_MAX then .error .malformed else .ok (⟨hostOff, hostLen⟩, v)
  else .ok (⟨hostOff, hostLen⟩, 0)

/-- uri.c:380-394: search the port delimiter from `port_search_start = h + start` -/
def parseHostFrom (hoff : Nat) (h : Bytes) (ipv6 : Bool) (start : Nat) : Except Err (View × Nat) :=
  let host0 : View := if ipv6 then ⟨hoff + 1, h.length - 1 - 1⟩ else ⟨hoff, h.length⟩
  match memchr 58 (h.drop start) with
  | none => .ok (host0, 0)
  | some k => parsePortAt host0.off h ipv6 (k + start)

/-- host / IPv6 literal / port part of `s_parse_authority` on `authority_parse_csr = (hoff, h)`;
result: host_name view and port -/
def parseHostPort (hoff : Nat) (h : Bytes) : Except Err (View × Nat) :=
  if h.head? = some 91 then
    -- IPv6 literal: the port is searched only from the closing bracket on
    match memchr 93 h with
    | none => .error .malformed
    | some start => parseHostFrom hoff h true start
  else parseHostFrom hoff h false 0

/-- the part of `s_parse_authority` after `uri->authority` has been set (uri.c:336-417) -/
def parseAuthBody (p : Parser) (aoff : Nat) (a : Bytes) : Parser :=
  if a.isEmpty then p else
  let (ui, user, pw, hoff, h) := splitUserinfo aoff a
  let u := { p.uri with userinfo := ui, user := user, password := pw }
  match parseHostPort hoff h with
  | .error _ => { p with uri := u, state := .error }
  | .ok (host, port) => { p with uri := { u with host := some host, port := port } }

/-- `uri->authority = aws_byte_cursor_advance(str, end - str->ptr)` with the next state already
chosen, followed by the rest of `s_parse_authority` -/
def authorityUpTo (p : Parser) (i : Nat) (next : PState) : Parser :=
  let p1 := { p with uri := { p.uri with authority := some ⟨p.off, i⟩ }, state := next }.advance i
  parseAuthBody p1 p.off (p.rest.take i)

/-- `s_parse_authority` -/
def parseAuthority (p : Parser) : Parser :=
  match memchr 47 p.rest, memchr 63 p.rest with
  | none, none =>
    if p.rest.isEmpty then { p with state := .error } else
    let n := p.rest.length
    let p1 := { p with uri := { p.uri with authority := some ⟨p.off, n⟩, path := none, pathAndQuery := none },
                       state := .finished }.advance n
    parseAuthBody p1 p.off p.rest
  -- the authority ends at whichever of '/' and '?' comes first
  | some i, none => authorityUpTo p i .onPath
  | some i, some j => if i < j then authorityUpTo p i .onPath else authorityUpTo p j .onQuery
  | none, some j => authorityUpTo p j .onQuery

/-- `s_parse_path` -/
def parsePath (p : Parser) : Parser :=
  let u := { p.uri with pathAndQuery := some ⟨p.off, p.rest.length⟩ }
  match memchr 63 p.rest with
  | none => { p with uri := { u with path := some ⟨p.off, p.rest.length⟩ }, state := .finished }.advance p.rest.length
  | some k => { p with uri := { u with path := some ⟨p.off, k⟩ }, state := .onQuery }.advance k

/-- `s_parse_query_string` -/
def parseQuery (p : Parser) : Parser :=
  let pq := match p.uri.pathAndQuery with
    | none => some ⟨p.off, p.rest.length⟩
    | some v => some v
  let q : Option View := if p.rest.isEmpty then p.uri.query else some ⟨p.off + 1, p.rest.length - 1⟩
  let qlen := match q with | some v => v.len | none => 0
  { p with uri := { p.uri with pathAndQuery := pq, query := q }, state := .finished }.advance (qlen + 1)

/-- one iteration of `while (parser.state < FINISHED) s_states[parser.state](&parser, &uri_cur)` -/
def stepParser (p : Parser) : Parser :=
  match p.state with
  | .onScheme => parseScheme p
  | .onAuthority => parseAuthority p
  | .onPath => parsePath p
  | .onQuery => parseQuery p
  | .finished => p
  | .error => p

/-- `s_init_from_uri_str`: states only move forward, so four iterations always reach
FINISHED or ERROR (theorem `parse_terminates` in Proofs/C13). -/
def runParser (s : Bytes) : Parser :=
  stepParser (stepParser (stepParser (stepParser { rest := s })))

/-- `aws_uri_init_parse` (allocation cannot fail: `aws_mem_acquire` aborts).  Every parse
failure leaves `AWS_ERROR_MALFORMED_INPUT_STRING` as the last error. -/
def parse (s : Bytes) : Except Err Uri :=
  let p := runParser s
  if p.state = .finished then .ok p.uri else .error .malformed

/-! ## builder -/

/-- `snprintf("%" PRIu32)` -/
def decDigitsGo : Nat → Nat → Bytes → Bytes
  | 0, _, acc => acc
  | fuel + 1, n, acc =>
    let acc' := UInt8.ofNat (48 + n % 10) :: acc
    if n / 10 = 0 then acc' else decDigitsGo fuel (n / 10) acc'

def decDigits (n : Nat) : Bytes := decDigitsGo (n + 1) n []

structure BuilderOptions where
  scheme : Bytes := []
  path : Bytes := []
  host : Bytes := []
  port : Nat := 0
  /-- `query_params`: `none` = NULL pointer -/
  params : Option (List (Bytes × Bytes)) := none
  query : Bytes := []

def PORT_BUFFER_SIZE : Nat := 11

/-- the `buffer_size` estimate (uri.c:98-129) -/
def builderSize (o : BuilderOptions) : Nat :=
  (if o.scheme.length ≠ 0 then o.scheme.length + 3 else 0)
  + o.host.length
  + (if o.port ≠ 0 then PORT_BUFFER_SIZE else 0)
  + o.path.length
  + (match o.params with
     | some ps => if ps.length ≠ 0 then 1 + (ps.map (fun kv => kv.1.length + kv.2.length + 2)).sum else 0
     | none => if o.query.length ≠ 0 then 1 + o.query.length else 0)

/-- `aws_byte_buf_append` with its result ignored: nothing is copied when it does not fit -/
def appendBounded (cap : Nat) (buf : Bytes) (x : Bytes) : Bytes :=
  if cap - buf.length < x.length then buf else buf ++ x

def appendParams (cap : Nat) : Bytes → List (Bytes × Bytes) → Bytes
  | buf, [] => buf
  | buf, (k, v) :: rest =>
    let b1 := appendBounded cap buf k
    let b2 := appendBounded cap b1 [61]
    let b3 := appendBounded cap b2 v
    let b4 := if rest.isEmpty then b3 else appendBounded cap b3 [38]
    appendParams cap b4 rest

/-- the text written into `uri_str` by the builder (uri.c:135-177) -/
def builderText (o : BuilderOptions) : Bytes :=
  let cap := builderSize o
  let b := []
  let b := if o.scheme.length ≠ 0 then appendBounded cap (appendBounded cap b o.scheme) [58, 47, 47] else b
  let b := appendBounded cap b o.host
  let b := if o.port ≠ 0 then appendBounded cap (appendBounded cap b [58]) (decDigits o.port) else b
  let b := appendBounded cap b o.path
  match o.params with
  | some ps => appendParams cap (appendBounded cap b [63]) ps
  | none => if o.query.length ≠ 0 then appendBounded cap (appendBounded cap b [63]) o.query else b

/-- `aws_uri_init_from_builder_options`: the text and its parse -/
def build (o : BuilderOptions) : Except Err (Bytes × Uri) :=
  if o.query.length ≠ 0 ∧ o.params.isSome then .error .invalidArgument
  else
    let t := builderText o
    match parse t with
    | .ok u => .ok (t, u)
    | .error e => .error e

/-! ## query-string iteration -/

/-- `struct aws_uri_param` as views into the query string -/
structure Param where
  key : View
  value : View
deriving DecidableEq, Repr

/-- length of the split segment starting at offset `p`: up to the next '&' or the end
(`memchr(substr->ptr, '&', remaining)`) -/
def segLen (q : Bytes) (p : Nat) : Nat :=
  match memchr 38 (q.drop p) with
  | some i => i
  | none => q.length - p

/-- the `do … while (substr.len == 0)` loop around `aws_byte_cursor_next_split` for a non-NULL
query string; `p` = `substr.ptr` after advancing, `fuel` bounds the number of iterations -/
def nextSegment (q : Bytes) : Nat → Nat → Option View
  | 0, _ => none
  | fuel + 1, p =>
    if p > q.length then none           -- substr->ptr > input_end: done
    else
      let n := segLen q p
      if n = 0 then nextSegment q fuel (p + 0 + 1) else some ⟨p, n⟩

/-- key/value split of a segment at the first '=' (uri.c:241-252) -/
def splitParam (q : Bytes) (seg : View) : Param :=
  match memchr 61 ((q.drop seg.off).take seg.len) with
  | some i => ⟨⟨seg.off, i⟩, ⟨seg.off + i + 1, seg.len - i - 1⟩⟩
  | none => ⟨seg, ⟨seg.off + seg.len, 0⟩⟩

/-- `aws_query_string_next_param(query_string, param)`; `q = none` is a zeroed cursor
(`aws_byte_cursor_next_split` then yields one empty split and stops);
`prev = none` is a zeroed `param` (first run) -/
def nextParam (q : Option Bytes) (prev : Option Param) : Option Param :=
  match q with
  | none => none
  | some q =>
    let start := match prev with
      | none => 0
      | some pr =>
        -- substr = (key.ptr, (value.ptr - key.ptr) + value.len); next: substr.ptr += substr.len + 1
        pr.key.off + ((pr.value.off - pr.key.off) + pr.value.len) + 1
    (nextSegment q (q.length + 2) start).map (splitParam q)

/-- `aws_query_string_params`: push every param the iterator yields -/
def paramsGo (q : Option Bytes) : Nat → Option Param → List Param
  | 0, _ => []
  | fuel + 1, prev =>
    match nextParam q prev with
    | none => []
    | some pr => pr :: paramsGo q fuel (some pr)

def queryParams (q : Option Bytes) : List Param :=
  paramsGo q ((q.getD []).length + 1) none

/-- the `aws_array_list_push_back` loop of `aws_query_string_params` on an output list that may already hold
entries: every param goes *behind* what is there.  `cap = some c`: a static list of `c` slots, where push_back
fails (AWS_ERROR_LIST_EXCEEDS_MAX_SIZE) once the list is full and the function returns at once;
`cap = none`: a dynamic list, which grows.  Result: the list and whether the call succeeded. -/
def pushParams {α : Type} (cap : Option Nat) : List α → List α → List α × Bool
  | out, [] => (out, true)
  | out, p :: rest =>
    match cap with
    | some c => if out.length < c then pushParams cap (out ++ [p]) rest else (out, false)
    | none => pushParams cap (out ++ [p]) rest

/-- bytes of a view -/
def View.bytes (v : View) (s : Bytes) : Bytes := (s.drop v.off).take v.len

def optBytes (v : Option View) (s : Bytes) : Bytes :=
  match v with | some v => v.bytes s | none => []

/-- the query string of a parsed URI as the iterator sees it -/
def Uri.queryBytes (u : Uri) (s : Bytes) : Option Bytes := u.query.map (·.bytes s)

/-! ## percent encoding / decoding -/

/-- what one call of the per-character append writes -/
def encChar (safe : UInt8 → Bool) (v : UInt8) : Bytes :=
  if safe v then [v] else [37, upHex (v >>> 4), upHex (v &&& 0x0F)]

/-- pure encoder -/
def encode (safe : UInt8 → Bool) : Bytes → Bytes
  | [] => []
  | c :: r => encChar safe c ++ encode safe r

def encodePath := encode pathSafe
def encodeParam := encode paramSafe

/-- `struct aws_byte_buf` -/
structure Buf where
  data : Bytes
  cap : Nat

/-- `aws_byte_buf_reserve_relative` -/
def reserveRelative (b : Buf) (add : Nat) : Except Err Buf :=
  if b.data.length + add > SIZE_MAX then .error .overflow
  else .ok { b with cap := max b.cap (b.data.length + add) }

/-- the write loop of `s_encode_cursor_to_buffer`; `none` = the `AWS_ASSERT(len + 3 <= capacity)`
of the append function is violated (a write outside the reservation would be possible) -/
def encodeLoop (safe : UInt8 → Bool) : Buf → Bytes → Option Buf
  | b, [] => some b
  | b, c :: r =>
    if b.data.length + 3 ≤ b.cap then encodeLoop safe { b with data := b.data ++ encChar safe c } r
    else none

inductive EncRes
  | ok (b : Buf)
  | err (e : Err)
  | fault

/-- `s_encode_cursor_to_buffer` -/
def appendEncoding (safe : UInt8 → Bool) (b : Buf) (cur : Bytes) : EncRes :=
  if 3 * cur.length > SIZE_MAX then .err .overflow
  else match reserveRelative b (3 * cur.length) with
    | .error e => .err e
    | .ok b1 => match encodeLoop safe b1 cur with
      | some b2 => .ok b2
      | none => .fault

/-- the loop of `aws_byte_buf_append_decoding_uri`: bytes written, and whether the whole input
was consumed (false: `aws_byte_cursor_read_hex_u8` failed: fewer than two bytes left after '%',
or one of them is not a hex digit) -/
def decodeGo : Bytes → Bytes × Bool
  | [] => ([], true)
  | [c] => if c = 37 then ([], false) else ([c], true)
  | [c, d] =>
    if c = 37 then ([], false) else
    let r := decodeGo [d]
    (c :: r.1, r.2)
  | c :: h :: l :: r' =>
    if c = 37 then
      let hi := hexToNum h
      let lo := hexToNum l
      if hi ≠ 255 ∧ lo ≠ 255 then
        let r := decodeGo r'
        (((hi <<< 4) ||| lo) :: r.1, r.2)
      else ([], false)
    else
      let r := decodeGo (h :: l :: r')
      (c :: r.1, r.2)

/-- `aws_byte_buf_append_decoding_uri` as a function on byte strings -/
def decode (bs : Bytes) : Except Err Bytes :=
  let r := decodeGo bs
  if r.2 then .ok r.1 else .error .malformed

/-- buffer form: reserve `cursor->len`, then the loop (on failure the bytes already written stay) -/
def appendDecoding (b : Buf) (cur : Bytes) : Except Err Buf × Buf :=
  match reserveRelative b cur.length with
  | .error e => (.error e, b)
  | .ok b1 =>
    let r := decodeGo cur
    let b2 : Buf := { b1 with data := b1.data ++ r.1 }
    (if r.2 then .ok b2 else .error .malformed, b2)

end AwsVerif.Uri
