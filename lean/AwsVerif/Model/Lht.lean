/-!
Model of `source/linked_hash_table.c` and the three caches built on it
(`source/cache.c`, `fifo_cache.c`, `lifo_cache.c`, `lru_cache.c`).

A linked hash table is a hash table `key ↦ node` plus a doubly linked list of the nodes; the
list is the iteration (and eviction) order.  The abstraction used here is the list of
`(key, value)` pairs in list order.  (That the underlying hash table is a map and the list a
sequence are the subjects of C02 / C09.)

Keys are `(ident, ptr)` pairs: the user's `equals_fn`/`hash_fn` see only `ident`, while
`element->key != key` in `aws_linked_hash_table_put` compares the pointers, i.e. the whole pair.
So keys that are equal by comparison but distinct as pointers exist.  Values are opaque numbers.

Destructor calls are returned as an event list per operation (`Ev.key k` =
`user_on_key_destroy(k)`, `Ev.val v` = `user_on_value_destroy(v)`); a table created without a
destructor produces no event of that kind.
-/
namespace AwsVerif.Lht

structure Key where
  ident : Nat
  ptr   : Nat
deriving DecidableEq, Repr

abbrev Entry := Key × Nat

inductive Ev where
  | key (k : Key)
  | val (v : Nat)
deriving DecidableEq, Repr

structure Table where
  entries : List Entry       -- iteration order, front first
  keyDtor : Bool             -- destroy_key_fn != NULL
  valDtor : Bool             -- destroy_value_fn != NULL
deriving Repr

/-- `aws_hash_table_find`: the entry whose key is equal (by `equals_fn`) to identity `i` -/
def lookup (es : List Entry) (i : Nat) : Option Entry := es.find? (fun e => e.1.ident == i)

/-- unlink the node found for identity `i` (one node: `aws_linked_list_remove(&node->node)`) -/
def erase (es : List Entry) (i : Nat) : List Entry := es.eraseP (fun e => e.1.ident == i)

namespace Table

def kev (t : Table) (k : Key) : List Ev := if t.keyDtor then [.key k] else []
def vev (t : Table) (v : Nat) : List Ev := if t.valDtor then [.val v] else []

def count (t : Table) : Nat := t.entries.length

/-- `aws_linked_hash_table_put`: create-or-find; an existing node is destroyed
(`s_element_destroy`: value destructor, unlink, free), the old key is destroyed iff it is a
different pointer, the element is pointed at the new key; the new node goes to the back. -/
def put (t : Table) (k : Key) (v : Nat) : Table × List Ev :=
  match lookup t.entries k.ident with
  | none => ({ t with entries := t.entries ++ [(k, v)] }, [])
  | some (k0, v0) =>
    ({ t with entries := erase t.entries k.ident ++ [(k, v)] },
     t.vev v0 ++ (if k0 = k then [] else t.kev k0))

/-- `aws_linked_hash_table_find`: `*p_value` (`none` = NULL) -/
def find (t : Table) (i : Nat) : Option Nat := (lookup t.entries i).map (·.2)

/-- `aws_linked_hash_table_find_and_move_to_back` -/
def findMove (t : Table) (i : Nat) : Table × Option Nat :=
  match lookup t.entries i with
  | none => (t, none)
  | some e => ({ t with entries := erase t.entries i ++ [e] }, some e.2)

/-- `aws_linked_hash_table_remove` = `aws_hash_table_remove(.., NULL, NULL)`: key destructor,
then `s_element_destroy` (value destructor, unlink, free). -/
def remove (t : Table) (i : Nat) : Table × List Ev :=
  match lookup t.entries i with
  | none => (t, [])
  | some (k0, v0) => ({ t with entries := erase t.entries i }, t.kev k0 ++ t.vev v0)

/-- `aws_linked_hash_table_clear`: every entry's key and value destroyed (the C visits them in
hash-slot order; the order of the events is not modelled and is canonicalised before comparing). -/
def clear (t : Table) : Table × List Ev :=
  ({ t with entries := [] }, t.entries.flatMap (fun e => t.kev e.1 ++ t.vev e.2))

/-- `aws_linked_hash_table_move_node_to_end_of_list` for the node of identity `i` -/
def moveToEnd (t : Table) (i : Nat) : Table := (t.findMove i).1

end Table

/-- `none` = a bare linked hash table (never evicts) -/
inductive Policy where
  | none | fifo | lifo | lru
deriving DecidableEq, Repr

structure Cache where
  policy : Policy
  max    : Nat
  table  : Table
deriving Repr

def Cache.init (p : Policy) (max : Nat) (keyDtor valDtor : Bool) : Cache :=
  { policy := p, max := max, table := { entries := [], keyDtor := keyDtor, valDtor := valDtor } }

/-- the key the cache's `put` passes to `aws_linked_hash_table_remove` when over the limit:
FIFO / LRU `aws_linked_list_front(list)`; LIFO `aws_linked_list_back(list)->prev`. -/
def evictKey (p : Policy) (es : List Entry) : Option Key :=
  match p with
  | .none => none
  | .fifo => es.head?.map (·.1)
  | .lru => es.head?.map (·.1)
  | .lifo => es.dropLast.getLast?.map (·.1)

/-- `s_fifo_cache_put` / `s_lifo_cache_put` / `s_lru_cache_put` -/
def Cache.put (c : Cache) (k : Key) (v : Nat) : Cache × List Ev :=
  let r1 := c.table.put k v
  if c.policy ≠ .none ∧ r1.1.count > c.max then
    match evictKey c.policy r1.1.entries with
    | some kv =>
      let r2 := r1.1.remove kv.ident
      ({ c with table := r2.1 }, r1.2 ++ r2.2)
    | none => ({ c with table := r1.1 }, r1.2)
  else ({ c with table := r1.1 }, r1.2)

inductive Op where
  | put (k : Key) (v : Nat)
  | find (i : Nat)          -- the cache's / table's `find` (LRU: find-and-move-to-back)
  | findMove (i : Nat)      -- `aws_linked_hash_table_find_and_move_to_back`
  | remove (i : Nat)
  | clear
  | moveToEnd (i : Nat)
  | useLru                  -- `aws_lru_cache_use_lru_element`
  | getMru                  -- `aws_lru_cache_get_mru_element`
deriving DecidableEq, Repr

/-- one API call: new state, returned value (`none` = NULL / not applicable), destructor events -/
def Cache.step (c : Cache) : Op → Cache × Option Nat × List Ev
  | .put k v => ((c.put k v).1, none, (c.put k v).2)
  | .find i =>
    if c.policy = .lru then ({ c with table := (c.table.findMove i).1 }, (c.table.findMove i).2, [])
    else (c, c.table.find i, [])
  | .findMove i => ({ c with table := (c.table.findMove i).1 }, (c.table.findMove i).2, [])
  | .remove i => ({ c with table := (c.table.remove i).1 }, none, (c.table.remove i).2)
  | .clear => ({ c with table := c.table.clear.1 }, none, c.table.clear.2)
  | .moveToEnd i => ({ c with table := c.table.moveToEnd i }, none, [])
  | .useLru =>
    match c.table.entries with
    | [] => (c, none, [])
    | e :: rest => ({ c with table := { c.table with entries := rest ++ [e] } }, some e.2, [])
  | .getMru => (c, c.table.entries.getLast?.map (·.2), [])

/-- state after a history -/
def run (c : Cache) : List Op → Cache
  | [] => c
  | op :: ops => run (c.step op).1 ops

/-- state and the complete destructor log after a history -/
def runLog (c : Cache) : List Op → Cache × List Ev
  | [] => (c, [])
  | op :: ops =>
    let r := c.step op
    let r' := runLog r.1 ops
    (r'.1, r.2.2 ++ r'.2)

end AwsVerif.Lht
