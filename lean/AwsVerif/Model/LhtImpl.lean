import AwsVerif.Model.HashTable
import AwsVerif.Model.LinkedList
import AwsVerif.Model.Lht
/-!
The linked hash table *as implemented* in `source/linked_hash_table.c`: an `aws_hash_table`
(`Model/HashTable.lean`, the C02 model) whose values are pointers to
`struct aws_linked_hash_table_node`, plus an intrusive `aws_linked_list`
(`Model/LinkedList.lean`, the C09 model) threading the `node` member of those structs.

* A node pointer is a `NodeId`; its `node` member (next / prev) lives in the linked-list heap,
  its `key` / `value` members in `nodeKey` / `nodeVal`.  `aws_mem_calloc` returns the fresh id
  `next` (assumption: the allocator returns memory not in use).
* The table is created with `destroy_key_fn` = the user's key destructor and `destroy_value_fn` =
  `s_element_destroy`; the hash-table model reports callback invocations as `HashTable.Ev`
  (`.k key`, `.v value`), which `callbacks` executes: `.k key` is the user's key destructor,
  `.v (some n)` is `s_element_destroy(n)` (user value destructor on `n->value`,
  `aws_linked_list_remove(&n->node)`, free).
* A NULL dereference (`aws_linked_list_remove` of a node with a NULL link, `element->value == NULL`
  where the code reads through it) is `Out.crash`; `c18_impl_refines_lht` shows it unreachable.
* `h : Nat → Nat` is the user's hash function on key identities (arbitrary).
-/
namespace AwsVerif.LhtImpl
open AwsVerif

abbrev NodeId := LinkedList.NodeId

structure State where
  ht      : HashTable.Table       -- table->table
  heap    : LinkedList.Heap       -- the list sentinels and every node's `node` member
  list    : LinkedList.LL         -- table->list
  nodeKey : NodeId → Lht.Key      -- node->key
  nodeVal : NodeId → Nat          -- node->value
  next    : NodeId                -- allocator: the next fresh node
  keyDtor : Bool                  -- table->user_on_key_destroy != NULL
  valDtor : Bool                  -- table->user_on_value_destroy != NULL

/-- a user key as the hash table sees it -/
def hk (k : Lht.Key) : HashTable.Key := .mk k.ident k.ptr

def unHk : HashTable.Key → Lht.Key
  | .mk i p => ⟨i, p⟩
  | .null => ⟨0, 0⟩

/-- `aws_linked_hash_table_init`: `aws_linked_list_init(&table->list)`, then `aws_hash_table_init`
with `destroy_key_fn` and `s_element_destroy` -/
def init (size : Nat) (keyDtor valDtor : Bool) : Except HashTable.Err State :=
  match HashTable.init size keyDtor true with
  | .error e => .error e
  | .ok t =>
    .ok { ht := t, heap := LinkedList.init LinkedList.emptyHeap ⟨0, 1⟩, list := ⟨0, 1⟩,
          nodeKey := fun _ => ⟨0, 0⟩, nodeVal := fun _ => 0, next := 2,
          keyDtor := keyDtor, valDtor := valDtor }

inductive Out (α : Type) where
  | ok (s : State) (r : α) (evs : List Lht.Ev)
  | err (s : State)      -- AWS_OP_ERR (the hash table could not grow)
  | crash                -- NULL dereference

/-- `s_element_destroy(node)`: user value destructor, `aws_linked_list_remove(&node->node)`, free -/
def elementDestroy (s : State) (heap : LinkedList.Heap) (n : NodeId) : Option (LinkedList.Heap × List Lht.Ev) :=
  match LinkedList.remove heap n with
  | none => none
  | some heap' => some (heap', if s.valDtor then [Lht.Ev.val (s.nodeVal n)] else [])

/-- run the callbacks the hash table invoked, in order -/
def callbacks (s : State) : LinkedList.Heap → List HashTable.Ev → Option (LinkedList.Heap × List Lht.Ev)
  | heap, [] => some (heap, [])
  | heap, .k key :: rest =>
    match callbacks s heap rest with
    | none => none
    | some (heap', evs) => some (heap', Lht.Ev.key (unHk key) :: evs)
  | heap, .v (some n) :: rest =>
    match elementDestroy s heap n with
    | none => none
    | some (heap1, e1) =>
      match callbacks s heap1 rest with
      | none => none
      | some (heap', evs) => some (heap', e1 ++ evs)
  | _, .v none :: _ => none

/-- `aws_linked_hash_table_move_node_to_end_of_list`: remove, push_back -/
def moveNodeToEnd (heap : LinkedList.Heap) (l : LinkedList.LL) (n : NodeId) : Option LinkedList.Heap :=
  match LinkedList.remove heap n with
  | none => none
  | some heap1 => LinkedList.pushBack heap1 l n

/-- `aws_linked_hash_table_put` -/
def put (h : Nat → Nat) (s : State) (key : Lht.Key) (value : Nat) : Out Unit :=
  let n := s.next                                   -- node = aws_mem_calloc(...)
  match HashTable.create h s.ht (hk key) with       -- aws_hash_table_create(&table->table, key, &element, &was_added)
  | .error _ => .err { s with next := n + 1 }       -- aws_mem_release(node); return err_val
  | .ok r =>
    match HashTable.rd r.table.slots r.idx with
    | none => .crash
    | some el =>
      match el.val with
      | some old =>                                 -- if (element->value)
        match elementDestroy s s.heap old with      --   s_element_destroy(element->value)
        | none => .crash
        | some (heap1, e1) =>
          let e2 := if s.keyDtor ∧ el.key ≠ hk key then [Lht.Ev.key (unHk el.key)] else []
          match LinkedList.pushBack heap1 s.list n with
          | none => .crash
          | some heap2 =>
            .ok { s with
                  -- element->key = key; element->value = node
                  ht := { r.table with slots := HashTable.wr r.table.slots r.idx (some { el with key := hk key, val := some n }) },
                  heap := heap2,
                  nodeKey := fun m => if m = n then key else s.nodeKey m,
                  nodeVal := fun m => if m = n then value else s.nodeVal m,
                  next := n + 1 } () (e1 ++ e2)
      | none =>
        match LinkedList.pushBack s.heap s.list n with
        | none => .crash
        | some heap2 =>
          .ok { s with
                ht := { r.table with slots := HashTable.wr r.table.slots r.idx (some { el with val := some n }) },
                heap := heap2,
                nodeKey := fun m => if m = n then key else s.nodeKey m,
                nodeVal := fun m => if m = n then value else s.nodeVal m,
                next := n + 1 } () []

/-- `aws_linked_hash_table_find` -/
def find (h : Nat → Nat) (s : State) (key : Lht.Key) : Out (Option Nat) :=
  match HashTable.find h s.ht (hk key) with
  | none => .ok s none []                           -- *p_value = NULL
  | some (_, some n) => .ok s (some (s.nodeVal n)) []
  | some (_, none) => .crash

/-- `aws_linked_hash_table_find_and_move_to_back` -/
def findMove (h : Nat → Nat) (s : State) (key : Lht.Key) : Out (Option Nat) :=
  match HashTable.find h s.ht (hk key) with
  | none => .ok s none []
  | some (_, some n) =>
    match moveNodeToEnd s.heap s.list n with
    | none => .crash
    | some heap' => .ok { s with heap := heap' } (some (s.nodeVal n)) []
  | some (_, none) => .crash

/-- `aws_linked_hash_table_remove` = `aws_hash_table_remove(&table->table, key, NULL, NULL)` -/
def remove (h : Nat → Nat) (s : State) (key : Lht.Key) : Out Unit :=
  match HashTable.remove h s.ht (hk key) false with
  | .error _ => .crash
  | .ok r =>
    match callbacks s s.heap r.log with
    | none => .crash
    | some (heap', evs) => .ok { s with ht := r.table, heap := heap' } () evs

/-- `aws_linked_hash_table_clear` = `aws_hash_table_clear(&table->table)` -/
def clear (s : State) : Out Unit :=
  match callbacks s s.heap (HashTable.clear s.ht).2 with
  | none => .crash
  | some (heap', evs) => .ok { s with ht := (HashTable.clear s.ht).1, heap := heap' } () evs

/-- `aws_linked_hash_table_move_node_to_end_of_list(table, node)` -/
def moveToEnd (s : State) (n : NodeId) : Out Unit :=
  match moveNodeToEnd s.heap s.list n with
  | none => .crash
  | some heap' => .ok { s with heap := heap' } () []

/-- `aws_linked_hash_table_get_element_count` -/
def count (s : State) : Nat := s.ht.entryCount

/-- calls made with a key (lookups with any probe pointer) -/
inductive IOp where
  | put (k : Lht.Key) (v : Nat)
  | find (probe : Lht.Key)
  | findMove (probe : Lht.Key)
  | remove (probe : Lht.Key)
  | clear

def step (h : Nat → Nat) (s : State) : IOp → Out (Option Nat)
  | .put k v => match put h s k v with
    | .ok s' _ evs => .ok s' none evs
    | .err s' => .err s'
    | .crash => .crash
  | .find p => find h s p
  | .findMove p => findMove h s p
  | .remove p => match remove h s p with
    | .ok s' _ evs => .ok s' none evs
    | .err s' => .err s'
    | .crash => .crash
  | .clear => match clear s with
    | .ok s' _ evs => .ok s' none evs
    | .err s' => .err s'
    | .crash => .crash

/-- the abstract call corresponding to an implemented call -/
def IOp.abs : IOp → Lht.Op
  | .put k v => .put k v
  | .find p => .find p.ident
  | .findMove p => .findMove p.ident
  | .remove p => .remove p.ident
  | .clear => .clear

/-- iteration: walk `table->list` and read each node's key and value (`none`: broken list) -/
def iterate (s : State) (fuel : Nat) : Option (List Lht.Entry) :=
  (LinkedList.toList s.heap s.list fuel).map fun ns => ns.map fun n => (s.nodeKey n, s.nodeVal n)

end AwsVerif.LhtImpl
