import AwsVerif.Gen.ByteBufTables
/-!
Model of `source/byte_buf.c` / `include/aws/common/byte_buf.h` (aws_byte_buf, aws_byte_cursor).

Memory (DESIGN 4.3): a heap of regions, `Region = List (Option UInt8)` (`none` = never written),
region ids are never reused, a released region becomes `none` in the heap and a `Release` event
with a snapshot of its bytes is appended to the allocator log.  Buffers and cursors are
`(region id?, [offset,] len [, cap])`; `rid = none` is the NULL pointer.  Every dereference the C
code performs goes through `Cur.load` / `Buf.load` / `Buf.store` / `Src.load`, which fault with
`Fault.oob` on any access outside the *object's* bound (cursor length, buffer capacity, literal
length) or outside the region that backs it, and with `Fault.dangling` when the region was
released (use after free — a caller error, not an out-of-bounds access of the library).

Sizes are `Nat`; where the C expression can wrap (`capacity - len`, `len += n`) the model uses
`subW`/`addW` (mod 2^64); checked / saturating additions are `addChecked` / `addSat`.
Guards are transcribed as written in the C source, in the same order.

Environment behaviour that is assumed, not verified: `aws_mem_acquire` returns a fresh block or
aborts (so the allocation-failure branches are not modelled); `mem_realloc` moves the block
(fresh block, copy of the old capacity, release of the old block); memcpy/memset/memchr/memcmp
have their ISO meaning.
-/
namespace AwsVerif.ByteBuf
open AwsVerif.Gen.ByteBufTables

/-! ### sizes -/
def W : Nat := 2 ^ 64
def SIZE_MAX : Nat := 2 ^ 64 - 1
/-- `SIZE_MAX >> 1` -/
def HALF : Nat := SIZE_MAX / 2

/-- `a - b` on `size_t` -/
def subW (a b : Nat) : Nat := (a + W - b) % W
/-- `a + b` on `size_t` -/
def addW (a b : Nat) : Nat := (a + b) % W
/-- `aws_add_size_checked` : `none` = AWS_ERROR_OVERFLOW_DETECTED -/
def addChecked (a b : Nat) : Option Nat := if a + b > SIZE_MAX then none else some (a + b)
/-- `aws_add_size_saturating` -/
def addSat (a b : Nat) : Nat := if a + b > SIZE_MAX then SIZE_MAX else a + b
/-- `aws_mul_u64_checked` -/
def mulChecked (a b : Nat) : Option Nat := if a * b > SIZE_MAX then none else some (a * b)

/-! ### memory -/
abbrev Cell := Option UInt8
abbrev Region := List Cell
abbrev Heap := List (Option Region)

inductive Fault where
  | oob          -- access outside the object's bound / the backing region / through NULL
  | dangling     -- access to (or release of) a released region
  | badOperand   -- operand not representable as size_t / unrelated pointers compared
deriving DecidableEq, Repr

inductive Err where
  | destCopyTooSmall | overflow | invalidArgument | matchNotFound | shortBuffer | listExceedsMaxSize
  | fileInvalidPath | fileReadFailure
deriving DecidableEq, Repr

def Err.name : Err → String
  | .destCopyTooSmall => "AWS_ERROR_DEST_COPY_TOO_SMALL"
  | .overflow => "AWS_ERROR_OVERFLOW_DETECTED"
  | .invalidArgument => "AWS_ERROR_INVALID_ARGUMENT"
  | .matchNotFound => "AWS_ERROR_STRING_MATCH_NOT_FOUND"
  | .shortBuffer => "AWS_ERROR_SHORT_BUFFER"
  | .listExceedsMaxSize => "AWS_ERROR_LIST_EXCEEDS_MAX_SIZE"
  | .fileInvalidPath => "AWS_ERROR_FILE_INVALID_PATH"
  | .fileReadFailure => "AWS_ERROR_FILE_READ_FAILURE"

/-- the live region with id `r` -/
def region? (h : Heap) (r : Nat) : Option Region :=
  match h[r]? with
  | some (some reg) => some reg
  | _ => none

/-- read `n` cells at offset `off` of the block `rid` points to (`memcpy` source, `p[i]`) -/
def loadN (h : Heap) (rid : Option Nat) (off n : Nat) : Except Fault (List Cell) :=
  if n = 0 then .ok [] else
  match rid with
  | none => .error .oob
  | some r =>
    match region? h r with
    | none => .error .dangling
    | some reg => if off + n ≤ reg.length then .ok ((reg.drop off).take n) else .error .oob

/-- overwrite `cells.length` cells at offset `off` -/
def splice (reg : Region) (off : Nat) (cells : List Cell) : Region :=
  reg.take off ++ cells ++ reg.drop (off + cells.length)

/-- write cells at offset `off` of the block `rid` points to (`memcpy` destination, `p[i] = v`) -/
def storeN (h : Heap) (rid : Option Nat) (off : Nat) (cells : List Cell) : Except Fault Heap :=
  if cells.length = 0 then .ok h else
  match rid with
  | none => .error .oob
  | some r =>
    match region? h r with
    | none => .error .dangling
    | some reg =>
      if off + cells.length ≤ reg.length then .ok (h.set r (some (splice reg off cells))) else .error .oob

/-- one release of a block back to the allocator: which block, what it contained at that moment,
and whether the releasing code path was a `_secure` one -/
structure Release where
  rid : Nat
  snapshot : Region
  secure : Bool
deriving DecidableEq, Repr

structure Mem where
  heap : Heap
  events : List Release      -- oldest first
deriving Repr

/-- `aws_mem_acquire(alloc, n)` for `n > 0`: a fresh block of never-written cells -/
def Mem.alloc (m : Mem) (n : Nat) : Mem × Nat :=
  ({ m with heap := m.heap ++ [some (List.replicate n none)] }, m.heap.length)

/-- `aws_mem_release(alloc, p)` for `p != NULL` -/
def Mem.release (m : Mem) (r : Nat) (secure : Bool) : Except Fault Mem :=
  match region? m.heap r with
  | none => .error .dangling
  | some reg => .ok { heap := m.heap.set r none, events := m.events ++ [⟨r, reg, secure⟩] }

/-! ### buffers, cursors, sources -/
structure Buf where
  rid : Option Nat     -- `buffer` (none = NULL)
  len : Nat
  cap : Nat
  owned : Bool         -- `allocator != NULL`
deriving DecidableEq, Repr

structure Cur where
  rid : Option Nat     -- `ptr` = block + off (none = NULL)
  off : Nat
  len : Nat
deriving DecidableEq, Repr

def Buf.zero : Buf := ⟨none, 0, 0, false⟩
def Cur.zero : Cur := ⟨none, 0, 0⟩

/-- read through a cursor: `c.ptr[i .. i+n)`; the object's bound is `c.len` -/
def Cur.load (h : Heap) (c : Cur) (i n : Nat) : Except Fault (List Cell) :=
  if n = 0 then .ok [] else
  if i + n ≤ c.len then loadN h c.rid (c.off + i) n else .error .oob

/-- read `b.buffer[i .. i+n)`; the object's bound is `b.cap` -/
def Buf.load (h : Heap) (b : Buf) (i n : Nat) : Except Fault (List Cell) :=
  if n = 0 then .ok [] else
  if i + n ≤ b.cap then loadN h b.rid i n else .error .oob

/-- write `b.buffer[i .. i+cells.length)`; the object's bound is `b.cap` -/
def Buf.store (h : Heap) (b : Buf) (i : Nat) (cells : List Cell) : Except Fault Heap :=
  if cells.length = 0 then .ok h else
  if i + cells.length ≤ b.cap then storeN h b.rid i cells else .error .oob

/-- A read-only source of an append/write: a cursor, or a harness/library-local array
(`&value`, `"\0"`, `(uint8_t *)&x`, the `src` argument of `aws_byte_buf_write`). -/
inductive Src where
  | cur (c : Cur)
  | lit (bs : List UInt8)
deriving Repr

def Src.len : Src → Nat
  | .cur c => c.len
  | .lit bs => bs.length

def Src.load (h : Heap) : Src → Nat → Nat → Except Fault (List Cell)
  | .cur c, i, n => c.load h i n
  | .lit bs, i, n => if i + n ≤ bs.length then .ok (((bs.drop i).take n).map some) else .error .oob

/-- `aws_byte_buf_is_valid` (NDEBUG build: AWS_MEM_IS_WRITABLE(p,n) is `n == 0 || p`) -/
def Buf.isValid (b : Buf) : Bool :=
  (b.cap == 0 && b.len == 0 && b.rid.isNone) || (decide (b.cap > 0) && decide (b.len ≤ b.cap) && b.rid.isSome)

/-- `aws_byte_cursor_is_valid` -/
def Cur.isValid (c : Cur) : Bool := c.len == 0 || (decide (c.len > 0) && c.rid.isSome)

/-- what an uninitialised byte reads as (the harness allocator fills fresh blocks with 0xCD) -/
def cellVal (c : Cell) : UInt8 := c.getD 0xCD

def tolower (b : UInt8) : UInt8 := tolowerTable.getD b.toNat 0
def hexToNum (b : UInt8) : UInt8 := hexToNumTable.getD b.toNat 255

/-! ### aws_byte_buf: init / copy / reset / clean_up -/

/-- `aws_byte_buf_init` -/
def bufInit (m : Mem) (cap : Nat) : Mem × Buf :=
  if cap = 0 then (m, ⟨none, 0, 0, true⟩)
  else let (m', r) := m.alloc cap; (m', ⟨some r, 0, cap, true⟩)

/-- `aws_byte_buf_init_copy`; `dest` is returned unchanged when the precondition fails -/
def bufInitCopy (m : Mem) (dest src : Buf) : Except Fault (Option Err × Mem × Buf) :=
  if !src.isValid then .ok (some .invalidArgument, m, dest) else
  match src.rid with
  | none => .ok (none, m, ⟨none, 0, 0, true⟩)
  | some _ =>
    let (m1, r) := m.alloc src.cap
    let d : Buf := ⟨some r, src.len, src.cap, true⟩
    do
      let cells ← src.load m1.heap 0 src.len          -- memcpy(dest->buffer, src->buffer, src->len)
      let h2 ← d.store m1.heap 0 cells
      .ok (none, { m1 with heap := h2 }, d)

/-- `aws_byte_buf_init_copy_from_cursor` -/
def bufInitCopyFromCursor (m : Mem) (dest : Buf) (src : Cur) : Except Fault (Option Err × Mem × Buf) :=
  if !src.isValid then .ok (some .invalidArgument, m, dest) else
  if src.len = 0 then .ok (none, m, ⟨none, 0, 0, true⟩) else
  let (m1, r) := m.alloc src.len
  let d : Buf := ⟨some r, src.len, src.len, true⟩
  do
    let cells ← src.load m1.heap 0 src.len
    let h2 ← d.store m1.heap 0 cells
    .ok (none, { m1 with heap := h2 }, d)

/-- `aws_secure_zero(p, n)` : returns at once for `p == NULL || n == 0` -/
def secureZeroMem (h : Heap) (rid : Option Nat) (n : Nat) : Except Fault Heap :=
  match rid with
  | none => .ok h
  | some r => storeN h (some r) 0 (List.replicate n (some 0))

/-- `aws_byte_buf_secure_zero` -/
def bufSecureZero (h : Heap) (b : Buf) : Except Fault (Heap × Buf) := do
  let h' ← secureZeroMem h b.rid b.cap
  .ok (h', { b with len := 0 })

/-- `aws_byte_buf_reset` -/
def bufReset (h : Heap) (b : Buf) (zero : Bool) : Except Fault (Heap × Buf) :=
  if zero then do
    let (h', b') ← bufSecureZero h b
    .ok (h', { b' with len := 0 })
  else .ok (h, { b with len := 0 })

/-- `aws_byte_buf_clean_up`; `secure` only tags the release event (set by `clean_up_secure`) -/
def bufCleanUp (m : Mem) (b : Buf) (secure : Bool := false) : Except Fault (Mem × Buf) :=
  match b.owned, b.rid with
  | true, some r => do
    let m' ← m.release r secure
    .ok (m', Buf.zero)
  | _, _ => .ok (m, Buf.zero)

/-- `aws_byte_buf_clean_up_secure` -/
def bufCleanUpSecure (m : Mem) (b : Buf) : Except Fault (Mem × Buf) := do
  let (h1, b1) ← bufSecureZero m.heap b
  bufCleanUp { m with heap := h1 } b1 true

/-! ### append family -/

/-- `aws_byte_buf_append` -/
def bufAppend (h : Heap) (to : Buf) (fr : Cur) : Except Fault (Option Err × Heap × Buf) :=
  if subW to.cap to.len < fr.len then .ok (some .destCopyTooSmall, h, to)
  else if fr.len > 0 then do
    let cells ← fr.load h 0 fr.len
    let h' ← to.store h to.len cells                   -- memcpy(to->buffer + to->len, from->ptr, from->len)
    .ok (none, h', { to with len := addW to.len fr.len })
  else .ok (none, h, to)

/-- `aws_byte_buf_append_with_lookup` (table = `aws_lookup_table_to_lower_get()`).  The checked
addition after the loop is transcribed as written: it would report failure *after* the bytes were
stored; `c01_fail_unchanged` shows it is unreachable from a valid buffer. -/
def bufAppendWithLookup (h : Heap) (to : Buf) (fr : Cur) : Except Fault (Option Err × Heap × Buf) :=
  if subW to.cap to.len < fr.len then .ok (some .destCopyTooSmall, h, to)
  else do
    let cells ← fr.load h 0 fr.len
    let h' ← to.store h to.len (cells.map (fun c => c.map tolower))
    match addChecked to.len fr.len with
    | none => .ok (some .overflow, h', to)
    | some l => .ok (none, h', { to with len := l })

/-- `if (k > 0) memcpy(nb + off, src, k)` where `ld` reads the `k` source cells -/
def copyInto (h : Heap) (nb : Buf) (off k : Nat) (ld : Except Fault (List Cell)) : Except Fault Heap :=
  if k > 0 then (do let c ← ld; nb.store h off c) else pure h

/-- `aws_mem_release(alloc, p)` : no-op for `p == NULL` -/
def releaseOpt (m : Mem) (rid : Option Nat) (secure : Bool) : Except Fault Mem :=
  match rid with
  | none => pure m
  | some r0 => m.release r0 secure

/-- `if (clear_released_memory) aws_secure_zero(p, n)` -/
def secureZeroIf (h : Heap) (secure : Bool) (rid : Option Nat) (n : Nat) : Except Fault Heap :=
  if secure then secureZeroMem h rid n else pure h

/-- growth path of `s_aws_byte_buf_append_dynamic`: acquire `newCap`, copy old buffer -> new
buffer, copy what was to be appended, optionally zero the old block, release it, switch. -/
def growAppend (m : Mem) (to : Buf) (fr : Src) (secure : Bool) (newCap : Nat) : Except Fault (Mem × Buf) :=
  let m1 := (m.alloc newCap).1
  let r := (m.alloc newCap).2
  let nb : Buf := ⟨some r, to.len, newCap, true⟩
  do
    let h2 ← copyInto m1.heap nb 0 to.len (to.load m1.heap 0 to.len)
    let h3 ← copyInto h2 nb to.len fr.len (fr.load h2 0 fr.len)
    let h4 ← secureZeroIf h3 secure to.rid to.cap
    let m5 ← releaseOpt { m1 with heap := h4 } to.rid secure
    .ok (m5, ⟨some r, addW to.len fr.len, newCap, true⟩)

/-- `s_aws_byte_buf_append_dynamic` -/
def bufAppendDynamic (m : Mem) (to : Buf) (fr : Src) (secure : Bool) : Except Fault (Option Err × Mem × Buf) :=
  if !to.owned then .ok (some .invalidArgument, m, to) else
  if subW to.cap to.len < fr.len then
    let missing := subW fr.len (subW to.cap to.len)
    match addChecked to.cap missing with
    | none => .ok (some .overflow, m, to)
    | some required =>
      let growth := addSat to.cap to.cap
      let newCap := if required < growth then growth else required
      do
        let (m5, nb) ← growAppend m to fr secure newCap
        .ok (none, m5, nb)
  else do
    let h' ← copyInto m.heap to to.len fr.len (fr.load m.heap 0 fr.len)
    .ok (none, { m with heap := h' }, { to with len := addW to.len fr.len })

/-- `aws_byte_buf_append_and_update` : on success the cursor is re-pointed into `to` -/
def bufAppendAndUpdate (h : Heap) (to : Buf) (fr : Cur) : Except Fault (Option Err × Heap × Buf × Cur) := do
  let (e, h', to') ← bufAppend h to fr
  match e with
  | some e => .ok (some e, h', to', fr)
  | none =>
    let c' : Cur := match to'.rid with
      | none => { fr with rid := none, off := 0 }
      | some r => { fr with rid := some r, off := subW to'.len fr.len }
    .ok (none, h', to', c')

/-! ### reserve family -/

/-- `aws_mem_realloc` through the allocator's `mem_realloc`: fresh block, copy of the old
capacity, release of the old block -/
def growReserve (m : Mem) (b : Buf) (r0 req : Nat) : Except Fault (Mem × Buf) :=
  let m1 := (m.alloc req).1
  let r := (m.alloc req).2
  let nb : Buf := ⟨some r, b.len, req, true⟩
  do
    let old ← b.load m1.heap 0 b.cap
    let h2 ← nb.store m1.heap 0 old
    let m3 ← Mem.release { m1 with heap := h2 } r0 false
    .ok (m3, nb)

/-- `aws_byte_buf_reserve` -/
def bufReserve (m : Mem) (b : Buf) (req : Nat) : Except Fault (Option Err × Mem × Buf) :=
  if !b.owned then .ok (some .invalidArgument, m, b) else
  if !b.isValid then .ok (some .invalidArgument, m, b) else
  if req ≤ b.cap then .ok (none, m, b) else
  match b.rid with
  | none =>
    if b.cap = 0 then .ok (none, (bufInit m req).1, (bufInit m req).2)
    else .error .oob      -- realloc(NULL-with-capacity): excluded by isValid
  | some r0 => do
    let (m3, nb) ← growReserve m b r0 req
    .ok (none, m3, nb)

/-- `aws_byte_buf_reserve_relative` -/
def bufReserveRelative (m : Mem) (b : Buf) (add : Nat) : Except Fault (Option Err × Mem × Buf) :=
  if !b.owned then .ok (some .invalidArgument, m, b) else
  if !b.isValid then .ok (some .invalidArgument, m, b) else
  match addChecked b.len add with
  | none => .ok (some .overflow, m, b)
  | some req => bufReserve m b req

/-- `aws_byte_buf_reserve_smart` -/
def bufReserveSmart (m : Mem) (b : Buf) (req : Nat) : Except Fault (Option Err × Mem × Buf) :=
  if req ≤ b.cap then .ok (none, m, b) else
  let dbl := addSat b.cap b.cap
  bufReserve m b (if req < dbl then dbl else req)       -- aws_max_size(requested, double)

/-- `aws_byte_buf_reserve_smart_relative` -/
def bufReserveSmartRelative (m : Mem) (b : Buf) (add : Nat) : Except Fault (Option Err × Mem × Buf) :=
  match addChecked b.len add with
  | none => .ok (some .overflow, m, b)
  | some req => bufReserveSmart m b req

/-! ### write family -/

/-- `aws_byte_buf_advance` : the output view `(ptr, off, capacity)` on success (`len = 0`,
`allocator = NULL`); `none` = `*output` zeroed, `false` returned. -/
def bufAdvance (b : Buf) (n : Nat) : Option (Option Nat × Nat × Nat) × Buf :=
  if subW b.cap b.len ≥ n then
    -- aws_byte_buf_from_array(buffer ? buffer + len : NULL, n): buffer field is NULL when n = 0
    let v : Option Nat × Nat × Nat := match b.rid with
      | none => (none, 0, n)
      | some r => if n > 0 then (some r, b.len, n) else (none, 0, n)
    (some v, { b with len := addW b.len n })
  else (none, b)

/-- `aws_byte_buf_write(buf, src, len)` -/
def bufWrite (h : Heap) (b : Buf) (src : Src) (n : Nat) : Except Fault (Bool × Heap × Buf) :=
  if n = 0 then .ok (true, h, b) else
  if b.len > HALF ∨ n > HALF ∨ b.len + n > b.cap then .ok (false, h, b) else do
    let cells ← src.load h 0 n
    let h' ← b.store h b.len cells
    .ok (true, h', { b with len := b.len + n })

/-- `aws_byte_buf_write_u8_n` (memset) -/
def bufWriteU8N (h : Heap) (b : Buf) (v : UInt8) (n : Nat) : Except Fault (Bool × Heap × Buf) :=
  if b.len > HALF ∨ n > HALF ∨ b.len + n > b.cap then .ok (false, h, b) else do
    let h' ← b.store h b.len (List.replicate n (some v))
    .ok (true, h', { b with len := b.len + n })

/-- big-endian bytes of `x`, `k` of them (low `8k` bits) -/
def beBytes : Nat → Nat → List UInt8
  | 0, _ => []
  | k + 1, x => UInt8.ofNat ((x / 256 ^ k) % 256) :: beBytes k x

def beValue (bs : List UInt8) : Nat := bs.foldl (fun a b => a * 256 + b.toNat) 0

/-- `aws_byte_buf_write_be24` -/
def bufWriteBe24 (h : Heap) (b : Buf) (x : Nat) : Except Fault (Bool × Heap × Buf) :=
  if x > 0x00FFFFFF then .ok (false, h, b) else bufWrite h b (.lit (beBytes 3 x)) 3

/-! ### cursors: advance / read -/

/-- `aws_byte_cursor_advance` : (returned cursor, cursor after) -/
def curAdvance (c : Cur) (n : Nat) : Cur × Cur :=
  if c.len > HALF ∨ n > HALF ∨ n > c.len then (Cur.zero, c)
  else
    (⟨c.rid, c.off, n⟩,
     match c.rid with
     | none => { c with len := c.len - n }
     | some r => ⟨some r, c.off + n, c.len - n⟩)

/-- `aws_nospec_mask` on 64-bit `size_t` -/
def nospecMask (index bound : Nat) : Nat :=
  let negative := index ||| bound
  let toobig := subW (subW bound index) 1
  let combined := negative ||| toobig
  let combined := (SIZE_MAX - combined) / (SIZE_MAX - SIZE_MAX / 2)       -- (~m) / 2^63 ; ~m = SIZE_MAX - m on size_t
  (combined * SIZE_MAX) % W

/-- `ptr & mask` : the model knows only the two masks the function can produce -/
def maskPtr (rid : Option Nat) (off : Nat) (mask : Nat) : Option Nat × Nat :=
  if mask = SIZE_MAX then (rid, off) else (none, 0)

/-- body of `aws_byte_cursor_advance_nospec` once the mask is computed -/
def nospecApply (c : Cur) (n mask : Nat) : Cur × Cur :=
  (⟨(maskPtr c.rid c.off mask).1, (maskPtr c.rid c.off mask).2, (n &&& mask) &&& mask⟩,
   match (maskPtr c.rid c.off mask).1 with
   | none => ⟨none, (maskPtr c.rid c.off mask).2, subW (c.len &&& mask) (n &&& mask)⟩
   | some r => ⟨some r, (maskPtr c.rid c.off mask).2 + (n &&& mask), subW (c.len &&& mask) (n &&& mask)⟩)

/-- `aws_byte_cursor_advance_nospec` -/
def curAdvanceNospec (c : Cur) (n : Nat) : Cur × Cur :=
  if n ≤ c.len ∧ n ≤ HALF ∧ c.len < HALF then nospecApply c n (nospecMask n (addW c.len 1))
  else (Cur.zero, c)

/-- `aws_byte_cursor_read` : (ok, bytes copied to dest, cursor after) -/
def curRead (h : Heap) (c : Cur) (n : Nat) : Except Fault (Bool × List Cell × Cur) :=
  if n = 0 then .ok (true, [], c) else
  let (slice, c') := curAdvanceNospec c n
  match slice.rid with
  | some _ => do
    let cells ← slice.load h 0 n                      -- memcpy(dest, slice.ptr, len)
    .ok (true, cells, c')
  | none => .ok (false, [], c')

/-- `aws_byte_cursor_read_{u8,be16,be24,be32,be64}` : k bytes, network order -/
def curReadBe (h : Heap) (c : Cur) (k : Nat) : Except Fault (Bool × Nat × Cur) := do
  let (ok, cells, c') ← curRead h c k
  .ok (ok, if ok then beValue (cells.map cellVal) else 0, c')

/-- `aws_byte_cursor_read_and_fill_buffer` -/
def curReadAndFill (h : Heap) (c : Cur) (dest : Buf) : Except Fault (Bool × Heap × Cur × Buf) := do
  let (ok, cells, c') ← curRead h c dest.cap
  if ok then
    let h' ← dest.store h 0 cells
    .ok (true, h', c', { dest with len := dest.cap })
  else .ok (false, h, c', dest)

/-- `aws_byte_cursor_read_hex_u8` -/
def curReadHexU8 (h : Heap) (c : Cur) : Except Fault (Bool × Nat × Cur) :=
  if c.len ≥ 2 then do
    let a ← c.load h 0 1
    let b ← c.load h 1 1
    let hi := hexToNum (cellVal (a.headD none))
    let lo := hexToNum (cellVal (b.headD none))
    if hi ≠ 255 ∧ lo ≠ 255 then
      .ok (true, (hi.toNat * 16 + lo.toNat) % 256, { c with off := c.off + 2, len := c.len - 2 })
    else .ok (false, 0, c)
  else .ok (false, 0, c)

/-- `aws_byte_buf_write_to_capacity` : (returned cursor, heap, buffer, cursor after) -/
def bufWriteToCapacity (h : Heap) (b : Buf) (c : Cur) : Except Fault (Cur × Heap × Buf × Cur) :=
  let available := subW b.cap b.len
  let writeSize := if available < c.len then available else c.len
  let (wc, c') := curAdvance c writeSize
  do
    let (_, h', b') ← bufWrite h b (.cur wc) wc.len
    .ok (wc, h', b', c')

/-! ### split / find / trim / compare / parse -/

/-- index of the first cell equal to `ch` (memchr) -/
def findByte (cells : List Cell) (ch : UInt8) : Option Nat :=
  let i := cells.findIdx (fun c => cellVal c == ch)
  if i < cells.length then some i else none

/-- the `""` literal `aws_byte_cursor_next_split` parks `substr->ptr` on for a NULL input:
region 0 of every heap is that empty literal. -/
def litRid : Nat := 0

/-- tail of `aws_byte_cursor_next_split`: `memchr(substr->ptr, split_on, substr->len)` and the
length update -/
def splitGo (h : Heap) (ch : UInt8) (s : Cur) : Except Fault (Bool × Cur) := do
  let cells ← s.load h 0 s.len
  match findByte cells ch with
  | some i => .ok (true, { s with len := i })
  | none => .ok (true, s)

/-- `aws_byte_cursor_next_split` : (more, substr after).  `substr` must be NULL or point into
`input`'s block (pointer comparison of unrelated blocks is not modelled: `badOperand`). -/
def curNextSplit (h : Heap) (input : Cur) (ch : UInt8) (sub : Cur) : Except Fault (Bool × Cur) :=
  match input.rid with
  | none => if sub.rid.isNone then .ok (true, ⟨some litRid, 0, 0⟩) else .ok (false, Cur.zero)
  | some r =>
    if sub.rid.isNone then splitGo h ch input
    else if sub.rid ≠ some r then .error .badOperand
    else
      let p := sub.off + sub.len + 1
      if p > input.off + input.len ∨ p < input.off then .ok (false, Cur.zero)
      else splitGo h ch ⟨some r, p, input.len - (p - input.off)⟩

/-- loop of `aws_byte_cursor_split_on_char_n`; `out` = array list contents, `k` = its capacity
(static list: push_back beyond it fails with LIST_EXCEEDS_MAX_SIZE) -/
def splitLoop (h : Heap) (input : Cur) (ch : UInt8) (maxSplits k : Nat) :
    Nat → Nat → Cur → List Cur → Except Fault (Option Err × List Cur)
  | 0, _, _, out => .ok (none, out)          -- fuel exhausted (never: see `splitFuel`)
  | fuel + 1, count, sub, out =>
    if count ≤ maxSplits then do
      let (more, sub') ← curNextSplit h input ch sub
      if more then
        let sub'' := if count = maxSplits then { sub' with len := subW input.len (subW sub'.off input.off) } else sub'
        if out.length < k then splitLoop h input ch maxSplits k fuel (count + 1) sub'' (out ++ [sub''])
        else .ok (some .listExceedsMaxSize, out)
      else .ok (none, out)
    else .ok (none, out)

def splitFuel (input : Cur) : Nat := input.len + 3

/-- `aws_byte_cursor_split_on_char_n` into a static array list of capacity `k` -/
def curSplitOnCharN (h : Heap) (input : Cur) (ch : UInt8) (n k : Nat) : Except Fault (Option Err × List Cur) :=
  splitLoop h input ch (if n > 0 then n else SIZE_MAX) k (splitFuel input) 0 Cur.zero []

/-- loop of `aws_byte_cursor_find_exact` -/
def findLoop (h : Heap) (toFind : Cur) (first : UInt8) : Nat → Cur → Except Fault (Option Cur)
  | 0, _ => .ok none
  | fuel + 1, w =>
    if w.len = 0 then .ok none else do
      let cells ← w.load h 0 w.len                                  -- memchr
      match findByte cells first with
      | none => .ok none
      | some i =>
        let w1 := (curAdvance w i).2
        if w1.len < toFind.len then .ok none else do
          let a ← w1.load h 0 toFind.len                            -- memcmp
          let b ← toFind.load h 0 toFind.len
          if a.map cellVal = b.map cellVal then .ok (some w1)
          else findLoop h toFind first fuel (curAdvance w1 1).2

/-- `aws_byte_cursor_find_exact` : (error, `*first_find` after) -/
def curFindExact (h : Heap) (input toFind out : Cur) : Except Fault (Option Err × Cur) :=
  if toFind.len > input.len then .ok (some .matchNotFound, out) else
  if toFind.len < 1 then .ok (some .shortBuffer, out) else do
    let f ← toFind.load h 0 1
    match ← findLoop h toFind (cellVal (f.headD none)) (input.len + 1) input with
    | some w => .ok (none, w)
    | none => .ok (some .matchNotFound, out)

inductive Pred where
  | isspace | isalnum | isalpha | isdigit | isxdigit
deriving DecidableEq, Repr

/-- `aws_isspace` … `aws_isxdigit` -/
def Pred.eval : Pred → UInt8 → Bool
  | .isspace, ch => ch == 0x20 || ch == 0x09 || ch == 0x0A || ch == 0x0B || ch == 0x0C || ch == 0x0D
  | .isalnum, ch => (ch ≥ 97 && ch ≤ 122) || (ch ≥ 65 && ch ≤ 90) || (ch ≥ 48 && ch ≤ 57)
  | .isalpha, ch => (ch ≥ 97 && ch ≤ 122) || (ch ≥ 65 && ch ≤ 90)
  | .isdigit, ch => ch ≥ 48 && ch ≤ 57
  | .isxdigit, ch => (ch ≥ 48 && ch ≤ 57) || (ch ≥ 97 && ch ≤ 102) || (ch ≥ 65 && ch ≤ 70)

/-- `aws_byte_cursor_right_trim_pred` -/
def rightTrimLoop (h : Heap) (p : Pred) : Nat → Cur → Except Fault Cur
  | 0, t => .ok t
  | fuel + 1, t =>
    if t.len > 0 then do
      let x ← t.load h (t.len - 1) 1
      if p.eval (cellVal (x.headD none)) then rightTrimLoop h p fuel { t with len := t.len - 1 } else .ok t
    else .ok t

def curRightTrim (h : Heap) (c : Cur) (p : Pred) : Except Fault Cur := rightTrimLoop h p c.len c

/-- `aws_byte_cursor_left_trim_pred` -/
def leftTrimLoop (h : Heap) (p : Pred) : Nat → Cur → Except Fault Cur
  | 0, t => .ok t
  | fuel + 1, t =>
    if t.len > 0 then do
      let x ← t.load h 0 1
      if p.eval (cellVal (x.headD none)) then leftTrimLoop h p fuel { t with off := t.off + 1, len := t.len - 1 } else .ok t
    else .ok t

def curLeftTrim (h : Heap) (c : Cur) (p : Pred) : Except Fault Cur := leftTrimLoop h p c.len c

/-- `aws_byte_cursor_trim_pred` -/
def curTrim (h : Heap) (c : Cur) (p : Pred) : Except Fault Cur := do
  let l ← curLeftTrim h c p
  curRightTrim h l p

/-- `aws_byte_cursor_satisfies_pred` -/
def curSatisfies (h : Heap) (c : Cur) (p : Pred) : Except Fault Bool := do
  let t ← curLeftTrim h c p
  .ok (t.len == 0)

/-- `aws_array_eq` on two loaded ranges -/
def arrayEq (h : Heap) (a b : Src) : Except Fault Bool :=
  if a.len ≠ b.len then .ok false else
  if a.len = 0 then .ok true else do
    let x ← a.load h 0 a.len
    let y ← b.load h 0 a.len
    .ok (x.map cellVal == y.map cellVal)

/-- `aws_array_eq_ignore_case` -/
def arrayEqIgnoreCase (h : Heap) (a b : Src) : Except Fault Bool :=
  if a.len ≠ b.len then .ok false else do
    let x ← a.load h 0 a.len
    let y ← b.load h 0 a.len
    .ok (x.map (fun c => tolower (cellVal c)) == y.map (fun c => tolower (cellVal c)))

/-- `aws_array_eq_c_str[_ignore_case]`; `str` = the bytes before the terminating NUL -/
def cstrLoop (f : UInt8 → UInt8) (str : List UInt8) : List Cell → Nat → Except Fault Bool
  | [], i => match (str ++ [0])[i]? with
    | none => .error .oob
    | some s => .ok (s == 0)
  | a :: rest, i => match (str ++ [0])[i]? with
    | none => .error .oob
    | some s => if s == 0 then .ok false else if f (cellVal a) ≠ f s then .ok false else cstrLoop f str rest (i + 1)

def arrayEqCStr (h : Heap) (a : Src) (str : List UInt8) (ignoreCase : Bool) : Except Fault Bool := do
  let x ← a.load h 0 a.len
  cstrLoop (if ignoreCase then tolower else id) str x 0

def Buf.asCur (b : Buf) : Cur := ⟨b.rid, 0, b.len⟩       -- aws_byte_cursor_from_buf

/-- `aws_byte_cursor_starts_with[_ignore_case]` -/
def curStartsWith (h : Heap) (input pre : Cur) (ignoreCase : Bool) : Except Fault Bool :=
  if input.len < pre.len then .ok false else
  let start : Cur := { input with len := pre.len }
  if ignoreCase then arrayEqIgnoreCase h (.cur start) (.cur pre) else arrayEq h (.cur start) (.cur pre)

/-- sign of memcmp on two byte lists -/
def memcmpSign : List UInt8 → List UInt8 → Int
  | a :: as, b :: bs => if a < b then -1 else if a > b then 1 else memcmpSign as bs
  | _, _ => 0

/-- `aws_byte_cursor_compare_lexical` (sign of the result) -/
def curCompareLexical (h : Heap) (l r : Cur) : Except Fault Int := do
  let n := if l.len > r.len then r.len else l.len
  let x ← l.load h 0 n
  let y ← r.load h 0 n
  let res := memcmpSign (x.map cellVal) (y.map cellVal)
  if res ≠ 0 then .ok res
  else if l.len ≠ r.len then .ok (if n = l.len then -1 else 1)
  else .ok 0

/-- `aws_byte_cursor_compare_lookup` with the tolower table -/
def curCompareLookup (h : Heap) (l r : Cur) : Except Fault Int :=
  if l.len = 0 ∧ r.len = 0 then .ok 0
  else if l.len = 0 then .ok (-1)
  else if r.len = 0 then .ok 1
  else do
    let n := if l.len > r.len then r.len else l.len
    let x ← l.load h 0 n
    let y ← r.load h 0 n
    let res := memcmpSign (x.map (fun c => tolower (cellVal c))) (y.map (fun c => tolower (cellVal c)))
    if res ≠ 0 then .ok res
    else if n < l.len then .ok 1
    else if n < r.len then .ok (-1)
    else .ok 0

/-- digit loop of `s_read_unsigned` -/
def readUnsignedLoop (base : Nat) : List UInt8 → Nat → Option Err × Nat
  | [], v => (none, v)
  | c :: rest, v =>
    let cval := (hexToNum c).toNat
    if cval ≥ base then (some .invalidArgument, 0) else
    match mulChecked v base with
    | none => (some .overflow, 0)
    | some v1 =>
      match addChecked v1 cval with
      | none => (some .overflow, 0)
      | some v2 => readUnsignedLoop base rest v2

/-- `aws_byte_cursor_utf8_parse_u64[_hex]` : (error, `*dst` after) -/
def curParseU64 (h : Heap) (c : Cur) (base : Nat) : Except Fault (Option Err × Nat) :=
  if c.len = 0 then .ok (some .invalidArgument, 0) else do
    let cells ← c.load h 0 c.len
    .ok (readUnsignedLoop base (cells.map cellVal) 0)

/-! ### aws_hash_array_ignore_case (FNV-1a over the lower-cased bytes) -/
def fnv1aIgnoreCase (bs : List UInt8) : Nat :=
  bs.foldl (fun hsh b => ((hsh ^^^ (tolower b).toNat) * 0x100000001b3) % W) 0xcbf29ce484222325

/-- `aws_hash_byte_cursor_ptr_ignore_case` / `aws_hash_array_ignore_case(cursor->ptr, cursor->len)` -/
def curHashIgnoreCase (h : Heap) (c : Cur) : Except Fault Nat := do
  let cells ← c.load h 0 c.len
  .ok (fnv1aIgnoreCase (cells.map cellVal))

/-! ### aws_byte_buf_init_from_file[_with_size_hint] (source/file.c)

The file is what the C library shows of it: whether `fopen` succeeds, the `st_size` that `fstat` reports, the
bytes the successive `fread` calls deliver, and a schedule of short reads (a cap on what one call returns; a cap
of 0 before the end of the data is a read error).  `feof` is true after a call that asked for more than was left. -/
structure FileSim where
  openOk : Bool
  statLen : Nat
  data : List UInt8
  sched : List Nat
deriving Repr

/-- one `fread(p, 1, n, fp)`: (bytes delivered, feof afterwards, remaining data, remaining schedule) -/
def freadSim (data : List UInt8) (sched : List Nat) (n : Nat) : List UInt8 × Bool × List UInt8 × List Nat :=
  let want := if n < data.length then n else data.length
  match sched with
  | capk :: rest =>
    if capk < want then (data.take capk, false, data.drop capk, rest)
    else (data.take want, decide (n > data.length), data.drop want, rest)
  | [] => (data.take want, decide (n > data.length), data.drop want, [])

def MIN_BUFFER_GROWTH_READING_FILES : Nat := 32
def MAX_BUFFER_GROWTH_READING_FILES : Nat := 4096

/-- `if (len == capacity) reserve_relative(buf, add)` -/
def growIfFull (m : Mem) (b : Buf) (add : Nat) : Except Fault (Option Err × Mem × Buf) :=
  if b.len = b.cap then bufReserveRelative m b add else .ok (none, m, b)

/-- the read loop of `s_byte_buf_init_from_file_impl` -/
def fileReadLoop : Nat → Mem → Buf → List UInt8 → List Nat → Except Fault (Option Err × Mem × Buf)
  | 0, m, b, _, _ => .ok (some .fileReadFailure, m, b)
  | fuel + 1, m, b, data, sched => do
    let grow := if MAX_BUFFER_GROWTH_READING_FILES < (if MIN_BUFFER_GROWTH_READING_FILES > b.cap then MIN_BUFFER_GROWTH_READING_FILES else b.cap)
                then MAX_BUFFER_GROWTH_READING_FILES
                else (if MIN_BUFFER_GROWTH_READING_FILES > b.cap then MIN_BUFFER_GROWTH_READING_FILES else b.cap)
    let (e, m1, b1) ← growIfFull m b grow
    match e with
    | some er => .ok (some er, m1, b1)
    | none =>
      let r := freadSim data sched (subW b1.cap b1.len)
      let h2 ← b1.store m1.heap b1.len (r.1.map some)          -- fread(out_buf->buffer + out_buf->len, 1, space, fp)
      let b2 : Buf := { b1 with len := addW b1.len r.1.length }
      if r.2.1 then .ok (none, { m1 with heap := h2 }, b2)
      else if r.1.length = 0 then .ok (some .fileReadFailure, { m1 with heap := h2 }, b2)
      else fileReadLoop fuel { m1 with heap := h2 } b2 r.2.2.1 r.2.2.2

/-- success tail: make room for, and store, the NUL terminator (not counted in `len`) -/
def fileTerminate (m : Mem) (b : Buf) : Except Fault (Option Err × Mem × Buf) := do
  let (e, m1, b1) ← growIfFull m b 1
  match e with
  | some er => .ok (some er, m1, b1)
  | none =>
    let h2 ← b1.store m1.heap b1.len [some 0]
    .ok (none, { m1 with heap := h2 }, b1)

/-- `error:` label: `aws_byte_buf_clean_up_secure(out_buf); return AWS_OP_ERR;` -/
def fileFail (er : Err) (m : Mem) (b : Buf) : Except Fault (Option Err × Mem × Buf) := do
  let (m', b') ← bufCleanUpSecure m b
  .ok (some er, m', b')

/-- `s_byte_buf_init_from_file_impl` : the previous contents of `*out_buf` are discarded (AWS_ZERO_STRUCT) -/
def bufInitFromFile (m : Mem) (f : FileSim) (useHint : Bool) (sizeHint : Nat) : Except Fault (Option Err × Mem × Buf) :=
  if !f.openOk then fileFail .fileInvalidPath m Buf.zero else
  if useHint && decide (f.statLen ≥ SIZE_MAX) then fileFail .overflow m Buf.zero else
  let hint := if useHint then f.statLen + 1 else sizeHint
  do
    let (e, m1, b1) ← fileReadLoop (f.data.length + 2) (bufInit m hint).1 (bufInit m hint).2 f.data f.sched
    match e with
    | some er => fileFail er m1 b1
    | none => do
      let (e2, m2, b2) ← fileTerminate m1 b1
      match e2 with
      | some er => fileFail er m2 b2
      | none => .ok (none, m2, b2)

/-! ### aws_normalize_directory_separator (source/file.c) -/

/-- `aws_is_any_directory_separator` -/
def isDirSep (b : UInt8) : Bool := b == 92 || b == 47        -- '\\' or '/'

/-- `aws_get_platform_directory_separator()` on the posix build -/
def platformDirSep : UInt8 := 47

/-- `aws_normalize_directory_separator` : bytes `[0, len)` are rewritten in place, nothing else -/
def bufNormalizeSep (h : Heap) (b : Buf) : Except Fault Heap := do
  let cells ← b.load h 0 b.len
  b.store h 0 (cells.map fun c => if isDirSep (cellVal c) then some platformDirSep else c)

/-! ### the operation language over named slots -/

structure State where
  mem : Mem
  bufs : Nat → Buf
  curs : Nat → Cur

/-- region 0 is the `""` literal -/
def State.init : State := { mem := ⟨[some []], []⟩, bufs := fun _ => Buf.zero, curs := fun _ => Cur.zero }

def State.setBuf (s : State) (i : Nat) (b : Buf) : State := { s with bufs := fun j => if j = i then b else s.bufs j }
def State.setCur (s : State) (i : Nat) (c : Cur) : State := { s with curs := fun j => if j = i then c else s.curs j }
def State.setHeap (s : State) (h : Heap) : State := { s with mem := { s.mem with heap := h } }

inductive Op where
  -- objects made by the caller
  | curFromBytes (c : Nat) (bs : List UInt8)
  | curNull (c : Nat)
  | curInto (c b off len : Nat)
  | curFromBuf (c b : Nat)
  | curSub (dst src off len : Nat)                   -- sub-view [off, off+len) of another cursor (bytes stay around it)
  | bufFromArray (b : Nat) (bs : List UInt8)
  | bufFromEmptyArray (b cap : Nat)
  -- aws_byte_buf
  | init (b cap : Nat)
  | initCopy (d s : Nat)
  | initCopyFromCursor (d c : Nat)
  | reset (b : Nat) (zero : Bool)
  | secureZero (b : Nat)
  | cleanUp (b : Nat)
  | cleanUpSecure (b : Nat)
  | append (b c : Nat)
  | appendWithLookup (b c : Nat)
  | appendDynamic (b c : Nat) (secure : Bool)
  | appendByteDynamic (b : Nat) (v : UInt8) (secure : Bool)
  | appendAndUpdate (b c : Nat)
  | appendNullTerminator (b : Nat)
  | cat (d : Nat) (srcs : List Nat)
  | reserve (b n : Nat)
  | reserveRelative (b n : Nat)
  | reserveSmart (b n : Nat)
  | reserveSmartRelative (b n : Nat)
  | bufAdvance (b n : Nat)
  | write (b : Nat) (bs : List UInt8) (n : Nat)
  | writeFromWholeBuffer (b s : Nat)
  | writeFromWholeCursor (b c : Nat)
  | writeToCapacity (b c : Nat)
  | writeU8 (b : Nat) (v : UInt8)
  | writeU8N (b : Nat) (v : UInt8) (n : Nat)
  | writeBe (b k x : Nat)                 -- k ∈ {2,4,8}: write_be16/32/64
  | writeBe24 (b x : Nat)
  -- aws_byte_cursor
  | advance (c n : Nat)
  | advanceNospec (c n : Nat)
  | read (c n : Nat)
  | readAndFillBuffer (c b : Nat)
  | readBe (c k : Nat)                    -- k ∈ {1,2,3,4,8}: read_u8/be16/be24/be32/be64
  | readHexU8 (c : Nat)
  | nextSplit (input : Nat) (ch : UInt8) (sub : Nat)
  | splitOnCharN (input : Nat) (ch : UInt8) (n k : Nat)
  | findExact (input toFind out : Nat)
  | leftTrim (c : Nat) (p : Pred)
  | rightTrim (c : Nat) (p : Pred)
  | trim (c : Nat) (p : Pred)
  | satisfies (c : Nat) (p : Pred)
  | startsWith (c p : Nat) (ignoreCase : Bool)
  | curEq (a b : Nat) (ignoreCase : Bool)
  | curEqBuf (c b : Nat) (ignoreCase : Bool)
  | curEqCStr (c : Nat) (str : List UInt8) (ignoreCase : Bool)
  | bufEq (a b : Nat) (ignoreCase : Bool)
  | bufEqCStr (b : Nat) (str : List UInt8) (ignoreCase : Bool)
  | compareLexical (a b : Nat)
  | compareLookup (a b : Nat)
  | parseU64 (c base : Nat)               -- base 10 / 16
  | hashIgnoreCase (c : Nat)
  | normalizeSep (b : Nat)
  | initFromFile (b : Nat) (f : FileSim) (useHint : Bool) (sizeHint : Nat)
deriving Repr

inductive Res where
  | code (e : Option Err)                          -- int-returning API: none = AWS_OP_SUCCESS
  | status (ok : Bool)                             -- bool-returning API reporting success/failure
  | statusVal (ok : Bool) (v : Nat)
  | statusBytes (ok : Bool) (bs : List Cell)
  | pred (b : Bool)                                -- bool-returning query (false is not a failure)
  | cur (c : Cur)                                  -- cursor returned by value
  | view (v : Option (Option Nat × Nat × Nat))     -- *output of aws_byte_buf_advance
  | curs (e : Option Err) (l : List Cur)
  | int (i : Int)
  | codeVal (e : Option Err) (v : Nat)
  | unit
deriving Repr

/-- the call reported failure (or, for by-value cursor results, returned the NULL cursor) -/
def Res.failed : Res → Bool
  | .code e => e.isSome
  | .status ok => !ok
  | .statusVal ok _ => !ok
  | .statusBytes ok _ => !ok
  | .pred _ => false
  | .cur c => c.rid.isNone
  | .view v => v.isNone
  | .curs e _ => e.isSome
  | .int _ => false
  | .codeVal e _ => e.isSome
  | .unit => false

/-- `aws_byte_buf_cat` over buffer slots; a source may be the destination itself -/
def catLoop (h : Heap) (bufs : Nat → Buf) (d : Nat) : List Nat → Buf → Except Fault (Option Err × Heap × Buf)
  | [], dest => .ok (none, h, dest)
  | s :: rest, dest => do
    let src := if s = d then dest else bufs s
    let (e, h', dest') ← bufAppend h dest src.asCur
    match e with
    | some e => .ok (some e, h', dest')
    | none => catLoop h' bufs d rest dest'

def step (s : State) : Op → Except Fault (Res × State)
  | .curFromBytes c bs =>
    if bs.length > SIZE_MAX then .error .badOperand else
    let (m, r) := s.mem.alloc bs.length
    match storeN m.heap (some r) 0 (bs.map some) with
    | .ok h => .ok (.unit, { s with mem := { m with heap := h } }.setCur c ⟨some r, 0, bs.length⟩)
    | .error e => .error e
  | .curNull c => .ok (.unit, s.setCur c Cur.zero)
  | .curInto c b off len =>
    let bb := s.bufs b
    match bb.rid with
    | some r => if off + len ≤ bb.len ∧ bb.len ≤ bb.cap then .ok (.code none, s.setCur c ⟨some r, off, len⟩)
                else .ok (.code (some .invalidArgument), s)
    | none => .ok (.code (some .invalidArgument), s)
  | .curFromBuf c b => .ok (.unit, s.setCur c (s.bufs b).asCur)
  | .curSub dst src off len =>
    let sc := s.curs src
    if off + len ≤ sc.len ∧ sc.rid.isSome then .ok (.code none, s.setCur dst { sc with off := sc.off + off, len := len })
    else .ok (.code (some .invalidArgument), s)
  | .bufFromArray b bs =>
    if bs.length > SIZE_MAX then .error .badOperand else
    if bs.length = 0 then .ok (.unit, s.setBuf b ⟨none, 0, 0, false⟩) else
    let (m, r) := s.mem.alloc bs.length
    match storeN m.heap (some r) 0 (bs.map some) with
    | .ok h => .ok (.unit, { s with mem := { m with heap := h } }.setBuf b ⟨some r, bs.length, bs.length, false⟩)
    | .error e => .error e
  | .bufFromEmptyArray b cap =>
    if cap > SIZE_MAX then .error .badOperand else
    if cap = 0 then .ok (.unit, s.setBuf b ⟨none, 0, 0, false⟩) else
    let (m, r) := s.mem.alloc cap
    .ok (.unit, { s with mem := m }.setBuf b ⟨some r, 0, cap, false⟩)
  | .init b cap =>
    if cap > SIZE_MAX then .error .badOperand else
    let (m, nb) := bufInit s.mem cap
    .ok (.code none, { s with mem := m }.setBuf b nb)
  | .initCopy d src => do
    let (e, m, nb) ← bufInitCopy s.mem (s.bufs d) (s.bufs src)
    .ok (.code e, { s with mem := m }.setBuf d nb)
  | .initCopyFromCursor d c => do
    let (e, m, nb) ← bufInitCopyFromCursor s.mem (s.bufs d) (s.curs c)
    .ok (.code e, { s with mem := m }.setBuf d nb)
  | .reset b zero => do
    let (h, nb) ← bufReset s.mem.heap (s.bufs b) zero
    .ok (.unit, (s.setHeap h).setBuf b nb)
  | .secureZero b => do
    let (h, nb) ← bufSecureZero s.mem.heap (s.bufs b)
    .ok (.unit, (s.setHeap h).setBuf b nb)
  | .cleanUp b => do
    let (m, nb) ← bufCleanUp s.mem (s.bufs b)
    .ok (.unit, { s with mem := m }.setBuf b nb)
  | .cleanUpSecure b => do
    let (m, nb) ← bufCleanUpSecure s.mem (s.bufs b)
    .ok (.unit, { s with mem := m }.setBuf b nb)
  | .append b c => do
    let (e, h, nb) ← bufAppend s.mem.heap (s.bufs b) (s.curs c)
    .ok (.code e, (s.setHeap h).setBuf b nb)
  | .appendWithLookup b c => do
    let (e, h, nb) ← bufAppendWithLookup s.mem.heap (s.bufs b) (s.curs c)
    .ok (.code e, (s.setHeap h).setBuf b nb)
  | .appendDynamic b c secure => do
    let (e, m, nb) ← bufAppendDynamic s.mem (s.bufs b) (.cur (s.curs c)) secure
    .ok (.code e, { s with mem := m }.setBuf b nb)
  | .appendByteDynamic b v secure => do
    let (e, m, nb) ← bufAppendDynamic s.mem (s.bufs b) (.lit [v]) secure
    .ok (.code e, { s with mem := m }.setBuf b nb)
  | .appendAndUpdate b c => do
    let (e, h, nb, nc) ← bufAppendAndUpdate s.mem.heap (s.bufs b) (s.curs c)
    .ok (.code e, ((s.setHeap h).setBuf b nb).setCur c nc)
  | .appendNullTerminator b => do
    let (e, m, nb) ← bufAppendDynamic s.mem (s.bufs b) (.lit [0]) false
    .ok (.code e, { s with mem := m }.setBuf b nb)
  | .cat d srcs => do
    let (e, h, nb) ← catLoop s.mem.heap s.bufs d srcs (s.bufs d)
    .ok (.code e, (s.setHeap h).setBuf d nb)
  | .reserve b n =>
    if n > SIZE_MAX then .error .badOperand else do
    let (e, m, nb) ← bufReserve s.mem (s.bufs b) n
    .ok (.code e, { s with mem := m }.setBuf b nb)
  | .reserveRelative b n => do
    let (e, m, nb) ← bufReserveRelative s.mem (s.bufs b) n
    .ok (.code e, { s with mem := m }.setBuf b nb)
  | .reserveSmart b n =>
    if n > SIZE_MAX then .error .badOperand else do
    let (e, m, nb) ← bufReserveSmart s.mem (s.bufs b) n
    .ok (.code e, { s with mem := m }.setBuf b nb)
  | .reserveSmartRelative b n => do
    let (e, m, nb) ← bufReserveSmartRelative s.mem (s.bufs b) n
    .ok (.code e, { s with mem := m }.setBuf b nb)
  | .bufAdvance b n =>
    let (v, nb) := bufAdvance (s.bufs b) n
    .ok (.view v, s.setBuf b nb)
  | .write b bs n => do
    let (ok, h, nb) ← bufWrite s.mem.heap (s.bufs b) (.lit bs) n
    .ok (.status ok, (s.setHeap h).setBuf b nb)
  | .writeFromWholeBuffer b src => do
    let (ok, h, nb) ← bufWrite s.mem.heap (s.bufs b) (.cur (s.bufs src).asCur) (s.bufs src).len
    .ok (.status ok, (s.setHeap h).setBuf b nb)
  | .writeFromWholeCursor b c => do
    let (ok, h, nb) ← bufWrite s.mem.heap (s.bufs b) (.cur (s.curs c)) (s.curs c).len
    .ok (.status ok, (s.setHeap h).setBuf b nb)
  | .writeToCapacity b c => do
    let (wc, h, nb, nc) ← bufWriteToCapacity s.mem.heap (s.bufs b) (s.curs c)
    .ok (.cur wc, ((s.setHeap h).setBuf b nb).setCur c nc)
  | .writeU8 b v => do
    let (ok, h, nb) ← bufWrite s.mem.heap (s.bufs b) (.lit [v]) 1
    .ok (.status ok, (s.setHeap h).setBuf b nb)
  | .writeU8N b v n => do
    let (ok, h, nb) ← bufWriteU8N s.mem.heap (s.bufs b) v n
    .ok (.status ok, (s.setHeap h).setBuf b nb)
  | .writeBe b k x => do
    let (ok, h, nb) ← bufWrite s.mem.heap (s.bufs b) (.lit (beBytes k x)) k
    .ok (.status ok, (s.setHeap h).setBuf b nb)
  | .writeBe24 b x => do
    let (ok, h, nb) ← bufWriteBe24 s.mem.heap (s.bufs b) x
    .ok (.status ok, (s.setHeap h).setBuf b nb)
  | .advance c n =>
    let (rv, nc) := curAdvance (s.curs c) n
    .ok (.cur rv, s.setCur c nc)
  | .advanceNospec c n =>
    let (rv, nc) := curAdvanceNospec (s.curs c) n
    .ok (.cur rv, s.setCur c nc)
  | .read c n => do
    let (ok, bs, nc) ← curRead s.mem.heap (s.curs c) n
    .ok (.statusBytes ok bs, s.setCur c nc)
  | .readAndFillBuffer c b => do
    let (ok, h, nc, nb) ← curReadAndFill s.mem.heap (s.curs c) (s.bufs b)
    .ok (.status ok, ((s.setHeap h).setBuf b nb).setCur c nc)
  | .readBe c k => do
    let (ok, v, nc) ← curReadBe s.mem.heap (s.curs c) k
    .ok (.statusVal ok v, s.setCur c nc)
  | .readHexU8 c => do
    let (ok, v, nc) ← curReadHexU8 s.mem.heap (s.curs c)
    .ok (.statusVal ok v, s.setCur c nc)
  | .nextSplit input ch sub => do
    let (more, ns) ← curNextSplit s.mem.heap (s.curs input) ch (s.curs sub)
    .ok (.pred more, s.setCur sub ns)
  | .splitOnCharN input ch n k => do
    let (e, l) ← curSplitOnCharN s.mem.heap (s.curs input) ch n k
    .ok (.curs e l, s)
  | .findExact input toFind out => do
    let (e, nc) ← curFindExact s.mem.heap (s.curs input) (s.curs toFind) (s.curs out)
    .ok (.code e, s.setCur out nc)
  | .leftTrim c p => do
    let t ← curLeftTrim s.mem.heap (s.curs c) p
    .ok (.cur t, s)
  | .rightTrim c p => do
    let t ← curRightTrim s.mem.heap (s.curs c) p
    .ok (.cur t, s)
  | .trim c p => do
    let t ← curTrim s.mem.heap (s.curs c) p
    .ok (.cur t, s)
  | .satisfies c p => do
    let r ← curSatisfies s.mem.heap (s.curs c) p
    .ok (.pred r, s)
  | .startsWith c p ic => do
    let r ← curStartsWith s.mem.heap (s.curs c) (s.curs p) ic
    .ok (.pred r, s)
  | .curEq a b ic => do
    let r ← (if ic then arrayEqIgnoreCase else arrayEq) s.mem.heap (.cur (s.curs a)) (.cur (s.curs b))
    .ok (.pred r, s)
  | .curEqBuf c b ic => do
    let r ← (if ic then arrayEqIgnoreCase else arrayEq) s.mem.heap (.cur (s.curs c)) (.cur (s.bufs b).asCur)
    .ok (.pred r, s)
  | .curEqCStr c str ic => do
    let r ← arrayEqCStr s.mem.heap (.cur (s.curs c)) str ic
    .ok (.pred r, s)
  | .bufEq a b ic => do
    let r ← (if ic then arrayEqIgnoreCase else arrayEq) s.mem.heap (.cur (s.bufs a).asCur) (.cur (s.bufs b).asCur)
    .ok (.pred r, s)
  | .bufEqCStr b str ic => do
    let r ← arrayEqCStr s.mem.heap (.cur (s.bufs b).asCur) str ic
    .ok (.pred r, s)
  | .compareLexical a b => do
    let r ← curCompareLexical s.mem.heap (s.curs a) (s.curs b)
    .ok (.int r, s)
  | .compareLookup a b => do
    let r ← curCompareLookup s.mem.heap (s.curs a) (s.curs b)
    .ok (.int r, s)
  | .parseU64 c base => do
    let (e, v) ← curParseU64 s.mem.heap (s.curs c) base
    .ok (.codeVal e v, s)
  | .normalizeSep b => do
    let h ← bufNormalizeSep s.mem.heap (s.bufs b)
    .ok (.unit, (s.setHeap h).setBuf b (s.bufs b))
  | .hashIgnoreCase c => do
    let v ← curHashIgnoreCase s.mem.heap (s.curs c)
    .ok (.codeVal none v, s)
  | .initFromFile b f useHint sizeHint =>
    if sizeHint > SIZE_MAX then .error .badOperand else do
    let (e, m, nb) ← bufInitFromFile s.mem f useHint sizeHint
    .ok (.code e, { s with mem := m }.setBuf b nb)

/-- run an op sequence; a faulting op (a caller error such as use of a dangling cursor) is skipped -/
def run (s : State) : List Op → State
  | [] => s
  | op :: rest =>
    match step s op with
    | .ok (_, s') => run s' rest
    | .error _ => run s rest

end AwsVerif.ByteBuf
