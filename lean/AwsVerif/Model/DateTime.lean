import AwsVerif.Gen.DateConsts
import AwsVerif.Gen.Math
/-!
# Model of `source/date_time.c` (C19)

Core Lean only (plus the generated layer: `AwsVerif.Gen.Date` — format strings, formatter dispatch,
month table, zone spellings, reader constants, conversion units, regenerated from date_time.c on every
run by gen/date_gen.py — and `AwsVerif.Gen.Math.Clock.aws_timestamp_convert`).  Bytes are `Nat` values (the driver feeds values `< 256`); text is `List Nat`.

Three layers:

* **Calendar** (this is the *model of libc*: `gmtime_r`, `timegm`, and `strftime` for the format
  strings `date_time.c` uses, C locale / English names).  Days are counted from 0001-01-01
  (day 0, a Monday) in the proleptic Gregorian calendar.  `daysInYears p = 365p + p/4 − p/100 + p/400`
  (days in years 1..p) and a month table give `daysFromCivil` in closed form; `civilFromDays` is
  its inverse *by bounded search* (largest year, then largest month, whose start is `≤ d`).
* **Parsers / formatter dispatch** transcribed from `date_time.c`: `s_parse_rfc_822` (state machine),
  `s_parse_iso_8601`, `is_utc_time_zone`, `get_month_number_from_str`,
  `aws_date_time_init_from_str_cursor`, the four `to_utc_time*_str` functions (UTC side only).
* **Epoch views / accessors**: `aws_timestamp_convert_u64` (saturating), `as_millis`, `as_nanos`,
  `aws_date_time_init_epoch_millis/secs`, the field accessors with their C casts.

Not modelled: local time (`localtime_r`, `mktime` is taken to be `timegm`, i.e. `TZ=UTC`), `%Z`,
`aws_date_time_init_now`, the `double` arithmetic of `init_epoch_secs` / `as_epoch_secs` (the
driver and harness compare the bit pattern; here the argument is given as whole seconds +
milliseconds).
-/
namespace AwsVerif.DateTime

/-- bytes are natural numbers throughout (plain `Nat` in every signature so that `omega` sees them) -/
abbrev Byte := Nat

/-! ## Character classes (`aws_isdigit`, `aws_isalpha`, `aws_isalnum`, `aws_isspace`, C-locale `tolower`) -/

def isDigit (c : Nat) : Bool := decide (48 ≤ c) && decide (c ≤ 57)
def isAlpha (c : Nat) : Bool := (decide (97 ≤ c) && decide (c ≤ 122)) || (decide (65 ≤ c) && decide (c ≤ 90))
def isAlnum (c : Nat) : Bool := isAlpha c || isDigit c
def isSpace (c : Nat) : Bool := c == 32 || c == 9 || c == 10 || c == 11 || c == 12 || c == 13
def toLower (c : Nat) : Nat := if 65 ≤ c ∧ c ≤ 90 then c + 32 else c

/-! ## Calendar -/

/-- number of days in the years `1..p` (proleptic Gregorian) -/
def daysInYears (p : Nat) : Nat := 365 * p + p / 4 - p / 100 + p / 400

def isLeap (y : Nat) : Bool := decide ((y % 4 = 0 ∧ y % 100 ≠ 0) ∨ y % 400 = 0)

/-- days of the year before month `m` (0-based); `m ≥ 12` gives the length of the year -/
def daysBeforeMonth (leap : Bool) (m : Nat) : Nat :=
  let l := if leap then 1 else 0
  match m with
  | 0 => 0 | 1 => 31 | 2 => 59 + l | 3 => 90 + l | 4 => 120 + l | 5 => 151 + l | 6 => 181 + l
  | 7 => 212 + l | 8 => 243 + l | 9 => 273 + l | 10 => 304 + l | 11 => 334 + l | _ => 365 + l

/-- day number (0 = 0001-01-01) of year `y ≥ 1`, month `m` (0-based), day of month `d` (1-based) -/
def daysFromCivil (y m d : Nat) : Nat := daysInYears (y - 1) + daysBeforeMonth (isLeap y) m + (d - 1)

/-- largest `k' ≤ k` with `f k' ≤ d` (0 if none) -/
def searchDown (f : Nat → Nat) (d : Nat) : Nat → Nat
  | 0 => 0
  | k + 1 => if f (k + 1) ≤ d then k + 1 else searchDown f d k

/-- inverse of `daysFromCivil` by search: `(year, month0, mday)` -/
def civilFromDays (z : Nat) : Nat × Nat × Nat :=
  let p := searchDown daysInYears z (z / 365 + 1)
  let y := p + 1
  let r := z - daysInYears p
  let m := searchDown (daysBeforeMonth (isLeap y)) r 11
  (y, m, r - daysBeforeMonth (isLeap y) m + 1)

/-! ## Independent calendar specification (used only in theorem statements)

Days are counted by plain recursion over the years and months with the Gregorian leap rule; the
weekday advances by one per day from Thursday 1970-01-01. -/
namespace Spec

def yearLen (y : Nat) : Nat :=
  if y % 400 = 0 then 366 else if y % 100 = 0 then 365 else if y % 4 = 0 then 366 else 365

/-- month lengths, `m` 0-based -/
def monthLen (y m : Nat) : Nat :=
  match m with
  | 0 => 31 | 1 => if yearLen y = 366 then 29 else 28 | 2 => 31 | 3 => 30 | 4 => 31 | 5 => 30
  | 6 => 31 | 7 => 31 | 8 => 30 | 9 => 31 | 10 => 30 | 11 => 31 | _ => 0

/-- days in the years `1..n` -/
def daysInYears : Nat → Nat
  | 0 => 0
  | n + 1 => daysInYears n + yearLen (n + 1)

/-- days in the months `0..m-1` of year `y` -/
def daysInMonths (y : Nat) : Nat → Nat
  | 0 => 0
  | m + 1 => daysInMonths y m + monthLen y m

def valid (y m d : Nat) : Prop := 1 ≤ y ∧ m < 12 ∧ 1 ≤ d ∧ d ≤ monthLen y m

/-- day number of a civil date, 0001-01-01 = 0 -/
def dayNumber (y m d : Nat) : Nat := daysInYears (y - 1) + daysInMonths y m + (d - 1)

/-- weekday (0 = Sunday) of the `n`-th day after 1970-01-01 (a Thursday) -/
def weekday : Nat → Nat
  | 0 => 4
  | n + 1 => (weekday n + 1) % 7

end Spec

/-- broken-down time; `year` is `tm_year + 1900`, `mon` is 0-based -/
structure Tm where
  year : Int := 0
  mon : Int := 0
  mday : Int := 0
  hour : Int := 0
  min : Int := 0
  sec : Int := 0
  wday : Int := 0
deriving Repr, DecidableEq, Inhabited

def epochDay : Int := 719162   -- day number of 1970-01-01
def cycleDays : Int := 146097  -- days in 400 years

/-- model of `gmtime_r` (all of `time_t`; the 400-year cycle reduces to the `Nat` calendar) -/
def gmtime (t : Int) : Tm :=
  let z := t / 86400 + epochDay
  let sod := t % 86400
  let q := z / cycleDays
  let r := (z % cycleDays).toNat
  let (y, m, d) := civilFromDays r
  { year := 400 * q + y, mon := m, mday := d,
    hour := sod / 3600, min := sod % 3600 / 60, sec := sod % 60,
    wday := (z + 1) % 7 }

def daysInYearsI (p : Int) : Int := 365 * p + p / 4 - p / 100 + p / 400
def isLeapI (y : Int) : Bool := decide ((y % 4 = 0 ∧ y % 100 ≠ 0) ∨ y % 400 = 0)

/-- model of `timegm` as glibc's `__mktime_internal` computes it: the month is reduced into
`0..11` carrying into the year; every other field enters linearly (no range checks) -/
def timegm (tm : Tm) : Int :=
  let y := tm.year + tm.mon / 12
  let m := (tm.mon % 12).toNat
  let days := daysInYearsI (y - 1) + daysBeforeMonth (isLeapI y) m + (tm.mday - 1) - epochDay
  days * 86400 + tm.hour * 3600 + tm.min * 60 + tm.sec

/-! ## `strftime` for the format strings of `date_time.c` -/

def dig (n : Nat) : Nat := 48 + n
def print2 (v : Nat) : List Nat := [dig (v / 10), dig (v % 10)]
def print4 (v : Nat) : List Nat := [dig (v / 1000), dig (v / 100 % 10), dig (v / 10 % 10), dig (v % 10)]

def natDigits : Nat → Nat → List Nat → List Nat
  | 0, _, acc => acc
  | fuel + 1, v, acc => if v < 10 then dig v :: acc else natDigits fuel (v / 10) (dig (v % 10) :: acc)

/-- `%Y`: glibc prints the year unpadded (minus sign for negative years) -/
def printYear (y : Int) : List Nat :=
  if 1000 ≤ y ∧ y ≤ 9999 then print4 y.toNat
  else if y < 0 then 45 :: natDigits 20 (-y).toNat [] else natDigits 20 y.toNat []

/-- `%d %m %H %M %S`: at least two digits -/
def printPad2 (v : Int) : List Nat :=
  if 0 ≤ v ∧ v ≤ 99 then print2 v.toNat
  else if v < 0 then 45 :: natDigits 20 (-v).toNat [] else natDigits 20 v.toNat []

def dayName : Int → List Nat
  | 0 => [83, 117, 110] | 1 => [77, 111, 110] | 2 => [84, 117, 101] | 3 => [87, 101, 100]
  | 4 => [84, 104, 117] | 5 => [70, 114, 105] | 6 => [83, 97, 116] | _ => [63]

def monthName : Int → List Nat
  | 0 => [74, 97, 110] | 1 => [70, 101, 98] | 2 => [77, 97, 114] | 3 => [65, 112, 114]
  | 4 => [77, 97, 121] | 5 => [74, 117, 110] | 6 => [74, 117, 108] | 7 => [65, 117, 103]
  | 8 => [83, 101, 112] | 9 => [79, 99, 116] | 10 => [78, 111, 118] | 11 => [68, 101, 99]
  | _ => [63]

/-- "%a, %d %b %Y" -/
def fmtRfc822Short (tm : Tm) : List Nat :=
  dayName tm.wday ++ [44, 32] ++ printPad2 tm.mday ++ [32] ++ monthName tm.mon ++ [32] ++ printYear tm.year
/-- " %H:%M:%S" -/
def fmtClock (tm : Tm) : List Nat :=
  [32] ++ printPad2 tm.hour ++ [58] ++ printPad2 tm.min ++ [58] ++ printPad2 tm.sec
/-- "%a, %d %b %Y %H:%M:%S GMT" -/
def fmtRfc822 (tm : Tm) : List Nat := fmtRfc822Short tm ++ fmtClock tm ++ [32] ++ [71, 77, 84]
/-- "%Y-%m-%d" -/
def fmtIsoShort (tm : Tm) : List Nat := printYear tm.year ++ [45] ++ printPad2 (tm.mon + 1) ++ [45] ++ printPad2 tm.mday
/-- "%Y-%m-%d", a date/time separator, "%H:%M:%S" (no zone) -/
def fmtIsoBodySep (sep : Nat) (tm : Tm) : List Nat :=
  fmtIsoShort tm ++ [sep] ++ printPad2 tm.hour ++ [58] ++ printPad2 tm.min ++ [58] ++ printPad2 tm.sec
/-- "%Y-%m-%dT%H:%M:%S" (without the final "Z") -/
def fmtIsoBody (tm : Tm) : List Nat := fmtIsoBodySep 84 tm
def fmtIso (tm : Tm) : List Nat := fmtIsoBody tm ++ [90]
/-- "%Y%m%d" -/
def fmtBasicShort (tm : Tm) : List Nat := printYear tm.year ++ printPad2 (tm.mon + 1) ++ printPad2 tm.mday
/-- "%Y%m%d", a date/time separator, "%H%M%S" (no zone) -/
def fmtBasicBodySep (sep : Nat) (tm : Tm) : List Nat :=
  fmtBasicShort tm ++ [sep] ++ printPad2 tm.hour ++ printPad2 tm.min ++ printPad2 tm.sec
/-- "%Y%m%dT%H%M%S" (without the final "Z") -/
def fmtBasicBody (tm : Tm) : List Nat := fmtBasicBodySep 84 tm
def fmtBasic (tm : Tm) : List Nat := fmtBasicBody tm ++ [90]
/-- "%a, %d %b %Y %H:%M:%S " (RFC 822 text up to and including the blank before the zone) -/
def fmtRfc822Body (tm : Tm) : List Nat := fmtRfc822Short tm ++ fmtClock tm ++ [32]

/-! ## `aws_date_time` -/

inductive Fmt | rfc822 | iso8601 | iso8601Basic | autoDetect
deriving Repr, DecidableEq, Inhabited

inductive Err | invalidDateStr | overflowDetected | shortBuffer | invalidArgument
deriving Repr, DecidableEq, Inhabited

structure DateTime where
  timestamp : Int := 0
  millis : Nat := 0
  gmt : Tm := {}
  utcAssumed : Bool := false
  tz : List Nat := []
deriving Repr, DecidableEq, Inhabited

/-! ### RFC 822 reader (`s_parse_rfc_822`) -/

inductive PState | onWeekday | onSpaceDelim | onYear | onMonth | onMonthDay | onHour | onMinute | onSecond | onTz | finished
deriving Repr, DecidableEq, Inhabited

/-- `int` arithmetic as gcc/x86-64 performs it (two's-complement wrap) -/
def wrap32 (x : Int) : Int := (x + 2147483648) % 4294967296 - 2147483648

/-- `STR_TRIPLET_TO_INDEX`: for byte values the bit-or of the shifted bytes is this sum -/
def triplet (a b c : Nat) : Nat := toLower a + 256 * toLower b + 65536 * toLower c

/-- a table entry (a string literal of `s_check_init_str_to_int`) against the packed window -/
def tripletMatches (a b c : Nat) (t : List Nat) : Bool :=
  match t with
  | [x, y, z] => triplet x y z = triplet a b c
  | _ => false

/-- `get_month_number_from_str(str, start, stop)` on the window `w = str[start, stop)`: the compare chain
of the generated `Gen.Date.monthTable`, first match wins -/
def monthNumber (w : List Nat) : Option Nat :=
  if w.length < Gen.Date.monthMinWindow then none
  else match w with
    | a :: b :: c :: _ => (Gen.Date.monthTable.find? (fun e => tripletMatches a b c e.1)).map (·.2)
    | _ => none

/-- `is_utc_time_zone` on the NUL-terminated zone buffer (its bytes are never 0); the spellings are the
generated ones -/
def isUtcTimeZone (tz : List Nat) : Bool :=
  match tz with
  | [] => false
  | a :: rest =>
    if toLower a = Gen.Date.utcSingle then true
    else if tz.length = Gen.Date.offsetZoneLen ∧ a ∈ Gen.Date.offsetSigns then true
    else match rest with
      | [] => false
      | [b] => toLower a = Gen.Date.utcPair.1 ∧ toLower b = Gen.Date.utcPair.2
      | b :: c :: _ => Gen.Date.utcTriplets.any (tripletMatches a b c)

/-- machine state.  `tok` is the text `str[state_start_index, index)`, so `index - state_start_index`
is `tok.length` and the month look-up window is `tok ++ [c]`. -/
structure R where
  st : PState := .onWeekday
  tok : List Nat := []
  err : Bool := false
  tm : Tm := {}
  tz : List Nat := []
deriving Repr, DecidableEq, Inhabited

def dval (c : Nat) : Int := (c : Int) - 48

/-- libc: `tm_year` counts from 1900; the model's `Tm.year` is the full year -/
def tmYearBase : Int := 1900

def rstep (r : R) (c : Nat) : R :=
  let keep : R := { r with tok := r.tok ++ [c] }
  let fail : R := { keep with err := true }
  match r.st with
  | .onWeekday =>
    if c = 44 then { r with st := .onSpaceDelim, tok := [] }
    else if isDigit c then { keep with st := .onMonthDay }   -- digit is not accumulated; start index unchanged
    else if !isAlpha c then fail else keep
  | .onSpaceDelim =>
    if isSpace c then { r with st := .onMonthDay, tok := [] } else fail
  | .onMonthDay =>
    if isDigit c then { keep with tm := { r.tm with mday := wrap32 (r.tm.mday * 10 + dval c) } }
    else if isSpace c then { r with st := .onMonth, tok := [] }
    else fail
  | .onMonth =>
    if isSpace c then
      match monthNumber (r.tok ++ [c]) with
      | some k => { r with st := .onYear, tok := [], tm := { r.tm with mon := k } }
      | none => fail
    else if !isAlpha c then fail else keep
  | .onYear =>
    if isSpace c ∧ r.tok.length = Gen.Date.rfcYear4Digits then
      { r with st := .onHour, tok := [], tm := { r.tm with year := r.tm.year - Gen.Date.rfcYear4Sub + tmYearBase } }
    else if isSpace c ∧ r.tok.length = Gen.Date.rfcYear2Digits then
      { r with st := .onHour, tok := [], tm := { r.tm with year := r.tm.year + Gen.Date.rfcYear2Add - Gen.Date.rfcYear2Sub + tmYearBase } }
    else if isDigit c then { keep with tm := { r.tm with year := wrap32 (r.tm.year * 10 + dval c) } }
    else fail
  | .onHour =>
    if c = 58 ∧ r.tok.length = 2 then { r with st := .onMinute, tok := [] }
    else if isDigit c then { keep with tm := { r.tm with hour := wrap32 (r.tm.hour * 10 + dval c) } }
    else fail
  | .onMinute =>
    if c = 58 ∧ r.tok.length = 2 then { r with st := .onSecond, tok := [] }
    else if isDigit c then { keep with tm := { r.tm with min := wrap32 (r.tm.min * 10 + dval c) } }
    else fail
  | .onSecond =>
    if isSpace c ∧ r.tok.length = 2 then { r with st := .onTz, tok := [] }
    else if isDigit c then { keep with tm := { r.tm with sec := wrap32 (r.tm.sec * 10 + dval c) } }
    else fail
  | .onTz =>
    if (isAlnum c || c == 45 || c == 43) ∧ r.tok.length < Gen.Date.tzMaxChars then { keep with tz := r.tz ++ [c] }
    else fail
  | .finished => fail

/-- `while (!error && index < len)` -/
def rrun (r : R) : List Nat → R
  | [] => r
  | c :: cs => if r.err then r else rrun (rstep r c) cs

/-- `s_parse_rfc_822`: `some (tm, tz, utc_assumed)` when it returns true.  In the model `tm.year`
is the full year (`tm_year + 1900`): the 4-digit branch (`tm_year -= 1900`) and the 2-digit branch
(`tm_year += 2000 - 1900`) apply the generated constants and libc's base is added back. -/
def parseRfc822 (s : List Nat) : Option (Tm × List Nat × Bool) :=
  let r := rrun {} s
  let utc := r.tz ≠ [] ∧ isUtcTimeZone r.tz
  let err := r.err ∨ (r.tz ≠ [] ∧ ¬ isUtcTimeZone r.tz)
  if err ∨ r.st ≠ .onTz then none else some (r.tm, r.tz, utc)

/-! ### ISO 8601 reader (`s_parse_iso_8601`) -/

/-- `s_read_n_digits` -/
def readDigits : Nat → List Nat → Nat → Option (Nat × List Nat)
  | 0, s, acc => some (acc, s)
  | _ + 1, [], _ => none
  | n + 1, c :: s, acc => if isDigit c then readDigits n s (acc * 10 + (c - 48)) else none

/-- `s_advance_if_next_char_is` -/
def advanceIf (c : Nat) : List Nat → Bool × List Nat
  | [] => (false, [])
  | x :: s => if x = c then (true, s) else (false, x :: s)

def dropDigits : List Nat → List Nat
  | [] => []
  | c :: s => if isDigit c then dropDigits s else c :: s

/-- `s_skip_optional_fractional_seconds` (`none` = error) -/
def skipFraction : List Nat → Option (List Nat)
  | [] => some []
  | c :: s =>
    if c ≠ 46 ∧ c ≠ 44 then some (c :: s)
    else match s with
      | d :: s' => if isDigit d then some (dropDigits s') else none
      | [] => none

/-- the part after the seconds: optional fraction, then `Z`/`z` or `±hh[:]mm`; returns the offset -/
def parseIsoZone (s : List Nat) : Option Int := do
  let s ← skipFraction s
  match s with
  | [] => none
  | c :: s =>
    if toLower c = 122 then some 0
    else if c ≠ 43 ∧ c ≠ 45 then none
    else do
      let (hh, s) ← readDigits 2 s 0
      let (_, s) := advanceIf 58 s
      let (mm, _) ← readDigits 2 s 0
      let off : Int := (hh : Int) * 3600 + (mm : Int) * 60
      some (if c = 45 then -off else off)

/-- the time part after `T`: `hh[:]mm[:]ss`, returns fields and the rest -/
def parseIsoClock (s : List Nat) : Option (Nat × Nat × Nat × List Nat) := do
  let (hour, s) ← readDigits 2 s 0
  let (sep, s) := advanceIf 58 s
  let (min, s) ← readDigits 2 s 0
  let s ← (if sep then (match s with | 58 :: s' => some s' | _ => none) else some s)
  let (sec, s) ← readDigits 2 s 0
  some (hour, min, sec, s)

/-- `s_parse_iso_8601`: `some (tm, seconds_offset)` when it returns true -/
def parseIso (s : List Nat) : Option (Tm × Int) := do
  let (year, s) ← readDigits 4 s 0
  let (sep, s) := advanceIf 45 s
  let (mon, s) ← readDigits 2 s 0
  let s ← (if sep then (match s with | 45 :: s' => some s' | _ => none) else some s)
  let (mday, s) ← readDigits 2 s 0
  let tm : Tm := { year := (year : Int) - Gen.Date.isoYearSub + tmYearBase, mon := (mon : Int) - 1, mday := mday }
  match s with
  | [] => some (tm, 0)
  | c :: s =>
    if toLower c ≠ 116 ∧ c ≠ 32 then none
    else do
      let (hour, min, sec, s) ← parseIsoClock s
      let off ← parseIsoZone s
      some ({ tm with hour := hour, min := min, sec := sec }, off)

/-! ### `aws_date_time_init_from_str_cursor` -/

/-- `strtol(buf, NULL, 10)` on a two-character buffer whose bytes are alphanumeric, `+` or `-` -/
def strtol2 (a b : Nat) : Int :=
  if a = 43 then (if isDigit b then dval b else 0)
  else if a = 45 then (if isDigit b then - dval b else 0)
  else if isDigit a then (if isDigit b then dval a * 10 + dval b else dval a)
  else 0

/-- offset carried by an RFC 822 zone `±HHMM` (the zone buffer has 5 bytes when this is used) -/
def rfcOffset (tz : List Nat) : Int :=
  match tz with
  | [sg, h1, h2, m1, m2] =>
    if sg = 43 ∨ sg = 45 then
      let off := strtol2 h1 h2 * 3600 + strtol2 m1 m2 * 60
      if sg = 45 then -off else off
    else 0
  | _ => 0

def maxStrLen : Nat := Gen.Date.AWS_DATE_TIME_STR_MAX_LEN

def mkDateTime (ts : Int) (ms : Nat) (utc : Bool) (tz : List Nat) : DateTime :=
  { timestamp := ts, millis := ms, gmt := gmtime ts, utcAssumed := utc, tz := tz }

def initFromStr (s : List Nat) (fmt : Fmt) : Except Err DateTime :=
  if s.length > maxStrLen then .error .overflowDetected else
  let iso : Option (Tm × Int) :=
    if fmt = .iso8601 ∨ fmt = .iso8601Basic ∨ fmt = .autoDetect then parseIso s else none
  let rfc : Option (Tm × List Nat × Bool) :=
    if fmt = .rfc822 ∨ (fmt = .autoDetect ∧ iso.isNone) then parseRfc822 s else none
  -- (parsed_time, seconds_offset, utc_assumed, tz)
  let res : Option (Tm × Int × Bool × List Nat) :=
    match rfc, iso with
    | some (tm, tz, utc), _ => some (tm, (if utc then rfcOffset tz else 0), utc, tz)
    | none, some (tm, off) => some (tm, off, true, [])
    | none, none => none
  match res with
  | none => .error .invalidDateStr
  | some (tm, off, utc, tz) =>
    -- `utc_assumed || seconds_offset` selects timegm, otherwise mktime; with TZ=UTC both are `timegm`
    .ok (mkDateTime (timegm tm - off) 0 utc tz)

/-! ### formatting (`aws_date_time_to_utc_time_str`, `…_short_str`) -/

def formatText (tm : Tm) (fmt : Fmt) (short : Bool) : Option (List Nat) :=
  match fmt, short with
  | .rfc822, false => some (fmtRfc822 tm)
  | .rfc822, true => some (fmtRfc822Short tm)
  | .iso8601, false => some (fmtIso tm)
  | .iso8601, true => some (fmtIsoShort tm)
  | .iso8601Basic, false => some (fmtBasic tm)
  | .iso8601Basic, true => some (fmtBasicShort tm)
  | .autoDetect, _ => none

/-- one conversion specification of `strftime` (C locale); `none`: not modelled (e.g. `%Z`) -/
def strftimeConv (c : Nat) (tm : Tm) : Option (List Nat) :=
  if c = 97 then some (dayName tm.wday)             -- %a
  else if c = 98 then some (monthName tm.mon)       -- %b
  else if c = 100 then some (printPad2 tm.mday)     -- %d
  else if c = 109 then some (printPad2 (tm.mon + 1)) -- %m
  else if c = 89 then some (printYear tm.year)      -- %Y
  else if c = 72 then some (printPad2 tm.hour)      -- %H
  else if c = 77 then some (printPad2 tm.min)       -- %M
  else if c = 83 then some (printPad2 tm.sec)       -- %S
  else if c = 37 then some [37]                     -- %%
  else none

/-- model of `strftime(buf, max, fmt, tm)` as far as the text goes -/
def strftime : List Nat → Tm → Option (List Nat)
  | [], _ => some []
  | c :: r, tm =>
    if c = 37 then
      match r with
      | [] => none
      | k :: r' =>
        match strftimeConv k tm, strftime r' tm with
        | some a, some b => some (a ++ b)
        | _, _ => none
    else (strftime r tm).map (c :: ·)

def fmtIndex : Fmt → Nat
  | .rfc822 => Gen.Date.AWS_DATE_FORMAT_RFC822
  | .iso8601 => Gen.Date.AWS_DATE_FORMAT_ISO_8601
  | .iso8601Basic => Gen.Date.AWS_DATE_FORMAT_ISO_8601_BASIC
  | .autoDetect => Gen.Date.AWS_DATE_FORMAT_AUTO_DETECT

/-- the `switch` of `aws_date_time_to_utc_time_str` / `…_short_str` as generated: which `struct tm` and
which format string; the model only has `gmt_time`, a case formatting `local_time` is outside it (`none`) -/
def formatTextGen (tm : Tm) (fmt : Fmt) (short : Bool) : Option (List Nat) :=
  match (if short then Gen.Date.utcShortStr else Gen.Date.utcStr).find? (fun e => e.1 = fmtIndex fmt) with
  | some (_, true, f) => strftime f tm
  | _ => none

/-- `cap` = remaining space of the output buffer; `strftime` needs room for the text and a NUL.
(`formatText` above is the closed form; `Proofs.C19.formatTextGen_eq` shows the two agree.) -/
def formatUtc (dt : DateTime) (fmt : Fmt) (short : Bool) (cap : Nat) : Except Err (List Nat) :=
  match formatTextGen dt.gmt fmt short with
  | none => .error .invalidArgument
  | some t => if t.length + 1 > cap ∨ t.length = 0 then .error .shortBuffer else .ok t

/-! ### local-time formatters, for a fixed-offset process time zone

`aws_date_time_to_local_time_str` / `…_short_str` format `dt->local_time` (`localtime_r` of the timestamp).
For a POSIX zone without daylight saving (`TZ=NAMEoffset`, also `TZ=UTC`) local time is UTC shifted by a
constant and `%Z` prints the name; other zones are not modelled. -/

structure Zone where
  off : Int := 0           -- seconds east of UTC
  name : List Nat := []    -- what `%Z` prints
deriving Repr, DecidableEq, Inhabited

def localtime (z : Zone) (t : Int) : Tm := gmtime (t + z.off)

/-- `strftime` with `%Z` -/
def strftimeLocal (zn : List Nat) : List Nat → Tm → Option (List Nat)
  | [], _ => some []
  | c :: r, tm =>
    if c = 37 then
      match r with
      | [] => none
      | k :: r' =>
        match (if k = 90 then some zn else strftimeConv k tm), strftimeLocal zn r' tm with
        | some a, some b => some (a ++ b)
        | _, _ => none
    else (strftimeLocal zn r tm).map (c :: ·)

/-- the `switch` of the two local-time formatters as generated; a case formatting `gmt_time` is outside the model -/
def formatLocalText (z : Zone) (dt : DateTime) (fmt : Fmt) (short : Bool) : Option (List Nat) :=
  match (if short then Gen.Date.localShortStr else Gen.Date.localStr).find? (fun e => e.1 = fmtIndex fmt) with
  | some (_, false, f) => strftimeLocal z.name f (localtime z dt.timestamp)
  | _ => none

def formatLocal (z : Zone) (dt : DateTime) (fmt : Fmt) (short : Bool) (cap : Nat) : Except Err (List Nat) :=
  match formatLocalText z dt fmt short with
  | none => .error .invalidArgument
  | some t => if t.length + 1 > cap ∨ t.length = 0 then .error .shortBuffer else .ok t

/-- an `aws_byte_buf` as the formatters see it: the `len` bytes already present and the capacity
(`len ≤ capacity` is the byte-buffer invariant; `capacity - len` is then the remaining space) -/
structure Buf where
  data : List Nat := []
  cap : Nat := 0
deriving Repr, DecidableEq, Inhabited

/-- `s_date_to_str` behind `aws_date_time_to_utc_time_str` / `…_short_str`: `strftime` writes at
`buffer + len` into the remaining `capacity - len` bytes (text and a NUL must fit); on success
`len += bytes_written` — the text is *appended*; on refusal (`AWS_ERROR_SHORT_BUFFER`, or
`AWS_ERROR_INVALID_ARGUMENT` for a format without a case) `len` and the bytes before it are untouched -/
def formatInto (dt : DateTime) (fmt : Fmt) (short : Bool) (b : Buf) : Except Err Buf :=
  match formatTextGen dt.gmt fmt short with
  | none => .error .invalidArgument
  | some t =>
    if t.length + 1 > b.cap - b.data.length ∨ t.length = 0 then .error .shortBuffer
    else .ok { b with data := b.data ++ t }

/-! ### epoch views -/

abbrev u64 : Nat := 18446744073709551616
/-- `aws_timestamp_convert(x, from, to, remainder?)` through the generated translation of clock.inl;
`u` is one of the generated call descriptions `(from, to, remainder pointer passed)` -/
def convert (x : Nat) (u : Nat × Nat × Bool) : Nat × Nat :=
  (Gen.Math.Clock.aws_timestamp_convert x u.1 u.2.1 u.2.2).getD (0, 0)

def toU64 (x : Int) : Nat := (x % (u64 : Int)).toNat

/-- `aws_date_time_init_epoch_millis` -/
def initEpochMillis (ms : Nat) : DateTime :=
  let (secs, rem) := convert ms Gen.Date.initMillis
  mkDateTime secs (rem % 65536) false []

/-- `aws_date_time_init_epoch_secs` for the double `secs + ms/1000` (`ms < 1000`, `secs ≥ 0` when `ms > 0`) -/
def initEpochSecs (secs : Int) (ms : Nat) : DateTime := mkDateTime secs ms false []

/-! ### `aws_date_time_init_epoch_secs` on an actual `double`

`dt->milliseconds = (uint16_t)round(modf(sec_ms, &integral) * 1000); dt->timestamp = (time_t)integral;`
modelled over the rationals: a finite non-negative double is `sig · 2^(ex − 1075)`; `modf` is exact; the
product with 1000.0 is rounded to 53 significant bits, ties to even (`rne`); C's `round` is exact, halves away
from zero.  A fraction in [0.9995, 1) therefore gives `milliseconds = 1000` with the *same* `timestamp` — the
object then stands for `timestamp + 1.000 s` in every epoch view.  (Assumption: IEEE-754 binary64 arithmetic,
round-to-nearest mode, no excess precision — x86-64/SSE2; the run compares bit patterns against the C code and
against Python's floats.)  Negative, non-finite and ≥ 2^63 doubles are not modelled (`none`). -/

/-- `n / d` rounded to the nearest integer, ties to even -/
def rne (n d : Nat) : Nat :=
  let q := n / d
  let r := n % d
  if 2 * r < d then q else if 2 * r > d then q + 1 else if q % 2 = 0 then q else q + 1

/-- `(uint16_t)round(fl(n / den))` for `n / den` = fraction · 1000 (so `n < 1000 · den`): the product lies in
`[2^(52−s), 2^(53−s))` for the `s` found, one unit in the last place is `2^(−s)`; below 1/4 it rounds to 0 -/
def productShift (n den : Nat) : Option Nat :=
  ((List.range 12).map (· + 43)).find? (fun s => 2 ^ 52 * den ≤ 2 ^ s * n)   -- literal factors first: see Proofs.C19 note

def roundedMillis (n den : Nat) : Nat :=
  match productShift n den with
  | none => 0
  | some s =>
    let m := rne (n * 2 ^ s) den               -- fl(fraction · 1000) = m · 2^(−s)
    (2 * m + 2 ^ s) / 2 ^ (s + 1) % 65536      -- C `round`: exact, halves away from zero; then the cast

/-- `(integral part, milliseconds as stored)` for the double with bit pattern `bits` -/
def splitDouble (bits : Nat) : Option (Nat × Nat) :=
  let E := bits / 2 ^ 52 % 2048
  let M := bits % 2 ^ 52
  if bits ≥ 2 ^ 63 ∨ E = 2047 ∨ E > 1085 then none else
  let sig := if E = 0 then M else 2 ^ 52 + M
  let ex := if E = 0 then 1 else E            -- value = sig · 2^(ex − 1075)
  let num := sig * 2 ^ (ex - 1075)
  let den := 2 ^ (1075 - ex)
  let integral := num / den
  let n := 1000 * (num % den)                  -- fraction · 1000 = n / den, exactly
  some (integral, roundedMillis n den)

/-- `aws_date_time_init_epoch_secs(dt, d)` for the double with these bits -/
def initEpochSecsDouble (bits : Nat) : Option DateTime :=
  (splitDouble bits).map (fun (s, ms) => mkDateTime s ms false [])

def asMillis (dt : DateTime) : Nat :=
  ((convert (toU64 dt.timestamp) Gen.Date.asMillisSecs).1 + dt.millis) % u64

/-- `aws_date_time_as_nanos` as first found: the two (saturating) conversions added with a plain `+`, which
wraps.  Kept as the record of the defect (`c19_nanos_plain_add_wraps`); the current body is `asNanos`. -/
def asNanosPlainAdd (dt : DateTime) : Nat :=
  ((convert (toU64 dt.timestamp) Gen.Date.asNanosSecs).1 + (convert dt.millis Gen.Date.asNanosMillis).1) % u64

/-- `aws_date_time_as_nanos`: `aws_add_u64_saturating(convert(secs → ns), convert(ms → ns))`; which of the two
additions the source has now is generated (`Gen.Date.asNanosSaturatingAdd`) -/
def asNanos (dt : DateTime) : Nat :=
  if Gen.Date.asNanosSaturatingAdd then
    Gen.Math.Overflow.aws_add_u64_saturating (convert (toU64 dt.timestamp) Gen.Date.asNanosSecs).1
      (convert dt.millis Gen.Date.asNanosMillis).1
  else asNanosPlainAdd dt

/-- `aws_date_time_diff` -/
def diff (a b : DateTime) : Int := a.timestamp - b.timestamp

/-- `aws_date_time_dst(dt, false)`: `gmtime_r` always sets `tm_isdst = 0` -/
def accDst (_ : DateTime) : Bool := false

/-! ### accessors (UTC), with the C result types -/

def accYear (dt : DateTime) : Nat := (dt.gmt.year % 65536).toNat       -- (uint16_t)(tm_year + 1900)
def accMonth (dt : DateTime) : Int := dt.gmt.mon                         -- enum, = tm_mon
def accMonthDay (dt : DateTime) : Nat := (dt.gmt.mday % 256).toNat       -- (uint8_t)
def accDayOfWeek (dt : DateTime) : Int := dt.gmt.wday
def accHour (dt : DateTime) : Nat := (dt.gmt.hour % 256).toNat
def accMinute (dt : DateTime) : Nat := (dt.gmt.min % 256).toNat
def accSecond (dt : DateTime) : Nat := (dt.gmt.sec % 256).toNat

/-! ## Vocabulary of the theorem statements (texts the property quantifies over) -/
namespace Spec

/-- last second of 9999-12-31 -/
def maxInstant : Int := 253402300799

/-- optional fractional seconds: nothing, or `.`/`,` followed by one or more digits -/
def isFraction (f : List Nat) : Prop :=
  f = [] ∨ ∃ sep d0 ds, f = sep :: d0 :: ds ∧ (sep = 46 ∨ sep = 44) ∧ isDigit d0 = true ∧ ∀ x ∈ ds, isDigit x = true

/-- `Z`, `UT`, `UTC`, `GMT` in any mixture of cases -/
def isUtcDesignator (z : List Nat) : Prop :=
  z.map toLower = [122] ∨ z.map toLower = [117, 116] ∨ z.map toLower = [117, 116, 99] ∨ z.map toLower = [103, 109, 116]

/-- the date/time separators the ISO reader accepts: `T`, `t`, blank -/
def isDateTimeSep (c : Nat) : Prop := c = 84 ∨ c = 116 ∨ c = 32

/-- a numeric offset `±hhmm` or `±hh:mm` as text -/
def offsetText (neg : Bool) (hh mm : Nat) (colon : Bool) : List Nat :=
  (if neg then 45 else 43) :: print2 hh ++ (if colon then [58] else []) ++ print2 mm

/-- the seconds an offset stands for (east positive) -/
def offsetSecs (neg : Bool) (hh mm : Nat) : Int :=
  if neg then -((hh : Int) * 3600 + (mm : Int) * 60) else (hh : Int) * 3600 + (mm : Int) * 60

/-- `pf` is a parse mode under which text of format `f` is meant to be read: the same format or
auto-detect; the ISO reader is shared by the extended and basic formats (date_time.h says so) -/
def Reads (pf f : Fmt) : Prop := (f = .rfc822 → pf = .rfc822 ∨ pf = .autoDetect) ∧ (f ≠ .rfc822 → pf ≠ .rfc822)

end Spec

end AwsVerif.DateTime
