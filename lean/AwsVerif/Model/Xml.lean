import AwsVerif.Gen.XmlConsts
/-!
Model of `source/xml_parser.c` (aws_xml_parse, s_node_next_sibling, s_load_node_decl,
s_advance_to_closing_tag, aws_xml_node_traverse, aws_xml_node_as_body) and of the byte-cursor
helpers it uses (`aws_byte_cursor_advance`, `_find_exact`, `_split_on_char`, `_trim_pred`).

Memory discipline (DESIGN 4.3): the document is `doc : List UInt8`; a cursor is `(off,len)` into
it.  Every read the C performs (`ptr[i]`, `*(p+1)`, `memchr(p,c,n)`, `memcmp`, the `memcpy` of the
node name into the compare buffers) goes through `rd` / `memchr` / `memcmpEq` / `slice`, which
raise `Fault.oob` when any byte touched lies outside the document block.  `memchr(p,c,n)` and
`memcmp(p,q,n)` are charged with all `n` bytes.  Loops take a fuel argument (`Fault.fuel` when it
runs out); `Props/C12.lean` proves that neither fault can happen.

Callbacks are programs `List Nat → Action` (the node path: `[]` is the root, `[0,2]` the third
child of the first child of the root, children numbered in the order the parser reports them).
A callback records the event and then, per action: `descend` = `return aws_xml_node_traverse(node, cb, …)`,
`body` = `return aws_xml_node_as_body(node, &out)`, `skip` = `return AWS_OP_SUCCESS`,
`abort` = `return aws_raise_error(AWS_ERROR_INVALID_ARGUMENT)`.
-/
namespace AwsVerif.Xml
open AwsVerif.Gen

abbrev Bytes := List UInt8

def SIZE_MAX : Nat := 2^64 - 1
/-- `SIZE_MAX >> 1` -/
def HALF : Nat := SIZE_MAX / 2

inductive Fault where
  | oob (i : Nat)   -- a read at document offset `i` (or ending there) outside the document
  | fuel
deriving Repr, DecidableEq

/-- error codes that can be the thread's last error during a parse -/
inductive Err where
  | none | invalidXml | matchNotFound | shortBuffer | listExceeds | userAbort
deriving Repr, DecidableEq

structure Cur where
  off : Nat
  len : Nat
deriving Repr, DecidableEq

/-- a view handed to the user; `none` is `{NULL,0}` -/
abbrev View := Option Cur

-- ---------------------------------------------------------------- checked reads
def LT : UInt8 := 60      -- '<'
def GT : UInt8 := 62      -- '>'
def SLASH : UInt8 := 47
def QMARK : UInt8 := 63
def BANG : UInt8 := 33
def SPACE : UInt8 := 32
def EQS : UInt8 := 61
def QUOTE : UInt8 := 34

/-- `doc[i]` -/
def rd (doc : Bytes) (i : Nat) : Except Fault UInt8 :=
  match doc[i]? with
  | some b => .ok b
  | none => .error (.oob i)

def idxOf (c : UInt8) : Bytes → Option Nat
  | [] => none
  | b :: bs => if b = c then some 0 else (idxOf c bs).map (· + 1)

/-- `memchr(doc+off, c, n)`: index relative to `off` -/
def memchr (doc : Bytes) (off n : Nat) (c : UInt8) : Except Fault (Option Nat) :=
  if off + n ≤ doc.length then .ok (idxOf c ((doc.drop off).take n)) else .error (.oob (off + n))

/-- `memcpy(buf, doc+off, n)` (the bytes read) -/
def slice (doc : Bytes) (off n : Nat) : Except Fault Bytes :=
  if off + n ≤ doc.length then .ok ((doc.drop off).take n) else .error (.oob (off + n))

/-- `!memcmp(doc+off, pat, |pat|)` -/
def memcmpEq (doc : Bytes) (off : Nat) (pat : Bytes) : Except Fault Bool :=
  if off + pat.length ≤ doc.length then .ok ((doc.drop off).take pat.length == pat) else .error (.oob (off + pat.length))

-- ---------------------------------------------------------------- byte_buf.c helpers
/-- `aws_byte_cursor_advance(&c, n)` (the cursor afterwards; refusal leaves it unchanged) -/
def advance (c : Cur) (n : Nat) : Cur :=
  if c.len > HALF ∨ n > HALF ∨ n > c.len then c else ⟨c.off + n, c.len - n⟩

/-- loop of `aws_byte_cursor_find_exact`; `w` is `working_cur` -/
def findExactLoop (doc : Bytes) (pat : Bytes) : Nat → Cur → Except Fault (Option Nat × Err)
  | 0, _ => .error .fuel
  | f+1, w =>
    if w.len = 0 then .ok (none, .matchNotFound) else do
    let r ← memchr doc w.off w.len (pat.headD 0)
    match r with
    | none => .ok (none, .matchNotFound)
    | some k =>
      let w1 := advance w k
      if w1.len < pat.length then .ok (none, .matchNotFound) else do
      let eq ← memcmpEq doc w1.off pat
      if eq then .ok (some w1.off, .none) else findExactLoop doc pat f (advance w1 1)

/-- `aws_byte_cursor_find_exact(inp, pat, &first_find)`: absolute offset of the first match
(`first_find` is then `(pos, inp.off+inp.len-pos)`), or `none` with the error raised -/
def findExact (doc : Bytes) (inp : Cur) (pat : Bytes) : Except Fault (Option Nat × Err) :=
  if pat.length > inp.len then .ok (none, .matchNotFound)
  else if pat.length < 1 then .ok (none, .shortBuffer)
  else findExactLoop doc pat (inp.len + 1) inp

/-- `aws_byte_cursor_split_on_char` into a static list of `cap` cursors (`aws_byte_cursor_next_split`
loop; `start` = `substr.ptr`).  `none`: the list was full (push_back failed). -/
def splitLoop (doc : Bytes) (inp : Cur) (c : UInt8) (cap : Nat) : Nat → Nat → List Cur → Except Fault (Option (List Cur))
  | 0, _, _ => .error .fuel
  | f+1, start, acc => do
    let rem := inp.off + inp.len - start
    let r ← memchr doc start rem c
    let piece : Cur := ⟨start, match r with | some k => k | none => rem⟩
    if acc.length ≥ cap then return none
    let acc' := acc ++ [piece]
    let next := start + piece.len + 1
    if next > inp.off + inp.len then return (some acc') else splitLoop doc inp c cap f next acc'

def splitOnChar (doc : Bytes) (inp : Cur) (c : UInt8) (cap : Nat) : Except Fault (Option (List Cur)) :=
  splitLoop doc inp c cap (inp.len + 2) inp.off []

/-- `aws_byte_cursor_left_trim_pred(c, is '"')` -/
def leftTrim (doc : Bytes) (off : Nat) : Nat → Except Fault Cur
  | 0 => .ok ⟨off, 0⟩
  | n+1 => do
    let b ← rd doc off
    if b = QUOTE then leftTrim doc (off + 1) n else .ok ⟨off, n + 1⟩

/-- `aws_byte_cursor_right_trim_pred(c, is '"')` -/
def rightTrim (doc : Bytes) (off : Nat) : Nat → Except Fault Cur
  | 0 => .ok ⟨off, 0⟩
  | n+1 => do
    let b ← rd doc (off + n)
    if b = QUOTE then rightTrim doc off n else .ok ⟨off, n + 1⟩

/-- `aws_byte_cursor_trim_pred(v, s_double_quote_fn)`; a zeroed cursor stays zeroed (no reads) -/
def trimQuotes (doc : Bytes) : View → Except Fault View
  | none => .ok none
  | some c => do
    let l ← leftTrim doc c.off c.len
    let r ← rightTrim doc l.off l.len
    return some r

-- ---------------------------------------------------------------- xml_parser.c
/-- the documented limit on element names (bytes); `Proofs/C12/GenBridge.lean` proves that the generated
buffer sizes and tests of the current source enforce exactly this -/
def MAX_NAME_LEN : Nat := 256
/-- the documented default depth limit; bridged to the generated `effective_max_depth` -/
def DEFAULT_MAX_DEPTH : Nat := 20
/-- capacity the list `splits` is initialised with in `s_load_node_decl` (generated: the expression passed to
`aws_array_list_init_static`, evaluated by the compiler) -/
def SPLIT_CAP : Nat := XmlConsts.splitListCap
/-- capacity of `node->attributes` (generated likewise) -/
def ATTR_CAP : Nat := XmlConsts.attrListCap
/-- capacity of `att_val_pair_lst` (generated likewise) -/
def PAIR_CAP : Nat := XmlConsts.pairListCap

inductive Action where
  | descend | body | skip | abort
deriving Repr, DecidableEq

abbrev Prog := List Nat → Action

structure Attr where
  name : View
  value : View
deriving Repr, DecidableEq

/-- `struct aws_xml_node` as handed to the callback (`processed` is control flow in the model) -/
structure Node where
  name : Cur
  attrs : List Attr
  docAtBody : Cur
  isEmpty : Bool
deriving Repr, DecidableEq

/-- what a callback observed.  `body`: `some v` once `aws_xml_node_as_body` succeeded.
`closeAt` is ghost: where the closing tag of a skipped / body-read node was found. -/
structure Event where
  path : List Nat
  depth : Nat
  name : Cur
  attrs : List Attr
  isEmpty : Bool
  action : Action
  body : Option View := none
  closeAt : Option Nat := none
deriving Repr, DecidableEq

structure PState where
  cur : Cur              -- parser.doc
  depth : Nat            -- aws_array_list_length(&parser.callback_stack)
  maxDepth : Nat
  error : Bool           -- parser.error != 0
  lastErr : Err          -- aws_last_error()
  events : List Event    -- newest first
deriving Repr

def PState.raise (s : PState) (e : Err) : PState := { s with lastErr := e }

/-- `aws_byte_cursor_split_on_char_n(inp, c, 1, out)` into a static list of 2 cursors: the piece before the
first `c` and *the rest of the string* (which may contain further `c`s); one piece if there is no `c`.
Two `aws_byte_cursor_next_split` calls, i.e. two `memchr`s: the second one's result is overwritten by
"take the rest".  With at most two pieces the push into the 2-element list cannot fail. -/
def splitOnCharN1 (doc : Bytes) (inp : Cur) (c : UInt8) : Except Fault (List Cur) := do
  let r ← memchr doc inp.off inp.len c
  match r with
  | none => return [⟨inp.off, inp.len⟩]
  | some k =>
    let start := inp.off + k + 1
    let rem := inp.len - (k + 1)
    let _ ← memchr doc start rem c
    return [⟨inp.off, k⟩, ⟨start, rem⟩]

/-- attribute loop body of `s_load_node_decl` for one `name=value` piece: split at the first '=' only.
With at most two pieces the split fails only if the list's capacity (`PAIR_CAP`, generated) is below 2. -/
def loadAttr (doc : Bytes) (pair : Cur) (le : Err) : Except Fault (Option Attr × Err) := do
  let ps ← splitOnCharN1 doc pair EQS
  -- a push into `att_val_pair_lst` beyond its capacity fails the split: the piece is skipped
  if ps.length > PAIR_CAP then return (none, .listExceeds)
  let nm : View := ps[0]?
  let v ← trimQuotes doc ps[1]?
  return (some ⟨nm, v⟩, le)

def loadAttrs (doc : Bytes) : List Cur → Err → Except Fault (List Attr × Err)
  | [], le => .ok ([], le)
  | p :: ps, le => do
    let (a, le) ← loadAttr doc p le
    let (as, le) ← loadAttrs doc ps le
    return (match a with | some a => a :: as | none => as, le)

/-- `s_load_node_decl(parser, decl_body, node)`: `none` = AWS_OP_ERR.
Note `decl_body->ptr[decl_body->len - 1]`: for `len = 0` the index wraps to `SIZE_MAX`, i.e. the
byte *before* the view (the `'<'`), which is inside the document although outside the view. -/
def loadNodeDecl (doc : Bytes) (decl : Cur) (docAtBody : Cur) (le : Err) : Except Fault (Option Node × Err) := do
  let e := decl.off + decl.len
  if e = 0 then throw (.oob 0)
  let last ← rd doc (e - 1)
  let isEmpty := last = SLASH
  let r ← splitOnChar doc decl SPACE SPLIT_CAP
  match r with
  | none => return (none, .invalidXml)
  | some [] => return (none, .invalidXml)
  | some (nm :: rest) =>
    let (as, le) ← loadAttrs doc rest le
    -- `aws_array_list_push_back(&node->attributes, …)`: the return value is ignored, pushes beyond the capacity are lost
    return (some ⟨nm, as.take ATTR_CAP, docAtBody, isEmpty⟩, le)

/-- `name_end == '>' || name_end == ' ' || …` (the alternatives are generated from the source) -/
def isNameEnd (b : UInt8) : Bool := XmlConsts.nameEndBytes.contains b

/-- `aws_byte_buf_append(&buf, &x)` on a buffer of fixed capacity `cap`: refused when it does not fit (the
callers in `s_advance_to_closing_tag` ignore the return value) -/
def bufAppend (cap : Nat) (buf x : Bytes) : Bytes := if cap - buf.length < x.length then buf else buf ++ x

/-- inner `while (parser->doc.len)` of `s_advance_to_closing_tag`; `cp` = `close_find_result.ptr` -/
def closeInner (doc : Bytes) (openPat : Bytes) (cp closeLen : Nat) : Nat → Cur → Nat → Err → Except Fault (Cur × Nat × Err)
  | 0, _, _, _ => .error .fuel
  | f+1, cur, dc, le =>
    if cur.len = 0 then .ok (cur, dc, le) else do
    let (r, e) ← findExact doc cur openPat
    match r with
    | some op =>
      if op < cp then do
        let skip := op - cur.off
        let nameEnd ← rd doc (op + openPat.length)
        closeInner doc openPat cp closeLen f (advance cur (skip + 1)) (if isNameEnd nameEnd then dc + 1 else dc) le
      else .ok (advance cur (cp - cur.off + closeLen), dc - 1, le)
    | none => .ok (advance cur (cp - cur.off + closeLen), dc - 1, e)

/-- outer `do … while (depth_count > 0)`; (parser.doc afterwards, closing-tag position or `none` = not found, last error) -/
def closeOuter (doc : Bytes) (openPat closePat : Bytes) : Nat → Cur → Nat → Err → Except Fault (Cur × Option Nat × Err)
  | 0, _, _, _ => .error .fuel
  | f+1, cur, dc, le => do
    let (r, _) ← findExact doc cur closePat
    match r with
    | none => .ok (cur, none, .invalidXml)
    | some cp =>
      let (cur', dc', le') ← closeInner doc openPat cp closePat.length (cur.len + 1) cur dc le
      if dc' > 0 then closeOuter doc openPat closePat f cur' dc' le' else .ok (cur', some cp, le')

/-- `s_advance_to_closing_tag(parser, node, out_body)`: (state, rc == 0, *out_body, closing-tag position) -/
def advanceToClosingTag (doc : Bytes) (st : PState) (node : Node) : Except Fault (PState × Bool × View × Option Nat) := do
  if node.isEmpty then return (st, true, none, none)
  let closingNameLen := node.name.len + XmlConsts.closingOverhead
  if XmlConsts.closingTagCannotFit closingNameLen node.docAtBody.len then
    return ({ st with error := true, lastErr := .invalidXml }, false, none, none)
  if XmlConsts.nameTooLong closingNameLen then
    return ({ st with error := true, lastErr := .invalidXml }, false, none, none)
  let nm ← slice doc node.name.off node.name.len
  -- the compare buffers live in `name_open` / `name_close`, whose sizes are generated
  let openPat := bufAppend XmlConsts.openBufCap (bufAppend XmlConsts.openBufCap [] [LT]) nm
  let closePat := bufAppend XmlConsts.closeBufCap (bufAppend XmlConsts.closeBufCap
    (bufAppend XmlConsts.closeBufCap (bufAppend XmlConsts.closeBufCap [] [LT]) [SLASH]) nm) [GT]
  let (cur', r, le) ← closeOuter doc openPat closePat (st.cur.len + 1) st.cur 1 st.lastErr
  match r with
  | none => return ({ st with cur := cur', lastErr := le }, false, none, none)
  | some cp =>
    let body : Cur := ⟨node.docAtBody.off, cp - node.docAtBody.off⟩
    return ({ st with cur := cur', lastErr := le }, !st.error, some body, some cp)

def mkEvent (path : List Nat) (st : PState) (n : Node) (a : Action) : Event :=
  { path := path, depth := st.depth, name := n.name, attrs := n.attrs, isEmpty := n.isEmpty, action := a }

def setBody (es : List Event) (b : View) (cp : Option Nat) : List Event :=
  match es with
  | [] => []
  | e :: r => { e with body := some b, closeAt := cp } :: r

def setClose (es : List Event) (cp : Option Nat) : List Event :=
  match es with
  | [] => []
  | e :: r => { e with closeAt := cp } :: r

/-- the user callback followed by the "skip if not processed" step that both call sites perform.
`trav` is `aws_xml_node_traverse` on this node.  Returns (state, ok). -/
def callbackAndSkip (doc : Bytes) (prog : Prog) (trav : PState → List Nat → Except Fault (PState × Bool))
    (st : PState) (node : Node) (path : List Nat) : Except Fault (PState × Bool) := do
  let act := prog path
  let st := { st with events := mkEvent path st node act :: st.events }
  match act with
  | .abort => return (st.raise .userAbort, false)
  | .descend => trav st path
  | .body =>
    let (st, ok, b, cp) ← advanceToClosingTag doc st node
    if ok then return ({ st with events := setBody st.events b cp }, true) else return (st, false)
  | .skip =>
    let (st, ok, _, cp) ← advanceToClosingTag doc st node
    if ok then return ({ st with events := setClose st.events cp }, true) else return (st, false)

/-- `aws_xml_node_traverse` prologue (depth check, push) around the child loop `loop` -/
def traverseWith (loop : PState → List Nat → Nat → Except Fault (PState × Bool))
    (st : PState) (path : List Nat) : Except Fault (PState × Bool) :=
  if st.depth ≥ st.maxDepth then
    .ok ({ st with error := true, lastErr := .invalidXml }, false)
  else loop { st with depth := st.depth + 1 } path 0

/-- the `while (!parser->error)` loop of `aws_xml_node_traverse` for the node at `path`, about to
look for child number `idx`, and the epilogue.  Returns (state, rc == 0). -/
def nodeLoop (doc : Bytes) (prog : Prog) : Nat → PState → List Nat → Nat → Except Fault (PState × Bool)
  | 0, _, _, _ => .error .fuel
  | f+1, st, path, idx =>
    if st.error then .ok ({ st with depth := st.depth - 1 }, false) else do
    let r ← memchr doc st.cur.off st.cur.len LT
    match r with
    | none => return ({ st with error := true, lastErr := .invalidXml }, false)
    | some k =>
      let next := st.cur.off + k
      let r2 ← memchr doc next (st.cur.len - k) GT
      match r2 with
      | none => return ({ st with error := true, lastErr := .invalidXml }, false)
      | some j =>
        let c ← rd doc (next + 1)
        let parentClosed := c = SLASH
        let st := { st with cur := advance st.cur (k + j + 1) }
        if parentClosed then return ({ st with depth := st.depth - 1 }, !st.error) else do
        -- `node_name_len - 1` cannot wrap: the byte at `next` is '<', so j ≥ 1
        let decl : Cur := ⟨next + 1, j - 1⟩
        let (n, le) ← loadNodeDecl doc decl st.cur st.lastErr
        let st := { st with lastErr := le }
        match n with
        | none => return (st, false)           -- `return AWS_OP_ERR` (no pop, parser.error untouched)
        | some node =>
          let (st, ok) ← callbackAndSkip doc prog (traverseWith (nodeLoop doc prog f)) st node (path ++ [idx])
          if !ok then return ({ st with error := true }, false)
          nodeLoop doc prog f st path (idx + 1)

def traverse (doc : Bytes) (prog : Prog) (fuel : Nat) : PState → List Nat → Except Fault (PState × Bool) :=
  traverseWith (nodeLoop doc prog fuel)

/-- `s_node_next_sibling(parser)` with the root callback on the stack. Returns (state, rc == 0). -/
def nodeNextSibling (doc : Bytes) (prog : Prog) (fuel : Nat) (st : PState) : Except Fault (PState × Bool) := do
  let r ← memchr doc st.cur.off st.cur.len LT
  match r with
  | none => return (st, !st.error)
  | some k =>
    let st := { st with cur := advance st.cur k }
    let r2 ← memchr doc st.cur.off st.cur.len GT
    match r2 with
    | none => return (st.raise .invalidXml, false)
    | some j =>
      let next := st.cur.off
      let st := { st with cur := advance st.cur (j + 1) }
      let decl : Cur := ⟨next + 1, j - 1⟩
      let (n, le) ← loadNodeDecl doc decl st.cur st.lastErr
      let st := { st with lastErr := le }
      match n with
      | none => return (st, false)
      | some node =>
        let (st, ok) ← callbackAndSkip doc prog (traverse doc prog fuel) st node []
        if !ok then return (st, false)
        return (st, !st.error)

/-- preamble loop of `aws_xml_parse`: `none` = error path (`goto clean_up`) -/
def preamble (doc : Bytes) : Nat → Cur → Except Fault (Option Cur)
  | 0, _ => .error .fuel
  | f+1, cur =>
    if cur.len = 0 then .ok (some cur) else do
    let r ← memchr doc cur.off cur.len LT
    match r with
    | none => return none
    | some k =>
      let cur := advance cur k
      let r2 ← memchr doc cur.off cur.len GT
      match r2 with
      | none => return none
      | some j =>
        let c ← rd doc (cur.off + 1)
        if XmlConsts.preambleMarkers.contains c then preamble doc f (advance cur (j + 1)) else return (some cur)

structure Result where
  ok : Bool
  lastErr : Err
  events : List Event    -- in callback order
deriving Repr

/-- fuel that `Props/C12.lean` proves sufficient -/
def fuelFor (doc : Bytes) : Nat := doc.length + 1

/-- `aws_xml_parse` with `options.doc = doc` (the whole block), `options.max_depth = maxDepth` -/
def parse (doc : Bytes) (prog : Prog) (maxDepth : Nat) : Except Fault Result := do
  let md := if maxDepth = 0 then DEFAULT_MAX_DEPTH else maxDepth
  let c ← preamble doc (fuelFor doc) ⟨0, doc.length⟩
  match c with
  | none => return ⟨false, .invalidXml, []⟩
  | some cur =>
    let st : PState := { cur := cur, depth := 1, maxDepth := md, error := false, lastErr := .none, events := [] }
    let (st, ok) ← nodeNextSibling doc prog (fuelFor doc) st
    return ⟨ok, st.lastErr, st.events.reverse⟩

-- ---------------------------------------------------------------- callbacks that ignore a failing traverse
/-! Executable copies of `nodeLoop` / `traverse` / `nodeNextSibling` / `parse` in which a callback whose action is
`descend` may discard the return value of `aws_xml_node_traverse` and return success (`ign path`).  Used by the
driver only (op programs with action `D`); the theorems are about `parse`, i.e. `ign = fun _ => false`, and
`c12_depth_refusal_sticky` says why ignoring a depth refusal still fails the parse. -/

/-- `return aws_xml_node_traverse(…)` vs. `aws_xml_node_traverse(…); return AWS_OP_SUCCESS;` -/
def ignoreFailure (ign : List Nat → Bool) (trav : PState → List Nat → Except Fault (PState × Bool))
    (st : PState) (path : List Nat) : Except Fault (PState × Bool) := do
  let (st', ok) ← trav st path
  return (st', ok || ign path)

def nodeLoopIgn (doc : Bytes) (prog : Prog) (ign : List Nat → Bool) : Nat → PState → List Nat → Nat → Except Fault (PState × Bool)
  | 0, _, _, _ => .error .fuel
  | f+1, st, path, idx =>
    if st.error then .ok ({ st with depth := st.depth - 1 }, false) else do
    let r ← memchr doc st.cur.off st.cur.len LT
    match r with
    | none => return ({ st with error := true, lastErr := .invalidXml }, false)
    | some k =>
      let next := st.cur.off + k
      let r2 ← memchr doc next (st.cur.len - k) GT
      match r2 with
      | none => return ({ st with error := true, lastErr := .invalidXml }, false)
      | some j =>
        let c ← rd doc (next + 1)
        let parentClosed := c = SLASH
        let st := { st with cur := advance st.cur (k + j + 1) }
        if parentClosed then return ({ st with depth := st.depth - 1 }, !st.error) else do
        -- `node_name_len - 1` cannot wrap: the byte at `next` is '<', so j ≥ 1
        let decl : Cur := ⟨next + 1, j - 1⟩
        let (n, le) ← loadNodeDecl doc decl st.cur st.lastErr
        let st := { st with lastErr := le }
        match n with
        | none => return (st, false)           -- `return AWS_OP_ERR` (no pop, parser.error untouched)
        | some node =>
          let (st, ok) ← callbackAndSkip doc prog (ignoreFailure ign (traverseWith (nodeLoopIgn doc prog ign f))) st node (path ++ [idx])
          if !ok then return ({ st with error := true }, false)
          nodeLoopIgn doc prog ign f st path (idx + 1)

def traverseIgn (doc : Bytes) (prog : Prog) (ign : List Nat → Bool) (fuel : Nat) : PState → List Nat → Except Fault (PState × Bool) :=
  traverseWith (nodeLoopIgn doc prog ign fuel)

def nodeNextSiblingIgn (doc : Bytes) (prog : Prog) (ign : List Nat → Bool) (fuel : Nat) (st : PState) : Except Fault (PState × Bool) := do
  let r ← memchr doc st.cur.off st.cur.len LT
  match r with
  | none => return (st, !st.error)
  | some k =>
    let st := { st with cur := advance st.cur k }
    let r2 ← memchr doc st.cur.off st.cur.len GT
    match r2 with
    | none => return (st.raise .invalidXml, false)
    | some j =>
      let next := st.cur.off
      let st := { st with cur := advance st.cur (j + 1) }
      let decl : Cur := ⟨next + 1, j - 1⟩
      let (n, le) ← loadNodeDecl doc decl st.cur st.lastErr
      let st := { st with lastErr := le }
      match n with
      | none => return (st, false)
      | some node =>
        let (st, ok) ← callbackAndSkip doc prog (ignoreFailure ign (traverseIgn doc prog ign fuel)) st node []
        if !ok then return (st, false)
        return (st, !st.error)

def parseIgn (doc : Bytes) (prog : Prog) (ign : List Nat → Bool) (maxDepth : Nat) : Except Fault Result := do
  let md := if maxDepth = 0 then DEFAULT_MAX_DEPTH else maxDepth
  let c ← preamble doc (fuelFor doc) ⟨0, doc.length⟩
  match c with
  | none => return ⟨false, .invalidXml, []⟩
  | some cur =>
    let st : PState := { cur := cur, depth := 1, maxDepth := md, error := false, lastErr := .none, events := [] }
    let (st, ok) ← nodeNextSiblingIgn doc prog ign (fuelFor doc) st
    return ⟨ok, st.lastErr, st.events.reverse⟩

/-- bytes of a view (for printing and for the event theorems); views are inside the document by
`c04_xml_views_inside`, so no fault channel here -/
def viewBytes (doc : Bytes) : View → Bytes
  | none => []
  | some c => (doc.drop c.off).take c.len

end AwsVerif.Xml
