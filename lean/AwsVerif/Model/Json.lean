import AwsVerif.Gen.JsonConsts
/-!
Model of `source/json.c` (the `aws_json_*` wrapper) over `source/external/cJSON.c` (1.7.18 with the
"Amazon edit" changes), transcribed from the code as written.

* `JVal` is the cJSON node tree seen through the wrapper: the child list of an array / object *in
  order*; object members carry their key (`item->string`).  Strings and keys are C strings: byte
  lists without NUL (`cstr` cuts at the first NUL, which is what `aws_string_c_str` + `strlen`
  / `cJSON_strdup` do).
* Numbers: `JNum.int n` is a double that is an integer in `[INT_MIN, INT_MAX]` other than `-0.0`:
  for these `print_number` takes the `%d` branch and `parse_number`'s `strtod` reads the digits
  back exactly; both are modelled exactly.  Every other double is `JNum.opaque bits`: its printed
  token (`%1.15g` / `%1.17g` / `null` for NaN, Inf / `0` for -0.0), `strtod` on a token that is not
  a plain in-range integer, and `compare_double` are *uninterpreted* parameters (`NumEnv`): libc
  number formatting is not modelled (DESIGN 5.11, 6).
* Text is handled as the byte list before the terminating NUL; "end of list" plays the role of the
  NUL terminator that `cJSON_ParseWithOpts` includes in the buffer (it matches no syntax
  character; `buffer_skip_whitespace` steps back onto it).  A failed parse yields `none` whatever
  the position (`cJSON_Parse` returns NULL).
* Loops over the flat text take a fuel argument (`parseValue`/`parseElems`/`parseMembers` use one
  unit per call); `Proofs/C11` shows the fuel given by `parseText` suffices for every printed tree.
-/
namespace AwsVerif.Json

abbrev Bytes := List UInt8

def INT_MIN : Int := -2147483648
def INT_MAX : Int := 2147483647

inductive JNum where
  | int (n : Int)            -- INT_MIN ≤ n ≤ INT_MAX (see `JNum.wf`)
  | opaque (bits : UInt64)   -- any other double, by IEEE-754 bit pattern
deriving Repr, DecidableEq, Inhabited

inductive JVal where
  | null
  | bool (b : Bool)
  | num (n : JNum)
  | str (s : Bytes)
  | arr (xs : List JVal)
  | obj (ms : List (Bytes × JVal))
deriving Repr, Inhabited

/-- libc / floating-point behaviour that is not modelled. -/
structure NumEnv where
  /-- text `print_number` emits for a double that is not int-class -/
  tok : UInt64 → Bytes
  /-- bit pattern `strtod` returns on a token (already cut to the part strtod consumes) that is
      not a plain in-range decimal integer -/
  strtod : Bytes → UInt64
  /-- `compare_double a b` when at least one side is not int-class -/
  cmp : UInt64 → UInt64 → Bool

/-! ### C strings -/

/-- what a C string holds of a byte sequence: everything before the first NUL -/
def cstr : Bytes → Bytes
  | [] => []
  | c :: r => if c = 0 then [] else c :: cstr r

def noNul (s : Bytes) : Prop := ∀ c ∈ s, c ≠ 0

/-- C-locale `tolower` on an unsigned char -/
def lower (c : UInt8) : UInt8 := if 65 ≤ c ∧ c ≤ 90 then c + 32 else c

/-- `case_insensitive_strcmp(a, b) == 0` -/
def keyEqCI (a b : Bytes) : Bool := a.map lower == b.map lower

/-- key equality used by `get_object_item(…, case_sensitive)` -/
def keyEq (caseSensitive : Bool) (a b : Bytes) : Bool := if caseSensitive then a == b else keyEqCI a b

/-! ### Integers as doubles (exact: |n| < 2^53) -/

/-- IEEE-754 binary64 bit pattern of `(double)n` for |n| < 2^53 -/
def bitsOfInt (n : Int) : UInt64 :=
  if n = 0 then 0 else
  let m := n.natAbs
  let e := Nat.log2 m
  let frac := m * 2 ^ (52 - e) - 2 ^ 52
  let sign := if n < 0 then 2 ^ 63 else 0
  UInt64.ofNat (sign + (e + 1023) * 2 ^ 52 + frac)

/-- the int-class test: the double is an integer in [INT_MIN, INT_MAX] and not -0.0
    (`d == (double)item->valueint` in `print_number`, minus the sign of zero) -/
def intOfBits? (b : UInt64) : Option Int :=
  let v := b.toNat
  if v = 0 then some 0 else
  let neg := v / 2 ^ 63 = 1
  let ex := (v / 2 ^ 52) % 2048
  let frac := v % 2 ^ 52
  if ex < 1023 ∨ ex > 1023 + 31 then none else
  let e := ex - 1023
  let M := 2 ^ 52 + frac
  if M % 2 ^ (52 - e) ≠ 0 then none else
  let m : Int := Int.ofNat (M / 2 ^ (52 - e))
  let n : Int := if neg then -m else m
  if INT_MIN ≤ n ∧ n ≤ INT_MAX then some n else none

def JNum.ofBits (b : UInt64) : JNum :=
  match intOfBits? b with
  | some n => .int n
  | none => .opaque b

def JNum.bits : JNum → UInt64
  | .int n => bitsOfInt n
  | .opaque b => b

def JNum.wf : JNum → Prop
  | .int n => INT_MIN ≤ n ∧ n ≤ INT_MAX
  | .opaque _ => True

/-! ### print_number (`%d` branch) and the decimal reader -/

/-- decimal digits of `n`, least significant first; `fuel` digits at most -/
def digitsRev : Nat → Nat → List Nat
  | 0, _ => []
  | f + 1, n => if n < 10 then [n] else (n % 10) :: digitsRev f (n / 10)

/-- `%d` of a non-negative int (at most 10 digits) -/
def decNat (n : Nat) : Bytes := (digitsRev 10 n).reverse.map (fun d => UInt8.ofNat (48 + d))

/-- `snprintf("%d", n)` -/
def decInt (n : Int) : Bytes := if n < 0 then 45 :: decNat n.natAbs else decNat n.natAbs

def printNum (env : NumEnv) : JNum → Bytes
  | .int n => decInt n
  | .opaque b => env.tok b

def isDigit (c : UInt8) : Bool := 48 ≤ c && c ≤ 57

/-- value of a digit string -/
def parseDec (ds : Bytes) : Nat := ds.foldl (fun a c => a * 10 + (c.toNat - 48)) 0

/-- the characters `parse_number` copies into its 64-byte buffer -/
def isNumChar (c : UInt8) : Bool :=
  isDigit c || c = 43 || c = 45 || c = 101 || c = 69 || c = 46

/-- at most 63 characters of the maximal run of number characters -/
def numToken (s : Bytes) : Bytes := (s.takeWhile isNumChar).take 63

def spanDigits (s : Bytes) : Nat := (s.takeWhile isDigit).length

/-- number of characters `strtod` (C locale) consumes from a token made of number characters:
    `[+-]? (digits [. digits*]? | . digits+) ([eE] [+-]? digits+)?`, 0 = no conversion -/
def strtodLen (t : Bytes) : Nat :=
  let sr : Nat × Bytes := match t with
    | [] => (0, [])
    | c :: r => if c = 43 ∨ c = 45 then (1, r) else (0, t)
  let n1 := spanDigits sr.2
  let r1 := sr.2.drop n1
  let fr : Nat × Nat × Bytes := match r1 with
    | [] => (0, 0, [])
    | c :: r' => if c = 46 then (1 + spanDigits r', spanDigits r', r'.drop (spanDigits r')) else (0, 0, r1)
  if n1 + fr.2.1 = 0 then 0 else
  let r2 := fr.2.2
  let expLen : Nat := match r2 with
    | [] => 0
    | c :: r3 =>
      if c = 101 ∨ c = 69 then
        let sr2 : Nat × Bytes := match r3 with
          | [] => (0, [])
          | c2 :: r4 => if c2 = 43 ∨ c2 = 45 then (1, r4) else (0, r3)
        let n3 := spanDigits sr2.2
        if n3 = 0 then 0 else 1 + sr2.1 + n3
      else 0
  sr.1 + n1 + fr.1 + expLen

/-- `-?[0-9]+` whose value is int-class (not "-0…0"): strtod returns exactly that integer -/
def plainInt? (t : Bytes) : Option Int :=
  let nd : Bool × Bytes := match t with
    | [] => (false, [])
    | c :: r => if c = 45 then (true, r) else (false, t)
  if nd.2.isEmpty || !(nd.2.all isDigit) then none else
  let v := parseDec nd.2
  if nd.1 then
    (if v = 0 ∨ v > 2147483648 then none else some (-(Int.ofNat v)))
  else
    (if v > 2147483647 then none else some (Int.ofNat v))

/-- `parse_number`: value and remaining text; `none` = "number_c_string == after_end" -/
def parseNumber (env : NumEnv) (s : Bytes) : Option (JNum × Bytes) :=
  let tok := numToken s
  let k := strtodLen tok
  if k = 0 then none else
  let t := tok.take k
  let v := match plainInt? t with
    | some n => JNum.int n
    | none => JNum.ofBits (env.strtod t)
  some (v, s.drop k)

/-! ### print_string_ptr -/

def hexLower (n : Nat) : UInt8 := if n < 10 then UInt8.ofNat (48 + n) else UInt8.ofNat (87 + n)

/-- the escape table of `print_string_ptr` (`\u%04x` for the other bytes below 0x20) -/
def escapeByte (c : UInt8) : Bytes :=
  if c = 34 then [92, 34]
  else if c = 92 then [92, 92]
  else if c = 8 then [92, 98]
  else if c = 12 then [92, 102]
  else if c = 10 then [92, 110]
  else if c = 13 then [92, 114]
  else if c = 9 then [92, 116]
  else if c < 32 then [92, 117, 48, 48, hexLower (c.toNat / 16), hexLower (c.toNat % 16)]
  else [c]

def escape : Bytes → Bytes
  | [] => []
  | c :: r => escapeByte c ++ escape r

def printString (s : Bytes) : Bytes := 34 :: (escape s ++ [34])

/-! ### parse_string -/

def hexVal? (c : UInt8) : Option Nat :=
  if 48 ≤ c ∧ c ≤ 57 then some (c.toNat - 48)
  else if 65 ≤ c ∧ c ≤ 70 then some (c.toNat - 55)
  else if 97 ≤ c ∧ c ≤ 102 then some (c.toNat - 87)
  else none

/-- `parse_hex4`: 0 when any of the four characters is not a hex digit -/
def parseHex4 (a b c d : UInt8) : Nat :=
  match hexVal? a, hexVal? b, hexVal? c, hexVal? d with
  | some w, some x, some y, some z => ((w * 16 + x) * 16 + y) * 16 + z
  | _, _, _, _ => 0

/-- the UTF-8 encoder of `utf16_literal_to_utf8` -/
def utf8Encode (cp : Nat) : Option Bytes :=
  let cont (x : Nat) : UInt8 := UInt8.ofNat ((x ||| 0x80) &&& 0xBF)
  if cp < 0x80 then some [UInt8.ofNat (cp &&& 0x7F)]
  else if cp < 0x800 then some [UInt8.ofNat (((cp >>> 6) ||| 0xC0) &&& 0xFF), cont cp]
  else if cp < 0x10000 then some [UInt8.ofNat (((cp >>> 12) ||| 0xE0) &&& 0xFF), cont (cp >>> 6), cont cp]
  else if cp ≤ 0x10FFFF then
    some [UInt8.ofNat (((cp >>> 18) ||| 0xF0) &&& 0xFF), cont (cp >>> 12), cont (cp >>> 6), cont cp]
  else none

/-- first loop of `parse_string` (text after the opening quote): find the closing quote, a
    backslash skips the following character.  Returns (body, text after the closing quote). -/
def scanBody : Bytes → Option (Bytes × Bytes)
  | [] => none
  | c :: r =>
    if c = 34 then some ([], r)
    else if c = 92 then
      match r with
      | [] => none
      | e :: r' => (scanBody r').map fun p => (c :: e :: p.1, p.2)
    else (scanBody r).map fun p => (c :: p.1, p.2)

/-- second loop of `parse_string`: un-escape the body -/
def decodeBody : Bytes → Option Bytes
  | [] => some []
  | c :: r =>
    if c ≠ 92 then (decodeBody r).map (c :: ·)
    else match r with
      -- a lone backslash at the end of the body (possible after a `\u` whose four "digits" swallowed
      -- a backslash): `input_pointer[1]` is then the closing quote itself, handled as `\"`
      | [] => some [34]
      | e :: r1 =>
        if e = 98 then (decodeBody r1).map (8 :: ·)
        else if e = 102 then (decodeBody r1).map (12 :: ·)
        else if e = 110 then (decodeBody r1).map (10 :: ·)
        else if e = 114 then (decodeBody r1).map (13 :: ·)
        else if e = 116 then (decodeBody r1).map (9 :: ·)
        else if e = 34 ∨ e = 92 ∨ e = 47 then (decodeBody r1).map (e :: ·)
        else if e = 117 then
          match r1 with
          | h1 :: h2 :: h3 :: h4 :: r2 =>
            let first := parseHex4 h1 h2 h3 h4
            if 0xDC00 ≤ first ∧ first ≤ 0xDFFF then none
            else if 0xD800 ≤ first ∧ first ≤ 0xDBFF then
              match r2 with
              | b :: u :: g1 :: g2 :: g3 :: g4 :: r3 =>
                if b ≠ 92 ∨ u ≠ 117 then none else
                let second := parseHex4 g1 g2 g3 g4
                if second < 0xDC00 ∨ second > 0xDFFF then none else
                let cp := 0x10000 + (((first &&& 0x3FF) <<< 10) ||| (second &&& 0x3FF))
                match utf8Encode cp, decodeBody r3 with
                | some u8, some t => some (u8 ++ t)
                | _, _ => none
              | _ => none
            else
              match utf8Encode first, decodeBody r2 with
              | some u8, some t => some (u8 ++ t)
              | _, _ => none
          | _ => none
        else none

/-- `parse_string` at a `"`: the C string stored (cut at an embedded NUL produced by `\u0000` or
    by invalid hex digits) and the text after the closing quote -/
def parseString : Bytes → Option (Bytes × Bytes)
  | [] => none
  | q :: r =>
    if q ≠ 34 then none else
    match scanBody r with
    | none => none
    | some (body, rest) =>
      match decodeBody body with
      | none => none
      | some out => some (cstr out, rest)

/-! ### print_value / print_array / print_object (compact and formatted) -/

def tabs (n : Nat) : Bytes := List.replicate n 9

mutual
/-- `print_value` with `output_buffer->depth = d` -/
def printValue (env : NumEnv) (fmt : Bool) (d : Nat) : JVal → Bytes
  | .null => [110, 117, 108, 108]
  | .bool true => [116, 114, 117, 101]
  | .bool false => [102, 97, 108, 115, 101]
  | .num n => printNum env n
  | .str s => printString s
  | .arr xs => 91 :: (printElems env fmt (d + 1) xs ++ [93])
  | .obj ms =>
    (123 :: (if fmt then [10] else [])) ++ printMembers env fmt (d + 1) ms ++ (if fmt then tabs d else []) ++ [125]
/-- elements of an array: `,` (`, ` when formatted) between them -/
def printElems (env : NumEnv) (fmt : Bool) (d : Nat) : List JVal → Bytes
  | [] => []
  | x :: r =>
    printValue env fmt d x ++
      (if r.isEmpty then [] else (44 :: (if fmt then [32] else []))) ++ printElems env fmt d r
/-- members of an object at depth `d` (already incremented): tabs, key, `:` (`:\t`), value, `,`, `\n` -/
def printMembers (env : NumEnv) (fmt : Bool) (d : Nat) : List (Bytes × JVal) → Bytes
  | [] => []
  | (k, v) :: r =>
    (if fmt then tabs d else []) ++ printString k ++ (58 :: (if fmt then [9] else [])) ++
      printValue env fmt d v ++ (if r.isEmpty then [] else [44]) ++ (if fmt then [10] else []) ++
      printMembers env fmt d r
end

/-- `cJSON_PrintUnformatted` / `cJSON_Print` -/
def printText (env : NumEnv) (fmt : Bool) (v : JVal) : Bytes := printValue env fmt 0 v

/-! ### parse_value / parse_array / parse_object -/

def skipWs : Bytes → Bytes
  | [] => []
  | c :: r => if c ≤ 32 then skipWs r else c :: r

/-- `strncmp(text, literal, strlen(literal)) == 0` (with `can_read`) -/
def startsWith : Bytes → Bytes → Bool
  | [], _ => true
  | _ :: _, [] => false
  | p :: ps, c :: cs => p == c && startsWith ps cs

mutual
/-- `parse_value` with `input_buffer->depth = d` -/
def parseValue (env : NumEnv) : Nat → Nat → Bytes → Option (JVal × Bytes)
  | 0, _, _ => none
  | f + 1, d, s =>
    if startsWith [110, 117, 108, 108] s then some (.null, s.drop 4)
    else if startsWith [102, 97, 108, 115, 101] s then some (.bool false, s.drop 5)
    else if startsWith [116, 114, 117, 101] s then some (.bool true, s.drop 4)
    else match s with
      | [] => none
      | c :: r =>
        if c = 34 then
          match parseString s with
          | some (b, rest) => some (.str b, rest)
          | none => none
        else if c = 45 ∨ isDigit c then
          match parseNumber env s with
          | some (n, rest) => some (.num n, rest)
          | none => none
        else if c = 91 then
          if d ≥ Gen.CJSON_NESTING_LIMIT then none else
          match skipWs r with
          | [] => none
          | c1 :: r1 =>
            if c1 = 93 then some (.arr [], r1)
            else match parseElems env f (d + 1) (c1 :: r1) with
              | some (xs, rest) => some (.arr xs, rest)
              | none => none
        else if c = 123 then
          if d ≥ Gen.CJSON_NESTING_LIMIT then none else
          match skipWs r with
          | [] => none
          | c1 :: r1 =>
            if c1 = 125 then some (.obj [], r1)
            else match parseMembers env f (d + 1) (c1 :: r1) with
              | some (ms, rest) => some (.obj ms, rest)
              | none => none
        else none
/-- the do-while of `parse_array`, positioned after `[` or `,` -/
def parseElems (env : NumEnv) : Nat → Nat → Bytes → Option (List JVal × Bytes)
  | 0, _, _ => none
  | f + 1, d, s =>
    match parseValue env f d (skipWs s) with
    | none => none
    | some (v, r) =>
      match skipWs r with
      | [] => none
      | c :: r2 =>
        if c = 44 then
          match parseElems env f d r2 with
          | some (xs, rest) => some (v :: xs, rest)
          | none => none
        else if c = 93 then some ([v], r2)
        else none
/-- the do-while of `parse_object`, positioned after `{` or `,` -/
def parseMembers (env : NumEnv) : Nat → Nat → Bytes → Option (List (Bytes × JVal) × Bytes)
  | 0, _, _ => none
  | f + 1, d, s =>
    match parseString (skipWs s) with
    | none => none
    | some (k, r0) =>
      match skipWs r0 with
      | [] => none
      | c0 :: r1 =>
        if c0 ≠ 58 then none else
        match parseValue env f d (skipWs r1) with
        | none => none
        | some (v, r) =>
          match skipWs r with
          | [] => none
          | c :: r2 =>
            if c = 44 then
              match parseMembers env f d r2 with
              | some (ms, rest) => some ((k, v) :: ms, rest)
              | none => none
            else if c = 125 then some ([(k, v)], r2)
            else none
end

def BOM : Bytes := [0xEF, 0xBB, 0xBF]

/-- `skip_utf8_bom`: `can_access_at_index(buffer, 4)` on a buffer of strlen+1 bytes -/
def skipBom (s : Bytes) : Bytes := if s.length ≥ 4 ∧ s.take 3 = BOM then s.drop 3 else s

/-- `cJSON_Parse` on a C string (no NUL inside `s`); trailing text after the value is ignored
    (`require_null_terminated = 0`) -/
def parseCStr (env : NumEnv) (s : Bytes) : Option JVal :=
  let s1 := skipBom s
  match parseValue env (2 * s1.length + 2) 0 (skipWs s1) with
  | some (v, _) => some v
  | none => none

/-- `aws_json_value_new_from_string`: the cursor is copied into a NUL-terminated temporary, so
    the text is cut at its first NUL -/
def parseText (env : NumEnv) (s : Bytes) : Option JVal := parseCStr env (cstr s)

/-! ### the parser with `input_buffer->depth` as STATE (as the C keeps it)

`parseValue` above passes the nesting depth as a parameter, so "children at depth+1, back at depth
afterwards" holds by construction.  The C code keeps one counter in the parse buffer: `depth++` after
the limit check in parse_array / parse_object, `depth--` at `success:` (reached both by the empty
container's `goto success` and by falling out of the loop).  The functions below transcribe exactly
that: they return the counter's value on exit.  `Proofs/C11/Depth.lean` proves the counter is
balanced (exit value = entry value on every successful path) and that the two parsers agree, i.e.
acceptance depends only on the true nesting depth.  The driver runs this version. -/

mutual
def parseValueS (env : NumEnv) : Nat → Nat → Bytes → Option (JVal × Bytes × Nat)
  | 0, _, _ => none
  | f + 1, d, s =>
    if startsWith [110, 117, 108, 108] s then some (.null, s.drop 4, d)
    else if startsWith [102, 97, 108, 115, 101] s then some (.bool false, s.drop 5, d)
    else if startsWith [116, 114, 117, 101] s then some (.bool true, s.drop 4, d)
    else match s with
      | [] => none
      | c :: r =>
        if c = 34 then
          match parseString s with
          | some (b, rest) => some (.str b, rest, d)
          | none => none
        else if c = 45 ∨ isDigit c then
          match parseNumber env s with
          | some (n, rest) => some (.num n, rest, d)
          | none => none
        else if c = 91 then
          if d ≥ Gen.CJSON_NESTING_LIMIT then none else
          -- input_buffer->depth++
          match skipWs r with
          | [] => none
          | c1 :: r1 =>
            if c1 = 93 then some (.arr [], r1, d + 1 - 1)          -- goto success: depth--
            else match parseElemsS env f (d + 1) (c1 :: r1) with
              | some (xs, rest, d') => some (.arr xs, rest, d' - 1) -- success: depth--
              | none => none
        else if c = 123 then
          if d ≥ Gen.CJSON_NESTING_LIMIT then none else
          match skipWs r with
          | [] => none
          | c1 :: r1 =>
            if c1 = 125 then some (.obj [], r1, d + 1 - 1)
            else match parseMembersS env f (d + 1) (c1 :: r1) with
              | some (ms, rest, d') => some (.obj ms, rest, d' - 1)
              | none => none
        else none
def parseElemsS (env : NumEnv) : Nat → Nat → Bytes → Option (List JVal × Bytes × Nat)
  | 0, _, _ => none
  | f + 1, d, s =>
    match parseValueS env f d (skipWs s) with
    | none => none
    | some (v, r, d1) =>
      match skipWs r with
      | [] => none
      | c :: r2 =>
        if c = 44 then
          match parseElemsS env f d1 r2 with
          | some (xs, rest, d2) => some (v :: xs, rest, d2)
          | none => none
        else if c = 93 then some ([v], r2, d1)
        else none
def parseMembersS (env : NumEnv) : Nat → Nat → Bytes → Option (List (Bytes × JVal) × Bytes × Nat)
  | 0, _, _ => none
  | f + 1, d, s =>
    match parseString (skipWs s) with
    | none => none
    | some (k, r0) =>
      match skipWs r0 with
      | [] => none
      | c0 :: r1 =>
        if c0 ≠ 58 then none else
        match parseValueS env f d (skipWs r1) with
        | none => none
        | some (v, r, d1) =>
          match skipWs r with
          | [] => none
          | c :: r2 =>
            if c = 44 then
              match parseMembersS env f d1 r2 with
              | some (ms, rest, d2) => some ((k, v) :: ms, rest, d2)
              | none => none
            else if c = 125 then some ([(k, v)], r2, d1)
            else none
end

/-- `cJSON_Parse` with the depth counter as state (starts at 0) -/
def parseCStrS (env : NumEnv) (s : Bytes) : Option JVal :=
  let s1 := skipBom s
  match parseValueS env (2 * s1.length + 2) 0 (skipWs s1) with
  | some (v, _, _) => some v
  | none => none

/-- `aws_json_value_new_from_string`, depth counter as state -/
def parseTextS (env : NumEnv) (s : Bytes) : Option JVal := parseCStrS env (cstr s)

/-! ### access layer of json.c -/

inductive Err where
  | invalidArgument   -- aws_raise_error(AWS_ERROR_INVALID_ARGUMENT)
  | invalidIndex      -- aws_raise_error(AWS_ERROR_INVALID_INDEX)
  | plain             -- AWS_OP_ERR / NULL returned without raising an error
deriving Repr, DecidableEq

/-- `get_object_item`: first member whose key matches -/
def findMember (cs : Bool) (k : Bytes) : List (Bytes × JVal) → Option (Bytes × JVal)
  | [] => none
  | m :: r => if keyEq cs k m.1 then some m else findMember cs k r

/-- `cJSON_DetachItemViaPointer` of the first member whose key matches -/
def eraseMember (cs : Bool) (k : Bytes) : List (Bytes × JVal) → List (Bytes × JVal)
  | [] => []
  | m :: r => if keyEq cs k m.1 then r else m :: eraseMember cs k r

/-- `cJSON_HasObjectItem` (→ `cJSON_GetObjectItem` → case-INsensitive lookup) -/
def hasMember (k : Bytes) (ms : List (Bytes × JVal)) : Bool := (findMember false k ms).isSome

/-- `aws_json_value_has_key` (key already a C string) -/
def hasKey (o : JVal) (k : Bytes) : Bool :=
  match o with
  | .obj ms => hasMember k ms
  | _ => false

/-- `aws_json_value_add_to_object` -/
def addToObject (o : JVal) (k : Bytes) (v : JVal) : Except Err JVal :=
  match o with
  | .obj ms => if hasMember k ms then .error .plain else .ok (.obj (ms ++ [(k, v)]))
  | _ => .error .invalidArgument

/-- `aws_json_value_get_from_object` -/
def getFromObject (o : JVal) (k : Bytes) : Except Err JVal :=
  match o with
  | .obj ms =>
    match findMember false k ms with
    | some m => .ok m.2
    | none => .error .plain
  | _ => .error .invalidArgument

/-- `aws_json_value_remove_from_object` -/
def removeFromObject (o : JVal) (k : Bytes) : Except Err JVal :=
  match o with
  | .obj ms => if hasMember k ms then .ok (.obj (eraseMember false k ms)) else .error .plain
  | _ => .error .invalidArgument

/-- `aws_json_value_add_array_element` -/
def addArrayElement (a : JVal) (v : JVal) : Except Err JVal :=
  match a with
  | .arr xs => .ok (.arr (xs ++ [v]))
  | _ => .error .invalidArgument

/-- `aws_json_get_array_size` -/
def arraySize (a : JVal) : Except Err Nat :=
  match a with
  | .arr xs => .ok xs.length
  | _ => .error .invalidArgument

/-- `aws_json_get_array_element`: guard `index >= size` (AWS_ERROR_INVALID_INDEX), then
    `cJSON_GetArrayItem` (which would return NULL, without an error, off the end of the list) -/
def getArrayElement (a : JVal) (i : Nat) : Except Err JVal :=
  match a with
  | .arr xs =>
    if i ≥ xs.length then .error .invalidIndex
    else match xs[i]? with
      | some v => .ok v
      | none => .error .plain
  | _ => .error .invalidArgument

/-- `aws_json_value_remove_array_element`: guard `index >= size`, then `cJSON_DeleteItemFromArray` -/
def removeArrayElement (a : JVal) (i : Nat) : Except Err JVal :=
  match a with
  | .arr xs => if i ≥ xs.length then .error .invalidIndex else .ok (.arr (xs.eraseIdx i))
  | _ => .error .invalidArgument

mutual
/-- `cJSON_Duplicate(item, true)`: copies type, number, string, key and every child in order -/
def duplicate : JVal → JVal
  | .null => .null
  | .bool b => .bool b
  | .num n => .num n
  | .str s => .str s
  | .arr xs => .arr (duplicateElems xs)
  | .obj ms => .obj (duplicateMembers ms)
def duplicateElems : List JVal → List JVal
  | [] => []
  | x :: r => duplicate x :: duplicateElems r
def duplicateMembers : List (Bytes × JVal) → List (Bytes × JVal)
  | [] => []
  | (k, v) :: r => (k, duplicate v) :: duplicateMembers r
end

mutual
/-- nesting depth: 0 for scalars, 1 + the deepest child for containers -/
def depth : JVal → Nat
  | .arr xs => 1 + depthElems xs
  | .obj ms => 1 + depthMembers ms
  | _ => 0
def depthElems : List JVal → Nat
  | [] => 0
  | x :: r => max (depth x) (depthElems r)
def depthMembers : List (Bytes × JVal) → Nat
  | [] => 0
  | (_, v) :: r => max (depth v) (depthMembers r)
end

/-- `compare_double`: exact for two int-class values (|a-b| ≥ 1 > 2^31·DBL_EPSILON when they
    differ), uninterpreted otherwise -/
def cmpNum (env : NumEnv) : JNum → JNum → Bool
  | .int a, .int b => a == b
  | a, b => env.cmp a.bits b.bits

/-- `cJSON_Compare(a, b, case_sensitive)`; `fuel` bounds the recursion depth (one unit per level;
    `compare` supplies `depth a + 1`). -/
def compareF (env : NumEnv) (cs : Bool) : Nat → JVal → JVal → Bool
  | 0, _, _ => false
  | f + 1, a, b =>
    match a, b with
    | .null, .null => true
    | .bool x, .bool y => x == y
    | .num x, .num y => cmpNum env x y
    | .str x, .str y => x == y
    | .arr xs, .arr ys =>
      xs.length == ys.length && (List.zipWith (compareF env cs f) xs ys).all id
    | .obj ms, .obj ns =>
      ms.all (fun m => match findMember cs m.1 ns with
        | some n => compareF env cs f m.2 n.2
        | none => false) &&
      ns.all (fun n => match findMember cs n.1 ms with
        | some m => compareF env cs f n.2 m.2
        | none => false)
    | _, _ => false

/-- `aws_json_value_compare` -/
def compare (env : NumEnv) (cs : Bool) (a b : JVal) : Bool := compareF env cs (depth a + 1) a b

/-! ### borrowed references: a child reached through `get_from_object` / `get_array_element`

The API hands out pointers into the tree; an operation through such a pointer changes the tree
that owns it.  `Step`/`getAt`/`setAt` give that a value-level meaning: follow the getters, operate
on the child, put the result back in the same position. -/

inductive Step where
  | key (k : Bytes)   -- `aws_json_value_get_from_object(·, k)` (k already a C string)
  | idx (i : Nat)     -- `aws_json_get_array_element(·, i)`
deriving Repr, DecidableEq

/-- replace the value of the first member whose key matches (case-insensitively) -/
def setMember (k : Bytes) (v' : JVal) : List (Bytes × JVal) → List (Bytes × JVal)
  | [] => []
  | m :: r => if keyEq false k m.1 then (m.1, v') :: r else m :: setMember k v' r

def getStep (t : JVal) : Step → Except Err JVal
  | .key k => getFromObject t k
  | .idx i => getArrayElement t i

def getAt (t : JVal) : List Step → Except Err JVal
  | [] => .ok t
  | s :: r => match getStep t s with
    | .ok c => getAt c r
    | .error e => .error e

/-- the tree after the child at the path became `v'` (unchanged if the path does not resolve) -/
def setAt (t : JVal) (path : List Step) (v' : JVal) : JVal :=
  match path with
  | [] => v'
  | s :: r =>
    match getStep t s with
    | .error _ => t
    | .ok c =>
      let c' := setAt c r v'
      match t, s with
      | .obj ms, .key k => .obj (setMember k c' ms)
      | .arr xs, .idx i => .arr (xs.set i c')
      | _, _ => t

/-! ### aws_json_const_iterate_object / aws_json_const_iterate_array

The callback is modelled by the two ways it can influence the loop: it returns an error at its
`fail`-th invocation (0-based), or clears `*out_should_continue` at its `stop`-th invocation.  The
result is the list of children the callback saw, in order, and whether AWS_OP_SUCCESS was returned. -/

def iterateFrom {α : Type} (stop fail : Option Nat) : Nat → List α → List α × Bool
  | _, [] => ([], true)
  | i, x :: r =>
    if fail = some i then ([x], false)            -- callback failed: goto done (AWS_OP_ERR)
    else if stop = some i then ([x], true)         -- !should_continue: break
    else
      let p := iterateFrom stop fail (i + 1) r
      (x :: p.1, p.2)

/-- `aws_json_const_iterate_object` -/
def iterateObject (o : JVal) (stop fail : Option Nat) : Except Err (List (Bytes × JVal) × Bool) :=
  match o with
  | .obj ms => .ok (iterateFrom stop fail 0 ms)
  | _ => .error .invalidArgument

/-- `aws_json_const_iterate_array` (the index handed to the callback is the position in the list) -/
def iterateArray (a : JVal) (stop fail : Option Nat) : Except Err (List JVal × Bool) :=
  match a with
  | .arr xs => .ok (iterateFrom stop fail 0 xs)
  | _ => .error .invalidArgument

/-! ### constructors and getters of json.c -/

/-- `aws_json_value_new_string` (cursor → C string) -/
def newString (s : Bytes) : JVal := .str (cstr s)
/-- `aws_json_value_new_number` of a double given by its bit pattern -/
def newNumber (bits : UInt64) : JVal := .num (JNum.ofBits bits)

def isString : JVal → Bool | .str _ => true | _ => false
def isNumber : JVal → Bool | .num _ => true | _ => false
def isArray : JVal → Bool | .arr _ => true | _ => false
def isBoolean : JVal → Bool | .bool _ => true | _ => false
def isNull : JVal → Bool | .null => true | _ => false
def isObject : JVal → Bool | .obj _ => true | _ => false

def getString : JVal → Except Err Bytes | .str s => .ok s | _ => .error .invalidArgument
def getNumber : JVal → Except Err UInt64 | .num n => .ok n.bits | _ => .error .invalidArgument
def getBoolean : JVal → Except Err Bool | .bool b => .ok b | _ => .error .invalidArgument

end AwsVerif.Json
