/-!
Model of `source/cbor.c` (aws_cbor_encoder_* / aws_cbor_decoder_*) and of the parts of the vendored
libcbor it calls: `cbor/internal/encoders.c` (`_cbor_encode_uint8/16/32/64`, `_cbor_encode_uint`),
`cbor/encoding.c` (offsets per major type, single/double), `cbor/streaming.c`
(`cbor_stream_decode`) and `cbor/internal/loaders.c` (big-endian loads, half-float decode).

Everything is on bit patterns: a double is the `UInt64` IEEE-754 binary64 pattern, a float the
`Nat < 2^32` binary32 pattern.  All arithmetic is on `Nat` fields (sign / biased exponent /
mantissa); Lean's `Float` is never used.

C casts `(unsigned char)x` / `(uint8_t)x` are `UInt8.ofNat` (mod 256).
-/
namespace AwsVerif.Cbor

/-- One element as the aws API sees it (`enum aws_cbor_type` + the union in
`struct aws_cbor_decoder_context`).  `float` carries the binary64 bit pattern. -/
inductive Item where
  | uint (v : UInt64)
  | negint (v : UInt64)            -- encodes the integer -1 - v
  | float (bits : UInt64)
  | bytes (b : List UInt8)
  | text (b : List UInt8)
  | arrayStart (n : UInt64)
  | mapStart (n : UInt64)
  | tag (t : UInt64)
  | bool (b : Bool)
  | null
  | undefined
  | indefBytesStart
  | indefTextStart
  | indefArrayStart
  | indefMapStart
  | brk
deriving DecidableEq, Repr

/-- `enum aws_cbor_type` (without UNKNOWN, which is `Option.none` in the decoder cache). -/
inductive Ty where
  | uint | negint | float | bytes | text | arrayStart | mapStart | tag | bool | null | undefined
  | brk | indefBytes | indefText | indefArray | indefMap
deriving DecidableEq, Repr

def Item.ty : Item → Ty
  | .uint _ => .uint | .negint _ => .negint | .float _ => .float | .bytes _ => .bytes
  | .text _ => .text | .arrayStart _ => .arrayStart | .mapStart _ => .mapStart | .tag _ => .tag
  | .bool _ => .bool | .null => .null | .undefined => .undefined | .brk => .brk
  | .indefBytesStart => .indefBytes | .indefTextStart => .indefText
  | .indefArrayStart => .indefArray | .indefMapStart => .indefMap

/-! ## Encoder: libcbor heads (`cbor/internal/encoders.c`) -/

/-- `(unsigned char)n` -/
abbrev b8 (n : Nat) : UInt8 := UInt8.ofNat n

/-- `_cbor_encode_uint8(value, …, offset)`: embedded in the initial byte when `value <= 23`. -/
def encUint8 (v off : Nat) : List UInt8 :=
  if v ≤ 23 then [b8 (v + off)] else [b8 (0x18 + off), b8 v]

/-- `_cbor_encode_uint16`: `buffer[1] = value >> 8; buffer[2] = value` -/
def encUint16 (v off : Nat) : List UInt8 :=
  [b8 (0x19 + off), b8 (v / 2^8), b8 v]

def encUint32 (v off : Nat) : List UInt8 :=
  [b8 (0x1A + off), b8 (v / 2^24), b8 (v / 2^16), b8 (v / 2^8), b8 v]

def encUint64 (v off : Nat) : List UInt8 :=
  [b8 (0x1B + off), b8 (v / 2^56), b8 (v / 2^48), b8 (v / 2^40), b8 (v / 2^32),
   b8 (v / 2^24), b8 (v / 2^16), b8 (v / 2^8), b8 v]

/-- `_cbor_encode_uint`: the nested comparison against UINT16_MAX / UINT8_MAX / UINT32_MAX as written. -/
def encUint (v off : Nat) : List UInt8 :=
  if v ≤ 0xFFFF then
    if v ≤ 0xFF then encUint8 v off else encUint16 v off
  else if v ≤ 0xFFFFFFFF then encUint32 v off
  else encUint64 v off

/-! ## Double narrowing of `aws_cbor_encoder_write_float` on the fields of the pattern -/

def fSign (n : Nat) : Nat := n / 2^63 % 2
def fExp (n : Nat) : Nat := n / 2^52 % 2048
def fMant (n : Nat) : Nat := n % 2^52

/-- pattern of `FLT_MAX` as a double -/
def FLT_MAX_BITS : Nat := 0x47EFFFFFE0000000
/-- pattern of `(double)INT64_MAX` = 2^63 -/
def TWO63_BITS : Nat := 0x43E0000000000000

/-- what the encoder emits for a double -/
inductive FloatForm where
  | uint (v : Nat)
  | negint (v : Nat)
  | single (f : Nat)     -- binary32 pattern
  | double (d : Nat)     -- binary64 pattern
deriving DecidableEq, Repr

/-- `(float)value` for an infinity or a NaN (x86-64 `cvtsd2ss`): sign kept, top 23 mantissa bits
kept, a NaN is made quiet. -/
def castNonFinite (n : Nat) : Nat :=
  let m := fMant n
  let t := m / 2^29
  fSign n * 2^31 + 0x7F800000 + (if m = 0 then 0 else if t / 2^22 = 1 then t else t + 2^22)

/-- magnitude of `(int64_t)value` (truncation toward zero) of a finite double with biased exponent
`e` and mantissa `m` -/
def truncMag (e m : Nat) : Nat :=
  if e = 0 then 0
  else if 1075 ≤ e then (2^52 + m) * 2^(e - 1075)
  else (2^52 + m) / 2^(1075 - e)

/-- the truncation dropped no non-zero bit, i.e. `value == (double)(int64_t)value` for a value whose
truncation fits (the conversion back is exact: at most 53 significant bits) -/
def isIntegral (e m : Nat) : Bool :=
  if e = 0 then m = 0
  else if 1075 ≤ e then true
  else (2^52 + m) % 2^(1075 - e) = 0

/-- The `value <= (double)INT64_MAX && value >= (double)INT64_MIN` block: `some` form if an integer
is written.  `(double)INT64_MAX` is 2^63, so +2^63 itself passes the range test; the cast
`(int64_t)2^63` is undefined in ISO C and yields INT64_MIN on x86-64 (`cvttsd2si`), for which
`value == (double)int_value` is false, so nothing is written here (mirrored, confirmed by the
`W` stream). -/
def intPath (n : Nat) : Option FloatForm :=
  let s := fSign n; let e := fExp n; let m := fMant n
  if n % 2^63 ≤ TWO63_BITS then
    let t := truncMag e m
    if s = 0 ∧ t = 2^63 then none
    else if isIntegral e m then
      (if s = 1 ∧ t ≠ 0 then some (.negint (t - 1)) else some (.uint t))
    else none
  else none

/-- `(float)value` when `(double)(float)value == value`, i.e. when the finite double is exactly a
binary32 value (normal: low 29 mantissa bits zero; subnormal: the shifted-out bits are zero). -/
def toFloat32? (n : Nat) : Option Nat :=
  let s := fSign n; let e := fExp n; let m := fMant n
  if e = 0 then (if m = 0 then some (s * 2^31) else none)
  else if 897 ≤ e ∧ e ≤ 1150 then
    (if m % 2^29 = 0 then some (s * 2^31 + (e - 896) * 2^23 + m / 2^29) else none)
  else if 874 ≤ e ∧ e ≤ 896 then
    (if (2^52 + m) % 2^(926 - e) = 0 then some (s * 2^31 + (2^52 + m) / 2^(926 - e)) else none)
  else none

/-- `aws_cbor_encoder_write_float`, decision only. `n < 2^64` is the double's pattern. -/
def narrow (n : Nat) : FloatForm :=
  if fExp n = 2047 then .single (castNonFinite n)
  else match intPath n with
    | some f => f
    | none =>
      if n % 2^63 ≤ FLT_MAX_BITS then
        match toFloat32? n with
        | some f => .single f
        | none => .double n
      else .double n

/-! ## Encoder: items -/

def encForm : FloatForm → List UInt8
  | .uint v => encUint v 0x00
  | .negint v => encUint v 0x20
  | .single f => encUint32 f 0xE0
  | .double d => encUint64 d 0xE0

/-- bytes appended by one `aws_cbor_encoder_write_*` call -/
def encItem : Item → List UInt8
  | .uint v => encUint v.toNat 0x00
  | .negint v => encUint v.toNat 0x20
  | .float bits => encForm (narrow bits.toNat)
  | .bytes b => encUint b.length 0x40 ++ b
  | .text b => encUint b.length 0x60 ++ b
  | .arrayStart n => encUint n.toNat 0x80
  | .mapStart n => encUint n.toNat 0xA0
  | .tag t => encUint t.toNat 0xC0
  | .bool b => encUint8 (if b then 21 else 20) 0xE0
  | .null => encUint8 22 0xE0
  | .undefined => encUint8 23 0xE0
  | .indefBytesStart => [0x5F]
  | .indefTextStart => [0x7F]
  | .indefArrayStart => [0x9F]
  | .indefMapStart => [0xBF]
  | .brk => [0xFF]

def encodeAll : List Item → List UInt8
  | [] => []
  | i :: is => encItem i ++ encodeAll is

/-- Buffer growth (`aws_byte_buf_reserve_smart_relative`, initial capacity 256): capacity after
reserving `add` more bytes on a buffer of `len` bytes.  Saturation at SIZE_MAX is not reachable
for buffers that exist. -/
def reserveSmart (cap len add : Nat) : Nat :=
  let req := len + add
  if req ≤ cap then cap else max req (cap + cap)

/-- bytes reserved by the write call for an item (`s_cbor_element_width_*`, `+ from.len`) -/
def reserveLen : Item → Nat
  | .bytes b | .text b => 9 + b.length
  | .bool _ | .null | .undefined | .indefBytesStart | .indefTextStart | .indefArrayStart
  | .indefMapStart | .brk => 1
  | .float bits => (match narrow bits.toNat with | .single _ => 5 | _ => 9)
  | _ => 9

structure Encoder where
  buf : List UInt8 := []
  cap : Nat := 256

def Encoder.write (e : Encoder) (i : Item) : Encoder :=
  { buf := e.buf ++ encItem i, cap := reserveSmart e.cap e.buf.length (reserveLen i) }

/-! ## Decoder: `cbor_stream_decode` (one element) -/

/-- `_cbor_load_uint8/16/32/64`: big-endian -/
def loadBE (bs : List UInt8) : Nat := bs.foldl (fun a b => a * 256 + b.toNat) 0

inductive DecRes where
  | ok (it : Item) (read : Nat)   -- CBOR_DECODER_FINISHED, one callback invoked, `read` bytes
  | needMore                      -- CBOR_DECODER_NEDATA
  | error                         -- CBOR_DECODER_ERROR
deriving DecidableEq, Repr

/-- number of argument bytes following the initial byte for additional info `ai < 28` -/
def argBytes (ai : Nat) : Nat :=
  if ai < 24 then 0 else if ai = 24 then 1 else if ai = 25 then 2 else if ai = 26 then 4 else 8

/-- the head argument; `none` = `claim_bytes` failed (NEDATA) -/
def readArg (ai : Nat) (rest : List UInt8) : Option Nat :=
  if ai < 24 then some ai
  else if rest.length < argBytes ai then none
  else some (loadBE (rest.take (argBytes ai)))

/-- binary32 pattern → binary64 pattern of the same value (`(double)data`, x86-64 `cvtss2sd`:
a signalling NaN becomes quiet). -/
def widen (f : Nat) : Nat :=
  let s := f / 2^31 % 2; let e := f / 2^23 % 256; let m := f % 2^23
  if e = 255 then
    s * 2^63 + 0x7FF * 2^52 + (if m = 0 then 0 else (if m / 2^22 = 1 then m else m + 2^22) * 2^29)
  else if e = 0 then
    if m = 0 then s * 2^63
    else
      let k := Nat.log2 m
      s * 2^63 + (k + 874) * 2^52 + (m - 2^k) * 2^(52 - k)
  else s * 2^63 + (e + 896) * 2^52 + m * 2^29

/-- `_cbor_decode_half` followed by `(float)` and `(double)`: binary16 pattern → binary64 pattern;
every NaN becomes the default quiet NaN with the half's sign. -/
def halfToDouble (h : Nat) : Nat :=
  let s := h / 2^15 % 2; let e := h / 2^10 % 32; let m := h % 2^10
  if e = 31 then
    (if m = 0 then s * 2^63 + 0x7FF0000000000000 else s * 2^63 + 0x7FF8000000000000)
  else if e = 0 then
    if m = 0 then s * 2^63
    else
      let k := Nat.log2 m
      s * 2^63 + (k + 999) * 2^52 + (m - 2^k) * 2^(52 - k)
  else s * 2^63 + (e + 1008) * 2^52 + m * 2^42

/-- major type 7 -/
def decodeSimple (ai : Nat) (rest : List UInt8) : DecRes :=
  if ai < 20 then .error
  else if ai = 20 then .ok (.bool false) 1
  else if ai = 21 then .ok (.bool true) 1
  else if ai = 22 then .ok .null 1
  else if ai = 23 then .ok .undefined 1
  else if ai = 24 then .error
  else if ai = 25 then
    (if rest.length < 2 then .needMore
     else .ok (.float (UInt64.ofNat (halfToDouble (loadBE (rest.take 2))))) 3)
  else if ai = 26 then
    (if rest.length < 4 then .needMore
     else .ok (.float (UInt64.ofNat (widen (loadBE (rest.take 4))))) 5)
  else if ai = 27 then
    (if rest.length < 8 then .needMore
     else .ok (.float (UInt64.ofNat (loadBE (rest.take 8)))) 9)
  else if ai = 31 then .ok .brk 1
  else .error

/-- `cbor_stream_decode(source, source_size, …)` as a function of the available bytes: the
256-way switch grouped by major type (`b / 32`) and additional info (`b % 32`). -/
def streamDecode (src : List UInt8) : DecRes :=
  match src with
  | [] => .needMore
  | b :: rest =>
    let mt := b.toNat / 32
    let ai := b.toNat % 32
    if mt = 7 then decodeSimple ai rest
    else if ai = 31 then
      (if mt = 2 then .ok .indefBytesStart 1
       else if mt = 3 then .ok .indefTextStart 1
       else if mt = 4 then .ok .indefArrayStart 1
       else if mt = 5 then .ok .indefMapStart 1
       else .error)
    else if 28 ≤ ai then .error
    else
      match readArg ai rest with
      | none => .needMore
      | some v =>
        let k := argBytes ai
        if mt = 0 then .ok (.uint (UInt64.ofNat v)) (1 + k)
        else if mt = 1 then .ok (.negint (UInt64.ofNat v)) (1 + k)
        else if mt = 2 then
          (if (rest.drop k).length < v then .needMore
           else .ok (.bytes ((rest.drop k).take v)) (1 + k + v))
        else if mt = 3 then
          (if (rest.drop k).length < v then .needMore
           else .ok (.text ((rest.drop k).take v)) (1 + k + v))
        else if mt = 4 then .ok (.arrayStart (UInt64.ofNat v)) (1 + k)
        else if mt = 5 then .ok (.mapStart (UInt64.ofNat v)) (1 + k)
        else .ok (.tag (UInt64.ofNat v)) (1 + k)

/-! ## Decoder: `struct aws_cbor_decoder` -/

inductive Err where
  | invalidCbor        -- AWS_ERROR_INVALID_CBOR
  | unexpectedType     -- AWS_ERROR_CBOR_UNEXPECTED_TYPE
  | outOfFuel          -- model artefact; never produced with the fuel the driver / theorems give
deriving DecidableEq, Repr

structure Decoder where
  src : List UInt8                -- remaining input
  cache : Option Item := none     -- cached_context (type UNKNOWN = none)
  err : Option Err := none        -- sticky error_code
deriving DecidableEq, Repr

def Decoder.new (src : List UInt8) : Decoder := { src := src }

/-- `s_cbor_decode_next_element` (called with an empty cache and no sticky error) -/
def decodeNext (d : Decoder) : Decoder × Option Err :=
  match streamDecode d.src with
  | .ok it n => ({ d with src := d.src.drop n, cache := some it }, none)
  | _ => ({ d with err := some .invalidCbor }, some .invalidCbor)

/-- `aws_cbor_decoder_peek_type` -/
def peekType (d : Decoder) : Decoder × Except Err Ty :=
  match d.err with
  | some e => (d, .error e)
  | none =>
    match d.cache with
    | some it => (d, .ok it.ty)
    | none =>
      match decodeNext d with
      | (d', some e) => (d', .error e)
      | (d', none) =>
        match d'.cache with
        | some it => (d', .ok it.ty)
        | none => (d', .error .invalidCbor)   -- unreachable: decodeNext fills the cache

/-- the `GET_NEXT_ITEM` macro: `sel` picks the union field when the cached type is the expected one -/
def popWith {α : Type} (sel : Item → Option α) (d : Decoder) : Decoder × Except Err α :=
  match d.err with
  | some e => (d, .error e)
  | none =>
    let r := match d.cache with
      | some _ => (d, none)
      | none => decodeNext d
    match r with
    | (d', some e) => (d', .error e)
    | (d', none) =>
      match d'.cache with
      | none => (d', .error .invalidCbor)   -- unreachable
      | some it =>
        match sel it with
        | some v => ({ d' with cache := none }, .ok v)
        | none => (d', .error .unexpectedType)   -- not sticky, the element stays cached

def selUint : Item → Option UInt64 | .uint v => some v | _ => none
def selNegint : Item → Option UInt64 | .negint v => some v | _ => none
def selFloat : Item → Option UInt64 | .float v => some v | _ => none
def selBool : Item → Option Bool | .bool v => some v | _ => none
def selText : Item → Option (List UInt8) | .text v => some v | _ => none
def selBytes : Item → Option (List UInt8) | .bytes v => some v | _ => none
def selMap : Item → Option UInt64 | .mapStart v => some v | _ => none
def selArray : Item → Option UInt64 | .arrayStart v => some v | _ => none
def selTag : Item → Option UInt64 | .tag v => some v | _ => none

/-- `aws_cbor_decoder_consume_next_single_element` -/
def consumeSingle (d : Decoder) : Decoder × Option Err :=
  match peekType d with
  | (d', .error e) => (d', some e)
  | (d', .ok _) => ({ d' with cache := none }, none)

/-- `for (i = 0; i < k; i++) if (f(decoder)) return AWS_OP_ERR;` -/
def iter (f : Decoder → Decoder × Option Err) : Nat → Decoder → Decoder × Option Err
  | 0, d => (d, none)
  | k + 1, d =>
    match f d with
    | (d', none) => iter f k d'
    | r => r

/-- `while (next_type != AWS_CBOR_TYPE_BREAK) { consume_whole; peek_type }` with loop fuel -/
def untilBreak (f : Decoder → Decoder × Option Err) : Nat → Decoder → Ty → Decoder × Option Err
  | 0, d, _ => (d, some .outOfFuel)
  | k + 1, d, ty =>
    if ty = .brk then (d, none)
    else
      match f d with
      | (d', some e) => (d', some e)
      | (d', none) =>
        match peekType d' with
        | (d'', .error e) => (d'', some e)
        | (d'', .ok ty') => untilBreak f k d'' ty'

/-- `peek_type` followed by the `while (next_type != BREAK)` loop, with `k` loop fuel -/
def breakLoop (self : Decoder → Decoder × Option Err) (k : Nat) (d0 : Decoder) : Decoder × Option Err :=
  match peekType d0 with
  | (d2, .error e) => (d2, some e)
  | (d2, .ok ty) => untilBreak self k d2 ty

/-- `/* Done, just reset the cache */` after the switch succeeded -/
def finishConsume : Decoder × Option Err → Decoder × Option Err
  | (d3, some e) => (d3, some e)
  | (d3, none) => ({ d3 with cache := none }, none)

/-- the `switch (decoder->cached_context.type)` of `aws_cbor_decoder_consume_next_whole_data_item`:
`it` is the cached element, `d1` the decoder holding it, `d0` the same with the cache reset,
`self` the recursive call -/
def consumeBody (self : Decoder → Decoder × Option Err) (it : Item) (d1 d0 : Decoder) :
    Decoder × Option Err :=
  match it with
  | .tag _ => self d0
  | .mapStart n => iter self (2 * n.toNat) d0      -- key and value per entry
  | .arrayStart n => iter self n.toNat d0
  | .indefBytesStart | .indefTextStart | .indefArrayStart | .indefMapStart =>
    breakLoop self (d0.src.length + 1) d0
  | _ => (d1, none)

/-- `aws_cbor_decoder_consume_next_whole_data_item`; `fuel` bounds the recursion depth (the C
recursion has no bound of its own).  `src.length + 2` (what `consumeWholeItem` gives) suffices: the
depth is at most the number of heads; proved for well-formed items in `c10_consume_whole`. -/
def consumeWhole : Nat → Decoder → Decoder × Option Err
  | 0, d => (d, some .outOfFuel)
  | fuel + 1, d =>
    match d.err with
    | some e => (d, some e)
    | none =>
      let r := match d.cache with
        | some _ => (d, none)
        | none => decodeNext d
      match r with
      | (d1, some e) => (d1, some e)
      | (d1, none) =>
        match d1.cache with
        | none => ({ d1 with cache := none }, none)   -- unreachable: the cache is filled here
        | some it =>
          finishConsume (consumeBody (consumeWhole fuel) it d1 { d1 with cache := none })

def consumeWholeItem (d : Decoder) : Decoder × Option Err := consumeWhole (d.src.length + 2) d

/-! ## Pop every element (what the harness `decode_all` does) -/

def mapRes {α : Type} (f : α → Item) : Decoder × Except Err α → Decoder × Except Err Item
  | (d, .ok v) => (d, .ok (f v))
  | (d, .error e) => (d, .error e)

/-- elements without a typed pop are taken with `consume_next_single_element` -/
def popSimple (it : Item) (d : Decoder) : Decoder × Except Err Item :=
  match consumeSingle d with
  | (d', none) => (d', .ok it)
  | (d', some e) => (d', .error e)

/-- pop one element by its peeked type: the typed pop where the API has one, otherwise
`consume_next_single_element` (this is the loop body of the harness's `decode_all`) -/
def popAny (d : Decoder) : Decoder × Except Err Item :=
  match peekType d with
  | (d', .error e) => (d', .error e)
  | (d', .ok ty) =>
    match ty with
    | .uint => mapRes .uint (popWith selUint d')
    | .negint => mapRes .negint (popWith selNegint d')
    | .float => mapRes .float (popWith selFloat d')
    | .bytes => mapRes .bytes (popWith selBytes d')
    | .text => mapRes .text (popWith selText d')
    | .arrayStart => mapRes .arrayStart (popWith selArray d')
    | .mapStart => mapRes .mapStart (popWith selMap d')
    | .tag => mapRes .tag (popWith selTag d')
    | .bool => mapRes .bool (popWith selBool d')
    | .null => popSimple .null d'
    | .undefined => popSimple .undefined d'
    | .brk => popSimple .brk d'
    | .indefBytes => popSimple .indefBytesStart d'
    | .indefText => popSimple .indefTextStart d'
    | .indefArray => popSimple .indefArrayStart d'
    | .indefMap => popSimple .indefMapStart d'

/-- decode until the source is exhausted; `fuel` ≥ number of elements (`src.length` suffices) -/
def decodeAllAux : Nat → Decoder → List Item → Decoder × Except Err (List Item)
  | 0, d, acc => if d.src.isEmpty ∧ d.cache.isNone then (d, .ok acc.reverse) else (d, .error .outOfFuel)
  | fuel + 1, d, acc =>
    if d.src.isEmpty ∧ d.cache.isNone then (d, .ok acc.reverse)
    else
      match popAny d with
      | (d', .error e) => (d', .error e)
      | (d', .ok it) => decodeAllAux fuel d' (it :: acc)

def decodeAll (bs : List UInt8) : Decoder × Except Err (List Item) :=
  decodeAllAux bs.length (Decoder.new bs) []

/-- what `decodeAll (encodeAll is)` yields: only a float changes, to what its narrowing chose -/
def normalise : Item → Item
  | .float bits =>
    (match narrow bits.toNat with
     | .uint v => .uint (UInt64.ofNat v)
     | .negint v => .negint (UInt64.ofNat v)
     | .single f => .float (UInt64.ofNat (widen f))
     | .double _ => .float bits)
  | i => i

end AwsVerif.Cbor
