/-!
Support definitions for the generated layer (`AwsVerif/Gen/*.lean`, produced by `gen/cfun.py`).
C integers are `Nat` in two's complement; the meaning given here to the compiler builtins is their
documented one and is part of the trusted base (DESIGN.md 6).
-/
namespace AwsVerif.CSem

/-- result of a function following the library's `int` status + out-parameter convention -/
inductive Res where
  | ok (v : Nat)
  | err (code : Nat)
deriving Repr, DecidableEq

/-- index of the highest set bit of `x` below bit `w`, as a count of leading zeros; `w` for `x = 0`
(the builtin is undefined there; every caller tests for 0 first) -/
def clzAux (w : Nat) (x : Nat) : Nat → Nat
  | 0 => w
  | i + 1 => if x.testBit i then w - 1 - i else clzAux w x i

def clz (w x : Nat) : Nat := clzAux w x w

def ctzAux (w : Nat) (x : Nat) : Nat → Nat → Nat
  | 0, _ => w
  | fuel + 1, i => if x.testBit i then i else ctzAux w x fuel (i + 1)

def ctz (w x : Nat) : Nat := ctzAux w x w 0

end AwsVerif.CSem
