/-!
Support definitions for the generated layer (`AwsVerif/Gen/*.lean`, produced by `gen/cfun.py`).
C integers are `Nat` in two's complement; the meaning given here to the compiler builtins is their
documented one and is part of the trusted base (DESIGN.md 6).
-/
namespace AwsVerif.CSem

/-- result of a function following the library's `int` status + out-parameter convention -/
inductive Res where
  | ok (v : Nat)
  | err (code : Nat)
deriving Repr, DecidableEq

/-- what an out-parameter the callee never stored through still holds: the value the caller (the C harness)
initialised it with, `0xDEADBEEFDEADBEEF` truncated to the pointee's width -/
def unwritten (w : Nat) : Nat := 0xDEADBEEFDEADBEEF % 2^w

/-- stand-in for the indeterminate value of a local that is read before it was assigned (no theorem may depend on
it; a fixed odd pattern rather than 0, so that an accidental `0` cannot make a wrong path look right) -/
def indeterminate (w : Nat) : Nat := 0x5A5A5A5A5A5A5A5B % 2^w

/-- index of the highest set bit of `x` below bit `w`, as a count of leading zeros; `w` for `x = 0`
(the builtin is undefined there; every caller tests for 0 first) -/
def clzAux (w : Nat) (x : Nat) : Nat → Nat
  | 0 => w
  | i + 1 => if x.testBit i then w - 1 - i else clzAux w x i

def clz (w x : Nat) : Nat := clzAux w x w

def ctzAux (w : Nat) (x : Nat) : Nat → Nat → Nat
  | 0, _ => w
  | fuel + 1, i => if x.testBit i then i else ctzAux w x fuel (i + 1)

def ctz (w x : Nat) : Nat := ctzAux w x w 0

/-! ### IEEE-754 binary formats as bit patterns (`e` exponent bits, `m` fraction bits; `float` = 8/23, `double` = 11/52)

The meaning of C's ordered comparisons on `float`/`double` (IEEE-754 5.11: every comparison with a NaN is false;
`-0 = +0`; otherwise sign-magnitude order of the bit patterns, which covers subnormals and infinities). -/

def fIsNaN (e m x : Nat) : Bool := decide ((x / 2^m) % 2^e = 2^e - 1 ∧ x % 2^m ≠ 0)
def fSign (e m x : Nat) : Bool := decide (x / 2^(e+m) % 2 = 1)
/-- order-embedding key of a non-NaN pattern: numeric order of the values = integer order of the keys -/
def fKey (e m x : Nat) : Int := if fSign e m x then - ((x % 2^(e+m) : Nat) : Int) else ((x % 2^(e+m) : Nat) : Int)

inductive FCmp where | lt | gt | le | ge
deriving Repr, DecidableEq

def fcmp (e m : Nat) (op : FCmp) (a b : Nat) : Bool :=
  !fIsNaN e m a && !fIsNaN e m b &&
    (match op with
     | .lt => decide (fKey e m a < fKey e m b)
     | .gt => decide (fKey e m a > fKey e m b)
     | .le => decide (fKey e m a ≤ fKey e m b)
     | .ge => decide (fKey e m a ≥ fKey e m b))

end AwsVerif.CSem
