import AwsVerif.Model.Log
/-! Vocabulary of the C14 property statements (hypotheses on the inputs, reference histories).
Not part of the transcription of the C code. -/
namespace AwsVerif.Log
open AwsVerif.Gen.Log

/-- text the model takes from libc / pthreads / the caller: no NUL, no newline -/
def Clean (b : Bytes) : Prop := (0:UInt8) ∉ b ∧ (10:UInt8) ∉ b

def CleanData (d : FmtData) : Prop :=
  Clean d.ts ∧ Clean d.tid ∧ Clean d.msg ∧ ∀ sj, d.subject = some sj → Clean sj

/-- argument ranges of the C types: a valid level, a buffer size that exists (`< 2^63`), every
snprintf result representable as `int` -/
def InRange (d : FmtData) : Prop :=
  d.level < AWS_LL_COUNT ∧ d.total < 9223372036854775808 ∧ (body d).length < 2147483648

def wellFormed (c : Call) : Prop :=
  c.level < AWS_LL_COUNT ∧ c.ts ≠ [] ∧ c.ts.length ≤ AWS_DATE_TIME_STR_MAX_LEN ∧ c.tid.length < AWS_THREAD_ID_T_REPR_BUFSZ ∧
    c.msg.length + c.subject.length < 2147483000 ∧ c.subjectNull = false

def lineOfCall (c : Call) : Bytes :=
  fullLine { total := defaultTotal c.msg c.subject, level := c.level, subject := some c.subject, msg := c.msg, ts := c.ts, tid := c.tid }

/-- the calls of a history that pass a fixed level -/
def passing (l : Nat) : List Op → List Bytes
  | [] => []
  | .log c :: r => if c.level ≤ l then lineOfCall c :: passing l r else passing l r
  | .set _ :: r => passing l r

def noStores : List Op → Prop
  | [] => True
  | .log _ :: r => noStores r
  | .set _ :: _ => False

def allWellFormed : List Op → Prop
  | [] => True
  | .log c :: r => wellFormed c ∧ allWellFormed r
  | .set _ :: r => allWellFormed r

end AwsVerif.Log
