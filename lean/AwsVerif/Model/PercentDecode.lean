import AwsVerif.Model.Uri
/-!
Checked-memory model (DESIGN.md 4.3) of percent-decoding:
`aws_byte_buf_append_decoding_uri` (source/uri.c) with `aws_byte_cursor_read_u8` and
`aws_byte_cursor_read_hex_u8` (source/byte_buf.c).

The input view is one memory object `inp : List UInt8` (the exact-size block the harness allocates: nothing
readable behind it).  The `advancing` cursor is `(off, len)` into it; every `cur->ptr[k]` of the C code is
`rd inp (off + k)`, which faults with `Fault.oobRead` outside the block.  The output buffer is
`(out, cap)`: `out` = the bytes `[0, buffer->len)`, `cap` = `buffer->capacity`; the store
`buffer->buffer[buffer->len++] = c` is `push`, which faults with `Fault.oobWrite` when `len = capacity`.
`aws_byte_buf_reserve_relative(buffer, cursor->len)` makes `capacity ≥ len + cursor->len` (it reallocates to exactly
that when the capacity is smaller) or fails on `size_t` overflow.

The loop consumes 1 or 3 input bytes per iteration; it is written with a fuel argument (`Fault.fuel` when it runs
out) and `Props/C04.lean` shows that `fuel = cursor->len` always suffices.

Literal constants of this transcription (`2` bytes needed by `read_hex_u8`, offsets `0` and `1`, advance `2`,
reserve amount `cursor->len`) are tied to the current source by bridge theorems against the generated
`AwsVerif.Gen.C04` / `AwsVerif.Gen.UriFns` (Proofs/C04/GenBridge.lean).
-/
namespace AwsVerif.PercentDecode
open AwsVerif.Uri (hexToNum)

inductive Fault where
  | oobRead (off : Nat)
  | oobWrite (idx : Nat)
  | fuel
deriving Repr, DecidableEq

abbrev M := Except Fault

def SIZE_MAX : Nat := 2 ^ 64 - 1
def percent : UInt8 := 37

def rd (inp : List UInt8) (i : Nat) : M UInt8 :=
  match inp[i]? with
  | some b => .ok b
  | none => .error (.oobRead i)

/-- `buffer->buffer[buffer->len++] = c` -/
def push (out : List UInt8) (cap : Nat) (c : UInt8) : M (List UInt8) :=
  if out.length < cap then .ok (out ++ [c]) else .error (.oobWrite out.length)

/-- minimum cursor length `aws_byte_cursor_read_hex_u8` asks for (`cur->len >= 2`) -/
def hexMinLen : Nat := 2

/-- `aws_byte_cursor_read_hex_u8(&cur, &c)` on the cursor `(off, len)`:
`some v` = success, cursor advanced by 2; `none` = failure, cursor unchanged. -/
def readHexU8 (inp : List UInt8) (off len : Nat) : M (Option UInt8) :=
  if hexMinLen ≤ len then
    rd inp off >>= fun a =>
    rd inp (off + 1) >>= fun b =>
    let hi := hexToNum a
    let lo := hexToNum b
    if hi ≠ 255 ∧ lo ≠ 255 then .ok (some ((hi <<< 4) ||| lo)) else .ok none
  else .ok none

/-- outcome of the loop: `ok = false` is `aws_raise_error(AWS_ERROR_MALFORMED_INPUT_STRING)` -/
structure Res where
  ok : Bool
  out : List UInt8
deriving Repr, DecidableEq

/-- `while (aws_byte_cursor_read_u8(&advancing, &c)) { if (c == '%') { if (!read_hex_u8(&advancing, &c)) return ERR; }
buffer->buffer[buffer->len++] = c; }` -/
def loop (inp : List UInt8) (cap : Nat) : (fuel off len : Nat) → List UInt8 → M Res
  | _, _, 0, out => .ok ⟨true, out⟩                       -- read_u8 fails on an empty cursor: loop ends
  | 0, _, _ + 1, _ => .error .fuel
  | fuel + 1, off, len + 1, out =>
    rd inp off >>= fun c =>                               -- read_u8: *cur->ptr, advance 1
    if c = percent then
      readHexU8 inp (off + 1) len >>= fun r =>
      match r with
      | none => .ok ⟨false, out⟩
      | some v => push out cap v >>= fun out' => loop inp cap fuel (off + 3) (len - 2) out'
    else
      push out cap c >>= fun out' => loop inp cap fuel (off + 1) len out'

inductive Outcome where
  | ok (out : List UInt8) (cap : Nat)
  | malformed (out : List UInt8) (cap : Nat)      -- bytes decoded so far stay appended
  | overflow                                       -- reserve_relative: len + cursor->len overflows size_t
deriving Repr, DecidableEq

/-- `aws_byte_buf_append_decoding_uri(buffer, cursor)` with `buffer = (pre, cap)` (`pre.length ≤ cap`) and
`cursor = (inp, inp.length)` -/
def appendDecodingUri (pre : List UInt8) (cap : Nat) (inp : List UInt8) : M Outcome :=
  if pre.length + inp.length > SIZE_MAX then .ok .overflow else
  let cap' := if cap < pre.length + inp.length then pre.length + inp.length else cap
  loop inp cap' inp.length 0 inp.length pre >>= fun r =>
  .ok (if r.ok then .ok r.out cap' else .malformed r.out cap')

end AwsVerif.PercentDecode
