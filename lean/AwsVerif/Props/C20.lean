import AwsVerif.Gen.ThreadsTime
import AwsVerif.Model.Threads
import AwsVerif.Proofs.C20.LogInv
import AwsVerif.Proofs.C20.JoinAll
import AwsVerif.Proofs.C20.Pending
import AwsVerif.Proofs.C20.WrapStep
import AwsVerif.Proofs.C20.Demo
import AwsVerif.Proofs.C20.Mutex
import AwsVerif.Proofs.C20.NoLostStep
import AwsVerif.Proofs.C20.Progress
/-!
# C20 — threads run once, run their exit callbacks, managed threads all get joined

All theorems are about `AwsVerif.Threads.Reachable P s`: every state reachable from `init P` by ANY
sequence of labels — a micro-step of any thread, virtual time moving forward by any amount, a spurious
wake-up of any condition-variable waiter — i.e. every interleaving of the transition system of
`Model/Threads.lean`, for every program `P` (any number of slots, manual/managed, nested launches,
any at-exit registrations, any placement of join / join-all / count reads, an injected create failure).
The log `s.log` is newest-first.
-/
namespace AwsVerif.Props.C20
open AwsVerif.Threads

/-- **Run once.** In every reachable state the log holds exactly one `run k` event for each slot whose
thread has started (none before), and that event carries the slot's own argument. -/
theorem c20_run_once (P : Prog) (s : State) (h : Reachable P s) (k : Nat) :
    runCount k s.log = (if 2 ≤ (s.th k).status.rank then 1 else 0) ∧ ∀ a, Ev.run k a ∈ s.log → a = k := by
  have hi := (logInv_reachable P s h).1
  refine ⟨?_, hi.runArg k⟩
  have ht := hi.th k
  by_cases h1 : (s.th k).status.rank ≤ 1
  · have := ht.early h1
    have h2 : ¬ 2 ≤ (s.th k).status.rank := by omega
    simp [h2, this.2.2.2]
  · have h2 : 2 ≤ (s.th k).status.rank := by omega
    simp only [h2, if_true]
    by_cases h3 : (s.th k).status.rank = 2
    · exact (ht.run h3).2.2
    · by_cases h4 : (s.th k).status.rank = 3
      · exact (ht.fdone h4).2
      · exact (ht.late (by omega)).2.2

/-- **At-exit callbacks.** (1) every callback event ran on the thread that registered it;
(2) no callback of `k` runs while `k`'s function is still running; (3) once the at-exit loop of `k` is over
(status ≥ atexitDone, in particular exited/joined) the callbacks that ran, in chronological order, are exactly
the registrations in reverse chronological order — each once — and the chain is empty;
(4) if `pthread_join` on `k` has returned (`joinRet k` in the log) then everything `k` ever logged is older
than that event, the callbacks older than it are already the complete reversed registration list, and `k`
is joined. -/
theorem c20_atexit (P : Prog) (s : State) (h : Reachable P s) :
    (∀ o c on, Ev.cb o c on ∈ s.log → on = o) ∧
    (∀ k, (s.th k).status.rank ≤ 2 → cbsOf k s.log = []) ∧
    (∀ k, 4 ≤ (s.th k).status.rank → (cbsOf k s.log).reverse = regsOf k s.log ∧ (s.th k).chain = []) ∧
    (∀ k b l1 l2, s.log = l1 ++ Ev.joinRet k b :: l2 →
      (cbsOf k l2).reverse = regsOf k l2 ∧ runCount k l2 = 1 ∧ (∀ e ∈ l1, evOwner e ≠ some k) ∧
      (s.th k).status = .joined) := by
  obtain ⟨hi, hj⟩ := logInv_reachable P s h
  refine ⟨hi.cbOn, fun k hk => ?_, fun k hk => ?_, fun k b l1 l2 hs => ?_⟩
  · by_cases h1 : (s.th k).status.rank ≤ 1
    · exact ((hi.th k).early h1).2.1
    · exact ((hi.th k).run (by omega)).2.1
  · have := (hi.th k).late hk; exact ⟨this.2.1, this.1⟩
  · obtain ⟨a, b', c⟩ := hj k b l1 l2 hs
    exact ⟨a, b', c, hi.joined k b (by rw [hs]; simp)⟩

/-- threads between `count++` and `pthread_create` plus joiners between `pthread_join` and `count--` … -/
def inflightPlus (P : Prog) (s : State) : Nat := sumTo P.n (fun k => cPlus P (s.th k).code)
/-- … and the increments / joins of managed threads still ahead in some thread's code -/
def inflightMinus (P : Prog) (s : State) : Nat := sumTo P.n (fun k => cMinus P (s.th k).code)
/-- managed threads that have been created and not yet joined -/
def liveManaged (P : Prog) (s : State) : Nat :=
  sumTo P.n (fun k => if P.managed k && isLive (s.th k).status then 1 else 0)

/-- **Managed-thread accounting** (part 1 of c20_managed_inv, fully proved):
`s_unjoined_thread_count` = (managed threads created and not yet joined) + (launches between count++ and
create, joiners between pthread_join and count--) − (their not-yet-executed counterparts); the pending-join
list never holds more than one wrapper; a decrement never finds the count at 0 (no uint32 wrap-around);
only managed threads are ever in the pending list or in a join-and-free list, and no thread executes a
`pthread_join` on itself (the model makes a self-join block for ever; see c20_no_self_join below). -/
theorem c20_managed_count (P : Prog) (wf : WF P) (s : State) (h : Reachable P s) :
    s.count + inflightMinus P s = liveManaged P s + inflightPlus P s ∧
    s.pending.length ≤ 1 ∧
    (∀ t rest, t < P.n → (s.th t).code = Instr.decCount :: rest → 1 ≤ s.count) ∧
    (∀ k, k ∈ s.pending → P.managed k = true) ∧
    (∀ t k, Instr.joinM k ∈ (s.th t).code → P.managed k = true) := by
  have hc := (joinInv_reachable P wf.n_pos wf.main s h).1
  refine ⟨?_, pending_le_one P s h, fun t rest ht hcd => count_pos P s t rest ht hcd hc.suf hc.eq, hc.memb.mp, hc.memb.mj⟩
  have := hc.eq
  unfold CountEq at this
  unfold inflightMinus inflightPlus liveManaged
  rw [← sumTo_add]
  have e : (fun k => wPlus P k (s.th k)) =
      (fun k => (if P.managed k && isLive (s.th k).status then 1 else 0) + cPlus P (s.th k).code) := by
    funext k; simp only [wPlus]; omega
  rw [e] at this
  exact this

/-- **Managed-thread ownership** (part 2 of c20_managed_inv, fully proved).  For every slot `k`: the number of
references to `k`'s wrapper — occurrences in the pending list plus occurrences in the join lists / pending
`pthread_join`s of all threads — is 1 if `k` is a managed thread that has enqueued itself and has not been
joined yet (status handedOver or exited), and 0 otherwise.  Hence a finished-unjoined wrapper is in `pending`
or owned by exactly one joiner, a joined thread is referenced by nobody (no second join), and a thread that has
not handed itself over is referenced by nobody (in particular not by its own hand-over code: no self-join). -/
theorem c20_managed_owner (P : Prog) (wf : WF P) (s : State) (h : Reachable P s) (k : Nat) (hk : k < P.n) :
    s.pending.count k + sumTo P.n (fun t => occ k (s.th t).code) =
      if P.managed k = true ∧ ((s.th k).status = .handedOver ∨ (s.th k).status = .exited) then 1 else 0 := by
  have := own_reachable P wf.n_pos wf.main s h k
  unfold OwnEq at this
  rw [oPlus_sum P k s hk] at this
  simpa [hoe_iff] using this

/-- **Repeated library init.** `aws_common_library_init` on the initialised library (which every dependent
library issues) leaves the managed-thread count, the pending-join list, the lock and every other thread alone —
whatever is parked in the pending list stays there for the next lazy join / join-all. -/
theorem c20_init_idempotent (P : Prog) (s s' : State) (t : Nat) (rest : List Instr)
    (h : exec P s t .libInit rest = some s') :
    s'.count = s.count ∧ s'.pending = s.pending ∧ s'.lockOwner = s.lockOwner ∧ s'.log = s.log ∧
      ∀ k, k ≠ t → s'.th k = s.th k := by
  simp only [exec, Option.some.injEq] at h
  subst h
  exact ⟨rfl, rfl, rfl, rfl, fun k hk => by simp [upd_apply, hk]⟩

/-- **call_once.** The first `aws_thread_call_once` on a flag runs the callback on the calling thread: its at-exit
registrations become ordinary registrations of that thread (so `c20_atexit` covers them: each runs exactly once at
that thread's exit, LIFO with the thread's other registrations); every later call on the flag does nothing. -/
theorem c20_call_once (P : Prog) (s s' : State) (t id : Nat) (rest : List Instr)
    (h : exec P s t (.onceCall id) rest = some s') :
    s'.onceDone id = true ∧ (s.onceDone id = true → (s'.th t).code = rest ∧ (s'.th t).chain = (s.th t).chain) ∧
    (s.onceDone id = false → ∃ regs : List Nat, regs = (P.onceRegs id).take 2 ∧
      (s'.th t).code = regs.map (fun c => Instr.act (.atexit c)) ++ rest) := by
  simp only [exec] at h
  split at h
  · rename_i hd
    simp only [Option.some.injEq] at h; subst h
    exact ⟨by simp [cont, pushW, hd], fun _ => by simp, fun hf => by rw [hd] at hf; cases hf⟩
  · rename_i hd
    simp only [Option.some.injEq] at h; subst h
    refine ⟨by simp [cont, pushW], fun ht => absurd ht hd, fun _ => ⟨_, rfl, ?_⟩⟩
    simp only [pushW_th, cont_th, upd_same]
    cases P.onceRegs id with
    | nil => rfl
    | cons a r => cases r <;> rfl

/-- **Refused join.** When `pthread_join` refuses (`EDEADLK`: a thread joining itself; `EINVAL`: the thread was
detached) `aws_thread_join` returns the error and nothing else happens: the handle's detach state stays JOINABLE —
so a later join by the owner still performs the real `pthread_join` and waits for the thread (`joinU` is enabled
only when the target has exited) — and count, pending list, lock, detach flags, every other thread and the
joiner's own status / at-exit chain are untouched; the only trace is the `joinFail` event. -/
theorem c20_failed_join_unchanged (P : Prog) (s s' : State) (t k : Nat) (rest : List Instr)
    (h : exec P s t (.joinU k) rest = some s') (hf : t = k ∨ s.detachedS k = true) :
    s'.hstate = s.hstate ∧ s'.detachedS = s.detachedS ∧ s'.count = s.count ∧ s'.pending = s.pending ∧
    s'.lockOwner = s.lockOwner ∧ (∀ j, j ≠ t → s'.th j = s.th j) ∧ (s'.th t).status = (s.th t).status ∧
    (s'.th t).chain = (s.th t).chain ∧ ∃ e st, e ≠ 0 ∧ s'.log = Ev.joinFail k t e st :: s.log := by
  simp only [exec] at h
  split at h
  · simp only [Option.some.injEq] at h; subst h
    exact ⟨rfl, rfl, rfl, rfl, rfl, fun j hj => by simp [upd_apply, hj], by simp, by simp, 35, _, by decide, rfl⟩
  · split at h
    · simp only [Option.some.injEq] at h; subst h
      exact ⟨rfl, rfl, rfl, rfl, rfl, fun j hj => by simp [upd_apply, hj], by simp, by simp, 22, _, by decide, rfl⟩
    · rename_i h1 h2
      rcases hf with hf | hf
      · exact absurd hf h1
      · exact absurd hf h2

/-- a real join: only on a JOINABLE-path `joinU` whose target is another, not detached, exited thread -/
theorem c20_join_needs_exit (P : Prog) (s s' : State) (t k b : Nat) (rest : List Instr)
    (h : exec P s t (.joinU k) rest = some s') (hl : s'.log = Ev.joinRet k b :: s.log) :
    (s.th k).status = .exited ∧ (s'.th k).status = .joined ∧ t ≠ k ∧ s'.hstate k = .joinCompleted := by
  simp only [exec] at h
  split at h
  · simp only [Option.some.injEq] at h; subst h; simp at hl
  · split at h
    · simp only [Option.some.injEq] at h; subst h; simp at hl
    · split at h
      · rename_i h1 _ h3
        simp only [Option.some.injEq] at h; subst h
        have hne : ¬ k = t := fun e => h1 e.symm
        exact ⟨h3, by simp [upd_apply, hne], h1, by simp [pushW, pushLog, cont]⟩
      · simp at h

/-- c20_managed_inv = accounting + ownership -/
theorem c20_managed_inv (P : Prog) (wf : WF P) (s : State) (h : Reachable P s) :
    (s.count + inflightMinus P s = liveManaged P s + inflightPlus P s ∧ s.pending.length ≤ 1) ∧
    (∀ k, k < P.n → s.pending.count k + sumTo P.n (fun t => occ k (s.th t).code) =
      if P.managed k = true ∧ ((s.th k).status = .handedOver ∨ (s.th k).status = .exited) then 1 else 0) :=
  ⟨⟨(c20_managed_count P wf s h).1, (c20_managed_count P wf s h).2.1⟩, fun k hk => c20_managed_owner P wf s h k hk⟩

/-- **No leak.** Wrapper blocks (`struct thread_wrapper`), the name strings attached to them (`options->name`,
released by the thread at the top of `thread_fn` or by `s_thread_wrapper_destroy` when the launch fails) and
at-exit records are counted as the allocator sees them.  (1) a `s_thread_wrapper_destroy` never runs without the
blocks it frees being live (no double free at the level of block counts); a thread holds a name only while it is
created and has not started; (2) once every thread has finished (no code left; never created, exited or joined) and the
managed count is 0 — which is what a successful join-all establishes — no wrapper and no at-exit record is live. -/
theorem c20_no_leak (P : Prog) (wf : WF P) (s : State) (h : Reachable P s) :
    (∀ t k nm rest, t < P.n → (s.th t).code = Instr.freeW k nm :: rest → 1 + nm.toNat ≤ s.wLive) ∧
    (∀ k, (s.th k).named = true → (s.th k).status = .created) ∧
    ((∀ k, k < P.n → (s.th k).code = [] ∧
        ((s.th k).status = .notCreated ∨ (s.th k).status = .exited ∨ (s.th k).status = .joined)) →
      s.count = 0 → s.wLive = 0 ∧ s.cbLive = 0) := by
  have hc := countInv_reachable P wf.n_pos wf.main s h
  have hl := (logInv_reachable P s h).1
  have hw := wrapInv_reachable P wf.n_pos wf.main s h
  exact ⟨fun t k nm rest ht hcd => wLive_pos P s t k nm rest ht hcd hw.suf hw.eq, hw.nm,
    fun hfin h0 => no_leak_final P s hc hl hw hfin h0⟩

/-- **Join target.** The thread-id hand-over is part of the protocol: a thread writes its own id into its
wrapper's `thread_copy` at the top of `thread_fn`, before anything else.  In every reachable state every slot
that is referenced by the lazy-join machinery — in the pending list, in a join list, or as the target of a
pending `pthread_join` — has started and its wrapper holds exactly its own id, so the id a joiner passes to
`pthread_join` is the id of the thread that parked the wrapper; no `pthread_join` is ever issued on an id that
is not the thread's (`misuse = 0`). -/
theorem c20_join_target (P : Prog) (s : State) (h : Reachable P s) :
    (∀ k, 2 ≤ (s.th k).status.rank → (s.th k).copyId = some k) ∧
    (∀ k, k ∈ s.pending → (s.th k).copyId = some k) ∧
    (∀ t k, Instr.joinM k ∈ (s.th t).code → (s.th k).copyId = some k) ∧
    (∀ t l, Instr.joinAndFree l ∈ (s.th t).code → ∀ k, k ∈ l → (s.th k).copyId = some k) ∧
    s.misuse = 0 := by
  have hr := refInv_reachable P s h
  exact ⟨hr.copy, fun k hk => hr.copy k (hr.refs.mp k hk), fun t k hm => hr.copy k (hr.refs.mj t k hm),
    fun t l hm k hk => hr.copy k (hr.refs.mf t l hm k hk), hr.nomis⟩

/-- **Join-all.** If `aws_thread_join_all_managed` returns success (with or without a configured timeout),
every managed thread that had been created when the call began (`snap`, recorded by the call's first
instruction as `launchedManaged`) has exited and been joined.  The success path is only taken after the
call has seen `count = 0` under the lock (`exec_join_frame`). -/
theorem c20_join_all (P : Prog) (wf : WF P) (s : State) (h : Reachable P s) (t : Nat) (snap : List Nat)
    (hr : Ev.joinAllRet t true snap ∈ s.log) : ∀ k, k ∈ snap → (s.th k).status = .joined :=
  (joinInv_reachable P wf.n_pos wf.main s h).2.logged t snap hr

/-- the deadlock-freedom statement: in every reachable state of a `WFProgress` program, either all threads have
finished or, possibly after virtual time has advanced (sleeps, timed waits), some thread has an enabled step -/
def c20_no_deadlock_statement : Prop :=
  ∀ (P : Prog), WFProgress P → ∀ s, Reachable P s →
    AllFinished P s ∨ ∃ d t, (step P { s with now := s.now + d } t).isSome = true

/-- **No deadlock** (fully proved).  No launch / finish / join / join-all interleaving of the model — any
schedule, spurious wake-ups, arbitrary time advance, injected `pthread_create` failures and retries — reaches a
state in which unfinished threads exist but none can ever step.  `WFProgress`: join-all is called by the main
thread only, every slot is launched from one place and a manual thread is joined at most once and only by the
thread that launches it (two user threads that `pthread_join` each other deadlock in plain pthreads too: see the
`example` below, and corpus run `slot 1 U Y J2; slot 2 U Y J1; main L1 L2`, which detsched reports as deadlock on
the real library).  Proof: the lock holder can always step (`c20_no_deadlock_partial`); with the lock free, a
blocked manual `join` waits for a thread of larger creation ordinal (launch tree: `TreeInv`), a blocked lazy
join waits for a managed thread that handed itself over earlier (`HoInv`), so the chains end in a thread that can
step; if only the main thread is left, it cannot be blocked in the join-all wait because an un-notified waiter
implies count ≥ 2 (`c20_no_lost_wakeup`) while the accounting (`c20_managed_count`, `c20_managed_owner`,
pending ≤ 1) bounds the count by 1.  Thread functions terminate by construction (a body is a finite action
list); the busy `join_all_managed` loop means that *termination* additionally needs a fair scheduler. -/
theorem c20_no_deadlock : c20_no_deadlock_statement :=
  fun P wf s hr => no_deadlock_core P wf s hr

/-- **Lock progress** (used by `c20_no_deadlock`).  (1) Mutual exclusion: a thread whose next instruction touches the count, the
pending list or the timeout, notifies or starts a condition wait owns `s_managed_thread_lock`; a thread
waiting on the condition variable does not own it.  (2) The lock is never an obstacle: whenever the lock is
held, its holder has an enabled step (nothing blocks inside a critical section, the wait releases the lock), so
any thread blocked on `lock` will be able to proceed.  -/
theorem c20_no_deadlock_partial (P : Prog) (wf : WF P) (s : State) (h : Reachable P s) :
    (∀ t i r, (s.th t).code = i :: r → i.inCS = true → s.lockOwner = some t ∧ (s.th t).waiting = false) ∧
    (∀ t, (s.th t).waiting = true → s.lockOwner ≠ some t) ∧
    (∀ o, s.lockOwner = some o → (step P s o).isSome = true) := by
  have hm := mutexInv_reachable P wf.n_pos wf.main s h
  have hc := countInv_reachable P wf.n_pos wf.main s h
  have key : ∀ t i r, (s.th t).code = i :: r → modeOf s t = .inn →
      s.lockOwner = some t ∧ (s.th t).waiting = false := by
    intro t i r _ hmode
    unfold modeOf at hmode
    by_cases h1 : (s.th t).waiting = true
    · simp [h1] at hmode
    · by_cases h2 : s.lockOwner = some t
      · exact ⟨h2, by simpa using h1⟩
      · simp [h1, h2] at hmode
  refine ⟨fun t i r hcd hcs => ?_, hm.nw, fun o ho => ?_⟩
  · have hw := hm.wbAll t
    rw [hcd] at hw
    exact key t i r hcd (wb_head_cs hw hcs)
  · have hw := hm.wbAll o
    have hnw : ¬ (s.th o).waiting = true := fun hh => hm.nw o hh ho
    have hmode : modeOf s o = .inn := by unfold modeOf; simp [hnw, ho]
    rw [hmode] at hw
    cases hcd : (s.th o).code with
    | nil => rw [hcd] at hw; simp [wb] at hw
    | cons i r =>
      rw [hcd] at hw
      have hen := cs_enabled P s o i r hw
      have hst : (s.th o).status = .running ∨ (s.th o).status = .atexitDone ∨ (s.th o).status = .handedOver := by
        cases hs : (s.th o).status
        · have := hc.nocode o (Or.inl hs); rw [hcd] at this; cases this
        · have := hc.nocode o (Or.inr (Or.inl hs)); rw [hcd] at this; cases this
        · exact Or.inl rfl
        · have := hc.nocode o (Or.inr (Or.inr hs)); rw [hcd] at this; cases this
        · exact Or.inr (Or.inl rfl)
        · exact Or.inr (Or.inr rfl)
        · have := hm.fin o (Or.inl hs); rw [hcd] at this; cases this
        · have := hm.fin o (Or.inr hs); rw [hcd] at this; cases this
      unfold step
      rcases hst with hs | hs | hs <;> simp only [hs, hcd] <;> exact hen

/-- **No lost wake-up** (second proved part of c20_no_deadlock; programs in which only the main thread calls
join-all).  Only the main thread ever waits on `s_managed_thread_signal`.  Whenever it is blocked in the untimed
condition wait and has not been notified (nor spuriously woken), then either the count is still ≥ 2 — the wait
predicate `count ≤ 1` is false, so waiting is right — or the thread holding the lock has just decremented the
count and its very next instruction is the notify.  In particular, in a state where the lock is free an
un-notified waiter implies count ≥ 2: a decrement to ≤ 1 can never be missed.  Every `count--` is immediately
followed by the notify. -/
theorem c20_no_lost_wakeup (P : Prog) (wf : WF P) (hja : ∀ k, k ≠ 0 → Action.joinAll ∉ P.body k) (s : State)
    (h : Reachable P s) :
    (∀ t, t ≠ 0 → (s.th t).waiting = false) ∧
    ((s.th 0).waiting = true → (s.th 0).woken = false → (s.th 0).deadline = none →
      2 ≤ s.count ∨ ∃ o r, s.lockOwner = some o ∧ (s.th o).code = Instr.signal :: r) ∧
    ((s.th 0).waiting = true → (s.th 0).woken = false → (s.th 0).deadline = none → s.lockOwner = none → 2 ≤ s.count) ∧
    (∀ t r, (s.th t).code = Instr.decCount :: r → ∃ r', r = Instr.signal :: r') := by
  have hw := wakeInv_reachable P wf.n_pos wf.main hja s h
  refine ⟨fun t ht => (hw.nowait t ht).2, hw.lw.lw, fun h1 h2 h3 h4 => ?_, fun t r hcd => ?_⟩
  · rcases hw.lw.lw h1 h2 h3 with hA | ⟨o, r, ho, _⟩
    · exact hA
    · rw [h4] at ho; cases ho
  · have := hw.decsig t
    rw [hcd] at this
    exact this.1

/-- the snapshot taken by a join-all call is exactly the set of managed threads created so far -/
theorem c20_join_all_snapshot (P : Prog) (s : State) (k : Nat) :
    k ∈ launchedManaged P s P.n → P.managed k = true ∧ (s.th k).status ≠ .notCreated ∧ k < P.n :=
  mem_launchedManaged P s P.n k

/-! ### The hypotheses are satisfiable: a concrete execution reaching a successful join-all -/

/-- main launches two managed threads (the first one pinned to a cpu that cannot be honoured: its first
`pthread_create` fails and the launch is retried unpinned; both are named; it calls a once-flag
(twice; thread 2 calls it too) whose callback registers at-exit callback 9, and re-initialises the library; it registers two at-exit callbacks and launches the second) and
calls join-all -/
def demo : Prog :=
  { n := 3
    managed := fun k => k == 1 || k == 2
    onceRegs := fun i => if i = 0 then [9] else []
    body := fun k => if k = 0 then [.launch 1 true 1 true, .libInit, .joinAll, .getCount]
      else if k = 1 then [.atexit 7, .once 0, .once 0, .atexit 8, .launch 2 false 0 true, .libInit] else [.once 0] }

example : WF demo := ⟨by decide, by decide⟩

example : Reachable demo (drive demo 200 (init demo)) := drive_reachable demo 200 _ Reachable.init

/-- the execution ends with join-all returning success for the snapshot [2, 1],
both managed threads joined, callbacks 8 then 7 run on thread 1, count 0, nothing live -/
example :
    let s := drive demo 200 (init demo)
    s.log.contains (Ev.joinAllRet 0 true [2, 1]) = true ∧ (s.th 1).status = .joined ∧ (s.th 2).status = .joined ∧
    cbsOf 1 s.log = [7, 9, 8] ∧ cbsOf 2 s.log = [] ∧ s.count = 0 ∧ s.wLive = 0 ∧ s.cbLive = 0 ∧ s.misuse = 0 := by
  decide

/-! ### `c20_no_deadlock`: the hypothesis is satisfiable, and `joinByLauncher` cannot be dropped -/

/-- main launches a manual thread (which launches a managed one) and a managed thread, joins the manual one and
calls join-all -/
def demoP : Prog :=
  { n := 4
    managed := fun k => k == 2 || k == 3
    body := fun k =>
      if k = 0 then [.launch 1 false 0 false, .launch 2 true 1 true, .join 1, .joinAll]
      else if k = 1 then [.atexit 5, .launch 3 false 0 false] else [] }

example : WFProgress demoP := by
  refine { n_pos := by decide, main := by decide, joinAllMain := ?_, joinOnce := ?_, launchOnce := ?_, joinByLauncher := ?_ }
  · intro k hk
    by_cases h1 : k = 1
    · subst h1; decide
    · simp [demoP, hk, h1]
  · intro k
    by_cases h1 : k = 1
    · subst h1; decide
    · have : ¬ 1 = k := fun e => h1 e.symm
      simp [demoP, List.range, List.range.loop, this]
  · intro k
    by_cases h1 : k = 1
    · subst h1; decide
    · by_cases h2 : k = 2
      · subst h2; decide
      · by_cases h3 : k = 3
        · subst h3; decide
        · have a : ¬ 1 = k := fun e => h1 e.symm
          have b : ¬ 2 = k := fun e => h2 e.symm
          have c : ¬ 3 = k := fun e => h3 e.symm
          simp [demoP, List.range, List.range.loop, a, b, c]
  · intro j k hj hm
    have hj' : j = 0 ∨ j = 1 ∨ j = 2 ∨ j = 3 := by simp [demoP] at hj; omega
    rcases hj' with rfl | rfl | rfl | rfl
    · simp [demoP] at hm; subst hm; exact ⟨false, 0, false, by simp [demoP]⟩
    · simp [demoP] at hm
    · simp [demoP] at hm
    · simp [demoP] at hm

/-- the theorem applied: this execution of `demoP` ends with every thread finished (all joined) -/
example :
    let s := drive demoP 400 (init demoP)
    (s.th 1).status = .joined ∧ (s.th 2).status = .joined ∧ (s.th 3).status = .joined ∧ (s.th 0).status = .exited ∧
      s.count = 0 ∧ s.wLive = 0 := by
  decide

/-- two manual threads that join each other: each joined once, each launched once, join-all only in main — but
not `joinByLauncher`.  After main has launched both and each has started, neither can ever step: a genuine
(user-level) `pthread_join` cycle, which is why the hypothesis is part of `WFProgress`. -/
def cyc : Prog :=
  { n := 3
    managed := fun _ => false
    body := fun k => if k = 0 then [.launch 1 false 0 false, .launch 2 false 0 false]
      else if k = 1 then [.yield, .join 2] else if k = 2 then [.yield, .join 1] else [] }

example :
    let s := runList cyc [0, 0, 0, 0, 0, 0, 0, 0, 0, 0, 0, 0, 0, 1, 2, 1, 2, 1, 2, 1, 2, 1, 2] (init cyc)
    (s.th 1).status = .running ∧ (s.th 2).status = .running ∧
      (step cyc s 0).isNone = true ∧ (step cyc s 1).isNone = true ∧ (step cyc s 2).isNone = true := by
  decide


/-- **C20 (thread name)**: (a) `aws_thread_current_name` reports exactly whether the calling thread carries the
launch name and changes nothing else (count, pending list, handles, wrappers, every other thread, the caller's
status and at-exit chain); (b) at the top of `thread_fn` a thread launched with a name carries it from its first
step on and the name string is released there (one wrapper-owned block fewer), while a thread launched without
one keeps whatever its creator carried. -/
theorem c20_thread_name (P : Prog) (s : State) (t : Nat) :
    (∀ s' rest, exec P s t .logName rest = some s' →
      s'.log = Ev.name t (s.th t).hasName :: s.log ∧ s'.count = s.count ∧ s'.pending = s.pending ∧
      s'.hstate = s.hstate ∧ s'.wLive = s.wLive ∧ s'.lockOwner = s.lockOwner ∧ (∀ j, j ≠ t → s'.th j = s.th j) ∧
      (s'.th t).status = (s.th t).status ∧ (s'.th t).chain = (s.th t).chain ∧
      (s'.th t).hasName = (s.th t).hasName ∧ (s'.th t).code = rest) ∧
    ((startStep P s t).th t).hasName = ((s.th t).named || (s.th t).hasName) ∧
    ((startStep P s t).th t).named = false ∧
    (startStep P s t).wLive = s.wLive - (s.th t).named.toNat := by
  refine ⟨?_, by simp, by simp, rfl⟩
  intro s' rest h
  simp only [exec, Option.some.injEq] at h
  subst h
  exact ⟨rfl, rfl, rfl, rfl, rfl, rfl, fun j hj => by simp [pushLog, cont, upd_apply, hj], by simp [pushLog, cont],
    by simp [pushLog, cont], by simp [pushLog, cont], by simp [pushLog, cont]⟩

/-- **C20 (failed launch before the wrapper exists)**: an `aws_thread_launch` in which `pthread_attr_init`,
`pthread_attr_setstacksize` or `pthread_attr_getstacksize` fails returns that error and leaves the managed-thread
count, the pending-join list, the heap (no wrapper, no name), the lock, the create counter and every thread as they
were; the only traces are the `launchRet` event and — as /repo does — the MANAGED mark on the handle of a managed
launch.  The count is touched by a launch only directly in front of `pthread_create` (second part), where
`c20_managed_count` accounts for the roll-back when the create fails. -/
theorem c20_failed_launch_attr (P : Prog) (s s3 : State) (t k e : Nat) (rest : List Instr)
    (h : ((exec P s t (.act (.launchAttr k e)) rest).bind fun s1 =>
          (exec P s1 t (.markM k) (.logLaunch k e :: rest)).bind fun s2 => exec P s2 t (.logLaunch k e) rest) = some s3) :
    (s3.count = s.count ∧ s3.pending = s.pending ∧ s3.wLive = s.wLive ∧ s3.cbLive = s.cbLive ∧ s3.lockOwner = s.lockOwner ∧
      s3.creates = s.creates ∧ s3.nextOrd = s.nextOrd ∧ s3.detachedS = s.detachedS ∧
      (∀ j, j ≠ t → s3.th j = s.th j) ∧ (s3.th t).code = rest ∧ (s3.th t).status = (s.th t).status ∧
      (s3.th t).chain = (s.th t).chain ∧ s3.log = Ev.launchRet k t e :: s.log ∧ s3.wlog = s.wlog ∧
      s3.hstate = if P.managed k then upd s.hstate k .managed else s.hstate) ∧
    (∀ pin nf nm, expand P s t (.launch k pin nf nm) =
      [.allocW k nm] ++ (if P.managed k then [.lock, .incCount, .unlock] else []) ++ [.create k pin nf nm]) := by
  refine ⟨?_, fun _ _ _ => rfl⟩
  simp only [exec, expand, Option.bind_some, Option.bind, List.cons_append, List.nil_append, Option.some.injEq] at h
  subst h
  refine ⟨rfl, rfl, rfl, rfl, rfl, rfl, rfl, rfl, fun j hj => by simp [pushLog, cont, upd_apply, hj], by simp [pushLog, cont],
    by simp [pushLog, cont], by simp [pushLog, cont], by simp [pushLog, cont], rfl, by simp [pushLog, cont]⟩

/-- **C20 (library start-up after a clean-up)**: re-initialising the thread management leaves the unjoined count alone
— whatever a clean-up whose join-all ran into its timeout left running stays counted, so the next
`aws_thread_join_all_managed` (`c20_join_all`) still waits for it — and, with nothing parked in the pending-join list
(`dropped` records how many wrappers were parked there), changes nothing at all. -/
theorem c20_reinit_keeps_count (P : Prog) (s s' : State) (t : Nat) (rest : List Instr)
    (h : exec P s t .libReinit rest = some s') :
    s'.count = s.count ∧ s'.pending = s.pending ∧ s'.hstate = s.hstate ∧ s'.wLive = s.wLive ∧ s'.lockOwner = s.lockOwner ∧
    s'.timeoutNs = s.timeoutNs ∧ (∀ j, j ≠ t → s'.th j = s.th j) ∧ s'.log = s.log ∧
    s'.dropped = s.dropped + s.pending.length ∧ (s.pending = [] → s'.dropped = s.dropped) := by
  simp only [exec, Option.some.injEq] at h
  subst h
  exact ⟨rfl, rfl, rfl, rfl, rfl, rfl, fun j hj => by simp [cont, upd_apply, hj], rfl, rfl, fun hp => by simp [cont, hp]⟩

/-- **C20 (launch marks the handle)**: when `pthread_create` has succeeded, `aws_thread_launch` leaves the caller's handle
JOINABLE for a manual thread and MANAGED for a managed one *whatever state the handle was in before* — in particular a
handle that went through an earlier launch / join cycle (JOIN_COMPLETED) is joinable again, so the next
`aws_thread_join` on it is a real join (`c20_join_needs_exit`: it waits for the function and the at-exit callbacks of
the new thread).  Nothing else changes in that step. -/
theorem c20_launch_marks_joinable (P : Prog) (s s' : State) (t k : Nat) (rest : List Instr)
    (h : exec P s t (.createRet k) rest = some s') :
    s'.hstate k = (if P.managed k then HState.managed else HState.joinable) ∧ (∀ j, j ≠ k → s'.hstate j = s.hstate j) ∧
    s'.count = s.count ∧ s'.pending = s.pending ∧ s'.wLive = s.wLive ∧ s'.log = s.log ∧ (∀ j, j ≠ t → s'.th j = s.th j) ∧
    (expand P s' t (.join k) = if P.managed k then [.logJoin k] else [.joinU k]) := by
  simp only [exec, Option.some.injEq] at h
  subst h
  refine ⟨by simp [pushW, cont], fun j hj => by simp [pushW, cont, upd_apply, hj], rfl, rfl, rfl, rfl,
    fun j hj => by simp [pushW, cont, upd_apply, hj], ?_⟩
  by_cases hm : P.managed k = true <;> simp [expand, pushW, cont, hm]

/-! ### managed-join timeout: the model's arithmetic is the C arithmetic

`AwsVerif.Gen.Threads` holds the expressions of `aws_thread_join_all_managed`, its wait predicate and
`aws_condition_variable_wait_for`, translated from /repo's source on every run (gen/threads_gen.py). -/
section timeout
open AwsVerif.Gen.Threads

/-- the generated C expressions, for `uint64_t` arguments, are the expressions used in `exec` -/
theorem c20_timeout_bridge (now ts to w cnt : Nat) (hn : now < U64) (hts : ts < U64) :
    ja_has_timeout to = decide (to > 0) ∧ ja_deadline now to = (now + to) % U64 ∧ ja_timed ts = decide (ts > 0) ∧
    ja_wait_ns now ts = (if now ≤ ts then ts - now else 0) ∧ ja_done cnt = decide (cnt = 0) ∧
    ja_timed_out now ts = (decide (ts ≠ 0) && decide (ts ≤ now)) ∧ ja_pred cnt = decide (cnt ≤ 1) ∧
    cv_abs_deadline w now = (w + now) % U64 := by
  unfold U64 at *
  refine ⟨rfl, rfl, rfl, ?_, ?_, ?_, ?_, rfl⟩
  · unfold ja_wait_ns
    split
    · show (ts + 18446744073709551616 - now) % 18446744073709551616 = ts - now
      omega
    · rfl
  · unfold ja_done; by_cases h : cnt = 0 <;> simp [h]
  · unfold ja_timed_out; by_cases h1 : ts = 0 <;> by_cases h2 : ts ≤ now <;> simp [h1, h2]
  · unfold ja_pred; by_cases h : cnt ≤ 1 <;> simp [h]

/-- **C20 (join-all timeout)**: every timeout decision of the modelled `aws_thread_join_all_managed` is computed by the
translated C expressions: arming the deadline (`jaInit`), choosing the timed wait (`jaLoop`), the duration handed to
the condition variable (`waitForPredInit`), the absolute deadline of `pthread_cond_timedwait` and the wait predicate
(`waitForPred` / `waitPred`), and the done / timed-out test after the wait (`jaCheck`: the call returns exactly when
the count is 0 or the deadline has passed, and reports failure exactly when the deadline has passed).  In particular
a timeout at or above 2^63 ns does not expire before `now + timeout`. -/
theorem c20_join_all_timeout (P : Prog) (s s' : State) (t : Nat) (rest : List Instr)
    (hnow : s.now + P.tick < U64) (hN : (s.th t).rNow < U64) (hT : (s.th t).rTs < U64) :
    (exec P s t .jaInit rest = some s' →
      (ja_has_timeout (s.th t).rTo = true → s'.now = s.now + P.tick ∧ (s'.th t).rNow = s.now + P.tick ∧
        (s'.th t).rTs = ja_deadline (s.now + P.tick) (s.th t).rTo) ∧
      (ja_has_timeout (s.th t).rTo = false → s'.now = s.now ∧ (s'.th t).rTs = 0)) ∧
    (exec P s t .jaLoop rest = some s' →
      (s'.th t).code = [.lock, (if ja_timed (s.th t).rTs = true then Instr.waitForPredInit else Instr.waitPred), .jaCheck] ++ rest) ∧
    (exec P s t .waitForPredInit rest = some s' → (s'.th t).rWait = ja_wait_ns (s.th t).rNow (s.th t).rTs) ∧
    (exec P s t .waitForPred rest = some s' →
      if (s.th t).rErr ≠ 0 ∨ ja_pred s.count = true then (s'.th t).code = rest
      else (s'.th t).deadline = some (cv_abs_deadline (s.th t).rWait (s.now + P.tick)) ∧ s'.now = s.now + P.tick) ∧
    (exec P s t .waitPred rest = some s' → ((s'.th t).code = rest ↔ ja_pred s.count = true)) ∧
    (exec P s t .jaCheck rest = some s' →
      let out := ja_timed_out (s.now + P.tick) (s.th t).rTs
      s'.now = s.now + P.tick ∧ (s'.th t).rOk = ((s.th t).rOk && !out) ∧
      (s'.th t).code = [.unlock, .joinAndFree s.pending] ++
        (if (ja_done s.count || out) = true then [Instr.jaRet ((s.th t).rOk && !out) (s.th t).rSnap] else [Instr.jaLoop]) ++ rest) := by
  have B := fun now ts to w cnt hn hts => c20_timeout_bridge now ts to w cnt hn hts
  refine ⟨?_, ?_, ?_, ?_, ?_, ?_⟩
  · intro h
    have b := B (s.now + P.tick) 0 (s.th t).rTo 0 0 hnow (by unfold U64; omega)
    simp only [exec] at h
    rw [b.1, b.2.1]
    split at h <;> rename_i hc <;> simp only [Option.some.injEq] at h <;> subst h
    · simp [cont, hc]
    · simp [cont, hc]
  · intro h
    have b := B 0 (s.th t).rTs 0 0 0 (by unfold U64; omega) hT
    simp only [exec, Option.some.injEq] at h; subst h
    rw [b.2.2.1]
    by_cases hc : (s.th t).rTs > 0 <;> simp [cont, hc]
  · intro h
    have b := B (s.th t).rNow (s.th t).rTs 0 0 0 hN hT
    simp only [exec, Option.some.injEq] at h; subst h
    rw [b.2.2.2.1]; simp [cont]
  · intro h
    have b := B (s.now + P.tick) 0 0 (s.th t).rWait s.count hnow (by unfold U64; omega)
    simp only [exec] at h
    rw [b.2.2.2.2.2.2.1, b.2.2.2.2.2.2.2]
    split at h <;> rename_i hc <;> simp only [Option.some.injEq] at h <;> subst h
    · have hc' : (s.th t).rErr ≠ 0 ∨ decide (s.count ≤ 1) = true := by simpa using hc
      rw [if_pos hc']; simp [cont]
    · have hc' : ¬ ((s.th t).rErr ≠ 0 ∨ decide (s.count ≤ 1) = true) := by simpa using hc
      rw [if_neg hc']; simp [cont]
  · intro h
    have b := B 0 0 0 0 s.count (by unfold U64; omega) (by unfold U64; omega)
    simp only [exec] at h
    rw [b.2.2.2.2.2.2.1]
    split at h <;> rename_i hc <;> simp only [Option.some.injEq] at h <;> subst h
    · simp [cont, hc]
    · simp only [cont, upd_same, hc, decide_false, Bool.false_eq_true, iff_false]
      intro hh
      have := congrArg List.length hh
      simp at this
      omega
  · intro h
    have b := B (s.now + P.tick) (s.th t).rTs 0 0 s.count hnow hT
    simp only [exec, Option.some.injEq] at h; subst h
    rw [b.2.2.2.2.1, b.2.2.2.2.2.1]
    simp [cont]

end timeout

end AwsVerif.Props.C20
