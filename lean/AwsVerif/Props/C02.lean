import AwsVerif.Proofs.C02.Run
import AwsVerif.Proofs.C02.IterOnce
import AwsVerif.Proofs.C02.IterPass
import AwsVerif.Proofs.C02.TableEq
import AwsVerif.Proofs.C02.Lookup3
import AwsVerif.Proofs.C02.Lookup3Paths
import AwsVerif.Proofs.C02.HashIC
import AwsVerif.Proofs.C02.GenBridge
/-!
# C02 — the hash table behaves as a map under any operation history

Model: `AwsVerif/Model/HashTable.lean` (transcription of `source/hash_table.c`), operation language and
reference map: `AwsVerif/Model/HashTableSpec.lean`.  Invariant (`AwsVerif/Proofs/C02/Inv.lean`):

* `Basic h t` — size is `2^k` (`1 ≤ k ≤ 64`), `mask = size - 1`, the array has `size` slots,
  `entryCount` = number of occupied slots `≤ maxLoad < size`, no two occupied slots hold keys that
  the table's equality identifies, every stored hash code is `hashFor h key`;
* `RH t` — Robin Hood condition: an entry displaced by `d > 0` from its home has an occupied
  predecessor slot whose entry is displaced by at least `d - 1` (indices cyclic);
* `Inv h t = Basic h t ∧ RH t`.

`h : Nat → Nat` is the user's hash function on key identities: every theorem quantifies over it, so
constant, zero-valued, `2^64-1`-valued and end-of-array-clustered hashes are instances.
-/
namespace AwsVerif.Props.C02
open AwsVerif.HashTable AwsVerif.Proofs.C02

/-! ## [A] c02_inv_basic -/

/-- a successful `aws_hash_table_init` (any requested size, any destructor set) establishes the invariant
on an empty table -/
theorem c02_inv_init (h : Nat → Nat) (size : Nat) (dk dv : Bool) (t : Table) (hi : init size dk dv = .ok t) :
    Inv h t ∧ contents t = [] := by
  obtain ⟨h1, h2⟩ := init_inv h hi
  exact ⟨h1, by rw [contents_eq, h2]; rfl⟩

/-- `aws_hash_table_init` never fails for a reason other than size overflow -/
theorem c02_init_total (size : Nat) (dk dv : Bool) :
    (∃ t, init size dk dv = .ok t) ∨ init size dk dv = .error .overflow := by
  unfold init
  split
  · rename_i e he; right; rw [updateTemplateSize_err he]
  · rename_i tp _
    cases ha : allocState tp 0 dk dv with
    | ok t => exact Or.inl ⟨t, rfl⟩
    | error e => right; rw [allocState_err ha]

/-- every operation (put, create, find, remove with and without out-parameter, remove_element, clear) keeps
the structural invariant, keeps the destructor configuration, and all its fuel-bounded loops (probe search,
emplace, re-insertion on growth, backward shift) terminate inside their fuel -/
theorem c02_inv_basic (h : Nat → Nat) (t : Table) (op : Op) (hinv : Inv h t) :
    Basic h (apply h t op).1 ∧ (apply h t op).1.dk = t.dk ∧ (apply h t op).1.dv = t.dv ∧
    (apply h t op).2 ≠ .error .fuel := by
  obtain ⟨h1, h2, h3, _⟩ := step_refines hinv (List.Perm.refl _) op
  exact ⟨h1.1, h2, h3, apply_ne_fuel hinv op⟩

/-- an operation that reports an error (only `OVERFLOW_DETECTED` from growing the table is possible) leaves
the table untouched -/
theorem c02_error_unchanged (h : Nat → Nat) (t : Table) (op : Op) (hinv : Inv h t) (e : Err)
    (he : (apply h t op).2 = .error e) : e = .overflow ∧ (apply h t op).1 = t := by
  obtain ⟨_, _, _, h4⟩ := step_refines hinv (List.Perm.refl _) op
  rcases h4 with ⟨e', he', hov, htab, _⟩ | ⟨_, hsim⟩
  · rw [he] at he'; cases he'
    exact ⟨hov, htab⟩
  · exact absurd he (by
      intro hc
      rw [hc] at hsim
      unfold Res.sim at hsim
      cases hop : specApply t.dk t.dv (contents t) op with
      | mk m' r' =>
        rw [hop] at hsim
        simp only at hsim
        cases op <;> simp only [specApply] at hop <;> (try split at hop) <;> cases hop <;> cases hsim)

/-- the invariant holds after every program, and no result along the way is an exhausted loop budget -/
theorem c02_inv_programs (h : Nat → Nat) (size : Nat) (dk dv : Bool) (t : Table) (hi : init size dk dv = .ok t)
    (ops : List Op) :
    Inv h (runModel h t ops).1 ∧ ∀ r ∈ (runModel h t ops).2, r ≠ .error .fuel :=
  run_inv ops t (init_inv h hi).1

/-- the library's own `hash_table_state_is_valid` — its conjuncts over `size`, `entry_count`, `max_load` and `mask`
(size ≥ 2 and a power of two by `aws_is_power_of_two`, `entry_count ≤ max_load < size`, `mask = size − 1`), cut out of
hash_table.c and re-translated on every run (`Gen/HashValid.lean`) — holds in the state reached by every program from
every successful `init`: what a DEBUG_BUILD asserts before and after each hash-table call.  (The remaining conjuncts are
non-NULL tests of the callbacks / allocator / slots and the load-factor constant; `Gen.HashValid.stateValidOther` names them.) -/
theorem c02_state_valid (h : Nat → Nat) (size : Nat) (dk dv : Bool) (t : Table) (hi : init size dk dv = .ok t)
    (ops : List Op) :
    AwsVerif.Gen.HashValid.stateValidInt (runModel h t ops).1.size (runModel h t ops).1.entryCount
      (runModel h t ops).1.maxLoad (runModel h t ops).1.mask = true :=
  (c02_inv_programs h size dk dv t hi ops).1.1.stateValidInt

/-- the translated predicate is not constant: over-full, non-power-of-two size, wrong mask and size 1 are rejected -/
example : AwsVerif.Gen.HashValid.stateValidInt 4 3 3 3 = true ∧ AwsVerif.Gen.HashValid.stateValidInt 4 4 3 3 = false ∧
    AwsVerif.Gen.HashValid.stateValidInt 6 1 5 5 = false ∧ AwsVerif.Gen.HashValid.stateValidInt 4 1 3 7 = false ∧
    AwsVerif.Gen.HashValid.stateValidInt 4 1 4 3 = false ∧ AwsVerif.Gen.HashValid.stateValidInt 1 0 0 0 = false := by decide

/-- the library's own `aws_hash_iter_is_valid` — its tail after the NULL / table-validity tests (the `limit > size` test and
the switch over the status, cut out of hash_table.c and re-translated on every run) — accepts the iterator returned by
`aws_hash_iter_begin` on every table, and the one returned by `aws_hash_iter_next` from every iterator whose limit is within
the table: DONE exactly at `slot = limit`, READY_FOR_USE at an occupied slot below the limit.  `slotHash` stands for the
`hash_code` field: any function that is non-zero exactly on occupied slots. -/
theorem c02_iter_valid (t : Table) (it : Iter) (slotHash : Nat → Nat)
    (hh : ∀ i, slotHash i ≠ 0 ↔ (rd t.slots i).isSome = true) :
    AwsVerif.Gen.HashValid.iterValidInt (iterBegin t).limit t.size (statusCode (iterBegin t).status) (iterBegin t).slot
      (slotHash (iterBegin t).slot) = true ∧
    (it.limit ≤ t.size →
      AwsVerif.Gen.HashValid.iterValidInt (iterNext t it).limit t.size (statusCode (iterNext t it).status) (iterNext t it).slot
        (slotHash (iterNext t it).slot) = true) :=
  ⟨getNext_iterValid t _ 0 (Nat.le_refl _) slotHash hh, fun hl => getNext_iterValid t it _ hl slotHash hh⟩

/-- … and `aws_hash_iter_delete` on a READY iterator inside the table (`slot < limit ≤ size`) leaves an iterator the
translated predicate accepts with status DELETE_CALLED — the slot steps back by one, to `SIZE_MAX` from slot 0 — over a
table of unchanged size; with `c02_inv_iter_delete` (the table invariant survives) this is the library's post-condition of
the call. -/
theorem c02_iter_valid_delete (t t' : Table) (it it' : Iter) (destroy : Bool) (log : List Ev) (hash : Nat)
    (hs : it.slot < it.limit) (hl : it.limit ≤ t.size) (hw : t.size < W64)
    (hd : iterDelete t it destroy = some (t', it', log)) :
    t'.size = t.size ∧ it'.status = .deleteCalled ∧
    AwsVerif.Gen.HashValid.iterValidInt it'.limit t'.size (statusCode it'.status) it'.slot hash = true :=
  iterDelete_iterValid t t' it it' destroy log hash hs hl hw hd

/-- the translated iterator predicate is not constant: READY at an empty slot, DONE away from the limit, a limit beyond the
table and an unknown status are rejected; the underflowed slot after a delete at slot 0 is accepted -/
example : AwsVerif.Gen.HashValid.iterValidInt 8 8 2 3 0 = false ∧ AwsVerif.Gen.HashValid.iterValidInt 8 8 2 3 5 = true ∧
    AwsVerif.Gen.HashValid.iterValidInt 8 8 0 3 5 = false ∧ AwsVerif.Gen.HashValid.iterValidInt 9 8 0 9 0 = false ∧
    AwsVerif.Gen.HashValid.iterValidInt 8 8 3 3 5 = false ∧
    AwsVerif.Gen.HashValid.iterValidInt 7 8 1 18446744073709551615 0 = true := by decide

/-- deletion through an iterator that is ready for use keeps the invariant, removes exactly the element the
iterator shows, and calls the destructors on exactly that element iff `destroy_contents`; `aws_hash_table_foreach`
with any callback (any flag word per key: continue / delete / stop / error) keeps the invariant -/
theorem c02_inv_iter_delete (h : Nat → Nat) (t : Table) (it : Iter) (destroy : Bool) (hinv : Inv h t)
    (hg : GoodIter t it) (hnd : iterDone it = false) :
    ∃ t' it' log kv, iterDelete t it destroy = some (t', it', log) ∧ Inv h t' ∧ it.elem = some kv ∧
      (contents t).Perm (kv :: contents t') ∧
      log = (if destroy then specDestroy t.dk t.dv kv else []) := by
  obtain ⟨t', it', log, e, h1, h2, _, h4, h5, _, _, h8⟩ := iterDelete_spec hinv hg hnd destroy
  refine ⟨t', it', log, (e.key, e.val), h1, h2, h4, ?_, ?_⟩
  · rw [contents_eq, contents_eq]; exact h5.map kvOf
  · rw [h8]; rfl

theorem c02_inv_foreach (h : Nat → Nat) (t : Table) (flags : Key → Nat) (hinv : Inv h t) :
    Inv h (foreach t flags).table := (foreach_inv hinv flags).1

/-- iterators produced by begin / next are done or point at an occupied slot and carry its element -/
theorem c02_iter_wellformed (t : Table) (it : Iter) : GoodIter t (iterBegin t) ∧ GoodIter t (iterNext t it) :=
  ⟨iterBegin_good t, iterNext_good t it⟩

/-! ## [A] c02_find_sound_complete -/

/-- under the invariant, `aws_hash_table_find` returns exactly the stored pair whose key the table's
equality identifies with the query — early termination on a shorter displacement never skips a
present key, wrap-around included (indices are cyclic in `RH`) -/
theorem c02_find_sound_complete (h : Nat → Nat) (t : Table) (hinv : Inv h t) (k : Key) (kv : Key × Val) :
    find h t k = some kv ↔ (kv ∈ contents t ∧ kv.1.id = k.id) := by
  rw [find_spec hinv k kv, mem_contents]
  constructor
  · rintro ⟨e, he, hid, rfl⟩; exact ⟨⟨e, he, rfl⟩, hid⟩
  · rintro ⟨⟨e, he, rfl⟩, hid⟩; exact ⟨e, he, hid, rfl⟩

theorem c02_find_none (h : Nat → Nat) (t : Table) (hinv : Inv h t) (k : Key) :
    find h t k = none ↔ ∀ kv ∈ contents t, kv.1.id ≠ k.id := by
  rw [find_none hinv k]
  constructor
  · intro hh kv hkv
    obtain ⟨e, he, rfl⟩ := mem_contents.1 hkv
    exact hh e he
  · intro hh e he
    exact hh (e.key, e.val) (mem_contents.2 ⟨e, he, rfl⟩)

/-- at most one stored pair per key identity -/
theorem c02_contents_unique (h : Nat → Nat) (t : Table) (hinv : Inv h t) :
    (contents t).Pairwise (fun a b => a.1.id ≠ b.1.id) := specOk_of_abs hinv.1 (List.Perm.refl _)

/-! ## [B] c02_rh_preserved -/

/-- every operation keeps the Robin Hood condition -/
theorem c02_rh_preserved (h : Nat → Nat) (t : Table) (op : Op) (hinv : Inv h t) : RH (apply h t op).1 :=
  (step_refines hinv (List.Perm.refl _) op).1.2

/-- `s_emplace_item` (victim swapping), started where `s_find_entry` stopped or at probe 0: keeps the
Robin Hood condition, adds exactly the new entry, returns its slot, inside fuel `n` -/
theorem c02_rh_emplace (n mask : Nat) (g : Geom n mask) (s : Slots) (e : Entry) (p : Nat) (hs : s.size = n)
    (hrh : RHs n s) (hroom : (entries s).length < n) (hp : p < n)
    (hpred : 0 < p → ∃ e', rd s (prv n ((e.hash + p) % n)) = some e' ∧ p ≤ disp n (prv n ((e.hash + p) % n)) e'.hash + 1) :
    ∃ s' idx, emplace mask n s e p = some (s', some idx) ∧ s'.size = n ∧ RHs n s' ∧
      (entries s').Perm (e :: entries s) ∧ idx < n ∧ rd s' idx = some e :=
  emplace_spec g hs hrh hroom hp hpred

/-- `s_remove_entry` (backward shift) on an occupied slot: keeps the whole invariant, removes exactly that
entry, returns a slot index inside the table, inside fuel `size` -/
theorem c02_rh_remove_entry (h : Nat → Nat) (t : Table) (hinv : Inv h t) (i : Nat) (e : Entry)
    (hr : rd t.slots i = some e) :
    ∃ t' last, removeEntry t i = some (t', last) ∧ Inv h t' ∧ (entries t.slots).Perm (e :: entries t'.slots) ∧
      last < t.size := by
  obtain ⟨t', last, h1, h2, h3, _, _, _, h7⟩ := removeEntry_spec hinv hr
  exact ⟨t', last, h1, h2, h3, h7⟩

/-- `s_expand_table`: fails only with an overflow error, otherwise the doubled table satisfies the
invariant, holds the same entries and has room for one more -/
theorem c02_rh_expand (h : Nat → Nat) (t : Table) (hinv : Inv h t) :
    (∃ e, expand t = .error e ∧ e = .overflow) ∨
    (∃ t', expand t = .ok t' ∧ Inv h t' ∧ (entries t'.slots).Perm (entries t.slots) ∧
      t.entryCount + 1 ≤ t'.maxLoad) := by
  rcases expand_spec hinv with h1 | ⟨t', h1, h2, h3, _, h5, _⟩
  · exact Or.inl h1
  · exact Or.inr ⟨t', h1, h2, h3, h5⟩

theorem c02_rh_clear (h : Nat → Nat) (t : Table) (hinv : Inv h t) : Inv h (clear t).1 ∧ contents (clear t).1 = [] := by
  obtain ⟨h1, h2, _⟩ := clear_spec hinv
  exact ⟨h1, by rw [contents_eq, h2]; rfl⟩

/-! ## [B] c02_refines_map -/

/-- one step: the abstraction commutes with the operation and the result equals the reference map's —
or the operation reported a size overflow and changed nothing -/
theorem c02_refines_map_step (h : Nat → Nat) (t : Table) (m : Spec) (op : Op) (hinv : Inv h t)
    (habs : (contents t).Perm m) :
    (∃ e, (apply h t op).2 = .error e ∧ (apply h t op).1 = t) ∨
    ((contents (apply h t op).1).Perm (specApply t.dk t.dv m op).1 ∧
      (apply h t op).2.sim (specApply t.dk t.dv m op).2) := by
  obtain ⟨_, _, _, h4⟩ := step_refines hinv habs op
  rcases h4 with ⟨e, he, _, ht, _⟩ | h5
  · exact Or.inl ⟨e, he, ht⟩
  · exact Or.inr h5

/-- all programs, all hash functions, all initial sizes, all destructor sets: starting from a fresh
table, as long as no operation reports a size overflow, the list of results (was_created, was_present,
found / returned elements, destructor logs) is the reference map's and the final contents are a
permutation of the reference map -/
theorem c02_refines_map (h : Nat → Nat) (size : Nat) (dk dv : Bool) (t : Table) (hi : init size dk dv = .ok t)
    (ops : List Op) (hno : ∀ r ∈ (runModel h t ops).2, isError r = false) :
    (contents (runModel h t ops).1).Perm (runSpec dk dv [] ops).1 ∧
    simList (runModel h t ops).2 (runSpec dk dv [] ops).2 ∧
    (runModel h t ops).1.entryCount = (runSpec dk dv [] ops).1.length := by
  obtain ⟨hinv, hnil⟩ := init_inv h hi
  have habs : (contents t).Perm [] := by rw [contents_eq, hnil]; exact List.Perm.refl _
  have hd : t.dk = dk ∧ t.dv = dv := by
    unfold init at hi
    split at hi
    · cases hi
    · obtain ⟨_, _, _, _, _, a6, a7⟩ := allocState_spec hi
      exact ⟨a6, a7⟩
  obtain ⟨h1, h2⟩ := run_refines ops t [] hinv habs hno
  rw [hd.1, hd.2] at h1 h2
  refine ⟨h1, h2, ?_⟩
  have hfin := (run_inv (h := h) ops t hinv).1
  rw [hfin.1.count, ← h1.length_eq, contents_eq, List.length_map]

/-! ## [B] c02_destructors_once -/

/-- the destructor calls of every step are exactly (as a multiset) those of the reference map, which by
definition (`specApply`) are: on overwrite the old key if it is a different pointer and the old value; on
remove without out-parameter the stored key and value; on clear the key and value of every stored pair;
each only if the respective destructor is installed; nothing for create, find, remove with out-parameter,
remove_element -/
theorem c02_destructors_once (h : Nat → Nat) (t : Table) (m : Spec) (op : Op) (hinv : Inv h t)
    (habs : (contents t).Perm m) :
    (Res.log (apply h t op).2).Perm (Res.log (specApply t.dk t.dv m op).2) := by
  obtain ⟨_, _, _, h4⟩ := step_refines hinv habs op
  rcases h4 with ⟨e, he, _, _, hlog⟩ | ⟨_, hsim⟩
  · rw [he, hlog]; exact List.Perm.refl _
  · unfold Res.sim at hsim
    split at hsim
    · rename_i h1 h2; rw [h1, h2]; exact hsim
    · rw [hsim]

/-! ## [C] c02_iter_once -/

/-- a full `foreach` pass whose callback never stops and never fails (it may ask for deletion, per key)
visits every stored pair exactly once (the visit list is a permutation of the contents at the start), ends
successfully inside its fuel, and leaves exactly the pairs whose callback did not ask for deletion — this
is the `limit` adjustment / `slot - 1` step-back argument of `aws_hash_iter_delete`, for every hash
function and every layout, wrap-around of the backward shift included -/
theorem c02_iter_once (h : Nat → Nat) (t : Table) (flags : Key → Nat) (hinv : Inv h t)
    (hfl : ∀ k, flags k &&& ITER_ERROR = 0 ∧ flags k &&& ITER_CONTINUE ≠ 0) :
    (foreach t flags).rc = none ∧
    (foreach t flags).visits.Perm (contents t) ∧
    (contents (foreach t flags).table).Perm ((contents t).filter fun kv => flags kv.1 &&& ITER_DELETE = 0) :=
  foreach_once hinv flags hfl

/-- whatever the callback answers (stop and error flags included), `foreach` keeps the invariant and the
destructor configuration -/
theorem c02_iter_any_callback (h : Nat → Nat) (t : Table) (flags : Key → Nat) (hinv : Inv h t) :
    Inv h (foreach t flags).table ∧ (foreach t flags).table.dk = t.dk ∧ (foreach t flags).table.dv = t.dv :=
  foreach_inv hinv flags

/-- explicit iterator programs `begin; (look at the element; maybe delete it, with or without destroy_contents;
maybe stop; next)*` with an arbitrary decision at every element (it may depend on everything shown so far):
* the program never runs out of fuel and never meets an iterator without element; the invariant is kept;
* no element is shown twice and only elements present at `begin` are shown (`visits ++ U` is a permutation of
  the initial contents); if the program never stops early, every element present at `begin` is shown exactly once;
* the table afterwards holds exactly the initial contents minus the elements deleted through the iterator,
  and those are elements that were shown;
* the destructor log is exactly the key/value destructors of the deleted elements whose deletion asked for
  `destroy_contents` (each only if installed), in deletion order -/
theorem c02_iter_program (h : Nat → Nat) (t : Table) (hinv : Inv h t)
    (policy : List (Key × Val) → Key × Val → Decision) :
    (iterPass t policy).ok = true ∧ Inv h (iterPass t policy).table ∧
    (iterPass t policy).table.dk = t.dk ∧ (iterPass t policy).table.dv = t.dv ∧
    (∃ U, ((iterPass t policy).visits ++ U).Perm (contents t) ∧
          ((∀ vis kv, (policy vis kv).goOn = true) → U = [])) ∧
    (contents (iterPass t policy).table ++ (iterPass t policy).dels.map (·.1)).Perm (contents t) ∧
    (iterPass t policy).log = (iterPass t policy).dels.flatMap
      (fun d => if d.2 then specDestroy t.dk t.dv d.1 else []) ∧
    ((iterPass t policy).dels.map (·.1)).Sublist (iterPass t policy).visits :=
  iterPass_spec hinv policy

/-- the full-pass corollary: a program that runs until `done` shows every element exactly once -/
theorem c02_iter_program_full (h : Nat → Nat) (t : Table) (hinv : Inv h t)
    (policy : List (Key × Val) → Key × Val → Decision) (hgo : ∀ vis kv, (policy vis kv).goOn = true) :
    (iterPass t policy).visits.Perm (contents t) := by
  obtain ⟨_, _, _, _, ⟨U, hU, hnil⟩, _⟩ := iterPass_spec hinv policy
  rw [hnil hgo, List.append_nil] at hU
  exact hU

/-- `aws_hash_table_foreach` with ANY callback (per-key flag word: continue / delete / stop / error): the return
code is success or `AWS_ERROR_UNKNOWN` (never an exhausted loop budget), the invariant is kept, the visited
prefix has no repeats and consists of initial elements (`visits ++ U` is a permutation of the initial contents;
`U = []` when the callback never stops or fails), and the table afterwards is the initial contents minus the
visited elements whose callback asked for deletion (and did not fail) -/
theorem c02_foreach_any (h : Nat → Nat) (t : Table) (flags : Key → Nat) (hinv : Inv h t) :
    ((foreach t flags).rc = none ∨ (foreach t flags).rc = some .unknown) ∧ Inv h (foreach t flags).table ∧
    (∃ U, ((foreach t flags).visits ++ U).Perm (contents t) ∧
      ((∀ k, flags k &&& ITER_ERROR = 0 ∧ flags k &&& ITER_CONTINUE ≠ 0) → U = [])) ∧
    (contents (foreach t flags).table ++ (foreach t flags).visits.filter (delB flags)).Perm (contents t) :=
  foreach_any hinv flags

/-! ## swap, move, eq -/

/-- `aws_hash_table_swap`: the two handles exchange their tables (contents, sizes, destructor configuration:
the whole state); no destructor runs (there is no log to produce) -/
theorem c02_swap (a b : Option Table) : swapTables a b = (b, a) := rfl

/-- `aws_hash_table_move`: the destination holds the source's table, the source is zeroed; no destructor runs -/
theorem c02_move (src : Option Table) : moveTable src = (src, none) := rfl

/-- `aws_hash_table_eq(a, b, value_eq)` as written (compare the counts, then look every entry of `a` up in `b`
and compare the values through `s_safe_eq_check`) returns true iff the two tables denote the same key→value map
under that value equality — in both directions, although the code only looks from `a` into `b` -/
theorem c02_eq (h : Nat → Nat) (a b : Table) (ha : Inv h a) (hb : Inv h b) (veq : Nat → Nat → Bool) :
    tableEq h veq a b = true ↔ SameMap veq (contents a) (contents b) :=
  tableEq_sameMap ha hb veq

/-- the same, literally what the loop checks -/
theorem c02_eq_as_written (h : Nat → Nat) (a b : Table) (hb : Inv h b) (veq : Nat → Nat → Bool) :
    tableEq h veq a b = true ↔
      a.entryCount = b.entryCount ∧
      ∀ kv ∈ contents a, ∃ kv' ∈ contents b, kv'.1.id = kv.1.id ∧ safeEq veq kv.2 kv'.2 = true :=
  tableEq_iff hb veq

/-! ## [A] c02_hash_eq_consistent -/

/-- `aws_array_eq_ignore_case a b → aws_hash_array_ignore_case a = aws_hash_array_ignore_case b`
(FNV-1a over the generated `s_tolower_table`) -/
theorem c02_hash_eq_consistent (a b : List UInt8) (hab : eqIgnoreCase a b = true) :
    hashIgnoreCase a = hashIgnoreCase b := eq_hash a b hab

/-- the generated `s_tolower_table`, all 256 entries: ASCII `A..Z` ↦ `a..z`, every other byte fixed -/
theorem c02_tolower_table :
    Gen.tolowerTable.toList.map UInt8.toNat =
      (List.range 256).map (fun i => if 65 ≤ i ∧ i ≤ 90 then i + 32 else i) := tolowerTable_ascii

/-- the table's own equality never disagrees with its hash: keys the table identifies get the same hash
code, which is never the empty-slot marker 0 and fits 64 bits -/
theorem c02_hashFor_consistent (h : Nat → Nat) (a b : Key) (hab : keysEq a b = true) :
    hashFor h a = hashFor h b ∧ 0 < hashFor h a ∧ hashFor h a < 2 ^ 64 :=
  ⟨hashFor_congr h ((keysEq_iff a b).1 hab), hashFor_pos h a, hashFor_lt h a⟩

/-- the content hashes (`aws_hash_string`, `aws_hash_byte_cursor_ptr` = `hashBytes`, `aws_hash_c_string` =
`hashCStr`; byte-wise `hashlittle2`) are functions of the key's bytes only: keys identified by the matching
equality callbacks (`aws_hash_callback_string_eq` / cursor equality = same bytes, `aws_hash_callback_c_str_eq` =
same bytes up to the NUL) hash equally; results fit 64 bits; a NUL-free C string hashes like the same bytes as
a string / cursor.  That the C function's 32-bit and 16-bit load paths compute this byte-wise function is
`c02_hashlittle2_any_address` below. -/
theorem c02_content_hash_consistent (a b : List UInt8) :
    (AwsVerif.Lookup3.bytesEq a b = true → AwsVerif.Lookup3.hashBytes a = AwsVerif.Lookup3.hashBytes b) ∧
    (AwsVerif.Lookup3.cstrEq a b = true → AwsVerif.Lookup3.hashCStr a = AwsVerif.Lookup3.hashCStr b) ∧
    AwsVerif.Lookup3.hashBytes a < 2 ^ 64 ∧
    ((∀ x ∈ a, x ≠ 0) → AwsVerif.Lookup3.hashCStr a = AwsVerif.Lookup3.hashBytes a) :=
  ⟨bytesEq_hash a b, cstrEq_hash a b, hashBytes_lt a, hashCStr_eq_hashBytes a⟩

/-- the byte-wise model (with the rotation constants generated from lookup3.inl) reproduces the values printed
in lookup3.c's own self-test `driver5()` -/
theorem c02_lookup3_known_answers :
    AwsVerif.Lookup3.hashlittle2 [] 0 0 = (0xdeadbeef, 0xdeadbeef) ∧
    AwsVerif.Lookup3.hashlittle2 [] 0 0xdeadbeef = (0xbd5b7dde, 0xdeadbeef) ∧
    AwsVerif.Lookup3.hashlittle2 [] 0xdeadbeef 0xdeadbeef = (0x9c093ccd, 0xbd5b7dde) ∧
    AwsVerif.Lookup3.hashlittle2 fourScore 0 0 = (0x17770551, 0xce7226e6) ∧
    AwsVerif.Lookup3.hashlittle2 fourScore 0 1 = (0xe3607cae, 0xbd371de4) ∧
    AwsVerif.Lookup3.hashlittle2 fourScore 1 0 = (0xcd628161, 0x6cbea4b3) := known_answers

/-! ## the alignment paths of `hashlittle2` agree with the byte-wise definition

`Gen/Lookup3Paths.lean` holds, extracted from lookup3.inl on every run, the adds of the block loop and of each
`case` of the tail switch for the three code paths (32-bit loads with the tail masks `&0xff`, `&0xffff`,
`&0xffffff`; 16-bit loads with their `<<16` assembly; byte loads).  `hashlittle2Path` interprets such a table on the
memory that starts at the key pointer: `key ++ after`, where `after` (what lies behind the key, which the 32-bit
path's masked word loads do read) is arbitrary. -/

/-- the 32-bit-load path (key pointer 4-aligned): same `(pc, pb)` as the byte-wise function, for every key, every
length, and every content of the memory behind the key -/
theorem c02_hashlittle2_aligned32 (key after : List UInt8) (pc pb : UInt32) :
    AwsVerif.Lookup3.hashlittle2Path Gen.l3Block32 Gen.l3Tail32 (key ++ after) key.length pc pb =
      AwsVerif.Lookup3.hashlittle2 key pc pb := path32_eq key after pc pb

/-- the 16-bit-load path (key pointer 2-aligned) -/
theorem c02_hashlittle2_aligned16 (key after : List UInt8) (pc pb : UInt32) :
    AwsVerif.Lookup3.hashlittle2Path Gen.l3Block16 Gen.l3Tail16 (key ++ after) key.length pc pb =
      AwsVerif.Lookup3.hashlittle2 key pc pb := path16_eq key after pc pb

/-- the byte-load path as written in the source is the byte-wise model -/
theorem c02_hashlittle2_bytepath (key after : List UInt8) (pc pb : UInt32) :
    AwsVerif.Lookup3.hashlittle2Path Gen.l3Block8 Gen.l3Tail8 (key ++ after) key.length pc pb =
      AwsVerif.Lookup3.hashlittle2 key pc pb := path8_eq key after pc pb

/-- `hashlittle2` as compiled (path chosen by `addr % 4`, `addr % 2`): a function of the key's bytes only — not of
the address, not of the surrounding memory -/
theorem c02_hashlittle2_any_address (addr : Nat) (key after : List UInt8) (pc pb : UInt32) :
    AwsVerif.Lookup3.hashlittle2C addr (key ++ after) key.length pc pb = AwsVerif.Lookup3.hashlittle2 key pc pb :=
  hashlittle2C_eq addr key after pc pb

/-- the second build configuration, `-DVALGRIND`: the 32-bit-load path then uses its byte-exact tail switch
(`Gen.l3Tail32V`, extracted from the `#else` branch); it computes the same byte-wise function (the memory behind
the key is not read by this variant, so `after` plays no role — the statement keeps it only to share its shape) -/
theorem c02_hashlittle2_aligned32_valgrind (key after : List UInt8) (pc pb : UInt32) :
    AwsVerif.Lookup3.hashlittle2Path Gen.l3Block32 Gen.l3Tail32V (key ++ after) key.length pc pb =
      AwsVerif.Lookup3.hashlittle2 key pc pb := path32V_eq key after pc pb

/-- `hashlittle2` as compiled with `-DVALGRIND`, at any address -/
theorem c02_hashlittle2_any_address_valgrind (addr : Nat) (key after : List UInt8) (pc pb : UInt32) :
    AwsVerif.Lookup3.hashlittle2CV addr (key ++ after) key.length pc pb = AwsVerif.Lookup3.hashlittle2 key pc pb :=
  hashlittle2CV_eq addr key after pc pb

/-- non-vacuity for the `-DVALGRIND` tables: a 6-byte and a 31-byte key through the 32-bit path of that variant -/
example :
    AwsVerif.Lookup3.hashlittle2CV 0 (fourScore.take 6 ++ [0xEE]) 6 5 9 = AwsVerif.Lookup3.hashlittle2 (fourScore.take 6) 5 9 ∧
    AwsVerif.Lookup3.hashlittle2CV 4 (fourScore ++ [0x21, 0xEE]) 31 0 0 =
      AwsVerif.Lookup3.hashlittle2 (fourScore ++ [0x21]) 0 0 ∧
    Gen.l3Tail32V ≠ Gen.l3Tail32 := by decide

/-- non-vacuity: the masked word load of the 32-bit path really sees the byte behind a 7-byte key (so the masks
matter), and the theorem's instance on that memory is a concrete equation -/
example :
    AwsVerif.Lookup3.load (fourScore.take 7 ++ [0xEE, 0x01, 0x02]) 4 4 ≠
      AwsVerif.Lookup3.load (fourScore.take 7 ++ [0x00, 0x01, 0x02]) 4 4 ∧
    AwsVerif.Lookup3.hashlittle2C 0 (fourScore.take 7 ++ [0xEE, 0x01, 0x02]) 7 5 9 =
      AwsVerif.Lookup3.hashlittle2 (fourScore.take 7) 5 9 ∧
    AwsVerif.Lookup3.hashlittle2C 2 (fourScore ++ [0xEE]) 30 0 0 = (0x17770551, 0xce7226e6) := by decide

/-! ## the hypotheses are satisfiable by non-trivial states -/

/-- three colliding keys (two with user hash `2^64-1`, one with 3: all at home slot 3 of a 4-slot table,
wrapping around the end of the array) after growth from 2 to 4 slots -/
def exH : Nat → Nat := fun i => if i = 3 then 3 else 2 ^ 64 - 1

def exOps : List Op := [.put (.mk 1 0) (some 1), .put (.mk 2 0) (some 2), .put (.mk 3 0) (some 3), .put (.mk 1 1) (some 4)]

def exT0 : Table :=
  { slots := Array.replicate 2 none, size := 2, entryCount := 0, maxLoad := 1, mask := 1, dk := true, dv := true }

theorem exInit : init 0 true true = .ok exT0 := by rfl

example : Inv exH (runModel exH exT0 exOps).1 ∧
    (runModel exH exT0 exOps).1.size = 4 ∧ (runModel exH exT0 exOps).1.entryCount = 3 ∧
    find exH (runModel exH exT0 exOps).1 (.mk 3 7) = some (.mk 3 0, some 3) ∧
    (runModel exH exT0 exOps).2 = [.put true [], .put true [], .put true [], .put false [Ev.k (.mk 1 0), Ev.v (some 1)]] := by
  refine ⟨(run_inv exOps _ (init_inv exH exInit).1).1, by decide, by decide, by decide, by decide⟩

/-- an explicit iterator program on that table: delete (with destroy_contents) every element whose key identity
is odd, keep the others, run until done — three visits, the two odd keys deleted and destroyed, key 2 left -/
def exPolicy : List (Key × Val) → Key × Val → Decision := fun _ kv =>
  match kv.1 with
  | .mk i _ => { delete := if i % 2 = 1 then some true else none, goOn := true }
  | .null => { delete := none, goOn := true }

example : (iterPass (runModel exH exT0 exOps).1 exPolicy).ok = true ∧
    (iterPass (runModel exH exT0 exOps).1 exPolicy).visits.length = 3 ∧
    contents (iterPass (runModel exH exT0 exOps).1 exPolicy).table = [(.mk 2 0, some 2)] ∧
    (iterPass (runModel exH exT0 exOps).1 exPolicy).log.length = 4 := by decide

/-- the hypotheses of `c02_iter_valid_delete` are met on that table: the first iterator is READY inside the table and its
deletion succeeds -/
example :
    let t := (runModel exH exT0 exOps).1
    (iterBegin t).slot < (iterBegin t).limit ∧ (iterBegin t).limit ≤ t.size ∧ (iterBegin t).status = .ready ∧
    (iterDelete t (iterBegin t) true).isSome = true := by decide

end AwsVerif.Props.C02
