import AwsVerif.Proofs.C18.Order
import AwsVerif.Proofs.C18.Stamp
import AwsVerif.Proofs.C18.Dtor
import AwsVerif.Proofs.C18.ImplRun
import AwsVerif.Gen.CachePolicy
/-!
C18 — linked hash table keeps insertion order; caches evict by their stated policy.

All theorems are about `Model/Lht.lean`.  `run (Cache.init p max kd vd) ops` ranges over every
policy `p` (`.none` = bare linked hash table, `.fifo`, `.lifo`, `.lru`), every capacity `max ≥ 1`,
with (`true`) or without (`false`) key / value destructor, and every history `ops` of
put / find / find-and-move / remove / clear / move-to-end / use-lru / get-mru calls.  Keys are
`(ident, ptr)`: equal-by-comparison keys share `ident`, identical pointers share both.
Vocabulary (`Proofs/C18/Spec.lean`): `Uniq` unique identities; `refStep`/`refPut`/`refDel` the
reference ordered map; `survivors` the insertions of a history not displaced later; `grun` a run
with ghost clocks `putAt` / `usedAt` (time of last insertion / last use of an identity);
`givenVals`/`givenKeys` what a history hands over, `dVals`/`dKeys` what destructors received.
-/
namespace AwsVerif.Props.C18
open AwsVerif.Lht

/-! ### c18_gen_policy — the eviction policy of the model is the one written in the three cache sources -/

/-- what a victim code of `Gen/CachePolicy.lean` selects from the iteration list (front … back) -/
def victimOf (code : Nat) (es : List Entry) : Option Key :=
  if code = 0 then es.head?.map (·.1)
  else if code = 1 then es.dropLast.getLast?.map (·.1)
  else if code = 2 then es.getLast?.map (·.1)
  else none        -- front->prev is the list head sentinel: no element

/-- [A] the model's `evictKey` / overflow test are the ones `s_fifo_cache_put`, `s_lifo_cache_put` and `s_lru_cache_put`
contain (shape and operator re-read from the three sources on every run by `props/c18.py`): FIFO and LRU remove the key of
`aws_linked_list_front(list)`, LIFO that of `aws_linked_list_back(list)->prev`, each exactly when the element count after
the insertion exceeds `max_items`.  So `c18_victim_fifo` / `_lifo` / `_lru` and `c18_bound` speak about the policy as
written. -/
theorem c18_gen_policy (es : List Entry) (count max : Nat) :
    evictKey .fifo es = victimOf AwsVerif.Gen.CachePolicy.fifoVictim es ∧
    evictKey .lifo es = victimOf AwsVerif.Gen.CachePolicy.lifoVictim es ∧
    evictKey .lru es = victimOf AwsVerif.Gen.CachePolicy.lruVictim es ∧
    (AwsVerif.Gen.CachePolicy.fifoOverflows count max = decide (count > max)) ∧
    (AwsVerif.Gen.CachePolicy.lifoOverflows count max = decide (count > max)) ∧
    (AwsVerif.Gen.CachePolicy.lruOverflows count max = decide (count > max)) :=
  ⟨rfl, rfl, rfl, rfl, rfl, rfl⟩

/-! ### c18_order -/

/-- [A] key identities in the table are unique after every history -/
theorem c18_unique (p : Policy) (max : Nat) (kd vd : Bool) (ops : List Op) (h : 1 ≤ max) :
    Uniq (run (Cache.init p max kd vd) ops).table.entries :=
  (reach_inv p h kd vd ops).uniq

/-- [A] the bare linked hash table is the reference ordered map, call by call: after any history
its iteration list is the reference map's (re-insertion moves to the back, find-and-move and
move-to-end move to the back, remove deletes, clear empties). -/
theorem c18_order (max : Nat) (kd vd : Bool) (ops : List Op) (h : 1 ≤ max) :
    (run (Cache.init .none max kd vd) ops).table.entries = ops.foldl refStep [] :=
  run_ref ops (cinv_init .none h kd vd) rfl

/-- [A] iteration order = insertion order: for histories of put / find / remove / clear the
iteration list is exactly the insertions not followed by a re-insertion, removal or clear of the
same identity, in the order they were made, each with the key pointer and value it was made with. -/
theorem c18_order_history (max : Nat) (kd vd : Bool) (ops : List Op) (h : 1 ≤ max)
    (hapi : ∀ op ∈ ops, ApiOp op) :
    (run (Cache.init .none max kd vd) ops).table.entries = survivors ops := by
  rw [c18_order max kd vd ops h, ref_history ops hapi []]
  simp [kept]

/-- [A] `find` agrees with the reference map in every reachable state of every table / cache:
it returns `v` iff some key equal to the probe is stored with `v`, NULL iff no equal key is stored;
and the call's result is that value for every policy (the LRU variant only moves the entry). -/
theorem c18_find (p : Policy) (max : Nat) (kd vd : Bool) (ops : List Op) (h : 1 ≤ max) (i : Nat) :
    let c := run (Cache.init p max kd vd) ops
    (∀ v, c.table.find i = some v ↔ ∃ k, (k, v) ∈ c.table.entries ∧ k.ident = i) ∧
    (c.table.find i = none ↔ ∀ e ∈ c.table.entries, e.1.ident ≠ i) ∧
    (c.step (.find i)).2.1 = c.table.find i := by
  intro c
  have hi : CInv c := reach_inv p h kd vd ops
  refine ⟨fun v => Table.find_eq_some hi.uniq, Table.find_eq_none, ?_⟩
  by_cases hp : c.policy = .lru
  · rw [Cache.step_find_lru hp]
    show (c.table.findMove i).2 = c.table.find i
    unfold Table.find
    cases hl : lookup c.table.entries i with
    | none => rw [Table.findMove_none hl]; rfl
    | some e => rw [Table.findMove_some hl]; rfl
  · rw [Cache.step_find_other hp]

/-- [A] `remove` and `clear` agree with the reference map in every reachable state of every
table / cache. -/
theorem c18_remove_clear (p : Policy) (max : Nat) (kd vd : Bool) (ops : List Op) (h : 1 ≤ max) (i : Nat) :
    let c := run (Cache.init p max kd vd) ops
    (c.step (.remove i)).1.table.entries = refDel c.table.entries i ∧
    (c.step .clear).1.table.entries = [] := by
  intro c
  exact ⟨Table.remove_entries (reach_inv p h kd vd ops).uniq i, rfl⟩

/-! ### c18_bound, c18_retains_new -/

/-- [A] a cache never holds more than `max` entries — after every put, indeed after every call -/
theorem c18_bound (p : Policy) (max : Nat) (kd vd : Bool) (ops : List Op) (h : 1 ≤ max) (hp : p ≠ .none) :
    (run (Cache.init p max kd vd) ops).table.count ≤ max := by
  have hi := reach_inv p h kd vd ops
  have hcfg := run_cfg ops (Cache.init p max kd vd)
  have := hi.bound (by rw [hcfg.1]; exact hp)
  rw [hcfg.2.1] at this
  exact this

/-- [A] the entry just put is present, at the back, with the new key pointer and value -/
theorem c18_retains_new (p : Policy) (max : Nat) (kd vd : Bool) (ops : List Op) (h : 1 ≤ max) (k : Key) (v : Nat) :
    let c' := (run (Cache.init p max kd vd) (ops ++ [.put k v]))
    c'.table.entries.getLast? = some (k, v) ∧ c'.table.find k.ident = some v := by
  intro c'
  have hi' : CInv c' := reach_inv p h kd vd _
  have hlast : c'.table.entries.getLast? = some (k, v) := by
    have hc' : c' = ((run (Cache.init p max kd vd) ops).put k v).1 := by
      show run _ (ops ++ [.put k v]) = _
      have : ∀ (ops : List Op) (c : Cache), run c (ops ++ [.put k v]) = ((run c ops).put k v).1 := by
        intro ops
        induction ops with
        | nil => intro c; rfl
        | cons op ops ih => intro c; exact ih _
      exact this ops _
    rw [hc']
    cases Cache.put_case (reach_inv p h kd vd ops) k v with
    | plain _ he _ => rw [he]; exact List.getLast?_concat
    | front _ _ _ _ _ _ he _ => rw [he]; exact List.getLast?_concat
    | back _ _ _ _ _ _ he _ => rw [he]; exact List.getLast?_concat
  refine ⟨hlast, ?_⟩
  rw [Table.find_eq_some hi'.uniq]
  exact ⟨k, List.mem_of_getLast? hlast, rfl⟩

/-! ### c18_victim -/

/-- [A] no overflow, no eviction: if the identity is already stored or the cache is not full, `put`
is the reference map's put and destroys nothing but what it overwrites. -/
theorem c18_no_eviction (p : Policy) (max : Nat) (kd vd : Bool) (ops : List Op) (h : 1 ≤ max) (k : Key) (v : Nat) :
    let c := run (Cache.init p max kd vd) ops
    ((lookup c.table.entries k.ident).isSome ∨ c.table.entries.length < max ∨ p = .none) →
    (c.put k v).1.table.entries = refPut c.table.entries k v ∧ (c.put k v).2 = (c.table.put k v).2 := by
  intro c hc
  have hi : CInv c := reach_inv p h kd vd ops
  have hcfg := run_cfg ops (Cache.init p max kd vd)
  have := Cache.put_no_evict hi k v (by
    rcases hc with hc | hc | hc
    · exact Or.inr (Or.inl hc)
    · exact Or.inr (Or.inr (by rw [hcfg.2.1]; exact hc))
    · exact Or.inl (by rw [hcfg.1]; exact hc))
  exact ⟨by rw [this.1, Table.put_entries hi.uniq], this.2⟩

/-- [A] FIFO: when a put of a new identity finds the cache full, exactly one entry goes — the
front one, whose last insertion is older than that of every other entry — its key and value are
destroyed, and everything else stays in order with the new entry at the back. -/
theorem c18_victim_fifo (max : Nat) (kd vd : Bool) (ops : List Op) (h : 1 ≤ max) (hapi : ∀ op ∈ ops, ApiOp op)
    (k : Key) (v : Nat) :
    let s := grun (Cache.init .fifo max kd vd) Ghost.init ops
    lookup s.1.table.entries k.ident = none → s.1.table.entries.length = max →
    ∃ e rest, s.1.table.entries = e :: rest ∧
      (s.1.put k v).1.table.entries = rest ++ [(k, v)] ∧
      (s.1.put k v).2 = s.1.table.kev e.1 ++ s.1.table.vev e.2 ∧
      ∀ e' ∈ rest, s.2.putAt e.1.ident < s.2.putAt e'.1.ident := by
  intro s hn hfull
  have hi : CInv s.1 := by rw [grun_fst]; exact reach_inv .fifo h kd vd ops
  have hcfg : SameCfg (Cache.init .fifo max kd vd) s.1 := by rw [grun_fst]; exact run_cfg ops _
  have hst := put_order_run ops (g := Ghost.init) (cinv_init .fifo h kd vd) (by show Policy.fifo ≠ Policy.lru; decide) hapi
    (Stamped.nil _ _)
  obtain ⟨e, rest, hes, he, hev⟩ := Cache.put_evict_front hi k v (Or.inl hcfg.1) hn (by rw [hcfg.2.1]; exact hfull)
  refine ⟨e, rest, hes, he, hev, ?_⟩
  have := hst.sorted
  rw [show (grun (Cache.init .fifo max kd vd) Ghost.init ops).1.table.entries = e :: rest from hes] at this
  exact (List.pairwise_cons.mp this).1

/-- [A] LIFO: on overflow exactly one entry goes — the one at the back before the insertion, whose
last insertion is newer than that of every other entry, i.e. the one inserted immediately before
the new one. -/
theorem c18_victim_lifo (max : Nat) (kd vd : Bool) (ops : List Op) (h : 1 ≤ max) (hapi : ∀ op ∈ ops, ApiOp op)
    (k : Key) (v : Nat) :
    let s := grun (Cache.init .lifo max kd vd) Ghost.init ops
    lookup s.1.table.entries k.ident = none → s.1.table.entries.length = max →
    ∃ e init, s.1.table.entries = init ++ [e] ∧
      (s.1.put k v).1.table.entries = init ++ [(k, v)] ∧
      (s.1.put k v).2 = s.1.table.kev e.1 ++ s.1.table.vev e.2 ∧
      ∀ e' ∈ init, s.2.putAt e'.1.ident < s.2.putAt e.1.ident := by
  intro s hn hfull
  have hi : CInv s.1 := by rw [grun_fst]; exact reach_inv .lifo h kd vd ops
  have hcfg : SameCfg (Cache.init .lifo max kd vd) s.1 := by rw [grun_fst]; exact run_cfg ops _
  have hst := put_order_run ops (g := Ghost.init) (cinv_init .lifo h kd vd) (by show Policy.lifo ≠ Policy.lru; decide) hapi
    (Stamped.nil _ _)
  obtain ⟨e, init, hes, he, hev⟩ := Cache.put_evict_back hi k v hcfg.1 hn (by rw [hcfg.2.1]; exact hfull)
  refine ⟨e, init, hes, he, hev, ?_⟩
  have := hst.sorted
  rw [show (grun (Cache.init .lifo max kd vd) Ghost.init ops).1.table.entries = init ++ [e] from hes] at this
  intro e' he'
  exact (List.pairwise_append.mp this).2.2 e' he' e (by simp)

/-- [A] LRU: on overflow exactly one entry goes — the front one, which is the least recently used,
where insertions, successful lookups, use-lru-element (and explicit moves) all count as use. -/
theorem c18_victim_lru (max : Nat) (kd vd : Bool) (ops : List Op) (h : 1 ≤ max) (k : Key) (v : Nat) :
    let s := grun (Cache.init .lru max kd vd) Ghost.init ops
    lookup s.1.table.entries k.ident = none → s.1.table.entries.length = max →
    ∃ e rest, s.1.table.entries = e :: rest ∧
      (s.1.put k v).1.table.entries = rest ++ [(k, v)] ∧
      (s.1.put k v).2 = s.1.table.kev e.1 ++ s.1.table.vev e.2 ∧
      ∀ e' ∈ rest, s.2.usedAt e.1.ident < s.2.usedAt e'.1.ident := by
  intro s hn hfull
  have hi : CInv s.1 := by rw [grun_fst]; exact reach_inv .lru h kd vd ops
  have hcfg : SameCfg (Cache.init .lru max kd vd) s.1 := by rw [grun_fst]; exact run_cfg ops _
  have hst := lru_run ops (g := Ghost.init) (cinv_init .lru h kd vd) rfl (Stamped.nil _ _)
  obtain ⟨e, rest, hes, he, hev⟩ := Cache.put_evict_front hi k v (Or.inr hcfg.1) hn (by rw [hcfg.2.1]; exact hfull)
  refine ⟨e, rest, hes, he, hev, ?_⟩
  have := hst.sorted
  rw [show (grun (Cache.init .lru max kd vd) Ghost.init ops).1.table.entries = e :: rest from hes] at this
  exact (List.pairwise_cons.mp this).1

/-- [A] LRU: the whole list is ordered by time of last use (so `use_lru_element` returns the least
and `get_mru_element` the most recently used entry's value). -/
theorem c18_lru_order (max : Nat) (kd vd : Bool) (ops : List Op) (h : 1 ≤ max) :
    let s := grun (Cache.init .lru max kd vd) Ghost.init ops
    s.1.table.entries.Pairwise (fun a b => s.2.usedAt a.1.ident < s.2.usedAt b.1.ident) :=
  (lru_run ops (g := Ghost.init) (cinv_init .lru h kd vd) rfl (Stamped.nil _ _)).sorted

/-! ### c18_destructors -/

/-- [A] overwriting: the displaced value is destroyed (once), and the displaced key pointer is
destroyed (once) unless it is the very pointer being re-inserted; nothing else is destroyed. -/
theorem c18_destructors_overwrite (p : Policy) (max : Nat) (kd vd : Bool) (ops : List Op) (h : 1 ≤ max)
    (k k0 : Key) (v v0 : Nat) :
    let c := run (Cache.init p max kd vd) ops
    lookup c.table.entries k.ident = some (k0, v0) →
    (c.put k v).2 = (if vd then [Ev.val v0] else []) ++ (if k0 = k then [] else if kd then [Ev.key k0] else []) := by
  intro c hl
  have hi : CInv c := reach_inv p h kd vd ops
  have hcfg := run_cfg ops (Cache.init p max kd vd)
  have := (Cache.put_no_evict hi k v (Or.inr (Or.inl (by simp [hl])))).2
  rw [this, Table.put_some v hl]
  have h1 : c.table.valDtor = vd := hcfg.2.2.2
  have h2 : c.table.keyDtor = kd := hcfg.2.2.1
  simp only [Table.vev, Table.kev, h1, h2]

/-- [A] exactly once, values: over any history, the values handed to `put` are — as a multiset —
the values still held plus the values the value destructor received.  (Each `put` value is either
still in the table or has been destroyed exactly once, never both, never twice.) -/
theorem c18_destructors (p : Policy) (max : Nat) (kd : Bool) (ops : List Op) (h : 1 ≤ max) :
    let r := runLog (Cache.init p max kd true) ops
    (givenVals ops).Perm (heldVals r.1 ++ dVals r.2) := by
  show (givenVals ops).Perm (heldVals (runLog (Cache.init p max kd true) ops).1 ++
    dVals (runLog (Cache.init p max kd true) ops).2)
  rw [List.perm_iff_count]
  intro x
  have := run_vals ops (cinv_init p h kd true) rfl x
  have h0 : heldVals (Cache.init p max kd true) = [] := rfl
  rw [h0, List.count_nil, Nat.zero_add] at this
  rw [List.count_append]
  exact this

/-- [A] exactly once, key pointers: the key pointers handed over (the key of each `put`, except
when the table already holds that very pointer) are — as a multiset — the key pointers still held
plus those the key destructor received. -/
theorem c18_destructors_keys (p : Policy) (max : Nat) (vd : Bool) (ops : List Op) (h : 1 ≤ max) :
    let r := runLog (Cache.init p max true vd) ops
    (givenKeys (Cache.init p max true vd) ops).Perm (heldKeys r.1 ++ dKeys r.2) := by
  show (givenKeys (Cache.init p max true vd) ops).Perm (heldKeys (runLog (Cache.init p max true vd) ops).1 ++
    dKeys (runLog (Cache.init p max true vd) ops).2)
  rw [List.perm_iff_count]
  intro x
  have := run_keys ops (cinv_init p h true vd) rfl x
  have h0 : heldKeys (Cache.init p max true vd) = [] := rfl
  rw [h0, List.count_nil, Nat.zero_add] at this
  rw [List.count_append]
  exact this

/-- [A] a table created without a key (value) destructor never reports a key (value) destroyed -/
theorem c18_destructors_absent (p : Policy) (max : Nat) (b : Bool) (ops : List Op) :
    dKeys (runLog (Cache.init p max false b) ops).2 = [] ∧ dVals (runLog (Cache.init p max b false) ops).2 = [] :=
  ⟨run_no_keyDtor ops rfl, run_no_valDtor ops rfl⟩


/-! ### the implementation-level model refines the abstract one

`Model/LhtImpl.lean` is `linked_hash_table.c` as written: the C02 hash table (values = node
pointers, `destroy_value_fn` = `s_element_destroy`) plus the C09 intrusive list plus the nodes'
key / value members.  `Coupled h s xs` (`Proofs/C18/ImplInv.lean`): C02's invariant `Inv h s.ht`,
C09's `WellLinked s.heap s.list xs`, the table holds exactly `node.key ↦ node` for the nodes `xs`
of the list, it was created with the user's key destructor and `s_element_destroy`, unallocated
node ids are fresh.  `absTable s xs` = the list's nodes read off as `(key, value)` pairs.
The proofs use `create_spec / replace_inv / find_spec / find_none / remove_spec / clear_spec /
clearLog_eq` (the lemmas behind `c02_refines_map`, `c02_find_sound_complete`,
`c02_destructors_once`) and `ll_remove / ll_pushBack / ll_init / toList_wl` (behind
`c09_ll_refines_seq`, `c09_ll_mirror`) as black boxes. -/
section Impl
open AwsVerif.LhtImpl

/-- [A] `aws_linked_hash_table_init` (when the hash table can be allocated) yields a state coupled
with the empty abstract table, for every hash function -/
theorem c18_impl_init (h : Nat → Nat) (size : Nat) (kd vd : Bool) (s : State) (hi : LhtImpl.init size kd vd = .ok s) :
    Coupled h s [] ∧ absTable s [] = (Cache.init .none 1 kd vd).table :=
  init_coupled h hi

/-- [A] **composition theorem.**  From any coupled state, every implemented call —
`put`, `find`, `find_and_move_to_back`, `remove`, `clear` with any probe pointer, for every user
hash function `h` — never dereferences NULL and is the abstract call of `Model/Lht.lean`: the new
state is coupled again (C02 invariant, well-linked list, table values = list nodes), its abstraction
is the abstract result table, the returned value is the same, and the destructor log is the same
(for `clear`, whose calls come in hash-slot order: the same multiset).  The only other outcome is
`put` reporting the hash table's size overflow, with the abstract state unchanged. -/
theorem c18_impl_refines_lht (h : Nat → Nat) (s : State) (xs : List LhtImpl.NodeId) (hc : Coupled h s xs)
    (max : Nat) (op : IOp) :
    match LhtImpl.step h s op with
    | .crash => False
    | .err s' => (∃ k v, op = .put k v) ∧ Coupled h s' xs ∧ absTable s' xs = absTable s xs
    | .ok s' r evs =>
      ∃ xs', Coupled h s' xs' ∧
        absTable s' xs' = ((bare max (absTable s xs)).step op.abs).1.table ∧
        r = ((bare max (absTable s xs)).step op.abs).2.1 ∧
        evs.Perm ((bare max (absTable s xs)).step op.abs).2.2 ∧
        (op ≠ .clear → evs = ((bare max (absTable s xs)).step op.abs).2.2) := by
  have := step_refines hc max op
  cases hs : LhtImpl.step h s op with
  | crash => rw [hs] at this; exact this
  | err s' =>
    rw [hs] at this
    obtain ⟨h1, h2, h3⟩ := this
    refine ⟨?_, h2, h3⟩
    cases op <;> simp [IOp.isPut] at h1
    exact ⟨_, _, rfl⟩
  | ok s' r evs =>
    rw [hs] at this
    obtain ⟨xs', h1, h2, h3, h4, h5⟩ := this
    refine ⟨xs', h1, h2, h3, h4, fun hne => h5 ?_⟩
    cases op <;> simp [IOp.isClear] at hne ⊢

/-- [A] `aws_linked_hash_table_move_node_to_end_of_list` on a node of the list is the abstract
move-to-end of that node's identity -/
theorem c18_impl_move_to_end (h : Nat → Nat) (s : State) (xs : List LhtImpl.NodeId) (hc : Coupled h s xs)
    (n : LhtImpl.NodeId) (hn : n ∈ xs) :
    ∃ s' xs', LhtImpl.moveToEnd s n = .ok s' () [] ∧ Coupled h s' xs' ∧
      absTable s' xs' = (absTable s xs).moveToEnd (s.nodeKey n).ident :=
  moveToEnd_refines hc hn

/-- [A] in a coupled state the real iteration (walk `table->list` from `head.next` to `tail`, read
each node's key and value) returns the abstract entry list, the backward walk its mirror image
(`c09_ll_mirror`), and `get_element_count` the abstract count -/
theorem c18_impl_iterate (h : Nat → Nat) (s : State) (xs : List LhtImpl.NodeId) (hc : Coupled h s xs) (fuel : Nat)
    (hf : xs.length + 1 ≤ fuel) :
    iterate s fuel = some (absTable s xs).entries ∧ LhtImpl.count s = (absTable s xs).count ∧
    LinkedList.toListRev s.heap s.list fuel = some xs.reverse :=
  ⟨iterate_coupled hc hf, count_coupled hc, AwsVerif.Proofs.C09.toListRev_wl hc.wl hf⟩

/-- [A] whole histories: running any list of calls on a freshly initialised implemented table
either stops at a size-overflow `put` or ends in a coupled state whose abstraction, returned values
and destructor log (as a multiset) are those of the abstract model run on the same history — so
every `c18_*` theorem about `run (Cache.init .none …)` speaks about the implemented table. -/
theorem c18_impl_run (h : Nat → Nat) (size max : Nat) (kd vd : Bool) (s : State) (hi : LhtImpl.init size kd vd = .ok s)
    (ops : List IOp) :
    match runImpl h s ops with
    | .crash => False
    | .err _ => True
    | .ok s' rs evs =>
      ∃ xs', Coupled h s' xs' ∧
        (absTable s' xs').entries = (run (Cache.init .none max kd vd) (ops.map IOp.abs)).table.entries ∧
        rs = (runAll (Cache.init .none max kd vd) (ops.map IOp.abs)).2.1 ∧
        evs.Perm (runAll (Cache.init .none max kd vd) (ops.map IOp.abs)).2.2 := by
  obtain ⟨hc, ha⟩ := init_coupled h hi
  have := run_refines (h := h) max ops hc
  have hb : bare max (absTable s []) = Cache.init .none max kd vd := by rw [ha]; rfl
  rw [hb] at this
  have hfst : ∀ (ops : List Op) (c : Cache), (runAll c ops).1 = run c ops := by
    intro ops
    induction ops with
    | nil => intro c; rfl
    | cons op ops ih => intro c; simp only [runAll, run]; exact ih _
  cases hr : runImpl h s ops with
  | crash => rw [hr] at this; exact this
  | err s' => trivial
  | ok s' rs evs =>
    rw [hr] at this
    obtain ⟨xs', h1, h2, h3, h4⟩ := this
    exact ⟨xs', h1, by rw [h2, hfst], h3, h4⟩

/-- [A] **transferred corollary** (`c18_order`, `c18_order_history` at implementation level): after
any history that did not hit the size overflow, iterating the implemented table's real list yields
exactly the reference ordered map's list — and, for put / find / remove / clear histories, exactly
the insertions not displaced later, in insertion order. -/
theorem c18_impl_order (h : Nat → Nat) (size : Nat) (kd vd : Bool) (s : State) (hi : LhtImpl.init size kd vd = .ok s)
    (ops : List IOp) (s' : State) (rs : List (Option Nat)) (evs : List Ev)
    (hr : runImpl h s ops = .ok s' rs evs) :
    ∃ n, ∀ fuel, n ≤ fuel →
      iterate s' fuel = some ((ops.map IOp.abs).foldl refStep []) ∧
      ((∀ op ∈ ops.map IOp.abs, ApiOp op) → iterate s' fuel = some (survivors (ops.map IOp.abs))) := by
  have := c18_impl_run h size 1 kd vd s hi ops
  rw [hr] at this
  obtain ⟨xs', h1, h2, _, _⟩ := this
  refine ⟨xs'.length + 1, fun fuel hf => ?_⟩
  have hit := iterate_coupled h1 hf
  have : abs s' xs' = (absTable s' xs').entries := rfl
  rw [this, h2] at hit
  exact ⟨by rw [hit, c18_order 1 kd vd _ (Nat.le_refl 1)],
         fun hapi => by rw [hit, c18_order_history 1 kd vd _ (Nat.le_refl 1) hapi]⟩

end Impl

/-! ### Non-vacuity: the hypotheses are met by concrete non-trivial histories -/

/-- LRU of 2: a lookup saves identity 1, identity 2 is evicted (hypotheses of `c18_victim_lru` hold
before the last put: new identity, cache full) -/
example :
    let ops := [Op.put ⟨1, 0⟩ 10, .put ⟨2, 0⟩ 11, .find 1]
    let c := run (Cache.init .lru 2 true true) ops
    lookup c.table.entries 3 = none ∧ c.table.entries.length = 2 ∧
    (c.put ⟨3, 1⟩ 12).1.table.entries = [(⟨1, 0⟩, 10), (⟨3, 1⟩, 12)] ∧
    (c.put ⟨3, 1⟩ 12).2 = [.key ⟨2, 0⟩, .val 11] := by decide

/-- LIFO of 2 evicts the entry inserted immediately before the new one -/
example :
    (run (Cache.init .lifo 2 true true) [.put ⟨1, 0⟩ 10, .put ⟨2, 0⟩ 11, .put ⟨3, 0⟩ 12]).table.entries
      = [(⟨1, 0⟩, 10), (⟨3, 0⟩, 12)] := by decide

/-- FIFO of 2: re-insertion of the would-be victim moves it to the back, so identity 2 goes -/
example :
    (run (Cache.init .fifo 2 true true) [.put ⟨1, 0⟩ 10, .put ⟨2, 0⟩ 11, .put ⟨1, 1⟩ 12, .put ⟨3, 0⟩ 13]).table.entries
      = [(⟨1, 1⟩, 12), (⟨3, 0⟩, 13)] := by decide

/-- overwrite with an equal-but-distinct pointer destroys the old key; with the same pointer it
does not (hypothesis of `c18_destructors_overwrite`) -/
example :
    (runLog (Cache.init .none 4 true true) [.put ⟨1, 0⟩ 10, .put ⟨1, 1⟩ 11, .put ⟨1, 1⟩ 12]).2
      = [.val 10, .key ⟨1, 0⟩, .val 11] := by decide

/-- the ghost clocks record insertions and successful lookups (a miss is not a use) -/
example :
    let s := grun (Cache.init .lru 2 true true) Ghost.init [.put ⟨1, 0⟩ 10, .put ⟨2, 0⟩ 11, .find 1, .find 7]
    s.2.usedAt 1 = 3 ∧ s.2.usedAt 2 = 2 ∧ s.2.putAt 1 = 1 ∧ s.2.putAt 2 = 2 ∧ s.2.clock = 4 ∧
    s.1.table.entries = [(⟨2, 0⟩, 11), (⟨1, 0⟩, 10)] := by decide

/-- `survivors` is not trivially empty -/
example :
    survivors [.put ⟨1, 0⟩ 10, .put ⟨2, 0⟩ 11, .put ⟨1, 1⟩ 12, .remove 2, .put ⟨3, 0⟩ 13]
      = [(⟨1, 1⟩, 12), (⟨3, 0⟩, 13)] := by decide

/-- the implementation-level model on a concrete history (user hash = identity, growth from 2 to 4
slots, overwrite with an equal-but-distinct pointer, find-and-move, remove): it does not crash, the
real list walk gives the expected order, and the hypotheses of `c18_impl_run` / `c18_impl_order`
(`init = .ok`, `runImpl = .ok`) are met -/
def exImplCheck : Bool :=
  match LhtImpl.init 2 true true with
  | .error _ => false
  | .ok s0 =>
    match LhtImpl.runImpl id s0 [.put ⟨1, 0⟩ 10, .put ⟨2, 0⟩ 11, .put ⟨3, 0⟩ 12, .put ⟨1, 1⟩ 13,
                                 .findMove ⟨2, 9⟩, .find ⟨7, 0⟩, .remove ⟨3, 5⟩] with
    | .ok s' rs evs =>
      decide (LhtImpl.iterate s' 10 = some [(⟨1, 1⟩, 13), (⟨2, 0⟩, 11)]) &&
      decide (rs = [none, none, none, none, some 11, none, none]) &&
      decide (evs = [.val 10, .key ⟨1, 0⟩, .key ⟨3, 0⟩, .val 12]) &&
      decide (LhtImpl.count s' = 2)
    | _ => false

example : exImplCheck = true := by decide

end AwsVerif.Props.C18
