import AwsVerif.Proofs.C05.Base64
import AwsVerif.Proofs.C05.Hex
import AwsVerif.Proofs.C05.Utf8
import AwsVerif.Proofs.C05.Utf8Spec
import AwsVerif.Proofs.C05.Avx2DecMain
import AwsVerif.Proofs.C05.Avx2EncMain
import AwsVerif.Proofs.C05.GenBridge
/-!
# C05 — base64, hex and UTF-8 codecs are exact, canonical and CPU-path independent

Theorems about `Model/Codec.lean` (portable code paths of `source/encoding.c`, tables regenerated
from the source on every run) against `Model/CodecSpec.lean` (RFC 4648 / RFC 3629 written from the
RFCs, no table of `/repo`).  "CPU-path independent": `Model/CodecAvx2.lean` is a hand model of
`source/arch/intel/encoding_avx2.c` (intrinsics given their documented meaning — the trusted part;
range constants, shuffle tables and loop bounds regenerated from the source) and the
`c05_b64_avx2_*` theorems prove it equal to the portable model; both models are tied to the two C
builds by the correspondence run.
-/
namespace AwsVerif.Props.C05
open AwsVerif.Codec AwsVerif.CodecSpec AwsVerif.Proofs.C05

/-! ## base64 -/

/-- `aws_base64_compute_encoded_len n` is exactly `4·⌈n/3⌉` when that fits in `size_t`, and
`AWS_ERROR_OVERFLOW_DETECTED` otherwise. -/
theorem c05_b64_len_exact (n : Nat) (hn : n ≤ SIZE_MAX) :
    computeEncodedLen n =
      if 4 * ((n + 2) / 3) ≤ SIZE_MAX then .ok (4 * ((n + 2) / 3)) else .error .overflow := by
  unfold computeEncodedLen wrap SIZE_MAX at *
  by_cases h1 : (n + 2) % 2 ^ 64 < n
  · have : ¬ 4 * ((n + 2) / 3) ≤ 2 ^ 64 - 1 := by omega
    simp [h1, this]
  · have e : (n + 2) % 2 ^ 64 = n + 2 := by omega
    rw [if_neg h1]
    simp only [e]
    by_cases h2 : 4 * ((n + 2) / 3) ≤ 2 ^ 64 - 1
    · have e2 : 4 * ((n + 2) / 3) % 2 ^ 64 = 4 * ((n + 2) / 3) := by omega
      have : ¬ 4 * ((n + 2) / 3) < (n + 2) / 3 := by omega
      simp [h2, e2, this]
    · have : 4 * ((n + 2) / 3) % 2 ^ 64 < (n + 2) / 3 := by omega
      simp [h2, this]

/-- when `aws_base64_encode` succeeds: the bytes it stores at `output->len` are exactly the
RFC 4648 §4 encoding (standard alphabet, '=' padding) and `output->len` grows by their number,
which is `4·⌈n/3⌉` = what `aws_base64_compute_encoded_len` predicts. -/
theorem c05_b64_canonical (bs : List UInt8) (outLen cap : Nat)
    (h : (base64Encode bs outLen cap).err = none) :
    (base64Encode bs outLen cap).wr = specEncode bs ∧
    (base64Encode bs outLen cap).off = outLen ∧
    (base64Encode bs outLen cap).len = outLen + (specEncode bs).length ∧
    computeEncodedLen bs.length = .ok (specEncode bs).length ∧
    outLen + (specEncode bs).length ≤ cap := by
  unfold base64Encode at h ⊢
  cases hc : base64EncodeChecks bs.length outLen cap with
  | error e => simp [hc, Out.fail] at h
  | ok encLen =>
    dsimp only
    unfold base64EncodeChecks at hc
    cases h1 : computeEncodedLen bs.length with
    | error e => simp [h1] at hc
    | ok el =>
      simp only [h1] at hc
      obtain ⟨hel, _⟩ := computeEncodedLen_ok h1
      cases h2 : addSizeChecked outLen el with
      | error e => simp [h2] at hc
      | ok need =>
        simp only [h2] at hc
        have hn : need = outLen + el := by
          unfold addSizeChecked at h2; split at h2 <;> simp at h2; omega
        by_cases h3 : cap < need
        · simp [h3] at hc
        · simp only [h3, if_false, Except.ok.injEq] at hc
          subst hc
          refine ⟨encPad_encBlocks bs, rfl, ?_, ?_, ?_⟩
          · show outLen + el = _
            rw [specEncode_length, hel]
          · rw [specEncode_length, hel]
          · rw [specEncode_length, ← hel]; omega

/-- `aws_base64_encode` succeeds exactly when `len + 4·⌈n/3⌉` fits the capacity. -/
theorem c05_b64_encode_succeeds_iff (bs : List UInt8) (outLen cap : Nat) (hn : bs.length ≤ SIZE_MAX)
    (hcap : cap ≤ SIZE_MAX) :
    (base64Encode bs outLen cap).err = none ↔ outLen + 4 * ((bs.length + 2) / 3) ≤ cap := by
  unfold base64Encode base64EncodeChecks
  rw [c05_b64_len_exact _ hn]
  unfold addSizeChecked
  by_cases h1 : 4 * ((bs.length + 2) / 3) ≤ SIZE_MAX
  · simp only [h1, if_true]
    by_cases h2 : outLen + 4 * ((bs.length + 2) / 3) > SIZE_MAX
    · simp [h2, Out.fail] <;> omega
    · simp only [h2, if_false]
      by_cases h3 : cap < outLen + 4 * ((bs.length + 2) / 3)
      · simp [h3, Out.fail] <;> omega
      · simp [h3] <;> omega
  · simp [h1, Out.fail] <;> omega

/-- `aws_base64_decode t` succeeds with stored bytes `bs` **iff** `t` is the RFC 4648 encoding of
`bs` (and the capacity suffices): nothing but canonical text is accepted (no NUL, no data after
'=', no non-zero trailing bits, no other alphabet), and every canonical text is. -/
theorem c05_b64_strict (t bs : List UInt8) (outLen cap : Nat) :
    ((base64Decode t outLen cap).err = none ∧ (base64Decode t outLen cap).wr = bs) ↔
      (t = specEncode bs ∧ bs.length ≤ cap) := by
  constructor
  · rintro ⟨he, hw⟩
    rcases base64Decode_cases t outLen cap with ⟨bs', ht, hc⟩ | ⟨hne, _⟩
    · subst ht
      rw [base64Decode_canonical bs' outLen cap hc] at hw
      simp only at hw
      subst hw
      exact ⟨rfl, hc⟩
    · exact absurd he hne
  · rintro ⟨ht, hc⟩
    subst ht
    rw [base64Decode_canonical bs outLen cap hc]
    exact ⟨rfl, rfl⟩

/-- base64 encoding followed by decoding returns the original bytes, for every byte string
(and reports exactly their number). -/
theorem c05_b64_roundtrip (bs : List UInt8) (encOutLen encCap outLen cap : Nat)
    (henc : (base64Encode bs encOutLen encCap).err = none) (hcap : bs.length ≤ cap) :
    base64Decode (base64Encode bs encOutLen encCap).wr outLen cap =
      { err := none, len := bs.length, off := 0, wr := bs } := by
  rw [(c05_b64_canonical bs encOutLen encCap henc).1]
  exact base64Decode_canonical bs outLen cap hcap

/-- for *every* text: the decoder stores from offset 0 and never past the capacity; on success the
reported length is exactly the number of bytes stored; a failed call leaves `output->len` alone. -/
theorem c05_b64_len (t : List UInt8) (outLen cap : Nat) :
    (base64Decode t outLen cap).off = 0 ∧ (base64Decode t outLen cap).wr.length ≤ cap ∧
    ((base64Decode t outLen cap).err = none →
      (base64Decode t outLen cap).len = (base64Decode t outLen cap).wr.length) ∧
    ((base64Decode t outLen cap).err ≠ none → (base64Decode t outLen cap).len = outLen) := by
  rcases base64Decode_cases t outLen cap with ⟨bs, ht, hc⟩ | ⟨hne, hl, ho, hw⟩
  · subst ht
    rw [base64Decode_canonical bs outLen cap hc]
    exact ⟨rfl, hc, fun _ => rfl, fun h => absurd rfl h⟩
  · exact ⟨ho, hw, fun h => absurd h hne, fun _ => hl⟩

/-- the hypotheses above are satisfiable by non-trivial data: "foobar" -/
example : (base64Encode [102, 111, 111, 98, 97, 114] 3 11).wr = [90, 109, 57, 118, 89, 109, 70, 121] ∧
    (base64Encode [102, 111, 111, 98, 97, 114] 3 11).err = none ∧
    (base64Decode [90, 109, 57, 118, 89, 109, 70, 121] 0 6).wr = [102, 111, 111, 98, 97, 114] := by decide +kernel

/-- the three classes of text the decoder used to accept before the `fix:` commit are rejected -/
example : (base64Decode [0, 0, 0, 0] 0 3).err = some .invalidBase64 ∧      -- NUL bytes
    (base64Decode [65, 65, 61, 65] 0 3).err = some .invalidBase64 ∧          -- "AA=A": data after padding
    (base64Decode [65, 66, 61, 61] 0 3).err = some .invalidBase64 ∧          -- "AB==": non-zero trailing bits
    (base64Decode [65, 65, 66, 61] 0 3).err = some .invalidBase64 := by decide +kernel

/-! ## hex -/

/-- `aws_hex_compute_encoded_len n = 2n`, `aws_hex_compute_decoded_len n = ⌈n/2⌉`, or overflow
exactly when `2n` resp. `n + 1` does not fit `size_t`. -/
theorem c05_hex_len_exact (n : Nat) (hn : n ≤ SIZE_MAX) :
    hexComputeEncodedLen n = (if 2 * n ≤ SIZE_MAX then .ok (2 * n) else .error .overflow) ∧
    hexComputeDecodedLen n = (if n + 1 ≤ SIZE_MAX then .ok ((n + 1) / 2) else .error .overflow) := by
  unfold hexComputeEncodedLen hexComputeDecodedLen wrap SIZE_MAX at *
  dsimp only
  rw [Nat.shiftLeft_eq, Nat.shiftRight_eq_div_pow]
  constructor
  · by_cases h : 2 * n ≤ 2 ^ 64 - 1
    · have e : n * 2 ^ 1 % 2 ^ 64 = 2 * n := by omega
      rw [e, if_neg (by omega), if_pos h]
    · have e : n * 2 ^ 1 % 2 ^ 64 < n := by omega
      rw [if_pos e, if_neg h]
  · by_cases h : n + 1 ≤ 2 ^ 64 - 1
    · have e : (n + 1) % 2 ^ 64 = n + 1 := by omega
      rw [e, if_neg (by omega), if_pos h]
    · have e : (n + 1) % 2 ^ 64 < n := by omega
      rw [if_pos e, if_neg h]

/-- when `aws_hex_encode` succeeds it stores, from offset 0, exactly the lower-case base16 text
of the input, and sets `output->len` to its length `2n` (≤ capacity). -/
theorem c05_hex_canonical (bs : List UInt8) (outLen cap : Nat) (h : (hexEncode bs outLen cap).err = none) :
    (hexEncode bs outLen cap).wr = specHexEncode bs ∧ (hexEncode bs outLen cap).off = 0 ∧
    (hexEncode bs outLen cap).len = (specHexEncode bs).length ∧ (specHexEncode bs).length = 2 * bs.length ∧
    2 * bs.length ≤ cap := by
  unfold hexEncode at h ⊢
  cases hc : hexEncodeChecks bs.length cap with
  | error e => simp [hc, Out.fail] at h
  | ok encLen =>
    dsimp only
    unfold hexEncodeChecks at hc
    cases h1 : hexComputeEncodedLen bs.length with
    | error e => simp [h1] at hc
    | ok el =>
      simp only [h1] at hc
      have hel : el = 2 * bs.length := by
        unfold hexComputeEncodedLen wrap at h1
        dsimp only at h1
        rw [Nat.shiftLeft_eq] at h1
        split at h1
        · cases h1
        · simp only [Except.ok.injEq] at h1; omega
      by_cases h3 : cap < el
      · simp [h3] at hc
      · simp only [h3, if_false, Except.ok.injEq] at hc
        subst hc
        refine ⟨hexEncBytes_eq bs, rfl, ?_, specHexEncode_length bs, by omega⟩
        show el = _
        rw [specHexEncode_length, hel]

/-- `aws_hex_encode_append_dynamic`, when it succeeds, appends the same text at `output->len`,
adds `2n` to `output->len`, and the capacity afterwards covers it. -/
theorem c05_hex_append_dynamic (bs : List UInt8) (outLen cap : Nat)
    (h : (hexEncodeAppendDynamic bs outLen cap).1.err = none) :
    (hexEncodeAppendDynamic bs outLen cap).1.wr = specHexEncode bs ∧
    (hexEncodeAppendDynamic bs outLen cap).1.off = outLen ∧
    (hexEncodeAppendDynamic bs outLen cap).1.len = outLen + 2 * bs.length ∧
    outLen + 2 * bs.length ≤ (hexEncodeAppendDynamic bs outLen cap).2 := by
  unfold hexEncodeAppendDynamic at h ⊢
  cases hc : hexEncodeAppendDynamicChecks bs.length outLen cap with
  | error e => simp [hc, Out.fail] at h
  | ok r =>
    obtain ⟨encLen, cap'⟩ := r
    dsimp only
    unfold hexEncodeAppendDynamicChecks addSizeChecked at hc
    split at hc
    · cases hc
    · rename_i el h1
      split at h1
      · cases h1
      · simp only [Except.ok.injEq] at h1
        split at hc
        · cases hc
        · rename_i rq h2
          split at h2
          · cases h2
          · simp only [Except.ok.injEq] at h2
            simp only [Except.ok.injEq, Prod.mk.injEq] at hc
            refine ⟨hexEncBytes_eq bs, rfl, ?_, ?_⟩
            · show outLen + encLen = _; omega
            · show _ ≤ cap'
              obtain ⟨_, hc2⟩ := hc
              subst hc2
              split <;> omega

/-- `aws_hex_decode t` succeeds with stored bytes `bs` **iff** every character of `t` is a base16
digit (either case) and `bs` is its big-endian value, a text of odd length being read as if a
'0' were prepended (and the capacity suffices). -/
theorem c05_hex_strict (t bs : List UInt8) (outLen cap : Nat) (hn : t.length < SIZE_MAX) :
    ((hexDecode t outLen cap).err = none ∧ (hexDecode t outLen cap).wr = bs) ↔
      (specHexDecode t = some bs ∧ bs.length ≤ cap) := by
  rw [hexDecode_eq t outLen cap hn, hexDecBytes_eq t]
  by_cases hk : (hexDecBytes t).ok = true
  · have hl := hexDecBytes_ok_len t hk
    rw [if_pos hk, if_pos hk]
    by_cases hc : cap < (t.length + 1) / 2
    · rw [if_pos hc]
      simp only [Out.fail, Option.some.injEq]
      constructor
      · rintro ⟨h, _⟩; cases h
      · rintro ⟨h, h2⟩; subst h; omega
    · rw [if_neg hc]
      simp only [Option.some.injEq, true_and]
      constructor
      · intro h; subst h; exact ⟨rfl, by omega⟩
      · rintro ⟨h, _⟩; exact h
  · rw [if_neg hk, if_neg hk]
    by_cases hc : cap < (t.length + 1) / 2 <;> simp [hc, Out.fail]

/-- the odd-length rule on the code itself: a text of odd length decodes exactly like the same
text with a leading '0'. -/
theorem c05_hex_odd (t : List UInt8) (outLen cap : Nat) (ho : t.length % 2 = 1) (hn : t.length + 1 < SIZE_MAX) :
    hexDecode t outLen cap = hexDecode (48 :: t) outLen cap := by
  have e1 : specHexDecode t = specHexDecode (48 :: t) := by
    unfold specHexDecode
    rw [if_pos ho, if_neg (by simp only [List.length_cons]; omega)]
  have hl : ((48 :: t : List UInt8).length + 1) / 2 = (t.length + 1) / 2 := by
    simp only [List.length_cons]; omega
  have k := hexDecBytes_eq t
  have k' := hexDecBytes_eq (48 :: t)
  rw [e1, k'] at k
  rw [hexDecode_eq t outLen cap (by omega), hexDecode_eq (48 :: t) outLen cap (by simp only [List.length_cons]; omega), hl]
  by_cases hc : cap < (t.length + 1) / 2
  · rw [if_pos hc, if_pos hc]
  · rw [if_neg hc, if_neg hc]
    cases h1 : (hexDecBytes t).ok <;> cases h2 : (hexDecBytes (48 :: t)).ok <;> simp [h1, h2] at k
    · -- both fail: the stores made before the failure are the same as well
      simp only [Bool.false_eq_true, if_false, Out.fail]
      have : (hexDecBytes t).wr = (hexDecBytes (48 :: t)).wr := by
        unfold hexDecBytes at h1 h2 ⊢
        rw [and1] at h1 h2 ⊢
        rw [if_pos (by simp [ho])] at h1 ⊢
        rw [if_neg (by simp only [List.length_cons]; simp; omega)] at h2 ⊢
        cases t with
        | nil => simp at ho
        | cons c rest =>
          dsimp only at h1 ⊢
          simp only [hexPairs, hexVal_eq, specHexVal_zero] at h2 ⊢
          cases hv : specHexVal c with
          | none => simp
          | some l =>
            have hl16 := specHexVal_lt16 hv
            simp only [hv] at h1 h2 ⊢
            have e : l % 256 = l := by omega
            have e2 := hexPair_val 0 (by omega) l hl16
            simp only [Nat.zero_mul, Nat.zero_add] at e2
            rw [e, e2]
      rw [this]
    · simp only [if_true, k]

/-- hex encoding followed by decoding returns the original bytes, for every byte string. -/
theorem c05_hex_roundtrip (bs : List UInt8) (encOutLen encCap outLen cap : Nat)
    (henc : (hexEncode bs encOutLen encCap).err = none) (hcap : bs.length ≤ cap) (hn : 2 * bs.length < SIZE_MAX) :
    hexDecode (hexEncode bs encOutLen encCap).wr outLen cap = { err := none, len := bs.length, off := 0, wr := bs } := by
  rw [(c05_hex_canonical bs encOutLen encCap henc).1]
  have hlen := specHexEncode_length bs
  have hs : specHexDecode (specHexEncode bs) = some bs := by
    unfold specHexDecode
    rw [if_neg (by omega)]
    exact specHexDecode_encode bs
  have h := (c05_hex_strict (specHexEncode bs) bs outLen cap (by omega)).2 ⟨hs, hcap⟩
  rw [hexDecode_eq _ outLen cap (by omega)] at h ⊢
  have hc : ¬ cap < ((specHexEncode bs).length + 1) / 2 := by omega
  rw [if_neg hc] at h ⊢
  by_cases hk : (hexDecBytes (specHexEncode bs)).ok = true
  · rw [if_pos hk] at h ⊢
    simp only [true_and] at h
    rw [h]
    have : ((specHexEncode bs).length + 1) / 2 = bs.length := by omega
    rw [this]
  · rw [if_neg hk] at h
    simp [Out.fail] at h

/-- for *every* text: the hex decoder stores from offset 0 and never past the capacity; on
success the reported length is exactly the number of bytes stored; failure leaves `len` alone. -/
theorem c05_hex_len (t : List UInt8) (outLen cap : Nat) (hn : t.length < SIZE_MAX) :
    (hexDecode t outLen cap).off = 0 ∧ (hexDecode t outLen cap).wr.length ≤ cap ∧
    ((hexDecode t outLen cap).err = none → (hexDecode t outLen cap).len = (hexDecode t outLen cap).wr.length) ∧
    ((hexDecode t outLen cap).err ≠ none → (hexDecode t outLen cap).len = outLen) := by
  rw [hexDecode_eq t outLen cap hn]
  have hw := hexDecBytes_wr_len t
  by_cases hc : cap < (t.length + 1) / 2
  · rw [if_pos hc]; simp [Out.fail]
  · rw [if_neg hc]
    by_cases hk : (hexDecBytes t).ok = true
    · rw [if_pos hk]
      have := hexDecBytes_ok_len t hk
      refine ⟨rfl, by show (hexDecBytes t).wr.length ≤ cap; omega, fun _ => this.symm, fun h => absurd rfl h⟩
    · rw [if_neg hk]
      refine ⟨rfl, by show (hexDecBytes t).wr.length ≤ cap; omega, fun h => by simp [Out.fail] at h, fun _ => rfl⟩

example : (hexEncode [0xde, 0xad, 0x0f] 0 6).wr = [100, 101, 97, 100, 48, 102] ∧
    (hexDecode [68, 69, 97, 100, 48, 70] 0 3).wr = [0xde, 0xad, 0x0f] ∧          -- "DEad0F"
    (hexDecode [102, 48, 70] 0 2).wr = [0x0f, 0x0f] := by decide +kernel         -- "f0F" → 0f 0f

/-! ## UTF-8 -/

/-- for every way of splitting a text into chunks (empty chunks included), feeding the chunks to
`aws_utf8_decoder_update` and then calling `aws_utf8_decoder_finalize` gives the same verdict and
the same list of reported code points as one update with the whole text — and as `aws_decode_utf8`.
Holds from any decoder state `d`. -/
theorem c05_utf8_chunking (d : Utf8) (chunks chunks' : List (List UInt8)) (h : chunks.flatten = chunks'.flatten) :
    runChunks d chunks = runChunks d chunks' ∧ runChunks d chunks = runChunks d [chunks.flatten] ∧
    runChunks Utf8.init chunks = decodeUtf8 chunks.flatten := by
  refine ⟨?_, ?_, ?_⟩
  · rw [runChunks_flatten, runChunks_flatten, h]
  · rw [runChunks_flatten, runChunks_flatten]; simp
  · rw [runChunks_flatten]; unfold decodeUtf8; rfl

/-- the same for a decoder created **without** an `on_codepoint` callback (options NULL): the
verdict of updates-then-finalize is the same for every chunking, from any decoder state, equals the
verdict of the decoder with a callback, and equals `aws_decode_utf8(bytes, NULL)`. -/
theorem c05_utf8_chunking_nocb (d : Utf8) (chunks chunks' : List (List UInt8)) (h : chunks.flatten = chunks'.flatten) :
    runChunksNoCb d chunks = runChunksNoCb d chunks' ∧ runChunksNoCb d chunks = runChunksNoCb d [chunks.flatten] ∧
    runChunksNoCb d chunks = (runChunks d chunks).1 ∧
    runChunksNoCb Utf8.init chunks = decodeUtf8NoCb chunks.flatten ∧
    decodeUtf8NoCb chunks.flatten = (decodeUtf8 chunks.flatten).1 := by
  have k := c05_utf8_chunking d chunks chunks' h
  have k0 := c05_utf8_chunking Utf8.init chunks chunks' h
  refine ⟨?_, ?_, runChunksNoCb_eq _ _, ?_, decodeUtf8NoCb_eq _⟩
  · rw [runChunksNoCb_eq, runChunksNoCb_eq, k.1]
  · rw [runChunksNoCb_eq, runChunksNoCb_eq, ← k.2.1]
  · rw [runChunksNoCb_eq, decodeUtf8NoCb_eq, k0.2.2]

/-- the same when `on_codepoint` fails on its `k`-th call: for every chunking the run stops at the same point, with the
callback's error or the decoder's, having handed over the same code points — and agrees with `aws_decode_utf8`. -/
theorem c05_utf8_chunking_cbfail (k : Nat) (d : Utf8) (chunks chunks' : List (List UInt8)) (h : chunks.flatten = chunks'.flatten) :
    runChunksFail k d chunks = runChunksFail k d chunks' ∧ runChunksFail k d chunks = runChunksFail k d [chunks.flatten] ∧
    runChunksFail k Utf8.init chunks = decodeUtf8Fail k chunks.flatten := by
  refine ⟨?_, ?_, ?_⟩
  · rw [runChunksFail_flatten, runChunksFail_flatten, h]
  · rw [runChunksFail_flatten, runChunksFail_flatten]; simp
  · rw [runChunksFail_flatten]; unfold decodeUtf8Fail; rfl

/-- `aws_utf8_decoder_finalize` leaves a fresh decoder, whatever happened before. -/
theorem c05_utf8_finalize_resets (d : Utf8) : (finalize d).1 = Utf8.init := rfl

/-- "€" split inside the sequence: same verdict and code point as in one piece -/
example : runChunks Utf8.init [[0xE2], [], [0x82, 0xAC]] = (none, [0x20AC]) ∧
    decodeUtf8 [0xE2, 0x82, 0xAC] = (none, [0x20AC]) ∧
    runChunks Utf8.init [[0xE2], [0x82]] = (some .invalidUtf8, []) ∧
    -- lead byte | ASCII | continuation: invalid in one piece and in every chunking, with or without callback
    decodeUtf8NoCb [0xC2, 0x41, 0xA3] = some .invalidUtf8 ∧ runChunksNoCb Utf8.init [[0xC2], [0x41, 0xA3]] = some .invalidUtf8 ∧
    runChunksNoCb Utf8.init [[0xC2], [0xA3, 0x41]] = none := by decide +kernel

/-- `aws_decode_utf8` (hence, by `c05_utf8_chunking`, every chunked run) accepts exactly the texts
of the RFC 3629 §4 grammar *without its U+10FFFF upper bound* (shortest form only, no surrogates,
no truncation, no stray continuation bytes, lead bytes F8..FF rejected), and the code points it
reports are the scalar values of the text. -/
theorem c05_utf8_spec (bs : List UInt8) :
    ((decodeUtf8 bs).1 = none ↔ (specUtf8 true bs).isSome = true) ∧
    (∀ cps, specUtf8 true bs = some cps → decodeUtf8 bs = (none, cps)) := by
  have h := decodeUtf8_spec bs
  cases hs : specUtf8 true bs with
  | none => rw [hs] at h; simp only at h; simp [h]
  | some cps => rw [hs] at h; simp only at h; simp [h]

/-- every text RFC 3629 accepts is accepted, with its scalar values. -/
theorem c05_utf8_accepts_rfc3629 (bs : List UInt8) (cps : List Nat) (h : specUtf8 false bs = some cps) :
    decodeUtf8 bs = (none, cps) :=
  (c05_utf8_spec bs).2 cps (specUtf8Aux_mono _ _ _ h)

/-- the full RFC 3629 statement "accepted ⇒ RFC 3629-valid" -/
def c05_utf8_rfc3629_statement : Prop :=
  ∀ bs : List UInt8, (decodeUtf8 bs).1 = none → (specUtf8 false bs).isSome = true

/-- … is **false for the code as it is**: `aws_utf8_decoder_update` has no check against
U+10FFFF, so F4 90 80 80 is accepted and U+110000 is handed to `on_codepoint` (likewise every
sequence F4 90.. – F7 BF BF BF).  Not part of the property statement of C05 (which only demands
chunking independence); reported as a finding. -/
theorem c05_utf8_not_rfc3629 : ¬ c05_utf8_rfc3629_statement := by
  intro h
  have := h [0xF4, 0x90, 0x80, 0x80] (by decide +kernel)
  revert this
  decide +kernel

example : decodeUtf8 [0xF4, 0x90, 0x80, 0x80] = (none, [0x110000]) ∧ specUtf8 false [0xF4, 0x90, 0x80, 0x80] = none ∧
    decodeUtf8 [0xF4, 0x8F, 0xBF, 0xBF] = (none, [0x10FFFF]) ∧
    (decodeUtf8 [0xED, 0xA0, 0x80]).1 = some .invalidUtf8 ∧ (decodeUtf8 [0xC0, 0x80]).1 = some .invalidUtf8 := by decide +kernel

/-! ## CPU-path independence: the AVX2 path against the portable path -/

/-- for every text, pre-existing `len` and capacity, `aws_base64_decode` through the AVX2 code
(`aws_common_private_base64_decode_sse41`: 32-character vector loop, bounce-buffer tail with 'A'
fill, '=' stripping, trailing-bits check) returns the same code, leaves the same `output->len`,
stores from the same offset and, when it succeeds, stores the same bytes as the portable decoder. -/
theorem c05_b64_avx2_decode_eq_portable (t : List UInt8) (outLen cap : Nat) :
    (AwsVerif.CodecAvx2.base64DecodeAvx2 t outLen cap).err = (base64Decode t outLen cap).err ∧
    (AwsVerif.CodecAvx2.base64DecodeAvx2 t outLen cap).len = (base64Decode t outLen cap).len ∧
    (AwsVerif.CodecAvx2.base64DecodeAvx2 t outLen cap).off = (base64Decode t outLen cap).off ∧
    ((base64Decode t outLen cap).err = none →
      (AwsVerif.CodecAvx2.base64DecodeAvx2 t outLen cap).wr = (base64Decode t outLen cap).wr) :=
  base64DecodeAvx2_eq t outLen cap

/-- hence strictness transfers: the AVX2 path accepts exactly the canonical encodings. -/
theorem c05_b64_avx2_strict (t bs : List UInt8) (outLen cap : Nat) :
    ((AwsVerif.CodecAvx2.base64DecodeAvx2 t outLen cap).err = none ∧
      (AwsVerif.CodecAvx2.base64DecodeAvx2 t outLen cap).wr = bs) ↔ (t = specEncode bs ∧ bs.length ≤ cap) := by
  obtain ⟨he, _, _, hw⟩ := base64DecodeAvx2_eq t outLen cap
  rw [← c05_b64_strict t bs outLen cap, he]
  constructor
  · rintro ⟨h1, h2⟩; exact ⟨h1, by rw [← hw h1]; exact h2⟩
  · rintro ⟨h1, h2⟩; exact ⟨h1, by rw [hw h1]; exact h2⟩

/-- `aws_base64_encode` through the AVX2 code (`aws_common_private_base64_encode_sse41`: full-vector
loop with 8 bytes of over-read, bounce-buffer loop, '=' stores) has exactly the effect of the
portable encoder: same code, `len`, offset and bytes — for every input, `len` and capacity. -/
theorem c05_b64_avx2_encode_eq_portable (bs : List UInt8) (outLen cap : Nat) :
    AwsVerif.CodecAvx2.base64EncodeAvx2 bs outLen cap = base64Encode bs outLen cap :=
  base64EncodeAvx2_eq bs outLen cap

/-- per-byte facts of the vector translations, all 256 bytes enumerated: `decode_vec` accepts exactly
the 64 alphabet bytes (value + 1; 0 = failed lane, in particular for '=' and for every byte ≥ 0x80 —
the range test is the unsigned `min_epu8` idiom, no signed compare), `encode_chars` is the alphabet. -/
theorem c05_b64_avx2_lanes :
    (∀ c, c < 256 → AwsVerif.CodecAvx2.decodeLane c =
      (match decVal (UInt8.ofNat c) false with | some v => v + 1 | none => 0)) ∧
    (∀ i, i < 64 → AwsVerif.CodecAvx2.encodeLane i = (ch i).toNat) :=
  ⟨decodeLane_table, encodeLane_table⟩

example : (AwsVerif.CodecAvx2.base64DecodeAvx2 ((List.replicate 40 65) ++ [90, 109, 56, 61]) 0 32).wr =
      List.replicate 30 0 ++ [102, 111] ∧
    (AwsVerif.CodecAvx2.base64DecodeAvx2 [65, 66, 61, 61] 0 3).err = some .invalidBase64 := by decide +kernel

/-! ## bridge: model = layer generated from the current `source/encoding.c` (gen/codec_gen.py → `Gen/CodecFns.lean`) -/

/-- the three length functions of the model are the functions translated from the source (5 = AWS_ERROR_OVERFLOW_DETECTED),
and `aws_base64_compute_decoded_len` (9 = AWS_ERROR_INVALID_BASE64_STR) with the two characters it reads as parameters -/
theorem c05_gen_lengths (n : Nat) (t : List UInt8) (hl : t.length < 2 ^ 64) :
    AwsVerif.Gen.CodecFns.aws_base64_compute_encoded_len n = resOf (computeEncodedLen n) 5 ∧
    AwsVerif.Gen.CodecFns.aws_hex_compute_encoded_len n = resOf (hexComputeEncodedLen n) 5 ∧
    AwsVerif.Gen.CodecFns.aws_hex_compute_decoded_len n = resOf (hexComputeDecodedLen n) 5 ∧
    AwsVerif.Gen.CodecFns.verif_c05_declen t.length (t.getD (t.length - 1) 0).toNat (t.getD (t.length - 2) 0).toNat =
      resOf (computeDecodedLen t) 9 :=
  ⟨gen_b64_encoded_len n, gen_hex_encoded_len n, gen_hex_decoded_len n, gen_b64_decoded_len t hl⟩

/-- portable base64 encoder: one loop iteration through the generated block assembly (`i+1 < len`, `i+2 < len` as flags) and
the four generated table indices; block_count, remainder_count, the offsets and the character of the padding stores -/
theorem c05_gen_b64_encode (b0 b1 b2 : Nat) (h1 h2 : Bool) (n outLen : Nat) (hn : n + 2 < 2 ^ 64)
    (hb : outLen + (n + 2) / 3 * 4 < 2 ^ 64) (hpos : n > 0) :
    encQuad b0 (if h1 then b1 else 0) (if h2 then b2 else 0) =
      (let blk := AwsVerif.Gen.CodecFns.verif_c05_enc_block b0 b1 b2 (if h1 then 1 else 0) (if h2 then 1 else 0)
       [encChar (AwsVerif.Gen.CodecFns.verif_c05_enc_idx0 blk), encChar (AwsVerif.Gen.CodecFns.verif_c05_enc_idx1 blk),
        encChar (AwsVerif.Gen.CodecFns.verif_c05_enc_idx2 blk), encChar (AwsVerif.Gen.CodecFns.verif_c05_enc_idx3 blk)]) ∧
    AwsVerif.Gen.CodecFns.verif_c05_block_count n = (n + 2) / 3 ∧ AwsVerif.Gen.CodecFns.verif_c05_remainder n = n % 3 ∧
    AwsVerif.Gen.CodecFns.verif_c05_pad_idx1 outLen (AwsVerif.Gen.CodecFns.verif_c05_block_count n) = outLen + ((n + 2) / 3 * 4 - 1) ∧
    AwsVerif.Gen.CodecFns.verif_c05_pad_idx2 outLen (AwsVerif.Gen.CodecFns.verif_c05_block_count n) = outLen + ((n + 2) / 3 * 4 - 2) ∧
    AwsVerif.Gen.CodecFns.verif_c05_pad_char1 = 61 ∧ AwsVerif.Gen.CodecFns.verif_c05_pad_char2 = 61 :=
  ⟨gen_encQuad b0 b1 b2 h1 h2, gen_encPad n outLen hn hb hpos⟩

/-- portable base64 decoder: acceptance test of `s_base64_get_decoded_value` on the table value, the three output-byte
expressions (identical in body loop and final quantum — checked by the generator), the two trailing-bits tests, the
"not in the alphabet" marker -/
theorem c05_gen_b64_decode (c : UInt8) (s : Bool) (v1 v2 v3 v4 : Nat) (h1 : v1 < 256) (h2 : v2 < 256) :
    decVal c s = (if AwsVerif.Gen.CodecFns.verif_c05_accept (tbl AwsVerif.Gen.CodecTables.base64DecodingTable c.toNat) (if s then 1 else 0)
      then some (tbl AwsVerif.Gen.CodecTables.base64DecodingTable c.toNat) else none) ∧
    (dec0 v1 v2).toNat = AwsVerif.Gen.CodecFns.verif_c05_dec0 v1 v2 ∧ (dec1 v2 v3).toNat = AwsVerif.Gen.CodecFns.verif_c05_dec1 v2 v3 ∧
    (dec2 v3 v4).toNat = AwsVerif.Gen.CodecFns.verif_c05_dec2 v3 v4 ∧
    ((v2 &&& 0x0F) != 0) = AwsVerif.Gen.CodecFns.verif_c05_trail2 v2 ∧ ((v3 &&& 0x03) != 0) = AwsVerif.Gen.CodecFns.verif_c05_trail3 v3 ∧
    AwsVerif.Gen.CodecFns.invalidMarker = 0xDD :=
  ⟨gen_decVal c s, gen_dec0 v1 v2 h1, gen_dec1 v2 v3 h2, gen_dec2 v3 v4, (gen_trail v2).1, (gen_trail v3).2, gen_invalidMarker⟩

/-- hex: the two digit indices (same text in aws_hex_encode and aws_hex_encode_append_dynamic — checked by the generator), the
pair combination of aws_hex_decode, and `s_hex_decode_char_to_int` as translated from the source on all 256 bytes -/
theorem c05_gen_hex (b h l : Nat) :
    ((b >>> 4) &&& 0x0f = AwsVerif.Gen.CodecFns.verif_c05_hex_idx0 b ∧ b &&& 0x0f = AwsVerif.Gen.CodecFns.verif_c05_hex_idx1 b) ∧
    (((h <<< 4) % 256) ||| l) % 256 = AwsVerif.Gen.CodecFns.verif_c05_hex_pair h l ∧
    (∀ c, c < 256 → hexVal (UInt8.ofNat c) =
      (if (AwsVerif.Gen.CodecFns.s_hex_decode_char_to_int c true).1 = 0 then some (AwsVerif.Gen.CodecFns.s_hex_decode_char_to_int c true).2 else none)) :=
  ⟨gen_hex_idx b, gen_hex_pair h l, gen_hexVal⟩

/-- UTF-8: one step of the decoder through the generated lead-byte classification (remaining / codepoint / min per branch),
continuation test, accumulation, overlong and surrogate tests; finalize's verdict -/
theorem c05_gen_utf8 (d : Utf8) (b : UInt8) :
    (d.remaining = 0 → updateByte d b =
      if AwsVerif.Gen.CodecFns.verif_c05_utf8_lead_remaining b.toNat = 255 then (d, some .invalidUtf8, none)
      else ({ remaining := AwsVerif.Gen.CodecFns.verif_c05_utf8_lead_remaining b.toNat,
              codepoint := AwsVerif.Gen.CodecFns.verif_c05_utf8_lead_codepoint b.toNat,
              min := AwsVerif.Gen.CodecFns.verif_c05_utf8_lead_min b.toNat }, none,
            if AwsVerif.Gen.CodecFns.verif_c05_utf8_lead_remaining b.toNat = 0 then
              some (AwsVerif.Gen.CodecFns.verif_c05_utf8_lead_codepoint b.toNat) else none)) ∧
    (d.remaining ≠ 0 → updateByte d b =
      if AwsVerif.Gen.CodecFns.verif_c05_utf8_not_cont b.toNat then (d, some .invalidUtf8, none) else
      let cp := AwsVerif.Gen.CodecFns.verif_c05_utf8_accum d.codepoint b.toNat
      let d' : Utf8 := { d with codepoint := cp, remaining := d.remaining - 1 }
      if d.remaining - 1 = 0 then
        if AwsVerif.Gen.CodecFns.verif_c05_utf8_overlong cp d.min then (d', some .invalidUtf8, none)
        else if AwsVerif.Gen.CodecFns.verif_c05_utf8_surrogate cp then (d', some .invalidUtf8, none)
        else (d', none, some cp)
      else (d', none, none)) ∧
    (finalize d).2 = (if d.remaining = 0 then none else some .invalidUtf8) :=
  ⟨fun h => gen_utf8_lead d h b, fun h => gen_utf8_cont d h b, gen_utf8_finalize d⟩

end AwsVerif.Props.C05
