import AwsVerif.Gen.Math
import AwsVerif.Model.MathAsm
/-!
# C16 — overflow-checked arithmetic and time-unit conversion are exact or flagged

Theorems about the definitions in `AwsVerif/Gen/Math.lean`, which `gen/math_gen.py` regenerates
from `/repo/include/aws/common/{math.inl, math.fallback.inl, math.gcc_overflow.inl,
math.gcc_builtin.inl, clock.inl}` on every run.  C integers are `Nat`s below `2^w`.
`5` is `AWS_ERROR_OVERFLOW_DETECTED` (the generator reads the value from the headers).
-/
namespace AwsVerif.Props.C16
open AwsVerif AwsVerif.Gen.Math AwsVerif.CSem

/-- mathematical specification of a checked operation whose exact result is `r` in a `w`-bit type -/
def checked (w : Nat) (r : Nat) : Res := if r < 2^w then .ok r else .err 5
/-- mathematical specification of a saturating operation -/
def saturating (w : Nat) (r : Nat) : Nat := if r < 2^w then r else 2^w - 1

/-! ## multiply -/

theorem fallback_mul_u64_checked (a b : Nat) (ha : a < 2^64) (hb : b < 2^64) :
    Fallback.aws_mul_u64_checked a b = checked 64 (a * b) := by
  unfold Fallback.aws_mul_u64_checked checked
  by_cases hb0 : b = 0
  · subst hb0; simp
  by_cases ha0 : a = 0
  · subst ha0; simp
  have hbp : 0 < b := Nat.pos_of_ne_zero hb0
  have hap : 0 < a := Nat.pos_of_ne_zero ha0
  have key : (a > 18446744073709551615 / b) ↔ 18446744073709551615 < a * b := Nat.div_lt_iff_lt_mul hbp
  by_cases h : a * b < 2^64
  · have : ¬ (18446744073709551615 < a * b) := by omega
    simp [hap, hbp, key, this, h, Nat.mod_eq_of_lt h]
  · have : (18446744073709551615 < a * b) := by omega
    simp [hap, hbp, key, this, h]

theorem fallback_mul_u32_checked (a b : Nat) (ha : a < 2^32) (hb : b < 2^32) :
    Fallback.aws_mul_u32_checked a b = checked 32 (a * b) := by
  unfold Fallback.aws_mul_u32_checked checked
  by_cases hb0 : b = 0
  · subst hb0; simp
  by_cases ha0 : a = 0
  · subst ha0; simp
  have hbp : 0 < b := Nat.pos_of_ne_zero hb0
  have hap : 0 < a := Nat.pos_of_ne_zero ha0
  have key : (a > 4294967295 / b) ↔ 4294967295 < a * b := Nat.div_lt_iff_lt_mul hbp
  by_cases h : a * b < 2^32
  · have : ¬ (4294967295 < a * b) := by omega
    simp [hap, hbp, key, this, h, Nat.mod_eq_of_lt h]
  · have : (4294967295 < a * b) := by omega
    simp [hap, hbp, key, this, h]

theorem fallback_mul_u64_saturating (a b : Nat) (ha : a < 2^64) (hb : b < 2^64) :
    Fallback.aws_mul_u64_saturating a b = saturating 64 (a * b) := by
  unfold Fallback.aws_mul_u64_saturating saturating
  by_cases hb0 : b = 0
  · subst hb0; simp
  by_cases ha0 : a = 0
  · subst ha0; simp
  have hbp : 0 < b := Nat.pos_of_ne_zero hb0
  have hap : 0 < a := Nat.pos_of_ne_zero ha0
  have key : (a > 18446744073709551615 / b) ↔ 18446744073709551615 < a * b := Nat.div_lt_iff_lt_mul hbp
  by_cases h : a * b < 2^64
  · have : ¬ (18446744073709551615 < a * b) := by omega
    simp [hap, hbp, key, this, h, Nat.mod_eq_of_lt h]
  · have : (18446744073709551615 < a * b) := by omega
    simp [hap, hbp, key, this, h]

theorem fallback_mul_u32_saturating (a b : Nat) (ha : a < 2^32) (hb : b < 2^32) :
    Fallback.aws_mul_u32_saturating a b = saturating 32 (a * b) := by
  unfold Fallback.aws_mul_u32_saturating saturating
  by_cases hb0 : b = 0
  · subst hb0; simp
  by_cases ha0 : a = 0
  · subst ha0; simp
  have hbp : 0 < b := Nat.pos_of_ne_zero hb0
  have hap : 0 < a := Nat.pos_of_ne_zero ha0
  have key : (a > 4294967295 / b) ↔ 4294967295 < a * b := Nat.div_lt_iff_lt_mul hbp
  by_cases h : a * b < 2^32
  · have : ¬ (4294967295 < a * b) := by omega
    simp [hap, hbp, key, this, h, Nat.mod_eq_of_lt h]
  · have : (4294967295 < a * b) := by omega
    simp [hap, hbp, key, this, h]

theorem overflow_mul_u64_checked (a b : Nat) : Overflow.aws_mul_u64_checked a b = checked 64 (a * b) := by
  unfold Overflow.aws_mul_u64_checked checked
  by_cases h : a * b < 2^64
  · simp [h, Nat.mod_eq_of_lt h] <;> omega
  · simp [h] <;> omega

theorem overflow_mul_u32_checked (a b : Nat) : Overflow.aws_mul_u32_checked a b = checked 32 (a * b) := by
  unfold Overflow.aws_mul_u32_checked checked
  by_cases h : a * b < 2^32
  · simp [h, Nat.mod_eq_of_lt h] <;> omega
  · simp [h] <;> omega

theorem overflow_mul_u64_saturating (a b : Nat) : Overflow.aws_mul_u64_saturating a b = saturating 64 (a * b) := by
  unfold Overflow.aws_mul_u64_saturating saturating
  by_cases h : a * b < 2^64
  · simp [h, Nat.mod_eq_of_lt h] <;> omega
  · simp [h] <;> omega

theorem overflow_mul_u32_saturating (a b : Nat) : Overflow.aws_mul_u32_saturating a b = saturating 32 (a * b) := by
  unfold Overflow.aws_mul_u32_saturating saturating
  by_cases h : a * b < 2^32
  · simp [h, Nat.mod_eq_of_lt h] <;> omega
  · simp [h] <;> omega

/-! ## add -/

theorem fallback_add_u64_checked (a b : Nat) (ha : a < 2^64) (hb : b < 2^64) :
    Fallback.aws_add_u64_checked a b = checked 64 (a + b) := by
  unfold Fallback.aws_add_u64_checked checked
  split <;> split <;> simp_all <;> omega

theorem fallback_add_u32_checked (a b : Nat) (ha : a < 2^32) (hb : b < 2^32) :
    Fallback.aws_add_u32_checked a b = checked 32 (a + b) := by
  unfold Fallback.aws_add_u32_checked checked
  split <;> split <;> simp_all <;> omega

theorem fallback_add_u64_saturating (a b : Nat) (ha : a < 2^64) (hb : b < 2^64) :
    Fallback.aws_add_u64_saturating a b = saturating 64 (a + b) := by
  unfold Fallback.aws_add_u64_saturating saturating
  split <;> split <;> simp_all <;> omega

theorem fallback_add_u32_saturating (a b : Nat) (ha : a < 2^32) (hb : b < 2^32) :
    Fallback.aws_add_u32_saturating a b = saturating 32 (a + b) := by
  unfold Fallback.aws_add_u32_saturating saturating
  split <;> split <;> simp_all <;> omega

theorem overflow_add_u64_checked (a b : Nat) : Overflow.aws_add_u64_checked a b = checked 64 (a + b) := by
  unfold Overflow.aws_add_u64_checked checked
  by_cases h : a + b < 2^64
  · simp [h, Nat.mod_eq_of_lt h] <;> omega
  · simp [h] <;> omega

theorem overflow_add_u32_checked (a b : Nat) : Overflow.aws_add_u32_checked a b = checked 32 (a + b) := by
  unfold Overflow.aws_add_u32_checked checked
  by_cases h : a + b < 2^32
  · simp [h, Nat.mod_eq_of_lt h] <;> omega
  · simp [h] <;> omega

theorem overflow_add_u64_saturating (a b : Nat) : Overflow.aws_add_u64_saturating a b = saturating 64 (a + b) := by
  unfold Overflow.aws_add_u64_saturating saturating
  by_cases h : a + b < 2^64
  · simp [h, Nat.mod_eq_of_lt h] <;> omega
  · simp [h] <;> omega

theorem overflow_add_u32_saturating (a b : Nat) : Overflow.aws_add_u32_saturating a b = saturating 32 (a + b) := by
  unfold Overflow.aws_add_u32_saturating saturating
  by_cases h : a + b < 2^32
  · simp [h, Nat.mod_eq_of_lt h] <;> omega
  · simp [h] <;> omega

/-! ## subtract (math.inl) -/

theorem sub_u64_checked (a b : Nat) (ha : a < 2^64) (hb : b < 2^64) :
    MathInl.aws_sub_u64_checked a b = if b ≤ a then .ok (a - b) else .err 5 := by
  unfold MathInl.aws_sub_u64_checked
  split <;> split <;> simp_all <;> omega

theorem sub_u32_checked (a b : Nat) (ha : a < 2^32) (hb : b < 2^32) :
    MathInl.aws_sub_u32_checked a b = if b ≤ a then .ok (a - b) else .err 5 := by
  unfold MathInl.aws_sub_u32_checked
  split <;> split <;> simp_all <;> omega

/-- saturating subtraction is truncated subtraction: exact, or zero -/
theorem sub_u64_saturating (a b : Nat) (ha : a < 2^64) (hb : b < 2^64) :
    MathInl.aws_sub_u64_saturating a b = a - b := by
  unfold MathInl.aws_sub_u64_saturating
  split <;> omega

theorem sub_u32_saturating (a b : Nat) (ha : a < 2^32) (hb : b < 2^32) :
    MathInl.aws_sub_u32_saturating a b = a - b := by
  unfold MathInl.aws_sub_u32_saturating
  split <;> omega

/-! ## size_t forms (64-bit target) are the u64 forms of the configured variant -/

theorem add_size_checked (a b : Nat) : MathInl.aws_add_size_checked a b = checked 64 (a + b) := by
  unfold MathInl.aws_add_size_checked; exact overflow_add_u64_checked a b
theorem add_size_saturating (a b : Nat) : MathInl.aws_add_size_saturating a b = saturating 64 (a + b) := by
  unfold MathInl.aws_add_size_saturating; exact overflow_add_u64_saturating a b
theorem mul_size_checked (a b : Nat) : MathInl.aws_mul_size_checked a b = checked 64 (a * b) := by
  unfold MathInl.aws_mul_size_checked; exact overflow_mul_u64_checked a b
theorem mul_size_saturating (a b : Nat) : MathInl.aws_mul_size_saturating a b = saturating 64 (a * b) := by
  unfold MathInl.aws_mul_size_saturating; exact overflow_mul_u64_saturating a b
theorem sub_size_checked (a b : Nat) (ha : a < 2^64) (hb : b < 2^64) :
    MathInl.aws_sub_size_checked a b = if b ≤ a then .ok (a - b) else .err 5 := by
  unfold MathInl.aws_sub_size_checked; exact sub_u64_checked a b ha hb
theorem sub_size_saturating (a b : Nat) (ha : a < 2^64) (hb : b < 2^64) :
    MathInl.aws_sub_size_saturating a b = a - b := by
  unfold MathInl.aws_sub_size_saturating; exact sub_u64_saturating a b ha hb

/-! ## the x86-64 assembly variant (hand model) -/

theorem asm_mul_u64_checked (a b : Nat) : MathAsm.aws_mul_u64_checked a b = checked 64 (a * b) := by
  unfold MathAsm.aws_mul_u64_checked MathAsm.mulw checked
  by_cases h : a * b < 2^64
  · simp [h, Nat.mod_eq_of_lt h, Nat.div_eq_of_lt h]
  · have : (a * b) / 2^64 ≠ 0 := by
      intro h0; rcases (Nat.div_eq_zero_iff).1 h0 with h1 | h1 <;> omega
    simp [h, this]
theorem asm_mul_u32_checked (a b : Nat) : MathAsm.aws_mul_u32_checked a b = checked 32 (a * b) := by
  unfold MathAsm.aws_mul_u32_checked MathAsm.mulw checked
  by_cases h : a * b < 2^32
  · simp [h, Nat.mod_eq_of_lt h, Nat.div_eq_of_lt h]
  · have : (a * b) / 2^32 ≠ 0 := by
      intro h0; rcases (Nat.div_eq_zero_iff).1 h0 with h1 | h1 <;> omega
    simp [h, this]
theorem asm_mul_u64_saturating (a b : Nat) : MathAsm.aws_mul_u64_saturating a b = saturating 64 (a * b) := by
  unfold MathAsm.aws_mul_u64_saturating MathAsm.mulw saturating
  by_cases h : a * b < 2^64
  · simp [h, Nat.mod_eq_of_lt h, Nat.div_eq_of_lt h]
  · have : (a * b) / 2^64 ≠ 0 := by
      intro h0; rcases (Nat.div_eq_zero_iff).1 h0 with h1 | h1 <;> omega
    simp [h, this]
theorem asm_mul_u32_saturating (a b : Nat) : MathAsm.aws_mul_u32_saturating a b = saturating 32 (a * b) := by
  unfold MathAsm.aws_mul_u32_saturating MathAsm.mulw saturating
  by_cases h : a * b < 2^32
  · simp [h, Nat.mod_eq_of_lt h, Nat.div_eq_of_lt h]
  · have : (a * b) / 2^32 ≠ 0 := by
      intro h0; rcases (Nat.div_eq_zero_iff).1 h0 with h1 | h1 <;> omega
    simp [h, this]
theorem asm_add_u64_checked (a b : Nat) : MathAsm.aws_add_u64_checked a b = checked 64 (a + b) := by
  unfold MathAsm.aws_add_u64_checked MathAsm.addw checked
  by_cases h : a + b < 2^64
  · simp [h, Nat.mod_eq_of_lt h] <;> omega
  · simp [h] <;> omega
theorem asm_add_u32_checked (a b : Nat) : MathAsm.aws_add_u32_checked a b = checked 32 (a + b) := by
  unfold MathAsm.aws_add_u32_checked MathAsm.addw checked
  by_cases h : a + b < 2^32
  · simp [h, Nat.mod_eq_of_lt h] <;> omega
  · simp [h] <;> omega
theorem asm_add_u64_saturating (a b : Nat) : MathAsm.aws_add_u64_saturating a b = saturating 64 (a + b) := by
  unfold MathAsm.aws_add_u64_saturating MathAsm.addw saturating
  by_cases h : a + b < 2^64
  · simp [h, Nat.mod_eq_of_lt h] <;> omega
  · simp [h] <;> omega
theorem asm_add_u32_saturating (a b : Nat) : MathAsm.aws_add_u32_saturating a b = saturating 32 (a + b) := by
  unfold MathAsm.aws_add_u32_saturating MathAsm.addw saturating
  by_cases h : a + b < 2^32
  · simp [h, Nat.mod_eq_of_lt h] <;> omega
  · simp [h] <;> omega

/-! ## every implementation variant gives identical answers -/

theorem variants_agree_u64 (a b : Nat) (ha : a < 2^64) (hb : b < 2^64) :
    Fallback.aws_mul_u64_checked a b = Overflow.aws_mul_u64_checked a b ∧
    Overflow.aws_mul_u64_checked a b = MathAsm.aws_mul_u64_checked a b ∧
    Fallback.aws_mul_u64_saturating a b = Overflow.aws_mul_u64_saturating a b ∧
    Overflow.aws_mul_u64_saturating a b = MathAsm.aws_mul_u64_saturating a b ∧
    Fallback.aws_add_u64_checked a b = Overflow.aws_add_u64_checked a b ∧
    Overflow.aws_add_u64_checked a b = MathAsm.aws_add_u64_checked a b ∧
    Fallback.aws_add_u64_saturating a b = Overflow.aws_add_u64_saturating a b ∧
    Overflow.aws_add_u64_saturating a b = MathAsm.aws_add_u64_saturating a b := by
  simp only [fallback_mul_u64_checked a b ha hb, overflow_mul_u64_checked, asm_mul_u64_checked,
    fallback_mul_u64_saturating a b ha hb, overflow_mul_u64_saturating, asm_mul_u64_saturating,
    fallback_add_u64_checked a b ha hb, overflow_add_u64_checked, asm_add_u64_checked,
    fallback_add_u64_saturating a b ha hb, overflow_add_u64_saturating, asm_add_u64_saturating, and_self]

theorem variants_agree_u32 (a b : Nat) (ha : a < 2^32) (hb : b < 2^32) :
    Fallback.aws_mul_u32_checked a b = Overflow.aws_mul_u32_checked a b ∧
    Overflow.aws_mul_u32_checked a b = MathAsm.aws_mul_u32_checked a b ∧
    Fallback.aws_mul_u32_saturating a b = Overflow.aws_mul_u32_saturating a b ∧
    Overflow.aws_mul_u32_saturating a b = MathAsm.aws_mul_u32_saturating a b ∧
    Fallback.aws_add_u32_checked a b = Overflow.aws_add_u32_checked a b ∧
    Overflow.aws_add_u32_checked a b = MathAsm.aws_add_u32_checked a b ∧
    Fallback.aws_add_u32_saturating a b = Overflow.aws_add_u32_saturating a b ∧
    Overflow.aws_add_u32_saturating a b = MathAsm.aws_add_u32_saturating a b := by
  simp only [fallback_mul_u32_checked a b ha hb, overflow_mul_u32_checked, asm_mul_u32_checked,
    fallback_mul_u32_saturating a b ha hb, overflow_mul_u32_saturating, asm_mul_u32_saturating,
    fallback_add_u32_checked a b ha hb, overflow_add_u32_checked, asm_add_u32_checked,
    fallback_add_u32_saturating a b ha hb, overflow_add_u32_saturating, asm_add_u32_saturating, and_self]

/-! ## min / max (unsigned: on values; signed: on the two's-complement value `sval`) -/

/-- value of a `w`-bit two's-complement representation -/
def sval (w : Nat) (a : Nat) : Int := if a < 2^(w-1) then (a : Int) else (a : Int) - 2^w

theorem min_max_u64 (a b : Nat) : MathInl.aws_min_u64 a b = min a b ∧ MathInl.aws_max_u64 a b = max a b := by
  unfold MathInl.aws_min_u64 MathInl.aws_max_u64; constructor <;> split <;> omega
theorem min_max_u32 (a b : Nat) : MathInl.aws_min_u32 a b = min a b ∧ MathInl.aws_max_u32 a b = max a b := by
  unfold MathInl.aws_min_u32 MathInl.aws_max_u32; constructor <;> split <;> omega
theorem min_max_size (a b : Nat) : MathInl.aws_min_size a b = min a b ∧ MathInl.aws_max_size a b = max a b := by
  unfold MathInl.aws_min_size MathInl.aws_max_size; constructor <;> split <;> omega
theorem min_max_u16 (a b : Nat) (ha : a < 2^16) (hb : b < 2^16) :
    MathInl.aws_min_u16 a b = min a b ∧ MathInl.aws_max_u16 a b = max a b := by
  unfold MathInl.aws_min_u16 MathInl.aws_max_u16; constructor <;> split <;> omega
theorem min_max_u8 (a b : Nat) (ha : a < 2^8) (hb : b < 2^8) :
    MathInl.aws_min_u8 a b = min a b ∧ MathInl.aws_max_u8 a b = max a b := by
  unfold MathInl.aws_min_u8 MathInl.aws_max_u8; constructor <;> split <;> omega

theorem min_max_i64 (a b : Nat) (ha : a < 2^64) (hb : b < 2^64) :
    sval 64 (MathInl.aws_min_i64 a b) = min (sval 64 a) (sval 64 b) ∧
    sval 64 (MathInl.aws_max_i64 a b) = max (sval 64 a) (sval 64 b) ∧
    (MathInl.aws_min_i64 a b = a ∨ MathInl.aws_min_i64 a b = b) ∧ (MathInl.aws_max_i64 a b = a ∨ MathInl.aws_max_i64 a b = b) := by
  unfold MathInl.aws_min_i64 MathInl.aws_max_i64 sval
  refine ⟨?_, ?_, ?_, ?_⟩ <;> (repeat' split) <;> omega
theorem min_max_i32 (a b : Nat) (ha : a < 2^32) (hb : b < 2^32) :
    sval 32 (MathInl.aws_min_i32 a b) = min (sval 32 a) (sval 32 b) ∧
    sval 32 (MathInl.aws_max_i32 a b) = max (sval 32 a) (sval 32 b) ∧
    sval 32 (MathInl.aws_min_int a b) = min (sval 32 a) (sval 32 b) ∧
    sval 32 (MathInl.aws_max_int a b) = max (sval 32 a) (sval 32 b) := by
  unfold MathInl.aws_min_i32 MathInl.aws_max_i32 MathInl.aws_min_int MathInl.aws_max_int sval
  refine ⟨?_, ?_, ?_, ?_⟩ <;> (repeat' split) <;> omega
theorem min_max_i16 (a b : Nat) (ha : a < 2^16) (hb : b < 2^16) :
    sval 16 (MathInl.aws_min_i16 a b) = min (sval 16 a) (sval 16 b) ∧
    sval 16 (MathInl.aws_max_i16 a b) = max (sval 16 a) (sval 16 b) := by
  unfold MathInl.aws_min_i16 MathInl.aws_max_i16 sval
  refine ⟨?_, ?_⟩ <;> (repeat' split) <;> omega
theorem min_max_i8 (a b : Nat) (ha : a < 2^8) (hb : b < 2^8) :
    sval 8 (MathInl.aws_min_i8 a b) = min (sval 8 a) (sval 8 b) ∧
    sval 8 (MathInl.aws_max_i8 a b) = max (sval 8 a) (sval 8 b) := by
  unfold MathInl.aws_min_i8 MathInl.aws_max_i8 sval
  refine ⟨?_, ?_⟩ <;> (repeat' split) <;> omega

/-! ## time-unit conversion (clock.inl) -/

theorem sat_lt {w r : Nat} (h : r < 2^w) : saturating w r = r := by simp [saturating, h]
theorem sat_ge {w r : Nat} (h : ¬ r < 2^w) : saturating w r = 2^w - 1 := by simp [saturating, h]

/-- the arithmetic core of `aws_timestamp_convert_u64` -/
theorem convert_core (t o n : Nat) (ht : t < 2^64) (ho : 0 < o) (ho9 : o ≤ 10^9) (hn9 : n ≤ 10^9) :
    Overflow.aws_add_u64_saturating (Overflow.aws_mul_u64_saturating (t / o) n)
      (Overflow.aws_mul_u64_saturating ((t + 18446744073709551616 - ((t / o * o) % 18446744073709551616)) % 18446744073709551616) n / o)
    = saturating 64 (t * n / o) := by
  have hq : t / o * o ≤ t := Nat.div_mul_le_self t o
  have hr : (t + 18446744073709551616 - ((t / o * o) % 18446744073709551616)) % 18446744073709551616 = t % o := by
    have h1 : (t / o * o) % 18446744073709551616 = t / o * o := Nat.mod_eq_of_lt (by omega)
    have h2 : t % o = t - t / o * o := by
      have := Nat.div_add_mod t o
      rw [Nat.mul_comm] at this; omega
    rw [h1, h2]; omega
  rw [hr, overflow_add_u64_saturating, overflow_mul_u64_saturating, overflow_mul_u64_saturating]
  have hro : t % o < o := Nat.mod_lt _ ho
  have hrn : t % o * n < 2^64 := by
    have : t % o * n ≤ 10^9 * 10^9 := Nat.mul_le_mul (by omega) hn9
    have : (10:Nat)^9 * 10^9 < 2^64 := by decide
    omega
  rw [sat_lt hrn]
  have hsplit : t * n / o = t / o * n + t % o * n / o := by
    have h := Nat.div_add_mod t o
    have : t * n = o * (t / o * n) + t % o * n := by
      calc t * n = (o * (t / o) + t % o) * n := by rw [h]
        _ = o * (t / o * n) + t % o * n := by rw [Nat.add_mul, Nat.mul_assoc]
    rw [this, Nat.mul_add_div ho]
  rw [hsplit]
  generalize t / o * n = X
  generalize t % o * n / o = Y
  by_cases hw : X < 2^64
  · rw [sat_lt hw]
  · rw [sat_ge hw]
    have h1 : ¬ (X + Y < 2^64) := by omega
    rw [sat_ge h1]
    by_cases h2 : 2^64 - 1 + Y < 2^64
    · rw [sat_lt h2]; omega
    · rw [sat_ge h2]

/-- documented remainder: `ticks mod (old/new)` when going to a coarser unit that divides the old one, else 0 -/
def convRemainder (t o n : Nat) : Nat := if n < o ∧ o % n = 0 then t % (o / n) else 0

theorem timestamp_convert_u64 (t o n : Nat) (ht : t < 2^64) (ho : 0 < o) (hn : 0 < n) (ho9 : o ≤ 10^9) (hn9 : n ≤ 10^9) :
    Clock.aws_timestamp_convert_u64 t o n true = some (saturating 64 (t * n / o), convRemainder t o n) ∧
    Clock.aws_timestamp_convert_u64 t o n false = some (saturating 64 (t * n / o), 0) := by
  have core := convert_core t o n ht ho ho9 hn9
  unfold Clock.aws_timestamp_convert_u64 convRemainder
  have hpos : ¬ ¬ (o > 0 ∧ n > 0) := by simp; omega
  constructor
  · simp only [hpos, if_false, if_true]
    by_cases h1 : n < o
    · by_cases h2 : o % n = 0
      · simp [h1, h2, core]
      · simp [h1, h2, core]
    · simp [h1, core]
  · simp [hpos, core]

/-- the four timestamp units are the frequencies 1, 10^3, 10^6, 10^9 -/
theorem timestamp_convert_units (t o n : Nat) (ht : t < 2^64)
    (ho : o = 1 ∨ o = 1000 ∨ o = 1000000 ∨ o = 1000000000) (hn : n = 1 ∨ n = 1000 ∨ n = 1000000 ∨ n = 1000000000) :
    Clock.aws_timestamp_convert t o n true = some (saturating 64 (t * n / o), convRemainder t o n) := by
  unfold Clock.aws_timestamp_convert
  exact (timestamp_convert_u64 t o n ht (by omega) (by omega) (by omega) (by omega)).1

example : Clock.aws_timestamp_convert_u64 1500 1000 1 true = some (1, 500) := by decide
example : Clock.aws_timestamp_convert_u64 (2^64 - 1) 1 1000000000 true = some (2^64 - 1, 0) := by decide

/-! non-vacuity: the hypotheses are met at interesting operands -/
example : Fallback.aws_mul_u64_checked (2^32) (2^32) = .err 5 ∧ Fallback.aws_mul_u64_checked (2^32) (2^32 - 1) = .ok (2^64 - 2^32) := by decide
example : MathInl.aws_min_i8 255 1 = 255 ∧ sval 8 255 = -1 := by decide

end AwsVerif.Props.C16
