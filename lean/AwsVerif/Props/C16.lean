import AwsVerif.Gen.Math
import AwsVerif.Model.MathAsm
import AwsVerif.Gen.MathAsmShapes
import AwsVerif.Proofs.C16.Bits
import AwsVerif.Proofs.C16.Varargs
/-!
# C16 — overflow-checked arithmetic and time-unit conversion are exact or flagged

Theorems about the definitions in `AwsVerif/Gen/Math.lean`, which `gen/math_gen.py` regenerates
from `/repo/include/aws/common/{math.inl, math.fallback.inl, math.gcc_overflow.inl,
math.gcc_builtin.inl, clock.inl}` on every run.  C integers are `Nat`s below `2^w`.
`5` is `AWS_ERROR_OVERFLOW_DETECTED` (the generator reads the value from the headers).
-/
namespace AwsVerif.Props.C16
open AwsVerif AwsVerif.Gen.Math AwsVerif.CSem

/-- mathematical specification of a checked operation whose exact result is `r` in a `w`-bit type -/
def checked (w : Nat) (r : Nat) : Res := if r < 2^w then .ok r else .err 5
/-- mathematical specification of a saturating operation -/
def saturating (w : Nat) (r : Nat) : Nat := if r < 2^w then r else 2^w - 1

/-! ## multiply -/

theorem fallback_mul_u64_checked (a b : Nat) (ha : a < 2^64) (hb : b < 2^64) :
    Fallback.aws_mul_u64_checked a b = checked 64 (a * b) := by
  unfold Fallback.aws_mul_u64_checked checked
  by_cases hb0 : b = 0
  · subst hb0; simp
  by_cases ha0 : a = 0
  · subst ha0; simp
  have hbp : 0 < b := Nat.pos_of_ne_zero hb0
  have hap : 0 < a := Nat.pos_of_ne_zero ha0
  have key : (a > 18446744073709551615 / b) ↔ 18446744073709551615 < a * b := Nat.div_lt_iff_lt_mul hbp
  by_cases h : a * b < 2^64
  · have : ¬ (18446744073709551615 < a * b) := by omega
    simp [hap, hbp, key, this, h, Nat.mod_eq_of_lt h]
  · have : (18446744073709551615 < a * b) := by omega
    simp [hap, hbp, key, this, h]

theorem fallback_mul_u32_checked (a b : Nat) (ha : a < 2^32) (hb : b < 2^32) :
    Fallback.aws_mul_u32_checked a b = checked 32 (a * b) := by
  unfold Fallback.aws_mul_u32_checked checked
  by_cases hb0 : b = 0
  · subst hb0; simp
  by_cases ha0 : a = 0
  · subst ha0; simp
  have hbp : 0 < b := Nat.pos_of_ne_zero hb0
  have hap : 0 < a := Nat.pos_of_ne_zero ha0
  have key : (a > 4294967295 / b) ↔ 4294967295 < a * b := Nat.div_lt_iff_lt_mul hbp
  by_cases h : a * b < 2^32
  · have : ¬ (4294967295 < a * b) := by omega
    simp [hap, hbp, key, this, h, Nat.mod_eq_of_lt h]
  · have : (4294967295 < a * b) := by omega
    simp [hap, hbp, key, this, h]

theorem fallback_mul_u64_saturating (a b : Nat) (ha : a < 2^64) (hb : b < 2^64) :
    Fallback.aws_mul_u64_saturating a b = saturating 64 (a * b) := by
  unfold Fallback.aws_mul_u64_saturating saturating
  by_cases hb0 : b = 0
  · subst hb0; simp
  by_cases ha0 : a = 0
  · subst ha0; simp
  have hbp : 0 < b := Nat.pos_of_ne_zero hb0
  have hap : 0 < a := Nat.pos_of_ne_zero ha0
  have key : (a > 18446744073709551615 / b) ↔ 18446744073709551615 < a * b := Nat.div_lt_iff_lt_mul hbp
  by_cases h : a * b < 2^64
  · have : ¬ (18446744073709551615 < a * b) := by omega
    simp [hap, hbp, key, this, h, Nat.mod_eq_of_lt h]
  · have : (18446744073709551615 < a * b) := by omega
    simp [hap, hbp, key, this, h]

theorem fallback_mul_u32_saturating (a b : Nat) (ha : a < 2^32) (hb : b < 2^32) :
    Fallback.aws_mul_u32_saturating a b = saturating 32 (a * b) := by
  unfold Fallback.aws_mul_u32_saturating saturating
  by_cases hb0 : b = 0
  · subst hb0; simp
  by_cases ha0 : a = 0
  · subst ha0; simp
  have hbp : 0 < b := Nat.pos_of_ne_zero hb0
  have hap : 0 < a := Nat.pos_of_ne_zero ha0
  have key : (a > 4294967295 / b) ↔ 4294967295 < a * b := Nat.div_lt_iff_lt_mul hbp
  by_cases h : a * b < 2^32
  · have : ¬ (4294967295 < a * b) := by omega
    simp [hap, hbp, key, this, h, Nat.mod_eq_of_lt h]
  · have : (4294967295 < a * b) := by omega
    simp [hap, hbp, key, this, h]

theorem overflow_mul_u64_checked (a b : Nat) : Overflow.aws_mul_u64_checked a b = checked 64 (a * b) := by
  unfold Overflow.aws_mul_u64_checked checked
  by_cases h : a * b < 2^64
  · simp [h, Nat.mod_eq_of_lt h] <;> omega
  · simp [h] <;> omega

theorem overflow_mul_u32_checked (a b : Nat) : Overflow.aws_mul_u32_checked a b = checked 32 (a * b) := by
  unfold Overflow.aws_mul_u32_checked checked
  by_cases h : a * b < 2^32
  · simp [h, Nat.mod_eq_of_lt h] <;> omega
  · simp [h] <;> omega

theorem overflow_mul_u64_saturating (a b : Nat) : Overflow.aws_mul_u64_saturating a b = saturating 64 (a * b) := by
  unfold Overflow.aws_mul_u64_saturating saturating
  by_cases h : a * b < 2^64
  · simp [h, Nat.mod_eq_of_lt h] <;> omega
  · simp [h] <;> omega

theorem overflow_mul_u32_saturating (a b : Nat) : Overflow.aws_mul_u32_saturating a b = saturating 32 (a * b) := by
  unfold Overflow.aws_mul_u32_saturating saturating
  by_cases h : a * b < 2^32
  · simp [h, Nat.mod_eq_of_lt h] <;> omega
  · simp [h] <;> omega

/-! ## add -/

theorem fallback_add_u64_checked (a b : Nat) (ha : a < 2^64) (hb : b < 2^64) :
    Fallback.aws_add_u64_checked a b = checked 64 (a + b) := by
  unfold Fallback.aws_add_u64_checked checked
  split <;> split <;> simp_all <;> omega

theorem fallback_add_u32_checked (a b : Nat) (ha : a < 2^32) (hb : b < 2^32) :
    Fallback.aws_add_u32_checked a b = checked 32 (a + b) := by
  unfold Fallback.aws_add_u32_checked checked
  split <;> split <;> simp_all <;> omega

theorem fallback_add_u64_saturating (a b : Nat) (ha : a < 2^64) (hb : b < 2^64) :
    Fallback.aws_add_u64_saturating a b = saturating 64 (a + b) := by
  unfold Fallback.aws_add_u64_saturating saturating
  split <;> split <;> simp_all <;> omega

theorem fallback_add_u32_saturating (a b : Nat) (ha : a < 2^32) (hb : b < 2^32) :
    Fallback.aws_add_u32_saturating a b = saturating 32 (a + b) := by
  unfold Fallback.aws_add_u32_saturating saturating
  split <;> split <;> simp_all <;> omega

theorem overflow_add_u64_checked (a b : Nat) : Overflow.aws_add_u64_checked a b = checked 64 (a + b) := by
  unfold Overflow.aws_add_u64_checked checked
  by_cases h : a + b < 2^64
  · simp [h, Nat.mod_eq_of_lt h] <;> omega
  · simp [h] <;> omega

theorem overflow_add_u32_checked (a b : Nat) : Overflow.aws_add_u32_checked a b = checked 32 (a + b) := by
  unfold Overflow.aws_add_u32_checked checked
  by_cases h : a + b < 2^32
  · simp [h, Nat.mod_eq_of_lt h] <;> omega
  · simp [h] <;> omega

theorem overflow_add_u64_saturating (a b : Nat) : Overflow.aws_add_u64_saturating a b = saturating 64 (a + b) := by
  unfold Overflow.aws_add_u64_saturating saturating
  by_cases h : a + b < 2^64
  · simp [h, Nat.mod_eq_of_lt h] <;> omega
  · simp [h] <;> omega

theorem overflow_add_u32_saturating (a b : Nat) : Overflow.aws_add_u32_saturating a b = saturating 32 (a + b) := by
  unfold Overflow.aws_add_u32_saturating saturating
  by_cases h : a + b < 2^32
  · simp [h, Nat.mod_eq_of_lt h] <;> omega
  · simp [h] <;> omega

/-! ## subtract (math.inl) -/

theorem sub_u64_checked (a b : Nat) (ha : a < 2^64) (hb : b < 2^64) :
    MathInl.aws_sub_u64_checked a b = if b ≤ a then .ok (a - b) else .err 5 := by
  unfold MathInl.aws_sub_u64_checked
  split <;> split <;> simp_all <;> omega

theorem sub_u32_checked (a b : Nat) (ha : a < 2^32) (hb : b < 2^32) :
    MathInl.aws_sub_u32_checked a b = if b ≤ a then .ok (a - b) else .err 5 := by
  unfold MathInl.aws_sub_u32_checked
  split <;> split <;> simp_all <;> omega

/-- saturating subtraction is truncated subtraction: exact, or zero -/
theorem sub_u64_saturating (a b : Nat) (ha : a < 2^64) (hb : b < 2^64) :
    MathInl.aws_sub_u64_saturating a b = a - b := by
  unfold MathInl.aws_sub_u64_saturating
  split <;> omega

theorem sub_u32_saturating (a b : Nat) (ha : a < 2^32) (hb : b < 2^32) :
    MathInl.aws_sub_u32_saturating a b = a - b := by
  unfold MathInl.aws_sub_u32_saturating
  split <;> omega

/-! ## size_t forms (64-bit target) are the u64 forms of the configured variant -/

theorem add_size_checked (a b : Nat) : MathInl.aws_add_size_checked a b = checked 64 (a + b) := by
  unfold MathInl.aws_add_size_checked; exact overflow_add_u64_checked a b
theorem add_size_saturating (a b : Nat) : MathInl.aws_add_size_saturating a b = saturating 64 (a + b) := by
  unfold MathInl.aws_add_size_saturating; exact overflow_add_u64_saturating a b
theorem mul_size_checked (a b : Nat) : MathInl.aws_mul_size_checked a b = checked 64 (a * b) := by
  unfold MathInl.aws_mul_size_checked; exact overflow_mul_u64_checked a b
theorem mul_size_saturating (a b : Nat) : MathInl.aws_mul_size_saturating a b = saturating 64 (a * b) := by
  unfold MathInl.aws_mul_size_saturating; exact overflow_mul_u64_saturating a b
theorem sub_size_checked (a b : Nat) (ha : a < 2^64) (hb : b < 2^64) :
    MathInl.aws_sub_size_checked a b = if b ≤ a then .ok (a - b) else .err 5 := by
  unfold MathInl.aws_sub_size_checked; exact sub_u64_checked a b ha hb
theorem sub_size_saturating (a b : Nat) (ha : a < 2^64) (hb : b < 2^64) :
    MathInl.aws_sub_size_saturating a b = a - b := by
  unfold MathInl.aws_sub_size_saturating; exact sub_u64_saturating a b ha hb

/-! ## the x86-64 assembly variant (hand model) -/

theorem asm_mul_u64_checked (a b : Nat) : MathAsm.aws_mul_u64_checked a b = checked 64 (a * b) := by
  unfold MathAsm.aws_mul_u64_checked MathAsm.mulw checked
  by_cases h : a * b < 2^64
  · simp [h, Nat.mod_eq_of_lt h, Nat.div_eq_of_lt h]
  · have : (a * b) / 2^64 ≠ 0 := by
      intro h0; rcases (Nat.div_eq_zero_iff).1 h0 with h1 | h1 <;> omega
    simp [h, this]
theorem asm_mul_u32_checked (a b : Nat) : MathAsm.aws_mul_u32_checked a b = checked 32 (a * b) := by
  unfold MathAsm.aws_mul_u32_checked MathAsm.mulw checked
  by_cases h : a * b < 2^32
  · simp [h, Nat.mod_eq_of_lt h, Nat.div_eq_of_lt h]
  · have : (a * b) / 2^32 ≠ 0 := by
      intro h0; rcases (Nat.div_eq_zero_iff).1 h0 with h1 | h1 <;> omega
    simp [h, this]
theorem asm_mul_u64_saturating (a b : Nat) : MathAsm.aws_mul_u64_saturating a b = saturating 64 (a * b) := by
  unfold MathAsm.aws_mul_u64_saturating MathAsm.mulw saturating
  by_cases h : a * b < 2^64
  · simp [h, Nat.mod_eq_of_lt h, Nat.div_eq_of_lt h]
  · have : (a * b) / 2^64 ≠ 0 := by
      intro h0; rcases (Nat.div_eq_zero_iff).1 h0 with h1 | h1 <;> omega
    simp [h, this]
theorem asm_mul_u32_saturating (a b : Nat) : MathAsm.aws_mul_u32_saturating a b = saturating 32 (a * b) := by
  unfold MathAsm.aws_mul_u32_saturating MathAsm.mulw saturating
  by_cases h : a * b < 2^32
  · simp [h, Nat.mod_eq_of_lt h, Nat.div_eq_of_lt h]
  · have : (a * b) / 2^32 ≠ 0 := by
      intro h0; rcases (Nat.div_eq_zero_iff).1 h0 with h1 | h1 <;> omega
    simp [h, this]
theorem asm_add_u64_checked (a b : Nat) : MathAsm.aws_add_u64_checked a b = checked 64 (a + b) := by
  unfold MathAsm.aws_add_u64_checked MathAsm.addw checked
  by_cases h : a + b < 2^64
  · simp [h, Nat.mod_eq_of_lt h] <;> omega
  · simp [h] <;> omega
theorem asm_add_u32_checked (a b : Nat) : MathAsm.aws_add_u32_checked a b = checked 32 (a + b) := by
  unfold MathAsm.aws_add_u32_checked MathAsm.addw checked
  by_cases h : a + b < 2^32
  · simp [h, Nat.mod_eq_of_lt h] <;> omega
  · simp [h] <;> omega
theorem asm_add_u64_saturating (a b : Nat) : MathAsm.aws_add_u64_saturating a b = saturating 64 (a + b) := by
  unfold MathAsm.aws_add_u64_saturating MathAsm.addw saturating
  by_cases h : a + b < 2^64
  · simp [h, Nat.mod_eq_of_lt h] <;> omega
  · simp [h] <;> omega
theorem asm_add_u32_saturating (a b : Nat) : MathAsm.aws_add_u32_saturating a b = saturating 32 (a + b) := by
  unfold MathAsm.aws_add_u32_saturating MathAsm.addw saturating
  by_cases h : a + b < 2^32
  · simp [h, Nat.mod_eq_of_lt h] <;> omega
  · simp [h] <;> omega

/-! ### the hand model is tied to the text of the assembly

`Gen.MathAsmShapes.asmShapes` is re-extracted from `math.gcc_x64_asm.inl` on every run. -/

/-- every asm statement (template, operand constraints and expressions, clobbers, surrounding C) is literally the one
the hand model `Model/MathAsm.lean` was written against -/
theorem asm_shapes_as_modelled : Gen.MathAsmShapes.asmShapes = MathAsm.expectedShapes := rfl

/-- every register a template writes — named literally (`%%eax`) or implicitly (`mul` → `rdx:rax`) — is pinned by an
output operand whose constraint is exactly that register, or is listed as clobbered: the saturation `mov` really
targets the operand that is returned, and no live register is overwritten behind the compiler's back -/
theorem asm_registers_pinned : ∀ s ∈ Gen.MathAsmShapes.asmShapes, MathAsm.regsPinned s.2 = true := by decide

/-! ## every implementation variant gives identical answers -/

theorem variants_agree_u64 (a b : Nat) (ha : a < 2^64) (hb : b < 2^64) :
    Fallback.aws_mul_u64_checked a b = Overflow.aws_mul_u64_checked a b ∧
    Overflow.aws_mul_u64_checked a b = MathAsm.aws_mul_u64_checked a b ∧
    Fallback.aws_mul_u64_saturating a b = Overflow.aws_mul_u64_saturating a b ∧
    Overflow.aws_mul_u64_saturating a b = MathAsm.aws_mul_u64_saturating a b ∧
    Fallback.aws_add_u64_checked a b = Overflow.aws_add_u64_checked a b ∧
    Overflow.aws_add_u64_checked a b = MathAsm.aws_add_u64_checked a b ∧
    Fallback.aws_add_u64_saturating a b = Overflow.aws_add_u64_saturating a b ∧
    Overflow.aws_add_u64_saturating a b = MathAsm.aws_add_u64_saturating a b := by
  simp only [fallback_mul_u64_checked a b ha hb, overflow_mul_u64_checked, asm_mul_u64_checked,
    fallback_mul_u64_saturating a b ha hb, overflow_mul_u64_saturating, asm_mul_u64_saturating,
    fallback_add_u64_checked a b ha hb, overflow_add_u64_checked, asm_add_u64_checked,
    fallback_add_u64_saturating a b ha hb, overflow_add_u64_saturating, asm_add_u64_saturating, and_self]

theorem variants_agree_u32 (a b : Nat) (ha : a < 2^32) (hb : b < 2^32) :
    Fallback.aws_mul_u32_checked a b = Overflow.aws_mul_u32_checked a b ∧
    Overflow.aws_mul_u32_checked a b = MathAsm.aws_mul_u32_checked a b ∧
    Fallback.aws_mul_u32_saturating a b = Overflow.aws_mul_u32_saturating a b ∧
    Overflow.aws_mul_u32_saturating a b = MathAsm.aws_mul_u32_saturating a b ∧
    Fallback.aws_add_u32_checked a b = Overflow.aws_add_u32_checked a b ∧
    Overflow.aws_add_u32_checked a b = MathAsm.aws_add_u32_checked a b ∧
    Fallback.aws_add_u32_saturating a b = Overflow.aws_add_u32_saturating a b ∧
    Overflow.aws_add_u32_saturating a b = MathAsm.aws_add_u32_saturating a b := by
  simp only [fallback_mul_u32_checked a b ha hb, overflow_mul_u32_checked, asm_mul_u32_checked,
    fallback_mul_u32_saturating a b ha hb, overflow_mul_u32_saturating, asm_mul_u32_saturating,
    fallback_add_u32_checked a b ha hb, overflow_add_u32_checked, asm_add_u32_checked,
    fallback_add_u32_saturating a b ha hb, overflow_add_u32_saturating, asm_add_u32_saturating, and_self]

/-! ## min / max (unsigned: on values; signed: on the two's-complement value `sval`) -/

/-- value of a `w`-bit two's-complement representation -/
def sval (w : Nat) (a : Nat) : Int := if a < 2^(w-1) then (a : Int) else (a : Int) - 2^w

theorem min_max_u64 (a b : Nat) : MathInl.aws_min_u64 a b = min a b ∧ MathInl.aws_max_u64 a b = max a b := by
  unfold MathInl.aws_min_u64 MathInl.aws_max_u64; constructor <;> split <;> omega
theorem min_max_u32 (a b : Nat) : MathInl.aws_min_u32 a b = min a b ∧ MathInl.aws_max_u32 a b = max a b := by
  unfold MathInl.aws_min_u32 MathInl.aws_max_u32; constructor <;> split <;> omega
theorem min_max_size (a b : Nat) : MathInl.aws_min_size a b = min a b ∧ MathInl.aws_max_size a b = max a b := by
  unfold MathInl.aws_min_size MathInl.aws_max_size; constructor <;> split <;> omega
theorem min_max_u16 (a b : Nat) (ha : a < 2^16) (hb : b < 2^16) :
    MathInl.aws_min_u16 a b = min a b ∧ MathInl.aws_max_u16 a b = max a b := by
  unfold MathInl.aws_min_u16 MathInl.aws_max_u16; constructor <;> split <;> omega
theorem min_max_u8 (a b : Nat) (ha : a < 2^8) (hb : b < 2^8) :
    MathInl.aws_min_u8 a b = min a b ∧ MathInl.aws_max_u8 a b = max a b := by
  unfold MathInl.aws_min_u8 MathInl.aws_max_u8; constructor <;> split <;> omega

theorem min_max_i64 (a b : Nat) (ha : a < 2^64) (hb : b < 2^64) :
    sval 64 (MathInl.aws_min_i64 a b) = min (sval 64 a) (sval 64 b) ∧
    sval 64 (MathInl.aws_max_i64 a b) = max (sval 64 a) (sval 64 b) ∧
    (MathInl.aws_min_i64 a b = a ∨ MathInl.aws_min_i64 a b = b) ∧ (MathInl.aws_max_i64 a b = a ∨ MathInl.aws_max_i64 a b = b) := by
  unfold MathInl.aws_min_i64 MathInl.aws_max_i64 sval
  refine ⟨?_, ?_, ?_, ?_⟩ <;> (repeat' split) <;> omega
theorem min_max_i32 (a b : Nat) (ha : a < 2^32) (hb : b < 2^32) :
    sval 32 (MathInl.aws_min_i32 a b) = min (sval 32 a) (sval 32 b) ∧
    sval 32 (MathInl.aws_max_i32 a b) = max (sval 32 a) (sval 32 b) ∧
    sval 32 (MathInl.aws_min_int a b) = min (sval 32 a) (sval 32 b) ∧
    sval 32 (MathInl.aws_max_int a b) = max (sval 32 a) (sval 32 b) := by
  unfold MathInl.aws_min_i32 MathInl.aws_max_i32 MathInl.aws_min_int MathInl.aws_max_int sval
  refine ⟨?_, ?_, ?_, ?_⟩ <;> (repeat' split) <;> omega
theorem min_max_i16 (a b : Nat) (ha : a < 2^16) (hb : b < 2^16) :
    sval 16 (MathInl.aws_min_i16 a b) = min (sval 16 a) (sval 16 b) ∧
    sval 16 (MathInl.aws_max_i16 a b) = max (sval 16 a) (sval 16 b) := by
  unfold MathInl.aws_min_i16 MathInl.aws_max_i16 sval
  refine ⟨?_, ?_⟩ <;> (repeat' split) <;> omega
theorem min_max_i8 (a b : Nat) (ha : a < 2^8) (hb : b < 2^8) :
    sval 8 (MathInl.aws_min_i8 a b) = min (sval 8 a) (sval 8 b) ∧
    sval 8 (MathInl.aws_max_i8 a b) = max (sval 8 a) (sval 8 b) := by
  unfold MathInl.aws_min_i8 MathInl.aws_max_i8 sval
  refine ⟨?_, ?_⟩ <;> (repeat' split) <;> omega

/-! ## time-unit conversion (clock.inl) -/

theorem sat_lt {w r : Nat} (h : r < 2^w) : saturating w r = r := by simp [saturating, h]
theorem sat_ge {w r : Nat} (h : ¬ r < 2^w) : saturating w r = 2^w - 1 := by simp [saturating, h]

/-- the arithmetic core of `aws_timestamp_convert_u64` -/
theorem convert_core (t o n : Nat) (ht : t < 2^64) (ho : 0 < o) (ho9 : o ≤ 10^9) (hn9 : n ≤ 10^9) :
    Overflow.aws_add_u64_saturating (Overflow.aws_mul_u64_saturating (t / o) n)
      (Overflow.aws_mul_u64_saturating ((t + 18446744073709551616 - ((t / o * o) % 18446744073709551616)) % 18446744073709551616) n / o)
    = saturating 64 (t * n / o) := by
  have hq : t / o * o ≤ t := Nat.div_mul_le_self t o
  have hr : (t + 18446744073709551616 - ((t / o * o) % 18446744073709551616)) % 18446744073709551616 = t % o := by
    have h1 : (t / o * o) % 18446744073709551616 = t / o * o := Nat.mod_eq_of_lt (by omega)
    have h2 : t % o = t - t / o * o := by
      have := Nat.div_add_mod t o
      rw [Nat.mul_comm] at this; omega
    rw [h1, h2]; omega
  rw [hr, overflow_add_u64_saturating, overflow_mul_u64_saturating, overflow_mul_u64_saturating]
  have hro : t % o < o := Nat.mod_lt _ ho
  have hrn : t % o * n < 2^64 := by
    have : t % o * n ≤ 10^9 * 10^9 := Nat.mul_le_mul (by omega) hn9
    have : (10:Nat)^9 * 10^9 < 2^64 := by decide
    omega
  rw [sat_lt hrn]
  have hsplit : t * n / o = t / o * n + t % o * n / o := by
    have h := Nat.div_add_mod t o
    have : t * n = o * (t / o * n) + t % o * n := by
      calc t * n = (o * (t / o) + t % o) * n := by rw [h]
        _ = o * (t / o * n) + t % o * n := by rw [Nat.add_mul, Nat.mul_assoc]
    rw [this, Nat.mul_add_div ho]
  rw [hsplit]
  generalize t / o * n = X
  generalize t % o * n / o = Y
  by_cases hw : X < 2^64
  · rw [sat_lt hw]
  · rw [sat_ge hw]
    have h1 : ¬ (X + Y < 2^64) := by omega
    rw [sat_ge h1]
    by_cases h2 : 2^64 - 1 + Y < 2^64
    · rw [sat_lt h2]; omega
    · rw [sat_ge h2]

/-- documented remainder: `ticks mod (old/new)` when going to a coarser unit that divides the old one, else 0 -/
def convRemainder (t o n : Nat) : Nat := if n < o ∧ o % n = 0 then t % (o / n) else 0

theorem timestamp_convert_u64 (t o n : Nat) (ht : t < 2^64) (ho : 0 < o) (hn : 0 < n) (ho9 : o ≤ 10^9) (hn9 : n ≤ 10^9) :
    Clock.aws_timestamp_convert_u64 t o n true = some (saturating 64 (t * n / o), convRemainder t o n) ∧
    Clock.aws_timestamp_convert_u64 t o n false = some (saturating 64 (t * n / o), 0) := by
  have core := convert_core t o n ht ho ho9 hn9
  unfold Clock.aws_timestamp_convert_u64 convRemainder
  have hpos : ¬ ¬ (o > 0 ∧ n > 0) := by simp; omega
  constructor
  · simp only [hpos, if_false, if_true]
    by_cases h1 : n < o
    · by_cases h2 : o % n = 0
      · simp [h1, h2, core]
      · simp [h1, h2, core]
    · simp [h1, core]
  · simp [hpos, core]

/-- the four timestamp units are the frequencies 1, 10^3, 10^6, 10^9 -/
theorem timestamp_convert_units (t o n : Nat) (ht : t < 2^64)
    (ho : o = 1 ∨ o = 1000 ∨ o = 1000000 ∨ o = 1000000000) (hn : n = 1 ∨ n = 1000 ∨ n = 1000000 ∨ n = 1000000000) :
    Clock.aws_timestamp_convert t o n true = some (saturating 64 (t * n / o), convRemainder t o n) := by
  unfold Clock.aws_timestamp_convert
  exact (timestamp_convert_u64 t o n ht (by omega) (by omega) (by omega) (by omega)).1

example : Clock.aws_timestamp_convert_u64 1500 1000 1 true = some (1, 500) := by decide
example : Clock.aws_timestamp_convert_u64 (2^64 - 1) 1 1000000000 true = some (2^64 - 1, 0) := by decide

/-! non-vacuity: the hypotheses are met at interesting operands -/
example : Fallback.aws_mul_u64_checked (2^32) (2^32) = .err 5 ∧ Fallback.aws_mul_u64_checked (2^32) (2^32 - 1) = .ok (2^64 - 2^32) := by decide
example : MathInl.aws_min_i8 255 1 = 255 ∧ sval 8 255 = -1 := by decide

/-! ## power-of-two test (math.inl) — for every 64-bit `x`

helper lemmas for this and the following sections: `AwsVerif/Proofs/C16/Bits.lean` -/

open AwsVerif.Proofs.C16 in
theorem c16_is_power_of_two (x : Nat) (hx : x < 2^64) :
    MathInl.aws_is_power_of_two x = true ↔ ∃ k, x = 2^k := by
  unfold MathInl.aws_is_power_of_two
  by_cases hx0 : x = 0
  · subst hx0
    have : ¬ ∃ k, 0 = 2^k := by
      rintro ⟨k, hk⟩; have := Nat.two_pow_pos k; omega
    simp [this]
  · have hm : (x + 18446744073709551616 - 1) % 18446744073709551616 = x - 1 := by omega
    rw [hm, ← Bits.and_pred_eq_zero_iff hx0]
    by_cases h : x &&& (x - 1) = 0 <;> simp [hx0, h]

example : MathInl.aws_is_power_of_two (2^63) = true ∧ MathInl.aws_is_power_of_two (2^63 + 1) = false ∧
    MathInl.aws_is_power_of_two 0 = false ∧ MathInl.aws_is_power_of_two 1 = true ∧
    MathInl.aws_is_power_of_two (2^64 - 1) = false := by decide

/-! ## round up to a power of two (math.inl) — for every 64-bit `n` -/

open AwsVerif.Proofs.C16 in
/-- the generated function is literally "decrement, six shift-or steps, increment" -/
theorem round_up_shape (n : Nat) :
    MathInl.aws_round_up_to_power_of_two n =
      if n = 0 then .ok 1 else if n > 9223372036854775808 then .err 5
      else .ok ((Bits.smear64 ((n + 18446744073709551616 - 1) % 18446744073709551616) + 1) % 18446744073709551616) := by
  unfold MathInl.aws_round_up_to_power_of_two Bits.smear64
  rfl

open AwsVerif.Proofs.C16 in
/-- above `2^63` the overflow error; otherwise the least power of two `≥ n` (and `1` for `n = 0`) -/
theorem c16_round_up_to_power_of_two (n : Nat) (hn : n < 2^64) :
    if n > 2^63 then MathInl.aws_round_up_to_power_of_two n = .err 5
    else ∃ p, MathInl.aws_round_up_to_power_of_two n = .ok p ∧ (∃ e, p = 2^e) ∧ n ≤ p ∧ (n = 0 → p = 1) ∧
      ∀ k, n ≤ 2^k → p ≤ 2^k := by
  rw [round_up_shape]
  by_cases h0 : n = 0
  · subst h0
    rw [if_neg (by decide), if_pos rfl]
    exact ⟨1, rfl, ⟨0, rfl⟩, by omega, fun _ => rfl, fun k _ => Nat.one_le_two_pow⟩
  · by_cases hbig : n > 2^63
    · have hbig' : n > 9223372036854775808 := by omega
      rw [if_pos hbig, if_neg h0, if_pos hbig']
    · have hbig' : ¬ n > 9223372036854775808 := by omega
      have hm : (n + 18446744073709551616 - 1) % 18446744073709551616 = n - 1 := by omega
      obtain ⟨e, he, hle, hmin⟩ := Bits.roundup_core h0 (by omega : n ≤ 2^63)
      rw [if_neg hbig, if_neg h0, if_neg hbig', hm]
      exact ⟨_, rfl, ⟨e, he⟩, by rw [he]; exact hle, fun h => absurd h h0, fun k hk => by rw [he]; exact hmin k hk⟩

example : MathInl.aws_round_up_to_power_of_two 0 = .ok 1 ∧ MathInl.aws_round_up_to_power_of_two 1 = .ok 1 ∧
    MathInl.aws_round_up_to_power_of_two 3 = .ok 4 ∧
    MathInl.aws_round_up_to_power_of_two (2^32 + 1) = .ok (2^33) ∧
    MathInl.aws_round_up_to_power_of_two (2^63) = .ok (2^63) ∧
    MathInl.aws_round_up_to_power_of_two (2^63 + 1) = .err 5 := by decide

/-! ## count leading / trailing zeros — every entry point of both variants, for every input in range

Signed entry points take the two's-complement representation (a negative `int32_t` is an `n ≥ 2^31`,
whose highest set bit is bit 31, so `clz = 0`). -/

/-- leading zeros of the `w`-bit value `n`: `w` for zero, otherwise `w - 1 - (index of the highest set bit)` -/
def clzSpec (w n : Nat) : Nat := if n = 0 then w else w - 1 - Nat.log2 n

/-- `r` is the count of trailing zeros of the `w`-bit value `n`: `w` for zero, otherwise the least set bit -/
def IsCtz (w n r : Nat) : Prop :=
  if n = 0 then r = w else n.testBit r = true ∧ ∀ j, j < r → n.testBit j = false

open AwsVerif.Proofs.C16 in
theorem isCtz_unique {w n r s : Nat} (hr : IsCtz w n r) (hs : IsCtz w n s) : r = s := by
  unfold IsCtz at hr hs
  by_cases h0 : n = 0
  · rw [if_pos h0] at hr hs; omega
  · rw [if_neg h0] at hr hs; exact Bits.lowest_unique hr hs

open AwsVerif.Proofs.C16 in
theorem c16_clz_builtin32 (n : Nat) (hn : n < 2^32) :
    Builtin.aws_clz_u32 n = clzSpec 32 n ∧ Builtin.aws_clz_i32 n = clzSpec 32 n := by
  unfold Builtin.aws_clz_u32 Builtin.aws_clz_i32 clzSpec
  by_cases h0 : n = 0
  · simp [h0]
  · simp only [h0, if_false, Bits.builtin_clz_core (by decide : 32 ≤ 64) hn h0, and_self]

open AwsVerif.Proofs.C16 in
theorem c16_clz_builtin64 (n : Nat) (hn : n < 2^64) :
    Builtin.aws_clz_u64 n = clzSpec 64 n ∧ Builtin.aws_clz_i64 n = clzSpec 64 n ∧
    Builtin.aws_clz_size n = clzSpec 64 n := by
  unfold Builtin.aws_clz_size Builtin.aws_clz_u64 Builtin.aws_clz_i64 clzSpec
  by_cases h0 : n = 0
  · simp [h0]
  · simp only [h0, if_false, Bits.builtin_clz_core (Nat.le_refl 64) hn h0, and_self]

open AwsVerif.Proofs.C16 in
/-- fallback: the shift-until-negative loop (fuel 70 suffices: at most 31 iterations) -/
theorem c16_clz_fallback32 (n : Nat) (hn : n < 2^32) :
    Fallback.aws_clz_u32 n = clzSpec 32 n ∧ Fallback.aws_clz_i32 n = clzSpec 32 n := by
  have key : Fallback.aws_clz_i32 n = clzSpec 32 n := by
    simp only [Fallback.aws_clz_i32, clzSpec]
    by_cases h0 : n = 0
    · simp [h0]
    · have h1 := Nat.log2_self_le h0
      have h2 : n < 2^(n.log2 + 1) := Nat.lt_log2_self
      have hl : n.log2 < 32 := Bits.log2_lt_of_lt h0 hn
      rw [if_neg h0, if_neg h0]
      split
      · have : n.log2 = 31 := Bits.log2_of_bounds (by omega) (by omega)
        omega
      · rw [Bits.clz_i32_loop 70 n.log2 n 0 h1 h2 (by omega) (by omega) (by omega)]; omega
  exact ⟨by unfold Fallback.aws_clz_u32; exact key, key⟩

open AwsVerif.Proofs.C16 in
theorem c16_clz_fallback64 (n : Nat) (hn : n < 2^64) :
    Fallback.aws_clz_u64 n = clzSpec 64 n ∧ Fallback.aws_clz_i64 n = clzSpec 64 n ∧
    Fallback.aws_clz_size n = clzSpec 64 n := by
  have key : Fallback.aws_clz_i64 n = clzSpec 64 n := by
    simp only [Fallback.aws_clz_i64, clzSpec]
    by_cases h0 : n = 0
    · simp [h0]
    · have h1 := Nat.log2_self_le h0
      have h2 : n < 2^(n.log2 + 1) := Nat.lt_log2_self
      have hl : n.log2 < 64 := Bits.log2_lt_of_lt h0 hn
      rw [if_neg h0, if_neg h0]
      split
      · have : n.log2 = 63 := Bits.log2_of_bounds (by omega) (by omega)
        omega
      · rw [Bits.clz_i64_loop 70 n.log2 n 0 h1 h2 (by omega) (by omega) (by omega)]; omega
  have k2 : Fallback.aws_clz_u64 n = clzSpec 64 n := by unfold Fallback.aws_clz_u64; exact key
  exact ⟨k2, key, by unfold Fallback.aws_clz_size; exact k2⟩

open AwsVerif.Proofs.C16 in
theorem builtin_ctz_isCtz {w v n : Nat} (hw : w ≤ 64) (hn : n < 2^w) (h0 : n ≠ 0) :
    IsCtz v n (if CSem.ctz w n < 2147483648 then CSem.ctz w n else CSem.ctz w n + 18446744069414584320) := by
  unfold IsCtz; rw [if_neg h0]; exact Bits.builtin_ctz_core hw hn h0

open AwsVerif.Proofs.C16 in
/-- note `aws_ctz_u32` is written with the 64-bit builtin (`__builtin_ctzl`), which is equally right -/
theorem c16_ctz_builtin32 (n : Nat) (hn : n < 2^32) :
    IsCtz 32 n (Builtin.aws_ctz_u32 n) ∧ IsCtz 32 n (Builtin.aws_ctz_i32 n) := by
  unfold Builtin.aws_ctz_u32 Builtin.aws_ctz_i32
  by_cases h0 : n = 0
  · simp [h0, IsCtz]
  · have hn64 : n < 2^64 := by omega
    simp only [h0, if_false]
    exact ⟨builtin_ctz_isCtz (Nat.le_refl 64) hn64 h0, builtin_ctz_isCtz (by decide : 32 ≤ 64) hn h0⟩

open AwsVerif.Proofs.C16 in
theorem c16_ctz_builtin64 (n : Nat) (hn : n < 2^64) :
    IsCtz 64 n (Builtin.aws_ctz_u64 n) ∧ IsCtz 64 n (Builtin.aws_ctz_i64 n) ∧ IsCtz 64 n (Builtin.aws_ctz_size n) := by
  unfold Builtin.aws_ctz_size Builtin.aws_ctz_u64 Builtin.aws_ctz_i64
  by_cases h0 : n = 0
  · simp [h0, IsCtz]
  · simp only [h0, if_false]
    exact ⟨builtin_ctz_isCtz (Nat.le_refl 64) hn h0, builtin_ctz_isCtz (Nat.le_refl 64) hn h0,
      builtin_ctz_isCtz (Nat.le_refl 64) hn h0⟩

open AwsVerif.Proofs.C16 in
/-- fallback: the probe-upwards loop (fuel 70 suffices: at most 32 iterations; the loop's own bound of 64 and
the `1 << idx` with `idx ≥ 32` are never reached because `n ≠ 0`) -/
theorem c16_ctz_fallback32 (n : Nat) (hn : n < 2^32) :
    IsCtz 32 n (Fallback.aws_ctz_u32 n) ∧ IsCtz 32 n (Fallback.aws_ctz_i32 n) := by
  have key : IsCtz 32 n (Fallback.aws_ctz_i32 n) := by
    simp only [Fallback.aws_ctz_i32, IsCtz]
    by_cases h0 : n = 0
    · simp [h0]
    · rw [if_neg h0, if_neg h0]
      have hl : n.log2 < 32 := Bits.log2_lt_of_lt h0 hn
      have hs := Bits.ctz_i32_loop hn 70 0 (by intro j hj; omega)
        ⟨n.log2, Nat.zero_le _, by omega, Nat.testBit_log2 h0⟩
      have hlt := Bits.lowest_lt hn hs.1
      rw [Bits.int_to_size (by omega)]; exact hs
  exact ⟨by unfold Fallback.aws_ctz_u32; exact key, key⟩

open AwsVerif.Proofs.C16 in
theorem c16_ctz_fallback64 (n : Nat) (hn : n < 2^64) :
    IsCtz 64 n (Fallback.aws_ctz_u64 n) ∧ IsCtz 64 n (Fallback.aws_ctz_i64 n) ∧ IsCtz 64 n (Fallback.aws_ctz_size n) := by
  have key : IsCtz 64 n (Fallback.aws_ctz_i64 n) := by
    simp only [Fallback.aws_ctz_i64, IsCtz]
    by_cases h0 : n = 0
    · simp [h0]
    · rw [if_neg h0, if_neg h0]
      have hl : n.log2 < 64 := Bits.log2_lt_of_lt h0 hn
      exact Bits.ctz_i64_loop hn 70 0 (by intro j hj; omega)
        ⟨n.log2, Nat.zero_le _, by omega, Nat.testBit_log2 h0⟩
  have k2 : IsCtz 64 n (Fallback.aws_ctz_u64 n) := by unfold Fallback.aws_ctz_u64; exact key
  exact ⟨k2, key, by unfold Fallback.aws_ctz_size; exact k2⟩

/-- the count of trailing zeros is below the width for a nonzero value -/
theorem isCtz_lt {w n r : Nat} (hn : n < 2^w) (h0 : n ≠ 0) (h : IsCtz w n r) : r < w := by
  unfold IsCtz at h; rw [if_neg h0] at h
  exact AwsVerif.Proofs.C16.Bits.lowest_lt hn h.1

theorem c16_clz_ctz_variants_agree (n : Nat) :
    (n < 2^32 →
      Fallback.aws_clz_u32 n = Builtin.aws_clz_u32 n ∧ Fallback.aws_clz_i32 n = Builtin.aws_clz_i32 n ∧
      Fallback.aws_ctz_u32 n = Builtin.aws_ctz_u32 n ∧ Fallback.aws_ctz_i32 n = Builtin.aws_ctz_i32 n) ∧
    (n < 2^64 →
      Fallback.aws_clz_u64 n = Builtin.aws_clz_u64 n ∧ Fallback.aws_clz_i64 n = Builtin.aws_clz_i64 n ∧
      Fallback.aws_clz_size n = Builtin.aws_clz_size n ∧
      Fallback.aws_ctz_u64 n = Builtin.aws_ctz_u64 n ∧ Fallback.aws_ctz_i64 n = Builtin.aws_ctz_i64 n ∧
      Fallback.aws_ctz_size n = Builtin.aws_ctz_size n) := by
  constructor
  · intro hn
    have a := c16_clz_fallback32 n hn; have b := c16_clz_builtin32 n hn
    have c := c16_ctz_fallback32 n hn; have d := c16_ctz_builtin32 n hn
    exact ⟨a.1.trans b.1.symm, a.2.trans b.2.symm, isCtz_unique c.1 d.1, isCtz_unique c.2 d.2⟩
  · intro hn
    have a := c16_clz_fallback64 n hn; have b := c16_clz_builtin64 n hn
    have c := c16_ctz_fallback64 n hn; have d := c16_ctz_builtin64 n hn
    exact ⟨a.1.trans b.1.symm, a.2.1.trans b.2.1.symm, a.2.2.trans b.2.2.symm,
      isCtz_unique c.1 d.1, isCtz_unique c.2.1 d.2.1, isCtz_unique c.2.2 d.2.2⟩

example : Fallback.aws_clz_i32 1 = 31 ∧ Fallback.aws_clz_u32 (2^31) = 0 ∧ Fallback.aws_clz_i32 (2^32 - 1) = 0 ∧
    Fallback.aws_clz_u64 (2^40 + 5) = 23 ∧ Builtin.aws_clz_size 1 = 63 ∧ Builtin.aws_clz_i64 0 = 64 ∧
    clzSpec 64 (2^40 + 5) = 23 := by decide
example : Fallback.aws_ctz_i32 (2^31) = 31 ∧ Fallback.aws_ctz_u64 (2^63) = 63 ∧ Fallback.aws_ctz_size 96 = 5 ∧
    Builtin.aws_ctz_u32 (2^31) = 31 ∧ Builtin.aws_ctz_i64 0 = 64 ∧ IsCtz 64 96 5 := by
  refine ⟨by decide, by decide, by decide, by decide, by decide, ?_⟩
  unfold IsCtz; exact ⟨by decide, by decide⟩

/-! ## time conversion with arbitrary positive frequencies (beyond the documented `≤ 10^9`)

`aws_timestamp_convert_u64` computes `sat(sat((t/o)*n) + sat((t%o)*n)/o)`.  The remainder-part product
`(t%o)*n` is *saturated before the division*, so the result is `min(⌊t*n/o⌋, 2^64-1)` exactly when that product
fits in 64 bits (always the case for frequencies `≤ 10^9`, theorem `timestamp_convert_u64`), and is too small
otherwise. -/

theorem sat_eq_min (r : Nat) : saturating 64 r = min (2^64 - 1) r := by
  unfold saturating; split <;> omega

theorem convert_core_unbounded (t o n : Nat) (ht : t < 2^64) :
    Overflow.aws_add_u64_saturating (Overflow.aws_mul_u64_saturating (t / o) n)
      (Overflow.aws_mul_u64_saturating ((t + 18446744073709551616 - ((t / o * o) % 18446744073709551616)) % 18446744073709551616) n / o)
    = saturating 64 (t / o * n + min (2^64 - 1) (t % o * n) / o) := by
  have hq : t / o * o ≤ t := Nat.div_mul_le_self t o
  have hr : (t + 18446744073709551616 - ((t / o * o) % 18446744073709551616)) % 18446744073709551616 = t % o := by
    have h1 : (t / o * o) % 18446744073709551616 = t / o * o := Nat.mod_eq_of_lt (by omega)
    have h2 : t % o = t - t / o * o := by
      have := Nat.div_add_mod t o
      rw [Nat.mul_comm] at this; omega
    rw [h1, h2]; omega
  rw [hr, overflow_add_u64_saturating, overflow_mul_u64_saturating, overflow_mul_u64_saturating,
    sat_eq_min (t % o * n)]
  generalize t / o * n = X
  generalize min (2^64 - 1) (t % o * n) / o = Y
  by_cases hw : X < 2^64
  · rw [sat_lt hw]
  · rw [sat_ge hw]
    have h1 : ¬ (X + Y < 2^64) := by omega
    rw [sat_ge h1]
    by_cases h2 : 2^64 - 1 + Y < 2^64
    · rw [sat_lt h2]; omega
    · rw [sat_ge h2]

theorem c16_convert_unbounded (t o n : Nat) (ht : t < 2^64) (ho : 0 < o) (hn : 0 < n) (b : Bool) :
    Clock.aws_timestamp_convert_u64 t o n b =
      some (saturating 64 (t / o * n + min (2^64 - 1) (t % o * n) / o), if b then convRemainder t o n else 0) ∧
    (t % o * n < 2^64 → t / o * n + min (2^64 - 1) (t % o * n) / o = t * n / o) := by
  have core := convert_core_unbounded t o n ht
  constructor
  · unfold Clock.aws_timestamp_convert_u64 convRemainder
    have hpos : ¬ ¬ (o > 0 ∧ n > 0) := by simp; omega
    cases b
    · simp [hpos, core]
    · simp only [hpos, if_false, if_true]
      by_cases h1 : n < o
      · by_cases h2 : o % n = 0
        · simp [h1, h2, core]
        · simp [h1, h2, core]
      · simp [h1, core]
  · intro hfit
    have hmin : min (2^64 - 1) (t % o * n) = t % o * n := by omega
    rw [hmin]
    have h := Nat.div_add_mod t o
    have : t * n = o * (t / o * n) + t % o * n := by
      calc t * n = (o * (t / o) + t % o) * n := by rw [h]
        _ = o * (t / o * n) + t % o * n := by rw [Nat.add_mul, Nat.mul_assoc]
    rw [this, Nat.mul_add_div ho]

/-- frequencies up to `2^32` are always exact-or-saturated (the remainder product fits) -/
theorem c16_convert_u32_frequencies (t o n : Nat) (ht : t < 2^64) (ho : 0 < o) (hn : 0 < n)
    (ho32 : o ≤ 2^32) (hn32 : n ≤ 2^32) (b : Bool) :
    Clock.aws_timestamp_convert_u64 t o n b =
      some (saturating 64 (t * n / o), if b then convRemainder t o n else 0) := by
  have h := c16_convert_unbounded t o n ht ho hn b
  have hro : t % o < o := Nat.mod_lt _ ho
  have hfit : t % o * n < 2^64 := by
    have h1 : t % o * n ≤ (2^32 - 1) * 2^32 := Nat.mul_le_mul (by omega) hn32
    have h2 : (2^32 - 1) * 2^32 < 2^64 := by decide
    omega
  rw [h.1, h.2 hfit]

/-- outside that range the function under-reports: `(2^63 - 1)` ticks at `2^63` Hz are `2^63 - 1` ticks at
`2^63` Hz, but the saturated remainder product gives `1` -/
example : Clock.aws_timestamp_convert_u64 (2^63 - 1) (2^63) (2^63) false = some (1, 0) ∧
    saturating 64 ((2^63 - 1) * 2^63 / 2^63) = 2^63 - 1 := by decide
example : Clock.aws_timestamp_convert_u64 (2^64 - 1) (2^32) (2^32 - 1) true = some (2^64 - 2^32 - 1, 0) ∧
    saturating 64 ((2^64 - 1) * (2^32 - 1) / 2^32) = 2^64 - 2^32 - 1 := by decide

/-! ## the variadic checked sum (source/math.c)

`aws_add_size_checked_varargs(num, &r, a₁, a₂, …)`: `args` is the list of variadic arguments the caller actually
passed (at least `num` of them; more are legal C and must not contribute).  The result is the exact sum of the
first `num` of them, or the overflow error — in particular the empty sum `0` for `num = 0`, whatever follows.
`junk` stands for what `va_arg` would yield beyond the passed arguments (never consulted under `num ≤ args.length`). -/

theorem c16_add_size_checked_varargs (num : Nat) (args : List Nat) (junk : Nat)
    (hnum : num ≤ args.length) (hnum64 : num < 2^64) :
    MathC.aws_add_size_checked_varargs num args junk = checked 64 ((args.take num).sum) := by
  have hadd : ∀ a b, MathInl.aws_add_size_checked a b = if a + b < 2^64 then Res.ok (a + b) else Res.err 5 :=
    fun a b => by rw [add_size_checked]; rfl
  simp only [MathC.aws_add_size_checked_varargs]
  rw [AwsVerif.Proofs.C16.Varargs.loop_spec num junk hnum64 hadd (num + 1) 0 0 args (by omega) (by omega) (by decide)
    (by omega)]
  simp only [Nat.sub_zero, Nat.zero_add]
  rfl

/-- the empty sum: no variadic argument is consulted -/
theorem c16_add_size_checked_varargs_zero (args : List Nat) (junk : Nat) :
    MathC.aws_add_size_checked_varargs 0 args junk = .ok 0 := by
  rw [c16_add_size_checked_varargs 0 args junk (Nat.zero_le _) (by decide)]; rfl

example : MathC.aws_add_size_checked_varargs 0 [12345] 7 = .ok 0 ∧
    MathC.aws_add_size_checked_varargs 3 [2^63, 2^63 - 1, 0, 99] 7 = .ok (2^64 - 1) ∧
    MathC.aws_add_size_checked_varargs 3 [2^63, 2^63 - 1, 1] 7 = .err 5 ∧
    MathC.aws_add_size_checked_varargs 2 [2^63, 2^63, 0] 7 = .err 5 ∧
    MathC.aws_add_size_checked_varargs 5 [1, 2, 3, 4, 5, 2^64 - 1] 7 = .ok 15 := by decide

/-! ## floating-point min / max (math.inl)

A `float`/`double` is its IEEE-754 bit pattern; `CSem.fcmp` is the ordered comparison on patterns and `CSem.fKey`
the order-embedding key of a non-NaN pattern (so `fKey r ≤ fKey a` says "the value of r is ≤ the value of a";
`-0` and `+0` have the same key).  The result is always one of the operands; for two numbers it is a smallest /
largest one; if either operand is a NaN it is the second operand (the comparison is false). -/

def FMinSpec (e m a b r : Nat) : Prop :=
  (r = a ∨ r = b) ∧
  (fIsNaN e m a = false → fIsNaN e m b = false → fKey e m r ≤ fKey e m a ∧ fKey e m r ≤ fKey e m b) ∧
  (fIsNaN e m a = true ∨ fIsNaN e m b = true → r = b)

def FMaxSpec (e m a b r : Nat) : Prop :=
  (r = a ∨ r = b) ∧
  (fIsNaN e m a = false → fIsNaN e m b = false → fKey e m a ≤ fKey e m r ∧ fKey e m b ≤ fKey e m r) ∧
  (fIsNaN e m a = true ∨ fIsNaN e m b = true → r = b)

theorem fmin_of_lt (e m a b : Nat) : FMinSpec e m a b (if fcmp e m .lt a b then a else b) := by
  unfold FMinSpec fcmp
  cases ha : fIsNaN e m a <;> cases hb : fIsNaN e m b <;> simp
  by_cases h : fKey e m a < fKey e m b
  · simp [h]; omega
  · simp [h]; omega

theorem fmax_of_gt (e m a b : Nat) : FMaxSpec e m a b (if fcmp e m .gt a b then a else b) := by
  unfold FMaxSpec fcmp
  cases ha : fIsNaN e m a <;> cases hb : fIsNaN e m b <;> simp
  by_cases h : fKey e m b < fKey e m a
  · simp [h]; omega
  · simp [h]; omega

theorem c16_min_max_float (a b : Nat) :
    FMinSpec 8 23 a b (MathInl.aws_min_float a b) ∧ FMaxSpec 8 23 a b (MathInl.aws_max_float a b) := by
  unfold MathInl.aws_min_float MathInl.aws_max_float
  exact ⟨fmin_of_lt 8 23 a b, fmax_of_gt 8 23 a b⟩

theorem c16_min_max_double (a b : Nat) :
    FMinSpec 11 52 a b (MathInl.aws_min_double a b) ∧ FMaxSpec 11 52 a b (MathInl.aws_max_double a b) := by
  unfold MathInl.aws_min_double MathInl.aws_max_double
  exact ⟨fmin_of_lt 11 52 a b, fmax_of_gt 11 52 a b⟩

/-- 0x3f800000 = 1.0f, 0xbf800000 = -1.0f, 0x80000000 = -0.0f, 0x7fc00000 = NaN, 0x7f800000 = +inf, 1 = least subnormal -/
example : MathInl.aws_min_float 0x3f800000 0xbf800000 = 0xbf800000 ∧ MathInl.aws_max_float 0x3f800000 0xbf800000 = 0x3f800000 ∧
    MathInl.aws_min_float 0 0x80000000 = 0x80000000 ∧ MathInl.aws_min_float 0x7fc00000 1 = 1 ∧
    MathInl.aws_min_float 1 0x7fc00000 = 0x7fc00000 ∧ MathInl.aws_max_float 0x7f800000 0x7f7fffff = 0x7f800000 ∧
    MathInl.aws_min_float 0x80000001 1 = 0x80000001 ∧
    MathInl.aws_max_double 0x3ff0000000000001 0x3ff0000000000000 = 0x3ff0000000000001 := by decide

end AwsVerif.Props.C16
