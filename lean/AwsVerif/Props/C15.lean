import AwsVerif.Proofs.C15.Live
import AwsVerif.Proofs.C15.Valid
import AwsVerif.Proofs.C15.Dest
/-!
C15 — ring buffer never hands out overlapping memory, in every interleaving.

All theorems are about `Model/Ring.lean`: `run (Sys.init N) as` ranges over every ring size `N`
and every interleaving `as` of the acquirer's two atomic steps (`Act.loadTail`, `Act.complete`)
with the releaser's step (`Act.release`), for both acquire forms and all request sizes.
Buffers are `(offset, length)` pairs; `ring.out` is the list of buffers handed out and not yet
released (oldest first).
-/
namespace AwsVerif.Props.C15
open AwsVerif.Ring AwsVerif.Proofs.C15

/-- [A] In every reachable state the outstanding buffers are pairwise disjoint, non-empty and
inside the ring's storage `[0, N)`. -/
theorem c15_no_overlap (N : Nat) (as : List Act) :
    ((run (Sys.init N) as).ring.out.Pairwise
        (fun a b : Nat × Nat => a.1 + a.2 ≤ b.1 ∨ b.1 + b.2 ≤ a.1)) ∧
    ∀ b ∈ (run (Sys.init N) as).ring.out, 0 < b.2 ∧ b.1 + b.2 ≤ N := by
  obtain ⟨h1, h2⟩ := (reach_inv N as).1.safe
  rw [reach_N] at h2
  exact ⟨h1, h2⟩

/-- [A] The acquirer's completing step, taken in any reachable state with an acquire in flight:
if it reports success with `(off, len)` then that is the request that was in flight, the buffer
is exactly the one appended (as newest) to `out`, it is disjoint from every buffer outstanding
at that moment, lies in the ring, and `len` is the requested size (`exact`), resp. at most the
requested size and at least the minimum (`upTo`, given the API precondition `m ≤ k`). -/
theorem c15_sizes (N : Nat) (as : List Act) (t : Nat) (q q' : Req) (off len : Nat)
    (hp : (run (Sys.init N) as).pending = some (t, q))
    (hl : (step (run (Sys.init N) as) .complete).last = some (q', .ok off len)) :
    q' = q ∧
    (step (run (Sys.init N) as) .complete).ring.out = (run (Sys.init N) as).ring.out ++ [(off, len)] ∧
    (match q with
      | .exact k => len = k
      | .upTo m k => len ≤ k ∧ (m ≤ k → m ≤ len)) ∧
    0 < len ∧ off + len ≤ N ∧
    ∀ b ∈ (run (Sys.init N) as).ring.out, b.1 + b.2 ≤ off ∨ off + len ≤ b.1 := by
  obtain ⟨h1, h2, h3, h4, h5, h6⟩ := complete_step_spec (reach_inv N as) hp hl
  rw [reach_N] at h5
  refine ⟨h1, h2, ?_, h4, h5, h6⟩
  cases q <;> exact h3

/-- [A] Requests of every size are covered: sizes are natural numbers with no upper bound in the model (the C's
`size_t` values are those below `2^64`; the model's address arithmetic never wraps, which for the implementation is the
assumption `allocation + N ≤ 2^64` on the storage the allocator returned).  A request larger than the ring — an exact
size above `N`, or an up-to request whose minimum is above `N` — is refused in every reachable state of every
interleaving, whatever its size (`SIZE_MAX`, `SIZE_MAX − k`, `2^63`, …): nothing is handed out, so by
`c15_refusal_leaves_dest` ring and `*dest` stay as they were. -/
theorem c15_oversize_refused (N : Nat) (as : List Act) (t : Nat) (q : Req)
    (hp : (run (Sys.init N) as).pending = some (t, q))
    (hbig : match q with
      | .exact k => N < k
      | .upTo m k => N < m ∧ m ≤ k) (q' : Req) (off len : Nat) :
    (step (run (Sys.init N) as) .complete).last ≠ some (q', .ok off len) := by
  intro hl
  obtain ⟨_, _, h3, _, h5, _⟩ := c15_sizes N as t q q' off len hp hl
  cases q with
  | exact k => simp only at h3 hbig; omega
  | upTo m k => simp only at h3 hbig; have := h3.2 hbig.2; omega

/-- [A] The last reported result in any reachable state (however many releases later): a success
obeys the size rule and names a non-empty range inside the ring. -/
theorem c15_sizes_last (N : Nat) (as : List Act) (q : Req) (off len : Nat)
    (hl : (run (Sys.init N) as).last = some (q, .ok off len)) :
    (match q with
      | .exact k => len = k
      | .upTo m k => len ≤ k ∧ (m ≤ k → m ≤ len)) ∧ 0 < len ∧ off + len ≤ N := by
  obtain ⟨h1, h2, h3⟩ := reach_lastOK N as q off len hl
  rw [reach_N] at h3
  refine ⟨?_, h2, h3⟩
  cases q <;> exact h1

/-- [A] With nothing outstanding and no acquire in flight, every `acquire` of `1 ≤ q ≤ N` bytes
succeeds with exactly `q` bytes (releases scheduled between its two steps change nothing). -/
theorem c15_empty_succeeds (N : Nat) (as : List Act) (k q : Nat)
    (hn : (run (Sys.init N) as).ring.out = []) (hp : (run (Sys.init N) as).pending = none)
    (h1 : 1 ≤ q) (h2 : q ≤ N) :
    (run (run (Sys.init N) as)
        (Act.loadTail (.exact q) :: (List.replicate k Act.release ++ [Act.complete]))).last =
      some (.exact q, .ok 0 q) :=
  empty_exact (reach_inv N as) hn hp k h1 (by rw [reach_N]; exact h2)

/-- [A] Same for `acquire_up_to` with `1 ≤ m ≤ q`, `m ≤ N`: it succeeds with `min q N` bytes. -/
theorem c15_empty_succeeds_up_to (N : Nat) (as : List Act) (k m q : Nat)
    (hn : (run (Sys.init N) as).ring.out = []) (hp : (run (Sys.init N) as).pending = none)
    (h1 : 1 ≤ m) (h2 : m ≤ q) (h3 : m ≤ N) :
    (run (run (Sys.init N) as)
        (Act.loadTail (.upTo m q) :: (List.replicate k Act.release ++ [Act.complete]))).last =
      some (.upTo m q, .ok 0 (min q N)) := by
  have := empty_upTo (reach_inv N as) hn hp k h1 h2 (by rw [reach_N]; exact h3)
  rw [reach_N] at this
  exact this

/-- [A] From any reachable state without an acquire in flight: once every outstanding buffer has
been released, an acquire of the full capacity `N` succeeds. -/
theorem c15_full_again (N : Nat) (as : List Act) (hN : 1 ≤ N)
    (hp : (run (Sys.init N) as).pending = none) :
    (run (run (Sys.init N) as)
        (List.replicate (run (Sys.init N) as).ring.out.length Act.release ++
          [Act.loadTail (.exact N), Act.complete])).last = some (.exact N, .ok 0 N) := by
  rw [run_append, ← run_append (Sys.init N)]
  have hr := run_releases (run (Sys.init N) as).ring.out.length (run (Sys.init N) as)
  rw [← run_append] at hr
  have hn : (run (Sys.init N) (as ++ List.replicate (run (Sys.init N) as).ring.out.length Act.release)).ring.out = [] := by
    rw [hr.1]; simp
  exact c15_empty_succeeds N _ 0 N hn (by rw [hr.2]; exact hp) hN (Nat.le_refl _)

/-- [A] Frame condition of both acquire forms, in every ring state and for every (possibly stale) tail value
the acquirer read: a request that is refused (OOM or INVALID_ARGUMENT) leaves the ring — head, tail, outstanding
buffers — and the caller's `*dest` exactly as they were; a granted request writes exactly the granted buffer to
`*dest`.  (Callers pass the handle of a still-outstanding buffer as `dest` of requests they expect to fail and
release that handle later: a refusal that clobbered it would publish a wrong tail.) -/
theorem c15_refusal_leaves_dest (r : Ring) (t q m : Nat) (d : Dest) :
    ((∀ o l, (acquireD r t q d).2.1 ≠ .ok o l) → (acquireD r t q d).1 = r ∧ (acquireD r t q d).2.2 = d) ∧
    ((∀ o l, (acquireUpToD r t m q d).2.1 ≠ .ok o l) →
        (acquireUpToD r t m q d).1 = r ∧ (acquireUpToD r t m q d).2.2 = d) ∧
    (∀ o l, (acquireD r t q d).2.1 = .ok o l → (acquireD r t q d).2.2 = (o, l)) ∧
    (∀ o l, (acquireUpToD r t m q d).2.1 = .ok o l → (acquireUpToD r t m q d).2.2 = (o, l)) := by
  refine ⟨fun h => ⟨acquireWith_refused r t q h, writeDest_refused d _ h⟩,
          fun h => ⟨acquireUpToWith_refused r t m q h, writeDest_refused d _ h⟩, ?_, ?_⟩
  · intro o l h
    show writeDest d (acquireWith r t q).2 = (o, l)
    have h' : (acquireWith r t q).2 = .ok o l := h
    rw [h']; rfl
  · intro o l h
    show writeDest d (acquireUpToWith r t m q).2 = (o, l)
    have h' : (acquireUpToWith r t m q).2 = .ok o l := h
    rw [h']; rfl

/-- [A] The library's own validity predicate `aws_ring_buffer_is_valid` — `AwsVerif.Gen.Ring.isValid`,
translated on every run from `include/aws/common/ring_buffer.inl` (with `aws_ring_buffer_check_atomic_ptr`)
by `gen/ring_gen.py` — is true in every reachable state of every interleaving, wherever the ring's storage
lies (`base ≠ NULL`; `head`/`tail` are `base +` the model's offsets, `allocation_end = base + N`): both
positions are inside `[allocation, allocation_end]` (the one-past-the-end position included, which a grant
running to the end of the storage reaches) and `head` at the start forces `tail` there too.  This is what
a DEBUG_BUILD asserts before and after every ring-buffer call. -/
theorem c15_is_valid_holds (N : Nat) (as : List Act) (self base alloc : Nat)
    (h1 : self ≠ 0) (h2 : base ≠ 0) (h3 : alloc ≠ 0) :
    AwsVerif.Gen.Ring.isValid (rbOf (run (Sys.init N) as).ring self base alloc) = true :=
  isValid_of_shape (reach_inv N as).1 h1 h2 h3

/-- [A] `aws_ring_buffer_is_empty` (generated from `ring_buffer.inl`: `head == tail`) is true in a reachable state
exactly when no buffer is outstanding — in every interleaving, also between the acquirer's two steps. -/
theorem c15_is_empty_iff (N : Nat) (as : List Act) (self base alloc : Nat) :
    AwsVerif.Gen.Ring.isEmpty (rbOf (run (Sys.init N) as).ring self base alloc) = true ↔
      (run (Sys.init N) as).ring.out = [] :=
  isEmpty_iff_of_shape (reach_inv N as).1 self base alloc

/-- [A] The precondition `aws_ring_buffer_release` asserts (`s_buf_belongs_to_pool`, translated on every run from
`source/ring_buffer.c`) holds for the handle of EVERY outstanding buffer in every reachable state of every interleaving,
wherever the storage lies (`base ≠ NULL`); and the predicate is exact on handles into the ring's address range: it accepts
`(base + off, len)` iff the buffer ends inside the storage (`off + len ≤ N`) — a handle running past the end is rejected. -/
theorem c15_outstanding_belong (N : Nat) (as : List Act) (self base alloc : Nat) (hb : base ≠ 0) :
    (∀ b ∈ (run (Sys.init N) as).ring.out,
        AwsVerif.Gen.Ring.bufBelongsToPool (rbOf (run (Sys.init N) as).ring self base alloc) (bufOf base b) = true) ∧
    (∀ b : Nat × Nat,
        AwsVerif.Gen.Ring.bufBelongsToPool (rbOf (run (Sys.init N) as).ring self base alloc) (bufOf base b) = true ↔
          b.1 + b.2 ≤ N) := by
  have hN := reach_N N as
  refine ⟨fun b hbm => ?_, fun b => ?_⟩
  · rw [belongs_bufOf_iff _ _ _ _ hb, hN]
    exact ((c15_no_overlap N as).2 b hbm).2
  · rw [belongs_bufOf_iff _ _ _ _ hb, hN]

/-- [A] The releaser's step in the model is the store the C performs: releasing the oldest outstanding buffer `b` publishes
`buf->buffer + buf->capacity` (the expression is read from `aws_ring_buffer_release`, which must contain exactly this one
atomic store, to `tail`) and changes neither `head` nor the ring's size; the remaining outstanding buffers are the others. -/
theorem c15_release_is_tail_store (N : Nat) (as : List Act) (base : Nat) (b : Nat × Nat) (rest : List (Nat × Nat))
    (h : (run (Sys.init N) as).ring.out = b :: rest) :
    let s' := run (Sys.init N) (as ++ [.release])
    base + s'.ring.tail = AwsVerif.Gen.Ring.releaseTail (bufOf base b) ∧ s'.ring.out = rest ∧
      s'.ring.head = (run (Sys.init N) as).ring.head ∧ s'.pending = (run (Sys.init N) as).pending := by
  intro s'
  have e : s' = { run (Sys.init N) as with ring := release (run (Sys.init N) as).ring } := by
    show run (Sys.init N) (as ++ [.release]) = _
    simp only [run, List.foldl_append, List.foldl_cons, List.foldl_nil, step]
  obtain ⟨h1, h2, h3, _⟩ := release_tail_eq (run (Sys.init N) as).ring base b rest h
  rw [e]
  exact ⟨h1, h2, h3, rfl⟩

/-! ### Non-vacuity: the hypotheses are met by non-trivial reachable states -/

/-- a reachable state with `head` one past the end of the storage (full-capacity grant on an empty ring), and
after its release `tail` there too: the boundary the validity predicate must admit -/
example :
    (run (Sys.init 8) [.loadTail (.exact 8), .complete]).ring.head = 8 ∧
    (run (Sys.init 8) [.loadTail (.exact 8), .complete, .release]).ring.tail = 8 ∧
    AwsVerif.Gen.Ring.isValid (rbOf (run (Sys.init 8) [.loadTail (.exact 8), .complete, .release]).ring 1 16 1) = true := by
  decide


/-- a wrapped state with two buffers outstanding and a stale tail snapshot in flight is reachable -/
example :
    let s := run (Sys.init 8) [.loadTail (.exact 5), .complete, .loadTail (.exact 2), .complete, .release,
                               .loadTail (.exact 3), .complete, .loadTail (.upTo 1 4), .release]
    s.ring.out = [(0, 3)] ∧ s.ring.head = 3 ∧ s.ring.tail = 7 ∧ s.pending = some (5, .upTo 1 4) := by decide

/-- …and completing from it hands out a buffer next to, not over, the outstanding one -/
example :
    (run (Sys.init 8) [.loadTail (.exact 5), .complete, .loadTail (.exact 2), .complete, .release,
                       .loadTail (.exact 3), .complete, .loadTail (.upTo 1 4), .release, .complete]).last
      = some (.upTo 1 4, .ok 3 1) := by decide

/-- hypotheses of `c15_empty_succeeds` / `c15_full_again` hold in a reachable state with head ≠ 0 -/
example :
    let s := run (Sys.init 8) [.loadTail (.exact 5), .complete, .release]
    s.ring.out = [] ∧ s.pending = none ∧ s.ring.head = 5 := by decide

/-- a refusal in the wrapped state with a live handle as `dest` (the hypothesis of `c15_refusal_leaves_dest`):
ring of 16, buffers [8,16) and [0,4) outstanding, tail 8, head 4; 4 more bytes are refused and `dest` = (0,4) stays -/
example :
    let r : Ring := { N := 16, head := 4, tail := 8, out := [(8, 8), (0, 4)] }
    acquireUpToD r 8 4 4 (0, 4) = (r, .oom, (0, 4)) := by decide

/-- a refused acquire exists (the size theorems are not about a function that always succeeds) -/
example : (run (Sys.init 4) [.loadTail (.exact 3), .complete, .loadTail (.exact 2), .complete]).last
    = some (.exact 2, .oom) := by decide

/-- `c15_outstanding_belong` / `c15_release_is_tail_store` on a wrapped reachable state: both outstanding handles belong,
a handle straddling the end does not, and the release publishes the end of the oldest buffer -/
example :
    let as := [Act.loadTail (.exact 5), .complete, .loadTail (.exact 2), .complete, .release, .loadTail (.exact 3), .complete]
    (run (Sys.init 8) as).ring.out = [(5, 2), (0, 3)] ∧
    AwsVerif.Gen.Ring.bufBelongsToPool (rbOf (run (Sys.init 8) as).ring 1 16 1) (bufOf 16 (5, 2)) = true ∧
    AwsVerif.Gen.Ring.bufBelongsToPool (rbOf (run (Sys.init 8) as).ring 1 16 1) (bufOf 16 (5, 4)) = false ∧
    (run (Sys.init 8) (as ++ [.release])).ring.tail = 7 := by decide

end AwsVerif.Props.C15
