import AwsVerif.Model.Ring
namespace AwsVerif.Props.C15
open AwsVerif.Ring
theorem placeholder : (init 4).out = [] := rfl
end AwsVerif.Props.C15
