import AwsVerif.Model.MemTrace
import AwsVerif.Proofs.C17.Misc
import AwsVerif.Proofs.C17.Refine
/-!
C17 — the memory tracer's byte and allocation counts equal what is live (`source/memtrace.c`).

Reference live set.  The wrapped allocator of the model (`Parent`) is plain bookkeeping: its list
of blocks *is* the set of live allocations with their requested sizes (`acquire`/`calloc` add a
block, `release` removes it, `realloc` replaces it).  `liveBytes` / `blocks.length` of that list
are therefore "Σ requested sizes of live allocations" / "number of live allocations".  In the
interleaving model the same role is played by the ghost list `owned` (blocks returned to the
client and not yet handed back).  Sums are taken mod `2^64` because the counter is a `size_t`
updated with wrapping `fetch_add` / `fetch_sub`; with real memory the sum is below `2^64`.
-/
namespace AwsVerif.Props.C17
open AwsVerif.MemTrace AwsVerif.Proofs.C17

/-- **Sequential histories.**  After every history of client calls (hence after each call of it:
the statement is for all `ops`), for every configuration of the wrapped allocator (`hr` / `hc`: it
implements `mem_realloc` / `mem_calloc`, or `aws_mem_realloc` / `aws_mem_calloc` emulate them with
acquire + copy + release), at a tracing level the reported byte total is the sum of the
requested sizes of the live allocations and the reported count is their number; at level `none`
both are 0.  Calls that violate an API precondition / the allocator contract are not made
(`Ret.rejected`), so no hypothesis on `ops` is needed. -/
theorem c17_seq (lvl : Level) (frames : Nat) (hr hc bt : Bool) (ops : List Op) :
    let s := (Seq.new lvl frames { blocks := [], hasRealloc := hr, hasCalloc := hc } bt).run ops
    s.tr.bytes = (if effLevel lvl bt = .none then 0 else liveBytes s.par % W) ∧
    s.tr.count = (if effLevel lvl bt = .none then 0 else s.par.blocks.length) :=
  seq_main lvl frames _ bt rfl ops

/-- **Platform configuration.**  The level the tracer runs at (`s_alloc_tracer_init`, with the clamp
*generated from memtrace.c* on every check): the requested level when `aws_backtrace()` works on the
platform, otherwise `min(requested, BYTES)` — in particular a tracer requested as `NONE` stays off on
every platform.  The captured stack depth is always within 1..128 (default 8 for 0). -/
theorem c17_init_level :
    (∀ lvl frames bt, (Tracer.new lvl frames bt).level = effLevel lvl bt) ∧
    (∀ lvl, effLevel lvl true = lvl) ∧
    effLevel .none false = .none ∧ effLevel .bytes false = .bytes ∧ effLevel .stacks false = .bytes ∧
    (∀ f, 1 ≤ AwsVerif.Gen.MemTraceInit.framesClamp f ∧ AwsVerif.Gen.MemTraceInit.framesClamp f ≤ 128 ∧
          (1 ≤ f → f ≤ 128 → AwsVerif.Gen.MemTraceInit.framesClamp f = f)) := by
  refine ⟨fun _ _ _ => rfl, fun _ => rfl, by decide, by decide, by decide, fun f => ?_⟩
  simp only [AwsVerif.Gen.MemTraceInit.framesClamp]
  refine ⟨?_, ?_, fun h1 h2 => ?_⟩ <;> split <;> split <;> omega

/-- "off reports zero": requested `NONE` ⇒ 0 / 0 after every history, on every platform and configuration -/
theorem c17_off_reports_zero (frames : Nat) (hr hc bt : Bool) (ops : List Op) :
    let s := (Seq.new .none frames { blocks := [], hasRealloc := hr, hasCalloc := hc } bt).run ops
    s.tr.bytes = 0 ∧ s.tr.count = 0 := by
  intro s
  have := c17_seq .none frames hr hc bt ops
  have he : effLevel .none bt = .none := by cases bt <;> decide
  simpa [he] using this

/-- both are 0 once everything is released (any level, any configuration) -/
theorem c17_seq_all_released (lvl : Level) (frames : Nat) (hr hc bt : Bool) (ops : List Op) :
    let s := (Seq.new lvl frames { blocks := [], hasRealloc := hr, hasCalloc := hc } bt).run ops
    s.par.blocks = [] → s.tr.bytes = 0 ∧ s.tr.count = 0 := by
  intro s h
  have := c17_seq lvl frames hr hc bt ops
  simp only at this
  rw [this.1, this.2]
  by_cases hn : effLevel lvl bt = .none
  · simp [hn]
  · simp [hn, s, h, liveBytes, W]

/-- **Every interleaving.**  For any number of threads and any schedule of the tracer's atomic /
lock / table actions (`Act.start` lets a new thread enter a call at any time, `Act.step i o`
lets the `i`-th call in flight perform its next action), at every reachable state
`allocated + Σ(sizes subtracted for entries still in the table) ≡ Σ sizes(table) + Σ(sizes added
for blocks not yet in the table)  (mod 2^64)`, and at every quiescent state the sequential
statement holds for the client's live set. -/
theorem c17_conc (lvl : Level) (frames : Nat) (hr hc bt : Bool) (hl : effLevel lvl bt ≠ .none) (acts : List Act) :
    let s := run (Sys.init lvl frames hr hc bt) acts
    (s.sh.tr.allocated + (s.pool.map subbedOf).sum) % W = (s.sh.tr.allocs.bytes + (s.pool.map addedOf).sum) % W ∧
    (s.quiescent →
      s.sh.tr.bytes = (s.sh.owned.map (·.2)).sum % W ∧ s.sh.tr.count = s.sh.owned.length) := by
  intro s
  have hi : SysInv (effLevel lvl bt) s := run_inv_sys hl (init_inv lvl frames hr hc bt) acts
  refine ⟨?_, fun hq => ?_⟩
  · have := hi.inv.acct
    rwa [sumBy_attr_added, sumBy_attr_subbed] at this
  · have hlev : s.sh.tr.level ≠ .none := hi.level ▸ hl
    have := quiescent_exact hi hq
    simp only [Tracer.bytes, Tracer.count, hlev, if_false]
    exact this

/-- at level `none` the tracer reports 0 / 0 in every state of every schedule -/
theorem c17_conc_level_none (frames : Nat) (hr hc bt : Bool) (acts : List Act) :
    (run (Sys.init .none frames hr hc bt) acts).sh.tr.bytes = 0 ∧ (run (Sys.init .none frames hr hc bt) acts).sh.tr.count = 0 := by
  have : (run (Sys.init .none frames hr hc bt) acts).sh.tr.level = .none := by
    rw [run_level_sys]
    show effLevel .none bt = .none
    cases bt <;> decide
  simp [Tracer.bytes, Tracer.count, this]

/-- mutual structure of the table under every schedule: the table's entries are exactly the client's
blocks plus the entries accounted for by calls in flight, no address twice (used by `c17_conc`;
stated separately because it is what makes `hash_table_put` never overwrite a live entry) -/
theorem c17_conc_table (lvl : Level) (frames : Nat) (hr hc bt : Bool) (hl : effLevel lvl bt ≠ .none) (acts : List Act) :
    let s := run (Sys.init lvl frames hr hc bt) acts
    (s.sh.tr.allocs.map (·.1)).Nodup ∧
    (∀ e ∈ s.sh.owned, ∃ i, s.sh.tr.allocs.lookup e.1 = some i ∧ i.size = e.2) := by
  intro s
  have hi : SysInv (effLevel lvl bt) s := run_inv_sys hl (init_inv lvl frames hr hc bt) acts
  exact ⟨hi.inv.keysNodup, hi.inv.ownedFound⟩

/-- **Transparency.**  Under the same history the wrapped allocator ends in the same state —
same live blocks at the same addresses with the same bytes — whether the calls go through the
tracer (any level, any tracer state, any configuration of the wrapped allocator: `s.par` carries
`hasRealloc` / `hasCalloc`) or directly to it, and every call returns the same pointer:
the tracer never writes client memory and never changes what the wrapped allocator is asked. -/
theorem c17_transparent (s : Seq) (ops : List Op) :
    (s.run ops).par = Parent.runDirect s.par ops ∧
    ∀ op, Ret.client (s.step op).2 = (s.par.stepDirect op).2 :=
  ⟨run_transparent s ops, fun op => (step_transparent s op).2⟩

/-- **Dump is pure.**  Sequentially a dump returns the state it was given; in the interleaving
model every action of a read-only call (`bytes`, `count`, `dump`) leaves the counter, the table,
the wrapped allocator and the client's blocks as they were (it only takes and gives back the mutex). -/
theorem c17_dump_pure :
    (∀ s : Seq, (s.step .dump).1 = s) ∧
    (∀ (sh sh' : Sh) (o : Addr) (st : RSt) (k : RKind) (pc' : PC),
      advance sh o (.ro st k) = some (sh', pc') →
        sh'.tr = sh.tr ∧ sh'.par = sh.par ∧ sh'.owned = sh.owned ∧ (pc' = .done ∨ ∃ st', pc' = .ro st' k)) :=
  ⟨fun _ => rfl, fun _ _ _ _ _ _ h => ro_pure h⟩

/-- **The two semantics agree.**  Each client call, entered on the interleaving model and run to
completion without interruption (`runAlone`: `start`, then its own actions one after the other), ends
with the call returned, the mutex free, and tracer and wrapped allocator exactly in the state the
atomic sequential function `Seq.step` computes — at every level, for acquire, calloc, release,
realloc to 0, realloc of NULL, realloc in place and realloc that moves.  (`owned` is the client's
ghost list; the hypotheses are the call's own preconditions.) -/
theorem c17_steps_refine_seq (s : Seq) (owned : List (Addr × Nat)) :
    (∀ dest sz sid, sz ≠ 0 → freshAddr s.par dest = true →
      Completes (runAlone s owned (.acquire sz sid) dest) (s.step (.acquire dest sz sid)).1.tr (s.step (.acquire dest sz sid)).1.par) ∧
    (∀ dest n sz sid, n ≠ 0 → sz ≠ 0 → n * sz < W → freshAddr s.par dest = true →
      Completes (runAlone s owned (.calloc n sz sid) dest) (s.step (.calloc dest n sz sid)).1.tr (s.step (.calloc dest n sz sid)).1.par) ∧
    (∀ p g o, p ≠ 0 → owned.lookup p = some g → s.par.live p = true →
      Completes (runAlone s owned (.release p) o) (s.step (.release p)).1.tr (s.step (.release p)).1.par) ∧
    (∀ p g old sid o dest, p ≠ 0 → owned.lookup p = some g → s.par.live p = true →
      Completes (runAlone s owned (.realloc p old 0 sid) o)
        (s.step (.realloc p old 0 dest sid)).1.tr (s.step (.realloc p old 0 dest sid)).1.par) ∧
    (∀ old new sid dest, new ≠ 0 → freshAddr s.par dest = true →
      Completes (runAlone s owned (.realloc 0 old new sid) dest)
        (s.step (.realloc 0 old new dest sid)).1.tr (s.step (.realloc 0 old new dest sid)).1.par) ∧
    (∀ p g old new sid, p ≠ 0 → new ≠ 0 → owned.lookup p = some g → s.par.live p = true →
      s.par.reallocOK p old new p = true →
      Completes (runAlone s owned (.realloc p old new sid) p)
        (s.step (.realloc p old new p sid)).1.tr (s.step (.realloc p old new p sid)).1.par) ∧
    (∀ p g old new sid dest, p ≠ 0 → new ≠ 0 → owned.lookup p = some g → s.par.live p = true → dest ≠ p →
      freshAddr s.par dest = true → s.par.reallocOK p old new dest = true →
      Completes (runAlone s owned (.realloc p old new sid) dest)
        (s.step (.realloc p old new dest sid)).1.tr (s.step (.realloc p old new dest sid)).1.par) :=
  ⟨fun dest sz sid h1 h2 => acquire_refines s owned dest sz sid h1 h2,
   fun dest n sz sid h1 h2 h3 h4 => calloc_refines s owned dest n sz sid h1 h2 h3 h4,
   fun p g o h1 h2 h3 => release_refines s owned p g h1 h2 h3 o,
   fun p g old sid o dest h1 h2 h3 => realloc_zero_refines s owned p g old sid h1 h2 h3 o dest,
   fun old new sid dest h1 h2 => realloc_null_refines s owned old new sid dest h1 h2,
   fun p g old new sid h1 h2 h3 h4 h5 => realloc_keep_refines s owned p g old new sid h1 h2 h3 h4 h5,
   fun p g old new sid dest h1 h2 h3 h4 h5 h6 h7 => realloc_move_refines s owned p g old new sid dest h1 h2 h3 h4 h5 h6 h7⟩

/-! Non-vacuity: concrete histories / schedules in which the quantities above are non-trivial. -/

/-- a sequential history with realloc-move, realloc-keep and a release: 2 live blocks, 648 bytes -/
example :
    let s := (Seq.new .bytes 8).run [.acquire 1 48 1, .calloc 2 3 16 2, .realloc 1 48 600 1 3, .realloc 2 48 10 3 3,
                                      .acquire 2 38 1, .release 3]
    s.tr.bytes = 638 ∧ s.tr.count = 2 ∧ s.par.blocks.length = 2 := by decide

/-- a wrapped allocator without `mem_realloc`: the shrinking realloc keeps the block where it is (the
emulation does nothing) and the tracer must still re-record the new size: 100 → 40 bytes -/
example :
    let s := (Seq.new .bytes 8 { blocks := [], hasRealloc := false, hasCalloc := false }).run
      [.acquire 1 100 1, .realloc 1 100 40 1 3, .calloc 2 2 3 2, .realloc 2 6 50 3 3]
    s.tr.bytes = 90 ∧ s.tr.count = 2 ∧ s.par.blocks.map (·.1) = [3, 1] := by decide

/-- two threads: the second acquire completes between the first one's `fetch_add` and its `put`;
the counter is ahead of the table by the first block's size -/
example :
    let s := run (Sys.init .bytes 8) [.start (.acquire 100 1), .step 0 7, .step 0 0,
                                       .start (.acquire 5 1), .step 1 9, .step 1 0, .step 1 0, .step 1 0, .step 1 0]
    s.sh.tr.allocated = 105 ∧ s.sh.tr.allocs.bytes = 5 ∧ (s.pool.map addedOf).sum = 100 ∧ ¬ s.quiescent := by decide

/-- … and a realloc in flight between its untrack and its track, with a release on another thread
between `fetch_sub` and `remove_element` -/
example :
    let s := run (Sys.init .stacks 8)
      [.start (.acquire 100 1), .step 0 7, .step 0 0, .step 0 0, .step 0 0, .step 0 0, .step 0 0, .step 0 0, .step 0 0,
       .start (.acquire 30 1), .step 1 8, .step 1 0, .step 1 0, .step 1 0, .step 1 0, .step 1 0, .step 1 0, .step 1 0,
       .start (.realloc 7 100 40 3), .step 2 0, .step 2 0, .step 2 0, .step 2 0, .step 2 0, .step 2 9,
       .start (.release 8), .step 3 0, .step 3 0, .step 3 0]
    s.sh.tr.allocated = 0 ∧ s.sh.tr.allocs.bytes = 30 ∧ (s.pool.map subbedOf).sum = 30 ∧ s.sh.owned = [] := by decide

end AwsVerif.Props.C17
