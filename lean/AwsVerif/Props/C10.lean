import AwsVerif.Model.Cbor
import AwsVerif.Proofs.C10.Roundtrip
import AwsVerif.Proofs.C10.Narrow
import AwsVerif.Proofs.C10.Consume
import AwsVerif.Proofs.C10.Growth
import AwsVerif.Proofs.C10.Rfc
import AwsVerif.Proofs.C10.GenBridge
/-!
# C10 — CBOR encoder and decoder round-trip every item sequence

Theorems about the model `AwsVerif.Cbor` (`Model/Cbor.lean`) of `source/cbor.c` + libcbor.
Vocabulary (all defined in `Proofs/C10/*`, nothing here is bounded):

* `ItemOk i` — a byte/text string is shorter than 2^64 (`size_t`); every other item is unrestricted.
* `normalise i` (model) — identity except on `float bits`, which becomes what
  `aws_cbor_encoder_write_float` chose to write: `uint v`, `negint v`, the float widened back
  (`float (widen f)`) or the double itself.
* `scaled64 n : Int` — the finite double with pattern `n` as a multiple of 2^-1074;
  `scaled32 f : Int` — the finite float with pattern `f` as a multiple of 2^-149;
  so "same value" is `scaled64 n = scaled32 f * 2^925`, resp. `scaled64 n = z * 2^1074` for an
  integer `z`.  `IsInt64 n` / `IsSingle n`: the double is an integer in [-2^63, 2^63) / has the
  value of some finite binary32 number.
* `DataItem` — a well-formed data item as a tree (leaf, tag, definite array / map, indefinite
  bytes / text / array / map); `t.flatten` is the sequence of encoder calls that writes it, `t.WF`
  says the counts match the heads and leaves are scalars.
-/
namespace AwsVerif.Props.C10
open AwsVerif.Cbor AwsVerif.Proofs.C10

/-! ## Round trip -/

/-- Every item sequence written by the encoder is popped back by the decoder (peek + typed pop /
consume_single per element, until no byte remains) as the same sequence of types and values, a double
being replaced by what its narrowing wrote; the decoder ends with no byte left, nothing cached and no
error. -/
theorem c10_roundtrip (is : List Item) (h : ∀ i ∈ is, ItemOk i) :
    decodeAll (encodeAll is) = ({ src := [], cache := none, err := none }, .ok (is.map normalise)) :=
  decodeAll_encodeAll is h

/-- One step, with anything behind it: popping from `encItem i ++ rest` returns `normalise i` and
leaves exactly `rest` (so exactly the item's bytes are consumed). -/
theorem c10_roundtrip_step (i : Item) (h : ItemOk i) (rest : List UInt8) :
    popAny { src := encItem i ++ rest, cache := none, err := none } =
      ({ src := rest, cache := none, err := none }, .ok (normalise i)) :=
  popAny_encItem i h rest

/-- the stream decoder itself: one element, `(encItem i).length` bytes read -/
theorem c10_stream_decode (i : Item) (h : ItemOk i) (rest : List UInt8) :
    streamDecode (encItem i ++ rest) = .ok (normalise i) (encItem i).length :=
  streamDecode_encItem i h rest

/-- `normalise` touches floats only. -/
theorem c10_normalise_nonfloat (i : Item) (h : ∀ b, i ≠ .float b) : normalise i = i := by
  cases i <;> first | rfl | exact absurd rfl (h _)

/-! ## Shortest heads -/

/-- `_cbor_encode_uint` uses the shortest of the five widths: the argument is embedded below 24, then
1, 2, 4, 8 bytes exactly when the value does not fit the next smaller width. -/
theorem c10_shortest_head (v off : Nat) :
    (encUint v off).length =
      1 + (if v < 24 then 0 else if v < 2^8 then 1 else if v < 2^16 then 2 else if v < 2^32 then 4 else 8) := by
  rw [encUint_length]; unfold headLen
  repeat' split
  all_goals rfl

/-- every item that carries an integer argument is written through `_cbor_encode_uint` (strings:
followed by the raw bytes), including a double that narrows to an integer -/
theorem c10_item_heads :
    (∀ v, encItem (.uint v) = encUint v.toNat 0x00) ∧
    (∀ v, encItem (.negint v) = encUint v.toNat 0x20) ∧
    (∀ b, encItem (.bytes b) = encUint b.length 0x40 ++ b) ∧
    (∀ b, encItem (.text b) = encUint b.length 0x60 ++ b) ∧
    (∀ n, encItem (.arrayStart n) = encUint n.toNat 0x80) ∧
    (∀ n, encItem (.mapStart n) = encUint n.toNat 0xA0) ∧
    (∀ t, encItem (.tag t) = encUint t.toNat 0xC0) ∧
    (∀ bits v, narrow bits.toNat = .uint v → encItem (.float bits) = encUint v 0x00) ∧
    (∀ bits v, narrow bits.toNat = .negint v → encItem (.float bits) = encUint v 0x20) := by
  refine ⟨fun _ => rfl, fun _ => rfl, fun _ => rfl, fun _ => rfl, fun _ => rfl, fun _ => rfl, fun _ => rfl, ?_, ?_⟩
  · intro bits v h; simp [encItem, h, encForm]
  · intro bits v h; simp [encItem, h, encForm]

/-! ## Double narrowing -/

/-- A finite double is written as an integer iff it is an integer in [-2^63, 2^63); otherwise as a
single iff some finite binary32 number has its value; otherwise as a double. -/
theorem c10_float_smallest (n : Nat) (hn : n < 2^64) (hfin : fExp n ≠ 2047) :
    (IsInt64 n → ∃ v, narrow n = .uint v ∨ narrow n = .negint v) ∧
    (¬ IsInt64 n → IsSingle n → ∃ f, narrow n = .single f) ∧
    (¬ IsInt64 n → ¬ IsSingle n → narrow n = .double n) :=
  narrow_smallest n hn hfin

/-- The narrowing preserves the numeric value of a finite double: the integer written is the value,
the float written is finite, has the value and widens back to the very same pattern, a double is
written unchanged. -/
theorem c10_float_value (n : Nat) (hn : n < 2^64) (hfin : fExp n ≠ 2047) :
    (∀ v, narrow n = .uint v → v < 2^63 ∧ scaled64 n = (v : Int) * 2^1074) ∧
    (∀ v, narrow n = .negint v → v < 2^63 ∧ scaled64 n = -((v : Int) + 1) * 2^1074) ∧
    (∀ f, narrow n = .single f → f < 2^32 ∧ e32 f ≠ 255 ∧ scaled64 n = scaled32 f * 2^925 ∧ widen f = n) ∧
    (∀ d, narrow n = .double d → d = n) :=
  narrow_value n hn hfin

/-- Infinities and NaNs are written as a single of the same class and sign: the decoder returns an
infinity as the same pattern and a NaN as a NaN. -/
theorem c10_float_nonfinite (n : Nat) (hn : n < 2^64) (hinf : fExp n = 2047) :
    ∃ f, narrow n = .single f ∧ f < 2^32 ∧ e32 f = 255 ∧ fExp (widen f) = 2047 ∧
      fSign (widen f) = fSign n ∧ (fMant (widen f) = 0 ↔ fMant n = 0) ∧ (fMant n = 0 → widen f = n) :=
  narrow_nonfinite n hn hinf

/-! ## Skipping a whole data item -/

/-- On the encoding of a well-formed data item, followed by anything, `consume_next_whole_data_item`
succeeds and leaves exactly what follows the item — for every nesting — with the fuel the driver
gives (`src.length + 2`). -/
theorem c10_consume_whole (t : DataItem) (hwf : t.WF) (rest : List UInt8) :
    consumeWholeItem { src := encodeAll t.flatten ++ rest, cache := none, err := none } =
      ({ src := rest, cache := none, err := none }, none) :=
  consumeWholeItem_tree t hwf rest

/-- the recursion needs exactly the nesting depth: any fuel ≥ `t.depth` gives the same result -/
theorem c10_consume_whole_fuel (t : DataItem) (hwf : t.WF) (fuel : Nat) (rest : List UInt8)
    (hf : t.depth ≤ fuel) :
    consumeWhole fuel { src := encodeAll t.flatten ++ rest, cache := none, err := none } =
      ({ src := rest, cache := none, err := none }, none) :=
  consume_item t hwf fuel rest hf

/-- the same when the item's head element has already been peeked into the cache -/
theorem c10_consume_whole_peeked (t : DataItem) (hwf : t.WF) (fuel : Nat) (rest : List UInt8)
    (hf : t.depth ≤ fuel) :
    consumeWhole fuel (peekType { src := encodeAll t.flatten ++ rest, cache := none, err := none }).1 =
      ({ src := rest, cache := none, err := none }, none) := by
  obtain ⟨hd, _⟩ := streamDecode_tree t hwf rest
  have hpos := depth_pos t
  cases fuel with
  | zero => omega
  | succ fuel =>
    rw [peekType_uncached _ _ _ hd]
    simp only
    rw [consumeWhole_peeked fuel _ _ _ hd]
    exact consume_item t hwf (fuel + 1) rest hf

/-! ## Buffer growth -/

/-- The bytes written do not depend on the buffer-growth points, and the capacity reserved before
each libcbor call covers what it writes (so `encoded_len != 0` always holds). -/
theorem c10_growth (is : List Item) :
    (is.foldl Encoder.write {}).buf = encodeAll is ∧
    (is.foldl Encoder.write {}).buf.length ≤ (is.foldl Encoder.write {}).cap := by
  have := writeAll_spec is {} (by decide)
  simpa using this

/-! ## Well-formedness against an independent reader -/

/-- The encoding of every well-formed data item (with an even number of items in an indefinite map:
`Rfc.Strict`) followed by anything is accepted by the RFC 8949 appendix-C reader `Rfc.wellFormed`
(a Lean transcription of the RFC's pseudo-code, independent of libcbor's decoder and of the model's
`streamDecode`), which reads exactly the item and reports its kind. -/
theorem c10_wellformed (t : DataItem) (hwf : t.WF) (hst : Rfc.Strict t) (breakable : Bool)
    (rest : List UInt8) :
    Rfc.wellFormed ((encodeAll t.flatten ++ rest).length + 1) breakable (encodeAll t.flatten ++ rest) =
      some (Rfc.kindOf t, rest) :=
  Rfc.rfc_accepts t hwf hst breakable rest

/-- any fuel above the nesting depth gives the same answer -/
theorem c10_wellformed_fuel (t : DataItem) (hwf : t.WF) (hst : Rfc.Strict t) (fuel : Nat) (breakable : Bool)
    (rest : List UInt8) (hf : t.depth < fuel) :
    Rfc.wellFormed fuel breakable (encodeAll t.flatten ++ rest) = some (Rfc.kindOf t, rest) :=
  Rfc.rfc_item t hwf hst fuel breakable rest hf

/-- the reader is not vacuous: it rejects reserved additional information, a stray break, a wrong
chunk in an indefinite string, an odd indefinite map, a truncated argument and a bad simple value -/
example : Rfc.wellFormed 5 false [0x1C] = none := by decide
example : Rfc.wellFormed 5 false [0xFF] = none := by decide
example : Rfc.wellFormed 5 false [0x5F, 0x01, 0xFF] = none := by decide
example : Rfc.wellFormed 5 false [0xBF, 0x01, 0xFF] = none := by decide
example : Rfc.wellFormed 5 false [0x19, 0x01] = none := by decide
example : Rfc.wellFormed 5 false [0xF8, 0x10] = none := by decide
example : Rfc.wellFormed 5 false [0x9F, 0x01, 0x82, 0x02, 0x03, 0xFF, 0x00] = some (.indefinite, [0x00]) := by decide

/-! ## Tie to the layer regenerated from /repo on every run (`AwsVerif.Gen.Cbor`, gen/cbor_gen.py)

The statements below are about definitions re-derived from the current text of cbor.c, encoders.c,
encoding.c, streaming.c and loaders.c; an edit there changes what is being proved. -/

section Generated
open AwsVerif.Gen.Cbor

/-- `_cbor_encode_uint`'s threshold chain, translated from encoders.c, picks the branch the model
takes, and is the shortest-width rule -/
theorem c10_gen_width (v off : Nat) :
    encUint v off =
      (if encodeUintWidth v = 8 then encUint8 v off else if encodeUintWidth v = 16 then encUint16 v off
       else if encodeUintWidth v = 32 then encUint32 v off else encUint64 v off) ∧
    encodeUintWidth v = (if v < 2^8 then 8 else if v < 2^16 then 16 else if v < 2^32 then 32 else 64) :=
  ⟨gen_width_decision v off, gen_width_values v⟩

/-- every byte `_cbor_encode_uintN` stores (translated store by store from encoders.c) is the model's
byte, and the returned length is the number of bytes -/
theorem c10_gen_bytes (v off : Nat) :
    (v < 256 → encUint8 v off =
      (if v ≤ 23 then [b8 (enc8_b0 v true 2 off).2] else [b8 (enc8_b0 v true 2 off).2, b8 (enc8_b1 v true 2 off).2])) ∧
    encUint16 v off = [b8 (enc16_b0 v true 3 off).2, b8 (enc16_b1 v true 3 off).2, b8 (enc16_b2 v true 3 off).2] ∧
    encUint32 v off = [b8 (enc32_b0 v true 5 off).2, b8 (enc32_b1 v true 5 off).2, b8 (enc32_b2 v true 5 off).2,
      b8 (enc32_b3 v true 5 off).2, b8 (enc32_b4 v true 5 off).2] ∧
    encUint64 v off = [b8 (enc64_b0 v true 9 off).2, b8 (enc64_b1 v true 9 off).2, b8 (enc64_b2 v true 9 off).2,
      b8 (enc64_b3 v true 9 off).2, b8 (enc64_b4 v true 9 off).2, b8 (enc64_b5 v true 9 off).2,
      b8 (enc64_b6 v true 9 off).2, b8 (enc64_b7 v true 9 off).2, b8 (enc64_b8 v true 9 off).2] ∧
    (v < 256 → enc8Len v 2 off = (encUint8 v off).length) ∧ enc16Len v 3 off = (encUint16 v off).length ∧
    enc32Len v 5 off = (encUint32 v off).length ∧ enc64Len v 9 off = (encUint64 v off).length :=
  ⟨gen_bytes8 v off, gen_bytes16 v off, gen_bytes32 v off, gen_bytes64 v off,
   fun h => gen_len8 v 2 off h (by omega), gen_len16 v 3 off (by omega), gen_len32 v 5 off (by omega),
   gen_len64 v 9 off (by omega)⟩

/-- Every libcbor encode call of cbor.c (17 sites, regenerated) is preceded by
`aws_byte_buf_reserve_smart_relative` with a size that makes the libcbor writer (generated length
functions) return a non-zero length for every value the site can pass, and leaves room for a string's
payload; the sizes are the model's `reserveLen`. -/
theorem c10_gen_reservation :
    (∀ s ∈ sites, SiteSafe s) ∧
    sites.all (fun s => modelReserve s.encoder == some (s.base, s.plusLen)) = true :=
  ⟨gen_sites_safe, gen_reserve_model⟩

/-- Every `aws_cbor_encoder_write_*` other than `write_float` reaches its reserve + encode call
unconditionally (no `return`, no branch other than the fatal assertions and `write_bool`'s choice of the
control value): a call cannot silently write nothing, whatever its argument (e.g. a `{NULL, 0}` cursor). -/
theorem c10_gen_writers_unconditional :
    writersWithReturn = ["aws_cbor_encoder_write_float"] ∧ writersWithBranch = [] :=
  gen_writers_unconditional

/-- the offsets / bytes encoding.c passes for each item kind and the control values of cbor.c are the
model's -/
theorem c10_gen_offsets :
    encFns.lookup "cbor_encode_uint" = some ("_cbor_encode_uint", 0x00) ∧
    encFns.lookup "cbor_encode_negint" = some ("_cbor_encode_uint", 0x20) ∧
    encFns.lookup "cbor_encode_bytestring_start" = some ("_cbor_encode_uint", 0x40) ∧
    encFns.lookup "cbor_encode_string_start" = some ("_cbor_encode_uint", 0x60) ∧
    encFns.lookup "cbor_encode_array_start" = some ("_cbor_encode_uint", 0x80) ∧
    encFns.lookup "cbor_encode_map_start" = some ("_cbor_encode_uint", 0xA0) ∧
    encFns.lookup "cbor_encode_tag" = some ("_cbor_encode_uint", 0xC0) ∧
    encFns.lookup "cbor_encode_ctrl" = some ("_cbor_encode_uint8", 0xE0) ∧
    encFns.lookup "cbor_encode_single" = some ("_cbor_encode_uint32", 0xE0) ∧
    encFns.lookup "cbor_encode_double" = some ("_cbor_encode_uint64", 0xE0) ∧
    encFns.lookup "cbor_encode_indef_bytestring_start" = some ("_cbor_encode_byte", 0x5F) ∧
    encFns.lookup "cbor_encode_indef_string_start" = some ("_cbor_encode_byte", 0x7F) ∧
    encFns.lookup "cbor_encode_indef_array_start" = some ("_cbor_encode_byte", 0x9F) ∧
    encFns.lookup "cbor_encode_indef_map_start" = some ("_cbor_encode_byte", 0xBF) ∧
    encFns.lookup "cbor_encode_break" = some ("_cbor_encode_byte", 0xFF) :=
  gen_offsets_model

theorem c10_gen_simple_values :
    AWS_CBOR_SIMPLE_VAL_FALSE = 20 ∧ AWS_CBOR_SIMPLE_VAL_TRUE = 21 ∧ AWS_CBOR_SIMPLE_VAL_NULL = 22 ∧
    AWS_CBOR_SIMPLE_VAL_UNDEFINED = 23 ∧ AWS_CBOR_SIMPLE_VAL_BREAK = 31 ∧
    s_cbor_element_width_64bit = 9 ∧ s_cbor_element_width_32bit = 5 :=
  gen_simple_values

/-- `_cbor_load_uint16/32/64` (translated with the byte reads as parameters) are the model's big-endian
load, and every loader reads the number of bytes its name says -/
theorem c10_gen_loaders :
    (∀ b0 b1, b0 < 256 → b1 < 256 → loadUint16 b0 b1 = loadBE [b8 b0, b8 b1]) ∧
    (∀ b0 b1 b2 b3, b0 < 256 → b1 < 256 → b2 < 256 → b3 < 256 →
      loadUint32 b0 b1 b2 b3 = loadBE [b8 b0, b8 b1, b8 b2, b8 b3]) ∧
    (∀ b0 b1 b2 b3 b4 b5 b6 b7, b0 < 256 → b1 < 256 → b2 < 256 → b3 < 256 → b4 < 256 → b5 < 256 → b6 < 256 →
      b7 < 256 → loadUint64 b0 b1 b2 b3 b4 b5 b6 b7 = loadBE [b8 b0, b8 b1, b8 b2, b8 b3, b8 b4, b8 b5, b8 b6, b8 b7]) ∧
    loaderWidths = [("_cbor_decode_half", 2), ("_cbor_load_double", 8), ("_cbor_load_float", 4), ("_cbor_load_half", 2),
      ("_cbor_load_uint16", 2), ("_cbor_load_uint32", 4), ("_cbor_load_uint64", 8), ("_cbor_load_uint8", 1)] :=
  ⟨gen_load16, gen_load32, gen_load64, gen_loader_widths⟩

/-- `claim_bytes`' test (translated from streaming.c) succeeds iff the unread bytes cover the request;
it is the model's need-more test on the argument bytes -/
theorem c10_gen_claim_bytes :
    (∀ required provided read, read ≤ provided → provided < 2^64 →
      claimBytes required provided read = decide (required ≤ provided - read)) ∧
    (∀ ai (rest : List UInt8), 1 + rest.length < 2^64 →
      claimBytes (argBytes ai) (1 + rest.length) 1 = !decide (rest.length < argBytes ai)) :=
  ⟨gen_claim_bytes, gen_claim_model⟩

/-- The functions Model/Cbor.lean transcribes by hand are, statement for statement, still the text it was written
from (rendered from the clang AST of the current source): the decoder state machine (`decode_next_element`,
`peek_type`, `consume_next_whole_data_item`, `consume_next_single_element`, the nine typed pops), the encoder side
(`ENCODE_THROUGH_LIBCBOR` expansion, `write_float`, `write_bytes` / `write_text`, `write_bool`, the type-only
switch) and the three byte_buf.c functions the encoder relies on. -/
theorem c10_gen_source_text :
    decoderBodies = expectedDecoderBodies ∧ popBodies = expectedPopBodies ∧
    encoderBodies = expectedEncoderBodies ∧ byteBufBodies = expectedByteBufBodies :=
  ⟨gen_decoder_bodies, gen_pop_bodies, gen_encoder_bodies, gen_bytebuf_bodies⟩

/-- `aws_byte_buf_reserve_smart` of byte_buf.c, regenerated (capacity lifted to a parameter, result = the
capacity handed to `aws_byte_buf_reserve`): afterwards the capacity covers the request — for every
capacity, in particular beyond any size threshold — and it is the model's policy `max(request, 2·capacity)`.
With `c10_gen_reservation` (the request is `len + need`) the libcbor writer and the string payload
always have room. -/
theorem c10_gen_reserve_smart :
    (∀ cap req, cap < 2^64 → req < 2^64 → req ≤ reserveSmartCap cap req) ∧
    (∀ cap len add, cap + cap < 2^64 → len + add < 2^64 → reserveSmartCap cap (len + add) = reserveSmart cap len add) :=
  ⟨gen_reserve_smart_ge, gen_reserve_smart_model⟩

set_option maxRecDepth 20000 in
/-- The callback table cbor.c hands to libcbor, regenerated slot by slot (the decode-table theorem below
reads the aws type of each slot from it): each slot's aws callback stores one fixed element type and the
libcbor argument unchanged but for the widening cast listed. -/
theorem c10_gen_callbacks :
    awsCallbacks.map (fun r => (r.1, r.2.2.1, r.2.2.2.2)) =
      [("uint8", "AWS_CBOR_TYPE_UINT", "uint64_t"), ("uint16", "AWS_CBOR_TYPE_UINT", "uint64_t"),
       ("uint32", "AWS_CBOR_TYPE_UINT", "uint64_t"), ("uint64", "AWS_CBOR_TYPE_UINT", ""),
       ("negint64", "AWS_CBOR_TYPE_NEGINT", ""), ("negint32", "AWS_CBOR_TYPE_NEGINT", "uint64_t"),
       ("negint16", "AWS_CBOR_TYPE_NEGINT", "uint64_t"), ("negint8", "AWS_CBOR_TYPE_NEGINT", "uint64_t"),
       ("byte_string_start", "AWS_CBOR_TYPE_INDEF_BYTES_START", ""), ("byte_string", "AWS_CBOR_TYPE_BYTES", ""),
       ("string", "AWS_CBOR_TYPE_TEXT", ""), ("string_start", "AWS_CBOR_TYPE_INDEF_TEXT_START", ""),
       ("indef_array_start", "AWS_CBOR_TYPE_INDEF_ARRAY_START", ""), ("array_start", "AWS_CBOR_TYPE_ARRAY_START", ""),
       ("indef_map_start", "AWS_CBOR_TYPE_INDEF_MAP_START", ""), ("map_start", "AWS_CBOR_TYPE_MAP_START", ""),
       ("tag", "AWS_CBOR_TYPE_TAG", ""), ("float2", "AWS_CBOR_TYPE_FLOAT", "double"),
       ("float4", "AWS_CBOR_TYPE_FLOAT", "double"), ("float8", "AWS_CBOR_TYPE_FLOAT", ""),
       ("undefined", "AWS_CBOR_TYPE_UNDEFINED", ""), ("null", "AWS_CBOR_TYPE_NULL", ""),
       ("boolean", "AWS_CBOR_TYPE_BOOL", ""), ("indef_break", "AWS_CBOR_TYPE_BREAK", "")] := by
  rw [gen_callbacks]; decide

set_option maxRecDepth 20000 in
/-- The bookkeeping functions of cbor.c, regenerated as text: `reset` is one unconditional
`aws_byte_buf_reset`, the encoded data is the whole buffer, the position / room handed to libcbor are
`buffer + len` / `capacity - len`, a new decoder starts with the given source, an empty cache and no error,
and the remaining length is `src.len`. -/
theorem c10_gen_accessors :
    accessorBodies.lookup "aws_cbor_encoder_reset" = some "{aws_byte_buf_reset(&encoder->encoded_buf,0)}" ∧
    accessorBodies.lookup "aws_cbor_encoder_get_encoded_data" = some "{return aws_byte_cursor_from_buf(&encoder->encoded_buf);}" ∧
    accessorBodies.lookup "s_get_encoder_current_position" = some "{return (encoder->encoded_buf.buffer+encoder->encoded_buf.len);}" ∧
    accessorBodies.lookup "s_get_encoder_remaining_len" = some "{return (encoder->encoded_buf.capacity-encoder->encoded_buf.len);}" ∧
    accessorBodies.lookup "aws_cbor_decoder_get_remaining_length" = some "{return decoder->src.len;}" ∧
    accessorBodies.lookup "aws_byte_buf_reserve_smart_relative" = some "{requested_capacity=0; if(__builtin_expect(!!aws_add_size_checked(buffer->len,additional_length,&requested_capacity),0)){return -1;} return aws_byte_buf_reserve_smart(buffer,requested_capacity);}" ∧
    accessorBodies.length = 8 := by
  rw [gen_accessors]; decide

/-- The switch of `cbor_stream_decode`, regenerated as one row per initial byte: in every row the loader
reads exactly the bytes that were claimed (the initial byte, or the 1/2/4/8 bytes after it) and string
data starts right behind the length bytes; and the model's `streamDecode` agrees with every row (error
verdict, bytes needed, aws type produced, embedded / literal argument, string payload). -/
theorem c10_gen_decode_table :
    decodeTable.length = 256 ∧ decodeTable.all rowConsistent = true ∧ tableAgrees decodeTable 0 = true :=
  ⟨gen_table_length, gen_loader_matches_claim, gen_table_matches_model⟩

end Generated

/-! ## Hypotheses are satisfiable / concrete instances -/

/-- a nested well-formed item: `[1, 5("a"), {_ 2: h''}]` -/
def sampleTree : DataItem :=
  .arr 3 (.cons (.leaf (.uint 1)) (.cons (.tag 5 (.leaf (.text [0x61])))
    (.cons (.indef .map (.cons (.leaf (.uint 2)) (.cons (.leaf (.bytes [])) .nil))) .nil)))

example : sampleTree.WF := by
  simp [sampleTree, DataItem.WF, DataItems.WF, DataItems.len, DataItems.AllChunks, ChunkOk, IsScalar, ItemOk]

example : Rfc.Strict sampleTree := by
  simp [sampleTree, Rfc.Strict, Rfc.Stricts, DataItems.len]

example : encodeAll sampleTree.flatten = [0x83, 0x01, 0xC5, 0x61, 0x61, 0xBF, 0x02, 0x40, 0xFF] := by decide

/-- 1.5 is neither an int64 nor needs a double: written as single 0x3FC00000 -/
example : narrow 0x3FF8000000000000 = .single 0x3FC00000 := by decide
/-- -2^63 is written as negint 2^63-1, +2^63 as a single -/
example : narrow 0xC3E0000000000000 = .negint (2^63 - 1) := by decide
example : narrow 0x43E0000000000000 = .single 0x5F000000 := by decide
/-- 2^-149 (smallest float subnormal) is written as single 1 and widens back -/
example : narrow 0x36A0000000000000 = .single 1 ∧ widen 1 = 0x36A0000000000000 := by decide
/-- FLT_MAX * (1 + 2^-52) needs a double -/
example : narrow 0x47EFFFFFE0000001 = .double 0x47EFFFFFE0000001 := by decide

end AwsVerif.Props.C10
