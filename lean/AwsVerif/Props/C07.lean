import AwsVerif.Proofs.C07.RunAll
import AwsVerif.Proofs.C06.Bridge
/-!
C07 — task scheduler runs every task exactly once, never early, in time order.

Vocabulary (`Model/Sched.lean`): a *program* is a list of top-level API calls `ops` together with a
script assignment `P` (task → generation → status → actions: what the task function does when it is
invoked; executed re-entrantly, every action guarded by the API contract).  `runOps fuel P (St.init n) ops`
is the state after the program on a fresh scheduler over `n < 2^63` tasks.  Every theorem is about
executions that terminate within `fuel` (`diverged = false`); a script family may genuinely not terminate
(a cancelled task that re-schedules itself forever keeps `clean_up` looping), so this hypothesis cannot be
dropped.  `gen t` = number of times `t` has been scheduled; `log` = one entry `(task, gen, status, now, cause)`
per invocation of a task function; `scheduled t` = `t` is pending; `tsAt t g` = the time generation `g` of
`t` was scheduled for (0 for schedule-now).
-/
namespace AwsVerif.Props.C07
open AwsVerif.Sched AwsVerif.Heap AwsVerif.Proofs.C07

/-- Every scheduled generation of every task is invoked at most once at every point of every program;
exactly once as soon as it is no longer pending; log entries exist only for generations that were
scheduled; and after a `clean_up` nothing is pending, so every scheduled generation has been invoked
exactly once. -/
theorem c07_exactly_once {n : Nat} (hn : n < 2^63) (P : Script) (fuel : Nat) (ops : List Sched.Op)
    (s : St) (hs : s = runOps fuel P (St.init n) ops) (hd : s.diverged = false) :
    (∀ t g, s.log.countP (fun e => e.task == t && e.gen == g) ≤ 1) ∧
    (∀ t g, 1 ≤ g → g ≤ s.gen t → ¬(g = s.gen t ∧ s.scheduled t = true) →
        s.log.countP (fun e => e.task == t && e.gen == g) = 1) ∧
    (∀ e ∈ s.log, 1 ≤ e.gen ∧ e.gen ≤ s.gen e.task ∧ ¬(e.gen = s.gen e.task ∧ s.scheduled e.task = true)) ∧
    (∀ ops', ops = ops' ++ [.cleanUp] →
        (∀ t, s.scheduled t = false) ∧
        ∀ t g, 1 ≤ g → g ≤ s.gen t → s.log.countP (fun e => e.task == t && e.gen == g) = 1) := by
  subst hs
  have hr := reach_good hn P fuel ops
  have hg := good_of_not_diverged hr.1 hd
  have hcount := hg.linv.count
  refine ⟨?_, ?_, ?_, ?_⟩
  · intro t g
    change List.countP (entryOf t g) _ ≤ 1
    rw [hcount t g]; split <;> omega
  · intro t g h1 h2 h3
    change List.countP (entryOf t g) _ = 1
    rw [hcount t g]; simp only [h1, h2, h3, not_false_eq_true, and_self, if_true]
  · intro e he
    have := hcount e.task e.gen
    have hpos : 0 < List.countP (entryOf e.task e.gen) (runOps fuel P (St.init n) ops).log :=
      List.countP_pos_iff.mpr ⟨e, he, by simp [entryOf]⟩
    rw [this] at hpos
    split at hpos
    · next hc => exact hc
    · omega
  · intro ops' hops
    subst hops
    have hnone : ∀ t, (runOps fuel P (St.init n) (ops' ++ [.cleanUp])).scheduled t = false := by
      intro t
      have e : runOps fuel P (St.init n) (ops' ++ [.cleanUp]) = cleanUp fuel P (runOps fuel P (St.init n) ops') := by
        rw [runOps_append]; rfl
      rw [e] at hr hd ⊢
      exact cleanUp_none_pending hr.1 hr.2 hd t
    refine ⟨hnone, ?_⟩
    intro t g h1 h2
    change List.countP (entryOf t g) _ = 1
    rw [hcount t g]
    simp [h1, h2, hnone t]

/-- A task invoked with status RUN is never early: the time of the `run_all` call that invoked it is at or
after the time its generation was scheduled for. -/
theorem c07_never_early {n : Nat} (hn : n < 2^63) (P : Script) (fuel : Nat) (ops : List Sched.Op)
    (s : St) (hs : s = runOps fuel P (St.init n) ops) (hd : s.diverged = false) :
    ∀ e ∈ s.log, e.status = .run → s.tsAt e.task e.gen ≤ e.now := by
  subst hs
  exact (good_of_not_diverged (reach_good hn P fuel ops).1 hd).linv.early

/-- The status is CANCELED exactly for invocations made by `cancel_task` or by `clean_up`, and RUN exactly
for invocations made by the run loop of `run_all`. -/
theorem c07_cancelled_iff {n : Nat} (hn : n < 2^63) (P : Script) (fuel : Nat) (ops : List Sched.Op)
    (s : St) (hs : s = runOps fuel P (St.init n) ops) (hd : s.diverged = false) :
    ∀ e ∈ s.log, (e.status = .canceled ↔ (e.cause = .cancel ∨ e.cause = .cleanUp)) ∧
                 (e.status = .run ↔ e.cause = .runAll) := by
  subst hs
  intro e he
  have := (good_of_not_diverged (reach_good hn P fuel ops).1 hd).linv.cause e he
  cases hs : e.status <;> cases hc : e.cause <;> simp [hs, hc, Consistent] at this ⊢

/-- `has_tasks` between API calls: `(true, 0)` if a run-now task is pending; `(false, UINT64_MAX)` if
nothing is pending; otherwise `true` with the minimum timestamp over all pending tasks (attained). -/
theorem c07_next_time {n : Nat} (hn : n < 2^63) (P : Script) (fuel : Nat) (ops : List Sched.Op)
    (s : St) (hs : s = runOps fuel P (St.init n) ops) (hd : s.diverged = false) :
    (s.asap ≠ [] → hasTasks s = (true, 0)) ∧
    (∀ t, t ∈ s.asap → s.scheduled t = true ∧ s.ts t = 0) ∧
    (s.asap = [] → (∀ t, s.scheduled t = false) → hasTasks s = (false, UINT64_MAX)) ∧
    (s.asap = [] → (∃ t, s.scheduled t = true) →
      (hasTasks s).1 = true ∧ (∃ t, s.scheduled t = true ∧ s.ts t = (hasTasks s).2) ∧
      ∀ t, s.scheduled t = true → (hasTasks s).2 ≤ s.ts t) := by
  subst hs
  have hr := reach_good hn P fuel ops
  have hg := good_of_not_diverged hr.1 hd
  have hrun : (runOps fuel P (St.init n) ops).running = [] := by
    rcases hr.2 with h | h
    · rw [hd] at h; cases h
    · exact h
  have := hasTasks_spec hg.sinv hrun
  refine ⟨this.1, ?_, this.2.1, this.2.2⟩
  intro t ht
  exact ⟨sched_of_mem_asap hg.sinv ht, hg.sinv.asapTs t ht⟩

/-- Order within one `run_all now` call (`s` before the call, `s'` after it): the tasks the run loop invokes are,
in this order, a sublist of `s.asap ++ D` — the run-now tasks in the order they were scheduled (`asap` is
appended to by `schedule_now`), then timed tasks `D` in non-decreasing time, all due; what is missing from the
batch was cancelled by a task of the batch.  Every such invocation is of the generation that was pending when
the call began (a task scheduled from inside a running task — including a re-schedule of the running task —
waits for the next call), has status RUN and logs the time of this call. -/
theorem c07_order {n : Nat} (hn : n < 2^63) (P : Script) (fuel : Nat) (ops' : List Sched.Op) (now : Nat)
    (s s' : St) (hs : s = runOps fuel P (St.init n) ops') (hs' : s' = runOps fuel P (St.init n) (ops' ++ [.runAll now]))
    (hd : s'.diverged = false) :
    s.log.length ≤ s'.log.length ∧
    ∃ D, (D.map s.ts).Pairwise (· ≤ ·) ∧ (∀ d ∈ D, s.ts d ≤ now) ∧ (∀ a ∈ s.asap, s.ts a = 0) ∧
      (((s'.log.drop s.log.length).filter (fun e => e.cause == Cause.runAll)).map (·.task)).Sublist (s.asap ++ D) ∧
      (∀ e ∈ s'.log.drop s.log.length, e.now = now ∧
          (e.cause = .runAll → e.gen = s.gen e.task ∧ e.status = .run)) := by
  subst hs hs'
  obtain ⟨e, hg, hrun⟩ := runAll_states hn P fuel ops' now hd
  rw [e] at hd ⊢
  obtain ⟨D, h1, h2, h3, h4, _, h6, _⟩ := runAll_spec hg hrun fuel P now hd
  refine ⟨h6, D, h1, h2, hg.sinv.asapTs, h3, ?_⟩
  intro x hx
  refine ⟨(h4 x hx).2, fun hc => ⟨(h4 x hx).1 hc, ?_⟩⟩
  have hgood' := good_of_not_diverged (by rw [← e]; exact (reach_good hn P fuel _).1) hd
  have := hgood'.linv.cause x (List.mem_of_mem_drop hx)
  cases hst : x.status
  · rfl
  · rw [hst, hc] at this; exact absurd this (by simp [Consistent])

/-- `run_all now` leaves nothing due behind — so a RUN invocation is made by the *first* `run_all` call at or
after the task's time: no task that was pending with time ≤ `now` (run-now tasks have time 0) is still pending
in the same generation after the call; by `c07_exactly_once` that generation has then been invoked exactly once. -/
theorem c07_first_run_all {n : Nat} (hn : n < 2^63) (P : Script) (fuel : Nat) (ops' : List Sched.Op) (now : Nat)
    (s s' : St) (hs : s = runOps fuel P (St.init n) ops') (hs' : s' = runOps fuel P (St.init n) (ops' ++ [.runAll now]))
    (hd : s'.diverged = false) :
    ∀ t, s.scheduled t = true → s.ts t ≤ now →
      ¬(s'.scheduled t = true ∧ s'.gen t = s.gen t) ∧
      s'.log.countP (fun e => e.task == t && e.gen == s.gen t) = 1 := by
  subst hs hs'
  obtain ⟨e, hg, hrun⟩ := runAll_states hn P fuel ops' now hd
  intro t hsch hle
  have hgood' := good_of_not_diverged (reach_good hn P fuel (ops' ++ [.runAll now])).1 hd
  rw [e] at hd hgood' ⊢
  obtain ⟨D, _, _, _, _, h5, _, hmono⟩ := runAll_spec hg hrun fuel P now hd
  have hnot : ¬((sRunAll fuel P (runOps fuel P (St.init n) ops') now .run .runAll).scheduled t = true ∧
      (sRunAll fuel P (runOps fuel P (St.init n) ops') now .run .runAll).gen t = (runOps fuel P (St.init n) ops').gen t) :=
    fun hh => h5 t ⟨hh.1, hh.2, hle⟩
  refine ⟨hnot, ?_⟩
  change List.countP (entryOf t _) _ = 1
  rw [hgood'.linv.count]
  have hpos := hg.sinv.genPos t hsch
  have hm := hmono t
  have hcond : 1 ≤ (runOps fuel P (St.init n) ops').gen t ∧
      (runOps fuel P (St.init n) ops').gen t ≤ (sRunAll fuel P (runOps fuel P (St.init n) ops') now .run .runAll).gen t ∧
      ¬((runOps fuel P (St.init n) ops').gen t = (sRunAll fuel P (runOps fuel P (St.init n) ops') now .run .runAll).gen t ∧
        (sRunAll fuel P (runOps fuel P (St.init n) ops') now .run .runAll).scheduled t = true) :=
    ⟨hpos, hm, fun hh => hnot ⟨hh.2, hh.1.symm⟩⟩
  exact if_pos hcond

/-! ### The comparator, generated from /repo, and the dependency on C06 -/

/-- `s_compare_timestamps`, re-translated from task_scheduler.c on every run (`Gen/HeapIdx.lean`), used with the
queue's test `pred(a, b) > 0` on its C `int` result, is "greater than" on all pairs of `uint64_t` timestamps, and
the comparator `tsCmp` built from it is a total preorder (`CmpOK`), i.e. satisfies the hypothesis of every C06
theorem. -/
theorem c07_comparator :
    (∀ a b, a < 2^64 → b < 2^64 →
      ((0 < Gen.HeapIdx.s_compare_timestamps a b ∧ Gen.HeapIdx.s_compare_timestamps a b < 2^31) ↔ a > b)) ∧
    (∀ a b, a < 2^64 → b < 2^64 → (tsCmp.gt a b = true ↔ a > b)) ∧
    CmpOK tsCmp :=
  ⟨fun _ _ ha hb => compare_timestamps_pos_iff ha hb, fun _ _ ha hb => tsCmp_gt_iff ha hb, tsCmp_ok⟩

/-- The scheduler's timed queue IS the C06 heap (`Model/Heap.lean`) keyed by timestamp with the generated
comparator `tsCmp`; the C07 proofs use the C06 results through their per-operation forms, instantiated at
`tsCmp_ok`: `pushRef_spec` (schedule_future; behind `c06_heap_inv` / `c06_multiset` / `c06_handle_tracks`),
`removeNode_spec` (the pops of `run_all` and the removal by handle in `cancel_task`; behind `c06_pop_min`,
`c06_handle_tracks`), `root_min` (`has_tasks` and the due tests; = `c06_top_min`), `remove_live` / `remove_stale`
(= `c06_handle_tracks` / `c06_stale_refused`).  What they give in every state a terminating program reaches:
the C06 queue invariant for `timed` with handle `t` owning element `(ts t, t)` — heap order under `tsCmp`, the
back-pointer/handle bijection — every task in the heap has its handle on its own element (so `cancel_task` removes
exactly it), a task not in the heap has a stale handle (`remove` by it would be refused with `BAD_NODE` and change
nothing), and `top` is a minimum timestamp. -/
theorem c07_uses_c06 {n : Nat} (hn : n < 2^63) (P : Script) (fuel : Nat) (ops : List Sched.Op)
    (s : St) (hs : s = runOps fuel P (St.init n) ops) (hd : s.diverged = false) :
    AwsVerif.Proofs.C06.QInv tsCmp s.timed (fun t => some ⟨s.ts t, t⟩) s.timed.items.toList ∧
    HeapOrd tsCmp s.timed.items ∧ BpOK s.timed ∧
    (∀ e ∈ s.timed.items.toList, s.scheduled e.uid = true ∧ e.key = s.ts e.uid ∧
        ∃ i, s.timed.handles e.uid = some i ∧ s.timed.items[i]? = some e) ∧
    (∀ t, (∀ e ∈ s.timed.items.toList, e.uid ≠ t) →
        s.timed.handles t = none ∧ remove tsCmp s.timed t = (s.timed, .error .badNode)) ∧
    (∀ e, top s.timed = .ok e → ∀ x ∈ s.timed.items.toList, e.key ≤ x.key) ∧
    -- the removal by handle in `cancel_task` goes through the guards of `aws_priority_queue_remove` as generated
    -- from priority_queue.c (`c06_bridge_remove_guard`)
    (∀ t, remove tsCmp s.timed t =
        if Gen.HeapIdx.remove_guard (AwsVerif.Proofs.C06.curIndex (s.timed.handles t)) s.timed.items.size
            (if s.timed.bp.isSome then 1 else 0) = 0
        then removeNode tsCmp s.timed (AwsVerif.Proofs.C06.curIndex (s.timed.handles t)) else (s.timed, .error .badNode)) := by
  subst hs
  have hg := (good_of_not_diverged (reach_good hn P fuel ops).1 hd).sinv
  refine ⟨hg.heap, hg.heap.heap, hg.heap.frame.bpok, ?_, ?_, ?_,
    fun t => AwsVerif.Proofs.C06.remove_eq_guard tsCmp _ t (by have := heap_size_lt hg; omega)⟩
  · intro e he
    have hm : e.uid ∈ heapTasks (runOps fuel P (St.init n) ops) := mem_heapTasks.mpr ⟨e, he, rfl⟩
    obtain ⟨i, hi, hit⟩ := heap_live hg hm
    refine ⟨sched_of_mem_heap hg hm, hg.heapKey e he, i, hi, ?_⟩
    rw [hit, ← hg.heapKey e he]
  · intro t ht
    have hnm : t ∉ heapTasks (runOps fuel P (St.init n) ops) := by
      intro hm
      obtain ⟨e, he, hu⟩ := mem_heapTasks.mp hm
      exact ht e he hu
    have hdead := not_heap_dead hg hnm
    exact ⟨hdead, AwsVerif.Proofs.C06.remove_stale hdead⟩
  · intro e htop x hx
    have := heap_root_le hg htop (t := x.uid) (mem_heapTasks.mpr ⟨x, hx, rfl⟩)
    rw [hg.heapKey x hx]
    exact this

/-! A non-trivial program satisfying the hypotheses: three tasks, a script that re-schedules its own task
and cancels a task of the same batch, the `timed_list` fall-back, and a clean-up. -/

def demoScript : Script := fun t g st =>
  if t = 0 ∧ g = 1 ∧ st = .run then [.scheduleFuture 0 30, .cancel 2] else []

def demoOps : List Sched.Op :=
  [.schedNow 0, .schedFuture 1 10, .schedFuture 2 5, .failMode true, .schedFuture 1 7, .runAll 6, .cleanUp]

example : (runOps 20 demoScript (St.init 3) demoOps).diverged = false := by decide
example : (runOps 20 demoScript (St.init 3) demoOps).log.map (fun e => (e.task, e.gen, e.status, e.now)) =
    [(0, 1, .run, 6), (2, 1, .canceled, 6), (1, 1, .canceled, UINT64_MAX), (0, 2, .canceled, UINT64_MAX)] := by decide

end AwsVerif.Props.C07
