import AwsVerif.Model.ArrayList
import AwsVerif.Model.LinkedList
import AwsVerif.Proofs.C09.ALRun
import AwsVerif.Proofs.C09.LLObs
import AwsVerif.Proofs.C09.GenBridge
import AwsVerif.Proofs.C09.ALValid
import AwsVerif.Proofs.C09.LLValid
/-!
C09 — array list and intrusive linked list keep exact sequence contents.

Array list: `Model/ArrayList.lean` (byte level).  The reference (`Proofs/C09/ALSpec.lean`) is a list
of elements `Option (List UInt8)` (`none` = a gap element created by `set_at` past the end, whose
bytes nobody specified), the item size, and for static storage the caller's item count.
`Rel l r` says: same length and item size, `length * item_size ≤ current_size ≤ SIZE_MAX`, static
storage has exactly the caller's size, and every element the reference specifies is, byte for byte,
what the backing store holds at `i * item_size`.  `SysOp` adds the two-list operations (`copy`,
`swap_contents`) over a store of lists; `PreAll` are the API preconditions along the run (value
buffers of `item_size` bytes, `swap` indices below `length`, `copy`/`swap_contents` aliasing and
item-size rules) — the harness and driver print `skip` exactly when they fail.
-/
namespace AwsVerif.Props.C09
open AwsVerif AwsVerif.ArrayList AwsVerif.Proofs.C09

/-- **c09_al_refines_seq.**  For every operation sequence over `push_back, push_front, pop_back,
pop_front, pop_front_n, set_at, erase, swap, clear, shrink_to_fit, ensure_capacity, sort, copy,
swap_contents` (and every item size, initial allocation and mix of dynamic / static lists, as fixed
by the initial related stores) the byte-level model and the reference produce the same return codes, and afterwards every list still refines its reference
sequence: same length, `length * item_size ≤ current_size`, `length ≤ capacity`, and `get_at`
returns exactly the bytes of every specified element (an index at / after the end is refused). -/
theorem c09_al_refines_seq (s : Store) (r : RStore) (ops : List SysOp) (h : RelS s r) (hp : PreAll s ops) :
    (runM s ops).2 = (runR r ops).2 ∧
    RelS (runM s ops).1 (runR r ops).1 ∧
    ∀ k, ((runM s ops).1 k).length = ((runR r ops).1 k).items.length ∧
         ((runM s ops).1 k).length * ((runM s ops).1 k).itemSize ≤ ((runM s ops).1 k).currentSize ∧
         ((runM s ops).1 k).length ≤ ((runM s ops).1 k).capacity ∧
         (∀ i v, ((runR r ops).1 k).items[i]? = some (some v) → getAt ((runM s ops).1 k) i = .ok (v.map some)) ∧
         (∀ i, ((runR r ops).1 k).items.length ≤ i → getAt ((runM s ops).1 k) i = .error .invalidIndex) := by
  obtain ⟨h1, h2⟩ := run_sim ops h hp
  refine ⟨h2, h1, fun k => ⟨(h1 k).len, ?_, len_le_capacity (h1 k), fun i v hv => getAt_ref (h1 k) hv,
    fun i hi => getAt_oob (h1 k) hi⟩⟩
  have := (h1 k).fit
  rw [(h1 k).len, (h1 k).isz]; exact this

/-- the reference `sort` (one of the operations of `c09_al_refines_seq`) is the sorted permutation:
when every element is specified the result is the `memcmp`-sorted permutation of the values (the
comparator is a total preorder on whole elements, so it is the unique one up to equal elements). -/
theorem c09_al_sort_sorted (vals : List (List UInt8)) :
    refSort (vals.map some) = (vals.mergeSort leBytes).map some ∧
    (vals.mergeSort leBytes).Perm vals ∧
    (vals.mergeSort leBytes).Pairwise (fun a b => leBytes a b = true) :=
  refSort_sorted vals

/-- `front` / `back` agree with the reference as well. -/
theorem c09_al_front_back (l : AL) (r : RefL) (h : Rel l r) :
    (∀ v, r.items[0]? = some (some v) → front l = .ok (v.map some)) ∧
    (∀ v, r.items[r.items.length - 1]? = some (some v) → back l = .ok (v.map some)) ∧
    (r.items = [] → front l = .error .listEmpty ∧ back l = .error .listEmpty) :=
  ⟨fun _ hv => front_ref h hv, fun _ hv => back_ref h hv, fun he => empty_ref h he⟩

/-- the two initialisers establish the relation with the empty reference sequence -/
theorem c09_al_init (n isz : Nat) (l : AL) :
    (initDynamic n isz = .ok l → Rel l ⟨[], isz, none⟩) ∧ (initStatic n isz = .ok l → Rel l ⟨[], isz, some n⟩) :=
  ⟨rel_initDynamic, rel_initStatic⟩

/-- **c09_al_valid.**  Every state that refines a reference sequence (hence every state reachable by
`c09_al_refines_seq`) satisfies the library's own `aws_array_list_is_valid` ("length and capacity
consistent"); `get_at_ptr` yields the offset `index * item_size` exactly for `index < length`; and
`init_static_from_initialized` over an array holding `vals` refines `vals`. -/
theorem c09_al_valid (l : AL) (r : RefL) (h : Rel l r) :
    isValid l = true ∧
    (∀ i, getAtPtr l i = if i < r.items.length then .ok (i * r.isz) else .error .invalidIndex) ∧
    (∀ (vals : List (List UInt8)) (isz : Nat) (l' : AL), (∀ v, v ∈ vals → v.length = isz) →
      initStaticFromInitialized ((vals.map (fun v => v.map some)).flatten) vals.length isz = .ok l' →
      Rel l' ⟨vals.map some, isz, some vals.length⟩) :=
  ⟨rel_isValid h, rel_getAtPtr h, fun _ _ _ hv hi => rel_initFull hv hi⟩

/-- **c09_al_static_bounds.**  Along every run under the API preconditions no operation performs an
access outside its backing store (`Err.fault` is what every `memcpy/memmove/memset` of the model
reports when `off + n > current_size`), and a list over caller-provided storage keeps exactly the
caller's `item_count * item_size` bytes (it never grows, is never reallocated, stays static). -/
theorem c09_al_static_bounds (s : Store) (r : RStore) (ops : List SysOp) (h : RelS s r) (hp : PreAll s ops) :
    (∀ rc, rc ∈ (runM s ops).2 → rc ≠ .err .fault) ∧
    ∀ k c, (r k).cap = some c →
      ((runM s ops).1 k).dyn = false ∧ ((runM s ops).1 k).currentSize = c * (r k).isz := by
  obtain ⟨h1, _⟩ := run_sim ops h hp
  obtain ⟨h3, h4⟩ := run_safe ops h hp
  refine ⟨h3, fun k c hc => ?_⟩
  have hc' : ((runR r ops).1 k).cap = some c := by rw [(h4 k).2]; exact hc
  refine ⟨by rw [(h1 k).dyn, hc']; rfl, ?_⟩
  have := (h1 k).cap c hc'
  rw [(h4 k).1] at this; exact this

/-- growth of static storage is refused, and a refused call changes nothing: `set_at` at or beyond
the caller's item count fails with INVALID_INDEX (OVERFLOW when `(index+1)*item_size` overflows),
`push_back` / `push_front` on a full list fail with LIST_EXCEEDS_MAX_SIZE (the rewritten code). -/
theorem c09_al_static_refuses (l : AL) (r : RefL) (h : Rel l r) (c : Nat) (hc : r.cap = some c) (v : List UInt8) :
    (∀ i, c ≤ i → (setAt l v i = (l, .err .invalidIndex) ∨ setAt l v i = (l, .err .overflow))) ∧
    (r.items.length = c →
      (pushBack l v = (l, .err .exceedsMax) ∨ pushBack l v = (l, .err .overflow)) ∧
      (pushFront l v = (l, .err .exceedsMax) ∨ pushFront l v = (l, .err .overflow))) := by
  have hdyn : l.dyn = false := by rw [h.dyn, hc]; rfl
  refine ⟨fun i hi => ?_, fun hfull => ?_⟩
  · rcases static_refuses h hc i hi with e | e
    · left; simp only [setAt, e]
    · right; simp only [setAt, e]
  · have hl : c ≤ l.length := by rw [h.len, hfull]; exact Nat.le_refl _
    rcases static_refuses h hc l.length hl with e | e
    · refine ⟨Or.inl ?_, Or.inl ?_⟩
      · simp only [pushBack, setAt, e, hdyn, Bool.not_false, if_true]
      · simp only [pushFront, e, hdyn, Bool.not_false, and_self, if_true]
    · refine ⟨Or.inr ?_, Or.inr ?_⟩
      · simp only [pushBack, setAt, e]
      · have : ¬ (Err.overflow = Err.invalidIndex ∧ (!l.dyn) = true) := by simp
        simp only [pushFront, e, if_neg this]

/-- **c09_swap_slices.**  `aws_array_list_mem_swap` (128-byte slice loop, then the `n & 127`
remainder) on two disjoint `n`-byte ranges inside the block succeeds for every `n`, exchanges
exactly those two ranges and leaves every other byte (and the size) as it was. -/
theorem c09_swap_slices (d : Region) (o1 o2 n : Nat) (h1 : o1 + n ≤ d.length) (h2 : o2 + n ≤ d.length)
    (hd : o1 + n ≤ o2 ∨ o2 + n ≤ o1) :
    ∃ d', memSwap d o1 o2 n = some d' ∧ d'.length = d.length ∧
      ∀ k, d'[k]? = if o1 ≤ k ∧ k < o1 + n then d[o2 + (k - o1)]?
                   else if o2 ≤ k ∧ k < o2 + n then d[o1 + (k - o2)]? else d[k]? := by
  obtain ⟨d', hm, hl, hg⟩ := memSwap_spec h1 h2 hd
  exact ⟨d', hm, hl, hg⟩

/-- **c09_al_overflow.**  When `index + 1` or `(index + 1) * item_size` exceeds `SIZE_MAX`, then
`calc_necessary_size`, `ensure_capacity`, `set_at` — and `push_back` / `push_front` when `length` is
such an index — fail with OVERFLOW_DETECTED and leave the list exactly as it was, for every list
state whatsoever (also forged ones); `init_dynamic` refuses an overflowing initial allocation. -/
theorem c09_al_overflow (l : AL) (i : Nat) (v : List UInt8)
    (h : i + 1 > SIZE_MAX ∨ (i + 1) * l.itemSize > SIZE_MAX) :
    calcNecessarySize l.itemSize i = .error .overflow ∧
    ensureCapacity l i = .error .overflow ∧
    setAt l v i = (l, .err .overflow) ∧
    (l.length = i → pushBack l v = (l, .err .overflow) ∧ pushFront l v = (l, .err .overflow)) ∧
    (∀ n isz, isz ≠ 0 → n * isz > SIZE_MAX → initDynamic n isz = .error .overflow) :=
  ⟨calc_overflow h, ensure_overflow h, setAt_overflow v h,
   fun hl => ⟨pushBack_overflow v (by rw [hl]; exact h), pushFront_overflow v (by rw [hl]; exact h)⟩,
   fun _ _ hz ho => initDynamic_overflow hz ho⟩


/-! ### tie to the source text: definitions regenerated from `source/array_list.c` on every run

`AwsVerif.Gen.ArrayListFns` is rewritten by `gen/arraylist_gen.py` from /repo's current
`array_list.c` (clang AST → Lean, checked arithmetic resolved to the generated `Gen.Math.MathInl`).
The theorems below say the hand-written model computes exactly those functions, so an edit of the
C expressions changes the generated definitions and one of these named theorems stops checking. -/

/-- **c09_gen_calc_necessary_size.**  The model's `calc_necessary_size` is the generated translation of
`aws_array_list_calc_necessary_size` (through `aws_add_size_checked` / `aws_mul_size_checked` as
generated from math.inl): same value on success, OVERFLOW_DETECTED (5) otherwise. -/
theorem c09_gen_calc_necessary_size (isz i : Nat) :
    Gen.ArrayListFns.calc_necessary_size isz i = resOfCalc (calcNecessarySize isz i) := gen_calc isz i

/-- **c09_gen_growth.**  The growth rule of the model (`growthNewSize`, the guard and the overflow test
of `ensure_capacity`) is the generated translation of the expressions in
`aws_array_list_ensure_capacity`, and `ensure_capacity` as a whole is the composition of the
generated functions. -/
theorem c09_gen_growth (cs nec : Nat) (l : AL) (index : Nat) :
    Gen.ArrayListFns.growth_new_size cs nec = growthNewSize cs nec ∧
    Gen.ArrayListFns.needs_growth cs nec = decide (cs < nec) ∧
    Gen.ArrayListFns.growth_overflowed cs nec = decide (nec < cs) ∧
    ensureCapacity l index =
      match Gen.ArrayListFns.calc_necessary_size l.itemSize index with
      | .err _ => .error .overflow
      | .ok nec =>
        if Gen.ArrayListFns.needs_growth l.data.length nec then
          if !l.dyn then .error .invalidIndex
          else if Gen.ArrayListFns.growth_overflowed l.data.length (Gen.ArrayListFns.growth_new_size l.data.length nec)
          then .error .exceedsMax
          else .ok { l with data := l.data ++ List.replicate (Gen.ArrayListFns.growth_new_size l.data.length nec - l.data.length) none }
        else .ok l :=
  ⟨(gen_growth cs nec).1, (gen_growth cs nec).2.1, (gen_growth cs nec).2.2, ensureCapacity_gen l index⟩

/-- **c09_gen_pop_front_n.**  `aws_array_list_pop_front_n` decides "pop everything" by `n ≥ length` on the
*counts* (as the model does — a comparison of byte products would wrap for `n > SIZE_MAX / item_size`), the
second guard is `n > 0`, and the byte counts `popping_bytes`, `remaining_items`, `remaining_bytes` are the
model's `n * item_size`, `length - n`, `(length - n) * item_size`; likewise the index guards of `get_at`,
`get_at_ptr` and `erase` are `length > index` / `index ≥ length`.  All regenerated from array_list.inl. -/
theorem c09_gen_pop_front_n (isz len n i : Nat) :
    Gen.ArrayListFns.pop_front_n_all isz len n = decide (n ≥ len) ∧
    Gen.ArrayListFns.pop_front_n_some isz len n = decide (n > 0) ∧
    (n < len → 0 < isz → len * isz ≤ SIZE_MAX →
      Gen.ArrayListFns.pop_front_n_popping isz len n = n * isz ∧
      Gen.ArrayListFns.pop_front_n_length isz len n = len - n ∧
      Gen.ArrayListFns.pop_front_n_remaining isz len n = (len - n) * isz) ∧
    Gen.ArrayListFns.get_at_ok len i = decide (len > i) ∧ Gen.ArrayListFns.get_at_ptr_ok len i = decide (len > i) ∧
    Gen.ArrayListFns.erase_bad_index len i = decide (i ≥ len) :=
  ⟨(gen_popFrontN isz len n).1, (gen_popFrontN isz len n).2.1, (gen_popFrontN isz len n).2.2,
   (gen_index_guards len i).1, (gen_index_guards len i).2.1, (gen_index_guards len i).2.2⟩

/-- **c09_gen_swap_slices.**  `SLICE`, the slice count and the remainder used by the model's `memSwap`
are the generated translations of the expressions in `aws_array_list_mem_swap`. -/
theorem c09_gen_swap_slices (n : Nat) :
    Gen.ArrayListFns.slice = SLICE ∧ Gen.ArrayListFns.slice_count n = n / SLICE ∧
    Gen.ArrayListFns.slice_remainder n = n &&& (SLICE - 1) := gen_slices n

/-! ### the hypotheses are satisfiable: a concrete run (two lists, one static with 3 items) -/

def exStore : Store := fun k =>
  if k = 1 then { data := List.replicate 6 none, length := 0, itemSize := 2, dyn := false }
  else { data := [], length := 0, itemSize := 2, dyn := true }
def exRef : RStore := fun k => if k = 1 then ⟨[], 2, some 3⟩ else ⟨[], 2, none⟩
def exOps : List SysOp :=
  [.on 0 (.pushBack [1, 2]), .on 0 (.setAt 2 [3, 4]), .on 0 (.swap 0 2), .on 0 (.pushFront [9, 9]), .copy 0 1,
   .on 1 (.pushBack [7, 7]), .on 0 (.erase 1), .on 0 (.popFrontN 1), .on 1 (.pushFront [5, 1]), .on 1 (.sort)]

example : RelS exStore exRef := by
  intro k
  unfold exStore exRef
  by_cases hk : k = 1
  · simp only [if_pos hk]
    exact ⟨rfl, by decide, rfl, by simp, by simp [SIZE_MAX], rfl, fun c hc => (by cases hc; rfl), fun i v hv => (by simp at hv)⟩
  · simp only [if_neg hk]
    exact ⟨rfl, by decide, rfl, by simp, by simp [SIZE_MAX], rfl, fun c hc => (by cases hc), fun i v hv => (by simp at hv)⟩
example : PreAll exStore exOps := by decide
example : (runM exStore exOps).2 = [.ok, .ok, .ok, .ok, .err .destTooSmall, .ok, .ok, .ok, .ok, .ok] := by decide
example : ((runR exRef exOps).1 0).items = [none, some [1, 2]] := by decide

/-! ## Linked list

`Model/LinkedList.lean` (pointer level).  `WellLinked h l xs` (`Proofs/C09/LLSpec.lean`): the nodes
`head, xs…, tail` are pairwise distinct, consecutive ones are linked in both directions (so the walk
along `next` from `head` reaches `tail`), `head.prev = tail.next = NULL`.  `chainOf l xs` is
`head :: xs ++ [tail]`.  Every statement also bounds the footprint (`h' m = h m` for every node
outside the chains involved), so other lists in the same heap stay well linked (`wl_frame`). -/
open AwsVerif.LinkedList

/-- **c09_ll_refines_seq.**  Under well-linkedness every function of `linked_list.inl` runs without
dereferencing NULL, realises the corresponding list operation and preserves well-linkedness:
`init`, `push_back/front`, `pop_back/front` (returning the right node), `insert_before/after` a
member, `remove`, `swap_nodes` for two members (adjacent in either order, distant, identical, or in
two different lists: every list holds its sequence with the two names exchanged), `swap_contents`
(including one or both lists empty), `move_all_back/front` (including an empty source); the
observers `empty`, `front/begin`, `back/rbegin`, `next`, `prev` return what the sequence says. -/
theorem c09_ll_refines_seq (h : Heap) (l : LL) :
    -- init
    (l.head ≠ l.tail → WellLinked (LinkedList.init h l) l [] ∧ ∀ m, m ≠ l.head → m ≠ l.tail → LinkedList.init h l m = h m) ∧
    -- push_back / push_front of a node that is not in the list
    (∀ xs n, WellLinked h l xs → n ∉ chainOf l xs →
      (∃ h', LinkedList.pushBack h l n = some h' ∧ WellLinked h' l (xs ++ [n]) ∧ ∀ m, m ∉ chainOf l xs → m ≠ n → h' m = h m) ∧
      (∃ h', LinkedList.pushFront h l n = some h' ∧ WellLinked h' l (n :: xs) ∧ ∀ m, m ∉ chainOf l xs → m ≠ n → h' m = h m)) ∧
    -- pop_back / pop_front of a non-empty list
    (∀ ys x, WellLinked h l (ys ++ [x]) →
      ∃ h', LinkedList.popBack h l = some (h', x) ∧ WellLinked h' l ys ∧ h' x = ⟨none, none⟩ ∧
        ∀ m, m ∉ chainOf l (ys ++ [x]) → h' m = h m) ∧
    (∀ zs x, WellLinked h l (x :: zs) →
      ∃ h', LinkedList.popFront h l = some (h', x) ∧ WellLinked h' l zs ∧ h' x = ⟨none, none⟩ ∧
        ∀ m, m ∉ chainOf l (x :: zs) → h' m = h m) ∧
    -- insert_before / insert_after a member, remove a member
    (∀ ys zs x n, WellLinked h l (ys ++ x :: zs) → n ∉ chainOf l (ys ++ x :: zs) →
      (∃ h', LinkedList.insertBefore h x n = some h' ∧ WellLinked h' l (ys ++ n :: x :: zs) ∧
        ∀ m, m ∉ chainOf l (ys ++ x :: zs) → m ≠ n → h' m = h m) ∧
      (∃ h', LinkedList.insertAfter h x n = some h' ∧ WellLinked h' l (ys ++ x :: n :: zs) ∧
        ∀ m, m ∉ chainOf l (ys ++ x :: zs) → m ≠ n → h' m = h m)) ∧
    (∀ ys zs x, WellLinked h l (ys ++ x :: zs) →
      ∃ h', LinkedList.remove h x = some h' ∧ WellLinked h' l (ys ++ zs) ∧ h' x = ⟨none, none⟩ ∧
        ∀ m, m ∉ chainOf l (ys ++ x :: zs) → h' m = h m) ∧
    -- swap_nodes of a member `a` of this list with a member `b` of any list `lb` (possibly the same list, possibly `a = b`)
    (∀ xa lb xb a b, WellLinked h l xa → WellLinked h lb xb → a ∈ xa → b ∈ xb →
      ∃ h', LinkedList.swapNodes h a b = some h' ∧
        ∀ (l' : LL) (xs : List NodeId), WellLinked h l' xs → l'.head ≠ a → l'.head ≠ b → l'.tail ≠ a → l'.tail ≠ b →
          WellLinked h' l' (xs.map (sw a b))) ∧
    -- swap_contents / move_all_back / move_all_front with a second, disjoint list
    (∀ xa lb xb, WellLinked h l xa → WellLinked h lb xb → (∀ m, m ∈ chainOf l xa → m ∉ chainOf lb xb) →
      (∃ h', LinkedList.swapContents h l lb = some h' ∧ WellLinked h' l xb ∧ WellLinked h' lb xa ∧
        ∀ m, m ∉ chainOf l xa → m ∉ chainOf lb xb → h' m = h m) ∧
      (∃ h', LinkedList.moveAllBack h l lb = some h' ∧ WellLinked h' l (xa ++ xb) ∧ WellLinked h' lb [] ∧
        ∀ m, m ∉ chainOf l xa → m ∉ chainOf lb xb → h' m = h m) ∧
      (∃ h', LinkedList.moveAllFront h l lb = some h' ∧ WellLinked h' l (xb ++ xa) ∧ WellLinked h' lb [] ∧
        ∀ m, m ∉ chainOf l xa → m ∉ chainOf lb xb → h' m = h m)) ∧
    -- observers
    (∀ xs, WellLinked h l xs →
      (LinkedList.empty h l = true ↔ xs = []) ∧ begin_ h l = (xs ++ [l.tail]).head? ∧ rbegin h l = (l.head :: xs).getLast?) ∧
    (∀ ys zs x, WellLinked h l (ys ++ x :: zs) →
      LinkedList.next h x = (zs ++ [l.tail]).head? ∧ LinkedList.prev h x = (l.head :: ys).getLast?) ∧
    -- a list whose chain is not touched stays well linked
    (∀ h' xs, WellLinked h l xs → (∀ m, m ∈ chainOf l xs → h' m = h m) → WellLinked h' l xs) :=
  ⟨fun hne => ll_init hne,
   fun _ _ w hn => ⟨ll_pushBack w hn, ll_pushFront w hn⟩,
   fun _ _ w => ll_popBack w,
   fun _ _ w => ll_popFront w,
   fun _ _ _ _ w hn => ⟨ll_insertBefore w hn, ll_insertAfter w hn⟩,
   fun _ _ _ w => ll_remove w,
   fun _ _ _ _ _ wa wb ha hb => ll_swapNodes wa wb ha hb,
   fun _ _ _ wa wb hd => ⟨ll_swapContents wa wb hd, ll_moveAllBack wa wb hd, ll_moveAllFront wa wb hd⟩,
   fun _ w => ⟨wl_empty_iff w, ll_front w, ll_back w⟩,
   fun _ _ _ w => ⟨ll_next w, ll_prev w⟩,
   fun _ _ w hs => wl_frame w hs⟩

/-- **c09_ll_valid.**  On a well-linked list the header's own predicates agree with the sequence:
`aws_linked_list_is_valid` and `aws_linked_list_is_valid_deep` hold, every member is
`node_is_in_list`, the head has a valid `next` edge and no valid `prev` edge (the tail the converse),
and a node with both links NULL (fresh, removed, popped — `c09_ll_detached`) is in no list. -/
theorem c09_ll_valid (h : Heap) (l : LL) (xs : List NodeId) (w : WellLinked h l xs) (fuel : Nat) (hf : xs.length + 2 ≤ fuel) :
    LinkedList.isValid h l = true ∧ isValidDeep h l fuel = true ∧ (∀ x, x ∈ xs → nodeIsInList h x = true) ∧
    nodeNextIsValid h l.head = true ∧ nodePrevIsValid h l.head = false ∧
    nodePrevIsValid h l.tail = true ∧ nodeNextIsValid h l.tail = false ∧
    (∀ n, h n = ⟨none, none⟩ → nodeIsInList h n = false ∧ nodeNextIsValid h n = false ∧ nodePrevIsValid h n = false) := by
  obtain ⟨a, b, c, d, e, f, g⟩ := wl_valid w hf
  exact ⟨a, b, c, d, e, f, g, fun _ hn => detached_not_in_list hn⟩

/-- **c09_ll_mirror.**  For a well-linked list the walk along `next` from `head.next` to `tail`
yields the sequence and the walk along `prev` from `tail.prev` to `head` yields its reverse (with
any fuel above the length): forward and backward traversals are mirror images. -/
theorem c09_ll_mirror (h : Heap) (l : LL) (xs : List NodeId) (w : WellLinked h l xs) (fuel : Nat)
    (hf : xs.length + 1 ≤ fuel) :
    toList h l fuel = some xs ∧ toListRev h l fuel = some xs.reverse ∧
    (toListRev h l fuel).map List.reverse = toList h l fuel := by
  have a := toList_wl w hf
  have b := toListRev_wl w hf
  exact ⟨a, b, by rw [a, b]; simp⟩

/-- **c09_ll_detached.**  A node removed from a list (`remove`, `pop_back`, `pop_front`) has both
links NULL afterwards — for `remove` whenever it returns at all, with no assumption on the heap. -/
theorem c09_ll_detached (h h' : Heap) (x : NodeId) :
    (LinkedList.remove h x = some h' → (h' x).next = none ∧ (h' x).prev = none) ∧
    (∀ l, LinkedList.popBack h l = some (h', x) → (h' x).next = none ∧ (h' x).prev = none) ∧
    (∀ l, LinkedList.popFront h l = some (h', x) → (h' x).next = none ∧ (h' x).prev = none) := by
  have key : ∀ {g g' : Heap} {y : NodeId}, LinkedList.remove g y = some g' → (g' y).next = none ∧ (g' y).prev = none := by
    intro g g' y hr
    unfold LinkedList.remove at hr
    split at hr
    · cases hr
    · simp only at hr
      split at hr
      · cases hr
      · cases hr
        simp [nodeReset, setNode]
  refine ⟨key, fun l hp => ?_, fun l hp => ?_⟩
  · unfold LinkedList.popBack at hp
    split at hp
    · cases hp
    · rename_i b _
      cases hr : LinkedList.remove h b with
      | none => rw [hr] at hp; cases hp
      | some g =>
        rw [hr] at hp
        simp only [Option.map_some, Option.some.injEq, Prod.mk.injEq] at hp
        obtain ⟨rfl, rfl⟩ := hp
        exact key hr
  · unfold LinkedList.popFront at hp
    split at hp
    · cases hp
    · rename_i b _
      cases hr : LinkedList.remove h b with
      | none => rw [hr] at hp; cases hp
      | some g =>
        rw [hr] at hp
        simp only [Option.map_some, Option.some.injEq, Prod.mk.injEq] at hp
        obtain ⟨rfl, rfl⟩ := hp
        exact key hr

/-! ### a concrete non-trivial well-linked heap: list ⟨100,101⟩ holding nodes 1, 2, 3 -/
def exHeap : Heap := fun m =>
  if m = 100 then ⟨some 1, none⟩ else if m = 1 then ⟨some 2, some 100⟩ else if m = 2 then ⟨some 3, some 1⟩
  else if m = 3 then ⟨some 101, some 2⟩ else if m = 101 then ⟨none, some 3⟩ else ⟨none, none⟩

example : WellLinked exHeap ⟨100, 101⟩ [1, 2, 3] :=
  ⟨by simp [Ch, Link, exHeap], by decide, by simp [exHeap], by simp [exHeap]⟩
example : toList exHeap ⟨100, 101⟩ 12 = some [1, 2, 3] ∧ toListRev exHeap ⟨100, 101⟩ 12 = some [3, 2, 1] := by decide

end AwsVerif.Props.C09
