import AwsVerif.Proofs.C01.Find
/-!
# C01 — byte buffers and cursors stay in bounds; failed operations change nothing

Theorems about `AwsVerif.ByteBuf.step` (model of `source/byte_buf.c`, see `Model/ByteBuf.lean`), for
*every* operation of the op language (`Op`, one constructor per API function), every state and every
operation sequence.  Definitions used in the statements (in `Proofs/C01/Basic.lean`):

* `BufOk h b`   : `b.len ≤ b.cap ≤ SIZE_MAX`, `b.rid = none → b.cap = 0`, `b.rid = some r →` block `r` is live,
                  `0 < b.cap` and its length is exactly `b.cap`;
* `Valid s`     : every buffer slot is `BufOk` and distinct slots hold distinct blocks;
* `CurOk h c`   : NULL cursor ⇒ `len = 0`; otherwise the block was allocated and, while it is live, `off + len` lies inside it;
* `WF s`        : `Valid s`, every cursor slot `CurOk`, block 0 (the `""` literal) exists;
* `regionCells h rid` : the cells of the block `rid` points to.

Helper lemmas live in `AwsVerif/Proofs/C01/*`.
-/
namespace AwsVerif.Props.C01
open AwsVerif.ByteBuf AwsVerif.Proofs.C01 AwsVerif.Gen AwsVerif

/-! ## c01_inv — validity is an invariant -/

/-- what `Valid` says about one buffer: `len ≤ cap`, `cap = 0 ↔` no block, block length `= cap` -/
theorem c01_valid_meaning {s : State} (hv : Valid s) (i : Nat) :
    (s.bufs i).len ≤ (s.bufs i).cap ∧ ((s.bufs i).cap = 0 ↔ (s.bufs i).rid = none) ∧
    (∀ r, (s.bufs i).rid = some r → ∃ reg, region? s.mem.heap r = some reg ∧ reg.length = (s.bufs i).cap) := by
  have hb := hv.1 i
  refine ⟨hb.1, ?_, ?_⟩
  · have h2 := hb.2.2
    cases hr : (s.bufs i).rid with
    | none => simp [hr] at h2; simp [h2]
    | some r => simp [hr] at h2; simp; omega
  · intro r hr
    have h2 := hb.2.2
    simp [hr] at h2
    have := h2.2
    unfold regLen at this
    cases hreg : region? s.mem.heap r with
    | none => simp [hreg] at this
    | some reg => simp [hreg] at this; exact ⟨reg, rfl, this⟩

theorem c01_init_wf : WF State.init := by
  refine ⟨⟨fun _ => BufOk.zero _, ?_⟩, fun _ => CurOk.zero _, by decide⟩
  intro i j r hi _
  simp [State.init, Buf.zero] at hi

/-- [A] every operation preserves well-formedness (hence `Valid`) -/
theorem c01_inv {s s' : State} {op : Op} {r : Res} (hw : WF s) (e : step s op = .ok (r, s')) : WF s' :=
  step_wf hw e

/-- [A] … lifted to every operation sequence, from any well-formed state (in particular the initial one) -/
theorem c01_inv_run {s : State} (hw : WF s) (ops : List Op) : WF (run s ops) := by
  induction ops generalizing s with
  | nil => exact hw
  | cons op rest ih =>
    simp only [run]
    split
    · rename_i r s' e
      exact ih (step_wf hw e)
    · exact ih hw

theorem c01_valid_all (ops : List Op) : Valid (run State.init ops) := (c01_inv_run c01_init_wf ops).1

/-! ## c01_writes_in_bounds — no out-of-bounds access -/

/-- [A] No operation on a well-formed state raises `Fault.oob`: every read goes through a cursor within
its length / a buffer within its capacity / a literal within its size, every write lands inside
`[0, cap)` of the destination's block.  (`Op.srcReadable` is the caller's half of
`aws_byte_buf_write(buf, src, len)`: `src` has `len` readable bytes; all other ops need nothing.) -/
theorem c01_writes_in_bounds {s : State} {op : Op} (hw : WF s) (hpre : op.srcReadable) : step s op ≠ .error .oob :=
  step_not_oob hw hpre

/-- … at every point of every operation sequence from the initial state -/
theorem c01_no_oob_run (ops : List Op) (op : Op) (hpre : op.srcReadable) : step (run State.init ops) op ≠ .error .oob :=
  step_not_oob (c01_inv_run c01_init_wf ops) hpre

/-! ## c01_fail_unchanged -/

/-- [A] Every operation except `cat` and `init_from_file` (`Op.isCat`): if the call reports failure (error code, `false`, zeroed output,
NULL cursor returned) the complete state — heap, release log, all buffers, all cursors — is unchanged.
No side condition: this includes the operations built on `aws_byte_cursor_advance_nospec` at every
cursor length (since the guard `cursor->len < SIZE_MAX/2` of commit 574d3b6). -/
theorem c01_fail_unchanged {s s' : State} {op : Op} {r : Res} (hw : WF s) (hcat : op.isCat = false)
    (e : step s op = .ok (r, s')) (hf : r.failed = true) : s' = s :=
  step_fail_unchanged hw hcat e hf

/-- `aws_byte_buf_cat` (documented to stop part-way): whatever it reports, cursors, release log and all
other buffers are unchanged; the destination keeps its block, capacity and owner, its length only
grows, and its previous bytes are kept. -/
theorem c01_cat_partial {s s' : State} {d : Nat} {srcs : List Nat} {r : Res} (hw : WF s)
    (e : step s (.cat d srcs) = .ok (r, s')) :
    s'.curs = s.curs ∧ s'.mem.events = s.mem.events ∧ (∀ i, i ≠ d → s'.bufs i = s.bufs i) ∧
    (s'.bufs d).rid = (s.bufs d).rid ∧ (s'.bufs d).cap = (s.bufs d).cap ∧ (s'.bufs d).owned = (s.bufs d).owned ∧
    (s.bufs d).len ≤ (s'.bufs d).len ∧
    (regionCells s'.mem.heap (s.bufs d).rid).take (s.bufs d).len = (regionCells s.mem.heap (s.bufs d).rid).take (s.bufs d).len := by
  obtain ⟨a, b, c, d1, e1, f, g, h, _⟩ := step_cat_weak hw e
  exact ⟨a, b, c, d1, e1, f, g, h⟩

/-- `split_on_char[_n]` into a full list: the state is untouched whatever it returns (the part-way
result is the returned list only). -/
theorem c01_split_state {s s' : State} {i : Nat} {ch : UInt8} {n k : Nat} {r : Res}
    (e : step s (.splitOnCharN i ch n k) = .ok (r, s')) : s' = s := by
  simp only [step] at e
  obtain ⟨⟨e1, l⟩, _, e⟩ := bind_ok e
  cases e; rfl

/-- the repaired boundary: on a cursor of exactly `SIZE_MAX/2` bytes `advance_nospec` reports failure and
leaves the cursor as it was (before 574d3b6 it zeroed the cursor), while `advance` succeeds -/
example :
    curAdvanceNospec ⟨some 1, 0, HALF⟩ 1 = (Cur.zero, ⟨some 1, 0, HALF⟩) ∧
    curAdvance ⟨some 1, 0, HALF⟩ 1 = (⟨some 1, 0, 1⟩, ⟨some 1, 1, HALF - 1⟩) := by
  decide

/-! ## c01_prefix_stable -/

/-- [A] For every operation (successful or not) and every buffer slot `i` whose contents the operation
is not meant to discard (`Op.resets`: init*, from_array, reset, secure_zero, clean_up*, and the
destination of read_and_fill_buffer): the length of `i` does not shrink and bytes `[0, len_before)`
are identical afterwards — across growth into a new block (`append_dynamic*`, `reserve*`), and when the
source cursor views the destination itself (source and destination are `(block, offset)` pairs into
the same heap; nothing is assumed about them being different). -/
theorem c01_prefix_stable {s s' : State} {op : Op} {r : Res} (hw : WF s) (e : step s op = .ok (r, s')) (i : Nat)
    (hi : op.resets ≠ some i) :
    (s.bufs i).len ≤ (s'.bufs i).len ∧
    (regionCells s'.mem.heap (s'.bufs i).rid).take (s.bufs i).len =
      (regionCells s.mem.heap (s.bufs i).rid).take (s.bufs i).len :=
  step_prefix hw e i hi

/-! ## c01_secure_zero -/

/-- [A] every operation appends to the release log only, and whatever a `_secure` code path appends
carries an all-zero snapshot -/
theorem c01_secure_zero {s s' : State} {op : Op} {r : Res} (hw : WF s) (hz : SecureZeroed s)
    (e : step s op = .ok (r, s')) : SecureZeroed s' :=
  secureZeroed_step hz (step_events hw e)

/-- … along every operation sequence from the initial state -/
theorem c01_secure_zero_run (ops : List Op) : SecureZeroed (run State.init ops) := by
  suffices h : ∀ (s : State), WF s → SecureZeroed s → SecureZeroed (run s ops) from
    h _ c01_init_wf (by intro e he; simp [State.init] at he)
  induction ops with
  | nil => intro s _ hz; exact hz
  | cons op rest ih =>
    intro s hw hz
    simp only [run]
    split
    · rename_i r s' e
      exact ih s' (step_wf hw e) (secureZeroed_step hz (step_events hw e))
    · exact ih s hw hz

/-- [A] exactly what the three secure operations (`append_dynamic_secure`, `append_byte_dynamic_secure`,
`clean_up_secure`) add to the log: nothing, or the destination's old block, tagged secure, with a
snapshot that is all-zero over the whole old capacity. -/
theorem c01_secure_zero_exact {s s' : State} {op : Op} {r : Res} {b : Nat} (hw : WF s) (hop : op.secureOn = some b)
    (e : step s op = .ok (r, s')) :
    s'.mem.events = s.mem.events ∨
    ∃ rid, (s.bufs b).rid = some rid ∧
      s'.mem.events = s.mem.events ++ [⟨rid, List.replicate (s.bufs b).cap (some 0), true⟩] :=
  step_secure_exact hw hop e

/-! ## c01_advance_guard / c01_nospec_eq -/

/-- [A] `aws_byte_cursor_advance c n` succeeds iff `n ≤ c.len ∧ n ≤ SIZE_MAX/2 ∧ c.len ≤ SIZE_MAX/2`; it then
returns the first `n` bytes and leaves the rest; otherwise it returns the NULL cursor and leaves `c`. -/
theorem c01_advance_guard (c : Cur) (n : Nat) :
    (n ≤ c.len ∧ n ≤ HALF ∧ c.len ≤ HALF →
      curAdvance c n = (⟨c.rid, c.off, n⟩, ⟨c.rid, if c.rid.isSome then c.off + n else c.off, c.len - n⟩)) ∧
    (¬ (n ≤ c.len ∧ n ≤ HALF ∧ c.len ≤ HALF) → curAdvance c n = (Cur.zero, c)) :=
  curAdvance_eq c n

/-- … the returned view and the remainder read the same bytes as the corresponding parts of `c` -/
theorem c01_advance_bytes (h : Heap) (c : Cur) (n k : Nat) (hg : n ≤ c.len ∧ n ≤ HALF ∧ c.len ≤ HALF) :
    (k ≤ n → (curAdvance c n).1.load h 0 k = c.load h 0 k) ∧
    (k ≤ c.len - n → c.rid.isSome → (curAdvance c n).2.load h 0 k = c.load h n k) := by
  rw [(curAdvance_eq c n).1 hg]
  constructor
  · intro hk
    simp only [Cur.load]
    split
    · rfl
    · have h1 : 0 + k ≤ n := by omega
      have h2 : 0 + k ≤ c.len := by omega
      rw [if_pos h1, if_pos h2]
  · intro hk hs
    simp only [Cur.load, hs, if_true]
    split
    · rfl
    · have h1 : 0 + k ≤ c.len - n := by omega
      have h2 : n + k ≤ c.len := by omega
      rw [if_pos h1, if_pos h2, Nat.add_zero]

/-- [B] `advance_nospec` succeeds iff `n ≤ c.len ∧ n ≤ SIZE_MAX/2 ∧ c.len < SIZE_MAX/2` and then does exactly what
`advance` does; otherwise it returns the NULL cursor and leaves `c`.  So `advance_nospec = advance` on every
input except that nospec refuses a cursor of exactly `SIZE_MAX/2` bytes (which `advance` accepts). -/
theorem c01_nospec_eq (c : Cur) (n : Nat) :
    (n ≤ c.len ∧ n ≤ HALF ∧ c.len < HALF → curAdvanceNospec c n = curAdvance c n) ∧
    (¬ (n ≤ c.len ∧ n ≤ HALF ∧ c.len < HALF) → curAdvanceNospec c n = (Cur.zero, c)) ∧
    (c.len ≠ HALF → curAdvanceNospec c n = curAdvance c n) := by
  refine ⟨curAdvanceNospec_ok, curAdvanceNospec_fail, fun hne => ?_⟩
  by_cases hg : n ≤ c.len ∧ n ≤ HALF ∧ c.len < HALF
  · exact curAdvanceNospec_ok hg
  · rw [curAdvanceNospec_fail hg, (curAdvance_eq c n).2 (by omega)]

/-- the mask: all-ones when `index < bound ≤ SIZE_MAX/2`, never anything but `0` or all-ones for `size_t`
operands, and all-ones for the bound `c.len + 1` whenever the guard of `advance_nospec` holds (the masked
branches of the function are therefore never taken with a zero mask). -/
theorem c01_nospec_mask (i b : Nat) :
    (i < b → b ≤ HALF → nospecMask i b = SIZE_MAX) ∧ (i < W → b < W → nospecMask i b = 0 ∨ nospecMask i b = SIZE_MAX) ∧
    (∀ c : Cur, i ≤ c.len ∧ i ≤ HALF ∧ c.len < HALF → nospecMask i (addW c.len 1) = SIZE_MAX) :=
  ⟨nospecMask_ok, nospecMask_cases, fun _ hg => nospec_mask_guard hg⟩

/-! ## c01_write_guard -/

/-- [A] `aws_byte_buf_write b src n` on a valid buffer returns `true` iff
`n = 0 ∨ (b.len ≤ SIZE_MAX/2 ∧ n ≤ SIZE_MAX/2 ∧ b.len + n ≤ b.cap)`; on `false` nothing changed, on `true`
the length grew by exactly `n` inside the same block. -/
theorem c01_write_guard {h h' : Heap} {b b' : Buf} {src : Src} {n : Nat} {ok : Bool} (hb : BufOk h b)
    (e : bufWrite h b src n = .ok (ok, h', b')) :
    (ok = true ↔ n = 0 ∨ (b.len ≤ HALF ∧ n ≤ HALF ∧ b.len + n ≤ b.cap)) ∧
    (ok = false → h' = h ∧ b' = b) ∧ (ok = true → b'.len = b.len + n ∧ b'.rid = b.rid ∧ b'.cap = b.cap) := by
  obtain ⟨_, h2, h3, _, h5, h6, h7⟩ := bufWrite_spec hb e
  exact ⟨h5, h6, fun hok => ⟨(h7 hok).1, h2, h3⟩⟩

/-- the same guard for `aws_byte_buf_write_u8_n` (which has no `n = 0` shortcut) -/
theorem c01_write_u8_n_guard {h h' : Heap} {b b' : Buf} {v : UInt8} {n : Nat} {ok : Bool} (hb : BufOk h b)
    (e : bufWriteU8N h b v n = .ok (ok, h', b')) :
    (ok = true ↔ (b.len ≤ HALF ∧ n ≤ HALF ∧ b.len + n ≤ b.cap)) ∧ (ok = false → h' = h ∧ b' = b) := by
  obtain ⟨_, _, _, _, h5, h6, _⟩ := bufWriteU8N_spec hb e
  exact ⟨h5, h6⟩

/-! ## c01_split_spec -/

/-- [B] `aws_byte_cursor_split_on_char` on a non-NULL cursor viewing `bytes`, into a list with room for
every piece: it succeeds and returns, in order, exactly the views `(input.off + s, l)` for the pieces
`(s, l)` of `piecesFrom bytes ch 0` (so the modelled loop's fuel suffices).  Those pieces are the
separator-free decomposition of the input: each lies inside the input, contains no `ch`, and joined with
single `ch` bytes they give back `bytes` — including the empty trailing piece of `"AB&"` and the single
empty piece of the empty input. -/
theorem c01_split_spec {h : Heap} {input : Cur} {bytes : List UInt8} {ch : UInt8} {r k : Nat}
    (hr : input.rid = some r) (hl : input.load h 0 input.len = .ok (bytes.map some))
    (hsmall : input.len + 2 < SIZE_MAX) (hk : (piecesFrom bytes ch 0).length ≤ k) :
    curSplitOnCharN h input ch 0 k = .ok (none, (piecesFrom bytes ch 0).map (pieceCur r input.off)) ∧
    joinWith ch ((piecesFrom bytes ch 0).map (pieceBytes bytes)) = bytes ∧
    (∀ p ∈ piecesFrom bytes ch 0, p.1 + p.2 ≤ bytes.length ∧ ch ∉ pieceBytes bytes p) := by
  refine ⟨curSplitOnChar_eq hr hl hsmall hk, ?_, ?_⟩
  · simpa using piecesFrom_join bytes ch bytes.length 0 (by omega) (Nat.zero_le _)
  · intro p hp
    exact (piecesFrom_mem bytes ch bytes.length 0 (by omega) (Nat.zero_le _) p hp).2

/-- [B] `aws_byte_cursor_split_on_char_n` with `n > 0` on a non-NULL cursor viewing `bytes`: if there are at most
`n` pieces it returns all of them; otherwise the first `n` pieces followed by one view from the start of piece
`n` (right after the `n`-th separator) to the end of the input — provided the list has room. -/
theorem c01_split_n_spec {h : Heap} {input : Cur} {bytes : List UInt8} {ch : UInt8} {r n k : Nat}
    (hr : input.rid = some r) (hl : input.load h 0 input.len = .ok (bytes.map some)) (hn : 0 < n)
    (hmax : input.len ≤ SIZE_MAX) :
    ((piecesFrom bytes ch 0).length ≤ n → (piecesFrom bytes ch 0).length ≤ k →
      curSplitOnCharN h input ch n k = .ok (none, (piecesFrom bytes ch 0).map (pieceCur r input.off))) ∧
    (n < (piecesFrom bytes ch 0).length → n + 1 ≤ k →
      ∃ s l, (piecesFrom bytes ch 0)[n]? = some (s, l) ∧
        curSplitOnCharN h input ch n k =
          .ok (none, ((piecesFrom bytes ch 0).take n).map (pieceCur r input.off) ++ [⟨some r, input.off + s, input.len - s⟩])) := by
  have hxl : bytes.length = input.len := by simpa using Cur.load_length hl
  obtain ⟨r1, r2⟩ := resultN_pieces bytes ch n 0
  constructor
  · intro hle hk
    have e := r1 hle
    rw [curSplitOnCharN_eq hr hl hn hmax (by rw [e]; exact hk), e]
  · intro hlt hk
    obtain ⟨s, l, hget, e⟩ := r2 hlt
    refine ⟨s, l, hget, ?_⟩
    rw [curSplitOnCharN_eq hr hl hn hmax (by rw [e]; simp; omega), e]
    simp [pieceCur, hxl]

/-- one step of the iterator: from the piece `(s, l)` `next_split` moves to the piece that starts right
after the separator, or reports the end when the piece reaches the end of the input; from the zeroed
cursor it yields the first piece; on the NULL input it yields one empty piece, then the end. -/
theorem c01_next_split_step {h : Heap} {input : Cur} {bytes : List UInt8} {ch : UInt8} {r s l : Nat}
    (hr : input.rid = some r) (hl : input.load h 0 input.len = .ok (bytes.map some)) (hsl : s + l ≤ input.len) :
    curNextSplit h input ch Cur.zero = .ok (true, ⟨some r, input.off + 0, nextPiece bytes ch 0⟩) ∧
    curNextSplit h input ch ⟨some r, input.off + s, l⟩ =
      (if s + l < input.len then .ok (true, ⟨some r, input.off + (s + l + 1), nextPiece bytes ch (s + l + 1)⟩)
       else .ok (false, Cur.zero)) :=
  ⟨nextSplit_first hr hl, nextSplit_next hr hl hsl⟩

/-! ## c01_find_exact_spec -/

/-- [B] `aws_byte_cursor_find_exact` on a non-NULL view of `hay` (`len ≤ SIZE_MAX/2`) and a needle `nd` with
`1 ≤ nd.length ≤ hay.length`: either the needle occurs — entirely inside the view — at some index, and then the
call succeeds with the view `[i, len)` for the *smallest* such `i` (so the result is never shorter than the
needle and `hay[i .. i+nd.length) = nd`), or it occurs nowhere inside the view and the call reports
STRING_MATCH_NOT_FOUND leaving `*first_find` alone.  Bytes before or behind the view play no role: `hay` is
only what the view covers, and `c01_writes_in_bounds` shows no index ≥ `len` is read.  The two early exits:
needle longer than the input → NOT_FOUND, empty needle → SHORT_BUFFER. -/
theorem c01_find_exact_spec {h : Heap} {input toFind out : Cur} {hay nd : List UInt8} {r : Nat}
    (hr : input.rid = some r) (hl : input.load h 0 input.len = .ok (hay.map some))
    (hn : toFind.load h 0 toFind.len = .ok (nd.map some)) (hs : input.len ≤ HALF) :
    (nd.length > hay.length → curFindExact h input toFind out = .ok (some .matchNotFound, out)) ∧
    (nd.length ≤ hay.length → nd.length < 1 → curFindExact h input toFind out = .ok (some .shortBuffer, out)) ∧
    (nd.length ≤ hay.length → 1 ≤ nd.length →
      (∃ i, OccursAt hay nd i ∧ (∀ j, j < i → ¬ OccursAt hay nd j) ∧
        curFindExact h input toFind out = .ok (none, ⟨some r, input.off + i, input.len - i⟩)) ∨
      ((∀ i, ¬ OccursAt hay nd i) ∧ curFindExact h input toFind out = .ok (some .matchNotFound, out))) := by
  have hxl : hay.length = input.len := by simpa using Cur.load_length hl
  have hnl : nd.length = toFind.len := by simpa using Cur.load_length hn
  refine ⟨fun hgt => ?_, fun hle hz => ?_, fun hle hpos => curFindExact_eq hr hl hn hs hle hpos⟩
  · unfold curFindExact; rw [if_pos (by omega)]
  · unfold curFindExact; rw [if_neg (by omega), if_pos (by omega)]

/-! ## c01_trim_spec -/

/-- [B] On a non-NULL cursor viewing `bytes`: `left_trim_pred` drops exactly the leading bytes that satisfy
the predicate (`leftCount = (bytes.takeWhile p).length`), `right_trim_pred` keeps the length
`rightLen p bytes len` — everything from there to the end satisfies `p` and the byte before it does not —
and `trim_pred` is the right trim of the left-trimmed view.  The result is always a sub-view of the input. -/
theorem c01_trim_spec {h : Heap} {c : Cur} {bytes : List UInt8} {p : Pred} {r : Nat} (hr : c.rid = some r)
    (hl : c.load h 0 c.len = .ok (bytes.map some)) :
    curLeftTrim h c p = .ok ⟨some r, c.off + leftCount p.eval bytes, c.len - leftCount p.eval bytes⟩ ∧
    curRightTrim h c p = .ok { c with len := rightLen p.eval bytes c.len } ∧
    curTrim h c p = .ok ⟨some r, c.off + leftCount p.eval bytes,
      rightLen p.eval (bytes.drop (leftCount p.eval bytes)) (c.len - leftCount p.eval bytes)⟩ ∧
    leftCount p.eval bytes ≤ c.len ∧
    (∀ n, rightLen p.eval bytes n ≤ n ∧
      (∀ j, rightLen p.eval bytes n ≤ j → j < n → p.eval (bytes.getD j 0) = true) ∧
      (0 < rightLen p.eval bytes n → p.eval (bytes.getD (rightLen p.eval bytes n - 1) 0) = false)) := by
  have hxl : bytes.length = c.len := by simpa using Cur.load_length hl
  refine ⟨curLeftTrim_eq hr hl, curRightTrim_eq hl, curTrim_eq hr hl, ?_, fun n => ?_⟩
  · rw [← hxl]; exact leftCount_le _ _
  · exact ⟨rightLen_le _ _ n, rightLen_spec _ _ n⟩

/-! ## c01_compare_spec -/

/-- [B] `aws_byte_cursor_compare_lexical` on two cursors viewing `x` and `y` returns (the sign of) the
lexicographic three-way comparison `lexCmp x y` (byte-wise, a proper prefix is smaller); that comparison
is 0 exactly when the byte strings are equal, and swapping the arguments negates it. -/
theorem c01_compare_spec {h : Heap} {a b : Cur} {x y : List UInt8}
    (ha : a.load h 0 a.len = .ok (x.map some)) (hb : b.load h 0 b.len = .ok (y.map some)) :
    curCompareLexical h a b = .ok (lexCmp x y) ∧ curCompareLexical h b a = .ok (- lexCmp x y) ∧
    (lexCmp x y = 0 ↔ x = y) := by
  refine ⟨curCompareLexical_eq ha hb, ?_, lexCmp_eq_zero x y⟩
  rw [curCompareLexical_eq hb ha, lexCmp_antisymm x y]

/-! ## c01_parse_u64_spec -/

/-- [B] `aws_byte_cursor_utf8_parse_u64[_hex]` (base 10 / 16, any base ≥ 1 here) on a non-empty cursor over
`bytes`: it succeeds iff every byte is a digit of the base (through `s_hex_to_num_table`) and the value
fits in 64 bits; it then stores exactly that value; on failure it stores 0.  An empty cursor is
INVALID_ARGUMENT with 0 stored. -/
theorem c01_parse_u64_spec {h : Heap} {c : Cur} {base : Nat} {bytes : List UInt8} (hb : 0 < base)
    (hl : c.load h 0 c.len = .ok (bytes.map some)) :
    (c.len = 0 → curParseU64 h c base = .ok (some .invalidArgument, 0)) ∧
    (c.len ≠ 0 → ∃ e v, curParseU64 h c base = .ok (e, v) ∧
      (e = none ↔ (∀ d ∈ bytes, (hexToNum d).toNat < base) ∧ digitsValue base 0 bytes ≤ SIZE_MAX) ∧
      (e = none → v = digitsValue base 0 bytes) ∧ (e.isSome → v = 0)) := by
  constructor
  · intro h0
    unfold curParseU64
    rw [if_pos h0]
  · intro hne
    unfold curParseU64
    rw [if_neg hne, hl]
    refine ⟨_, _, rfl, ?_⟩
    rw [map_cellVal_some]
    exact readUnsignedLoop_spec hb bytes 0 (Nat.zero_le _)

/-! ## the two constant tables of byte_buf.c (regenerated from the C source on every check) -/

set_option maxRecDepth 100000 in
/-- `s_tolower_table` maps `A`–`Z` to `a`–`z` and fixes every other byte (all 256 entries) -/
theorem c01_tolower_table : ∀ i : Fin 256,
    tolower (UInt8.ofNat i.val) = if 65 ≤ i.val ∧ i.val ≤ 90 then UInt8.ofNat (i.val + 32) else UInt8.ofNat i.val := by
  decide

set_option maxRecDepth 100000 in
/-- `s_hex_to_num_table` maps exactly the hex digits to their value and every other byte to 255 -/
theorem c01_hex_table : ∀ i : Fin 256, hexToNum (UInt8.ofNat i.val) =
    if 48 ≤ i.val ∧ i.val ≤ 57 then UInt8.ofNat (i.val - 48)
    else if 65 ≤ i.val ∧ i.val ≤ 70 then UInt8.ofNat (i.val - 55)
    else if 97 ≤ i.val ∧ i.val ≤ 102 then UInt8.ofNat (i.val - 87) else 255 := by
  decide

/-! ## c01_gen_* — the model's leaf functions are the functions re-translated from the C source on every run

`AwsVerif.Gen.ByteBufFns` (gen/bytebuf_fns.py through gen/cfun.py, from source/byte_buf.c) and `AwsVerif.Gen.Math`
(gen/math_gen.py, from math.inl / math.gcc_overflow.inl) are regenerated by `regen(ctx)`; an edit to one of
these C functions changes the right-hand side of the theorem that names it. -/

/-- `aws_nospec_mask` -/
theorem c01_gen_nospec_mask (i b : Nat) : nospecMask i b = ByteBufFns.aws_nospec_mask i b := nospecMask_gen i b

/-- `aws_isspace`, `aws_isalnum`, `aws_isalpha`, `aws_isdigit`, `aws_isxdigit` on all 256 bytes -/
theorem c01_gen_predicates (i : Fin 256) :
    Pred.eval .isspace (UInt8.ofNat i.val) = ByteBufFns.aws_isspace i.val ∧
    Pred.eval .isalnum (UInt8.ofNat i.val) = ByteBufFns.aws_isalnum i.val ∧
    Pred.eval .isalpha (UInt8.ofNat i.val) = ByteBufFns.aws_isalpha i.val ∧
    Pred.eval .isdigit (UInt8.ofNat i.val) = ByteBufFns.aws_isdigit i.val ∧
    Pred.eval .isxdigit (UInt8.ofNat i.val) = ByteBufFns.aws_isxdigit i.val :=
  ⟨isspace_gen i, isalnum_gen i, isalpha_gen i, isdigit_gen i, isxdigit_gen i⟩

/-- the guard expressions, cut out of the C functions as written, are the guards of the model functions
(`curAdvance`, `curAdvanceNospec`, `bufWrite`, `bufWriteU8N`, `bufAppend`, `bufAdvance`) -/
theorem c01_gen_guards (a b n : Nat) :
    ByteBufFns.verif_guard_cursor_advance a n = decide (a > HALF ∨ n > HALF ∨ n > a) ∧
    ByteBufFns.verif_guard_cursor_advance_nospec a n = decide (n ≤ a ∧ n ≤ HALF ∧ a < HALF) ∧
    (a < W → n < W → ByteBufFns.verif_guard_buf_write a b n = decide (a > HALF ∨ n > HALF ∨ a + n > b)) ∧
    (a < W → n < W → ByteBufFns.verif_guard_buf_write_u8_n a b n = decide (a > HALF ∨ n > HALF ∨ a + n > b)) ∧
    ByteBufFns.verif_guard_buf_append a b n = decide (subW a b < n) ∧
    ByteBufFns.verif_guard_buf_advance a b n = decide (subW a b ≥ n) :=
  ⟨guard_advance_gen a n, guard_advance_nospec_gen a n, guard_write_gen a b n, guard_write_u8_n_gen a b n,
   guard_append_gen a b n, guard_buf_advance_gen a b n⟩

/-- the model's validity predicates are the library's `aws_byte_buf_is_valid` / `aws_byte_cursor_is_valid` as written in
byte_buf.c (cut out and re-translated on every run; pointers as addresses with NULL = 0, `PtrOf rid p` : `p ≠ 0 ↔` the
model pointer is not NULL), for every non-NULL `buf` / `cursor` argument -/
theorem c01_gen_valid (b : Buf) (c : Cur) (self p : Nat) (hs : self ≠ 0) :
    (PtrOf b.rid p → b.isValid = ByteBufFns.verif_valid_byte_buf self b.cap b.len p) ∧
    (PtrOf c.rid p → c.isValid = ByteBufFns.verif_valid_byte_cursor self c.len p) :=
  ⟨bufIsValid_gen b self p hs, curIsValid_gen c self p hs⟩

/-- [A] after every operation sequence every buffer and every cursor satisfies the library's own validity predicate as
written in the source — what a DEBUG_BUILD asserts before and after each byte-buffer call -/
theorem c01_is_valid_all (ops : List Op) (i self p : Nat) (hs : self ≠ 0) :
    (PtrOf ((run State.init ops).bufs i).rid p →
      ByteBufFns.verif_valid_byte_buf self ((run State.init ops).bufs i).cap ((run State.init ops).bufs i).len p = true) ∧
    (PtrOf ((run State.init ops).curs i).rid p →
      ByteBufFns.verif_valid_byte_cursor self ((run State.init ops).curs i).len p = true) := by
  have hw := c01_inv_run c01_init_wf ops
  refine ⟨fun hp => ?_, fun hp => ?_⟩
  · rw [← bufIsValid_gen _ self p hs hp]; exact (hw.1.1 i).isValid
  · rw [← curIsValid_gen _ self p hs hp]; exact (hw.2.1 i).isValid

/-- the predicates are not constant: a buffer with `len > capacity` and a non-empty cursor at NULL are rejected, a
filled buffer and an empty NULL cursor accepted -/
example : ByteBufFns.verif_valid_byte_buf 1 4 5 8 = false ∧ ByteBufFns.verif_valid_byte_buf 1 4 3 8 = true ∧
    ByteBufFns.verif_valid_byte_buf 1 0 0 8 = false ∧ ByteBufFns.verif_valid_byte_buf 0 4 3 8 = false ∧
    ByteBufFns.verif_valid_byte_cursor 1 2 0 = false ∧ ByteBufFns.verif_valid_byte_cursor 1 0 0 = true := by decide

/-- `aws_add_size_checked`, `aws_add_size_saturating`, `aws_mul_u64_checked`, `aws_add_u64_checked` (`none` ↦
`AWS_ERROR_OVERFLOW_DETECTED` = 5) -/
theorem c01_gen_checked_arith (a b : Nat) :
    Math.MathInl.aws_add_size_checked a b = resOfOption (addChecked a b) ∧
    Math.MathInl.aws_add_size_saturating a b = addSat a b ∧
    Math.Overflow.aws_mul_u64_checked a b = resOfOption (mulChecked a b) ∧
    Math.Overflow.aws_add_u64_checked a b = resOfOption (addChecked a b) :=
  ⟨addChecked_gen a b, addSat_gen a b, mulChecked_gen a b, addU64Checked_gen a b⟩

/-- `MIN_/MAX_BUFFER_GROWTH_READING_FILES` of source/file.c -/
theorem c01_gen_file_growth :
    MIN_BUFFER_GROWTH_READING_FILES = ByteBufFns.MIN_BUFFER_GROWTH_READING_FILES ∧
    MAX_BUFFER_GROWTH_READING_FILES = ByteBufFns.MAX_BUFFER_GROWTH_READING_FILES := fileGrowth_gen

/-! ## c01_normalize_sep (source/file.c) -/

/-- `aws_normalize_directory_separator` touches bytes `[0, len)` only: the buffer header is unchanged, the state
stays well-formed, no other slot changes, and every cell of the block from `len` on (the rest of the capacity) is
exactly what it was. -/
theorem c01_normalize_sep {s s' : State} {b : Nat} {r : Res} (hw : WF s) (e : step s (.normalizeSep b) = .ok (r, s')) :
    WF s' ∧ s'.bufs = s.bufs ∧ s'.curs = s.curs ∧
    (regionCells s'.mem.heap (s.bufs b).rid).drop (s.bufs b).len = (regionCells s.mem.heap (s.bufs b).rid).drop (s.bufs b).len := by
  refine ⟨step_wf hw e, ?_⟩
  simp only [step] at e
  obtain ⟨h1, hcore, e⟩ := bind_ok e
  cases e
  refine ⟨?_, rfl, (bufNormalizeSep_spec (hw.bufOk b) hcore).2.1⟩
  funext j
  simp only [State.setBuf, State.setHeap]
  split
  · rename_i hj; rw [hj]
  · rfl

/-! ## c01_init_from_file (source/file.c) -/

/-- `aws_byte_buf_init_from_file[_with_size_hint]` for every file behaviour (open failure, any `st_size`, any data,
any schedule of short reads / read errors): the state stays well-formed (`len ≤ cap` …), only slot `b` changes,
on failure slot `b` is the zeroed buffer (cleaned up), on success the contents are followed inside the capacity
by a NUL terminator that `len` does not count; what the call gave back through its `clean_up_secure` was zeroed
(`c01_secure_zero` covers this operation too). -/
theorem c01_init_from_file {s s' : State} {b : Nat} {f : FileSim} {useHint : Bool} {sizeHint : Nat} {r : Res} (hw : WF s)
    (e : step s (.initFromFile b f useHint sizeHint) = .ok (r, s')) :
    WF s' ∧ s'.curs = s.curs ∧ (∀ i, i ≠ b → s'.bufs i = s.bufs i) ∧
    (r.failed = true → s'.bufs b = Buf.zero) ∧
    (r.failed = false → (s'.bufs b).len < (s'.bufs b).cap ∧
      (regionCells s'.mem.heap (s'.bufs b).rid)[(s'.bufs b).len]? = some (some 0)) := by
  refine ⟨step_wf hw e, ?_⟩
  simp only [step] at e
  split at e
  · cases e
  · rename_i hmax
    obtain ⟨⟨e1, m1, nb⟩, hcore, e⟩ := bind_ok e
    cases e
    refine ⟨rfl, fun i hi => by simp [State.setBuf, hi], ?_, ?_⟩
    · intro hf
      have := (bufInitFromFile_spec (hw.bufOk b) (by omega) hcore).2.2 hf
      simp [State.setBuf, this]
    · intro hf
      have he : e1 = none := by
        cases e1 with
        | none => rfl
        | some _ => simp [Res.failed] at hf
      subst he
      have := bufInitFromFile_nul (by omega) hcore
      simpa [State.setBuf] using this

/-! ## non-vacuity: the hypotheses are met by concrete runs (exact fit, one short, self-append) -/

/-- exact-fit append succeeds and fills the buffer -/
example : (run State.init [.init 0 4, .curFromBytes 0 [1, 2, 3, 4], .append 0 0]).bufs 0 = ⟨some 1, 4, 4, true⟩ := by
  rfl

/-- one byte short: the append fails and the buffer is as before -/
example : (run State.init [.init 0 3, .curFromBytes 0 [1, 2, 3, 4], .append 0 0]).bufs 0 = ⟨some 1, 0, 3, true⟩ := by
  rfl

/-- self-append across growth: the cursor views the destination; old block zeroed and released -/
def selfAppendRun : State :=
  run State.init [.init 0 2, .curFromBytes 0 [7, 9], .append 0 0, .curFromBuf 1 0, .appendDynamic 0 1 true]

example : selfAppendRun.bufs 0 = ⟨some 3, 4, 4, true⟩ := by decide +kernel
example : regionCells selfAppendRun.mem.heap (some 3) = [some 7, some 9, some 7, some 9] := by decide +kernel
example : selfAppendRun.mem.events = [⟨1, [some 0, some 0], true⟩] := by decide +kernel


end AwsVerif.Props.C01
