import AwsVerif.Proofs.C04.HostUtils
import AwsVerif.Proofs.C04.Ipv6Groups
import AwsVerif.Proofs.C04.PercentDecode
import AwsVerif.Proofs.C04.CborHeads
import AwsVerif.Proofs.C04.Uuid
import AwsVerif.Proofs.C04.GenBridge
import AwsVerif.Props.C01
import AwsVerif.Props.C05
import AwsVerif.Props.C12
import AwsVerif.Props.C13
/-!
C04 — decoders and parsers are total and memory-safe on arbitrary input.

This file holds the C04 theorem list.  The theorems proved *here* are those of the small parser nobody
else covers: `aws_host_utils_is_ipv6` (model: `AwsVerif.Model.HostUtils`, every dereference of the C code
goes through a checked read that faults outside the input block).  The per-parser theorems of the other
components are imported below by the integrator.

Decided by sanitizer-monitored execution alone (no model, no theorem): `cJSON` behind
`aws_json_value_new_from_string`, the `sscanf`-based `aws_uuid_init_from_str` and `aws_host_utils_is_ipv4`,
and the AVX2 base64 codec (props/c04.py, harness/parsers.c).
-/
namespace AwsVerif.Props.C04
open AwsVerif.HostUtils AwsVerif.Proofs.C04

/-! ### aws_host_utils_is_ipv6 -/

/-- For every byte string and both values of `is_uri_encoded`, no dereference performed by
`aws_host_utils_is_ipv6` (memchr of the two splits, the predicate scans, `ptr[0]`, `ptr[1]`, `ptr[len-1]`,
`ptr[len-2]`, `ptr[i]`, `ptr[i-1]`, the two-byte compare with "25") lies outside the input block. -/
theorem c04_ipv6_no_oob (inp : List UInt8) (enc : Bool) (off : Nat) :
    isIpv6 inp enc ≠ .error (.oob off) := by
  rw [isIpv6_eq_spec]
  intro h
  cases h

/-- Totality: the run always ends with a verdict.  (All loops of the model are structural recursions over the
number of bytes left, at most `|input|` iterations each, so there is no fuel that could run out; what remains
to show is that no path ends in a fault.) -/
theorem c04_ipv6_total (inp : List UInt8) (enc : Bool) : ∃ b : Bool, isIpv6 inp enc = .ok b :=
  ⟨spec inp enc, isIpv6_eq_spec inp enc⟩

/-- The verdict is exactly the cursor-free specification `spec` (plain list functions: text before the first
`%` checked by `addrOk`, text between the first and the second `%` checked by `zoneOk`). -/
theorem c04_ipv6_spec (inp : List UInt8) (enc : Bool) : isIpv6 inp enc = .ok (spec inp enc) :=
  isIpv6_eq_spec inp enc

/-- accepted language -/
theorem c04_ipv6_accepts_iff (inp : List UInt8) (enc : Bool) :
    isIpv6 inp enc = .ok true ↔ spec inp enc = true := by
  rw [isIpv6_eq_spec]
  constructor
  · intro h; injection h
  · intro h; rw [h]

/-- NULL/0 and empty views are rejected without any read. -/
theorem c04_ipv6_empty (enc : Bool) : isIpv6 [] enc = .ok false := rfl

/-- A consequence of the specification worth knowing (behaviour of the current code, not a C04 defect):
whatever follows a *second* `%` is never looked at — `"::1%eth0%<anything>"` is accepted. -/
theorem c04_ipv6_ignores_text_after_second_pct (a z junk : List UInt8) (enc : Bool)
    (ha : idxOf? pct a = none) (hz : idxOf? pct z = none) :
    spec (a ++ pct :: (z ++ pct :: junk)) enc = spec (a ++ pct :: z) enc := by
  rw [spec_pct a _ enc ha, spec_pct a z enc ha]
  have h1 : zoneOf (z ++ pct :: junk) = z := by
    unfold zoneOf
    rw [idxOf?_self_append z junk hz]
    simp
  have h2 : zoneOf z = z := by
    unfold zoneOf
    rw [hz]
  rw [h1, h2]

/-- Declarative reading of the address check (`addrOk`, the text before the first `%`): 2..39 characters, all hex
digits or colons, no single colon at either end, every run of hex digits at most 4 long, and either no `::` and exactly
7 colons (8 groups), or exactly one `::` and at most 8 colons (at most 8 groups).  `pairsFrom false a` counts the
positions where a colon directly follows a colon, so `:::` counts 2 and is rejected. -/
theorem c04_ipv6_addr_accept_iff (a : List UInt8) :
    addrOk a = true ↔
      (2 ≤ a.length ∧ a.length ≤ 39) ∧ a.all isIpv6Char = true ∧
      ¬ (a[0]? = some colon ∧ a[1]? ≠ some colon) ∧
      ¬ (a[a.length - 1]? = some colon ∧ a[a.length - 2]? ≠ some colon) ∧
      runsOk 0 a = true ∧
      ((pairsFrom false a = 0 ∧ colons a = 7) ∨ (pairsFrom false a = 1 ∧ colons a ≤ 8)) := by
  unfold addrOk addrScan
  by_cases hlen : a.length < 2 ∨ 39 < a.length
  · rw [if_pos hlen]
    constructor
    · intro h; cases h
    · rintro ⟨⟨h1, h2⟩, _⟩; omega
  · rw [if_neg hlen]
    have hl : 2 ≤ a.length ∧ a.length ≤ 39 := by omega
    cases hall : a.all isIpv6Char with
    | false =>
      simp only [Bool.not_false, if_true]
      constructor
      · intro h; cases h
      · rintro ⟨_, h, _⟩; cases h
    | true =>
      simp only [Bool.not_true, Bool.false_eq_true, if_false]
      cases hs : (a[0]? == some colon && a[1]? != some colon) with
      | true =>
        simp only [if_true]
        constructor
        · intro h; cases h
        · rintro ⟨_, _, h, _⟩
          exfalso; apply h
          simpa [bne] using hs
      | false =>
        simp only [Bool.false_eq_true, if_false]
        have hs' : ¬ (a[0]? = some colon ∧ a[1]? ≠ some colon) := by
          intro h; have : (a[0]? == some colon && a[1]? != some colon) = true := by simpa [bne] using h
          rw [hs] at this; cases this
        cases he : (a[a.length - 1]? == some colon && a[a.length - 2]? != some colon) with
        | true =>
          simp only [if_true]
          constructor
          · intro h; cases h
          · rintro ⟨_, _, _, h, _⟩
            exfalso; apply h
            simpa [bne] using he
        | false =>
          simp only [Bool.false_eq_true, if_false]
          have he' : ¬ (a[a.length - 1]? = some colon ∧ a[a.length - 2]? ≠ some colon) := by
            intro h
            have : (a[a.length - 1]? == some colon && a[a.length - 2]? != some colon) = true := by simpa [bne] using h
            rw [he] at this; cases this
          rw [scanList_init]
          have hle := pairsFrom_le_colons a false
          by_cases hc : runsOk 0 a = true ∧ pairsFrom false a ≤ 1 ∧ 1 + colons a ≤ 8 + pairsFrom false a
          · rw [if_pos hc]
            obtain ⟨hr, hp, hg⟩ := hc
            simp only [verdict]
            by_cases hp0 : pairsFrom false a = 0
            · have hd : decide (0 < pairsFrom false a) = false := by simp [hp0]
              simp only [hd, Bool.false_eq_true, if_false, decide_eq_true_eq]
              constructor
              · intro h; exact ⟨hl, (by simp), hs', he', hr, Or.inl ⟨hp0, by omega⟩⟩
              · rintro ⟨_, _, _, _, _, h | h⟩ <;> omega
            · have hp1 : pairsFrom false a = 1 := by omega
              have hd : decide (0 < pairsFrom false a) = true := by simp [hp1]
              simp only [hd, if_true, decide_eq_true_eq]
              constructor
              · intro h; exact ⟨hl, (by simp), hs', he', hr, Or.inr ⟨hp1, by omega⟩⟩
              · rintro ⟨_, _, _, _, _, h | h⟩ <;> omega
          · rw [if_neg hc]
            constructor
            · intro h; cases h
            · rintro ⟨_, _, _, _, hr, h | h⟩ <;> exact absurd ⟨hr, by omega, by omega⟩ hc

/-! non-vacuity: concrete inputs on both sides of the verdict (bytes of "::1", "1:2:3:4:5:6:7:8",
"fe80::1%eth0" / "fe80::1%25eth0", ":::", "1:2:3:4:5:6:7:8:9", "12345::") -/
example : spec [58, 58, 49] false = true := by decide
example : spec [49, 58, 50, 58, 51, 58, 52, 58, 53, 58, 54, 58, 55, 58, 56] true = true := by decide
example : spec [102, 101, 56, 48, 58, 58, 49, 37, 101, 116, 104, 48] false = true := by decide
example : spec [102, 101, 56, 48, 58, 58, 49, 37, 101, 116, 104, 48] true = false := by decide
example : spec [102, 101, 56, 48, 58, 58, 49, 37, 50, 53, 101, 116, 104, 48] true = true := by decide
example : spec [58, 58, 58] false = false := by decide
example : spec [49, 58, 50, 58, 51, 58, 52, 58, 53, 58, 54, 58, 55, 58, 56, 58, 57] false = false := by decide
example : spec [49, 50, 51, 52, 53, 58, 58] false = false := by decide

/-! ### aws_host_utils_is_ipv4 (sscanf on a local copy) -/

/-- `aws_host_utils_is_ipv4` never faults; a text longer than 15 bytes is refused without touching the input, otherwise
exactly its `len` bytes are read (the guarded `memcpy`) and the verdict is the scan of the NUL-terminated local copy. -/
theorem c04_ipv4_total_and_reads (inp : List UInt8) :
    ∃ r, isIpv4 inp = .ok r ∧ (∀ i ∈ r.reads, i < inp.length) ∧
      (15 < inp.length → r = ⟨false, []⟩) ∧
      (inp.length ≤ 15 → r = ⟨ipv4Text (AwsVerif.Scanf.cstr inp), List.range' 0 inp.length⟩) := by
  refine ⟨_, isIpv4_eq inp, ?_, ?_, ?_⟩
  · intro i hi
    by_cases h : 15 < inp.length
    · rw [if_pos h] at hi; cases hi
    · rw [if_neg h] at hi
      have := (AwsVerif.Proofs.C04.CborHeads.mem_range'.mp hi).2
      omega
  · intro h; rw [if_pos h]
  · intro h; rw [if_neg (by omega)]

example : (isIpv4 [49, 46, 50, 46, 51, 46, 52]).map (·.verdict) = .ok true := by rfl          -- "1.2.3.4"
example : (isIpv4 [50, 53, 54, 46, 49, 46, 49, 46, 49]).map (·.verdict) = .ok false := by rfl  -- "256.1.1.1"
example : (isIpv4 [49, 46, 50, 46, 51, 46, 52, 120]).map (·.verdict) = .ok false := by rfl     -- "1.2.3.4x"

/-! ### percent-decoding: aws_byte_buf_append_decoding_uri + aws_byte_cursor_read_hex_u8 -/

open AwsVerif.PercentDecode in
/-- `aws_byte_cursor_read_hex_u8` on a cursor of fewer than 2 bytes fails without reading anything — whatever lies (or
does not lie) behind the view. -/
theorem c04_read_hex_u8_short_cursor (inp : List UInt8) (off len : Nat) (h : len < 2) :
    readHexU8 inp off len = .ok none := by
  have : ¬ hexMinLen ≤ len := by simp [hexMinLen]; omega
  simp [readHexU8, this]

open AwsVerif.PercentDecode in
/-- … and on a cursor inside the block it reads exactly `ptr[0]`, `ptr[1]` and never faults. -/
theorem c04_read_hex_u8_in_view (inp : List UInt8) (off len : Nat) (h : off + len ≤ inp.length) :
    ∃ r, readHexU8 inp off len = .ok r := by
  unfold readHexU8
  by_cases h2 : hexMinLen ≤ len
  · have h2' : 2 ≤ len := h2
    rw [if_pos h2]
    have r0 : AwsVerif.PercentDecode.rd inp off = .ok inp[off] := by
      simp [AwsVerif.PercentDecode.rd, show off < inp.length by omega]
    have r1 : AwsVerif.PercentDecode.rd inp (off + 1) = .ok inp[off + 1] := by
      simp [AwsVerif.PercentDecode.rd, show off + 1 < inp.length by omega]
    rw [r0, AwsVerif.Proofs.C04.PD.bind_ok, r1, AwsVerif.Proofs.C04.PD.bind_ok]
    simp only []
    by_cases hx : AwsVerif.Uri.hexToNum inp[off] ≠ 255 ∧ AwsVerif.Uri.hexToNum inp[off + 1] ≠ 255
    · rw [if_pos hx]; exact ⟨_, rfl⟩
    · rw [if_neg hx]; exact ⟨_, rfl⟩
  · rw [if_neg h2]; exact ⟨_, rfl⟩

open AwsVerif.PercentDecode in
/-- For every input view (in particular one ending in `%`, `%X` or `%XY`), every prefix already in the buffer and every
capacity: no read outside the input block, no store outside the (reserved) capacity, and the fuel `cursor->len` is never
exhausted; the outcome is the pure decoder `Uri.decodeGo` of C13 appended to the prefix. -/
theorem c04_uridec_spec (pre : List UInt8) (cap : Nat) (inp : List UInt8) :
    appendDecodingUri pre cap inp =
      .ok (if pre.length + inp.length > SIZE_MAX then .overflow
           else
             let cap' := if cap < pre.length + inp.length then pre.length + inp.length else cap
             if (AwsVerif.Uri.decodeGo inp).2 then .ok (pre ++ (AwsVerif.Uri.decodeGo inp).1) cap'
             else .malformed (pre ++ (AwsVerif.Uri.decodeGo inp).1) cap') :=
  AwsVerif.Proofs.C04.PD.appendDecodingUri_eq pre cap inp

open AwsVerif.PercentDecode in
theorem c04_uridec_no_oob_total (pre : List UInt8) (cap : Nat) (inp : List UInt8) :
    ∃ o, appendDecodingUri pre cap inp = .ok o :=
  ⟨_, c04_uridec_spec pre cap inp⟩

open AwsVerif.PercentDecode in
/-- what is appended is never longer than the input, the bytes already in the buffer are kept, and the final length is
within the final capacity -/
theorem c04_uridec_bounds (pre : List UInt8) (cap : Nat) (inp out : List UInt8) (cap' : Nat)
    (_hpre : pre.length ≤ cap)
    (h : appendDecodingUri pre cap inp = .ok (.ok out cap') ∨ appendDecodingUri pre cap inp = .ok (.malformed out cap')) :
    ∃ d, out = pre ++ d ∧ d.length ≤ inp.length ∧ out.length ≤ cap' ∧ cap ≤ cap' := by
  rw [c04_uridec_spec] at h
  have hlen := AwsVerif.Proofs.C04.PD.decodeGo_length inp
  by_cases ho : pre.length + inp.length > SIZE_MAX
  · rw [if_pos ho] at h
    rcases h with h | h <;> cases h
  · rw [if_neg ho] at h
    refine ⟨(AwsVerif.Uri.decodeGo inp).1, ?_⟩
    by_cases hb : (AwsVerif.Uri.decodeGo inp).2 = true
    · simp only [hb, if_true] at h
      rcases h with h | h
      · injection h with h; injection h with h1 h2
        subst h1; subst h2
        refine ⟨rfl, hlen, ?_, ?_⟩ <;> first | (simp only [List.length_append]; split <;> omega) | (split <;> omega)
      · injection h with h; cases h
    · simp only [hb, Bool.false_eq_true, if_false] at h
      rcases h with h | h
      · injection h with h; cases h
      · injection h with h; injection h with h1 h2
        subst h1; subst h2
        refine ⟨rfl, hlen, ?_, ?_⟩ <;> first | (simp only [List.length_append]; split <;> omega) | (split <;> omega)

-- "a%41", "%4" (ends in %X), "%" , "%zz"
example : AwsVerif.PercentDecode.appendDecodingUri [] 0 [97, 37, 52, 49] = .ok (.ok [97, 65] 4) := by rfl
example : AwsVerif.PercentDecode.appendDecodingUri [] 0 [37, 52] = .ok (.malformed [] 2) := by rfl
example : AwsVerif.PercentDecode.appendDecodingUri [7] 1 [37] = .ok (.malformed [7] 2) := by rfl
example : AwsVerif.PercentDecode.appendDecodingUri [] 9 [37, 122, 122] = .ok (.malformed [] 9) := by rfl

/-! ### CBOR: every head of `cbor_stream_decode`, with the claim table regenerated from streaming.c -/

open AwsVerif.Proofs.C04.CborHeads in
/-- The regenerated table has a row for each of the 256 initial bytes and every row is safe: its loader reads nothing, the
initial byte, or exactly the claimed bytes behind it, and string data starts right behind the claimed length bytes.  (An
edit such as claiming 1 byte in front of `_cbor_load_half`, which reads 2, makes this `decide` fail.) -/
theorem c04_gen_cbor_claim_table :
    AwsVerif.Gen.Cbor.decodeTable.length = 256 ∧ AwsVerif.Gen.Cbor.decodeTable.all rowSafe = true :=
  ⟨AwsVerif.Proofs.C10.gen_table_length, table_rows_safe⟩

open AwsVerif.Proofs.C04.CborHeads in
/-- For every source (every initial byte, every truncation, including the empty one): `cbor_stream_decode` never
dereferences a byte outside `[0, source_size)`; the count it reports is `≤ source_size`; when it reports FINISHED every
byte it dereferenced lies below that count and every byte below that count was either dereferenced or belongs to the string
view handed to the callback — it claims exactly what it reads; and when it reports NEDATA / ERROR it reports 0 bytes and
hands out no view. -/
theorem c04_cbor_head_claims_what_it_reads (src : List UInt8) (h : src.length < 2 ^ 64) :
    ∃ o, streamDecode src = .ok o ∧ Good src o :=
  streamDecode_good src h

open AwsVerif.Proofs.C04.CborHeads in
theorem c04_cbor_head_no_oob (src : List UInt8) (h : src.length < 2 ^ 64) (off : Nat) :
    streamDecode src ≠ .error (.oob off) := by
  obtain ⟨o, ho, _⟩ := streamDecode_good src h
  rw [ho]; intro hh; cases hh

open AwsVerif.Proofs.C04.CborHeads in
/-- half float 0xF9: two payload bytes are claimed and read; with one payload byte the decoder asks for more data and
reads only the initial byte -/
example : streamDecode [0xF9, 0x3C, 0x00] = .ok ⟨.finished, 3, [0, 1, 2], none⟩ := by rfl
open AwsVerif.Proofs.C04.CborHeads in
example : streamDecode [0xF9, 0x3C] = .ok ⟨.nedata, 0, [0], none⟩ := by rfl
open AwsVerif.Proofs.C04.CborHeads in
example : streamDecode [0x62, 0x61] = .ok ⟨.nedata, 0, [0, 0], none⟩ := by rfl   -- text(2) with 1 byte present
open AwsVerif.Proofs.C04.CborHeads in
example : streamDecode [0x62, 0x61, 0x62] = .ok ⟨.finished, 3, [0, 0], some (1, 2)⟩ := by rfl

/-! ### source/uuid.c: aws_uuid_init_from_str / aws_uuid_to_str -/

open AwsVerif.Uuid AwsVerif.Proofs.C04.UuidP in
/-- `aws_uuid_init_from_str` never faults.  Shorter than 36 bytes: refused (`AWS_ERROR_INVALID_BUFFER_SIZE`) without
touching the text.  Otherwise exactly the bytes `[0, 36)` are read — never past `len` — and the verdict is the scan of
those 36 bytes. -/
theorem c04_uuid_from_str_total_and_reads (inp : List UInt8) :
    ∃ r, fromStr inp = .ok r ∧ (∀ i ∈ r.reads, i < inp.length) ∧
      (inp.length < 36 → r.reads = [] ∧ r.res = .error .invalidBufferSize) ∧
      (36 ≤ inp.length → r.reads = List.range' 0 36 ∧ r.res = parse36 (inp.take 36)) := by
  by_cases h : inp.length < 36
  · refine ⟨_, fromStr_short inp h, ?_, ?_, ?_⟩
    · intro i hi; cases hi
    · intro _; exact ⟨rfl, rfl⟩
    · intro h'; omega
  · refine ⟨_, fromStr_long inp (by omega), ?_, ?_, ?_⟩
    · intro i hi
      have := (AwsVerif.Proofs.C04.CborHeads.mem_range'.mp hi).2
      omega
    · intro h'; omega
    · intro _; exact ⟨rfl, rfl⟩

open AwsVerif.Uuid AwsVerif.Proofs.C04.UuidP in
/-- accepted ⇒ exactly 36 bytes were read (and the text has at least 36) -/
theorem c04_uuid_accepted_reads_36 (inp : List UInt8) (r : FromRes) (u : List UInt8)
    (h : fromStr inp = .ok r) (hacc : r.res = .ok u) : 36 ≤ inp.length ∧ r.reads = List.range' 0 36 := by
  by_cases hs : inp.length < 36
  · rw [fromStr_short inp hs] at h
    injection h with h; subst h; cases hacc
  · rw [fromStr_long inp (by omega)] at h
    injection h with h; subst h
    exact ⟨by omega, rfl⟩

open AwsVerif.Uuid AwsVerif.Proofs.C04.UuidP in
/-- whatever follows the 36th byte is never looked at -/
theorem c04_uuid_from_str_ignores_tail (a junk : List UInt8) (ha : a.length = 36) :
    fromStr (a ++ junk) = fromStr a := by
  rw [fromStr_long (a ++ junk) (by simp; omega), fromStr_long a (by omega)]
  have : (a ++ junk).take 36 = a.take 36 := by
    rw [← ha]; simp
  rw [this]

open AwsVerif.Uuid AwsVerif.Proofs.C04.UuidP in
/-- `aws_uuid_to_str` on a valid buffer (`len ≤ capacity`): never faults; refuses (`AWS_ERROR_SHORT_BUFFER`, nothing
written) iff fewer than 37 bytes are free; otherwise writes the 36 characters and the NUL into `[len, len+37)`, leaves
every other byte of the buffer alone and advances `len` by 36. -/
theorem c04_uuid_to_str_bounds (u cells : List UInt8) (len : Nat) (hu : u.length = 16) (hl : len ≤ cells.length) :
    (cells.length - len < 37 → toStr u cells len = .ok (.error .shortBuffer)) ∧
    (37 ≤ cells.length - len →
      ∃ cells', toStr u cells len = .ok (.ok (cells', len + 36)) ∧ cells'.length = cells.length ∧
        cells'.take len = cells.take len ∧ cells'.drop (len + 37) = cells.drop (len + 37) ∧
        (cells'.drop len).take 36 = text u) := by
  refine ⟨toStr_short u cells len, ?_⟩
  intro h
  have h37 : len + 37 ≤ cells.length := by omega
  have htl : (text u ++ [0]).length = 37 := by simp [text_length u hu]
  have htk : (List.take len cells).length = len := by simp; omega
  refine ⟨_, toStr_ok u cells len hu h37, ?_, ?_, ?_, ?_⟩
  · simp only [List.length_append, htk, htl, List.length_drop]; omega
  · rw [List.append_assoc, List.take_left' htk]
  · have : (List.take len cells ++ (text u ++ [0])).length = len + 37 := by simp [htk, htl]
    rw [List.drop_left' this]
  · rw [List.append_assoc, List.drop_left' htk, List.append_assoc]
    have : (text u).length = 36 := text_length u hu
    rw [List.take_left' this]

open AwsVerif.Uuid AwsVerif.Proofs.C04.UuidP in
/-- round trip: the text `aws_uuid_to_str` prints for any 16 bytes is accepted by `aws_uuid_init_from_str` and gives the
same 16 bytes back (reading exactly those 36 characters) -/
theorem c04_uuid_roundtrip (u : List UInt8) (hu : u.length = 16) :
    fromStr (text u) = .ok ⟨.ok u, List.range' 0 36⟩ := by
  have hl := text_length u hu
  rw [fromStr_long (text u) (by omega)]
  have : (text u).take 36 = text u := List.take_of_length_le (by omega)
  rw [this, parse_text u hu]

-- "123e4567-e89b-12d3-a456-426614174000" is accepted; 35 characters are refused unread; a leading space shifts the scan
example : (AwsVerif.Uuid.fromStr [49,50,51,101,52,53,54,55,45,101,56,57,98,45,49,50,100,51,45,97,52,53,54,45,52,50,54,54,49,52,49,55,52,48,48,48]).map (·.res)
    = .ok (.ok [0x12,0x3e,0x45,0x67,0xe8,0x9b,0x12,0xd3,0xa4,0x56,0x42,0x66,0x14,0x17,0x40,0x00]) := by rfl
example : AwsVerif.Uuid.fromStr (List.replicate 35 48) = .ok ⟨.error .invalidBufferSize, []⟩ := by rfl
example : (AwsVerif.Uuid.fromStr (List.replicate 36 45)).map (·.res) = .ok (.error .malformed) := by rfl

/-! ### bridge to the constants regenerated from the current source (gen/c04_gen.py) -/

theorem c04_gen_read_hex : type_of% @AwsVerif.Proofs.C04.Bridge.gen_read_hex := AwsVerif.Proofs.C04.Bridge.gen_read_hex
theorem c04_gen_decode_reserve : type_of% @AwsVerif.Proofs.C04.Bridge.gen_decode_reserve :=
  AwsVerif.Proofs.C04.Bridge.gen_decode_reserve
theorem c04_gen_uuid : type_of% @AwsVerif.Proofs.C04.Bridge.gen_uuid := AwsVerif.Proofs.C04.Bridge.gen_uuid
theorem c04_gen_host_utils : type_of% @AwsVerif.Proofs.C04.Bridge.gen_host_utils := AwsVerif.Proofs.C04.Bridge.gen_host_utils
theorem c04_gen_date : type_of% @AwsVerif.Proofs.C04.Bridge.gen_date := AwsVerif.Proofs.C04.Bridge.gen_date

-- imported per-parser theorems are added here by the integrator
-- (C05 base64 / hex / UTF-8:            c04_base64_*, c04_hex_*, c04_utf8_*)
-- (C10 CBOR stream decode / consume:    c04_cbor_*   — consume_next_whole_data_item only below the depth bound, F6)
-- (C12 XML:                             c04_xml_*)
-- (C13 URI / percent-decoding / query:  c04_uri_*, c04_query_*, c04_uridec_*)
-- (C19 date-time readers:               c04_date_*)
-- (C01 unsigned-integer parsing:        c04_u64_*)


/-! ### Per-parser memory-safety / totality theorems proved with the other components

They are re-stated here (same statement, `type_of%`) so that the C04 obligation list, and therefore the C04
evidence, contains them: a change that breaks one of them breaks C04 as well as its home property.
The CBOR decoder (`Props.C10.c10_stream_decode`, `c10_consume_whole`) and the date-time readers (`Props.C19`) are
total functions of their input by construction of the model (structural recursion / fuel shown sufficient there);
their memory safety is decided by the sanitizer-monitored run, as for cJSON, UUID, IPv4 and the AVX2 codec. -/

/-- XML: no read outside the document, for every document and callback program -/
theorem c04_xml_no_oob : type_of% @AwsVerif.Props.C12.c04_xml_no_oob := @AwsVerif.Props.C12.c04_xml_no_oob
/-- XML: the fuel `|doc|+1` is never exhausted -/
theorem c04_xml_total : type_of% @AwsVerif.Props.C12.c04_xml_total := @AwsVerif.Props.C12.c04_xml_total
/-- XML: the parse always returns -/
theorem c04_xml_returns : type_of% @AwsVerif.Props.C12.c04_xml_returns := @AwsVerif.Props.C12.c04_xml_returns
/-- XML: every view handed to a callback lies inside the document -/
theorem c04_xml_views_inside : type_of% @AwsVerif.Props.C12.c04_xml_views_inside := @AwsVerif.Props.C12.c04_xml_views_inside
/-- URI: for every input the state machine ends FINISHED or ERROR and every component view of a successful parse
lies inside the text -/
theorem c04_uri_views_inside : type_of% @AwsVerif.Props.C13.c13_views_inside_all := @AwsVerif.Props.C13.c13_views_inside_all
/-- base64 decode: for every text, stores start at 0 and stay within capacity; success ⇒ reported length = bytes stored;
failure ⇒ `len` unchanged -/
theorem c04_b64_decode_bounds : type_of% @AwsVerif.Props.C05.c05_b64_len := @AwsVerif.Props.C05.c05_b64_len
/-- hex decode: the same -/
theorem c04_hex_decode_bounds : type_of% @AwsVerif.Props.C05.c05_hex_len := @AwsVerif.Props.C05.c05_hex_len
/-- byte cursors (incl. unsigned-integer parsing, percent-decoding's `read_hex_u8`): no operation on a well-formed
state reads or writes outside its object -/
theorem c04_cursor_ops_in_bounds : type_of% @AwsVerif.Props.C01.c01_writes_in_bounds := @AwsVerif.Props.C01.c01_writes_in_bounds
/-- unsigned-integer parsing: ok v iff all digits are valid for the base and the value fits 64 bits -/
theorem c04_parse_u64 : type_of% @AwsVerif.Props.C01.c01_parse_u64_spec := @AwsVerif.Props.C01.c01_parse_u64_spec

end AwsVerif.Props.C04
