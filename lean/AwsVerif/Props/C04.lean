import AwsVerif.Proofs.C04.HostUtils
import AwsVerif.Proofs.C04.Ipv6Groups
import AwsVerif.Props.C01
import AwsVerif.Props.C05
import AwsVerif.Props.C12
import AwsVerif.Props.C13
/-!
C04 — decoders and parsers are total and memory-safe on arbitrary input.

This file holds the C04 theorem list.  The theorems proved *here* are those of the small parser nobody
else covers: `aws_host_utils_is_ipv6` (model: `AwsVerif.Model.HostUtils`, every dereference of the C code
goes through a checked read that faults outside the input block).  The per-parser theorems of the other
components are imported below by the integrator.

Decided by sanitizer-monitored execution alone (no model, no theorem): `cJSON` behind
`aws_json_value_new_from_string`, the `sscanf`-based `aws_uuid_init_from_str` and `aws_host_utils_is_ipv4`,
and the AVX2 base64 codec (props/c04.py, harness/parsers.c).
-/
namespace AwsVerif.Props.C04
open AwsVerif.HostUtils AwsVerif.Proofs.C04

/-! ### aws_host_utils_is_ipv6 -/

/-- For every byte string and both values of `is_uri_encoded`, no dereference performed by
`aws_host_utils_is_ipv6` (memchr of the two splits, the predicate scans, `ptr[0]`, `ptr[1]`, `ptr[len-1]`,
`ptr[len-2]`, `ptr[i]`, `ptr[i-1]`, the two-byte compare with "25") lies outside the input block. -/
theorem c04_ipv6_no_oob (inp : List UInt8) (enc : Bool) (off : Nat) :
    isIpv6 inp enc ≠ .error (.oob off) := by
  rw [isIpv6_eq_spec]
  intro h
  cases h

/-- Totality: the run always ends with a verdict.  (All loops of the model are structural recursions over the
number of bytes left, at most `|input|` iterations each, so there is no fuel that could run out; what remains
to show is that no path ends in a fault.) -/
theorem c04_ipv6_total (inp : List UInt8) (enc : Bool) : ∃ b : Bool, isIpv6 inp enc = .ok b :=
  ⟨spec inp enc, isIpv6_eq_spec inp enc⟩

/-- The verdict is exactly the cursor-free specification `spec` (plain list functions: text before the first
`%` checked by `addrOk`, text between the first and the second `%` checked by `zoneOk`). -/
theorem c04_ipv6_spec (inp : List UInt8) (enc : Bool) : isIpv6 inp enc = .ok (spec inp enc) :=
  isIpv6_eq_spec inp enc

/-- accepted language -/
theorem c04_ipv6_accepts_iff (inp : List UInt8) (enc : Bool) :
    isIpv6 inp enc = .ok true ↔ spec inp enc = true := by
  rw [isIpv6_eq_spec]
  constructor
  · intro h; injection h
  · intro h; rw [h]

/-- NULL/0 and empty views are rejected without any read. -/
theorem c04_ipv6_empty (enc : Bool) : isIpv6 [] enc = .ok false := rfl

/-- A consequence of the specification worth knowing (behaviour of the current code, not a C04 defect):
whatever follows a *second* `%` is never looked at — `"::1%eth0%<anything>"` is accepted. -/
theorem c04_ipv6_ignores_text_after_second_pct (a z junk : List UInt8) (enc : Bool)
    (ha : idxOf? pct a = none) (hz : idxOf? pct z = none) :
    spec (a ++ pct :: (z ++ pct :: junk)) enc = spec (a ++ pct :: z) enc := by
  rw [spec_pct a _ enc ha, spec_pct a z enc ha]
  have h1 : zoneOf (z ++ pct :: junk) = z := by
    unfold zoneOf
    rw [idxOf?_self_append z junk hz]
    simp
  have h2 : zoneOf z = z := by
    unfold zoneOf
    rw [hz]
  rw [h1, h2]

/-- Declarative reading of the address check (`addrOk`, the text before the first `%`): 2..39 characters, all hex
digits or colons, no single colon at either end, every run of hex digits at most 4 long, and either no `::` and exactly
7 colons (8 groups), or exactly one `::` and at most 8 colons (at most 8 groups).  `pairsFrom false a` counts the
positions where a colon directly follows a colon, so `:::` counts 2 and is rejected. -/
theorem c04_ipv6_addr_accept_iff (a : List UInt8) :
    addrOk a = true ↔
      (2 ≤ a.length ∧ a.length ≤ 39) ∧ a.all isIpv6Char = true ∧
      ¬ (a[0]? = some colon ∧ a[1]? ≠ some colon) ∧
      ¬ (a[a.length - 1]? = some colon ∧ a[a.length - 2]? ≠ some colon) ∧
      runsOk 0 a = true ∧
      ((pairsFrom false a = 0 ∧ colons a = 7) ∨ (pairsFrom false a = 1 ∧ colons a ≤ 8)) := by
  unfold addrOk addrScan
  by_cases hlen : a.length < 2 ∨ 39 < a.length
  · rw [if_pos hlen]
    constructor
    · intro h; cases h
    · rintro ⟨⟨h1, h2⟩, _⟩; omega
  · rw [if_neg hlen]
    have hl : 2 ≤ a.length ∧ a.length ≤ 39 := by omega
    cases hall : a.all isIpv6Char with
    | false =>
      simp only [Bool.not_false, if_true]
      constructor
      · intro h; cases h
      · rintro ⟨_, h, _⟩; cases h
    | true =>
      simp only [Bool.not_true, Bool.false_eq_true, if_false]
      cases hs : (a[0]? == some colon && a[1]? != some colon) with
      | true =>
        simp only [if_true]
        constructor
        · intro h; cases h
        · rintro ⟨_, _, h, _⟩
          exfalso; apply h
          simpa [bne] using hs
      | false =>
        simp only [Bool.false_eq_true, if_false]
        have hs' : ¬ (a[0]? = some colon ∧ a[1]? ≠ some colon) := by
          intro h; have : (a[0]? == some colon && a[1]? != some colon) = true := by simpa [bne] using h
          rw [hs] at this; cases this
        cases he : (a[a.length - 1]? == some colon && a[a.length - 2]? != some colon) with
        | true =>
          simp only [if_true]
          constructor
          · intro h; cases h
          · rintro ⟨_, _, _, h, _⟩
            exfalso; apply h
            simpa [bne] using he
        | false =>
          simp only [Bool.false_eq_true, if_false]
          have he' : ¬ (a[a.length - 1]? = some colon ∧ a[a.length - 2]? ≠ some colon) := by
            intro h
            have : (a[a.length - 1]? == some colon && a[a.length - 2]? != some colon) = true := by simpa [bne] using h
            rw [he] at this; cases this
          rw [scanList_init]
          have hle := pairsFrom_le_colons a false
          by_cases hc : runsOk 0 a = true ∧ pairsFrom false a ≤ 1 ∧ 1 + colons a ≤ 8 + pairsFrom false a
          · rw [if_pos hc]
            obtain ⟨hr, hp, hg⟩ := hc
            simp only [verdict]
            by_cases hp0 : pairsFrom false a = 0
            · have hd : decide (0 < pairsFrom false a) = false := by simp [hp0]
              simp only [hd, Bool.false_eq_true, if_false, decide_eq_true_eq]
              constructor
              · intro h; exact ⟨hl, (by simp), hs', he', hr, Or.inl ⟨hp0, by omega⟩⟩
              · rintro ⟨_, _, _, _, _, h | h⟩ <;> omega
            · have hp1 : pairsFrom false a = 1 := by omega
              have hd : decide (0 < pairsFrom false a) = true := by simp [hp1]
              simp only [hd, if_true, decide_eq_true_eq]
              constructor
              · intro h; exact ⟨hl, (by simp), hs', he', hr, Or.inr ⟨hp1, by omega⟩⟩
              · rintro ⟨_, _, _, _, _, h | h⟩ <;> omega
          · rw [if_neg hc]
            constructor
            · intro h; cases h
            · rintro ⟨_, _, _, _, hr, h | h⟩ <;> exact absurd ⟨hr, by omega, by omega⟩ hc

/-! non-vacuity: concrete inputs on both sides of the verdict (bytes of "::1", "1:2:3:4:5:6:7:8",
"fe80::1%eth0" / "fe80::1%25eth0", ":::", "1:2:3:4:5:6:7:8:9", "12345::") -/
example : spec [58, 58, 49] false = true := by decide
example : spec [49, 58, 50, 58, 51, 58, 52, 58, 53, 58, 54, 58, 55, 58, 56] true = true := by decide
example : spec [102, 101, 56, 48, 58, 58, 49, 37, 101, 116, 104, 48] false = true := by decide
example : spec [102, 101, 56, 48, 58, 58, 49, 37, 101, 116, 104, 48] true = false := by decide
example : spec [102, 101, 56, 48, 58, 58, 49, 37, 50, 53, 101, 116, 104, 48] true = true := by decide
example : spec [58, 58, 58] false = false := by decide
example : spec [49, 58, 50, 58, 51, 58, 52, 58, 53, 58, 54, 58, 55, 58, 56, 58, 57] false = false := by decide
example : spec [49, 50, 51, 52, 53, 58, 58] false = false := by decide

-- imported per-parser theorems are added here by the integrator
-- (C05 base64 / hex / UTF-8:            c04_base64_*, c04_hex_*, c04_utf8_*)
-- (C10 CBOR stream decode / consume:    c04_cbor_*   — consume_next_whole_data_item only below the depth bound, F6)
-- (C12 XML:                             c04_xml_*)
-- (C13 URI / percent-decoding / query:  c04_uri_*, c04_query_*, c04_uridec_*)
-- (C19 date-time readers:               c04_date_*)
-- (C01 unsigned-integer parsing:        c04_u64_*)


/-! ### Per-parser memory-safety / totality theorems proved with the other components

They are re-stated here (same statement, `type_of%`) so that the C04 obligation list, and therefore the C04
evidence, contains them: a change that breaks one of them breaks C04 as well as its home property.
The CBOR decoder (`Props.C10.c10_stream_decode`, `c10_consume_whole`) and the date-time readers (`Props.C19`) are
total functions of their input by construction of the model (structural recursion / fuel shown sufficient there);
their memory safety is decided by the sanitizer-monitored run, as for cJSON, UUID, IPv4 and the AVX2 codec. -/

/-- XML: no read outside the document, for every document and callback program -/
theorem c04_xml_no_oob : type_of% @AwsVerif.Props.C12.c04_xml_no_oob := @AwsVerif.Props.C12.c04_xml_no_oob
/-- XML: the fuel `|doc|+1` is never exhausted -/
theorem c04_xml_total : type_of% @AwsVerif.Props.C12.c04_xml_total := @AwsVerif.Props.C12.c04_xml_total
/-- XML: the parse always returns -/
theorem c04_xml_returns : type_of% @AwsVerif.Props.C12.c04_xml_returns := @AwsVerif.Props.C12.c04_xml_returns
/-- XML: every view handed to a callback lies inside the document -/
theorem c04_xml_views_inside : type_of% @AwsVerif.Props.C12.c04_xml_views_inside := @AwsVerif.Props.C12.c04_xml_views_inside
/-- URI: for every input the state machine ends FINISHED or ERROR and every component view of a successful parse
lies inside the text -/
theorem c04_uri_views_inside : type_of% @AwsVerif.Props.C13.c13_views_inside_all := @AwsVerif.Props.C13.c13_views_inside_all
/-- base64 decode: for every text, stores start at 0 and stay within capacity; success ⇒ reported length = bytes stored;
failure ⇒ `len` unchanged -/
theorem c04_b64_decode_bounds : type_of% @AwsVerif.Props.C05.c05_b64_len := @AwsVerif.Props.C05.c05_b64_len
/-- hex decode: the same -/
theorem c04_hex_decode_bounds : type_of% @AwsVerif.Props.C05.c05_hex_len := @AwsVerif.Props.C05.c05_hex_len
/-- byte cursors (incl. unsigned-integer parsing, percent-decoding's `read_hex_u8`): no operation on a well-formed
state reads or writes outside its object -/
theorem c04_cursor_ops_in_bounds : type_of% @AwsVerif.Props.C01.c01_writes_in_bounds := @AwsVerif.Props.C01.c01_writes_in_bounds
/-- unsigned-integer parsing: ok v iff all digits are valid for the base and the value fits 64 bits -/
theorem c04_parse_u64 : type_of% @AwsVerif.Props.C01.c01_parse_u64_spec := @AwsVerif.Props.C01.c01_parse_u64_spec

end AwsVerif.Props.C04
