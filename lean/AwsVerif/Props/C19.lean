import AwsVerif.Proofs.C19.Main
/-!
# C19 — date-time formatting and parsing round-trip and agree with the calendar

Theorems about `AwsVerif.Model.DateTime` (the transcription of `source/date_time.c` on top of a
model of libc's `gmtime_r` / `timegm` / `strftime`).  Instants are whole seconds `t` with
`0 ≤ t ≤ 253402300799` (1970-01-01T00:00:00Z … 9999-12-31T23:59:59Z); nothing is enumerated.

* `c19_calendar`        the searched inverse agrees with an independent recursive calendar, every day
* `c19_timegm_gmtime`   `timegm ∘ gmtime = id` on all of `time_t`
* `c19_roundtrip`       format, then parse (explicit format or auto-detect), for the five parseable
                        format × length combinations
* `c19_rfc822_short_unparseable`  the sixth combination (RFC 822 date-only) is refused, for every
                        instant: the property as written fails there (known finding F8)
* `c19_init_epoch_secs_double`, `c19_init_epoch_secs_carry_witness`   the double → (seconds, milliseconds) split over the
                        rationals: ms ≤ 1000, views consistent also at ms = 1000
* `c19_format_appends`, `c19_format_capacity`   the formatters append to the output buffer (prefix kept, `len` grows
                        by the text; refusal leaves it unchanged)
* `c19_accessors`, `c19_parsed_fields`   accessors = the independent calendar's fields
* `c19_offsets_iso`, `c19_offsets_rfc822`   numeric offsets and UTC designators in any case
* `c19_epoch_views`     `as_millis`, `as_nanos`, `init_epoch_millis` (through the generated `aws_timestamp_convert`);
                        exact or saturated, never wrapped; `c19_nanos_plain_add_wraps` records the repaired defect
* `c19_gen_formatters`, `c19_gen_month_table`, `c19_gen_constants`   the values regenerated from date_time.c
                        (format strings, formatter dispatch, month compare chain, reader constants) are the expected ones
-/
namespace AwsVerif.Props.C19
open AwsVerif.DateTime AwsVerif.DateTime.Spec AwsVerif.Proofs.C19

/-- **Calendar.**  For *every* day number `z` (0 = 0001-01-01; 719162 = 1970-01-01, 3652058 = 9999-12-31):
the date found by search is a valid date of the independent recursive calendar, that calendar and the
closed form both count `z` days up to it, and conversely every valid date is found from its day number. -/
theorem c19_calendar :
    (∀ z : Nat,
      Spec.valid (civilFromDays z).1 (civilFromDays z).2.1 (civilFromDays z).2.2 ∧
      Spec.dayNumber (civilFromDays z).1 (civilFromDays z).2.1 (civilFromDays z).2.2 = z ∧
      daysFromCivil (civilFromDays z).1 (civilFromDays z).2.1 (civilFromDays z).2.2 = z) ∧
    (∀ y m d : Nat, Spec.valid y m d → civilFromDays (Spec.dayNumber y m d) = (y, m, d)) ∧
    civilFromDays 719162 = (1970, 0, 1) ∧ civilFromDays 3652058 = (9999, 11, 31) :=
  Main.c19_calendar

/-- the model of `timegm` inverts the model of `gmtime_r` on all of `time_t` -/
theorem c19_timegm_gmtime (t : Int) : timegm (gmtime t) = t :=
  Main.c19_timegm_gmtime t

/-- **Round trip.**  For every instant of 1970–9999, every format except the RFC 822 date-only one,
and every parse mode that reads that format: formatting succeeds and parsing the text gives the same
instant (full) or its midnight (date-only), assumed UTC, milliseconds 0. -/
theorem c19_roundtrip (t : Int) (h0 : 0 ≤ t) (h1 : t ≤ maxInstant) (f : Fmt) (short : Bool) (pf : Fmt)
    (hf : f ≠ .autoDetect) (hr : Reads pf f) (hne : ¬ (f = .rfc822 ∧ short = true)) :
    ∃ text dt, formatUtc (initEpochSecs t 0) f short 100 = .ok text ∧ initFromStr text pf = .ok dt ∧
      dt.timestamp = (if short then t - t % 86400 else t) ∧ dt.millis = 0 ∧ dt.utcAssumed = true ∧
      dt.gmt = gmtime dt.timestamp :=
  Main.c19_roundtrip t h0 h1 f short pf hf hr hne

/-- **The RFC 822 date-only text is not parseable** (negation of the round trip for that combination,
for every instant, in every parse mode): `s_parse_rfc_822` succeeds only in state `ON_TZ`. -/
theorem c19_rfc822_short_unparseable (t : Int) (h0 : 0 ≤ t) (h1 : t ≤ maxInstant) (pf : Fmt) :
    ∃ text, formatUtc (initEpochSecs t 0) .rfc822 true 100 = .ok text ∧
      initFromStr text pf = .error .invalidDateStr :=
  Main.c19_rfc822_short_unparseable t h0 h1 pf

/-- concrete witness of the above: "Thu, 01 Jan 1970" -/
theorem c19_rfc822_short_witness :
    formatUtc (initEpochSecs 0 0) .rfc822 true 100 = .ok [84, 104, 117, 44, 32, 48, 49, 32, 74, 97, 110, 32, 49, 57, 55, 48] ∧
    initFromStr [84, 104, 117, 44, 32, 48, 49, 32, 74, 97, 110, 32, 49, 57, 55, 48] .rfc822 = .error .invalidDateStr :=
  Main.c19_rfc822_short_witness

/-- **Accessors.**  For an instant of 1970–9999 (any milliseconds) the UTC accessors are the fields of
the unique valid date of the independent calendar whose day number is `t / 86400` days after
1970-01-01, the weekday is the recursive weekday, and hour/minute/second split `t mod 86400`. -/
theorem c19_accessors (t : Int) (h0 : 0 ≤ t) (h1 : t ≤ maxInstant) (ms : Nat) :
    ∃ y m d : Nat, Spec.valid y m d ∧ Spec.dayNumber y m d = (t / 86400).toNat + 719162 ∧
      1970 ≤ y ∧ y ≤ 9999 ∧
      accYear (initEpochSecs t ms) = y ∧ accMonth (initEpochSecs t ms) = m ∧ accMonthDay (initEpochSecs t ms) = d ∧
      accDayOfWeek (initEpochSecs t ms) = Spec.weekday (t / 86400).toNat ∧
      accHour (initEpochSecs t ms) = (t % 86400 / 3600).toNat ∧
      accMinute (initEpochSecs t ms) = (t % 3600 / 60).toNat ∧
      accSecond (initEpochSecs t ms) = (t % 60).toNat :=
  Main.c19_accessors t h0 h1 ms

/-- every successfully parsed date carries the broken-down time of its own timestamp (so
`c19_accessors` applies to parse results), and milliseconds 0 -/
theorem c19_parsed_fields (s : List Nat) (f : Fmt) (dt : DateTime) (h : initFromStr s f = .ok dt) :
    dt.gmt = gmtime dt.timestamp ∧ dt.millis = 0 :=
  Main.c19_parsed_fields s f dt h

/-- **Offsets, ISO 8601.**  Extended or basic text of an instant (date/time separator `T`, `t` or
blank), an optional fraction, then `Z`/`z` gives the instant; then `±hh:mm` or `±hhmm` gives the
instant minus the offset (east positive) — i.e. `parse (s ++ offset) = parse (s ++ "Z") ∓ (3600·hh + 60·mm)`. -/
theorem c19_offsets_iso (t : Int) (h0 : 0 ≤ t) (h1 : t ≤ maxInstant) (basic : Bool) (sep : Nat) (hsep : Spec.isDateTimeSep sep)
    (frac : List Nat) (hfr : Spec.isFraction frac) (hfl : frac.length ≤ 70) (pf : Fmt) (hpf : pf ≠ .rfc822) :
    let body := (if basic then fmtBasicBodySep sep (gmtime t) else fmtIsoBodySep sep (gmtime t))
    (∀ zc, zc = 90 ∨ zc = 122 → initFromStr (body ++ (frac ++ [zc])) pf = .ok (mkDateTime t 0 true [])) ∧
    (∀ (neg : Bool) (hh mm : Nat) (colon : Bool), hh < 100 → mm < 100 →
      initFromStr (body ++ (frac ++ Spec.offsetText neg hh mm colon)) pf =
        .ok (mkDateTime (t - Spec.offsetSecs neg hh mm) 0 true [])) :=
  Main.c19_offsets_iso t h0 h1 basic sep hsep frac hfr hfl pf hpf

/-- **Offsets, RFC 822.**  The text of an instant up to the zone, followed by `Z`, `UT`, `UTC` or `GMT`
in any mixture of cases, gives the instant; followed by `±hhmm` it gives the instant minus the offset. -/
theorem c19_offsets_rfc822 (t : Int) (h0 : 0 ≤ t) (h1 : t ≤ maxInstant) (pf : Fmt) (hpf : pf = .rfc822 ∨ pf = .autoDetect) :
    (∀ z, Spec.isUtcDesignator z → initFromStr (fmtRfc822Body (gmtime t) ++ z) pf = .ok (mkDateTime t 0 true z)) ∧
    (∀ (neg : Bool) (hh mm : Nat), hh < 100 → mm < 100 →
      initFromStr (fmtRfc822Body (gmtime t) ++ Spec.offsetText neg hh mm false) pf =
        .ok (mkDateTime (t - Spec.offsetSecs neg hh mm) 0 true (Spec.offsetText neg hh mm false))) :=
  Main.c19_offsets_rfc822 t h0 h1 pf hpf

/-- **Epoch views.**  For a non-negative timestamp below 2^64 and `ms < 65536` (the field is a `uint16_t`):
`as_millis = 1000·secs + ms` when that fits 64 bits; `as_nanos` is `10^9·secs + 10^6·ms` *exactly or
saturated at 2^64 − 1, never wrapped*, hence `= 10^6 · as_millis` whenever it fits (instants up to
2554-07-21T23:34:33.709Z) and the maximum beyond; `init_epoch_millis m` splits `m` so that `as_millis`
returns `m`.  (`aws_timestamp_convert` is the generated translation of clock.inl.) -/
theorem c19_epoch_views :
    (∀ dt : DateTime, 0 ≤ dt.timestamp → dt.timestamp.toNat < u64 → dt.millis < 65536 →
      (1000 * dt.timestamp.toNat + dt.millis < u64 → asMillis dt = 1000 * dt.timestamp.toNat + dt.millis) ∧
      asNanos dt = min (1000000000 * dt.timestamp.toNat + 1000000 * dt.millis) (u64 - 1) ∧
      (1000000000 * dt.timestamp.toNat + 1000000 * dt.millis < u64 → asNanos dt = 1000000 * asMillis dt)) ∧
    (∀ m : Nat, m < u64 →
      (initEpochMillis m).timestamp = (m / 1000 : Nat) ∧ (initEpochMillis m).millis = m % 1000 ∧
      asMillis (initEpochMillis m) = m) :=
  Main.c19_epoch_views

/-- **Record of the defect repaired in /repo** (`aws_date_time_as_nanos` added its two saturating conversions
with a plain `+`): for 20000000000 s + 1 ms (year 2603) that body gives 999999 ns — the sum of the saturated
first term and 10^6 wraps — while `as_millis` is 20000000000001; the current body saturates there. -/
theorem c19_nanos_plain_add_wraps :
    asNanosPlainAdd { timestamp := 20000000000, millis := 1 } = 999999 ∧
    asMillis { timestamp := 20000000000, millis := 1 } = 20000000000001 ∧
    asNanos { timestamp := 20000000000, millis := 1 } = 18446744073709551615 :=
  Main.c19_nanos_plain_add_wraps

/-- **`init_epoch_secs` on a double.**  For every finite non-negative double below 2^63 (given by its bit
pattern; `modf`, the product with 1000.0 rounded to nearest-even, `round`, the cast — over the rationals): the
timestamp is the integral part, the stored milliseconds are at most **1000** (reached when the fraction is in
[0.9995, 1): `c19_init_epoch_secs_carry_witness`), the broken-down time is that of the timestamp, and the epoch
views are consistent also then: `as_millis = 1000·timestamp + ms` (so a stored 1000 counts as one more second)
and `as_nanos` is exact or saturated. -/
theorem c19_init_epoch_secs_double (bits : Nat) (dt : DateTime) (h : initEpochSecsDouble bits = some dt) :
    0 ≤ dt.timestamp ∧ dt.millis ≤ 1000 ∧ dt.gmt = gmtime dt.timestamp ∧
    (1000 * dt.timestamp.toNat + dt.millis < u64 → asMillis dt = 1000 * dt.timestamp.toNat + dt.millis) ∧
    asNanos dt = min (1000000000 * dt.timestamp.toNat + 1000000 * dt.millis) (u64 - 1) :=
  Main.c19_init_epoch_secs_double bits dt h

/-- 1033545909.9996 is stored as 1033545909 s + 1000 ms (views: 1033545910.000 s), 1033545909.9994 as … + 999 ms -/
theorem c19_init_epoch_secs_carry_witness :
    splitDouble 0x41cecd545afff2e5 = some (1033545909, 1000) ∧ splitDouble 0x41cecd545affec57 = some (1033545909, 999) ∧
    asMillis { timestamp := 1033545909, millis := 1000 } = 1033545910000 ∧
    asNanos { timestamp := 1033545909, millis := 1000 } = 1033545910000000000 :=
  Main.c19_init_epoch_secs_carry_witness

/-- **The formatters append.**  `aws_date_time_to_utc_time[_short]_str` on an output buffer that already
holds `b.data` (capacity `b.cap`) behaves as the same call on an empty buffer of the remaining space:
on success the buffer is `b.data ++ text` (prefix preserved, `len` = prefix + text length, capacity
unchanged); on refusal the documented error and the buffer is not changed. -/
theorem c19_format_appends (dt : DateTime) (f : Fmt) (short : Bool) (b : Buf) :
    formatInto dt f short b =
      match formatUtc dt f short (b.cap - b.data.length) with
      | .ok t => .ok { data := b.data ++ t, cap := b.cap }
      | .error e => .error e :=
  Main.c19_format_appends dt f short b

/-- for an instant of 1970–9999 the appended text is the very text of `c19_roundtrip` (so the appended range
parses back to the instant); it is appended exactly when text and terminator fit the remaining space,
otherwise `AWS_ERROR_SHORT_BUFFER` -/
theorem c19_format_capacity (t : Int) (h0 : 0 ≤ t) (h1 : t ≤ maxInstant) (f : Fmt) (short : Bool) (hf : f ≠ .autoDetect) (b : Buf) :
    ∃ text, formatUtc (initEpochSecs t 0) f short 100 = .ok text ∧
      (text.length + 1 ≤ b.cap - b.data.length →
        formatInto (initEpochSecs t 0) f short b = .ok { data := b.data ++ text, cap := b.cap }) ∧
      (b.cap - b.data.length < text.length + 1 → formatInto (initEpochSecs t 0) f short b = .error .shortBuffer) :=
  Main.c19_format_capacity t h0 h1 f short hf b

/-! ### the generated layer (`AwsVerif.Gen.Date`, rewritten from date_time.c on every run) -/

/-- **Generated formatter dispatch and format strings.**  Each of the six UTC formatter cases formats
`gmt_time` (never `local_time`) and its format string, interpreted by the strftime model, is
"%a, %d %b %Y %H:%M:%S GMT", "%Y-%m-%dT%H:%M:%SZ", "%Y%m%dT%H%M%SZ" or the date-only form; AUTO_DETECT has no case. -/
theorem c19_gen_formatters (tm : Tm) (f : Fmt) (short : Bool) : formatTextGen tm f short = formatText tm f short :=
  Main.c19_gen_formatters tm f short

/-- **Generated local-time formatter dispatch.**  For a fixed-offset process zone `z` the six local-time
formatter cases format `local_time` (never `gmt_time`): RFC 822 full is the UTC layout with `%Z` (the zone
name) in place of "GMT", the others are the UTC layouts applied to the local broken-down time. -/
theorem c19_gen_local_formatters (z : Zone) (dt : DateTime) (f : Fmt) (short : Bool) :
    formatLocalText z dt f short =
      match f, short with
      | .rfc822, false => some (fmtRfc822Body (localtime z dt.timestamp) ++ z.name)
      | f, short => formatText (localtime z dt.timestamp) f short :=
  Main.c19_gen_local_formatters z dt f short

/-- **Generated libc glue** (source/posix/time.c): `aws_gmtime`, `aws_localtime`, `aws_timegm` are each exactly one
call of `gmtime_r`, `localtime_r`, `timegm` on the caller's own buffers — the conversions the model stands for, and
re-entrant because only the `_r` forms (no libc-internal static `struct tm`) are used. -/
theorem c19_gen_time_glue :
    Gen.Date.gmtimeCallee = "gmtime_r" ∧ Gen.Date.localtimeCallee = "localtime_r" ∧ Gen.Date.timegmCallee = "timegm" :=
  Main.c19_gen_time_glue

/-- **Generated month table.**  The compare chain of `get_month_number_from_str` maps each of the twelve
names `strftime` emits for `%b` to its own month number. -/
theorem c19_gen_month_table : ∀ m : Fin 12, monthNumber (monthName (m.val : Int) ++ [32]) = some m.val :=
  Main.c19_gen_month_table

/-- **Generated reader constants.**  The zone characters copied (5) plus the terminator fit `tz[6]` and an
offset zone `±hhmm` fits; 4-digit years subtract libc's base 1900, 2-digit years are 20yy, the ISO reader
subtracts 1900; the longest formatter text (29) is within `AWS_DATE_TIME_STR_MAX_LEN`; the epoch views call
`aws_timestamp_convert` with SECS→MILLIS, SECS→NANOS, MILLIS→NANOS, and MILLIS→SECS with a remainder. -/
theorem c19_gen_constants :
    Gen.Date.tzMaxChars + 1 ≤ Gen.Date.tzBufSize ∧ Gen.Date.offsetZoneLen ≤ Gen.Date.tzMaxChars ∧
    Gen.Date.rfcYear4Digits = 4 ∧ Gen.Date.rfcYear4Sub = 1900 ∧
    Gen.Date.rfcYear2Digits = 2 ∧ Gen.Date.rfcYear2Add - Gen.Date.rfcYear2Sub + 1900 = 2000 ∧
    Gen.Date.isoYearSub = 1900 ∧ 29 ≤ Gen.Date.AWS_DATE_TIME_STR_MAX_LEN ∧
    Gen.Date.asMillisSecs = (1, 1000, false) ∧ Gen.Date.asNanosSecs = (1, 1000000000, false) ∧
    Gen.Date.asNanosMillis = (1000, 1000000000, false) ∧ Gen.Date.initMillis = (1000, 1, true) :=
  Main.c19_gen_constants

/-! The hypotheses are satisfiable by non-trivial instants (a leap day, the last second of 9999). -/
example : gmtime 951782400 = { year := 2000, mon := 1, mday := 29, hour := 0, min := 0, sec := 0, wday := 2 } := by decide
example : gmtime 253402300799 = { year := 9999, mon := 11, mday := 31, hour := 23, min := 59, sec := 59, wday := 5 } := by decide
example : Spec.isFraction [46, 49, 50, 51] := Or.inr ⟨46, 49, [50, 51], rfl, Or.inl rfl, by decide, by decide⟩
example : Spec.isUtcDesignator [103, 77, 116] := by unfold Spec.isUtcDesignator; decide
example : initFromStr (fmtIsoBodySep 84 (gmtime 951782400) ++ ([46, 53] ++ Spec.offsetText true 1 30 true)) .autoDetect
    = .ok (mkDateTime (951782400 - Spec.offsetSecs true 1 30) 0 true []) :=
  (c19_offsets_iso 951782400 (by decide) (by decide) false 84 (Or.inl rfl) [46, 53]
    (Or.inr ⟨46, 53, [], rfl, Or.inl rfl, by decide, by simp⟩) (by decide) .autoDetect (by decide)).2 true 1 30 true (by decide) (by decide)

end AwsVerif.Props.C19
