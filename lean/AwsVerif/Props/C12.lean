import AwsVerif.Model.Xml
import AwsVerif.Proofs.C12.Safety
import AwsVerif.Proofs.C12.Top
/-!
C12 (and the XML family of C04): theorems about `Model/Xml.lean`.

`doc.length ≤ HALF` (= SIZE_MAX/2) is the only hypothesis on the document: `aws_byte_cursor_advance`
refuses longer cursors, and no object in memory is larger.
-/
namespace AwsVerif.Props.C12
open AwsVerif.Xml
open AwsVerif.Gen

/-- every view of an event lies inside the document block -/
def EventInside (doc : Bytes) (e : Event) : Prop :=
  e.name.off + e.name.len ≤ doc.length ∧
  (∀ a ∈ e.attrs, ViewIn doc a.name ∧ ViewIn doc a.value) ∧
  (∀ b, e.body = some b → ViewIn doc b)

/-- C04/XML memory safety: for every document and every callback program no read of the parser
(`ptr[i]`, `*(p+1)`, `memchr`, `memcmp`, `memcpy` of the name) touches a byte outside the document. -/
theorem c04_xml_no_oob (doc : Bytes) (prog : Prog) (maxDepth : Nat) (hH : doc.length ≤ HALF) :
    ∀ i, parse doc prog maxDepth ≠ .error (.oob i) := by
  intro i h
  obtain ⟨r, hr, _⟩ := parse_ok doc hH prog maxDepth
  rw [hr] at h; cases h

/-- C04/XML termination: `fuelFor doc = |doc| + 1` loop iterations per loop always suffice (the bound does
not even depend on the depth limit: every iteration of every loop consumes at least one byte of the
remaining document, and a descent happens only after such an iteration). -/
theorem c04_xml_total (doc : Bytes) (prog : Prog) (maxDepth : Nat) (hH : doc.length ≤ HALF) :
    parse doc prog maxDepth ≠ .error .fuel := by
  intro h
  obtain ⟨r, hr, _⟩ := parse_ok doc hH prog maxDepth
  rw [hr] at h; cases h

/-- the two together: the parse always returns -/
theorem c04_xml_returns (doc : Bytes) (prog : Prog) (maxDepth : Nat) (hH : doc.length ≤ HALF) :
    ∃ r, parse doc prog maxDepth = .ok r := by
  obtain ⟨r, hr, _⟩ := parse_ok doc hH prog maxDepth
  exact ⟨r, hr⟩

/-- C04/XML: every view handed to a callback (name, attribute names and values, body) lies inside the
document (a `{NULL,0}` view counts as inside). -/
theorem c04_xml_views_inside (doc : Bytes) (prog : Prog) (maxDepth : Nat) (hH : doc.length ≤ HALF) :
    ∀ r, parse doc prog maxDepth = .ok r → ∀ e ∈ r.events, EventInside doc e := by
  intro r hr e he
  obtain ⟨r', hr', hG, _⟩ := parse_ok doc hH prog maxDepth
  rw [hr] at hr'; cases hr'
  have := hG e he
  exact ⟨this.name, this.attrs, this.body⟩

/-- the closing tag `</name>` of the element reported by `e` stands at offset `p` -/
def ClosingTagAt (doc : Bytes) (e : Event) (p : Nat) : Prop :=
  closePatOf (seg doc e.name.off (e.name.off + e.name.len)) <+: doc.drop p

/-- C12 limits: no run ever reports an element deeper than the depth limit or with more than 10
attributes, the reported depth is the length of the node path + 1, and a run that *succeeds* has
 * descended only into elements above the depth limit (so an element at the limit that the program
   descends into makes the run fail),
 * never seen a callback fail,
 * for every element it skipped or read as body (other than `<x/>`): a name of at most 256 bytes and a
   closing tag `</name>` found at the recorded position, the body being exactly the bytes up to it.
So a document over a limit, or lacking the closing tag of an element that is skipped or read, is
rejected. -/
theorem c12_limits_rejected (doc : Bytes) (prog : Prog) (maxDepth : Nat) (hH : doc.length ≤ HALF) :
    ∀ r, parse doc prog maxDepth = .ok r →
      (∀ e ∈ r.events, e.depth ≤ effMaxDepth maxDepth ∧ e.depth = e.path.length + 1 ∧ e.attrs.length ≤ 10) ∧
      (r.ok = true → ∀ e ∈ r.events,
        e.action ≠ .abort ∧
        (e.action = .descend → e.depth < effMaxDepth maxDepth) ∧
        ((e.action = .skip ∨ e.action = .body) → e.isEmpty = false →
          e.name.len ≤ MAX_NAME_LEN ∧ ∃ p, e.closeAt = some p ∧ ClosingTagAt doc e p ∧
            (e.action = .body → ∃ o, e.body = some (some ⟨o, p - o⟩) ∧ o ≤ p))) := by
  intro r hr
  obtain ⟨r', hr', hG, hS⟩ := parse_ok doc hH prog maxDepth
  rw [hr] at hr'; cases hr'
  refine ⟨?_, ?_⟩
  · intro e he
    have := hG e he
    exact ⟨this.depth, this.depthPath, this.nattrs⟩
  · intro hok e he
    have := hS hok e he
    exact ⟨this.notAbort, this.descend, this.closed⟩

/-- C12 events.  For every element tree of the dialect (`Tree.WF`, `Proofs/C12/Render.lean`: non-empty
names and attribute names without `< > / space = " tab CR LF ! ?`, attribute values without
`< > space "` (they may contain `=`, e.g. base64 padding), character data without `< >`; names may repeat, nest inside themselves and extend one
another; any depth, any name length, any number of attributes), every preamble of `<?…>` / `<!…>`
statements and character data, arbitrary trailing bytes, every callback program and every depth limit:
`aws_xml_parse` on the rendered document returns, and the events it reported - (path, depth, name,
attributes, body when read) as bytes, in callback order - and its verdict are exactly
`expectNode prog limit [] 1 tree`: the pre-order list of the elements the program reaches, bodies being
the exact text between start and end tag, skipped subtrees not disturbing their following siblings,
and the run failing exactly at the first abort, descent at the depth limit, element with more than 10
attributes, or skip / body read of an element whose name exceeds 256 bytes (events up to that point
are still the expected ones). -/
theorem c12_events (pre : List PreItem) (name : Bytes) (attrs : List (Bytes × Bytes)) (kids : List Tree)
    (trailer : Bytes) (prog : Prog) (maxDepth : Nat)
    (hpre : ∀ i ∈ pre, i.WF) (hwf : (Tree.elem name attrs kids).WF)
    (hH : (renderDoc pre (.elem name attrs kids) trailer).length ≤ HALF) :
    ∃ r, parse (renderDoc pre (.elem name attrs kids) trailer) prog maxDepth = .ok r ∧
      r.ok = (expectNode prog (effMaxDepth maxDepth) [] 1 (.elem name attrs kids)).2 ∧
      r.xevents (renderDoc pre (.elem name attrs kids) trailer) =
        (expectNode prog (effMaxDepth maxDepth) [] 1 (.elem name attrs kids)).1 :=
  parse_render pre name attrs kids trailer prog maxDepth hpre hwf hH

/-- the heart of `c12_events`, stated on its own: wherever the parser stands right behind a start tag
`<nm …>` and the rest of the document is the rendering of the element's children, its end tag and
anything else, `s_advance_to_closing_tag` stops behind exactly that end tag and the body is exactly
the rendered children - also when descendants are named `nm` or have `nm` as a proper prefix. -/
theorem c12_closing_tag_search (doc : Bytes) (hH : doc.length ≤ HALF) (st : PState) (node : Node)
    (nm : Bytes) (hnm : NameOk nm) (hlen : nm.length ≤ MAX_NAME_LEN) (kids : List Tree) (hks : WFL kids) (tail : Bytes)
    (hs : st.cur.off + st.cur.len = doc.length) (herr : st.error = false)
    (hname : seg doc node.name.off (node.name.off + node.name.len) = nm) (hnl : node.name.len = nm.length)
    (hnv : node.name.off + node.name.len ≤ doc.length) (hdab : node.docAtBody = st.cur) (hemp : node.isEmpty = false)
    (hd : doc.drop st.cur.off = renderKids kids ++ (closePatOf nm ++ tail)) :
    ∃ st' cp, advanceToClosingTag doc st node = .ok (st', true, some ⟨st.cur.off, (renderKids kids).length⟩, cp) ∧
      doc.drop st'.cur.off = tail := by
  obtain ⟨⟨st', ok, b, cp⟩, hr, hP⟩ := advanceToClosingTag_render doc hH st node nm hnm kids hks tail hs herr hname hnl hnv hdab hemp hd
  simp only [hlen, if_true] at hP
  obtain ⟨hok, hcur, _, _, _, _, hb⟩ := hP
  subst hok hb
  refine ⟨st', cp, hr, ?_⟩
  rw [hcur]
  simp only
  rw [show st.cur.off + (renderKids kids).length + (closePatOf nm).length = st.cur.off + (renderKids kids ++ closePatOf nm).length by
    simp only [List.length_append]; omega]
  rw [drop_of_drop hd, ← List.append_assoc, drop_append_left']

/-- C12 tie to the current source (`Gen/XmlConsts.lean`, regenerated from xml_parser.c and xml_parser_impl.h
by every run): the limits, array sizes, list capacities, literal sets and guards *as written now* stand in
the relations the theorems above rest on -
 * documented limits: default depth 20, names up to exactly 256 bytes pass the length test;
 * a name that passes the test fits `name_open` as `<name` and `name_close` as `</name>` (no
   `aws_byte_buf_append` whose result is ignored can fail), and neither buffer exceeds its array;
 * the split list holds the name + 10 attribute pieces, `node->attributes` 10, the pair list the 2 pieces that
   `split_on_char_n(…, '=', 1, …)` yields, every attribute piece has a slot, no list exceeds its backing array;
 * the patterns are `<`name and `</`name`>`; split characters ' ' and '='; '/' marks empty / closing tags;
   preamble markers are '?' and '!'; no name-end delimiter is a name byte, '>' and ' ' are delimiters;
 * the depth test is `>=`, the child loop runs while `parser->error == 0`, `max_depth` defaults to 20, the trim
   predicate tests for '"'.
(`Model/Xml.lean` computes with the generated capacities, buffer sizes, tests and sets.) -/
theorem c12_source_constants :
    (XmlConsts.maxDocumentDepth = 20 ∧ XmlConsts.maxNameLen = 256 ∧
      ∀ len, XmlConsts.nameTooLong (len + XmlConsts.closingOverhead) = false ↔ len ≤ 256) ∧
    (∀ nm : Bytes, XmlConsts.nameTooLong (nm.length + XmlConsts.closingOverhead) = false →
      bufAppend XmlConsts.openBufCap (bufAppend XmlConsts.openBufCap [] [Xml.LT]) nm = Xml.LT :: nm ∧
      bufAppend XmlConsts.closeBufCap (bufAppend XmlConsts.closeBufCap (bufAppend XmlConsts.closeBufCap
        (bufAppend XmlConsts.closeBufCap [] [Xml.LT]) [SLASH]) nm) [Xml.GT] = Xml.LT :: SLASH :: (nm ++ [Xml.GT])) ∧
    (XmlConsts.openBufCap ≤ XmlConsts.nameOpenSize ∧ XmlConsts.closeBufCap ≤ XmlConsts.nameCloseSize) ∧
    (SPLIT_CAP = 11 ∧ ATTR_CAP = 10 ∧ PAIR_CAP = 2 ∧ XmlConsts.attrLoopStart = 1 ∧
      SPLIT_CAP - XmlConsts.attrLoopStart ≤ ATTR_CAP ∧ XmlConsts.attrSplitN = 1 ∧ XmlConsts.attrSplitN + 1 ≤ PAIR_CAP ∧
      XmlConsts.splitListCap ≤ XmlConsts.splitListBacking ∧ XmlConsts.attrListCap ≤ XmlConsts.attrListBacking ∧
      XmlConsts.pairListCap ≤ XmlConsts.pairListBacking) ∧
    (XmlConsts.openPrefix = [Xml.LT] ∧ XmlConsts.openSuffix = [] ∧ XmlConsts.closePrefix = [Xml.LT, SLASH] ∧
      XmlConsts.closeSuffix = [Xml.GT] ∧ XmlConsts.declSplitChar = SPACE ∧ XmlConsts.attrSplitChar = EQS ∧
      XmlConsts.emptyMarker = SLASH ∧ XmlConsts.parentCloseMarker = SLASH) ∧
    (∀ c, XmlConsts.preambleMarkers.contains c = true ↔ (c = QMARK ∨ c = BANG)) ∧
    ((∀ x ∈ XmlConsts.nameEndBytes, nameByte x = false) ∧ isNameEnd Xml.GT = true ∧ isNameEnd SPACE = true) ∧
    (∀ d m, XmlConsts.depth_exceeded d m ≠ 0 ↔ d ≥ m) ∧
    (∀ e, XmlConsts.loop_continues e ≠ 0 ↔ e = 0) ∧
    (∀ m, XmlConsts.effective_max_depth m = effMaxDepth m) ∧
    (∀ n, XmlConsts.quote_pred n = decide (n = QUOTE.toNat)) := by
  refine ⟨⟨by decide, by decide, fun len => ?_⟩, fun nm h => patterns_fit h, buffers_within_arrays, ?_, ?_,
    preambleMarkers_iff, ⟨nameEnd_not_nameByte, by decide, by decide⟩, depth_test_bridge, loop_guard_bridge, ?_, quote_pred_bridge⟩
  · have := nameTooLong_iff len; simpa [MAX_NAME_LEN] using this
  · have h1 := every_attr_piece_has_a_slot; have h2 := pair_split_fits; have h3 := list_caps_within_backing
    exact ⟨SPLIT_CAP_eq, ATTR_CAP_eq, PAIR_CAP_eq, h1.1, h1.2, h2.1, h2.2, h3.1, h3.2.1, h3.2.2.1⟩
  · have h1 := pattern_pieces; have h2 := literal_bytes
    exact ⟨h1.1, h1.2.1, h1.2.2.1, h1.2.2.2, h2.1, h2.2.1, h2.2.2.1, h2.2.2.2⟩
  · intro m; rw [effective_max_depth_bridge]; rfl

/-- C12 tie of the byte-cursor helpers (byte_buf.c, regenerated with `Gen/XmlConsts.lean`): the guards of
`aws_byte_cursor_{left,right}_trim_pred`, `aws_byte_cursor_next_split`, `aws_byte_cursor_split_on_char[_n]` and
`aws_byte_buf_append` as written now are the ones the model's `leftTrim` / `rightTrim` / `splitLoop` /
`splitOnCharN1` / `bufAppend` implement: trimming loops while the view is non-empty, looking at its first /
last byte; splitting yields a final empty piece when the input ends in the split character; `n = 0` is
unlimited, with `n = 1` the second piece takes the rest; an append is refused iff it exceeds the free space. -/
theorem c12_helper_guards :
    (XmlConsts.right_trim_is_loop = true ∧ (∀ n, XmlConsts.right_trim_guard n ≠ 0 ↔ 0 < n) ∧
      (∀ n, 0 < n → n < 2^64 → XmlConsts.right_trim_index n = n - 1)) ∧
    (XmlConsts.left_trim_is_loop = true ∧ (∀ n, XmlConsts.left_trim_guard n ≠ 0 ↔ 0 < n)) ∧
    (∀ p e s, XmlConsts.next_split_done p e s ≠ 0 ↔ (p > e ∨ p < s)) ∧
    (XmlConsts.split_on_char_n_arg = 0 ∧ XmlConsts.split_max 0 = 2^64 - 1 ∧ (∀ n, 0 < n → XmlConsts.split_max n = n) ∧
      (∀ c m, XmlConsts.split_continue c m ≠ 0 ↔ c ≤ m) ∧ (∀ c m, XmlConsts.split_is_last c m ≠ 0 ↔ c = m)) ∧
    (∀ cap len n, len ≤ cap → cap < 2^64 → (XmlConsts.append_refused cap len n ≠ 0 ↔ cap - len < n)) :=
  ⟨right_trim_bridge, left_trim_bridge, next_split_done_bridge, split_n_bridge, append_refused_bridge⟩

/-- C12 tie of widths and storage (clang AST of the current xml_parser.c, `Gen/XmlConsts.lean`): the model counts
and measures in unbounded `Nat`; that is the code's behaviour on documents of at most SIZE_MAX/2 bytes because
 * every integer local of the parser's functions - the same-name nesting counter `depth_count` (which the depth
   limit does *not* bound: a skipped or body-read subtree is scanned however deep it is), the skip lengths, the body
   length, the tag lengths - is 64 bits wide, and there is no narrowing cast;
 * one run of the inner loop of the closing-tag search raises the counter by at most the bytes it has in front of
   it, so it stays below 2^64;
and parsing independent documents on several threads is sound because no function-local has static storage (all
parser state lives on the caller's stack). -/
theorem c12_widths_and_storage :
    (∀ x ∈ XmlConsts.intLocals, x.2.2 = 64 ∨ x = ("s_advance_to_closing_tag", "name_end", 8) ∨
      x = ("aws_xml_node_traverse", "parent_closed", 1)) ∧
    ("s_advance_to_closing_tag", "depth_count", 64) ∈ XmlConsts.intLocals ∧
    ("aws_xml_node_traverse", "node_name_len", 64) ∈ XmlConsts.intLocals ∧
    XmlConsts.narrowCasts = [] ∧ XmlConsts.staticLocals = [] ∧ HALF + 1 < 2 ^ 64 ∧
    (∀ (doc : Bytes) (openPat : Bytes) (cp closeLen fuel : Nat) (cur : Cur) (dc : Nat) (le : Err),
      doc.length ≤ HALF → openPat.length ≤ closeLen → 1 ≤ closeLen → cp + closeLen ≤ doc.length →
      cur.off + cur.len = doc.length → cur.off ≤ cp → cur.len < fuel →
      ∃ r, closeInner doc openPat cp closeLen fuel cur dc le = .ok r ∧ r.2.1 ≤ dc + cur.len) := by
  refine ⟨int_locals_wide, counters_and_offsets_wide.1, counters_and_offsets_wide.2.2.2.1, no_narrow_casts, no_static_locals,
    by decide, ?_⟩
  intro doc openPat cp closeLen fuel cur dc le hH h1 h2 h3 h4 h5 h6
  obtain ⟨r, hr, _, hb⟩ := closeInner_ok doc hH openPat cp closeLen h1 h2 h3 fuel cur dc le h4 h5 h6
  exact ⟨r, hr, hb⟩

/-- C12 tie of the depth guard's state: `parser.callback_stack`, whose length the depth test of
`aws_xml_node_traverse` compares with `options.max_depth` and whose push result the traversal ignores, is a
dynamic list in the current source, so its length follows the nesting for *every* `max_depth` (not only up to some
fixed capacity) - as the unbounded `PState.depth` of the model, for which `c12_limits_rejected` is proved with an
arbitrary limit; and the depth test itself is `>=`. -/
theorem c12_depth_guard_state : XmlConsts.callbackStackDynamic = true ∧
    (∀ d m, XmlConsts.depth_exceeded d m ≠ 0 ↔ d ≥ m) ∧ (∀ m, XmlConsts.effective_max_depth m = effMaxDepth m) :=
  ⟨callback_stack_dynamic, depth_test_bridge, fun m => by rw [effective_max_depth_bridge]; rfl⟩

/-- C12: a depth refusal is sticky.  When the depth guard of `aws_xml_node_traverse` fires, the failure is recorded
in `parser->error` (in the current source: the block goes through the `error:` label, which sets it - generated
shape check), not only in that call's return value; a callback that ignores the failing call and returns success
(`ignoreFailure`) gets the same state back, and every enclosing child loop that finds `parser->error` set stops at
once and returns failure - so a document deeper than the limit cannot be turned into a successful parse by what a
callback returns, and nothing is reported after the refusal. -/
theorem c12_depth_refusal_sticky :
    XmlConsts.depthRefusalRecorded = true ∧
    (∀ (loop : PState → List Nat → Nat → Except Fault (PState × Bool)) (st : PState) (path : List Nat),
      st.depth ≥ st.maxDepth → traverseWith loop st path = .ok ({ st with error := true, lastErr := .invalidXml }, false)) ∧
    (∀ (ign : List Nat → Bool) (trav : PState → List Nat → Except Fault (PState × Bool)) (st st' : PState) (path : List Nat) (ok : Bool),
      trav st path = .ok (st', ok) → ignoreFailure ign trav st path = .ok (st', ok || ign path)) ∧
    (∀ (doc : Bytes) (prog : Prog) (fuel : Nat) (st : PState) (path : List Nat) (idx : Nat), st.error = true →
      nodeLoop doc prog (fuel + 1) st path idx = .ok ({ st with depth := st.depth - 1 }, false)) ∧
    (∀ (doc : Bytes) (prog : Prog) (ign : List Nat → Bool) (fuel : Nat) (st : PState) (path : List Nat) (idx : Nat), st.error = true →
      nodeLoopIgn doc prog ign (fuel + 1) st path idx = .ok ({ st with depth := st.depth - 1 }, false)) := by
  refine ⟨by decide, ?_, ?_, ?_, ?_⟩
  · intro loop st path h; simp [traverseWith, h]
  · intro ign trav st st' path ok h; simp [ignoreFailure, h, bind, Except.bind, pure, Except.pure]
  · intro doc prog fuel st path idx h; rw [nodeLoop]; simp [h]
  · intro doc prog ign fuel st path idx h; rw [nodeLoopIgn]; simp [h]

/-- verdict of a run, for the concrete examples -/
def verdict : Except Fault Result → Option (Bool × Nat)
  | .ok r => some (r.ok, r.events.length)
  | .error _ => none

-- the hypotheses are satisfiable and the conclusions non-vacuous: concrete runs
/-- `<a><ab>x</ab></a>` read as body: accepted, one event -/
example : verdict (parse [60, 97, 62, 60, 97, 98, 62, 120, 60, 47, 97, 98, 62, 60, 47, 97, 62] (fun _ => .body) 0) = some (true, 1) := by decide
/-- `<a><b></b></a>` with depth limit 1, descending: rejected after the root event -/
example : verdict (parse [60, 97, 62, 60, 98, 62, 60, 47, 98, 62, 60, 47, 97, 62] (fun _ => .descend) 1) = some (false, 1) := by decide
/-- `<a><b></b></a>` descending: accepted, two events -/
example : verdict (parse [60, 97, 62, 60, 98, 62, 60, 47, 98, 62, 60, 47, 97, 62] (fun _ => .descend) 0) = some (true, 2) := by decide

/-- `<a k="x=y"></a>` (the witness of the repaired defect 0df3cf8): one event, accepted -/
example : verdict (parse [60, 97, 32, 107, 61, 34, 120, 61, 121, 34, 62, 60, 47, 97, 62] (fun _ => .skip) 0) = some (true, 1) := by decide
/-- … and the attribute is reported with its full value `x=y` -/
example : (match parse [60, 97, 32, 107, 61, 34, 120, 61, 121, 34, 62, 60, 47, 97, 62] (fun _ => .skip) 0 with
    | .ok r => r.xevents [60, 97, 32, 107, 61, 34, 120, 61, 121, 34, 62, 60, 47, 97, 62]
    | .error _ => []) = [⟨[], 1, [97], [([107], [120, 61, 121])], none⟩] := by decide

-- the dialect is inhabited and `expectNode` is what one expects on a concrete tree:
-- `<a><ab>x</ab><a></a></a>`, descend at the root, body at /0, skip at /1
/-- the tree is well-formed in the dialect -/
example : (Tree.elem [97] [] [.elem [97, 98] [] [.text [120]], .elem [97] [] []]).WF := by
  simp only [Tree.WF, WFL, NameOk, and_true]
  refine ⟨⟨by decide, by decide⟩, by simp, ⟨⟨by decide, by decide⟩, by simp, by decide⟩, ⟨by decide, by decide⟩, by simp⟩
/-- and these are the events the property demands of it -/
example : expectNode (fun p => if p = [] then .descend else if p = [0] then .body else .skip) 20 [] 1
      (.elem [97] [] [.elem [97, 98] [] [.text [120]], .elem [97] [] []]) =
    ([⟨[], 1, [97], [], none⟩, ⟨[0], 2, [97, 98], [], some [120]⟩, ⟨[1], 2, [97], [], none⟩], true) := by
  decide

end AwsVerif.Props.C12
