import AwsVerif.Proofs.C13.Coders
import AwsVerif.Proofs.C13.Query
import AwsVerif.Proofs.C13.Views
import AwsVerif.Proofs.C13.Builder
import AwsVerif.Proofs.C13.Inside
import AwsVerif.Proofs.C13.GenBridge
/-!
# C13 — URI parsing, building and percent-coding are mutually consistent

Theorems about the transcription of `/repo/source/uri.c` in `AwsVerif/Model/Uri.lean`.
Specification-side definitions (`Canon`, `pairsSpec`, `Comp`, `assemble`, `Comp.ok`, `expected`,
`ReadsBack`) are in `AwsVerif/Proofs/C13/Spec.lean` and `Views.lean`; helper lemmas in
`AwsVerif/Proofs/C13/*.lean`.
-/
namespace AwsVerif.Props.C13
open AwsVerif.Uri

/-- text of a string literal as bytes (ASCII) -/
def b (s : String) : Bytes := s.toList.map (fun c => UInt8.ofNat c.toNat)

/-- the parse is refused (AWS_ERROR_MALFORMED_INPUT_STRING) -/
def refused (r : Except Err Uri) : Bool :=
  match r with
  | .error .malformed => true
  | _ => false

/-- a fully populated example tuple -/
def fullExample : Comp :=
  { scheme := some (b "https"), userinfo := some (b "user:pw"), host := b "::1", ipv6 := true,
    port := some 8080, path := b "/a/b", query := some (b "x=1&&y") }

/-! ## percent coding -/

/-- Decoding the output of either encoder returns the original bytes, for every byte string. -/
theorem c13_percent_roundtrip (bs : Bytes) :
    decode (encodePath bs) = .ok bs ∧ decode (encodeParam bs) = .ok bs :=
  ⟨decode_encode pathSafe (fun _ h => pathSafe_ne_percent h) bs,
   decode_encode paramSafe (fun _ h => paramSafe_ne_percent h) bs⟩

/-- Encoder output consists only of RFC 3986 unreserved characters, `%XX` escapes with upper-case
hex digits and, for the path encoder, '/'. -/
theorem c13_percent_charset (bs : Bytes) :
    Canon isUnreserved (encodeParam bs) ∧ Canon (fun x => isUnreserved x || x == 47) (encodePath bs) := by
  constructor
  · have h := canon_encode paramSafe bs
    rw [show encodeParam bs = encode paramSafe bs from rfl]
    rw [paramSafe_eq_unreserved] at h ⊢
    exact h
  · have h := canon_encode pathSafe bs
    rw [show encodePath bs = encode pathSafe bs from rfl]
    rw [pathSafe_eq_unreserved_or_slash] at h ⊢
    exact h

/-- The encoders write at most `3·n` bytes; starting from *any* buffer content and capacity the
buffer-level operation reserves `len + 3·n`, never trips the per-character reservation assertion
(`len + 3 ≤ capacity` before every write), keeps the existing content and appends exactly the pure
encoding. -/
theorem c13_encode_capacity (safe : UInt8 → Bool) (bs : Bytes) :
    (encode safe bs).length ≤ 3 * bs.length ∧
    ∀ buf : Buf, buf.data.length + 3 * bs.length ≤ SIZE_MAX →
      appendEncoding safe buf bs =
        .ok { data := buf.data ++ encode safe bs, cap := max buf.cap (buf.data.length + 3 * bs.length) } :=
  ⟨encode_length_le safe bs, fun buf h => appendEncoding_ok safe buf bs h⟩

/-- round trip at buffer level: decoding what was appended to any buffer gives the input back -/
theorem c13_percent_roundtrip_buffer (buf : Buf) (bs : Bytes) (h : buf.data.length + 3 * bs.length ≤ SIZE_MAX) :
    ∃ out, appendEncoding pathSafe buf bs = .ok out ∧ decode (out.data.drop buf.data.length) = .ok bs := by
  refine ⟨_, appendEncoding_ok pathSafe buf bs h, ?_⟩
  simp only [List.drop_left]
  exact (c13_percent_roundtrip bs).1

/-! ## query-string iteration -/

/-- The list form yields exactly the non-empty '&'-separated pairs of the query string, in order, each
split at its first '='; every key/value view lies inside the query string; and iterating
`aws_query_string_next_param` from a zeroed `param` — with any number of further calls — produces the
same sequence (after the last pair it reports the end).  A zeroed query cursor yields nothing. -/
theorem c13_query_iter (q : Bytes) :
    (queryParams (some q)).map (fun pr => (pr.key.bytes q, pr.value.bytes q)) = pairsSpec q ∧
    (∀ pr ∈ queryParams (some q), pr.key.off + pr.key.len ≤ q.length ∧ pr.value.off + pr.value.len ≤ q.length) ∧
    (∀ extra, iterate (some q) (q.length + 1 + extra) none = queryParams (some q)) ∧
    (∀ prev, nextParam none prev = none) :=
  ⟨queryParams_pairs q, queryParams_inside q, fun extra => iterate_stable q extra, nextParam_null⟩

/-- The list form on an output list that already holds entries (a second call, a pre-seeded list): a dynamic
list ends as the previous contents followed by all pairs; a static list of `c` slots as the previous contents
followed by the pairs that still fit, and the call succeeds exactly when all fitted. -/
theorem c13_query_list_appends {α : Type} (out ps : List α) :
    pushParams none out ps = (out ++ ps, true) ∧
    ∀ c, out.length ≤ c →
      pushParams (some c) out ps = (out ++ ps.take (c - out.length), decide (out.length + ps.length ≤ c)) := by
  constructor
  · induction ps generalizing out with
    | nil => simp [pushParams]
    | cons p rest ih => simp [pushParams, ih]
  · intro c
    induction ps generalizing out with
    | nil => intro h; simp [pushParams, h]
    | cons p rest ih =>
      intro h
      by_cases hlt : out.length < c
      · have := ih (out ++ [p]) (by simp; omega)
        simp only [pushParams, hlt, if_true, this]
        have e : c - out.length = (c - (out ++ [p]).length) + 1 := by simp; omega
        rw [e, List.take_succ_cons]
        simp only [List.length_append, List.length_cons, List.length_nil, List.append_assoc, List.singleton_append]
        congr 1
        simp only [decide_eq_decide]
        omega
      · have e : c - out.length = 0 := by omega
        simp [pushParams, hlt, e]
        omega

/-! ## parse ∘ assemble -/

/-- For every component tuple satisfying the explicit predicate `Comp.ok`, parsing the assembled text
succeeds; every component view reads back exactly the component it was assembled from (absent
components are zeroed cursors, the port is the number, absent = 0); and every view lies inside the
text. -/
theorem c13_parse_assemble (c : Comp) (h : c.ok = true) :
    ∃ u, parse (assemble c) = .ok u ∧ ReadsBack c u (assemble c) :=
  ⟨expected c, parse_assemble h, expected_readsBack c⟩

/-- The builder writes exactly the assembled text (no bounded append is dropped: the size estimate
suffices) and its re-parse returns the components the options were made from — query-string form and
parameter-list form ("k=v&k=v…"; non-empty list).  Port 0, empty scheme and empty query string mean
"absent" (`Comp.buildable`). -/
theorem c13_builder_roundtrip (c : Comp) (h : c.ok = true) (hb : c.buildable = true) :
    ((∀ q, c.query = some q → q ≠ []) →
      ∃ u, build (optionsOf c) = .ok (assemble c, u) ∧ ReadsBack c u (assemble c)) ∧
    (∀ ps, ps ≠ [] → c.query = some (joinParams ps) →
      ∃ u, build (optionsOfParams c ps) = .ok (assemble c, u) ∧ ReadsBack c u (assemble c)) :=
  ⟨fun hq => ⟨expected c, build_optionsOf c h hb hq, expected_readsBack c⟩,
   fun ps hne hq => ⟨expected c, build_optionsOfParams c ps h hb hne hq, expected_readsBack c⟩⟩

/-- For *every* input text (well-formed or not): the four-iteration run of the state machine has
stopped (FINISHED or ERROR), and whenever the parse succeeds every component view lies inside the
URI's own copy of the text. -/
theorem c13_views_inside_all (s : Bytes) :
    ((runParser s).state = .finished ∨ (runParser s).state = .error) ∧
    ∀ u, parse s = .ok u → u.inside s.length :=
  ⟨parse_terminates s, fun u h => parse_inside s u h⟩

/-! ## shapes that older revisions of uri.c misparsed (repaired by 7bf9897 and 3dbc364) -/

/-- A tuple without scheme needs no extra condition: under `Comp.ok` the text never looks as if it
began with a scheme. -/
theorem c13_schemeless_never_scheme_like (c : Comp) (h : c.ok = true) : noSchemeLike c.restText = true :=
  noSchemeLike_rest (okFacts h)

/-- ":/" in the path of a text without scheme: "h/a:/b" is host "h", path "/a:/b". -/
example : Comp.ok { host := b "h", path := b "/a:/b" } = true ∧
    assemble { host := b "h", path := b "/a:/b" } = b "h/a:/b" ∧
    (parse (b "h/a:/b")).toOption.map
      (fun u => (u.scheme, optBytes u.host (b "h/a:/b"), optBytes u.path (b "h/a:/b"))) =
      some (none, b "h", b "/a:/b") := by decide

/-- "://" in the query of a text without scheme: "h?u=x://y" is host "h", query "u=x://y". -/
example : Comp.ok { host := b "h", query := some (b "u=x://y") } = true ∧
    assemble { host := b "h", query := some (b "u=x://y") } = b "h?u=x://y" ∧
    (parse (b "h?u=x://y")).toOption.map
      (fun u => (u.scheme, optBytes u.host (b "h?u=x://y"), optBytes u.query (b "h?u=x://y"))) =
      some (none, b "h", b "u=x://y") := by decide

/-- empty path and '/' in the query: "s://h?a=/b" is host "h", no path, query "a=/b". -/
example : Comp.ok { scheme := some (b "s"), host := b "h", query := some (b "a=/b") } = true ∧
    assemble { scheme := some (b "s"), host := b "h", query := some (b "a=/b") } = b "s://h?a=/b" ∧
    (parse (b "s://h?a=/b")).toOption.map
      (fun u => (optBytes u.host (b "s://h?a=/b"), u.path, optBytes u.query (b "s://h?a=/b"))) =
      some (b "h", none, b "a=/b") := by decide

/-- "://" in the query with a scheme present -/
example : Comp.ok { scheme := some (b "s"), host := b "h", path := b "/p", query := some (b "u=x://y/z") } = true := by
  decide

/-- port bound: 2^32−1 is accepted, 2^32 and a 20-digit number beyond 2^64 are refused -/
theorem c13_port_bound :
    (parse (b "h:4294967295")).toOption.map (·.port) = some 4294967295 ∧
    refused (parse (b "h:4294967296")) = true ∧
    refused (parse (b "h:18446744073709551616")) = true := by
  decide

/-! ## tie to the layer generated from /repo's current uri.c (`AwsVerif.Gen.UriFns`, rewritten on every check)

Each theorem below equates a definition of the hand-written model with the translation of the C text as it
is now, so an edit to that expression breaks a named theorem. -/

open AwsVerif.Gen in
/-- the bytes the two per-character append functions copy unchanged are the model's safe sets (hence, with
`c13_percent_charset`, RFC 3986 unreserved (∪ '/')) -/
theorem c13_gen_safe_sets (x : UInt8) :
    pathSafe x = UriFns.verif_uri_path_safe x.toNat ∧ paramSafe x = UriFns.verif_uri_param_safe x.toNat := by
  have h1 := gen_pathSafe_all x
  have h2 := gen_paramSafe_all x
  simp only [beq_iff_eq] at h1 h2
  exact ⟨h1, h2⟩

open AwsVerif.Gen in
/-- `s_to_uppercase_hex` as written is the model's `upHex` (on every byte, in particular on both nibbles) -/
theorem c13_gen_upper_hex (x : UInt8) : (upHex x).toNat = UriFns.s_to_uppercase_hex x.toNat := by
  have h := gen_upHex_all x
  simpa using h

open AwsVerif.Gen in
/-- the delimiter test in the loop of `s_parse_scheme` is the model's `isSchemeDelim` -/
theorem c13_gen_scheme_delim (x : UInt8) : isSchemeDelim x = UriFns.verif_uri_scheme_delim x.toNat := by
  have h := gen_schemeDelim_all x
  simpa using h

open AwsVerif.Gen in
/-- the port refusal of `s_parse_authority` is `> UINT32_MAX`, the test `parsePortAt` makes -/
theorem c13_gen_port_bound (v : Nat) : UriFns.verif_uri_port_too_big v = decide (v > UINT32_MAX) :=
  gen_port_too_big v

open AwsVerif.Gen in
/-- the `buffer_size` computation of `aws_uri_init_from_builder_options` as written is the model's
`builderSize` (per-parameter increment `key.len + value.len + 2`) -/
theorem c13_gen_size_estimate (o : BuilderOptions) (h : builderSize o < 2 ^ 64) :
    UriFns.verif_uri_size_estimate o.scheme.length o.host.length o.port o.path.length
      (if o.params.isSome then 1 else 0) (o.params.getD []).length (paramsEstimate (o.params.getD [])) o.query.length
      = builderSize o ∧
    ∀ k v : Nat, k + v + 2 < 2 ^ 64 → UriFns.verif_uri_param_estimate k v = k + v + 2 :=
  ⟨gen_size_estimate o h, gen_param_estimate⟩

open AwsVerif.Gen in
/-- `PORT_BUFFER_SIZE` (reservation for the port and size of the `snprintf` buffer) covers the worst case
':' + 10 digits resp. 10 digits + NUL for every 32-bit port, with equality for 4294967295; and the generated
estimate as a whole covers the text the builder writes (query-string form). -/
theorem c13_gen_port_reservation :
    UriFns.PORT_BUFFER_SIZE = PORT_BUFFER_SIZE ∧
    (∀ p, p < 2 ^ 32 → 1 + (decDigits p).length ≤ UriFns.PORT_BUFFER_SIZE) ∧
    1 + (decDigits 4294967295).length = UriFns.PORT_BUFFER_SIZE ∧
    (∀ o : BuilderOptions, o.params = none → o.port < 2 ^ 32 → builderSize o < 2 ^ 64 →
      (plainText o ++ (if o.query.length ≠ 0 then 63 :: o.query else [])).length ≤
        UriFns.verif_uri_size_estimate o.scheme.length o.host.length o.port o.path.length 0 0 0 o.query.length) := by
  refine ⟨rfl, ?_, by decide, gen_estimate_covers_query⟩
  intro p hp
  have := decDigits_length_le p hp
  show 1 + (decDigits p).length ≤ 11
  omega

open AwsVerif.Gen in
/-- both coders reserve with `aws_byte_buf_reserve_relative` (relative to the current length: the model's
`reserveRelative`), the encoder for `3 · cursor->len` — enough for every per-character write — the decoder
for `cursor->len`; and each public encoder passes its own per-character function -/
theorem c13_gen_reservation :
    UriFns.encodeReserveCallee = "aws_byte_buf_reserve_relative" ∧
    UriFns.decodeReserveCallee = "aws_byte_buf_reserve_relative" ∧ UriFns.decodeReserveArg = "cursor->len" ∧
    UriFns.encodeReserveFactor = 3 ∧
    (∀ (safe : UInt8 → Bool) (x : UInt8), (encChar safe x).length ≤ UriFns.encodeReserveFactor) ∧
    UriFns.encodePathAppender = "s_unchecked_append_canonicalized_path_character" ∧
    UriFns.encodeParamAppender = "s_raw_append_canonicalized_param_character" :=
  ⟨rfl, rfl, rfl, rfl, fun safe x => encChar_length_le safe x, rfl, rfl⟩

open AwsVerif.Gen in
/-- every accessor of uri.h returns the field of its name, and the two `aws_uri_query_string_*` wrappers
iterate `uri->query_string` (the cursor `Uri.queryBytes` hands to `nextParam` / `queryParams`) -/
theorem c13_gen_accessors :
    UriFns.accessors =
      [("aws_uri_scheme", "scheme"), ("aws_uri_authority", "authority"), ("aws_uri_path", "path"),
       ("aws_uri_query_string", "query_string"), ("aws_uri_path_and_query", "path_and_query"),
       ("aws_uri_host_name", "host_name"), ("aws_uri_port", "port"),
       ("aws_uri_query_string_next_param", "query_string"), ("aws_uri_query_string_params", "query_string")] := rfl

open AwsVerif.Gen in
/-- the byte_buf.c helpers under the decoder and the port parser, as written now: the hex table is the model's
`hexToNum`; `aws_byte_cursor_read_hex_u8` needs two bytes, both valid, and yields `(hi << 4) | lo`;
`s_read_unsigned` refuses exactly the table values ≥ 10 in base 10 -/
theorem c13_gen_hex_read :
    (∀ x : UInt8, hexToNum x = ByteBufTables.hexToNumTable.getD x.toNat 0) ∧
    (∀ n, UriFns.verif_bb_hex_enough n = decide (n ≥ 2)) ∧
    (∀ hi lo, UriFns.verif_bb_hex_valid hi lo = decide (hi ≠ 255 ∧ lo ≠ 255)) ∧
    (∀ hi lo : Fin 16, UriFns.verif_bb_hex_value hi.val lo.val = (((UInt8.ofNat hi.val) <<< 4) ||| (UInt8.ofNat lo.val)).toNat) ∧
    (∀ v : Fin 256, UriFns.verif_bb_not_digit v.val 10 = decide (v.val ≥ 10)) := by
  refine ⟨fun x => ?_, gen_hex_enough, gen_hex_valid, gen_hex_value, gen_not_digit⟩
  have := gen_hexTable_all x
  simpa using this

open AwsVerif.Gen in
/-- buffer helpers: `aws_byte_buf_reserve` is a no-op exactly when the request is within the capacity (else the
capacity becomes the request: `reserveRelative`'s `max`); the builder's ignored `aws_byte_buf_append` drops its
argument exactly when `appendBounded` does; `aws_byte_cursor_advance` never refuses the parser's advances -/
theorem c13_gen_buffer_guards :
    (∀ r c, UriFns.verif_bb_reserve_noop r c = decide (r ≤ c)) ∧
    (∀ r c, max c r = if UriFns.verif_bb_reserve_noop r c then c else r) ∧
    (∀ (cap : Nat) (buf x : Bytes), buf.length ≤ cap → cap < 2 ^ 64 →
      appendBounded cap buf x = if ByteBufFns.verif_guard_buf_append cap buf.length x.length then buf else buf ++ x) ∧
    (∀ len n, n ≤ len → len ≤ 9223372036854775807 → ByteBufFns.verif_guard_cursor_advance len n = false) := by
  refine ⟨gen_reserve_noop, fun r c => ?_, gen_append_guard, gen_advance_guard⟩
  rw [gen_reserve_noop]
  by_cases h : r ≤ c <;> simp [h] <;> omega

/-! ## the hypotheses are satisfiable by non-trivial tuples -/

example : Comp.ok fullExample = true := by decide

example : Comp.ok { host := b "example.com", port := some 4294967295 } = true := by decide

example : Comp.buildable { scheme := some (b "http"), host := b "h", port := some 80, path := b "/p",
                           query := some (joinParams [(b "k", b "v"), (b "", b "")]) } = true := by decide

example : assemble fullExample = b "https://user:pw@[::1]:8080/a/b?x=1&&y" := by decide

example : pairsSpec (b "&&a=1&&b&=c&d==&") = [(b "a", b "1"), (b "b", b ""), (b "", b "c"), (b "d", b "=")] := by decide

end AwsVerif.Props.C13
