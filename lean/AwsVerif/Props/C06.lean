import AwsVerif.Proofs.C06.Cap
import AwsVerif.Proofs.C06.Bridge
/-!
C06 — priority queue pops in comparator order; handles always track their element.

Vocabulary (all in `Model/Heap.lean`): `G` is the queue together with the reference state — `ref`
(reference multiset, a list compared up to permutation), `owner h` (the element most recently pushed
successfully with handle `h`) and the uid counter; `gstep` executes one op on the model of
`priority_queue.c` and updates the reference state from the op and the *returned result* only;
`Reach c g`: `g` is reached from `aws_priority_queue_init_dynamic/static` by a legal op sequence (a
handle passed to `push_ref` is not in the queue) of fewer than 2^63 - 2 operations.
Comparator: every theorem is for an arbitrary comparator `c : Cmp` on keys (`c.gt a b` = `pred(a, b) > 0`)
under the hypothesis `CmpOK c` that `c.le a b := ¬ pred(a, b) > 0` is a total preorder.  Instances: `natCmp`
(min-heap on `Nat`, `natCmp_ok`) and the scheduler's generated `s_compare_timestamps` (`tsCmp_ok`, Props/C07).
-/
namespace AwsVerif.Props.C06
open AwsVerif.Heap AwsVerif.Proofs.C06

/-- Heap order and the back-pointer/handle bijection hold in every reachable state (hence are
preserved by every operation). -/
theorem c06_heap_inv {c : Cmp} (hc : CmpOK c) {g : G} (h : Reach c g) : HeapOrd c g.q.items ∧ BpOK g.q :=
  let hi := (reach_inv hc h).1
  ⟨hi.q.heap, hi.q.frame.bpok⟩

/-- every legal step from a reachable state re-establishes heap order and the bijection (one-step form,
for a state at any distance below the length bound) -/
theorem c06_heap_inv_step {c : Cmp} (hc : CmpOK c) {g : G} (h : Reach c g) {op : Op} (hl : legalOp g op = true) :
    HeapOrd c (gstep c g op).1.q.items ∧ BpOK (gstep c g op).1.q :=
  let hi := reach_inv hc h
  let h' := gstep_inv hc hi.1 hi.2 hl
  ⟨h'.q.heap, h'.q.frame.bpok⟩

/-- The contents are a permutation of the reference multiset, and the sizes agree; all elements are distinct. -/
theorem c06_multiset {c : Cmp} (hc : CmpOK c) {g : G} (h : Reach c g) :
    g.q.items.toList.Perm g.ref ∧ g.q.items.size = g.ref.length ∧ g.ref.Nodup :=
  let hi := (reach_inv hc h).1
  ⟨hi.q.frame.perm, size_eq_length hi, hi.nodup⟩

/-- `pop` on an empty queue fails with `PRIORITY_QUEUE_EMPTY` and changes nothing; otherwise it returns a
stored element whose key is ≤ every stored key, and exactly that element leaves the reference multiset. -/
theorem c06_pop_min {c : Cmp} (hc : CmpOK c) {g : G} (h : Reach c g) :
    (g.ref = [] → gstep c g .pop = (g, .err .empty)) ∧
    (g.ref ≠ [] → ∃ e, (gstep c g .pop).2 = .elem e ∧ e ∈ g.ref ∧ (∀ x ∈ g.ref, c.le e.key x.key) ∧
        (gstep c g .pop).1.ref = g.ref.erase e) := by
  obtain ⟨hi, hn⟩ := reach_inv hc h
  have hs := size_eq_length hi
  constructor
  · intro he
    have h0 : g.q.items.size = 0 := by simp [hs, he]
    simp only [gstep, pop_empty h0]
  · intro hne
    have h0 : g.q.items.size ≠ 0 := by
      rw [hs]; intro hl; exact hne (List.eq_nil_of_length_eq_zero hl)
    have hsz : g.q.items.size < 2^63 := by have := hi.size_le; omega
    obtain ⟨e, he, hr, _⟩ := removeNode_spec hc hi.q hi.nodup hsz (Nat.pos_of_ne_zero h0)
    have hm := root_min hc hi.q he
    refine ⟨e, ?_, hm.1, hm.2, ?_⟩ <;>
    · simp only [gstep, pop_eq h0]
      have : removeNode c g.q 0 = ((removeNode c g.q 0).1, .ok e) := by rw [← hr]
      rw [this]

/-- `top` never changes the queue; on an empty queue it fails with `PRIORITY_QUEUE_EMPTY`, otherwise it
returns a stored element whose key is ≤ every stored key. -/
theorem c06_top_min {c : Cmp} (hc : CmpOK c) {g : G} (h : Reach c g) :
    (gstep c g .top).1 = g ∧
    (g.ref = [] → (gstep c g .top).2 = .err .empty) ∧
    (g.ref ≠ [] → ∃ e, (gstep c g .top).2 = .elem e ∧ e ∈ g.ref ∧ ∀ x ∈ g.ref, c.le e.key x.key) := by
  obtain ⟨hi, hn⟩ := reach_inv hc h
  have hs := size_eq_length hi
  refine ⟨?_, ?_, ?_⟩
  · simp only [gstep]; split <;> rfl
  · intro he
    have h0 : g.q.items.size = 0 := by simp [hs, he]
    simp [gstep, top, h0]
  · intro hne
    have h0 : g.q.items.size ≠ 0 := by
      rw [hs]; intro hl; exact hne (List.eq_nil_of_length_eq_zero hl)
    have he : g.q.items[0]? = some g.q.items[0] := Array.getElem?_eq_getElem (Nat.pos_of_ne_zero h0)
    have hm := root_min hc hi.q he
    exact ⟨_, by simp [gstep, top, h0, he], hm.1, hm.2⟩

/-- A handle that is in the queue (`current_index = i`) sits on the very element it was pushed with —
through every swap of every sift since — and `remove` by that handle returns exactly that element and
removes exactly it from the reference multiset. -/
theorem c06_handle_tracks {c : Cmp} (hc : CmpOK c) {g : G} (h : Reach c g) {x i : Nat} (hh : g.q.handles x = some i) :
    ∃ e, g.owner x = some e ∧ g.q.items[i]? = some e ∧ e ∈ g.ref ∧
      (gstep c g (.remove x)).2 = .elem e ∧ (gstep c g (.remove x)).1.ref = g.ref.erase e := by
  obtain ⟨hi, hn⟩ := reach_inv hc h
  obtain ⟨e, ho, he, hm, hlt⟩ := tracks_elem hi hh
  have hsz : g.q.items.size < 2^63 := by have := hi.size_le; omega
  obtain ⟨e', he', hr, _⟩ := removeNode_spec hc hi.q hi.nodup hsz hlt
  have : e' = e := by rw [he] at he'; exact (Option.some.inj he').symm
  subst this
  refine ⟨e', ho, he, hm, ?_, ?_⟩ <;>
  · simp only [gstep, remove_live hi.q hh]
    have : removeNode c g.q i = ((removeNode c g.q i).1, .ok e') := by rw [← hr]
    rw [this]

/-- A handle is in the queue exactly as long as the element it was (last) pushed with is stored. -/
theorem c06_handle_live_iff {c : Cmp} (hc : CmpOK c) {g : G} (h : Reach c g) (x : Nat) :
    (g.q.handles x).isSome ↔ ∃ e, g.owner x = some e ∧ e ∈ g.ref :=
  live_iff (reach_inv hc h).1 x

/-- A handle whose element has left the queue (or that never had one) is marked not-in-queue, and
`remove` by it fails with `PRIORITY_QUEUE_BAD_NODE` leaving queue and reference state unchanged. -/
theorem c06_stale_refused {c : Cmp} (hc : CmpOK c) {g : G} (h : Reach c g) (x : Nat) (hx : ¬ ∃ e, g.owner x = some e ∧ e ∈ g.ref) :
    g.q.handles x = none ∧ gstep c g (.remove x) = (g, .err .badNode) := by
  have hi := (reach_inv hc h).1
  have hnone : g.q.handles x = none := by
    cases hh : g.q.handles x with
    | none => rfl
    | some i => exact absurd ((live_iff hi x).mp (by simp [hh])) hx
  exact ⟨hnone, by simp only [gstep, remove_stale hnone]⟩

/-- An element returned by `pop` or `remove` has really left (it is no longer in the reference
multiset), and every handle it was pushed with is now not-in-queue; after `clear` every handle is. -/
theorem c06_departed {c : Cmp} (hc : CmpOK c) {g : G} (h : Reach c g) :
    (∀ op e, legalOp g op = true → op ≠ .top → (gstep c g op).2 = .elem e →
        e ∉ (gstep c g op).1.ref ∧ ∀ x, g.owner x = some e → (gstep c g op).1.q.handles x = none) ∧
    (∀ x, (gstep c g .clear).1.q.handles x = none) := by
  obtain ⟨hi, hn⟩ := reach_inv hc h
  constructor
  · intro op e hl hop hr
    have hi' := gstep_inv hc hi hn hl
    have hown : (gstep c g op).1.owner = g.owner ∧ (gstep c g op).1.ref = g.ref.erase e := by
      cases op with
      | push k ho => simp only [gstep] at hr; split at hr <;> cases hr
      | top => exact absurd rfl hop
      | clear => simp [gstep] at hr
      | pop =>
        simp only [gstep] at hr ⊢
        split at hr <;> simp_all
      | remove x =>
        simp only [gstep] at hr ⊢
        split at hr <;> simp_all
    have hni : e ∉ (gstep c g op).1.ref := by
      rw [hown.2]
      intro hm
      exact ((List.Nodup.mem_erase_iff hi.nodup).mp hm).1 rfl
    refine ⟨hni, ?_⟩
    intro x ho
    cases hh : (gstep c g op).1.q.handles x with
    | none => rfl
    | some i =>
      obtain ⟨e', ho', _, hm', _⟩ := tracks_elem hi' hh
      rw [hown.1, ho] at ho'
      cases ho'
      exact absurd hm' hni
  · intro x
    have hi' := gstep_inv hc (op := .clear) hi hn rfl
    cases hh : (gstep c g .clear).1.q.handles x with
    | none => rfl
    | some i =>
      obtain ⟨e', _, _, hm', _⟩ := tracks_elem hi' hh
      simp [gstep] at hm'

/-- Static storage: the size never exceeds the capacity; a push at capacity fails with
`LIST_EXCEEDS_MAX_SIZE` and leaves the queue unchanged; every other step that does not involve a handle
is *the same function* as on a dynamic queue (the static queue is the dynamic one with the `cap` field
set). Handles on a static queue are refused with `UNSUPPORTED_OPERATION` (queue unchanged). -/
theorem c06_static_cap {c : Cmp} (hc : CmpOK c) {g : G} {cp : Nat} (hcap : g.q.cap = some cp) :
    (Reach c g → g.q.items.size ≤ cp) ∧
    (∀ k ho, cp ≤ g.q.items.size →
        gstep c g (.push k ho) = ({ g with next := g.next + 1 }, .err .exceedsMax)) ∧
    (∀ k, g.q.items.size < cp →
        gstep c g (.push k none) =
          (((gstep c (g.withCap none) (.push k none)).1).withCap (some cp), (gstep c (g.withCap none) (.push k none)).2)) ∧
    (∀ op, (∀ k ho, op ≠ .push k ho) →
        gstep c g op = (((gstep c (g.withCap none) op).1).withCap (some cp), (gstep c (g.withCap none) op).2)) ∧
    (Reach c g → ∀ k x, g.q.items.size < cp →
        gstep c g (.push k (some x)) = ({ g with next := g.next + 1 }, .err .unsupported)) := by
  have hg : g = (g.withCap none).withCap (some cp) := by
    cases g with | mk q n r o => cases q; simp_all [G.withCap, setCap]
  refine ⟨?_, ?_, ?_, ?_, ?_⟩
  · intro h
    exact ((reach_inv hc h).1.q.capOK cp hcap).1
  · intro k ho hge
    simp only [gstep, pushRef_static_full c _ ho hcap hge]
  · intro k hlt
    have hq : g.q = setCap (g.withCap none).q (some cp) := by
      cases g with | mk q n r o => cases q; simp_all [G.withCap, setCap]
    have hlt' : (g.withCap none).q.items.size < cp := hlt
    have := pushRef_static_eq_dynamic c (q := (g.withCap none).q) (cp := cp) ⟨k, g.next⟩ hlt'
    simp only [gstep, hq, this]
    have hn : (g.withCap none).next = g.next := rfl
    have hqq : setCap (g.withCap none).q none = (g.withCap none).q := rfl
    rw [hn, hqq]
    cases hp : pushRef c (g.withCap none).q ⟨k, g.next⟩ none with
    | mk q' r =>
      cases r <;> simp [G.withCap, setCap]
  · intro op hop
    have hq : g.q = setCap (g.withCap none).q (some cp) := by
      cases g with | mk q n r o => cases q; simp_all [G.withCap, setCap]
    cases op with
    | push k ho => exact absurd rfl (hop k ho)
    | pop =>
      simp only [gstep, hq, pop_setCap]
      cases hp : pop c (g.withCap none).q with
      | mk q' r => cases r <;> simp [G.withCap, setCap]
    | top =>
      simp only [gstep, hq, top_setCap]
      cases hp : top (g.withCap none).q <;> simp only [] <;> rw [← hg]
    | remove x =>
      simp only [gstep, hq, remove_setCap]
      cases hp : remove c (g.withCap none).q x with
      | mk q' r => cases r <;> simp [G.withCap, setCap]
    | clear =>
      simp only [gstep, hq, clear_setCap]
      simp [G.withCap, setCap]
  · intro h k x hlt
    have hi := (reach_inv hc h).1
    have hbp := (hi.q.capOK cp hcap).2
    have h1 : isFull g.q = false := by
      simp only [isFull, hcap]
      exact decide_eq_false (by omega)
    simp [gstep, pushRef, h1, hbp, hcap]

/-! ### Bridge to the layer generated from /repo on every run (`Gen/HeapIdx.lean`, gen/heap_gen.py) -/

/-- The index arithmetic of the model is the index arithmetic of priority_queue.c: the hand-written
`parentOf` / `leftOf` / `rightOf` equal the macros `PARENT_OF` / `LEFT_OF` / `RIGHT_OF` as re-translated from the
source text (expanded by clang on a `size_t` argument) for every `size_t` value. -/
theorem c06_bridge_index :
    (∀ i, i < 2^64 → parentOf i = Gen.HeapIdx.PARENT_OF i) ∧
    (∀ i, leftOf i = Gen.HeapIdx.LEFT_OF i) ∧ (∀ i, rightOf i = Gen.HeapIdx.RIGHT_OF i) :=
  ⟨fun _ h => parentOf_gen h, leftOf_gen, rightOf_gen⟩

/-- The stale-handle test of the model is the one of `aws_priority_queue_remove`: the statements in front of
`s_remove_node`, re-translated from the source with the three state reads as parameters, proceed exactly when
`current_index < length` and the back-pointer list exists and otherwise raise `PRIORITY_QUEUE_BAD_NODE`; and the
model's `remove` is "evaluate that guard (`current_index = SIZE_MAX` for a handle not in the queue), then
`s_remove_node` at `current_index`, else `BAD_NODE` with the queue unchanged". -/
theorem c06_bridge_remove_guard :
    (∀ ci len d, (Gen.HeapIdx.remove_guard ci len d = 0 ↔ (ci < len ∧ d ≠ 0)) ∧
      (Gen.HeapIdx.remove_guard ci len d ≠ 0 →
        Gen.HeapIdx.remove_guard ci len d = Gen.HeapIdx.AWS_ERROR_PRIORITY_QUEUE_BAD_NODE)) ∧
    (∀ (c : Cmp) (q : PQ) (h : Nat), q.items.size < 2^64 →
      remove c q h =
        if Gen.HeapIdx.remove_guard (curIndex (q.handles h)) q.items.size (if q.bp.isSome then 1 else 0) = 0
        then removeNode c q (curIndex (q.handles h)) else (q, .error .badNode)) :=
  ⟨remove_guard_spec, remove_eq_guard⟩

/-- The sift loops consult the comparator only through its documented contract: the three call sites, re-translated
from priority_queue.c, are `pred(first_item, other_item) > 0` (twice, `s_sift_down`) and
`pred(parent_item, child_item) > 0` (`s_sift_up`) — argument order and relational operator pinned — which are the
model's tests `c.gt` with `c.gt a b := pred(a, b) > 0` on the C `int` result.  Every theorem above assumes of the
comparator only that `¬ (pred(a, b) > 0)` is a total preorder (`CmpOK`), nothing about the sign or magnitude of
non-positive results, nor antisymmetry of the integer value. -/
theorem c06_bridge_compare_sites :
    Gen.HeapIdx.sift_down_site1_args = ["first_item", "other_item"] ∧
    Gen.HeapIdx.sift_down_site2_args = ["first_item", "other_item"] ∧
    Gen.HeapIdx.sift_up_site1_args = ["parent_item", "child_item"] ∧
    (∀ r, r < 2^32 → (Gen.HeapIdx.sift_down_site1_test r = true ↔ (0 < r ∧ r < 2^31))) ∧
    (∀ r, r < 2^32 → (Gen.HeapIdx.sift_down_site2_test r = true ↔ (0 < r ∧ r < 2^31))) ∧
    (∀ r, r < 2^32 → (Gen.HeapIdx.sift_up_site1_test r = true ↔ (0 < r ∧ r < 2^31))) ∧
    (∀ (pred : Nat → Nat → Nat), (∀ a b, pred a b < 2^32) → ∀ a b,
      (cmpOfPred pred).gt a b = Gen.HeapIdx.sift_down_site1_test (pred a b) ∧
      (cmpOfPred pred).gt a b = Gen.HeapIdx.sift_down_site2_test (pred a b) ∧
      (cmpOfPred pred).gt a b = Gen.HeapIdx.sift_up_site1_test (pred a b)) := by
  obtain ⟨h1, h2, h3, h4, h5, h6⟩ := sift_sites_bridge
  exact ⟨h1, h2, h3, h4, h5, h6, cmpOfPred_gt⟩

/-! ### The instance `Nat` with `≤` (the comparator of the C06 harness) -/

/-- heap order for `natCmp` is the numeric one -/
theorem c06_heap_inv_nat {g : G} (h : Reach natCmp g) :
    (∀ i, 0 < i → i < g.q.items.size → kAt g.q.items ((i - 1) / 2) ≤ kAt g.q.items i) ∧ BpOK g.q := by
  obtain ⟨h1, h2⟩ := c06_heap_inv natCmp_ok h
  exact ⟨fun i hi hn => (natCmp_le _ _).mp (h1 i hi hn), h2⟩

/-- `pop` / `top` on `Nat` keys return an element whose key is numerically ≤ every stored key -/
theorem c06_pop_top_min_nat {g : G} (h : Reach natCmp g) (hne : g.ref ≠ []) :
    (∃ e, (gstep natCmp g .pop).2 = .elem e ∧ e ∈ g.ref ∧ ∀ x ∈ g.ref, e.key ≤ x.key) ∧
    (∃ e, (gstep natCmp g .top).2 = .elem e ∧ e ∈ g.ref ∧ ∀ x ∈ g.ref, e.key ≤ x.key) := by
  obtain ⟨e, h1, h2, h3, _⟩ := (c06_pop_min natCmp_ok h).2 hne
  obtain ⟨e', h1', h2', h3'⟩ := (c06_top_min natCmp_ok h).2.2 hne
  exact ⟨⟨e, h1, h2, fun x hx => (natCmp_le _ _).mp (h3 x hx)⟩, ⟨e', h1', h2', fun x hx => (natCmp_le _ _).mp (h3' x hx)⟩⟩

/-! The hypotheses are satisfiable by non-trivial states: a dynamic queue after six ops with two
handles (one arriving late), and a full static queue. -/

def demoOps : List Op :=
  [.push 5 none, .push 3 none, .push 4 (some 1), .push 1 none, .push 1 (some 0), .pop]

example : CmpOK natCmp := natCmp_ok
example : legal natCmp (G.init initDynamic) demoOps = true := by decide
example : Reach natCmp (run natCmp (G.init initDynamic) demoOps) :=
  ⟨initDynamic, demoOps, Or.inl rfl, by decide, by decide, rfl⟩
example : (run natCmp (G.init initDynamic) demoOps).q.items.toList.map (·.key) = [1, 3, 4, 5] := by decide
example : (run natCmp (G.init initDynamic) demoOps).q.handles 0 = some 0 ∧
    (run natCmp (G.init initDynamic) demoOps).q.handles 1 = some 2 := by decide
example : Reach natCmp (run natCmp (G.init (initStatic 2)) [.push 2 none, .push 1 none]) :=
  ⟨initStatic 2, _, Or.inr ⟨2, rfl⟩, by decide, by decide, rfl⟩
example : (gstep natCmp (run natCmp (G.init (initStatic 2)) [.push 2 none, .push 1 none]) (.push 0 none)).2 = .err .exceedsMax := by
  decide

end AwsVerif.Props.C06
