import AwsVerif.Model.Json
import AwsVerif.Proofs.C11.Str
import AwsVerif.Proofs.C11.Top
import AwsVerif.Proofs.C11.Cmp
import AwsVerif.Proofs.C11.Access
import AwsVerif.Proofs.C11.Rfc
import AwsVerif.Proofs.C11.RfcTree
import AwsVerif.Proofs.C11.Depth
/-!
C11 — JSON values survive serialise / parse; object access is consistent.

All statements are about `AwsVerif.Json` (Model/Json.lean), the transcription of `source/json.c`
over `source/external/cJSON.c`; `env : NumEnv` (libc number formatting, strtod, compare_double on
non-int doubles) is universally quantified everywhere: no theorem depends on it.

Predicates (Proofs/C11): `IntTree t` — strings and keys hold no NUL and every number is an integer
in [INT_MIN, INT_MAX]; `UniqKeys cs t` — inside every object no two members have keys that
`get_object_item(·, ·, cs)` identifies; `depth t` — nesting depth.

PARTIAL.  Numbers that are not int-range integers are *not* covered by any theorem here: the full
statement is `c11_tree_roundtrip_statement` (a `def … : Prop`, not proved — it is a fact about
libc's printf/strtod); the direct oracle tests it on the implementation.  `c11_valid_json` (printed
text accepted by the RFC 8259 recogniser `Proofs/C11/Rfc.lean`) is proved for int-only trees.
-/
namespace AwsVerif.Props.C11
open AwsVerif.Json AwsVerif.Proofs.C11

/-- [A] `parse_string (print_string s) = s` for every byte string without NUL: control characters,
quotes, backslashes, any bytes ≥ 0x80; whatever text follows the closing quote is left untouched. -/
theorem c11_string_roundtrip (s rest : Bytes) (h : noNul s) :
    parseString (printString s ++ rest) = some (s, rest) :=
  parseString_printString s rest h

/-- [A] For every tree up to the nesting limit whose numbers are int-range integers: the compact
text and the formatted text both parse back to the same tree (structure, member order, strings byte
for byte) through `aws_json_value_new_from_string`; `cJSON_Duplicate` reproduces the tree, and the
duplicate compares equal under either case flag provided member keys are unique for that flag. -/
theorem c11_tree_roundtrip_partial (env : NumEnv) (t : JVal) (h : IntTree t)
    (hd : depth t ≤ Gen.CJSON_NESTING_LIMIT) :
    parseText env (printText env false t) = some t ∧
    parseText env (printText env true t) = some t ∧
    duplicate t = t ∧
    (∀ cs, UniqKeys cs t → compare env cs (duplicate t) t = true) :=
  ⟨parseText_printText env false t h hd, parseText_printText env true t h hd, duplicate_eq t,
   fun cs hu => compare_duplicate env cs t h hu⟩

/-- The uniqueness hypothesis of the compare clause is needed: a tree parsed from `{"a":1,"a":2}`
does not compare equal to its own duplicate (`cJSON_Compare` looks members up by key and finds the
first).  Such objects cannot be built through `aws_json_value_add_to_object`, only parsed. -/
theorem c11_compare_duplicate_keys_witness (env : NumEnv) :
    parseText env [123, 34, 97, 34, 58, 49, 44, 34, 97, 34, 58, 50, 125]
        = some (.obj [([97], .num (.int 1)), ([97], .num (.int 2))]) ∧
    compare env true (duplicate (.obj [([97], .num (.int 1)), ([97], .num (.int 2))]))
        (.obj [([97], .num (.int 1)), ([97], .num (.int 2))]) = false := by
  constructor <;> rfl

/-- [A] Parse depth is balanced.  `parseValueS` keeps `input_buffer->depth` as state exactly as
parse_array / parse_object do (`depth++` after the limit check, `depth--` at `success:`, also on the
empty-container `goto success` path).  On every successful parse the counter leaves with the value
it entered with, and the result is that of the nesting-parameter parser `parseValue`; the two accept
the same texts.  So acceptance depends only on the true nesting depth (≤ CJSON_NESTING_LIMIT, the
constant generated from cJSON.h) and never on how many sibling containers came before; the
round-trip theorem holds verbatim for the state-carrying parser the driver runs. -/
theorem c11_parse_depth_balanced (env : NumEnv) :
    (∀ f d s v r d', parseValueS env f d s = some (v, r, d') → d' = d ∧ parseValue env f d s = some (v, r)) ∧
    (∀ f d s, (parseValueS env f d s).isSome = (parseValue env f d s).isSome) ∧
    (∀ s, parseTextS env s = parseText env s) ∧
    (∀ fmt t, IntTree t → depth t ≤ Gen.CJSON_NESTING_LIMIT → parseTextS env (printText env fmt t) = some t) := by
  refine ⟨?_, ?_, parseTextS_eq env, ?_⟩
  · intro f d s v r d' h
    rw [(depth_balanced_all env f).1 d s] at h
    cases hp : parseValue env f d s with
    | none => simp [hp, liftV] at h
    | some p =>
      obtain ⟨v0, r0⟩ := p
      simp only [hp, liftV, Option.map_some, Option.some.injEq, Prod.mk.injEq] at h
      obtain ⟨h1, h2, h3⟩ := h
      subst h1 h2 h3
      exact ⟨rfl, rfl⟩
  · intro f d s
    rw [(depth_balanced_all env f).1 d s]
    cases parseValue env f d s <;> simp [liftV]
  · intro fmt t h hd
    rw [parseTextS_eq]
    exact parseText_printText env fmt t h hd

/-- The nesting limit is sharp: `[[…]]` one level deeper than the limit is printed but not read
back (checked on the model for the generated constant by evaluation of a small instance of the
guard: depth `d ≥ CJSON_NESTING_LIMIT` refuses `[` and `{`). -/
theorem c11_nesting_guard (env : NumEnv) (f d : Nat) (r : Bytes) (h : d ≥ Gen.CJSON_NESTING_LIMIT) :
    parseValue env (f + 1) d (91 :: r) = none ∧ parseValue env (f + 1) d (123 :: r) = none := by
  constructor <;> simp [parseValue, startsWith, isDigit, h]

/-- [A] Object access.  If `add k v` on `o` succeeds giving `o'`, then: `o` was an object without a
member matching `k`; `get k` on `o'` returns `v`; `has k`; `remove k` succeeds, gives back `o`, and
then `has k = false`; a second `add` with a key equal to `k` (up to ASCII case — cJSON's lookup) is
refused with no error raised (the object is not touched: the call returns before any update). -/
theorem c11_object_access (o o' : JVal) (k : Bytes) (v : JVal) (hadd : addToObject o k v = .ok o') :
    hasKey o k = false ∧
    getFromObject o' k = .ok v ∧
    hasKey o' k = true ∧
    removeFromObject o' k = .ok o ∧
    (∀ k' v', keyEq false k' k = true → addToObject o' k' v' = .error .plain) := by
  cases o with
  | obj ms =>
    simp only [addToObject] at hadd
    by_cases hh : hasMember k ms = true
    · simp [hh] at hadd
    · have hnone : findMember false k ms = none := (hasMember_false_iff k ms).mp (by simpa using hh)
      simp only [hh, Bool.false_eq_true, if_false, Except.ok.injEq] at hadd
      subst hadd
      have hf := findMember_append_new k v ms hnone
      have he := eraseMember_append_new k v ms hnone
      refine ⟨by simpa [hasKey] using hh, by simp [getFromObject, hf], by simp [hasKey, hasMember, hf],
        by simp [removeFromObject, hasMember, hf, he], ?_⟩
      intro k' v' hk
      have := findMember_congr k k' hk (ms ++ [(k, v)])
      simp [addToObject, hasMember, this, hf]
  | null => simp [addToObject] at hadd
  | bool b => simp [addToObject] at hadd
  | num n => simp [addToObject] at hadd
  | str s => simp [addToObject] at hadd
  | arr xs => simp [addToObject] at hadd

/-- [A] Array access: appending keeps every earlier index and puts the new element at index
`size` (indices follow insertion order); `get i` returns the i-th element and `remove i` deletes
exactly it for `i < size`; every index `≥ size` fails with AWS_ERROR_INVALID_INDEX for both get and
remove (and remove then changes nothing: no array is returned). -/
theorem c11_array_access (xs : List JVal) (v : JVal) :
    addArrayElement (.arr xs) v = .ok (.arr (xs ++ [v])) ∧
    getArrayElement (.arr (xs ++ [v])) xs.length = .ok v ∧
    (∀ i, i < xs.length → getArrayElement (.arr (xs ++ [v])) i = getArrayElement (.arr xs) i) ∧
    (∀ i (hi : i < xs.length), getArrayElement (.arr xs) i = .ok xs[i]) ∧
    arraySize (.arr xs) = .ok xs.length ∧
    (∀ i (_hi : i < xs.length), removeArrayElement (.arr xs) i = .ok (.arr (xs.eraseIdx i))) ∧
    (∀ i, i ≥ xs.length → getArrayElement (.arr xs) i = .error .invalidIndex ∧
                          removeArrayElement (.arr xs) i = .error .invalidIndex) := by
  refine ⟨rfl, ?_, ?_, ?_, rfl, ?_, ?_⟩
  · simp [getArrayElement]
  · intro i hi
    have h1 : ¬ i ≥ (xs ++ [v]).length := by simp; omega
    have h2 : ¬ i ≥ xs.length := by omega
    simp only [getArrayElement, h1, h2, if_false, List.getElem?_append_left hi]
  · intro i hi
    have h2 : ¬ i ≥ xs.length := by omega
    simp [getArrayElement, h2, hi]
  · intro i hi
    have h2 : ¬ i ≥ xs.length := by omega
    simp [removeArrayElement, h2]
  · intro i hi
    simp [getArrayElement, removeArrayElement, hi]

/-- `aws_json_value_add_array_element` applied to each of `vs` in turn -/
def addAll (a : JVal) : List JVal → Except Err JVal
  | [] => .ok a
  | v :: r => match addArrayElement a v with
    | .ok a' => addAll a' r
    | .error e => .error e

/-- Values added one after the other to an array are appended in insertion order. -/
theorem c11_array_insertion_order (pre vs : List JVal) : addAll (.arr pre) vs = .ok (.arr (pre ++ vs)) := by
  induction vs generalizing pre with
  | nil => simp [addAll]
  | cons v r ih => simp [addAll, addArrayElement, ih (pre ++ [v])]

/-- [A] A duplicate is a WORKING tree, not only an equal-looking one: every operation of the access
layer — add, get, has, remove on it as an object; append, index, remove, size on it as an array; the
same through any path of getter steps into it (`getAt`/`setAt`: a child container of the duplicate);
printing — behaves on `duplicate t` exactly as on `t`.  Hence `c11_object_access` and
`c11_array_access` hold for duplicates and for containers inside them (in the implementation:
`cJSON_Duplicate` must rebuild child/next/prev so that `add_item_to_array` can append). -/
theorem c11_duplicate_behaves (t : JVal) :
    (∀ k v, addToObject (duplicate t) k v = addToObject t k v) ∧
    (∀ k, getFromObject (duplicate t) k = getFromObject t k) ∧
    (∀ k, hasKey (duplicate t) k = hasKey t k) ∧
    (∀ k, removeFromObject (duplicate t) k = removeFromObject t k) ∧
    (∀ v, addArrayElement (duplicate t) v = addArrayElement t v) ∧
    (∀ i, getArrayElement (duplicate t) i = getArrayElement t i) ∧
    (∀ i, removeArrayElement (duplicate t) i = removeArrayElement t i) ∧
    arraySize (duplicate t) = arraySize t ∧
    (∀ p, getAt (duplicate t) p = getAt t p) ∧
    (∀ p v, setAt (duplicate t) p v = setAt t p v) ∧
    (∀ env fmt, printText env fmt (duplicate t) = printText env fmt t) := by
  rw [duplicate_eq]
  simp

/-- [A] Operating through a borrowed pointer (a child reached by `get_from_object` /
`get_array_element` steps) is coherent: after the child at a resolving path has been changed to
`v'` (e.g. by an add into it), the same path yields `v'`.  With `c11_object_access` applied to the
child this gives "added member found / read back / removed" for containers inside a tree. -/
theorem c11_borrowed_ref_coherent (t c v' : JVal) (p : List Step) (h : getAt t p = .ok c) :
    getAt (setAt t p v') p = .ok v' :=
  getAt_setAt v' p t c h

/-- [A] Iteration (`aws_json_const_iterate_object` / `_array`) visits the children in list order:
all of them when the callback neither fails nor stops; exactly the first `k+1` and AWS_OP_SUCCESS
when the callback clears `should_continue` at its k-th call; exactly the first `k+1` and AWS_OP_ERR
when the callback fails at its k-th call. -/
theorem c11_iterate (ms : List (Bytes × JVal)) (xs : List JVal) :
    iterateObject (.obj ms) none none = .ok (ms, true) ∧
    iterateArray (.arr xs) none none = .ok (xs, true) ∧
    (∀ k, k < ms.length → iterateObject (.obj ms) (some k) none = .ok (ms.take (k + 1), true)) ∧
    (∀ k, k < xs.length → iterateArray (.arr xs) (some k) none = .ok (xs.take (k + 1), true)) ∧
    (∀ k, k < ms.length → iterateObject (.obj ms) none (some k) = .ok (ms.take (k + 1), false)) ∧
    (∀ k, k < xs.length → iterateArray (.arr xs) none (some k) = .ok (xs.take (k + 1), false)) := by
  refine ⟨by simp [iterateObject, iterateFrom_all], by simp [iterateArray, iterateFrom_all], ?_, ?_, ?_, ?_⟩
  · intro k hk
    have := iterateFrom_stop none ms 0 k hk (by intro j e; cases e)
    simpa [iterateObject] using this
  · intro k hk
    have := iterateFrom_stop none xs 0 k hk (by intro j e; cases e)
    simpa [iterateArray] using this
  · intro k hk
    have := iterateFrom_fail none ms 0 k hk (by intro j e; cases e)
    simpa [iterateObject] using this
  · intro k hk
    have := iterateFrom_fail none xs 0 k hk (by intro j e; cases e)
    simpa [iterateArray] using this

/-- [A] `compare` tells different values apart at the top of the two trees: booleans and strings
are equal only when identical, values of different JSON types (true vs false included: cJSON keeps
them as two types) never are, arrays of different length never are, and an object lacking a key of
the other (in either direction) never is. -/
theorem c11_compare_distinguishes (env : NumEnv) (cs : Bool) :
    (∀ a b, compare env cs (.bool a) (.bool b) = (a == b)) ∧
    (∀ a b, compare env cs (.str a) (.str b) = (a == b)) ∧
    (∀ b, compare env cs .null (.bool b) = false ∧ compare env cs (.bool b) .null = false) ∧
    (∀ s b, compare env cs (.str s) (.bool b) = false ∧ compare env cs (.str s) .null = false) ∧
    (∀ xs ys, xs.length ≠ ys.length → compare env cs (.arr xs) (.arr ys) = false) ∧
    (∀ xs ms, compare env cs (.arr xs) (.obj ms) = false ∧ compare env cs (.obj ms) (.arr xs) = false) ∧
    (∀ ms ns m, m ∈ ms → findMember cs m.1 ns = none →
        compare env cs (.obj ms) (.obj ns) = false ∧ compare env cs (.obj ns) (.obj ms) = false) := by
  refine ⟨?_, ?_, ?_, ?_, ?_, ?_, ?_⟩
  · intro a b; simp [Json.compare, compareF, depth]
  · intro a b; simp [Json.compare, compareF, depth]
  · intro b; simp [Json.compare, compareF, depth]
  · intro s b; simp [Json.compare, compareF, depth]
  · intro xs ys h
    simp [Json.compare, compareF, depth, h]
  · intro xs ms; simp [Json.compare, compareF, depth]
  · intro ms ns m hm hf
    have hall : ms.all (fun m => match findMember cs m.1 ns with
        | some n => compareF env cs (depth (.obj ms)) m.2 n.2
        | none => false) = false := by
      rw [List.all_eq_false]
      exact ⟨m, hm, by simp [hf]⟩
    have hall' : ms.all (fun m => match findMember cs m.1 ns with
        | some n => compareF env cs (depth (.obj ns)) m.2 n.2
        | none => false) = false := by
      rw [List.all_eq_false]
      exact ⟨m, hm, by simp [hf]⟩
    constructor
    · simp only [Json.compare, compareF, Bool.and_eq_false_iff]
      exact Or.inl hall
    · simp only [Json.compare, compareF, Bool.and_eq_false_iff]
      exact Or.inr hall'

/-- [A] The case flag governs BOTH lookups of the object comparison.  An object whose member names
differ only in letter case (`{"a":1,"A":2}` — only a parser can produce it) has pairwise distinct
keys for the case-sensitive lookup, so by `c11_tree_roundtrip_partial` it compares equal to its
duplicate under `case_sensitive = true`, in both argument orders; under `case_sensitive = false` the
lookup identifies the two keys and the comparison fails (the known duplicate-key behaviour). -/
theorem c11_compare_case_variant_keys (env : NumEnv) :
    let t : JVal := .obj [([97], .num (.int 1)), ([65], .num (.int 2))]
    parseText env [123, 34, 97, 34, 58, 49, 44, 34, 65, 34, 58, 50, 125] = some t ∧
    UniqKeys true t ∧
    compare env true (duplicate t) t = true ∧ compare env true t (duplicate t) = true ∧
    compare env false (duplicate t) t = false := by
  refine ⟨rfl, ?_, rfl, rfl, rfl⟩
  simp only [UniqKeys, UniqMembers, List.pairwise_cons]
  decide

/-- [B, string part] every string literal the printer emits — for ANY byte string, with any text
after it — is an RFC 8259 `string` for the independent recogniser `Rfc` (all control characters
escaped, quote and backslash escaped, `\u` followed by four hex digits). -/
theorem c11_valid_json_strings (s rest : Bytes) : Rfc.string (printString s ++ rest) = some rest :=
  Rfc.rfc_printString s rest

/-- [B] The whole printed text (compact or formatted) of a tree whose numbers are int-range
integers is accepted by the independent RFC 8259 recogniser `Rfc.accepts` (`ws value ws`: structure,
separators, whitespace, strings, numbers without leading zeros) — at any nesting depth.  That an
independent *reader* also reconstructs the same tree is tested (Python's json module in the
oracle), not proved; for numbers beyond int the text is checked by that test only. -/
theorem c11_valid_json (env : NumEnv) (fmt : Bool) (t : JVal) (h : IntTree t) :
    Rfc.accepts (printText env fmt t) = true :=
  Rfc.accepts_printText env fmt t h

/-- the bit pattern is a finite double -/
def finiteBits (b : UInt64) : Prop := (b.toNat / 2 ^ 52) % 2048 ≠ 2047

mutual
/-- a tree the property quantifies over: C strings, int-class numbers in range, every other number
a finite double that is not int-class -/
def FinTree : JVal → Prop
  | .null => True
  | .bool _ => True
  | .num (.int n) => INT_MIN ≤ n ∧ n ≤ INT_MAX
  | .num (.opaque b) => finiteBits b ∧ intOfBits? b = none
  | .str s => noNul s
  | .arr xs => FinElems xs
  | .obj ms => FinMembers ms
def FinElems : List JVal → Prop
  | [] => True
  | x :: r => FinTree x ∧ FinElems r
def FinMembers : List (Bytes × JVal) → Prop
  | [] => True
  | (k, v) :: r => noNul k ∧ FinTree v ∧ FinMembers r
end

mutual
/-- same structure, member order, keys, strings, booleans, nulls; numbers related by `R` -/
def SameUpTo (R : UInt64 → UInt64 → Prop) : JVal → JVal → Prop
  | .null, .null => True
  | .bool a, .bool b => a = b
  | .num a, .num b => R a.bits b.bits
  | .str a, .str b => a = b
  | .arr xs, .arr ys => SameElems R xs ys
  | .obj ms, .obj ns => SameMembers R ms ns
  | _, _ => False
def SameElems (R : UInt64 → UInt64 → Prop) : List JVal → List JVal → Prop
  | [], [] => True
  | x :: r, y :: r' => SameUpTo R x y ∧ SameElems R r r'
  | _, _ => False
def SameMembers (R : UInt64 → UInt64 → Prop) : List (Bytes × JVal) → List (Bytes × JVal) → Prop
  | [], [] => True
  | (k, x) :: r, (k', y) :: r' => k = k' ∧ SameUpTo R x y ∧ SameMembers R r r'
  | _, _ => False
end

/-- NOT PROVED (stated only): the full property for all finite doubles.  `R a b` is the property's
number clause on bit patterns ("equal when `a` has at most 15 significant decimal digits, otherwise
within one part in 2^52").  Whether libc's `printf("%1.15g"/"%1.17g")` + `strtod` (here `env.tok`,
`env.strtod`) achieve `R` for every finite double is a fact about libc and about cJSON's
`compare_double` acceptance test that the model leaves uninterpreted — and the direct oracle shows it
is in fact FALSE at the margins on the current code (known findings C11-huge-inf, C11-relerr-margin).
The statement: if print-then-read of every single finite non-int number satisfies `R`, every tree up
to the nesting limit survives print + parse (compact and formatted) up to `R` on its numbers. -/
def c11_tree_roundtrip_statement (R : UInt64 → UInt64 → Prop) : Prop :=
  ∀ (env : NumEnv),
    (∀ b, finiteBits b → intOfBits? b = none →
        ∃ n', parseText env (env.tok b) = some (.num n') ∧ R b n'.bits) →
    (∀ n : Int, R (bitsOfInt n) (bitsOfInt n)) →
    ∀ (fmt : Bool) (t : JVal), FinTree t → depth t ≤ Gen.CJSON_NESTING_LIMIT →
      ∃ t', parseText env (printText env fmt t) = some t' ∧ SameUpTo R t t'

/-! ### the hypotheses are satisfiable by non-trivial trees; small evaluated instances (tests) -/

/-- {"k":[1,-2147483648,"a\n\"é"],"K2":{"":null,"t":true}} -/
def sample : JVal :=
  .obj [([107], .arr [.num (.int 1), .num (.int (-2147483648)), .str [97, 10, 34, 0xC3, 0xA9]]),
        ([75, 50], .obj [([], .null), ([116], .bool true)])]

example : IntTree sample := by
  simp only [sample, IntTree, IntMembers, IntElems, noNul, INT_MIN, INT_MAX]
  decide

example : UniqKeys false sample := by
  simp only [sample, UniqKeys, UniqMembers, UniqElems, List.pairwise_cons]
  decide

example : depth sample ≤ Gen.CJSON_NESTING_LIMIT := by decide

def env0 : NumEnv := { tok := fun _ => [], strtod := fun _ => 0, cmp := fun _ _ => false }

example : printText env0 false sample =
    [123, 34, 107, 34, 58, 91, 49, 44, 45, 50, 49, 52, 55, 52, 56, 51, 54, 52, 56, 44, 34, 97, 92, 110, 92, 34, 195, 169, 34, 93, 44, 34, 75, 50, 34, 58, 123, 34, 34, 58, 110, 117, 108, 108, 44, 34, 116, 34, 58, 116, 114, 117, 101, 125, 125] := by decide

example : Rfc.accepts (printText env0 false sample) = true ∧ Rfc.accepts (printText env0 true sample) = true := by
  decide

example : Rfc.accepts [91, 49, 44, 93] = false ∧ Rfc.accepts [34, 10, 34] = false ∧ Rfc.accepts [48, 49] = false := by
  decide

/-- parse side: escapes, a surrogate pair (`\uD83D\uDE00` → F0 9F 98 80), whitespace, trailing text -/
example : parseText env0 
    [32, 91, 32, 34, 92, 117, 48, 48, 101, 57, 92, 117, 68, 56, 51, 68, 92, 117, 68, 69, 48, 48, 92, 47, 34, 32, 44, 32, 123, 34, 97, 34, 32, 58, 32, 45, 55, 32, 125, 32, 93, 32, 120]
    = some (.arr [.str [0xC3, 0xA9, 0xF0, 0x9F, 0x98, 0x80, 47], .obj [([97], .num (.int (-7)))]]) := by rfl

example : parseText env0 [34, 92, 117, 68, 67, 48, 48, 34] = none := by rfl
example : parseText env0 [91, 49, 44, 93] = none := by rfl

/-- sibling empty containers do not use up the nesting budget: entered with the counter at limit-2,
`[{},{},[]]` parses (its containers sit at limit-1) and the counter is back at limit-2 -/
example : parseValueS env0 40 (Gen.CJSON_NESTING_LIMIT - 2) [91, 123, 125, 44, 123, 125, 44, 91, 93, 93] =
    some (.arr [.obj [], .obj [], .arr []], [], Gen.CJSON_NESTING_LIMIT - 2) := by rfl

end AwsVerif.Props.C11
