import AwsVerif.Model.LogSpec
import AwsVerif.Proofs.C14.Theorems
/-!
# C14 — logging delivers every accepted line exactly once, whole and in order

Property theorems about `AwsVerif/Model/Log.lean` (proofs: `AwsVerif/Proofs/C14/*.lean`; hypotheses
vocabulary: `AwsVerif/Model/LogSpec.lean`).  `s_advance_and_clamp_index`, the size constants, the level
names and the five format literals are regenerated from /repo on every run
(`AwsVerif/Gen/LogClamp.lean`), so the statements below are about what log_formatter.c / logging.c
say now.
-/
namespace AwsVerif.Props.C14
open AwsVerif.Log AwsVerif.Gen.Log AwsVerif.Proofs.C14







/-- **Line shape.**  When the buffer can hold the whole line and its terminator, the formatter
succeeds, `amount_written` is the length of `prefix ++ message ++ "\n"`, those bytes are exactly that
line (whatever the buffer held before), a NUL follows it inside the buffer, and with NUL-free inputs
the line contains no NUL and its only newline is the last byte. -/
theorem c14_line_shape (buf : Bytes) (d : FmtData) (hbuf : buf.length = d.total) (hr : InRange d)
    (hts : d.ts ≠ []) (hfit : (fullLine d).length + 1 ≤ d.total) :
    ∃ buf', formatLine buf d = .ok (buf', (fullLine d).length) ∧
      lineOf (buf', (fullLine d).length) = linePrefix d ++ d.msg ++ [10] ∧
      buf'.length = d.total ∧ buf'[(fullLine d).length]? = some 0 ∧
      (CleanData d → (0:UInt8) ∉ lineOf (buf', (fullLine d).length) ∧ (10:UInt8) ∉ linePrefix d ++ d.msg) :=
  Thm.c14_line_shape buf d hbuf hr hts hfit

/-- the default formatter's allocation (`required + MAX_LOG_LINE_PREFIX_SIZE + subject length`) always
holds the whole line and its terminator, given the documented bounds on the libc / pthreads text -/
theorem c14_default_alloc_enough (level : Nat) (subject msg ts tid : Bytes) (hl : level < AWS_LL_COUNT)
    (hts : ts.length ≤ AWS_DATE_TIME_STR_MAX_LEN) (htid : tid.length < AWS_THREAD_ID_T_REPR_BUFSZ) :
    (fullLine { total := defaultTotal msg subject, level := level, subject := some subject, msg := msg, ts := ts, tid := tid }).length + 1
      ≤ defaultTotal msg subject :=
  Thm.c14_default_alloc_enough level subject msg ts tid hl hts htid

/-- hence the line the default formatter hands to the channel is always the complete line -/
theorem c14_default_line (level : Nat) (subject msg ts tid : Bytes) (hl : level < AWS_LL_COUNT)
    (hts0 : ts ≠ []) (hts : ts.length ≤ AWS_DATE_TIME_STR_MAX_LEN) (htid : tid.length < AWS_THREAD_ID_T_REPR_BUFSZ)
    (hsz : msg.length + subject.length < 2147483000) :
    defaultFormat level subject msg ts tid =
      .ok (fullLine { total := defaultTotal msg subject, level := level, subject := some subject, msg := msg, ts := ts, tid := tid }) :=
  Thm.c14_default_line level subject msg ts tid hl hts0 hts htid hsz

/-- **Truncated shape.**  For EVERY `total_length ≥ 2` and all segment contents the formatter either
reports the documented error — exactly when the timestamp does not fit behind the level tag — or
succeeds with: the output inside the buffer (`amount_written` bytes and the terminator after them),
the line = a cut of the untruncated line body followed by one newline (the cut is the first
`total_length - 2` bytes, i.e. everything when it fits), and with NUL-free, newline-free inputs no
NUL in the line and no newline before its last byte.  No write ever leaves the buffer. -/
theorem c14_truncated_shape (buf : Bytes) (d : FmtData) (hbuf : buf.length = d.total) (h2 : 2 ≤ d.total)
    (hr : InRange d) :
    (formatLine buf d = .error .invalidArgument ∧
        (d.ts = [] ∨ d.total - 2 < (levelSeg d.level).length + d.ts.length)) ∨
    (∃ buf' aw cut, formatLine buf d = .ok (buf', aw) ∧
        buf'.length = d.total ∧ aw + 1 ≤ d.total ∧ buf'[aw]? = some 0 ∧
        lineOf (buf', aw) = cut ++ [10] ∧ cut = (body d).take (d.total - 2) ∧ cut <+: body d ∧
        (CleanData d → (0:UInt8) ∉ lineOf (buf', aw) ∧ (10:UInt8) ∉ cut)) :=
  Thm.c14_truncated_shape buf d hbuf h2 hr

/-- the other rejections: an out-of-range level, and a buffer without room for newline and terminator -/
theorem c14_rejects (buf : Bytes) (d : FmtData) (h : ¬ d.level < AWS_LL_COUNT ∨ d.total < 2) :
    formatLine buf d = .error .invalidArgument :=
  Thm.c14_rejects buf d h

/-- the no-alloc logger's fixed buffer: the line is the first `MAXIMUM_NO_ALLOC_LOG_LINE_SIZE - 2` bytes
of the body and a newline, whatever the stack buffer contained -/
theorem c14_noalloc_line (stack : Bytes) (level : Nat) (subject msg ts tid : Bytes)
    (hstack : stack.length = MAXIMUM_NO_ALLOC_LOG_LINE_SIZE) (hl : level < AWS_LL_COUNT) (hts0 : ts ≠ [])
    (hts : ts.length ≤ AWS_DATE_TIME_STR_MAX_LEN) (hsz : msg.length + subject.length + tid.length < 2147483000) :
    noallocFormat stack level subject msg ts tid =
      .ok ((body { total := MAXIMUM_NO_ALLOC_LOG_LINE_SIZE, level := level, subject := some subject, msg := msg, ts := ts, tid := tid }).take
            (MAXIMUM_NO_ALLOC_LOG_LINE_SIZE - 2) ++ [10]) :=
  Thm.c14_noalloc_line stack level subject msg ts tid hstack hl hts0 hts hsz

/-- **A registered subject whose name is NULL**: the default formatter sizes the line without a subject length (its
`strlen` is guarded) and the line is complete and simply has no `[subject]` field — prefix `[LEVEL] [time] [tid] ` then
` - ` and the message. -/
theorem c14_default_line_null_subject (level : Nat) (msg ts tid : Bytes) (hl : level < AWS_LL_COUNT)
    (hts0 : ts ≠ []) (hts : ts.length ≤ AWS_DATE_TIME_STR_MAX_LEN) (htid : tid.length < AWS_THREAD_ID_T_REPR_BUFSZ)
    (hsz : msg.length < 2147483000) :
    defaultFormatNull level msg ts tid =
      .ok (fullLine { total := defaultTotal msg [], level := level, subject := none, msg := msg, ts := ts, tid := tid }) :=
  Thm.c14_default_line_null_subject level msg ts tid hl hts0 hts htid hsz

/-! ## Level gate and pipeline -/

/-- **Gate.**  A call produces a line iff its level is ≤ the logger's current level (given a valid level
and a channel that accepts). -/
theorem c14_gate (p : Pipe) (c : Call) (hch : p.chan = .foreground) (hl : c.level < AWS_LL_COUNT) (hts0 : c.ts ≠ [])
    (hts : c.ts.length ≤ AWS_DATE_TIME_STR_MAX_LEN) (htid : c.tid.length < AWS_THREAD_ID_T_REPR_BUFSZ)
    (hsz : c.msg.length + c.subject.length < 2147483000) (hnn : c.subjectNull = false) :
    (c.level ≤ p.level →
        (logf p c).written = p.written ++
          [fullLine { total := defaultTotal c.msg c.subject, level := c.level, subject := some c.subject, msg := c.msg, ts := c.ts, tid := c.tid }]) ∧
    (¬ c.level ≤ p.level → logf p c = p) :=
  Thm.c14_gate p c hch hl hts0 hts htid hsz hnn

/-- every line handed to a channel is destroyed exactly once by the time the call returns, also when the
send fails (and then nothing reaches the writer) -/
theorem c14_pipeline_ownership (p : Pipe) (c : Call) :
    (∃ line, (pipelineLog p c).1.destroyed = p.destroyed ++ [line] ∧
        ((pipelineLog p c).1.written = p.written ++ [line] ∧ p.chan = .foreground ∨
         (pipelineLog p c).1.written = p.written ∧ p.chan = .failing ∧ (pipelineLog p c).2 = false)) ∨
    ((pipelineLog p c).1 = p ∧ (pipelineLog p c).2 = false) :=
  Thm.c14_pipeline_ownership p c

/-- **A level store affects all later calls**: after `set_log_level l`, and until the next store, exactly
the calls with level ≤ `l` produce a line, each its complete line, in call order. -/
theorem c14_gate_after_store (p : Pipe) (l : Nat) (h : List Op) (hch : p.chan = .foreground) (hns : noStores h)
    (hwf : allWellFormed h) :
    (run (setLevel p l) h).written = p.written ++ passing l h ∧ (run (setLevel p l) h).level = l :=
  Thm.c14_gate_after_store p l h hch hns hwf

/-- **A failing writer changes nothing about ownership.**  With the foreground channel, whether the writer's
`write` succeeds or fails for this line, the call reports success, the line counts as handed to the writer, and it
is destroyed exactly once (by the channel — the pipeline must not, and does not, destroy it again). -/
theorem c14_writer_failure (p : Pipe) (c : Call) (line : Bytes) (hch : p.chan = .foreground)
    (hf : callFormat c = .ok line) :
    (pipelineLog p c).2 = true ∧
    (pipelineLog p c).1.written = p.written ++ [line] ∧
    (pipelineLog p c).1.destroyed = p.destroyed ++ [line] ∧
    (pipelineLog p c).1.writeErrors = p.writeErrors + (if c.writeOk then 0 else 1) :=
  Thm.c14_writer_failure p c line hch hf

/-- **Level names round-trip**: every level has a name, `aws_string_to_log_level` maps that name — in the table's
spelling, in lower case, in any ASCII case mix — back to exactly that level (so the seven names are pairwise distinct
ignoring case), and whatever it accepts is a level below AWS_LL_COUNT whose name equals the text ignoring case. -/
theorem c14_level_names :
    (∀ l, l < AWS_LL_COUNT → ∃ name, levelToString l = some name ∧ stringToLevel name = some l ∧
        stringToLevel (name.map asciiLower) = some l) ∧
    (∀ s a, a.map asciiLower = s.map asciiLower → stringToLevel a = stringToLevel s) ∧
    (∀ s l, stringToLevel s = some l → l < AWS_LL_COUNT ∧ ∃ name, levelToString l = some name ∧ eqIgnoreCase s name = true) ∧
    (∀ l, ¬ l < AWS_LL_COUNT → levelToString l = none) :=
  Thm.c14_level_names 

/-! ## Log subjects -/

/-- **Subject lookup** (`s_get_log_subject_info_by_id`, its integer skeleton regenerated from logging.c): for every
slot table and every subject id the lookup never reads at or behind the end of a registered list, and it returns an
entry exactly when the id lies below the subject space, its slot is registered and its index in the slot is below that
list's count — then the entry at that index; in every other case the name is "Unknown". -/
theorem c14_subject_lookup (slots : Slots) (subject : Nat) :
    (∀ i c, subjectLookup slots subject ≠ .oob i c) ∧
    (∀ n, subjectLookup slots subject = .entry n ↔
      subject < 2 ^ AWS_LOG_SUBJECT_STRIDE_BITS * AWS_PACKAGE_SLOTS ∧
      ∃ names, slots (subject / 2 ^ AWS_LOG_SUBJECT_STRIDE_BITS) = some names ∧
        subject % 2 ^ AWS_LOG_SUBJECT_STRIDE_BITS < names.length ∧
        names[subject % 2 ^ AWS_LOG_SUBJECT_STRIDE_BITS]? = some n) ∧
    (subjectName slots subject).isSome = true :=
  Thm.c14_subject_lookup slots subject

/-! ## Background channel: every interleaving of senders, background thread, clean-up and spurious wake-ups

`Bg.Reachable s`: `s` is reached from the initial state by any sequence of `Bg.Act`s — new sends by any
thread at any time (also concurrently with or after clean-up), steps of any thread in any order,
spurious wake-ups.  A line is `(sender, k)`: the k-th line that sender handed to `send` (numbers are
assigned in call order by `startSend`). `pushed` = lines that entered the channel, in that order. -/
open AwsVerif.Log.Bg in
/-- **Safety**, in every reachable state:
1. every line that entered the channel is in exactly one of written / the batch being written / pending,
   exactly once (`written ++ batch ++ pending` *is* the entry order, and it has no duplicates);
2. two written lines of the same sender appear in that sender's send order;
3. once clean-up has returned, no step of any thread writes or destroys anything;
4. destroyed lines are written lines, each destroyed at most once, in write order, the line just written
   being the only written line not yet destroyed; when the background thread has exited all are destroyed. -/
theorem c14_bg_safety (s : Sys) (hr : Reachable s) :
    (s.written ++ s.batch ++ s.pending = s.pushed ∧ s.pushed.Nodup) ∧
    s.written.Pairwise (fun a b => a.1 = b.1 → a.2 < b.2) ∧
    (s.clean = .returned → ∀ a s', step s a = some s' → s'.written = s.written ∧ s'.destroyed = s.destroyed) ∧
    (s.destroyed.Nodup ∧ s.destroyed <+: s.written ∧
      ((∀ l, s.cons ≠ .destroy l) → s.destroyed = s.written) ∧ (∀ l, s.cons = .destroy l → s.destroyed ++ [l] = s.written)) :=
  Thm.c14_bg_safety s hr

open AwsVerif.Log.Bg in
/-- **Flush.**  When clean-up has returned, every line whose send had returned before clean-up was
called has been written (and destroyed). -/
theorem c14_bg_flush (s : Sys) (hr : Reachable s) (hret : s.clean = .returned) :
    ∀ l ∈ s.completedAtClean, l ∈ s.written ∧ l ∈ s.destroyed :=
  Thm.c14_bg_flush s hr hret

open AwsVerif.Log.Bg in
/-- **No deadlock.**  Whenever a send or the clean-up is in progress, some thread has an enabled step
(a real step of a thread: not a new call, not a spurious wake-up) — in particular clean-up's join is never
stuck behind a background thread that sleeps on the condition variable.  And no wake-up is lost: a
background thread asleep while nobody holds the mutex has nothing pending and has not been told to finish. -/
theorem c14_bg_no_deadlock (s : Sys) (hr : Reachable s) :
    (((∃ t, s.senders t ≠ .idle) ∨ (s.clean ≠ .idle ∧ s.clean ≠ .returned)) →
        ∃ a s', a.isThreadStep = true ∧ step s a = some s') ∧
    (s.cons = .waiting → s.mutex = none → s.pending = [] ∧ s.finished = false) :=
  Thm.c14_bg_no_deadlock s hr

open AwsVerif.Log.Bg in
/-- mutual exclusion: the mutex field names the one thread that is between its lock and its unlock -/
theorem c14_bg_mutex (s : Sys) (hr : Reachable s) :
    (∀ t, sHolds (s.senders t) = true ↔ s.mutex = some (.sender t)) ∧
    (cHolds s.cons = true ↔ s.mutex = some .consumer) ∧ (kHolds s.clean = true ↔ s.mutex = some .cleaner) :=
  Thm.c14_bg_mutex s hr

/-! ## Foreground channel -/

/-- **Foreground channel**, every interleaving of any number of sending threads: writer calls never
overlap (the mutex), each thread's lines reach the writer in its send order and no line twice, a line is
destroyed at most once and only after it was written, and when every send has returned every written line
has been destroyed. -/
theorem c14_fg_safety (s : Fg.Sys) (hr : Fg.Reachable s) :
    s.inWriter.length ≤ 1 ∧
    s.written.Pairwise (fun a b => a.1 = b.1 → a.2 < b.2) ∧ s.written.Nodup ∧
    s.destroyed.Nodup ∧ (∀ l ∈ s.destroyed, l ∈ s.written) ∧
    ((∀ t, s.pcs t = .idle) → ∀ l ∈ s.written, l ∈ s.destroyed) :=
  Thm.c14_fg_safety s hr

/-! ## No-alloc logger, several threads -/

/-- **No-alloc logger used by any number of threads**, every interleaving, any fwrite allowed to fail: the file holds
exactly the lines the calls formatted whose fwrite succeeded, in the order of their `fwrite`s — none torn, replaced or
duplicated (`file = logged.map some`, which rests on each call formatting into its own buffer); a thread's lines
appear in its call order and no line twice; every call that has returned has its line in the file or had its write
fail; at most one thread is between lock and unlock; every line in the file carries the id of the thread whose call
wrote it (the thread-id cache of the formatter is thread-local); and whenever a call is in progress some thread can
take a step — a failed write does not leave the logger's mutex locked, later calls go through. -/
theorem c14_noalloc_threads (s : Na.Sys) (hr : Na.Reachable s) :
    s.file = s.logged.map some ∧
    s.logged.Pairwise (fun a b => a.1 = b.1 → a.2 < b.2) ∧ s.logged.Nodup ∧
    (∀ l ∈ s.returned, l ∈ s.logged ∨ l ∈ s.failed) ∧
    (∀ t, nHolds (s.pcs t) = true ↔ s.mutex = some t) ∧
    s.logged.map (·.1) = s.writers ∧
    ((∃ t, s.pcs t ≠ .idle) → ∃ t s', Na.step s (.thread t) = some s') :=
  Thm.c14_noalloc_threads s hr

/-! hypotheses of the theorems above are satisfiable by non-trivial data -/
example : ∃ d : FmtData, InRange d ∧ CleanData d ∧ d.ts ≠ [] ∧ d.msg ≠ [] ∧ d.subject.isSome ∧ (fullLine d).length + 1 ≤ d.total :=
  ⟨{ total := 100, level := 4, subject := some [97], msg := [104, 105], ts := [50, 48], tid := [49] },
   ⟨by decide, by decide, by decide⟩,
   ⟨⟨by decide, by decide⟩, ⟨by decide, by decide⟩, ⟨by decide, by decide⟩, fun sj h => by cases h; exact ⟨by decide, by decide⟩⟩,
   by decide, by decide, by decide, by decide⟩
example : ∃ d : FmtData, InRange d ∧ 2 ≤ d.total ∧ d.total < (fullLine d).length :=
  ⟨{ total := 20, level := 2, subject := none, msg := [104, 105], ts := [50, 48], tid := [49] },
   ⟨by decide, by decide, by decide⟩, by decide, by decide⟩

/-! the hypotheses are satisfiable: a run with two senders, clean-up called while one line is still pending,
ends with clean-up returned and both lines written in entry order -/
open AwsVerif.Log.Bg in
example : ∃ s, Reachable s ∧ s.clean = .returned ∧ s.written = [(0, 0), (1, 0)] ∧ s.completedAtClean = [(0, 0), (1, 0)] := by
  have h : (match runActs Sys.init Thm.demoRun with
      | some s => decide (s.clean = .returned ∧ s.written = [(0, 0), (1, 0)] ∧ s.completedAtClean = [(0, 0), (1, 0)])
      | none => false) = true := by decide
  cases hs : runActs Sys.init Thm.demoRun with
  | none => rw [hs] at h; cases h
  | some s =>
    rw [hs] at h
    exact ⟨s, reachable_runActs Reachable.init _ hs, of_decide_eq_true h⟩

end AwsVerif.Props.C14
